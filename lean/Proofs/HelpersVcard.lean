/-
  Proofs.HelpersVcard — line structure of the vCard built by the model: if no escaped value contains a
  CR or LF (hypotheses `T1`, `T2` about the two `str.translate` tables; proved from the generated
  tables in Props/C16.lean), the payload consists of CRLF-terminated lines BEGIN / VERSION / exactly
  one content line per supplied value with the documented property name / END.
-/
import Proofs.HelpersModel

namespace Proofs.Helpers
open Spec.Helpers Model.Helpers

/-- no CR, no LF -/
def NoBreak (s : List Char) : Prop := ∀ x ∈ s, x ≠ '\r' ∧ x ≠ '\n'

theorem NoBreak.append {a b : List Char} (ha : NoBreak a) (hb : NoBreak b) : NoBreak (a ++ b) := by
  intro x hx
  rcases List.mem_append.mp hx with h | h
  · exact ha x h
  · exact hb x h

theorem crlf_line (l rest : List Char) (h : NoBreak l) :
    crlfAux false (l ++ '\r' :: '\n' :: rest) = (crlfAux false rest).map (l :: ·) := by
  induction l with
  | nil => simp [crlfAux]
  | cons c l ih =>
    have hc := h c (by simp)
    have ih' := ih (fun x hx => h x (by simp [hx]))
    simp only [List.cons_append, crlfAux, if_neg hc.1, if_neg hc.2, ih', Option.map_map]
    rfl

theorem crlf_join (lines : List (List Char)) (h : ∀ l ∈ lines, NoBreak l) :
    crlfLines (crlfJoin lines) = some (lines ++ [[]]) := by
  unfold crlfLines crlfJoin
  induction lines with
  | nil => simp [crlfAux]
  | cons l rest ih =>
    simp only [List.map_cons, List.flatten_cons, List.append_assoc, List.cons_append, List.nil_append]
    rw [crlf_line l _ (h l (by simp)), ih (fun x hx => h x (by simp [hx]))]
    simp

/-! ### content lines against property names -/

def linesMatch : List (List Char) → List Str → Bool
  | [], [] => true
  | l :: ls, n :: ns => isPrefix (n ++ [':']) l && linesMatch ls ns
  | _, _ => false

theorem linesMatch_append {a c : List (List Char)} {b d : List Str} (h1 : linesMatch a b = true) (h2 : linesMatch c d = true) :
    linesMatch (a ++ c) (b ++ d) = true := by
  induction a generalizing b with
  | nil => cases b with
    | nil => simpa using h2
    | cons _ _ => simp [linesMatch] at h1
  | cons x xs ih => cases b with
    | nil => simp [linesMatch] at h1
    | cons y ys =>
      simp only [linesMatch, Bool.and_eq_true] at h1
      simp only [List.cons_append, linesMatch, Bool.and_eq_true]
      exact ⟨h1.1, ih h1.2⟩

theorem linesMatch_length {a : List (List Char)} {b : List Str} (h : linesMatch a b = true) : a.length = b.length := by
  induction a generalizing b with
  | nil => cases b <;> simp_all [linesMatch]
  | cons x xs ih => cases b with
    | nil => simp [linesMatch] at h
    | cons y ys => simp only [linesMatch, Bool.and_eq_true] at h; simp [ih h.2]

theorem linesMatch_zip {a : List (List Char)} {b : List Str} (h : linesMatch a b = true) :
    (a.zip b).all (fun p => isPrefix (p.2 ++ [':']) p.1) = true := by
  induction a generalizing b with
  | nil => simp
  | cons x xs ih => cases b with
    | nil => simp
    | cons y ys =>
      simp only [linesMatch, Bool.and_eq_true] at h
      simp only [List.zip_cons_cons, List.all_cons, Bool.and_eq_true]
      exact ⟨h.1, ih h.2⟩

theorem isPrefix_key (k v : List Char) : isPrefix (k ++ [':']) (k ++ ':' :: v) = true := by
  have : k ++ ':' :: v = (k ++ [':']) ++ v := by simp
  unfold isPrefix
  rw [this, stripPrefix_append]
  rfl

theorem linesMatch_map (l : List Str) (f : Str → List Char) (k : Str) (h : ∀ v ∈ l, isPrefix (k ++ [':']) (f v) = true) :
    linesMatch (l.map f) (l.map (fun _ => k)) = true := by
  induction l with
  | nil => rfl
  | cons v rest ih =>
    simp only [List.map_cons, linesMatch, Bool.and_eq_true]
    exact ⟨h v (by simp), ih (fun x hx => h x (by simp [hx]))⟩

theorem vLine_prefix (k v : List Char) : isPrefix (k ++ [':']) (vLine k v) = true := by
  have : vLine k v = k ++ ':' :: escapeVcard v := by simp [vLine]
  rw [this]; exact isPrefix_key k _

theorem vMulti_match (k : Str) (a : Arg) : linesMatch (vMulti k a) (a.values.map (fun _ => k)) = true := by
  unfold vMulti
  rw [multiValues_eq]
  exact linesMatch_map _ _ _ (fun v _ => vLine_prefix k v)

theorem vOpt_match (k : Str) (o : Option Str) : linesMatch (vOpt k o) ((optVal o).map (fun _ => k)) = true := by
  cases o with
  | none => simp [vOpt, truthy, optVal, linesMatch]
  | some s =>
    by_cases he : s = []
    · subst he; simp [vOpt, truthy, optVal, linesMatch]
    · have he' : s.isEmpty = false := by cases s <;> simp_all
      simp [vOpt, truthy, optVal, he', linesMatch, vLine_prefix]

theorem rawOpt_match (k : Str) (o : Option Str) :
    linesMatch (if truthy o then [k ++ [':'] ++ o.getD []] else []) ((optVal o).map (fun _ => k)) = true := by
  cases o with
  | none => simp [truthy, optVal, linesMatch]
  | some s =>
    by_cases he : s = []
    · subst he; simp [truthy, optVal, linesMatch]
    · have he' : s.isEmpty = false := by cases s <;> simp_all
      simp [truthy, optVal, he', linesMatch, isPrefix_key]

/-- the content lines carry the documented property names, one per supplied value, in order -/
theorem vcardContent_match (a : VcardArgs) : linesMatch (vcardContent a) (vcardNames a) = true := by
  unfold vcardContent vcardNames
  have hadr : (vcardAdrProps a).any truthy = !((vcardAdr a).all (·.isEmpty)) := any_truthy_eq _
  repeat' apply linesMatch_append
  · simp only [linesMatch, Bool.and_true, Bool.and_eq_true]
    exact ⟨isPrefix_key ['N'] _, vLine_prefix ['F', 'N'] _⟩
  all_goals first
    | exact vOpt_match _ _
    | exact vMulti_match _ _
    | exact rawOpt_match ['B', 'D', 'A', 'Y'] _
    | exact rawOpt_match ['R', 'E', 'V'] _
    | skip
  · rw [hadr]
    cases (vcardAdr a).all (·.isEmpty)
    · simp only [Bool.not_false, if_true, Bool.false_eq_true, if_false, vcardAdrProps, List.map_cons]
      simp only [linesMatch, Bool.and_true]
      exact isPrefix_key ['A', 'D', 'R'] _
    · simp [linesMatch]
  · cases (a.latTrue && a.lngTrue)
    · simp [linesMatch]
    · simp only [if_true, linesMatch, Bool.and_true]
      exact isPrefix_key ['G', 'E', 'O'] _

/-! ### no line contains a line break -/

theorem matchPat_noBreak (pat s : List Char) (hp : ∀ p ∈ pat, p ≠ '\r' ∧ p ≠ '\n') (h : matchPat pat s = true) : NoBreak s := by
  induction pat generalizing s with
  | nil => cases s with
    | nil => intro x hx; simp at hx
    | cons _ _ => simp [matchPat] at h
  | cons p ps ih => cases s with
    | nil => simp [matchPat] at h
    | cons c cs =>
      simp only [matchPat, Bool.and_eq_true] at h
      have hrest := ih cs (fun q hq => hp q (by simp [hq])) h.2
      intro x hx
      rcases List.mem_cons.mp hx with rfl | hx
      · by_cases hd : p = 'd'
        · have hisd : isD x = true := by simpa [hd] using h.1
          constructor
          · intro e; subst e; simp [isD] at hisd
          · intro e; subst e; simp [isD] at hisd
        · have : p = x := by simpa [hd] using h.1
          exact this ▸ hp p (by simp)
      · exact hrest x hx

theorem looksLikeDatetime_noBreak (s : List Char) (h : looksLikeDatetime s = true) : NoBreak s := by
  unfold looksLikeDatetime at h
  simp only [Bool.or_eq_true] at h
  rcases h with (((h | h) | h) | h) | h <;> exact matchPat_noBreak _ s (by decide) h

def AllNB (ls : List (List Char)) : Prop := ∀ l ∈ ls, NoBreak l

theorem AllNB.append {a b : List (List Char)} (ha : AllNB a) (hb : AllNB b) : AllNB (a ++ b) := by
  intro l hl
  rcases List.mem_append.mp hl with h | h
  · exact ha l h
  · exact hb l h

theorem semiJoin_noBreak (l : List Str) (h : ∀ x ∈ l, NoBreak x) : NoBreak (semiJoin l) := by
  induction l with
  | nil => intro x hx; simp [semiJoin] at hx
  | cons a rest ih =>
    cases rest with
    | nil => simpa [semiJoin] using h a (by simp)
    | cons b more =>
      have h1 := h a (by simp)
      have h2 := ih (fun x hx => h x (by simp [hx]))
      have : semiJoin (a :: b :: more) = a ++ ([';'] ++ semiJoin (b :: more)) := by simp [semiJoin]
      rw [this]
      exact h1.append ((by simp [NoBreak] : NoBreak [';']).append h2)

section
variable (T1 : ∀ c, ∀ x ∈ escOf Gen.VCARD_ESCAPE c, x ≠ '\r' ∧ x ≠ '\n')
variable (T2 : ∀ c, ∀ x ∈ escOf Gen.VCARD_LINEBREAK_ESCAPE c, x ≠ '\r' ∧ x ≠ '\n')
include T1

theorem escapeVcard_noBreak (s : List Char) : NoBreak (escapeVcard s) := by
  intro x hx
  rw [escapeVcard, translate_eq, List.mem_flatMap] at hx
  obtain ⟨c, _, hc⟩ := hx
  exact T1 c x hc

theorem vLine_noBreak (k v : List Char) (hk : NoBreak k) : NoBreak (vLine k v) := by
  have : vLine k v = k ++ ([':'] ++ escapeVcard v) := by simp [vLine]
  rw [this]
  exact hk.append ((by simp [NoBreak] : NoBreak [':']).append (escapeVcard_noBreak T1 v))

theorem vMulti_noBreak (k : Str) (a : Arg) (hk : NoBreak k) : AllNB (vMulti k a) := by
  intro l hl
  simp only [vMulti, List.mem_map] at hl
  obtain ⟨v, _, rfl⟩ := hl
  exact vLine_noBreak T1 k v hk

theorem vOpt_noBreak (k : Str) (o : Option Str) (hk : NoBreak k) : AllNB (vOpt k o) := by
  intro l hl
  unfold vOpt at hl
  split at hl
  · simp at hl; subst hl; exact vLine_noBreak T1 k _ hk
  · simp at hl

omit T1 in
theorem rawOpt_noBreak (k : Str) (o : Option Str) (hk : NoBreak k) (ho : truthy o = true → NoBreak (o.getD [])) :
    AllNB (if truthy o then [k ++ o.getD []] else []) := by
  intro l hl
  split at hl
  next ht => simp at hl; subst hl; exact hk.append (ho ht)
  next => simp at hl

include T2 in
theorem vcardContent_noBreak (a : VcardArgs)
    (hb : truthy a.birthday = true → NoBreak (a.birthday.getD []))
    (hr : truthy a.rev = true → NoBreak (a.rev.getD []))
    (hlat : NoBreak (a.lat.getD [])) (hlng : NoBreak (a.lng.getD [])) : AllNB (vcardContent a) := by
  unfold vcardContent
  repeat' apply AllNB.append
  all_goals first
    | exact vOpt_noBreak T1 _ _ (by simp [NoBreak, Model.Helpers.vTelType])
    | exact vMulti_noBreak T1 _ _ (by simp [NoBreak, Model.Helpers.vTelType])
    | exact rawOpt_noBreak ['B', 'D', 'A', 'Y', ':'] _ (by simp [NoBreak]) hb
    | exact rawOpt_noBreak ['R', 'E', 'V', ':'] _ (by simp [NoBreak]) hr
    | skip
  · intro l hl
    simp only [List.mem_cons, List.mem_singleton, List.not_mem_nil, or_false] at hl
    rcases hl with rfl | rfl
    · refine (by simp [NoBreak] : NoBreak ['N', ':']).append ?_
      intro x hx
      rw [escapeVcardName, translate_eq, List.mem_flatMap] at hx
      obtain ⟨c, _, hc⟩ := hx
      exact T2 c x hc
    · exact vLine_noBreak T1 _ _ (by simp [NoBreak])
  · intro l hl
    split at hl
    · simp only [vcardAdrProps, List.map_cons, List.map_nil, List.mem_singleton] at hl
      subst hl
      refine (((by simp [NoBreak] : NoBreak ['A', 'D', 'R', ':']).append (escapeVcard_noBreak T1 _)).append
        (by simp [NoBreak] : NoBreak [';', ';'])).append (semiJoin_noBreak _ ?_)
      intro x hx
      simp only [List.mem_cons, List.not_mem_nil, or_false] at hx
      rcases hx with rfl | rfl | rfl | rfl | rfl <;> exact escapeVcard_noBreak T1 _
    · simp at hl
  · intro l hl
    split at hl
    · simp only [List.mem_singleton] at hl
      subst hl
      exact (((by simp [NoBreak] : NoBreak ['G', 'E', 'O', ':']).append hlat).append (by simp [NoBreak] : NoBreak [';'])).append hlng
    · simp at hl

include T2 in
/-- **every supplied value occupies exactly one content line**: whenever the model's
    `make_vcard_data` returns a payload (it does not refuse), the payload satisfies the judge's
    predicate: CRLF-terminated lines without bare CR / LF, BEGIN:VCARD, VERSION:3.0, one content line
    per supplied value with the documented property name in the documented order, END:VCARD. -/
theorem vcardOk_model (a : VcardArgs) (hlat : NoBreak (a.lat.getD [])) (hlng : NoBreak (a.lng.getD []))
    (p : Str) (h : vcardData a = some p) : vcardOk p a = true := by
  unfold vcardData at h
  split at h
  · simp at h
  next hnr =>
    simp only [Option.some.injEq] at h
    subst h
    simp only [vcardRefused, Bool.or_eq_true, Bool.and_eq_true, Bool.not_eq_true', not_or, not_and, Bool.not_eq_false] at hnr
    have hb : truthy a.birthday = true → NoBreak (a.birthday.getD []) :=
      fun ht => looksLikeDatetime_noBreak _ (hnr.1.1.1 ht)
    have hr : truthy a.rev = true → NoBreak (a.rev.getD []) :=
      fun ht => looksLikeDatetime_noBreak _ (hnr.1.1.2 ht)
    have hc := vcardContent_noBreak T1 T2 a hb hr hlat hlng
    have hall : ∀ l ∈ vcardLines a, NoBreak l := by
      intro l hl
      simp only [vcardLines, List.mem_append, List.mem_cons, List.mem_singleton, List.not_mem_nil, or_false] at hl
      rcases hl with ((rfl | rfl) | hl) | rfl
      · simp [NoBreak]
      · simp [NoBreak]
      · exact hc l hl
      · simp [NoBreak]
    unfold vcardOk
    rw [crlf_join _ hall]
    simp only
    have hm := vcardContent_match a
    have hlen := linesMatch_length hm
    unfold vcardLinesOk vcardLines
    simp only [List.cons_append, List.nil_append, List.append_assoc, List.take_succ_cons, List.take_zero, List.drop_succ_cons,
      List.drop_zero, Bool.and_eq_true]
    refine ⟨⟨by rfl, ?_⟩, ?_⟩
    · have : 2 + (vcardNames a).length = (vcardContent a).length + 2 := by omega
      rw [this]
      simp only [List.drop_succ_cons]
      rw [List.drop_left' rfl]
      rfl
    · rw [← hlen, List.take_left' rfl]
      exact linesMatch_zip hm

end

end Proofs.Helpers
