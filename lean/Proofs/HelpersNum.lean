/-
  Proofs.HelpersNum — decimal digits, `rstrip`, and the EPC amount text: formatting an amount of
  `cents`/100 with two decimals and stripping first the trailing zeros and then a trailing point gives
  a text that the specification's amount parser reads back as exactly `cents`.
-/
import Spec.Helpers
import Model.Helpers

namespace Proofs.Helpers
open Spec.Helpers
open Model.Helpers (digitChar decDigits rstrip fmtAmount)

theorem digit_facts : ∀ k < 10,
    digitVal (Char.ofNat (48 + k)) = some k ∧ Char.ofNat (48 + k) ≠ '.' ∧ Char.ofNat (48 + k) ≠ '-'
    ∧ (Char.ofNat (48 + k) = '0' ↔ k = 0) ∧ isDigit (Char.ofNat (48 + k)) = true := by decide

theorem digitVal_digitChar (n : Nat) : digitVal (digitChar n) = some (n % 10) :=
  (digit_facts (n % 10) (Nat.mod_lt _ (by omega))).1

theorem digitChar_ne_dot (n : Nat) : digitChar n ≠ '.' := (digit_facts (n % 10) (Nat.mod_lt _ (by omega))).2.1
theorem digitChar_ne_minus (n : Nat) : digitChar n ≠ '-' := (digit_facts (n % 10) (Nat.mod_lt _ (by omega))).2.2.1
theorem digitChar_eq_zero (n : Nat) : digitChar n = '0' ↔ n % 10 = 0 := (digit_facts (n % 10) (Nat.mod_lt _ (by omega))).2.2.2.1

theorem decDigits_lt (n : Nat) (h : n < 10) : decDigits n = [digitChar n] := by
  rw [decDigits]; simp [h]

theorem decDigits_ge (n : Nat) (h : ¬ n < 10) : decDigits n = decDigits (n / 10) ++ [digitChar (n % 10)] := by
  rw [decDigits]; simp [h]

theorem decDigits_props (n : Nat) :
    decDigits n ≠ [] ∧ (∀ c ∈ decDigits n, c ≠ '.' ∧ c ≠ '-') ∧ ∀ acc, parseDigitsAux acc (decDigits n) = some (acc * 10 ^ (decDigits n).length + n) := by
  induction n using Nat.strongRecOn with
  | _ n ih =>
    by_cases h : n < 10
    · rw [decDigits_lt n h]
      refine ⟨by simp, ?_, ?_⟩
      · intro c hc; simp at hc; subst hc; exact ⟨digitChar_ne_dot n, digitChar_ne_minus n⟩
      · intro acc
        simp [parseDigitsAux, digitVal_digitChar, Nat.mod_eq_of_lt h]
    · rw [decDigits_ge n h]
      obtain ⟨_, h2, h3⟩ := ih (n / 10) (by omega)
      refine ⟨by simp, ?_, ?_⟩
      · intro c hc
        simp only [List.mem_append, List.mem_singleton] at hc
        rcases hc with hc | hc
        · exact h2 c hc
        · subst hc; exact ⟨digitChar_ne_dot _, digitChar_ne_minus _⟩
      · intro acc
        have happ : ∀ (l : List Char) (c : Char) (a : Nat),
            parseDigitsAux a (l ++ [c]) = (parseDigitsAux a l).bind (fun v => (digitVal c).map (fun d => v * 10 + d)) := by
          intro l
          induction l with
          | nil => intro c a; simp [parseDigitsAux]; cases digitVal c <;> simp
          | cons x xs ihl =>
            intro c a
            simp only [List.cons_append, parseDigitsAux]
            cases digitVal x with
            | none => simp
            | some d => simp [ihl]
        rw [happ, h3 acc, digitVal_digitChar]
        simp only [Option.bind_some, Option.map_some, Nat.mod_mod, List.length_append, List.length_singleton, Option.some.injEq]
        rw [Nat.pow_succ]
        have := Nat.div_add_mod n 10
        generalize 10 ^ (decDigits (n / 10)).length = p
        rw [Nat.add_mul, Nat.mul_assoc, Nat.add_assoc]
        omega

theorem parseDigits_decDigits (n : Nat) : parseDigits (decDigits n) = some n := by
  obtain ⟨h1, _, h3⟩ := decDigits_props n
  have : (decDigits n).isEmpty = false := by cases h : decDigits n <;> simp_all
  simp [parseDigits, this, h3]

theorem stripPrefix_eur (x : List Char) : stripPrefix ['E', 'U', 'R'] (['E', 'U', 'R'] ++ x) = some x := by
  simp [stripPrefix]

/-! ### rstrip -/

theorem rstrip_snoc_ne (c y : Char) (xs : List Char) (h : y ≠ c) : rstrip c (xs ++ [y]) = xs ++ [y] := by
  simp [rstrip, List.dropWhile_cons, h]

theorem rstrip_snoc_eq (c : Char) (xs : List Char) : rstrip c (xs ++ [c]) = rstrip c xs := by
  simp [rstrip, List.dropWhile_cons]

theorem rstrip_of_tail_ne (c : Char) (p l : List Char) (hne : l ≠ []) (h : ∀ x ∈ l, x ≠ c) : rstrip c (p ++ l) = p ++ l := by
  unfold rstrip
  rw [List.reverse_append]
  cases hr : l.reverse with
  | nil => simp at hr; exact absurd hr hne
  | cons y t =>
    have hy : y ≠ c := h y (by rw [← List.mem_reverse, hr]; simp)
    simp only [List.cons_append, List.dropWhile_cons, hy, decide_false, Bool.false_eq_true, if_false]
    rw [← List.cons_append, ← hr, ← List.reverse_append, List.reverse_reverse]

theorem takeWhile_until (d : Char) (k v : List Char) (h : ∀ c ∈ k, c ≠ d) : (k ++ d :: v).takeWhile (· ≠ d) = k := by
  induction k with
  | nil => simp
  | cons c rest ih =>
    have hc : c ≠ d := h c (by simp)
    have ih' := ih (fun x hx => h x (by simp [hx]))
    simp only [List.cons_append, List.takeWhile_cons, hc, ne_eq, not_false_eq_true, decide_true, if_true]
    rw [ih']

theorem dropWhile_until (d : Char) (k v : List Char) (h : ∀ c ∈ k, c ≠ d) : (k ++ d :: v).dropWhile (· ≠ d) = d :: v := by
  induction k with
  | nil => simp
  | cons c rest ih =>
    have hc : c ≠ d := h c (by simp)
    have ih' := ih (fun x hx => h x (by simp [hx]))
    simp only [List.cons_append, List.dropWhile_cons, hc, ne_eq, not_false_eq_true, decide_true, if_true]
    exact ih'

theorem takeWhile_all (d : Char) (k : List Char) (h : ∀ c ∈ k, c ≠ d) : k.takeWhile (· ≠ d) = k := by
  have := takeWhile_until d k [] h
  induction k with
  | nil => rfl
  | cons c rest ih =>
    have hc : c ≠ d := h c (by simp)
    simp only [List.takeWhile_cons, hc, ne_eq, not_false_eq_true, decide_true, if_true]
    rw [ih (fun x hx => h x (by simp [hx])) (takeWhile_until d rest [] (fun x hx => h x (by simp [hx])))]

theorem dropWhile_all (d : Char) (k : List Char) (h : ∀ c ∈ k, c ≠ d) : k.dropWhile (· ≠ d) = [] := by
  induction k with
  | nil => rfl
  | cons c rest ih =>
    have hc : c ≠ d := h c (by simp)
    simp only [List.dropWhile_cons, hc, ne_eq, not_false_eq_true, decide_true, if_true]
    exact ih (fun x hx => h x (by simp [hx]))

/-- the three shapes of the amount text -/
theorem fmtAmount_shape (cents : Nat) :
    fmtAmount cents = ['E', 'U', 'R'] ++ decDigits (cents / 100) ++
      (if cents % 10 ≠ 0 then ['.', digitChar (cents % 100 / 10), digitChar (cents % 10)]
       else if cents % 100 / 10 % 10 ≠ 0 then ['.', digitChar (cents % 100 / 10)] else []) := by
  obtain ⟨hne, hall, _⟩ := decDigits_props (cents / 100)
  unfold fmtAmount
  have e1 : ∀ (X : List Char) (a b : Char), X ++ ['.', a, b] = (X ++ ['.', a]) ++ [b] := by intros; simp
  have e2 : ∀ (X : List Char) (a : Char), X ++ ['.', a] = (X ++ ['.']) ++ [a] := by intros; simp
  by_cases h0 : cents % 10 ≠ 0
  · have hd0 : digitChar (cents % 10) ≠ '0' := fun e => h0 (by have := (digitChar_eq_zero _).mp e; omega)
    rw [if_pos h0, e1, rstrip_snoc_ne _ _ _ hd0, rstrip_snoc_ne _ _ _ (digitChar_ne_dot _), ← e1]
  · have h0' : cents % 10 = 0 := by omega
    have hd0 : digitChar (cents % 10) = '0' := (digitChar_eq_zero _).mpr (by omega)
    rw [if_neg h0, e1, hd0, rstrip_snoc_eq]
    by_cases h1 : cents % 100 / 10 % 10 ≠ 0
    · have hd1 : digitChar (cents % 100 / 10) ≠ '0' := fun e => h1 ((digitChar_eq_zero _).mp e)
      rw [if_pos h1, e2, rstrip_snoc_ne _ _ _ hd1, rstrip_snoc_ne _ _ _ (digitChar_ne_dot _), ← e2]
    · have hd1 : digitChar (cents % 100 / 10) = '0' := (digitChar_eq_zero _).mpr (by omega)
      rw [if_neg h1, e2, hd1, rstrip_snoc_eq, rstrip_snoc_ne _ _ _ (by decide), rstrip_snoc_eq]
      rw [rstrip_of_tail_ne _ _ _ hne (fun x hx => (hall x hx).1)]
      simp

/-- **the amount text parses back** to exactly the number of cents, for every amount -/
theorem parseAmount_fmtAmount (cents : Nat) : parseAmountCents (fmtAmount cents) = some cents := by
  obtain ⟨hne, hall, _⟩ := decDigits_props (cents / 100)
  have hdot : ∀ c ∈ decDigits (cents / 100), c ≠ '.' := fun c hc => (hall c hc).1
  have hhead : ∀ t, (decDigits (cents / 100) ++ t).head? ≠ some '-' := by
    intro t
    cases hd : decDigits (cents / 100) with
    | nil => exact absurd hd hne
    | cons x xs =>
      have : x ≠ '-' := (hall x (by rw [hd]; simp)).2
      simpa using this
  have hq := parseDigits_decDigits (cents / 100)
  have hdm := Nat.div_add_mod cents 100
  have hbody : ∀ t, parseAmountCents (['E', 'U', 'R'] ++ decDigits (cents / 100) ++ t)
      = (parseFixed 2 (decDigits (cents / 100) ++ t)).map (fun r => r.2.1) := by
    intro t
    unfold parseAmountCents
    rw [List.append_assoc, stripPrefix_eur]
    simp only [beq_eq_false_iff_ne.mpr (hhead t), Bool.false_eq_true, if_false]
  have hneg : ∀ t, ((decDigits (cents / 100) ++ t).head? == some '-') = false := fun t => beq_eq_false_iff_ne.mpr (hhead t)
  rw [fmtAmount_shape, hbody]
  unfold parseFixed
  by_cases h0 : cents % 10 ≠ 0
  · simp only [if_pos h0, hneg, Bool.false_eq_true, if_false, takeWhile_until '.' _ _ hdot, dropWhile_until '.' _ _ hdot, hq]
    simp [parseDigits, parseDigitsAux, digitVal_digitChar]
    omega
  · by_cases h1 : cents % 100 / 10 % 10 ≠ 0
    · simp only [if_neg h0, if_pos h1, hneg, Bool.false_eq_true, if_false, takeWhile_until '.' _ _ hdot, dropWhile_until '.' _ _ hdot, hq]
      simp [parseDigits, parseDigitsAux, digitVal_digitChar]
      omega
    · have hneg0 := hneg []
      rw [List.append_nil] at hneg0
      simp only [if_neg h0, if_neg h1, hneg0, Bool.false_eq_true, if_false, List.append_nil, takeWhile_all '.' _ hdot,
        dropWhile_all '.' _ hdot, hq]
      simp
      omega

/-! ### rounding -/

open Model.Helpers (roundHalfEven) in
/-- `roundHalfEven n d` is a nearest integer to `n / d` -/
theorem roundHalfEven_near (n d : Nat) (hd : d ≠ 0) :
    2 * ((roundHalfEven n d : Int) * d - n).natAbs ≤ d := by
  have hdm := Nat.div_add_mod n d
  have hr : n % d < d := Nat.mod_lt _ (Nat.pos_of_ne_zero hd)
  generalize hq : n / d = q at hdm
  generalize hrr : n % d = r at hdm hr
  have hm : ((q * d : Nat) : Int) = (q : Int) * d := by push_cast; rfl
  have hm1 : (((q + 1) * d : Nat) : Int) = ((q + 1 : Nat) : Int) * d := by push_cast; rfl
  have hmul : (q + 1) * d = q * d + d := by rw [Nat.add_mul, Nat.one_mul]
  have hcomm : d * q = q * d := Nat.mul_comm _ _
  unfold roundHalfEven
  simp only [hq, hrr]
  generalize hmm : q * d = m at *
  split
  · rw [← hm]; omega
  · split
    · rw [← hm1, hmul]; omega
    · split
      · rw [← hm]; omega
      · rw [← hm1, hmul]; omega

open Model.Helpers (roundHalfEven) in
/-- the model's rounding (ties to even) satisfies the specification's "is a rounding to k decimals" -/
theorem isRounding_roundHalfEven (k : Nat) (x : Rat') (hd : x.den ≠ 0) :
    isRounding k x.neg (roundHalfEven (x.num * 10 ^ k) x.den) x = true := by
  have h := roundHalfEven_near (x.num * 10 ^ k) x.den hd
  unfold isRounding
  simp only [Bool.and_eq_true, bne_iff_ne, ne_eq, hd, not_false_eq_true, decide_eq_true_eq, true_and]
  cases x.neg
  · simpa using h
  · have : ∀ a b : Int, (-a * (x.den : Int) - -b * (10 : Int) ^ k).natAbs = (a * x.den - b * 10 ^ k).natAbs := by
      intro a b
      rw [Int.neg_mul, Int.neg_mul]
      generalize a * (x.den : Int) = u
      generalize b * (10 : Int) ^ k = w
      omega
    simp only [if_true]
    rw [this]
    simpa using h

end Proofs.Helpers
