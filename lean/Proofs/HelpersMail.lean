/-
  Proofs.HelpersMail — `make_make_email_data`: percent-encoding round trip and the structure of the
  `mailto:` URI built by the model.
-/
import Proofs.HelpersGeo
import Proofs.HelpersModel

namespace Proofs.Helpers
open Spec.Helpers
open Model.Helpers (quoteByte quoteUtf8 hexUpper emailData)

theorem utf8_model_eq (s : Str) : Model.Helpers.utf8 s = Spec.Helpers.utf8 s := rfl

theorem char_toNat_lt (c : Char) : c.toNat < 0x110000 := by
  have := c.valid
  simp only [UInt32.isValidChar, Nat.isValidChar] at this
  unfold Char.toNat
  omega

theorem utf8_bytes_lt (s : Str) : ∀ b ∈ utf8 s, b < 256 := by
  intro b hb
  simp only [utf8, List.mem_flatMap] at hb
  obtain ⟨c, _, hb⟩ := hb
  have hc := char_toNat_lt c
  unfold utf8Char at hb
  simp only at hb
  split at hb
  · simp at hb; omega
  · split at hb
    · simp at hb; omega
    · split at hb
      · simp at hb; omega
      · simp at hb; omega

/-- what `quote` does to one byte -/
def quoteByteOk (b : Nat) : Bool :=
  (match quoteByte b with
    | [c] => c != '%' && c.toNat == b && decide (b < 128)
    | [p, h, l] => p == '%' && hexNibble h == some (b / 16) && hexNibble l == some (b % 16)
    | _ => false)
  && (quoteByte b).all (fun c => isUriChar c && c != '&' && c != '?')

/-- checked for all 256 bytes -/
theorem quoteByte_all : ∀ b < 256, quoteByteOk b = true := by decide +kernel

theorem pctDecode_quoteByte (b : Nat) (hb : b < 256) (rest : List Char) :
    pctDecode (quoteByte b ++ rest) = (pctDecode rest).map (b :: ·) := by
  have h := quoteByte_all b hb
  unfold quoteByteOk at h
  rw [Bool.and_eq_true] at h
  have h := h.1
  split at h
  next c hq =>
    simp only [Bool.and_eq_true, bne_iff_ne, ne_eq, beq_iff_eq, decide_eq_true_eq] at h
    rw [hq]
    have h128 : c.toNat < 128 := by omega
    simp only [List.cons_append, List.nil_append, pctDecode, pctAux, if_neg h.1.1, h.1.2, h.2, if_true]
  next p x l hq =>
    simp only [Bool.and_eq_true, beq_iff_eq] at h
    rw [hq, h.1.1]
    have : b / 16 * 16 + b % 16 = b := by omega
    simp only [List.cons_append, List.nil_append, pctDecode, pctAux, if_true, h.1.2, h.2, this]
  next => simp at h

theorem quoteByte_chars (b : Nat) (hb : b < 256) : ∀ c ∈ quoteByte b, isUriChar c = true ∧ c ≠ '&' ∧ c ≠ '?' := by
  have h := quoteByte_all b hb
  unfold quoteByteOk at h
  rw [Bool.and_eq_true] at h
  have h := h.2
  rw [List.all_eq_true] at h
  intro c hc
  have := h c hc
  simp only [Bool.and_eq_true, bne_iff_ne, ne_eq] at this
  exact ⟨this.1.1, this.1.2, this.2⟩

theorem pctDecode_quote (bs : List Nat) (h : ∀ b ∈ bs, b < 256) (rest : List Char) :
    pctDecode (bs.flatMap quoteByte ++ rest) = (pctDecode rest).map (bs ++ ·) := by
  induction bs with
  | nil => simp
  | cons b t ih =>
    rw [List.flatMap_cons, List.append_assoc, pctDecode_quoteByte b (h b (by simp)), ih (fun x hx => h x (by simp [hx]))]
    simp [Option.map_map, Function.comp_def]

/-- **percent-encoding round trip**: decoding `quote(text.encode('utf-8'))` gives the UTF-8 bytes of the text -/
theorem pctDecode_quoteUtf8 (s : Str) : pctDecode (quoteUtf8 s) = some (utf8 s) := by
  have := pctDecode_quote (utf8 s) (utf8_bytes_lt s) []
  simpa [quoteUtf8, utf8_model_eq, pctDecode, pctAux] using this

theorem quoteUtf8_chars (s : Str) : ∀ c ∈ quoteUtf8 s, isUriChar c = true ∧ c ≠ '&' ∧ c ≠ '?' := by
  intro c hc
  simp only [quoteUtf8, List.mem_flatMap] at hc
  obtain ⟨b, hb, hc⟩ := hc
  rw [utf8_model_eq] at hb
  exact quoteByte_chars b (utf8_bytes_lt s b hb) c hc

/-! ### addresses -/

/-- a character that may appear raw in an address of a mailto URI: a URI character, ASCII, and none of
    the characters that structure the URI -/
def addrChar (c : Char) : Bool :=
  isUriChar c && decide (c.toNat < 128) && c != '%' && c != '?' && c != '&' && c != '='

def AddrOk (s : Str) : Prop := ∀ c ∈ s, addrChar c = true

theorem addrChar_facts {c : Char} (h : addrChar c = true) :
    isUriChar c = true ∧ c.toNat < 128 ∧ c ≠ '%' ∧ c ≠ '?' ∧ c ≠ '&' ∧ c ≠ '=' := by
  simp only [addrChar, Bool.and_eq_true, decide_eq_true_eq, bne_iff_ne, ne_eq] at h
  exact ⟨h.1.1.1.1.1, h.1.1.1.1.2, h.1.1.1.2, h.1.1.2, h.1.2, h.2⟩

theorem pctDecode_addr (s : Str) (h : AddrOk s) : pctDecode s = some (utf8 s) := by
  unfold pctDecode
  induction s with
  | nil => rfl
  | cons c rest ih =>
    obtain ⟨_, h128, hp, _⟩ := addrChar_facts (h c (by simp))
    simp only [pctAux, if_neg hp, h128, if_true, ih (fun x hx => h x (by simp [hx])), Option.map_some, utf8, List.flatMap_cons,
      utf8Char]
    simp

theorem commaJoin_model_eq (l : List Str) : Model.Helpers.commaJoin l = Spec.Helpers.commaJoin l := by
  induction l with
  | nil => rfl
  | cons x rest ih =>
    cases rest with
    | nil => rfl
    | cons y more => simp only [Model.Helpers.commaJoin, Spec.Helpers.commaJoin, ih]

theorem multi_model_eq (a : Arg) : Model.Helpers.multi a = a.multi := by cases a <;> rfl

theorem commaJoin_addrOk (l : List Str) (h : ∀ s ∈ l, AddrOk s) : AddrOk (Spec.Helpers.commaJoin l) := by
  induction l with
  | nil => intro c hc; simp [Spec.Helpers.commaJoin] at hc
  | cons x rest ih =>
    cases rest with
    | nil => simpa [Spec.Helpers.commaJoin] using h x (by simp)
    | cons y more =>
      intro c hc
      simp only [Spec.Helpers.commaJoin, List.mem_append, List.mem_cons] at hc
      rcases hc with hc | hc | hc
      · exact h x (by simp) c hc
      · subst hc; decide
      · exact ih (fun s hs => h s (by simp [hs])) c (by simpa [Spec.Helpers.commaJoin] using hc)

/-! ### the URI -/

def hdrText (h : Str × Str) : Str := h.1 ++ '=' :: h.2

def queryText : List (Str × Str) → Str
  | [] => []
  | h :: t => '?' :: hdrText h ++ t.flatMap (fun g => '&' :: hdrText g)

def kCc : Str := ['c', 'c']
def kBcc : Str := ['b', 'c', 'c']
def kSubject : Str := ['s', 'u', 'b', 'j', 'e', 'c', 't']
def kBody : Str := ['b', 'o', 'd', 'y']

/-- the header fields as written (key, text of the value) -/
def rawHeaders (a : EmailArgs) : List (Str × Str) :=
  (if a.cc.multi.isEmpty then [] else [(kCc, Spec.Helpers.commaJoin a.cc.multi)])
  ++ (if a.bcc.multi.isEmpty then [] else [(kBcc, Spec.Helpers.commaJoin a.bcc.multi)])
  ++ (match a.subject with | some s => [(kSubject, quoteUtf8 s)] | none => [])
  ++ (match a.body with | some s => [(kBody, quoteUtf8 s)] | none => [])

theorem emailData_eq (a : EmailArgs) :
    emailData a = if a.to.multi.isEmpty then none
      else some (mailtoPrefix ++ (Spec.Helpers.commaJoin a.to.multi ++ queryText (rawHeaders a))) := by
  unfold emailData rawHeaders
  simp only [multi_model_eq, commaJoin_model_eq]
  by_cases hto : a.to.multi.isEmpty
  · simp [hto]
  · simp only [hto, Bool.false_eq_true, if_false, List.foldl_cons, List.foldl_nil]
    cases hcc : a.cc.multi.isEmpty <;> cases hbcc : a.bcc.multi.isEmpty <;> cases a.subject <;> cases a.body <;>
      simp [queryText, hdrText, mailtoPrefix, kCc, kBcc, kSubject, kBody]

theorem splitPlain_cons_delim (d : Char) (A rest : List Char) (hA : ∀ c ∈ A, c ≠ d) :
    splitPlain d (A ++ d :: rest) = A :: splitPlain d rest := by
  induction A with
  | nil => simp [splitPlain]
  | cons c t ih =>
    have hc : c ≠ d := hA c (by simp)
    simp [splitPlain, hc, ih (fun x hx => hA x (by simp [hx])), consHead]

theorem splitPlain_joined (f : Str × Str → Str) (A : Str) (t : List (Str × Str)) (hA : ∀ c ∈ A, c ≠ '&')
    (ht : ∀ g ∈ t, ∀ c ∈ f g, c ≠ '&') :
    splitPlain '&' (A ++ t.flatMap (fun g => '&' :: f g)) = A :: t.map f := by
  induction t generalizing A with
  | nil => simp [splitPlain_none '&' A hA]
  | cons g rest ih =>
    rw [List.flatMap_cons, List.cons_append, splitPlain_cons_delim '&' A _ hA,
      ih (f g) (ht g (by simp)) (fun x hx => ht x (by simp [hx]))]
    simp

theorem parseHeader_hdrText (k v : Str) (hk : ∀ c ∈ k, c ≠ '=') :
    parseHeader (hdrText (k, v)) = (pctDecode v).map (fun b => (k, b)) := by
  unfold parseHeader hdrText
  simp only
  rw [dropWhile_until '=' k v hk, takeWhile_until '=' k v hk]

theorem rawHeaders_spec (a : EmailArgs) (hcc : ∀ s ∈ a.cc.multi, AddrOk s) (hbcc : ∀ s ∈ a.bcc.multi, AddrOk s) :
    (rawHeaders a).map (fun h => (pctDecode h.2).map (fun b => (h.1, b))) = (mailtoHeaders a).map some := by
  unfold rawHeaders mailtoHeaders
  simp only [List.map_append]
  have e1 := pctDecode_addr _ (commaJoin_addrOk _ hcc)
  have e2 := pctDecode_addr _ (commaJoin_addrOk _ hbcc)
  congr 1
  congr 1
  congr 1
  · split <;> simp [e1, kCc]
  · split <;> simp [e2, kBcc]
  · cases a.subject <;> simp [pctDecode_quoteUtf8, kSubject]
  · cases a.body <;> simp [pctDecode_quoteUtf8, kBody]

theorem rawHeaders_chars (a : EmailArgs) (hcc : ∀ s ∈ a.cc.multi, AddrOk s) (hbcc : ∀ s ∈ a.bcc.multi, AddrOk s) :
    ∀ h ∈ rawHeaders a, (∀ c ∈ h.1, isUriChar c = true ∧ c ≠ '=' ∧ c ≠ '&' ∧ c ≠ '?') ∧ (∀ c ∈ h.2, isUriChar c = true ∧ c ≠ '&') := by
  intro h hh
  have addr : ∀ s, AddrOk s → ∀ c ∈ s, isUriChar c = true ∧ c ≠ '&' := by
    intro s hs c hc
    obtain ⟨h1, _, _, _, h5, _⟩ := addrChar_facts (hs c hc)
    exact ⟨h1, h5⟩
  have quo : ∀ s, ∀ c ∈ quoteUtf8 s, isUriChar c = true ∧ c ≠ '&' := fun s c hc => ⟨(quoteUtf8_chars s c hc).1, (quoteUtf8_chars s c hc).2.1⟩
  have kc1 : ∀ c ∈ kCc, isUriChar c = true ∧ c ≠ '=' ∧ c ≠ '&' ∧ c ≠ '?' := by decide
  have kc2 : ∀ c ∈ kBcc, isUriChar c = true ∧ c ≠ '=' ∧ c ≠ '&' ∧ c ≠ '?' := by decide
  have kc3 : ∀ c ∈ kSubject, isUriChar c = true ∧ c ≠ '=' ∧ c ≠ '&' ∧ c ≠ '?' := by decide
  have kc4 : ∀ c ∈ kBody, isUriChar c = true ∧ c ≠ '=' ∧ c ≠ '&' ∧ c ≠ '?' := by decide
  simp only [rawHeaders, List.mem_append] at hh
  rcases hh with ((hh | hh) | hh) | hh
  · split at hh
    · simp at hh
    · simp only [List.mem_singleton] at hh; subst hh
      exact ⟨kc1, addr _ (commaJoin_addrOk _ hcc)⟩
  · split at hh
    · simp at hh
    · simp only [List.mem_singleton] at hh; subst hh
      exact ⟨kc2, addr _ (commaJoin_addrOk _ hbcc)⟩
  · split at hh
    · simp only [List.mem_singleton] at hh; subst hh
      exact ⟨kc3, quo _⟩
    · simp at hh
  · split at hh
    · simp only [List.mem_singleton] at hh; subst hh
      exact ⟨kc4, quo _⟩
    · simp at hh

theorem hdrText_chars (h : Str × Str) (hk : ∀ c ∈ h.1, isUriChar c = true ∧ c ≠ '=' ∧ c ≠ '&' ∧ c ≠ '?')
    (hv : ∀ c ∈ h.2, isUriChar c = true ∧ c ≠ '&') : ∀ c ∈ hdrText h, isUriChar c = true ∧ c ≠ '&' := by
  intro c hc
  simp only [hdrText, List.mem_append, List.mem_cons] at hc
  rcases hc with hc | hc | hc
  · exact ⟨(hk c hc).1, (hk c hc).2.2.1⟩
  · subst hc; decide
  · exact hv c hc

/-- **mailto round trip** (model): whenever the model's `make_make_email_data` returns a URI, the URI
    satisfies the judge's predicate -/
theorem mailtoOk_model (a : EmailArgs) (hto : ∀ s ∈ a.to.multi, AddrOk s) (hcc : ∀ s ∈ a.cc.multi, AddrOk s)
    (hbcc : ∀ s ∈ a.bcc.multi, AddrOk s) (p : Str) (h : emailData a = some p) : mailtoOk p a = true := by
  rw [emailData_eq] at h
  split at h
  · simp at h
  simp only [Option.some.injEq] at h
  subst h
  have hT := commaJoin_addrOk _ hto
  have hTq : ∀ c ∈ Spec.Helpers.commaJoin a.to.multi, c ≠ '?' := fun c hc => (addrChar_facts (hT c hc)).2.2.2.1
  have hch := rawHeaders_chars a hcc hbcc
  have hsp := rawHeaders_spec a hcc hbcc
  have hTdec := pctDecode_addr _ hT
  -- every character is a URI character
  have hall : (mailtoPrefix ++ (Spec.Helpers.commaJoin a.to.multi ++ queryText (rawHeaders a))).all isUriChar = true := by
    rw [List.all_append, List.all_append, Bool.and_eq_true, Bool.and_eq_true]
    refine ⟨by decide, ?_, ?_⟩
    · rw [List.all_eq_true]; intro c hc; exact (addrChar_facts (hT c hc)).1
    · rw [List.all_eq_true]
      intro c hc
      cases hH : rawHeaders a with
      | nil => rw [hH] at hc; simp [queryText] at hc
      | cons g t =>
        rw [hH] at hc hch
        simp only [queryText, List.mem_cons, List.mem_append, List.mem_flatMap] at hc
        rcases hc with (hc | hc) | ⟨g', hg', hc | hc⟩
        · subst hc; decide
        · exact (hdrText_chars g (hch g (by simp)).1 (hch g (by simp)).2 c hc).1
        · subst hc; decide
        · exact (hdrText_chars g' (hch g' (by simp [hg'])).1 (hch g' (by simp [hg'])).2 c hc).1
  unfold mailtoOk
  rw [hall, stripPrefix_append]
  simp only [Bool.true_and]
  cases hH : rawHeaders a with
  | nil =>
    rw [hH] at hsp
    have hnil : mailtoHeaders a = [] := by
      cases hm : mailtoHeaders a with
      | nil => rfl
      | cons _ _ => rw [hm] at hsp; simp at hsp
    simp only [queryText, List.append_nil, takeWhile_all '?' _ hTq, dropWhile_all '?' _ hTq, hTdec, hnil]
    simp
  | cons g t =>
    rw [hH] at hsp hch
    have hne : (mailtoHeaders a).isEmpty = false := by
      cases hm : mailtoHeaders a with
      | nil => rw [hm] at hsp; simp at hsp
      | cons _ _ => rfl
    have hsplit := splitPlain_joined hdrText (hdrText g) t
      (fun c hc => (hdrText_chars g (hch g (by simp)).1 (hch g (by simp)).2 c hc).2)
      (fun g' hg' c hc => (hdrText_chars g' (hch g' (by simp [hg'])).1 (hch g' (by simp [hg'])).2 c hc).2)
    have hparse : ((g :: t).map hdrText).map parseHeader = (mailtoHeaders a).map some := by
      rw [← hsp, List.map_map]
      apply List.map_congr_left
      intro g' hg'
      have := parseHeader_hdrText g'.1 g'.2 (fun c hc => ((hch g' hg').1 c hc).2.1)
      simpa using this
    simp only [queryText, List.cons_append]
    rw [takeWhile_until '?' _ _ hTq, dropWhile_until '?' _ _ hTq]
    simp only [hTdec, hne, hsplit]
    rw [← List.map_cons, hparse]
    simp

end Proofs.Helpers
