/-
  Proofs.TieAFormat — `calc_format_info`: the translated function against `Model.calcFormatInfo`, split into the
  QR Code branch (`version > 0`) and the Micro QR Code branch.
-/
import Proofs.TieA

set_option linter.unusedSimpArgs false

namespace Proofs.TieA
open Gen.Py Model Model.Args

theorem index_cast (l : List Nat) (i : Int) (n : Nat) (h : i = (n : Int)) :
    toR (index (l.map Int.ofNat) i) = toR (ofOption .indexError (l[n]?.map Int.ofNat)) := by
  subst h; rw [index_map_ofNat]

macro "fim_step" m:ident k:num : tactic =>
  `(tactic| (rw [index_cast _ _ ($m + $k) (by omega)]; split <;> simp_all [exc, Except.map, pure, Except.pure, throw, throwThe, MonadExceptOf.throw]))
macro "fim_close" m:ident : tactic =>
  `(tactic| first | rfl | fim_step $m 0 | fim_step $m 4 | fim_step $m 8 | fim_step $m 12 | fim_step $m 16 | fim_step $m 20 | fim_step $m 24 | fim_step $m 28)

theorem cfi_micro (v : Int) (hv : ¬ 0 < v) (e : Option Nat) (mask : Nat) :
    toR (Gen.Funcs.calc_format_info v (e.map Int.ofNat) mask) = (Model.calcFormatInfo v e mask).map Int.ofNat := by
  unfold Gen.Funcs.calc_format_info Model.calcFormatInfo
  simp only [hv, decide_false, format_info_micro_tables]
  by_cases hk : v = -3 ∨ v = -2 ∨ v = -1 ∨ v = 0
  · rcases e with _ | n
    · rcases hk with h | h | h | h <;> subst h <;>
        simp [lookup, Gen.Funcs.T_consts_ERROR_LEVEL_TO_MICRO_MAPPING, List.find?, lookup2, Gen.ERROR_LEVEL_TO_MICRO_MAPPING, lvlKey] <;>
        fim_close mask
    · by_cases hn : n = 0 ∨ n = 1 ∨ n = 3
      · rcases hn with h' | h' | h' <;> subst h' <;> rcases hk with h | h | h | h <;> subst h <;>
          simp [lookup, Gen.Funcs.T_consts_ERROR_LEVEL_TO_MICRO_MAPPING, List.find?, lookup2, Gen.ERROR_LEVEL_TO_MICRO_MAPPING, lvlKey] <;>
          fim_close mask
      · have e0 : ¬ ((n : Int) = 0) := by omega
        have e1 : ¬ ((n : Int) = 1) := by omega
        have e3 : ¬ ((n : Int) = 3) := by omega
        have b0 : ((0 : Int) == (n : Int)) = false := by simp; omega
        have b1 : ((1 : Int) == (n : Int)) = false := by simp; omega
        have b3 : ((3 : Int) == (n : Int)) = false := by simp; omega
        have g0 : ¬ (n = 0) := by omega
        have g1 : ¬ (n = 1) := by omega
        have g3 : ¬ (n = 3) := by omega
        rcases hk with h | h | h | h <;> subst h <;>
          simp [lookup, Gen.Funcs.T_consts_ERROR_LEVEL_TO_MICRO_MAPPING, List.find?, lookup2, Gen.ERROR_LEVEL_TO_MICRO_MAPPING, lvlKey,
            e0, e1, e3, g0, g1, g3, b0, b1, b3] <;> (try rfl)
  · have k3 : ((-3 : Int) == v) = false := by simp; omega
    have k2 : ((-2 : Int) == v) = false := by simp; omega
    have k1 : ((-1 : Int) == v) = false := by simp; omega
    have k0 : ((0 : Int) == v) = false := by simp; omega
    simp [lookup, Gen.Funcs.T_consts_ERROR_LEVEL_TO_MICRO_MAPPING, List.find?, lookup2, Gen.ERROR_LEVEL_TO_MICRO_MAPPING, k0, k1, k2, k3]
    rfl

theorem cfi_qr (v : Int) (hv : 0 < v) (e : Option Nat) (mask : Nat) :
    toR (Gen.Funcs.calc_format_info v (e.map Int.ofNat) mask) = (Model.calcFormatInfo v e mask).map Int.ofNat := by
  unfold Gen.Funcs.calc_format_info Model.calcFormatInfo
  simp only [hv, decide_true, if_true, format_info_tables]
  rcases e with _ | n
  · simp
    rw [index_cast _ _ mask rfl]; cases Gen.FORMAT_INFO[mask]? <;> rfl
  · by_cases h1 : n = 1
    · subst h1; simp [Gen.ERROR_LEVEL_L, Gen.ERROR_LEVEL_H, Gen.ERROR_LEVEL_Q]
      rw [index_cast _ _ (mask + 8) (by omega)]; cases Gen.FORMAT_INFO[mask + 8]? <;> rfl
    by_cases h2 : n = 2
    · subst h2; simp [Gen.ERROR_LEVEL_L, Gen.ERROR_LEVEL_H, Gen.ERROR_LEVEL_Q]
      rw [index_cast _ _ (mask + 16) (by omega)]; cases Gen.FORMAT_INFO[mask + 16]? <;> rfl
    by_cases h3 : n = 3
    · subst h3; simp [Gen.ERROR_LEVEL_L, Gen.ERROR_LEVEL_H, Gen.ERROR_LEVEL_Q]
      rw [index_cast _ _ (mask + 24) (by omega)]; cases Gen.FORMAT_INFO[mask + 24]? <;> rfl
    have e1 : ¬ ((n : Int) = 1) := by omega
    have e2 : ¬ ((n : Int) = 2) := by omega
    have e3 : ¬ ((n : Int) = 3) := by omega
    simp [Gen.ERROR_LEVEL_L, Gen.ERROR_LEVEL_H, Gen.ERROR_LEVEL_Q, h1, h2, h3, e1, e2, e3]
    rw [index_cast _ _ mask rfl]; cases Gen.FORMAT_INFO[mask]? <;> rfl

end Proofs.TieA
