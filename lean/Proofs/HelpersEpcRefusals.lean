/-
  Proofs.HelpersEpcRefusals — the refusals of the model of `_make_epc_qr_data` against the documented
  limits as the judge evaluates them (`Spec.Helpers.epcChecks`): whitespace lemmas (`strip` / `rstrip`
  on characters against `trim`), the two character-set searches, the length of the payload, and the
  case analysis over the thirteen limits.
-/
import Proofs.HelpersEpc

namespace Proofs.Helpers
open Spec.Helpers
open Model.Helpers (digitChar decDigits rstrip fmtAmount newlineJoin epcData truthy mapTruthy stripWs rstripWs roundHalfEven
  epcLines epcText epcReference epcBic epcName epcRefusedByLimits epcEncodingArg)

/-! ### whitespace: `strip` / `rstrip` of the model against `trim` of the specification -/

theorem pyIsSpace_eq : Model.Helpers.pyIsSpace = Spec.Helpers.pyIsSpace := by
  funext c
  simp only [Model.Helpers.pyIsSpace, Spec.Helpers.pyIsSpace, Bool.beq_eq_decide_eq]

/-- `rstrip` with the specification's whitespace predicate -/
def rtrim (s : Str) : Str := (s.reverse.dropWhile Spec.Helpers.pyIsSpace).reverse

theorem rstripWs_eq (s : Str) : rstripWs s = rtrim s := by
  unfold rstripWs rtrim; rw [pyIsSpace_eq]

theorem stripWs_eq (s : Str) : stripWs s = trim s := by
  unfold stripWs trim; rw [rstripWs_eq, pyIsSpace_eq]; rfl

theorem trim_eq_rtrim_dropWhile (s : Str) : trim s = rtrim (s.dropWhile Spec.Helpers.pyIsSpace) := rfl

theorem rtrim_nil : rtrim [] = [] := rfl
theorem trim_nil : trim [] = [] := rfl

theorem rtrim_sublist (s : Str) : (rtrim s).Sublist s := by
  have := (List.dropWhile_sublist (l := s.reverse) Spec.Helpers.pyIsSpace).reverse
  simpa [rtrim] using this

/-- stripping on the right commutes with a prefix, unless everything after the prefix is stripped -/
theorem rtrim_append (w m : Str) : rtrim (w ++ m) = if (rtrim m).isEmpty then rtrim w else w ++ rtrim m := by
  unfold rtrim
  rw [List.reverse_append, List.dropWhile_append]
  by_cases h : (List.dropWhile Spec.Helpers.pyIsSpace m.reverse).isEmpty = true
  · simp [h]
  · simp [h]

theorem rtrim_sublist_append (w m : Str) : (rtrim m).Sublist (rtrim (w ++ m)) := by
  rw [rtrim_append]
  split
  next h => rw [List.isEmpty_iff.mp h]; exact List.nil_sublist _
  · exact List.sublist_append_right _ _

/-- `trim` keeps a part of what `rstrip` keeps -/
theorem trim_sublist_rtrim (s : Str) : (trim s).Sublist (rtrim s) := by
  have h := rtrim_sublist_append (s.takeWhile Spec.Helpers.pyIsSpace) (s.dropWhile Spec.Helpers.pyIsSpace)
  rwa [List.takeWhile_append_dropWhile] at h

theorem trim_sublist (s : Str) : (trim s).Sublist s := (trim_sublist_rtrim s).trans (rtrim_sublist s)

theorem dropWhile_eq_nil_iff' (p : Char → Bool) (s : Str) : s.dropWhile p = [] ↔ ∀ c ∈ s, p c = true := by
  induction s with
  | nil => simp
  | cons x xs ih =>
    by_cases hx : p x = true
    · simp [hx, ih]
    · simp [hx]

theorem rtrim_eq_nil_iff (s : Str) : rtrim s = [] ↔ ∀ c ∈ s, Spec.Helpers.pyIsSpace c = true := by
  unfold rtrim
  rw [List.reverse_eq_nil_iff, dropWhile_eq_nil_iff']
  simp

theorem dropWhile_all_eq_nil_iff (p : Char → Bool) (s : Str) :
    (∀ c ∈ s.dropWhile p, p c = true) ↔ ∀ c ∈ s, p c = true := by
  induction s with
  | nil => simp
  | cons x xs ih =>
    by_cases hx : p x = true
    · simp [hx, ih]
    · simp only [List.dropWhile_cons, hx, Bool.false_eq_true, if_false]

theorem trim_eq_nil_iff (s : Str) : trim s = [] ↔ ∀ c ∈ s, Spec.Helpers.pyIsSpace c = true := by
  rw [trim_eq_rtrim_dropWhile, rtrim_eq_nil_iff, dropWhile_all_eq_nil_iff]

/-- `rstrip` and `strip` leave nothing in exactly the same cases -/
theorem trim_isEmpty (s : Str) : (trim s).isEmpty = (rtrim s).isEmpty := by
  rw [Bool.eq_iff_iff, List.isEmpty_iff, List.isEmpty_iff, trim_eq_nil_iff, rtrim_eq_nil_iff]

theorem isEmpty_of_trim_not (s : Str) (h : (trim s).isEmpty = false) : s.isEmpty = false := by
  cases s with
  | nil => simp [trim_nil] at h
  | cons _ _ => rfl

/-! ### the model's trimmed fields -/

theorem truthy_eq (o : Option Str) : truthy o = !(o.getD []).isEmpty := by
  cases o <;> rfl

theorem truthy_mapTruthy (f : Str → Str) (hf : f [] = []) (o : Option Str) :
    truthy (mapTruthy f o) = !(f (o.getD [])).isEmpty := by
  cases o with
  | none => simp [mapTruthy, truthy, hf]
  | some s =>
    cases s with
    | nil => simp [mapTruthy, truthy, hf]
    | cons x xs => simp [mapTruthy, truthy]

theorem getD_mapTruthy (f : Str → Str) (hf : f [] = []) (o : Option Str) :
    (mapTruthy f o).getD [] = f (o.getD []) := by
  cases o with
  | none => simp [mapTruthy, hf]
  | some s =>
    cases s with
    | nil => simp [mapTruthy, hf]
    | cons x xs => simp [mapTruthy]

theorem isNone_mapTruthy (f : Str → Str) (o : Option Str) : (mapTruthy f o).isNone = o.isNone := by
  cases o with
  | none => rfl
  | some s => cases s <;> simp [mapTruthy]

theorem rstripWs_nil : rstripWs [] = [] := rfl
theorem stripWs_nil : stripWs [] = [] := rfl

theorem epcText_truthy (a : EpcArgs) : truthy (epcText a) = !(rtrim (a.text.getD [])).isEmpty := by
  rw [epcText, truthy_mapTruthy _ rstripWs_nil, rstripWs_eq]
theorem epcText_getD (a : EpcArgs) : (epcText a).getD [] = rtrim (a.text.getD []) := by
  rw [epcText, getD_mapTruthy _ rstripWs_nil, rstripWs_eq]
theorem epcReference_truthy (a : EpcArgs) : truthy (epcReference a) = !(rtrim (a.reference.getD [])).isEmpty := by
  rw [epcReference, truthy_mapTruthy _ rstripWs_nil, rstripWs_eq]
theorem epcReference_getD (a : EpcArgs) : (epcReference a).getD [] = rtrim (a.reference.getD []) := by
  rw [epcReference, getD_mapTruthy _ rstripWs_nil, rstripWs_eq]
theorem epcBic_truthy (a : EpcArgs) : truthy (epcBic a) = !(trim (a.bic.getD [])).isEmpty := by
  rw [epcBic, truthy_mapTruthy _ stripWs_nil, stripWs_eq]
theorem epcBic_getD (a : EpcArgs) : (epcBic a).getD [] = trim (a.bic.getD []) := by
  rw [epcBic, getD_mapTruthy _ stripWs_nil, stripWs_eq]
theorem epcName_getD (a : EpcArgs) : (epcName a).getD [] = trim (a.name.getD []) := by
  rw [epcName, getD_mapTruthy _ stripWs_nil, stripWs_eq]
theorem epcName_isNone (a : EpcArgs) : (epcName a).isNone = a.name.isNone := isNone_mapTruthy _ _

/-- the limit checks of the model, written with the specification's `trim` -/
theorem epcRefusedByLimits_eq (a : EpcArgs) :
    epcRefusedByLimits a =
      (((rtrim (a.text.getD [])).isEmpty && (rtrim (a.reference.getD [])).isEmpty)
      || (!(rtrim (a.text.getD [])).isEmpty && !(rtrim (a.reference.getD [])).isEmpty)
      || (!(rtrim (a.text.getD [])).isEmpty && !decide ((rtrim (a.text.getD [])).length ≤ 140))
      || ((rtrim (a.text.getD [])).isEmpty && !(rtrim (a.reference.getD [])).isEmpty && !decide ((rtrim (a.reference.getD [])).length ≤ 35))
      || (a.name.isNone || !(decide (0 < (trim (a.name.getD [])).length) && decide ((trim (a.name.getD [])).length ≤ 70)))
      || (a.iban.isNone || !(decide (4 < (a.iban.getD []).length) && decide ((a.iban.getD []).length ≤ 34)))
      || (!(trim (a.bic.getD [])).isEmpty && (trim (a.bic.getD [])).length != 8 && (trim (a.bic.getD [])).length != 11)
      || (!(a.purpose.getD []).isEmpty && (a.purpose.getD []).length != 4)
      || decide (a.amount.den = 0)
      || (a.amount.neg && a.amount.num != 0)
      || decide (100 * a.amount.num < Gen.EPC_MIN_AMOUNT_CENTS * a.amount.den)
      || decide (100 * a.amount.num > Gen.EPC_MAX_AMOUNT_CENTS * a.amount.den)) := by
  unfold epcRefusedByLimits
  simp only [epcText_truthy, epcText_getD, epcReference_truthy, epcReference_getD, epcBic_truthy, epcBic_getD, epcName_getD,
    epcName_isNone, truthy_eq a.purpose, Bool.not_not]

/-! ### the `encoding` argument and the character-set search -/

/-- "the codec of this name can represent the text", read from `EpcArgs.can` -/
def canNameOf (a : EpcArgs) : String → Bool :=
  fun (n : String) => match epcEncodings.idxOf? n with | some i => a.can.getD i false | none => false

theorem encodings_eq : Gen.EPC_ENCODINGS = epcEncodings := rfl

/-- the model and the specification read the `encoding` argument in the same way -/
theorem epcEncodingArg_eq (e : EpcEnc) :
    epcEncodingArg e = (match epcRequested e with | .ok r => some r | .error _ => none) := by
  cases e with
  | none => rfl
  | num n =>
    have hl : ((Gen.EPC_ENCODINGS.length : Nat) : Int) = 8 := rfl
    simp only [epcEncodingArg, epcRequested, hl]
    by_cases h1 : 1 ≤ n <;> by_cases h2 : n ≤ 8 <;> simp [h1, h2]
  | name s =>
    have hl : Gen.EPC_ENCODINGS.length = 8 := rfl
    have hm : Model.Helpers.lowerAscii = Spec.Helpers.lowerAscii := rfl
    simp only [epcEncodingArg, epcRequested, hm, encodings_eq]
    rw [← encodings_eq, hl]
    split <;> rfl

theorem epcRequested_range (e : EpcEnc) (k : Nat) (h : epcRequested e = .ok (some k)) : 1 ≤ k ∧ k ≤ 8 := by
  cases e with
  | none => simp [epcRequested] at h
  | num n =>
    simp only [epcRequested] at h
    split at h
    next hn =>
      simp only [Bool.and_eq_true, decide_eq_true_eq] at hn
      injection h with h; injection h with h
      omega
    · cases h
  | name s =>
    simp only [epcRequested] at h
    split at h
    next hn =>
      injection h with h; injection h with h
      omega
    · cases h

theorem epcCharset_none_range (can : List Bool) : 1 ≤ epcCharset none can ∧ epcCharset none can ≤ 8 := by
  unfold epcCharset
  simp only
  split
  next j hj =>
    have := List.mem_of_find?_eq_some hj
    simp only [List.mem_range] at this
    omega
  · omega

theorem epcCharset_range (e : EpcEnc) (req : Option Nat) (h : epcRequested e = .ok req) (can : List Bool) :
    1 ≤ epcCharset req can ∧ epcCharset req can ≤ 8 := by
  cases req with
  | none => exact epcCharset_none_range can
  | some k => exact epcRequested_range e k h

theorem idxOf_encodings : ∀ i < 8, epcEncodings.idxOf? (Gen.EPC_ENCODINGS.getD i "") = some i
    ∧ (Gen.EPC_ENCODINGS.getD i "" == "utf-8") = (i == 0) := by decide

/-- for the character set number `k` of 1..8 the codec's answer is entry `k - 1` of `can`, and the codec
    is UTF-8 exactly for `k = 1` -/
theorem codec_facts (a : EpcArgs) (k : Nat) (h1 : 1 ≤ k) (h8 : k ≤ 8) :
    canNameOf a (Gen.EPC_ENCODINGS.getD (k - 1) "") = a.can.getD (k - 1) false
    ∧ (Gen.EPC_ENCODINGS.getD (k - 1) "" == "utf-8") = decide (k = 1) := by
  obtain ⟨hi, hu⟩ := idxOf_encodings (k - 1) (by omega)
  refine ⟨?_, ?_⟩
  · simp only [canNameOf, hi]
  · rw [hu]
    by_cases hk : k = 1
    · subst hk; rfl
    · have : k - 1 ≠ 0 := by omega
      simp [hk, this]

/-- **the two character-set searches agree**: the first codec of `encodings[1:]` (numbered from 2) that can
    represent the text is the first `j + 2`, `j` in 0..6, with `can[j + 1]` -/
theorem charset_search (a : EpcArgs) :
    (match ((Gen.EPC_ENCODINGS.drop 1).zipIdx 2).find? (fun p => canNameOf a p.1) with
      | some p => p.2
      | none => 1) = epcCharset none a.can := by
  have hlist : (Gen.EPC_ENCODINGS.drop 1).zipIdx 2 =
      [("iso-8859-1", 2), ("iso-8859-2", 3), ("iso-8859-4", 4), ("iso-8859-5", 5), ("iso-8859-7", 6), ("iso-8859-10", 7),
       ("iso-8859-15", 8)] := rfl
  have hr : List.range 7 = [0, 1, 2, 3, 4, 5, 6] := by decide
  have c1 : canNameOf a "iso-8859-1" = a.can.getD 1 false := (codec_facts a 2 (by omega) (by omega)).1
  have c2 : canNameOf a "iso-8859-2" = a.can.getD 2 false := (codec_facts a 3 (by omega) (by omega)).1
  have c3 : canNameOf a "iso-8859-4" = a.can.getD 3 false := (codec_facts a 4 (by omega) (by omega)).1
  have c4 : canNameOf a "iso-8859-5" = a.can.getD 4 false := (codec_facts a 5 (by omega) (by omega)).1
  have c5 : canNameOf a "iso-8859-7" = a.can.getD 5 false := (codec_facts a 6 (by omega) (by omega)).1
  have c6 : canNameOf a "iso-8859-10" = a.can.getD 6 false := (codec_facts a 7 (by omega) (by omega)).1
  have c7 : canNameOf a "iso-8859-15" = a.can.getD 7 false := (codec_facts a 8 (by omega) (by omega)).1
  rw [hlist]
  unfold epcCharset
  simp only [hr, List.find?_cons, List.find?_nil, c1, c2, c3, c4, c5, c6, c7]
  generalize a.can.getD 1 false = b1
  generalize a.can.getD 2 false = b2
  generalize a.can.getD 3 false = b3
  generalize a.can.getD 4 false = b4
  generalize a.can.getD 5 false = b5
  generalize a.can.getD 6 false = b6
  generalize a.can.getD 7 false = b7
  revert b1 b2 b3 b4 b5 b6 b7
  decide

/-! ### `_make_epc_qr_data` in terms of the specification's request and character set -/

/-- the payload text for character set `k` -/
def epcPayload (a : EpcArgs) (k : Nat) : Str :=
  newlineJoin (epcLines a k (roundHalfEven (100 * a.amount.num) a.amount.den))

/-- number of bytes of the text in character set `k` (single-byte sets for `k ≠ 1`) -/
def byteLen (k : Nat) (s : Str) : Nat := if k = 1 then Spec.Helpers.utf8Len s else s.length

theorem charset_model (a : EpcArgs) (req : Option Nat) :
    (match req with
      | some k => k
      | none => match ((Gen.EPC_ENCODINGS.drop 1).zipIdx 2).find? (fun p => canNameOf a p.1) with
        | some p => p.2
        | none => 1) = epcCharset req a.can := by
  cases req with
  | none => exact charset_search a
  | some k => rfl

theorem epcData_eq (a : EpcArgs) :
    epcData a (canNameOf a) =
      (match epcRequested a.encoding with
       | .error _ => none
       | .ok req =>
         if epcRefusedByLimits a = true then none
         else if a.can.getD (epcCharset req a.can - 1) false = false then none
         else if byteLen (epcCharset req a.can) (epcPayload a (epcCharset req a.can)) > 331 then none
         else some (epcCharset req a.can, epcPayload a (epcCharset req a.can))) := by
  unfold epcData
  simp only [epcEncodingArg_eq]
  cases hreq : epcRequested a.encoding with
  | error e => rfl
  | ok req =>
    simp only
    by_cases hl : epcRefusedByLimits a = true
    · simp only [hl, if_true]
    · simp only [hl, Bool.false_eq_true, if_false]
      have key : ∀ X : Nat, X = epcCharset req a.can →
          (if (!canNameOf a (Gen.EPC_ENCODINGS.getD (X - 1) "")) = true then none
           else if (if (Gen.EPC_ENCODINGS.getD (X - 1) "" == "utf-8") = true
                    then Model.Helpers.utf8Len (newlineJoin (epcLines a X (roundHalfEven (100 * a.amount.num) a.amount.den)))
                    else (newlineJoin (epcLines a X (roundHalfEven (100 * a.amount.num) a.amount.den))).length) > Gen.EPC_MAX_BYTES
           then none
           else some (X, newlineJoin (epcLines a X (roundHalfEven (100 * a.amount.num) a.amount.den))))
          = (if a.can.getD (epcCharset req a.can - 1) false = false then none
             else if byteLen (epcCharset req a.can) (epcPayload a (epcCharset req a.can)) > 331 then none
             else some (epcCharset req a.can, epcPayload a (epcCharset req a.can))) := by
        intro X hX
        subst hX
        obtain ⟨h1, h8⟩ := epcCharset_range a.encoding req hreq a.can
        obtain ⟨hc, hu⟩ := codec_facts a (epcCharset req a.can) h1 h8
        rw [hc, hu]
        have hm : Gen.EPC_MAX_BYTES = 331 := rfl
        rw [hm]
        cases hcan : a.can.getD (epcCharset req a.can - 1) false with
        | false => simp
        | true =>
          simp only [Bool.not_true, Bool.false_eq_true, if_false, decide_eq_true_eq]
          rfl
      exact key _ (charset_model a req)

/-! ### byte lengths -/

theorem utf8Len_nil : Spec.Helpers.utf8Len [] = 0 := rfl

theorem utf8Len_append (s t : Str) : Spec.Helpers.utf8Len (s ++ t) = Spec.Helpers.utf8Len s + Spec.Helpers.utf8Len t := by
  simp [Spec.Helpers.utf8Len, Spec.Helpers.utf8, List.flatMap_append]

theorem utf8Len_cons (c : Char) (t : Str) :
    Spec.Helpers.utf8Len (c :: t) = (Spec.Helpers.utf8Char c).length + Spec.Helpers.utf8Len t := by
  simp [Spec.Helpers.utf8Len, Spec.Helpers.utf8, List.flatMap_cons]

theorem utf8Len_sublist {s t : Str} (h : s.Sublist t) : Spec.Helpers.utf8Len s ≤ Spec.Helpers.utf8Len t := by
  induction h with
  | slnil => exact Nat.le_refl _
  | cons a _ ih => rw [utf8Len_cons]; omega
  | cons_cons a _ ih => rw [utf8Len_cons, utf8Len_cons]; omega

/-- characters below 128 take one byte -/
theorem utf8Len_ascii (s : Str) (h : ∀ c ∈ s, c.toNat < 128) : Spec.Helpers.utf8Len s = s.length := by
  induction s with
  | nil => rfl
  | cons c t ih =>
    rw [utf8Len_cons, ih (fun x hx => h x (by simp [hx]))]
    have hc : c.toNat < 128 := h c (by simp)
    simp [Spec.Helpers.utf8Char, hc]
    omega

theorem byteLen_nil (k : Nat) : byteLen k [] = 0 := by unfold byteLen; split <;> rfl

theorem byteLen_append (k : Nat) (s t : Str) : byteLen k (s ++ t) = byteLen k s + byteLen k t := by
  unfold byteLen; split
  · exact utf8Len_append s t
  · exact List.length_append

theorem byteLen_sublist (k : Nat) {s t : Str} (h : s.Sublist t) : byteLen k s ≤ byteLen k t := by
  unfold byteLen; split
  · exact utf8Len_sublist h
  · exact h.length_le

theorem byteLen_ascii (k : Nat) (s : Str) (h : ∀ c ∈ s, c.toNat < 128) : byteLen k s = s.length := by
  unfold byteLen; split
  · exact utf8Len_ascii s h
  · rfl

theorem byteLen_lf_cons (k : Nat) (t : Str) : byteLen k ('\n' :: t) = 1 + byteLen k t := by
  have := byteLen_append k ['\n'] t
  rw [byteLen_ascii k ['\n'] (by intro c hc; simp at hc; subst hc; decide)] at this
  simpa using this

/-- bytes of the joined lines: the bytes of the lines and one LF between consecutive lines -/
theorem byteLen_newlineJoin (k : Nat) (L : List Str) :
    byteLen k (newlineJoin L) = (L.map (byteLen k)).sum + (L.length - 1) := by
  induction L with
  | nil => simp [newlineJoin, byteLen_nil]
  | cons x rest ih =>
    cases rest with
    | nil => simp [newlineJoin]
    | cons y more =>
      simp only [newlineJoin] at ih ⊢
      rw [byteLen_append, byteLen_lf_cons, ih]
      simp only [List.map_cons, List.sum_cons, List.length_cons]
      omega

theorem isDigit_toNat_lt {c : Char} (h : isDigit c = true) : c.toNat < 128 := by
  simp only [isDigit, Bool.and_eq_true, decide_eq_true_eq] at h
  have h2 : c.val ≤ '9'.val := h.2
  have : c.toNat = c.val.toNat := rfl
  have h9 : ('9' : Char).val.toNat = 57 := rfl
  have := UInt32.le_iff_toNat_le.mp h2
  omega

theorem decDigits_ascii (n : Nat) : ∀ c ∈ decDigits n, c.toNat < 128 :=
  fun c hc => isDigit_toNat_lt (decDigits_isDigits n c hc)

/-! ### the amount text and its length -/

theorem toString_length_eq (n : Nat) : (toString n).length = (decDigits n).length := by
  rw [Nat.toString_eq_ofList_toDigits, String.length_ofList]
  induction n using Nat.strongRecOn with
  | _ n ih =>
    rw [Nat.toDigits_eq_if (by omega)]
    by_cases h : n < 10
    · rw [if_pos h, decDigits_lt n h]; rfl
    · rw [if_neg h, decDigits_ge n h, List.length_append, List.length_append, ih (n / 10) (by omega)]
      rfl

/-- the judge's length of the amount text is the length of the text the model writes for the same cents -/
theorem fmtAmount_length (cents : Nat) : (fmtAmount cents).length = amountText cents := by
  rw [fmtAmount_shape]
  unfold amountText
  simp only [toString_length_eq, List.length_append, List.length_cons, List.length_nil, beq_iff_eq]
  by_cases h0 : cents % 10 = 0
  · by_cases h1 : cents % 100 / 10 % 10 = 0
    · have h2 : cents % 100 = 0 := by omega
      simp [h0, h2]
    · have h2 : ¬ cents % 100 = 0 := by omega
      simp [h0, h1, h2]
  · have h2 : ¬ cents % 100 = 0 := by omega
    simp [h0, h2]

theorem fmtAmount_ascii (cents : Nat) : ∀ c ∈ fmtAmount cents, c.toNat < 128 := by
  rw [fmtAmount_shape]
  intro c hc
  have dn : ∀ n, (digitChar n).toNat < 128 := fun n => isDigit_toNat_lt (isDigit_digitChar n)
  simp only [List.mem_append, List.mem_cons, List.not_mem_nil, or_false] at hc
  rcases hc with (hc | hc) | hc
  · rcases hc with rfl | rfl | rfl <;> decide
  · exact decDigits_ascii _ c hc
  · split at hc
    · simp only [List.mem_cons, List.not_mem_nil, or_false] at hc
      rcases hc with rfl | rfl | rfl
      · decide
      · exact dn _
      · exact dn _
    · split at hc
      · simp only [List.mem_cons, List.not_mem_nil, or_false] at hc
        rcases hc with rfl | rfl
        · decide
        · exact dn _
      · simp at hc

/-! ### the lines of the payload and its number of bytes -/

theorem ite_not_isEmpty (s : Str) : (if (!s.isEmpty) = true then s else []) = s := by
  cases s <;> rfl

theorem ite_not_isEmpty_singleton (s : Str) : (if (!s.isEmpty) = true then [s] else []) = (if s.isEmpty = true then [] else [s]) := by
  cases s <;> rfl

/-- the lines of the payload, with the specification's `trim` -/
theorem epcLines_eq (a : EpcArgs) (k cents : Nat) (hk : k ≠ 0) :
    epcLines a k cents =
      [['B', 'C', 'D'], ['0', '0', '2'], decDigits k, ['S', 'C', 'T'], trim (a.bic.getD []), trim (a.name.getD []), a.iban.getD [],
       fmtAmount cents, a.purpose.getD [], rtrim (a.reference.getD [])]
      ++ (if (rtrim (a.text.getD [])).isEmpty = true then [] else [rtrim (a.text.getD [])]) := by
  unfold epcLines
  simp only [epcBic_truthy, epcBic_getD, epcName_getD, epcReference_truthy, epcReference_getD, epcText_truthy, epcText_getD,
    truthy_eq a.purpose, if_neg hk, ite_not_isEmpty, ite_not_isEmpty_singleton]

/-- **number of bytes of the payload**: 19 bytes for `BCD`, `002`, the character set digit, `SCT` and the
    line feeds of the ten lines, the amount text, the fields, and one more line feed with the text -/
theorem payload_byteLen (a : EpcArgs) (k : Nat) (h1 : 1 ≤ k) (h8 : k ≤ 8) :
    byteLen k (epcPayload a k) =
      19 + amountText (roundHalfEven (100 * a.amount.num) a.amount.den)
      + byteLen k (trim (a.bic.getD [])) + byteLen k (trim (a.name.getD [])) + byteLen k (a.iban.getD [])
      + byteLen k (a.purpose.getD []) + byteLen k (rtrim (a.reference.getD []))
      + (if (rtrim (a.text.getD [])).isEmpty = true then 0 else 1 + byteLen k (rtrim (a.text.getD []))) := by
  unfold epcPayload
  rw [byteLen_newlineJoin, epcLines_eq a k _ (by omega)]
  have e1 : byteLen k ['B', 'C', 'D'] = 3 := byteLen_ascii k _ (by decide)
  have e2 : byteLen k ['0', '0', '2'] = 3 := byteLen_ascii k _ (by decide)
  have e3 : byteLen k ['S', 'C', 'T'] = 3 := byteLen_ascii k _ (by decide)
  have e4 : byteLen k (decDigits k) = 1 := by
    rw [byteLen_ascii k _ (decDigits_ascii k), decDigits_lt k (by omega)]; rfl
  have e5 : ∀ c, byteLen k (fmtAmount c) = amountText c := fun c => by
    rw [byteLen_ascii k _ (fmtAmount_ascii c), fmtAmount_length]
  cases ht : (rtrim (a.text.getD [])).isEmpty with
  | true =>
    simp only [if_true, List.append_nil, List.map_cons, List.map_nil, List.sum_cons, List.sum_nil, List.length_cons,
      List.length_nil, e1, e2, e3, e4, e5]
    omega
  | false =>
    simp only [Bool.false_eq_true, if_false, List.cons_append, List.nil_append, List.map_cons, List.map_nil, List.sum_cons,
      List.sum_nil, List.length_cons, List.length_nil, e1, e2, e3, e4, e5]
    omega

/-! ### the judge's checks, one by one -/

/-- a field as the judge looks at it: as given, or trimmed -/
def fld (tr : Bool) (o : Option Str) : Str := if tr then trim (o.getD []) else o.getD []

/-- the character set number the judge expects (1 when the request is invalid) -/
def specK (a : EpcArgs) : Nat := match epcRequested a.encoding with | .ok r => epcCharset r a.can | .error _ => 1

def specFields (tr : Bool) (a : EpcArgs) : List Str :=
  [fld tr a.bic, fld tr a.name, fld tr a.iban, fld tr a.purpose, fld tr a.reference]
  ++ (if (fld tr a.text).isEmpty then [] else [fld tr a.text])

/-- the judge's cents: nearest cent, ties to even -/
def specCents (a : EpcArgs) : Nat :=
  if a.amount.den == 0 then 0 else
    let q := 100 * a.amount.num / a.amount.den
    let r := 100 * a.amount.num % a.amount.den
    if 2 * r > a.amount.den then q + 1 else if 2 * r < a.amount.den then q else (if q % 2 == 0 then q else q + 1)

def specTotal (tr : Bool) (a : EpcArgs) : Nat :=
  3 + 3 + 1 + 3 + amountText (specCents a)
  + ((specFields tr a).map (fun s => if specK a == 1 then Spec.Helpers.utf8Len s else s.length)).sum + (4 + (specFields tr a).length)

def chkName (tr : Bool) (a : EpcArgs) : Bool := a.name.isNone || (fld tr a.name).length < 1 || (fld tr a.name).length > 70
def chkIban (tr : Bool) (a : EpcArgs) : Bool := a.iban.isNone || (fld tr a.iban).length < 5 || (fld tr a.iban).length > 34
def chkXor (tr : Bool) (a : EpcArgs) : Bool := (fld tr a.text).isEmpty == (fld tr a.reference).isEmpty
def chkText (tr : Bool) (a : EpcArgs) : Bool := (fld tr a.text).length > 140
def chkRef (tr : Bool) (a : EpcArgs) : Bool := (fld tr a.reference).length > 35
def chkBic (tr : Bool) (a : EpcArgs) : Bool := !(fld tr a.bic).isEmpty && (fld tr a.bic).length != 8 && (fld tr a.bic).length != 11
def chkPurpose (tr : Bool) (a : EpcArgs) : Bool := !(fld tr a.purpose).isEmpty && (fld tr a.purpose).length != 4
def chkNaN (a : EpcArgs) : Bool := a.amount.den == 0
def chkMin (a : EpcArgs) : Bool := (a.amount.neg && a.amount.num != 0) || 100 * a.amount.num < epcMinCents * a.amount.den
def chkMax (a : EpcArgs) : Bool := 100 * a.amount.num > epcMaxCents * a.amount.den
def chkEnc (a : EpcArgs) : Bool := match epcRequested a.encoding with | .ok _ => false | .error _ => true
def chkCan (a : EpcArgs) : Bool := !(a.can.getD (specK a - 1) false)
def chkSize (tr : Bool) (a : EpcArgs) : Bool := specTotal tr a > epcMaxBytes

/-- the thirteen documented limits of the judge, named -/
theorem epcChecks_eq (tr : Bool) (a : EpcArgs) :
    epcChecks tr a =
      [("name-length", chkName tr a), ("iban-length", chkIban tr a), ("text-xor-reference", chkXor tr a),
       ("text-length", chkText tr a), ("reference-length", chkRef tr a), ("bic-length", chkBic tr a),
       ("purpose-length", chkPurpose tr a), ("amount-not-a-number", chkNaN a), ("amount-below-minimum", chkMin a),
       ("amount-above-maximum", chkMax a), ("encoding-request", chkEnc a),
       ("not-representable-in-the-character-set", chkCan a), ("payload-exceeds-331-bytes", chkSize tr a)] := rfl

/-- no limit is violated both with and without surrounding whitespace: nothing must be refused -/
theorem mustRefuse_none (a : EpcArgs)
    (h1 : (chkName false a && chkName true a) = false) (h2 : (chkIban false a && chkIban true a) = false)
    (h3 : (chkXor false a && chkXor true a) = false) (h4 : (chkText false a && chkText true a) = false)
    (h5 : (chkRef false a && chkRef true a) = false) (h6 : (chkBic false a && chkBic true a) = false)
    (h7 : (chkPurpose false a && chkPurpose true a) = false) (h8 : chkNaN a = false) (h9 : chkMin a = false)
    (h10 : chkMax a = false) (h11 : chkEnc a = false) (h12 : chkCan a = false)
    (h13 : (chkSize false a && chkSize true a) = false) : epcMustRefuse a = none := by
  unfold epcMustRefuse
  rw [epcChecks_eq, epcChecks_eq]
  simp only [List.zip_cons_cons, List.zip_nil_right, List.find?_cons, List.find?_nil, h1, h2, h3, h4, h5, h6, h7, h8, h9, h10,
    h11, h12, h13, Bool.and_self, Option.map_none]

/-- an input that must be accepted violates no limit, with or without surrounding whitespace -/
theorem mustAccept_checks (a : EpcArgs) (h : epcMustAccept a = true) (tr : Bool) :
    chkName tr a = false ∧ chkIban tr a = false ∧ chkXor tr a = false ∧ chkText tr a = false ∧ chkRef tr a = false
    ∧ chkBic tr a = false ∧ chkPurpose tr a = false ∧ chkNaN a = false ∧ chkMin a = false ∧ chkMax a = false
    ∧ chkEnc a = false ∧ chkCan a = false ∧ chkSize tr a = false := by
  unfold epcMustAccept at h
  rw [epcChecks_eq, epcChecks_eq] at h
  simp only [List.all_cons, List.all_nil, Bool.and_eq_true, Bool.not_eq_true', Bool.and_true] at h
  obtain ⟨⟨f1, f2, f3, f4, f5, f6, f7, f8, f9, f10, f11, f12, f13⟩, ⟨t1, t2, t3, t4, t5, t6, t7, t8, t9, t10, t11, t12, t13⟩⟩ := h
  cases tr
  · exact ⟨f1, f2, f3, f4, f5, f6, f7, f8, f9, f10, f11, f12, f13⟩
  · exact ⟨t1, t2, t3, t4, t5, t6, t7, t8, t9, t10, t11, t12, t13⟩

/-! ### the model's limits as propositions -/

/-- what the model requires of the arguments (besides the `encoding` request, the codec and the size) -/
structure LimitsOk (a : EpcArgs) : Prop where
  xor : (rtrim (a.text.getD [])).isEmpty = !(rtrim (a.reference.getD [])).isEmpty
  text : (rtrim (a.text.getD [])).isEmpty = false → (rtrim (a.text.getD [])).length ≤ 140
  ref : (rtrim (a.text.getD [])).isEmpty = true → (rtrim (a.reference.getD [])).length ≤ 35
  name : a.name.isNone = false ∧ 0 < (trim (a.name.getD [])).length ∧ (trim (a.name.getD [])).length ≤ 70
  iban : a.iban.isNone = false ∧ 4 < (a.iban.getD []).length ∧ (a.iban.getD []).length ≤ 34
  bic : (trim (a.bic.getD [])).isEmpty = true ∨ (trim (a.bic.getD [])).length = 8 ∨ (trim (a.bic.getD [])).length = 11
  purpose : (a.purpose.getD []).isEmpty = true ∨ (a.purpose.getD []).length = 4
  den : a.amount.den ≠ 0
  neg : a.amount.neg = true → a.amount.num = 0
  min : Gen.EPC_MIN_AMOUNT_CENTS * a.amount.den ≤ 100 * a.amount.num
  max : 100 * a.amount.num ≤ Gen.EPC_MAX_AMOUNT_CENTS * a.amount.den

theorem limitsOk_iff (a : EpcArgs) : epcRefusedByLimits a = false ↔ LimitsOk a := by
  rw [epcRefusedByLimits_eq]
  simp only [Bool.or_eq_false_iff]
  constructor
  · rintro ⟨⟨⟨⟨⟨⟨⟨⟨⟨⟨⟨h1, h2⟩, h3⟩, h4⟩, ⟨h5a, h5b⟩⟩, ⟨h6a, h6b⟩⟩, h7⟩, h8⟩, h9⟩, h10⟩, h11⟩, h12⟩
    refine ⟨?_, ?_, ?_, ⟨h5a, ?_⟩, ⟨h6a, ?_⟩, ?_, ?_, ?_, ?_, ?_, ?_⟩
    · revert h1 h2; cases (rtrim (a.text.getD [])).isEmpty <;> cases (rtrim (a.reference.getD [])).isEmpty <;> simp
    · intro ht; rw [ht] at h3; simpa using h3
    · intro ht; rw [ht] at h1 h2 h4
      cases hr : (rtrim (a.reference.getD [])).isEmpty with
      | true => rw [hr] at h1; simp at h1
      | false => rw [hr] at h4; simpa using h4
    · simpa using h5b
    · simpa using h6b
    · revert h7; cases (trim (a.bic.getD [])).isEmpty <;> simp
      intro h; omega
    · revert h8; cases (a.purpose.getD []).isEmpty <;> simp
    · simpa using h9
    · intro hn; rw [hn] at h10; simpa using h10
    · simpa using h11
    · simpa using h12
  · intro h
    obtain ⟨hx, ht, hr, ⟨hn1, hn2, hn3⟩, ⟨hi1, hi2, hi3⟩, hb, hp, hd, hng, hmin, hmax⟩ := h
    refine ⟨⟨⟨⟨⟨⟨⟨⟨⟨⟨⟨?_, ?_⟩, ?_⟩, ?_⟩, ⟨hn1, ?_⟩⟩, ⟨hi1, ?_⟩⟩, ?_⟩, ?_⟩, ?_⟩, ?_⟩, ?_⟩, ?_⟩
    · rw [hx]; cases (rtrim (a.reference.getD [])).isEmpty <;> rfl
    · rw [hx]; cases (rtrim (a.reference.getD [])).isEmpty <;> rfl
    · cases he : (rtrim (a.text.getD [])).isEmpty with
      | true => rfl
      | false => simpa using ht he
    · cases he : (rtrim (a.text.getD [])).isEmpty with
      | true => simp [hr he]
      | false => rfl
    · simp [hn2, hn3]
    · simp [hi2, hi3]
    · rcases hb with hb | hb | hb <;> simp [hb]
    · rcases hp with hp | hp <;> simp [hp]
    · simpa using hd
    · cases hn : a.amount.neg with
      | false => rfl
      | true => simp [hng hn]
    · simpa using hmin
    · simpa using hmax

/-! ### the thirteen limits: the model's requirements against the judge's checks -/

theorem fld_true (o : Option Str) : fld true o = trim (o.getD []) := rfl
theorem fld_false (o : Option Str) : fld false o = o.getD [] := rfl

theorem minCents_eq : Gen.EPC_MIN_AMOUNT_CENTS = epcMinCents := rfl
theorem maxCents_eq : Gen.EPC_MAX_AMOUNT_CENTS = epcMaxCents := rfl

theorem length_eq_zero_of_isEmpty {s : Str} (h : s.isEmpty = true) : s.length = 0 := by
  rw [List.isEmpty_iff.mp h]; rfl

theorem chkName_true (a : EpcArgs) : chkName true a =
    (a.name.isNone || decide ((trim (a.name.getD [])).length < 1) || decide ((trim (a.name.getD [])).length > 70)) := rfl
theorem chkIban_false (a : EpcArgs) : chkIban false a =
    (a.iban.isNone || decide ((a.iban.getD []).length < 5) || decide ((a.iban.getD []).length > 34)) := rfl
theorem chkXor_true (a : EpcArgs) : chkXor true a = ((trim (a.text.getD [])).isEmpty == (trim (a.reference.getD [])).isEmpty) := rfl
theorem chkText_true (a : EpcArgs) : chkText true a = decide ((trim (a.text.getD [])).length > 140) := rfl
theorem chkText_false (a : EpcArgs) : chkText false a = decide ((a.text.getD []).length > 140) := rfl
theorem chkRef_true (a : EpcArgs) : chkRef true a = decide ((trim (a.reference.getD [])).length > 35) := rfl
theorem chkRef_false (a : EpcArgs) : chkRef false a = decide ((a.reference.getD []).length > 35) := rfl
theorem chkBic_true (a : EpcArgs) : chkBic true a =
    (!(trim (a.bic.getD [])).isEmpty && (trim (a.bic.getD [])).length != 8 && (trim (a.bic.getD [])).length != 11) := rfl
theorem chkPurpose_false (a : EpcArgs) : chkPurpose false a =
    (!(a.purpose.getD []).isEmpty && (a.purpose.getD []).length != 4) := rfl

/-- what the model requires implies, limit by limit, that the judge's check is not violated for the
    trimmed values (name, text/reference, BIC) or for the values as given (IBAN, purpose, amount) -/
theorem checks_of_limits (a : EpcArgs) (h : LimitsOk a) :
    chkName true a = false ∧ chkIban false a = false ∧ chkXor true a = false ∧ chkText true a = false
    ∧ chkRef true a = false ∧ chkBic true a = false ∧ chkPurpose false a = false ∧ chkNaN a = false
    ∧ chkMin a = false ∧ chkMax a = false := by
  have lt := (trim_sublist_rtrim (a.text.getD [])).length_le
  have lr := (trim_sublist_rtrim (a.reference.getD [])).length_le
  refine ⟨?_, ?_, ?_, ?_, ?_, ?_, ?_, ?_, ?_, ?_⟩
  · obtain ⟨h1, h2, h3⟩ := h.name
    have e1 : decide ((trim (a.name.getD [])).length < 1) = false := decide_eq_false (by omega)
    have e2 : decide ((trim (a.name.getD [])).length > 70) = false := decide_eq_false (by omega)
    rw [chkName_true, h1, e1, e2]; rfl
  · obtain ⟨h1, h2, h3⟩ := h.iban
    have e1 : decide ((a.iban.getD []).length < 5) = false := decide_eq_false (by omega)
    have e2 : decide ((a.iban.getD []).length > 34) = false := decide_eq_false (by omega)
    rw [chkIban_false, h1, e1, e2]; rfl
  · rw [chkXor_true, trim_isEmpty, trim_isEmpty, h.xor]
    cases (rtrim (a.reference.getD [])).isEmpty <;> rfl
  · rw [chkText_true]; apply decide_eq_false
    cases he : (rtrim (a.text.getD [])).isEmpty with
    | true => have := length_eq_zero_of_isEmpty he; omega
    | false => have := h.text he; omega
  · rw [chkRef_true]; apply decide_eq_false
    cases he : (rtrim (a.text.getD [])).isEmpty with
    | true => have := h.ref he; omega
    | false =>
      have hx := h.xor
      rw [he] at hx
      have hr : (rtrim (a.reference.getD [])).isEmpty = true := by
        cases hr : (rtrim (a.reference.getD [])).isEmpty with
        | true => rfl
        | false => rw [hr] at hx; cases hx
      have := length_eq_zero_of_isEmpty hr
      omega
  · rw [chkBic_true]
    rcases h.bic with hb | hb | hb <;> simp [hb]
  · rw [chkPurpose_false]
    rcases h.purpose with hp | hp <;> simp [hp]
  · simpa [chkNaN] using h.den
  · have hm := h.min
    rw [minCents_eq] at hm
    simp only [chkMin, Bool.or_eq_false_iff]
    refine ⟨?_, by simp; omega⟩
    cases hn : a.amount.neg with
    | false => rfl
    | true => simp [h.neg hn]
  · have hm := h.max
    rw [maxCents_eq] at hm
    simp [chkMax]
    omega

/-- conversely: if none of these checks is violated (name, text/reference and BIC trimmed; text and
    reference lengths, IBAN, purpose and amount as given) the model's requirements hold -/
theorem limits_of_checks (a : EpcArgs)
    (h1 : chkName true a = false) (h2 : chkIban false a = false) (h3 : chkXor true a = false) (h4 : chkText false a = false)
    (h5 : chkRef false a = false) (h6 : chkBic true a = false) (h7 : chkPurpose false a = false) (h8 : chkNaN a = false)
    (h9 : chkMin a = false) (h10 : chkMax a = false) : LimitsOk a := by
  have lt := (rtrim_sublist (a.text.getD [])).length_le
  have lr := (rtrim_sublist (a.reference.getD [])).length_le
  simp only [chkName_true, Bool.or_eq_false_iff] at h1
  simp only [chkIban_false, Bool.or_eq_false_iff] at h2
  have h1b := of_decide_eq_false h1.1.2
  have h1c := of_decide_eq_false h1.2
  have h2b := of_decide_eq_false h2.1.2
  have h2c := of_decide_eq_false h2.2
  simp only [chkXor_true, trim_isEmpty] at h3
  have h4 := of_decide_eq_false (chkText_false a ▸ h4)
  have h5 := of_decide_eq_false (chkRef_false a ▸ h5)
  rw [chkBic_true] at h6
  rw [chkPurpose_false] at h7
  simp only [chkMin, Bool.or_eq_false_iff] at h9
  have h9b := h9.2
  simp at h9b
  simp [chkMax] at h10
  refine ⟨?_, ?_, ?_, ⟨h1.1.1, by omega, by omega⟩, ⟨h2.1.1, by omega, by omega⟩, ?_, ?_, ?_, ?_, ?_, ?_⟩
  · revert h3; cases (rtrim (a.text.getD [])).isEmpty <;> cases (rtrim (a.reference.getD [])).isEmpty <;> simp
  · intro _; omega
  · intro _; omega
  · revert h6; cases (trim (a.bic.getD [])).isEmpty <;> simp
    intro h; omega
  · revert h7; cases (a.purpose.getD []).isEmpty <;> simp
  · simpa [chkNaN] using h8
  · intro hn; have := h9.1; rw [hn] at this; simpa using this
  · rw [minCents_eq]; omega
  · rw [maxCents_eq]; omega

/-! ### the size limit: the judge's count against the bytes of the model's payload -/

theorem specK_of_ok (a : EpcArgs) (req : Option Nat) (h : epcRequested a.encoding = .ok req) :
    specK a = epcCharset req a.can := by
  unfold specK; rw [h]

theorem byteLen_fun (k : Nat) : (fun s => if k == 1 then Spec.Helpers.utf8Len s else s.length) = byteLen k := by
  funext s
  unfold byteLen
  by_cases h : k = 1 <;> simp [h]

/-- the judge's count of the payload bytes -/
theorem specTotal_eq (tr : Bool) (a : EpcArgs) :
    specTotal tr a =
      19 + amountText (specCents a)
      + byteLen (specK a) (fld tr a.bic) + byteLen (specK a) (fld tr a.name) + byteLen (specK a) (fld tr a.iban)
      + byteLen (specK a) (fld tr a.purpose) + byteLen (specK a) (fld tr a.reference)
      + (if (fld tr a.text).isEmpty = true then 0 else 1 + byteLen (specK a) (fld tr a.text)) := by
  unfold specTotal specFields
  rw [byteLen_fun]
  cases ht : (fld tr a.text).isEmpty with
  | true =>
    simp only [if_true, List.append_nil, List.map_cons, List.map_nil, List.sum_cons, List.sum_nil, List.length_cons,
      List.length_nil]
    omega
  | false =>
    simp only [Bool.false_eq_true, if_false, List.cons_append, List.nil_append, List.map_cons, List.map_nil, List.sum_cons,
      List.sum_nil, List.length_cons, List.length_nil]
    omega

theorem specTotal_false (a : EpcArgs) :
    specTotal false a =
      19 + amountText (specCents a)
      + byteLen (specK a) (a.bic.getD []) + byteLen (specK a) (a.name.getD []) + byteLen (specK a) (a.iban.getD [])
      + byteLen (specK a) (a.purpose.getD []) + byteLen (specK a) (a.reference.getD [])
      + (if (a.text.getD []).isEmpty = true then 0 else 1 + byteLen (specK a) (a.text.getD [])) := specTotal_eq false a

theorem specTotal_true (a : EpcArgs) :
    specTotal true a =
      19 + amountText (specCents a)
      + byteLen (specK a) (trim (a.bic.getD [])) + byteLen (specK a) (trim (a.name.getD []))
      + byteLen (specK a) (trim (a.iban.getD [])) + byteLen (specK a) (trim (a.purpose.getD []))
      + byteLen (specK a) (trim (a.reference.getD []))
      + (if (trim (a.text.getD [])).isEmpty = true then 0 else 1 + byteLen (specK a) (trim (a.text.getD []))) :=
  specTotal_eq true a

/-- the judge and the model compute the same cents (nearest, ties to even) -/
theorem specCents_eq (a : EpcArgs) (hd : a.amount.den ≠ 0) :
    specCents a = roundHalfEven (100 * a.amount.num) a.amount.den := by
  unfold specCents roundHalfEven
  simp only [beq_iff_eq, hd, if_false]
  generalize 100 * a.amount.num / a.amount.den = q
  generalize 100 * a.amount.num % a.amount.den = r
  by_cases h1 : 2 * r > a.amount.den
  · have h2 : ¬ 2 * r < a.amount.den := by omega
    simp only [h1, h2, if_true, if_false]
  · by_cases h2 : 2 * r < a.amount.den
    · simp only [h1, h2, if_true, if_false]
    · simp only [h1, h2, if_false]

/-- the model's payload is never longer than the judge's count for the values as given -/
theorem payload_le_raw (a : EpcArgs) (hd : a.amount.den ≠ 0) (h1 : 1 ≤ specK a) (h8 : specK a ≤ 8) :
    byteLen (specK a) (epcPayload a (specK a)) ≤ specTotal false a := by
  rw [payload_byteLen a _ h1 h8, specTotal_false, specCents_eq a hd]
  have hb := byteLen_sublist (specK a) (trim_sublist (a.bic.getD []))
  have hn := byteLen_sublist (specK a) (trim_sublist (a.name.getD []))
  have hr := byteLen_sublist (specK a) (rtrim_sublist (a.reference.getD []))
  have ht := byteLen_sublist (specK a) (rtrim_sublist (a.text.getD []))
  have htx : (if (rtrim (a.text.getD [])).isEmpty = true then 0 else 1 + byteLen (specK a) (rtrim (a.text.getD [])))
      ≤ (if (a.text.getD []).isEmpty = true then 0 else 1 + byteLen (specK a) (a.text.getD [])) := by
    cases he : (rtrim (a.text.getD [])).isEmpty with
    | true => simp
    | false =>
      have : (a.text.getD []).isEmpty = false := by
        cases hx : a.text.getD [] with
        | nil => rw [hx, rtrim_nil] at he; cases he
        | cons _ _ => rfl
      rw [this]
      simp only [Bool.false_eq_true, if_false]
      omega
  omega

/-- and it is at least as long as the judge's count for the trimmed values -/
theorem trimmed_le_payload (a : EpcArgs) (hd : a.amount.den ≠ 0) (h1 : 1 ≤ specK a) (h8 : specK a ≤ 8) :
    specTotal true a ≤ byteLen (specK a) (epcPayload a (specK a)) := by
  rw [payload_byteLen a _ h1 h8, specTotal_true, specCents_eq a hd]
  simp only [trim_isEmpty]
  have hi := byteLen_sublist (specK a) (trim_sublist (a.iban.getD []))
  have hp := byteLen_sublist (specK a) (trim_sublist (a.purpose.getD []))
  have hr := byteLen_sublist (specK a) (trim_sublist_rtrim (a.reference.getD []))
  have ht := byteLen_sublist (specK a) (trim_sublist_rtrim (a.text.getD []))
  cases he : (rtrim (a.text.getD [])).isEmpty with
  | true => simp only [if_true]; omega
  | false => simp only [Bool.false_eq_true, if_false]; omega

/-! ### the four parts -/

/-- what an accepting run of the model establishes -/
theorem accept_facts (a : EpcArgs) (k : Nat) (t : Str) (h : epcData a (canNameOf a) = some (k, t)) :
    ∃ req, epcRequested a.encoding = .ok req ∧ LimitsOk a ∧ k = epcCharset req a.can ∧ a.can.getD (k - 1) false = true
      ∧ t = epcPayload a k ∧ byteLen k t ≤ 331 := by
  rw [epcData_eq] at h
  cases hreq : epcRequested a.encoding with
  | error e => rw [hreq] at h; cases h
  | ok req =>
    rw [hreq] at h
    simp only at h
    split at h
    · cases h
    next hl =>
      split at h
      · cases h
      next hc =>
        split at h
        · cases h
        next hs =>
          injection h with h
          injection h with hk ht
          subst hk; subst ht
          refine ⟨req, rfl, (limitsOk_iff a).mp (by simpa using hl), rfl, by simpa using hc, rfl, by omega⟩

theorem chkSize_eq (tr : Bool) (a : EpcArgs) : chkSize tr a = decide (specTotal tr a > 331) := rfl

/-- **accepted ⇒ nothing had to be refused** -/
theorem accept_no_limit_violated (a : EpcArgs) (k : Nat) (t : Str) (h : epcData a (canNameOf a) = some (k, t)) :
    epcMustRefuse a = none := by
  obtain ⟨req, hreq, hlim, hk, hcan, ht, hsz⟩ := accept_facts a k t h
  obtain ⟨c1, c2, c3, c4, c5, c6, c7, c8, c9, c10⟩ := checks_of_limits a hlim
  have hK : specK a = k := by rw [specK_of_ok a req hreq, hk]
  obtain ⟨k1, k8⟩ := epcCharset_range a.encoding req hreq a.can
  rw [← hk] at k1 k8
  have c11 : chkEnc a = false := by unfold chkEnc; rw [hreq]
  have c12 : chkCan a = false := by unfold chkCan; rw [hK, hcan]; rfl
  have c13 : chkSize true a = false := by
    rw [chkSize_eq]
    apply decide_eq_false
    have := trimmed_le_payload a hlim.den (by omega) (by omega)
    rw [hK, ← ht] at this
    omega
  exact mustRefuse_none a (by rw [c1, Bool.and_false]) (by rw [c2, Bool.false_and]) (by rw [c3, Bool.and_false])
    (by rw [c4, Bool.and_false]) (by rw [c5, Bool.and_false]) (by rw [c6, Bool.and_false]) (by rw [c7, Bool.false_and])
    c8 c9 c10 c11 c12 (by rw [c13, Bool.and_false])

/-- **accepted ⇒ the character set number is the prescribed one** -/
theorem accept_charset (a : EpcArgs) (k : Nat) (t : Str) (h : epcData a (canNameOf a) = some (k, t)) :
    (match epcRequested a.encoding with | .ok req => k = epcCharset req a.can | .error _ => False) := by
  obtain ⟨req, hreq, _, hk, _⟩ := accept_facts a k t h
  rw [hreq]
  exact hk

/-- **accepted ⇒ at most 331 bytes** -/
theorem accept_size (a : EpcArgs) (k : Nat) (t : Str) (h : epcData a (canNameOf a) = some (k, t)) :
    (if k = 1 then Spec.Helpers.utf8Len t else t.length) ≤ epcMaxBytes := by
  obtain ⟨_, _, _, _, _, _, hsz⟩ := accept_facts a k t h
  exact hsz

/-- **refused ⇒ the input is not one that must be accepted** -/
theorem refuse_not_must_accept (a : EpcArgs) (h : epcData a (canNameOf a) = none) : epcMustAccept a = false := by
  cases hma : epcMustAccept a with
  | false => rfl
  | true =>
    exfalso
    obtain ⟨_, f2, _, f4, f5, _, f7, f8, f9, f10, f11, f12, f13⟩ := mustAccept_checks a hma false
    obtain ⟨t1, _, t3, _, _, t6, _⟩ := mustAccept_checks a hma true
    have hlim := limits_of_checks a t1 f2 t3 f4 f5 t6 f7 f8 f9 f10
    rw [epcData_eq] at h
    cases hreq : epcRequested a.encoding with
    | error e => unfold chkEnc at f11; rw [hreq] at f11; cases f11
    | ok req =>
      have hK := specK_of_ok a req hreq
      obtain ⟨k1, k8⟩ := epcCharset_range a.encoding req hreq a.can
      rw [← hK] at k1 k8
      have hl : epcRefusedByLimits a = false := (limitsOk_iff a).mpr hlim
      have hc : a.can.getD (epcCharset req a.can - 1) false = true := by
        unfold chkCan at f12; rw [hK] at f12; simpa using f12
      have hs : ¬ byteLen (epcCharset req a.can) (epcPayload a (epcCharset req a.can)) > 331 := by
        rw [chkSize_eq] at f13
        have h1 := of_decide_eq_false f13
        have h2 := payload_le_raw a hlim.den k1 k8
        rw [hK] at h2
        omega
      rw [hreq] at h
      simp only [hl, hc, Bool.false_eq_true, if_false, Bool.true_eq_false, if_neg hs] at h
      cases h

end Proofs.Helpers
