/-
  Proofs.RasterDocsPpm — the list-level PPM reader (Spec/RasterL.lean) applied to the whole file the model of
  `write_ppm` writes (Model/RasterDocs.lean): every pixel shows the colour configured for the module type
  `matrix_iter_verbose` reports for it.  Mathlib-free.
-/
import Proofs.RasterDocsNetpbm
import Proofs.RasterDocsColour

namespace Proofs.RasterDocs

open Model Model.RasterDocs Spec Proofs.Raster

/-- `colormap[mt] = _color_to_rgb(clr)` for every entry -/
def parseRgbMap (colormap : List (Nat × ColorArg)) : R (List (Nat × List Nat)) :=
  colormap.mapM (fun e => do let c ← colorToRgb e.2; pure (e.1, c))

theorem parseRgbMap_cons_ok (e : Nat × ColorArg) (cm : List (Nat × ColorArg)) (m : List (Nat × List Nat))
    (h : parseRgbMap (e :: cm) = .ok m) :
    ∃ c rest, colorToRgb e.2 = .ok c ∧ parseRgbMap cm = .ok rest ∧ m = (e.1, c) :: rest := by
  unfold parseRgbMap at h ⊢
  rw [List.mapM_cons] at h
  simp only [bind, Except.bind, pure, Except.pure] at h
  cases hc : colorToRgb e.2 with
  | error err => rw [hc] at h; cases h
  | ok c =>
    rw [hc] at h
    simp only at h
    cases hr : List.mapM (fun e : Nat × ColorArg => do let c ← colorToRgb e.2; pure (e.1, c)) cm with
    | error err =>
      simp only [bind, Except.bind, pure, Except.pure] at hr
      rw [hr] at h; cases h
    | ok rest =>
      simp only [bind, Except.bind, pure, Except.pure] at hr
      rw [hr] at h
      simp only at h
      cases h
      exact ⟨c, rest, rfl, rfl, rfl⟩

theorem parseRgbMap_nil_ok (m : List (Nat × List Nat)) (h : parseRgbMap [] = .ok m) : m = [] := by
  unfold parseRgbMap at h
  rw [List.mapM_nil] at h
  cases h
  rfl

/-- an entry of the parsed map is the parsed colour of the entry of the colour map -/
theorem parseRgbMap_get (cm : List (Nat × ColorArg)) (m : List (Nat × List Nat)) (h : parseRgbMap cm = .ok m) (t : Nat) (l : List Nat)
    (hl : cmGet m t = some l) : ∃ c, cmGet cm t = some c ∧ colorToRgb c = .ok l := by
  induction cm generalizing m with
  | nil =>
    rw [parseRgbMap_nil_ok m h] at hl
    simp [cmGet] at hl
  | cons e cm ih =>
    obtain ⟨c, rest, hc, hr, rfl⟩ := parseRgbMap_cons_ok e cm m h
    by_cases ht : (e.1 == t) = true
    · have h1 : cmGet (e :: cm) t = some e.2 := by simp [cmGet, ht]
      have h2 : cmGet ((e.1, c) :: rest) t = some c := by simp [cmGet, ht]
      rw [h2] at hl
      cases hl
      exact ⟨e.2, h1, hc⟩
    · have h1 : cmGet (e :: cm) t = cmGet cm t := by simp [cmGet, ht]
      have h2 : cmGet ((e.1, c) :: rest) t = cmGet rest t := by simp [cmGet, ht]
      rw [h2] at hl
      rw [h1]
      exact ih rest hr hl

theorem ppmHeader_eq (t : List Nat) (W H : Nat) (raster : List Nat) :
    ppmHeader (35 :: t) W H ++ raster =
      80 :: 54 :: 32 :: 35 :: (t ++ 10 :: (decBytes W ++ 32 :: (decBytes H ++ 32 :: (decBytes 255 ++ 10 :: raster)))) := by
  have : decBytes 255 = [50, 53, 53] := by decide
  simp [ppmHeader, ascii, this]

theorem scaleTo255_255 (v : Nat) (hv : v ≤ 255) : L.scaleTo255 255 v = some v := by
  unfold L.scaleTo255
  have h1 : ¬ v > 255 := by omega
  have h2 : v * 255 % 255 = 0 := Nat.mul_mod_left _ _
  simp [h1, h2]

theorem ppmPixel_255 (r g b : Nat) (hr : r ≤ 255) (hg : g ≤ 255) (hb : b ≤ 255) : L.ppmPixel 255 [r, g, b] = some ⟨r, g, b, 255⟩ := by
  simp [L.ppmPixel, scaleTo255_255, hr, hg, hb]

/-- the colour a parsed map holds for a module type, as an RGBA value -/
def rgbOf (m : List (Nat × List Nat)) (t : Nat) : RGBA :=
  match cmGet m t with
  | some [r, g, b] => ⟨r, g, b, 255⟩
  | _ => ⟨0, 0, 0, 0⟩

/-- what a successful run of the pixel part went through -/
theorem ppmRaster_ok {w h : Nat} {scale : Num} {border : Option Num} {b : Nat} (a : Admitted w h scale border b)
    (M : List (List Nat)) (colormap : List (Nat × ColorArg)) (raster : List Nat)
    (hr : ppmRaster M w h colormap scale border = .ok raster) :
    ∃ m rows, parseRgbMap colormap = .ok m ∧ matrixIterVerbose M w h scale border = .ok rows
      ∧ (∀ r ∈ rows, ∀ t ∈ r, (cmGet m t).isNone = false)
      ∧ raster = rows.flatMap (fun row => row.flatMap (fun t => (cmGet m t).getD [])) := by
  have hsame : matrixIterVerbose M w h (.int scale.toInt) border = matrixIterVerbose M w h scale border := rfl
  unfold ppmRaster at hr
  by_cases hnone : (colormap.any (fun e => e.2 == ColorArg.none)) = true
  · simp [a.okScale, a.okBorder, hnone, bind, Except.bind, throw, throwThe, MonadExceptOf.throw] at hr
  · simp only [a.okScale, a.okBorder, hnone, bind, Except.bind, pure, Except.pure, Bool.false_eq_true, if_false] at hr
    cases hm : parseRgbMap colormap with
    | error e =>
      unfold parseRgbMap at hm
      simp only [bind, Except.bind, pure, Except.pure] at hm
      rw [hm] at hr; cases hr
    | ok m =>
      have hm' := hm
      unfold parseRgbMap at hm
      simp only [bind, Except.bind, pure, Except.pure] at hm
      rw [hm] at hr
      simp only at hr
      rw [hsame] at hr
      cases hrows : matrixIterVerbose M w h scale border with
      | error e => rw [hrows] at hr; cases hr
      | ok rows =>
        rw [hrows] at hr
        simp only at hr
        by_cases hany : (rows.any (fun row => row.any (fun t => (cmGet m t).isNone))) = true
        · simp [hany, throw, throwThe, MonadExceptOf.throw] at hr
        · simp only [hany, Bool.false_eq_true, if_false] at hr
          cases hr
          refine ⟨m, rows, rfl, rfl, ?_, rfl⟩
          intro r hr t ht
          cases hn : (cmGet m t).isNone with
          | false => rfl
          | true =>
            exfalso; apply hany
            rw [List.any_eq_true]
            exact ⟨r, hr, by rw [List.any_eq_true]; exact ⟨t, ht, hn⟩⟩

theorem matrixIterVerbose_shape {w h : Nat} {scale : Num} {border : Option Num} {b : Nat} (a : Admitted w h scale border b)
    (M : List (List Nat)) (rows : List (List Nat)) (hrows : matrixIterVerbose M w h scale border = .ok rows) :
    rows.length = (h + 2 * b) * scale.toInt.toNat ∧ ∀ r ∈ rows, r.length = (w + 2 * b) * scale.toInt.toNat := by
  unfold matrixIterVerbose at hrows
  simp only [a.okScale, a.okBorder, a.okRange, bind, Except.bind, pure, Except.pure] at hrows
  cases hA : alignmentMatrix w with
  | error e => rw [hA] at hrows; cases hrows
  | ok A =>
    rw [hA] at hrows
    cases hrows
    rw [iterWith_eq _ _ _ _ _ a.pos]
    constructor
    · simp
    · intro r hr
      simp only [List.mem_map, List.mem_range] at hr
      obtain ⟨y, _, rfl⟩ := hr
      simp

/-- the three numbers of a PPM header behind the magic number -/
theorem readNum_ppm_header (t : List Nat) (ht : ∀ c ∈ t, c ≠ 10 ∧ c ≠ 13) (W H : Nat) (raster : List Nat) :
    L.readNum (32 :: 35 :: (t ++ 10 :: (decBytes W ++ 32 :: (decBytes H ++ 32 :: (decBytes 255 ++ 10 :: raster)))))
      = some (W, 32 :: (decBytes H ++ 32 :: (decBytes 255 ++ 10 :: raster)))
    ∧ L.readNum (32 :: (decBytes H ++ 32 :: (decBytes 255 ++ 10 :: raster))) = some (H, 32 :: (decBytes 255 ++ 10 :: raster))
    ∧ L.readNum (32 :: (decBytes 255 ++ 10 :: raster)) = some (255, 10 :: raster) := by
  refine ⟨?_, ?_, ?_⟩
  · rw [readNum_ws 32 _ (by decide), readNum_comment t _ ht, readNum_dec W 32 _ (by decide)]
  · rw [readNum_ws 32 _ (by decide), readNum_dec H 32 _ (by decide)]
  · rw [readNum_ws 32 _ (by decide), readNum_dec 255 10 _ (by decide)]

/-- PPM: whenever the model of `write_ppm` succeeds, the reader returns a picture in which every pixel shows the
    colour configured for the module type `matrix_iter_verbose` yields for that pixel -/
theorem ppm_doc {w h : Nat} {scale : Num} {border : Option Num} {b : Nat} (a : Admitted w h scale border b)
    (M : List (List Nat)) (hw : 0 < w) (hh : 0 < h) (colormap : List (Nat × ColorArg)) (doc : List Nat)
    (hdoc : ppmDoc M w h colormap scale border = .ok doc) :
    ∃ (rows : List (List Nat)) (px : Nat → RGBA),
      matrixIterVerbose M w h scale border = .ok rows
      ∧ rows.length = (h + 2 * b) * scale.toInt.toNat ∧ (∀ r ∈ rows, r.length = (w + 2 * b) * scale.toInt.toNat)
      ∧ (∀ r ∈ rows, ∀ t ∈ r, ∃ c rr g bb, cmGet colormap t = some c ∧ colorToRgb c = .ok [rr, g, bb] ∧ px t = ⟨rr, g, bb, 255⟩)
      ∧ L.readPpm doc = .ok { w := (w + 2 * b) * scale.toInt.toNat, h := (h + 2 * b) * scale.toInt.toNat,
                              px := rows.map (fun row => row.map (fun t => some (px t))) } := by
  have hs := a.pos
  cases hr : ppmRaster M w h colormap scale border with
  | error e => simp [ppmDoc, hr, bind, Except.bind] at hdoc
  | ok raster =>
    have hdoc' : doc = ppmHeader (35 :: commentTail) ((w + 2 * b) * scale.toInt.toNat) ((h + 2 * b) * scale.toInt.toNat) ++ raster := by
      simp only [ppmDoc, hr, createdBy_eq, a.okRange, bind, Except.bind, pure, Except.pure] at hdoc
      cases hdoc; rfl
    obtain ⟨m, rows, hm', hrows, hsome, hraster⟩ := ppmRaster_ok a M colormap raster hr
    have hshape := matrixIterVerbose_shape a M rows hrows
    generalize scale.toInt.toNat = s at hs hshape hdoc' ⊢
    -- every type has a parsed colour of three values ≤ 255
    have hcol : ∀ r ∈ rows, ∀ t ∈ r, ∃ c rr g bb, cmGet colormap t = some c ∧ colorToRgb c = .ok [rr, g, bb]
        ∧ cmGet m t = some [rr, g, bb] ∧ rr ≤ 255 ∧ g ≤ 255 ∧ bb ≤ 255 := by
      intro r hr t ht
      cases hg : cmGet m t with
      | none => have := hsome r hr t ht; rw [hg] at this; cases this
      | some l =>
        obtain ⟨c, hc, hcl⟩ := parseRgbMap_get colormap m hm' t l hg
        obtain ⟨rr, g, bb, rfl, h1, h2, h3⟩ := colorToRgb_ok c l hcl
        exact ⟨c, rr, g, bb, hc, hcl, rfl, h1, h2, h3⟩
    refine ⟨rows, rgbOf m, hrows, hshape.1, hshape.2, ?_, ?_⟩
    · intro r hr t ht
      obtain ⟨c, rr, g, bb, hc, hcl, hmt, _⟩ := hcol r hr t ht
      exact ⟨c, rr, g, bb, hc, hcl, by simp [rgbOf, hmt]⟩
    · rw [hdoc', ppmHeader_eq]
      have hW : 0 < (w + 2 * b) * s := Nat.mul_pos (by omega) hs
      have hH : 0 < (h + 2 * b) * s := Nat.mul_pos (by omega) hs
      have hpix : ∀ r ∈ rows, ∀ t ∈ r, ((cmGet m t).getD []).length = 3 := by
        intro r hr t ht
        obtain ⟨_, rr, g, bb, _, _, hmt, _⟩ := hcol r hr t ht
        simp [hmt]
      have hrowlen : ∀ r ∈ rows, (r.flatMap (fun t => (cmGet m t).getD [])).length = 3 * ((w + 2 * b) * s) := by
        intro r hr
        rw [length_flatMap_const _ 3 r (hpix r hr), hshape.2 r hr]
      have hlen : raster.length = 3 * ((w + 2 * b) * s) * ((h + 2 * b) * s) := by
        rw [hraster, length_flatMap_const _ _ rows hrowlen, hshape.1]
      obtain ⟨n1, n2, n3⟩ := readNum_ppm_header commentTail commentTail_ok ((w + 2 * b) * s) ((h + 2 * b) * s) raster
      have hW0 : ((w + 2 * b) * s == 0) = false := by simp; omega
      have hH0 : ((h + 2 * b) * s == 0) = false := by simp; omega
      have hws : (!isWs 32) = false := by decide
      have hmx : ((255 : Nat) == 0 || decide ((255 : Nat) > 255)) = false := by decide
      simp only [L.readPpm, List.headD_cons, hws, Bool.false_eq_true, if_false, n1, n2, n3, hW0, hH0, Bool.or_self, hmx,
        List.drop_succ_cons, List.drop_zero, List.isEmpty_cons, Bool.false_or, hlen, bne_self_eq_false]
      congr 1
      congr 1
      have hch := chunks_flatMap (fun row : List Nat => row.flatMap (fun t => (cmGet m t).getD [])) _ rows hrowlen
      rw [hshape.1, ← hraster] at hch
      rw [hch, List.map_map]
      apply List.map_congr_left
      intro r hr
      simp only [Function.comp]
      have hch2 := chunks_flatMap (fun t : Nat => (cmGet m t).getD []) 3 r (hpix r hr)
      rw [hshape.2 r hr] at hch2
      rw [hch2, List.map_map]
      apply List.map_congr_left
      intro t ht
      obtain ⟨_, rr, g, bb, _, _, hmt, h1, h2, h3⟩ := hcol r hr t ht
      simp only [Function.comp, hmt, Option.getD_some, ppmPixel_255 rr g bb h1 h2 h3, rgbOf]

end Proofs.RasterDocs
