/-
  Proofs.RasterDocsTok — how the C tokenizer of Spec/RasterL.lean (`Spec.L.run`, a state machine) reads the pieces
  the XBM / XPM writers emit: white space, punctuation, identifiers, decimal numbers, `0x..` bytes, string
  literals, the `/* XPM */` comment.  All lemmas have the shape
  `run .idle (piece ++ t :: r) = token :: run .idle (t :: r)` (t = the character that ends the piece).
  Mathlib-free.
-/
import Proofs.RasterDocsBase

namespace Proofs.RasterDocs

open Model Model.RasterDocs Spec Spec.L

/-- a C identifier: a letter or `_`, then letters, digits, `_` -/
def IsCIdent (name : List Char) : Prop :=
  ∃ c cs, name = c :: cs ∧ isIdentStart c = true ∧ ∀ x ∈ cs, isIdentChar x = true

theorem run_idle_cons (c : Char) (r : List Char) : run .idle (c :: r) = (stepIdle c).1 ++ run (stepIdle c).2 r := rfl

/-- white space between tokens is skipped -/
theorem run_ws (c : Char) (r : List Char) (h : c = ' ' ∨ c = '\n' ∨ c = '\t' ∨ c = '\r') : run .idle (c :: r) = run .idle r := by
  rcases h with rfl | rfl | rfl | rfl <;> rfl

/-- a punctuation character is a token of its own -/
theorem run_punct (c : Char) (r : List Char) (h : stepIdle c = ([.punct c], .idle)) : run .idle (c :: r) = .punct c :: run .idle r := by
  rw [run_idle_cons, h]; rfl

/-! ### character classes -/

theorem identStart_cases (c : Char) (h : isIdentStart c = true) :
    (65 ≤ c.val.toNat ∧ c.val.toNat ≤ 90) ∨ (97 ≤ c.val.toNat ∧ c.val.toNat ≤ 122) ∨ c = '_' := by
  unfold isIdentStart at h
  simp only [Bool.or_eq_true, beq_iff_eq] at h
  rcases h with h | h
  · unfold Char.isAlpha Char.isUpper Char.isLower at h
    simp only [Bool.or_eq_true, Bool.and_eq_true, decide_eq_true_eq, ge_iff_le, UInt32.le_iff_toNat_le] at h
    rcases h with h | h
    · exact Or.inl h
    · exact Or.inr (Or.inl h)
  · exact Or.inr (Or.inr h)

theorem not_digit_of_identStart (c : Char) (h : isIdentStart c = true) : c.isDigit = false := by
  rcases identStart_cases c h with h | h | rfl
  · unfold Char.isDigit
    simp only [Bool.and_eq_false_iff, decide_eq_false_iff_not, ge_iff_le, UInt32.le_iff_toNat_le, Nat.not_le]
    right; exact Nat.lt_of_lt_of_le (by decide) h.1
  · unfold Char.isDigit
    simp only [Bool.and_eq_false_iff, decide_eq_false_iff_not, ge_iff_le, UInt32.le_iff_toNat_le, Nat.not_le]
    right; exact Nat.lt_of_lt_of_le (by decide) h.1
  · decide

theorem stepIdle_identStart (c : Char) (h : isIdentStart c = true) : stepIdle c = ([], .ident [c]) := by
  have h1 : c ≠ ' ' := by rintro rfl; exact absurd h (by decide)
  have h2 : c ≠ '\n' := by rintro rfl; exact absurd h (by decide)
  have h3 : c ≠ '\t' := by rintro rfl; exact absurd h (by decide)
  have h4 : c ≠ '\r' := by rintro rfl; exact absurd h (by decide)
  have h5 : c ≠ '/' := by rintro rfl; exact absurd h (by decide)
  have h6 : c ≠ '"' := by rintro rfl; exact absurd h (by decide)
  unfold stepIdle
  simp [h1, h2, h3, h4, h5, h6, not_digit_of_identStart c h, h]

theorem stepIdle_digit (c : Char) (h : c.isDigit = true) : stepIdle c = ([], .num [c]) := by
  have h1 : c ≠ ' ' := by rintro rfl; exact absurd h (by decide)
  have h2 : c ≠ '\n' := by rintro rfl; exact absurd h (by decide)
  have h3 : c ≠ '\t' := by rintro rfl; exact absurd h (by decide)
  have h4 : c ≠ '\r' := by rintro rfl; exact absurd h (by decide)
  have h5 : c ≠ '/' := by rintro rfl; exact absurd h (by decide)
  have h6 : c ≠ '"' := by rintro rfl; exact absurd h (by decide)
  unfold stepIdle
  simp [h1, h2, h3, h4, h5, h6, h]

/-! ### identifiers -/

theorem run_cons (st : TState) (c : Char) (r : List Char) : run st (c :: r) = (step st c).1 ++ run (step st c).2 r := rfl

theorem step_ident_stop (acc : List Char) (t : Char) (ht : isIdentChar t = false) :
    step (.ident acc) t = (.ident acc.reverse :: (stepIdle t).1, (stepIdle t).2) := by simp [step, ht]

theorem step_ident_more (acc : List Char) (c : Char) (hc : isIdentChar c = true) : step (.ident acc) c = ([], .ident (c :: acc)) := by
  simp [step, hc]

theorem run_ident_go (cs : List Char) (t : Char) (r : List Char) (hcs : ∀ c ∈ cs, isIdentChar c = true) (ht : isIdentChar t = false) :
    ∀ acc, run (.ident acc) (cs ++ t :: r) = .ident (acc.reverse ++ cs) :: run .idle (t :: r) := by
  induction cs with
  | nil =>
    intro acc
    rw [List.nil_append, run_cons, step_ident_stop acc t ht, run_idle_cons]
    simp
  | cons c cs ih =>
    intro acc
    have hc : isIdentChar c = true := hcs c (by simp)
    rw [List.cons_append, run_cons, step_ident_more acc c hc, ih (fun x hx => hcs x (by simp [hx]))]
    simp

/-- an identifier followed by a character that cannot continue it -/
theorem run_ident (name : List Char) (hname : IsCIdent name) (suffix : List Char) (hsuf : ∀ c ∈ suffix, isIdentChar c = true)
    (t : Char) (r : List Char) (ht : isIdentChar t = false) :
    run .idle (name ++ suffix ++ t :: r) = .ident (name ++ suffix) :: run .idle (t :: r) := by
  obtain ⟨c, cs, rfl, hc, hcs⟩ := hname
  have hall : ∀ x ∈ cs ++ suffix, isIdentChar x = true := by
    intro x hx
    rcases List.mem_append.1 hx with hx | hx
    · exact hcs x hx
    · exact hsuf x hx
  have := run_ident_go (cs ++ suffix) t r hall ht [c]
  rw [List.cons_append, List.cons_append, run_idle_cons, stepIdle_identStart c hc]
  simpa using this

/-- a keyword the writer emits literally -/
theorem isCIdent_literal (c : Char) (cs : List Char) (hc : isIdentStart c = true) (hcs : ∀ x ∈ cs, isIdentChar x = true) : IsCIdent (c :: cs) :=
  ⟨c, cs, rfl, hc, hcs⟩

/-! ### decimal numbers -/

theorem decVal_dec (n : Nat) : decVal (dec n) = n := by
  have h := @Nat.ofDigitChars_ten_toDigits n
  unfold Nat.ofDigitChars at h
  have hf : (fun (a : Nat) (x : Char) => a * 10 + (x.toNat - 48)) = (fun sofar c => 10 * sofar + (c.toNat - '0'.toNat)) := by
    funext v c; rw [Nat.mul_comm]; rfl
  unfold decVal dec
  rw [hf]; exact h

theorem dec_digits (n : Nat) : ∀ c ∈ dec n, c.isDigit = true :=
  fun _ hc => Nat.isDigit_of_mem_toDigits (by decide) (by decide) hc

theorem dec_ne (n : Nat) : dec n ≠ [] := Nat.toDigits_ne_nil

theorem digit_ne (c t : Char) (hc : c.isDigit = true) (ht : t.isDigit = false) : c ≠ t := by
  rintro rfl; rw [hc] at ht; cases ht

theorem step_num_stop (acc : List Char) (t : Char) (ht : t.isDigit = false) (hx : t ≠ 'x') (hX : t ≠ 'X') (hdot : t ≠ '.') :
    step (.num acc) t = (.num (decVal acc.reverse) :: (stepIdle t).1, (stepIdle t).2) := by
  have h1 : (t == 'x') = false := by simp [hx]
  have h2 : (t == 'X') = false := by simp [hX]
  have h3 : (t == '.') = false := by simp [hdot]
  simp [step, ht, h1, h2, h3]

theorem step_num_more (acc : List Char) (c : Char) (hc : c.isDigit = true) : step (.num acc) c = ([], .num (c :: acc)) := by
  have h1 : (c == 'x') = false := by simp; exact digit_ne c 'x' hc (by decide)
  have h2 : (c == 'X') = false := by simp; exact digit_ne c 'X' hc (by decide)
  simp [step, hc, h1, h2]

theorem run_num_go (cs : List Char) (t : Char) (r : List Char) (hcs : ∀ c ∈ cs, c.isDigit = true)
    (ht : t.isDigit = false) (hx : t ≠ 'x') (hX : t ≠ 'X') (hdot : t ≠ '.') :
    ∀ acc, run (.num acc) (cs ++ t :: r) = .num (decVal (acc.reverse ++ cs)) :: run .idle (t :: r) := by
  induction cs with
  | nil =>
    intro acc
    rw [List.nil_append, run_cons, step_num_stop acc t ht hx hX hdot, run_idle_cons]
    simp
  | cons c cs ih =>
    intro acc
    have hc : c.isDigit = true := hcs c (by simp)
    rw [List.cons_append, run_cons, step_num_more acc c hc, ih (fun x hx => hcs x (by simp [hx]))]
    simp

/-- a decimal number the model prints, followed by a character that ends it -/
theorem run_dec (n : Nat) (t : Char) (r : List Char) (ht : t.isDigit = false) (hx : t ≠ 'x') (hX : t ≠ 'X') (hdot : t ≠ '.') :
    run .idle (dec n ++ t :: r) = .num n :: run .idle (t :: r) := by
  obtain ⟨d, ds, hds⟩ : ∃ d ds, dec n = d :: ds := by
    cases h : dec n with
    | nil => exact absurd h (dec_ne n)
    | cons d ds => exact ⟨d, ds, rfl⟩
  have hd := dec_digits n
  rw [hds] at hd
  have := run_num_go ds t r (fun c hc => hd c (by simp [hc])) ht hx hX hdot [d]
  have hv := decVal_dec n
  rw [hds] at hv
  rw [hds, List.cons_append, run_idle_cons, stepIdle_digit d (hd d (by simp))]
  simp only [List.nil_append]
  rw [this]
  simp only [List.reverse_cons, List.reverse_nil, List.nil_append, List.singleton_append, hv]

/-! ### `0x..` bytes -/

theorem step_hex_stop (acc : List Char) (t : Char) (ht : (hexDigit? t).isSome = false) (hne : acc.isEmpty = false) :
    step (.hex acc) t = (.num (hexVal acc.reverse) :: (stepIdle t).1, (stepIdle t).2) := by simp [step, ht, hne]

theorem step_hex_more (acc : List Char) (c : Char) (hc : (hexDigit? c).isSome = true) : step (.hex acc) c = ([], .hex (c :: acc)) := by
  simp [step, hc]

theorem run_hex_go (cs : List Char) (t : Char) (r : List Char) (hcs : ∀ c ∈ cs, (hexDigit? c).isSome = true) (ht : (hexDigit? t).isSome = false) :
    ∀ acc, (acc ++ cs).isEmpty = false → run (.hex acc) (cs ++ t :: r) = .num (hexVal (acc.reverse ++ cs)) :: run .idle (t :: r) := by
  induction cs with
  | nil =>
    intro acc hne
    simp only [List.append_nil] at hne
    rw [List.nil_append, run_cons, step_hex_stop acc t ht hne, run_idle_cons]
    simp
  | cons c cs ih =>
    intro acc _
    have hc : (hexDigit? c).isSome = true := hcs c (by simp)
    rw [List.cons_append, run_cons, step_hex_more acc c hc, ih (fun x hx => hcs x (by simp [hx])) (c :: acc) (by simp)]
    simp

theorem hexDigit_hexChar : ∀ a, a < 16 → hexDigit? (hexChar a) = some a := by decide

/-- a byte as `write_xbm` prints it -/
theorem run_hex2 (b : Nat) (hb : b < 256) (t : Char) (r : List Char) (ht : (hexDigit? t).isSome = false) :
    run .idle ('0' :: 'x' :: (hex2 b ++ t :: r)) = .num b :: run .idle (t :: r) := by
  have h1 := hexDigit_hexChar (b / 16 % 16) (Nat.mod_lt _ (by decide))
  have h2 := hexDigit_hexChar (b % 16) (Nat.mod_lt _ (by decide))
  have hstart : run .idle ('0' :: 'x' :: (hex2 b ++ t :: r)) = run (.hex []) (hex2 b ++ t :: r) := rfl
  rw [hstart, run_hex_go (hex2 b) t r (by intro c hc; simp only [hex2, List.mem_cons, List.not_mem_nil, or_false] at hc; rcases hc with rfl | rfl <;> simp [h1, h2]) ht [] (by simp [hex2])]
  congr 2
  simp only [hex2, List.reverse_nil, List.nil_append, L.hexVal, List.foldl_cons, List.foldl_nil, h1, h2, Option.getD_some]
  omega

/-! ### string literals, the XPM comment -/

theorem step_str_more (body : List Char) (c : Char) (h1 : c ≠ '"') (h2 : c ≠ '\\') : step (.str body false) c = ([], .str (c :: body) false) := by
  have e1 : (c == '"') = false := by simp [h1]
  have e2 : (c == '\\') = false := by simp [h2]
  simp [step, e1, e2]

theorem run_str_go (cs : List Char) (r : List Char) (hcs : ∀ c ∈ cs, c ≠ '"' ∧ c ≠ '\\') :
    ∀ body, run (.str body false) (cs ++ '"' :: r) = .str (body.reverse ++ cs) :: run .idle r := by
  induction cs with
  | nil =>
    intro body
    rw [List.nil_append, run_cons]
    simp [step]
  | cons c cs ih =>
    intro body
    have hc := hcs c (by simp)
    rw [List.cons_append, run_cons, step_str_more body c hc.1 hc.2, ih (fun x hx => hcs x (by simp [hx]))]
    simp

/-- a string literal without quotes and backslashes inside -/
theorem run_str (cs : List Char) (r : List Char) (hcs : ∀ c ∈ cs, c ≠ '"' ∧ c ≠ '\\') :
    run .idle ('"' :: (cs ++ '"' :: r)) = .str cs :: run .idle r := by
  have hstart : run .idle ('"' :: (cs ++ '"' :: r)) = run (.str [] false) (cs ++ '"' :: r) := rfl
  rw [hstart, run_str_go cs r hcs []]
  simp

theorem run_xpm_comment (r : List Char) : run .idle ("/* XPM */".toList ++ r) = .comment " XPM ".toList :: run .idle r := rfl

end Proofs.RasterDocs
