/-
  Helper lemmas for C14 (colour grammar): the model of segno's colour parser (`Model.colorToRgba`,
  `Model.pngColor`, Model/Png.lean) against the colour grammar of the specification (Spec/Raster.lean).
-/
import Spec.Raster
import Model.Png
import Props.C09

set_option linter.unusedSimpArgs false
set_option linter.unusedVariables false

namespace Proofs.ColourGrammar

open Model Spec

theorem hexVal_eq : Model.hexVal? = Spec.hexDigit? := rfl
theorem lower_eq : Model.lowerAscii = Spec.asciiLower := rfl

theorem nameToRgb_eq (s : String) : Model.nameToRgb s = Spec.css3Lookup (Spec.asciiLower s) := by
  unfold Model.nameToRgb Spec.css3Lookup
  rw [Props.C09.css3_table]; rfl

theorem rgba_beq (r g b a : Nat) : ((⟨r,g,b,a⟩ : Spec.RGBA) == ⟨r,g,b,a⟩) = true := by
  simp [BEq.beq, Spec.instBEqRGBA.beq]

/-- `int(round(k/1000 * 255))` is within half a unit of k·255/1000 -/
theorem roundAlpha_bound (k : Nat) : roundAlpha k * 1000 ≤ k * 255 + 500 ∧ k * 255 ≤ roundAlpha k * 1000 + 500 := by
  unfold roundAlpha
  have h := Nat.div_add_mod (k * 255) 1000
  have h2 := Nat.mod_lt (k * 255) (by decide : 1000 > 0)
  generalize k * 255 / 1000 = q at *
  generalize k * 255 % 1000 = r at *
  simp only []
  repeat' split
  all_goals omega

theorem approx_accepts (r g b k : Nat) : ColExp.accepts (.approx r g b k) ⟨r,g,b,roundAlpha k⟩ = true := by
  have := roundAlpha_bound k
  simp only [ColExp.accepts, beq_self_eq_true, Bool.and_self, Bool.true_and, decide_eq_true_eq]
  split <;> omega

theorem exact_accepts (r g b a : Nat) : ColExp.accepts (.exact ⟨r,g,b,a⟩) ⟨r,g,b,a⟩ = true := by
  simp [ColExp.accepts, rgba_beq]


/-- the part of `hexToInts` after stripping '#' -/
def hexCs (cs : List Char) : R (List Nat) :=
  let cs := if 2 < cs.length ∧ cs.length < 5 then cs.flatMap (fun c => [c, c]) else cs
  if (cs.length == 6 || cs.length == 8) && cs.all (fun c => (hexVal? c).isSome) then pure (hexPairs cs)
  else throw .valueError

def stripHash (cs : List Char) : List Char := match cs with | '#' :: rest => rest | _ => cs

theorem hexToInts_eq (s : String) : hexToInts s = hexCs (stripHash s.toList) := rfl

/-- the specification's reading of a digit list -/
def specCs (cs : List Char) : Option RGBA :=
  match cs.mapM hexDigit? with
  | some [r, g, b] => some ⟨r * 17, g * 17, b * 17, 255⟩
  | some [r, g, b, a] => some ⟨r * 17, g * 17, b * 17, a * 17⟩
  | some [r1, r2, g1, g2, b1, b2] => some ⟨r1 * 16 + r2, g1 * 16 + g2, b1 * 16 + b2, 255⟩
  | some [r1, r2, g1, g2, b1, b2, a1, a2] => some ⟨r1 * 16 + r2, g1 * 16 + g2, b1 * 16 + b2, a1 * 16 + a2⟩
  | _ => none

theorem parseHexColour_eq (s : String) : parseHexColour s = specCs (stripHash s.toList) := rfl

/-- what `_color_to_rgba` does with the result of `hexToInts` -/
def hexRgba (cs : List Char) : R (Nat × Nat × Nat × Nat) := do
  match ← hexCs cs with
  | [r, g, b] => pure (r, g, b, 255)
  | [r, g, b, a] => pure (r, g, b, a)
  | _ => throw .valueError

theorem mapM_length {α β} (f : α → Option β) : ∀ (l : List α) (ds : List β), l.mapM f = some ds → ds.length = l.length
  | [], ds, h => by simp at h; subst h; rfl
  | a :: l, ds, h => by
    rw [List.mapM_cons] at h
    cases ha : f a with
    | none => simp [ha] at h
    | some d =>
      cases hl : l.mapM f with
      | none => simp [ha, hl] at h
      | some ds' =>
        simp [ha, hl] at h; subst h
        simp [mapM_length f l ds' hl]

theorem specCs_long (cs : List Char) (h : 9 ≤ cs.length) : specCs cs = none := by
  unfold specCs
  split <;> first | rfl | (rename_i heq; have := mapM_length _ _ _ heq; simp at this; omega)

theorem hexCs_long (cs : List Char) (h : 9 ≤ cs.length) : hexRgba cs = .error .valueError := by
  unfold hexRgba hexCs
  have h1 : ¬ (2 < cs.length ∧ cs.length < 5) := by omega
  have h2 : (cs.length == 6) = false := by simp; omega
  have h3 : (cs.length == 8) = false := by simp; omega
  simp [h1, h2, h3, bind, Except.bind, throw, throwThe, MonadExceptOf.throw]


macro "hexc" h:ident c:term : tactic =>
  `(tactic| (cases $h:ident : hexDigit? $c; case none => (simp [specCs, hexRgba, hexCs, hexPairs, *, bind, Except.bind, throw, throwThe, MonadExceptOf.throw, pure, Except.pure])))

theorem hex_agree (cs : List Char) :
    match specCs cs with
    | some c => hexRgba cs = .ok (c.r, c.g, c.b, c.a)
    | none => hexRgba cs = .error .valueError := by
  match cs with
  | [] => simp [specCs, hexRgba, hexCs, bind, Except.bind, throw, throwThe, MonadExceptOf.throw]
  | [a] => 
    cases ha : hexDigit? a <;>
    simp [specCs, hexRgba, hexCs, ha, bind, Except.bind, throw, throwThe, MonadExceptOf.throw]
  | [a, b] => 
    cases ha : hexDigit? a <;> cases hb : hexDigit? b <;>
    simp [specCs, hexRgba, hexCs, ha, hb, bind, Except.bind, throw, throwThe, MonadExceptOf.throw]
  | [a, b, c] =>
    have e : hexVal? = hexDigit? := rfl
    cases ha : hexDigit? a <;> cases hb : hexDigit? b <;> cases hc : hexDigit? c <;>
    simp [specCs, hexRgba, hexCs, hexPairs, e, ha, hb, hc, bind, Except.bind, throw, throwThe, MonadExceptOf.throw, pure, Except.pure] <;> omega
  | [a, b, c, d] =>
    have e : hexVal? = hexDigit? := rfl
    hexc ha a; hexc hb b; hexc hc c; hexc hd d
    simp [specCs, hexRgba, hexCs, hexPairs, *, bind, Except.bind, throw, throwThe, MonadExceptOf.throw, pure, Except.pure]
    omega
  | [a, b, c, d, f] =>
    have e : hexVal? = hexDigit? := rfl
    hexc ha a; hexc hb b; hexc hc c; hexc hd d; hexc hf f
    simp [specCs, hexRgba, hexCs, hexPairs, *, bind, Except.bind, throw, throwThe, MonadExceptOf.throw, pure, Except.pure]
  | [a, b, c, d, f, g] =>
    have e : hexVal? = hexDigit? := rfl
    hexc ha a; hexc hb b; hexc hc c; hexc hd d; hexc hf f; hexc hg g
    simp [specCs, hexRgba, hexCs, hexPairs, *, bind, Except.bind, throw, throwThe, MonadExceptOf.throw, pure, Except.pure]
  | [a, b, c, d, f, g, h] =>
    have e : hexVal? = hexDigit? := rfl
    hexc ha a; hexc hb b; hexc hc c; hexc hd d; hexc hf f; hexc hg g; hexc hh h
    simp [specCs, hexRgba, hexCs, hexPairs, *, bind, Except.bind, throw, throwThe, MonadExceptOf.throw, pure, Except.pure]
  | [a, b, c, d, f, g, h, i] =>
    have e : hexVal? = hexDigit? := rfl
    hexc ha a; hexc hb b; hexc hc c; hexc hd d; hexc hf f; hexc hg g; hexc hh h; hexc hi i
    simp [specCs, hexRgba, hexCs, hexPairs, *, bind, Except.bind, throw, throwThe, MonadExceptOf.throw, pure, Except.pure]
  | a :: b :: c :: d :: f :: g :: h :: i :: j :: rest =>
    rw [specCs_long _ (by simp)]
    exact hexCs_long _ (by simp)

/-- strings: the model accepts exactly the strings of the grammar, with the value of the grammar -/
theorem str_agree (s : String) :
    match parseColourString s with
    | some c => colorToRgba (.str s) = .ok (c.r, c.g, c.b, c.a)
    | none => colorToRgba (.str s) = .error .valueError := by
  have hx := hex_agree (stripHash s.toList)
  rw [← parseHexColour_eq] at hx
  have hm : colorToRgba (.str s) = match nameToRgb s with
      | some (r, g, b) => pure (r, g, b, 255)
      | none => hexRgba (stripHash s.toList) := by
    simp only [colorToRgba, hexRgba, hexToInts_eq]
    cases nameToRgb s <;> rfl
  rw [hm, nameToRgb_eq]
  unfold parseColourString
  cases hl : css3Lookup (asciiLower s) with
  | some v => obtain ⟨r, g, b⟩ := v; rfl
  | none => exact hx

/-- a copy of `Props.C14.specMeaning` -/
def meaning : Model.ColorArg → Option Spec.ColExp
  | .none => some .transparent
  | .str s => (Spec.parseColourString s).map .exact
  | .ints [r, g, b] => if r ≤ 255 ∧ g ≤ 255 ∧ b ≤ 255 then some (.exact ⟨r, g, b, 255⟩) else none
  | .ints [r, g, b, a] => if r ≤ 255 ∧ g ≤ 255 ∧ b ≤ 255 ∧ a ≤ 255 then some (.exact ⟨r, g, b, a⟩) else none
  | .ints _ => none
  | .floatAlpha r g b k => if r ≤ 255 ∧ g ≤ 255 ∧ b ≤ 255 ∧ k ≤ 1000 then some (.approx r g b k) else none

theorem grammar_core (c : Model.ColorArg) (hc : c ≠ .none) :
    match meaning c with
    | some e => ∃ r g b a, Model.colorToRgba c = .ok (r, g, b, a) ∧ e.accepts ⟨r, g, b, a⟩ = true
    | none => Model.colorToRgba c = .error Model.PyErr.valueError := by
  cases c with
  | none => exact absurd rfl hc
  | str s =>
    have h := str_agree s
    simp only [meaning]
    cases hp : parseColourString s with
    | none => rw [hp] at h; exact h
    | some v =>
      rw [hp] at h
      obtain ⟨r, g, b, a⟩ := v
      exact ⟨r, g, b, a, h, exact_accepts r g b a⟩
  | floatAlpha r g b k =>
    simp only [meaning, colorToRgba, alphaOfFloat]
    by_cases h1 : r ≤ 255 ∧ g ≤ 255 ∧ b ≤ 255
    · by_cases h2 : k ≤ 1000
      · have h3 : r ≤ 255 ∧ g ≤ 255 ∧ b ≤ 255 ∧ k ≤ 1000 := ⟨h1.1, h1.2.1, h1.2.2, h2⟩
        simp only [h1, h2, h3, if_true, and_self]
        exact ⟨r, g, b, roundAlpha k, rfl, approx_accepts r g b k⟩
      · have h3 : ¬ (r ≤ 255 ∧ g ≤ 255 ∧ b ≤ 255 ∧ k ≤ 1000) := fun h => h2 h.2.2.2
        simp only [h1, h2, h3, if_true, if_false, and_self]
        rfl
    · have h3 : ¬ (r ≤ 255 ∧ g ≤ 255 ∧ b ≤ 255 ∧ k ≤ 1000) := fun h => h1 ⟨h.1, h.2.1, h.2.2.1⟩
      simp only [h1, h3, if_false]
      rfl
  | ints l =>
    match l with
    | [] => simp only [meaning, colorToRgba]; rfl
    | [_] => simp only [meaning, colorToRgba]; rfl
    | [_, _] => simp only [meaning, colorToRgba]; rfl
    | [r, g, b] =>
      simp only [meaning, colorToRgba]
      by_cases h1 : r ≤ 255 ∧ g ≤ 255 ∧ b ≤ 255
      · simp only [h1, if_true, and_self]
        exact ⟨r, g, b, 255, rfl, exact_accepts r g b 255⟩
      · simp only [h1, if_false]; rfl
    | [r, g, b, a] =>
      simp only [meaning, colorToRgba, alphaOfInt]
      by_cases h1 : r ≤ 255 ∧ g ≤ 255 ∧ b ≤ 255
      · by_cases h2 : a ≤ 255
        · have h3 : r ≤ 255 ∧ g ≤ 255 ∧ b ≤ 255 ∧ a ≤ 255 := ⟨h1.1, h1.2.1, h1.2.2, h2⟩
          simp only [h1, h2, h3, if_true, and_self]
          exact ⟨r, g, b, a, rfl, exact_accepts r g b a⟩
        · have h3 : ¬ (r ≤ 255 ∧ g ≤ 255 ∧ b ≤ 255 ∧ a ≤ 255) := fun h => h2 h.2.2.2
          simp only [h1, h2, h3, if_true, if_false, and_self]
          rfl
      · have h3 : ¬ (r ≤ 255 ∧ g ≤ 255 ∧ b ≤ 255 ∧ a ≤ 255) := fun h => h1 ⟨h.1, h.2.1, h.2.2.1⟩
        simp only [h1, h3, if_false]
        rfl
    | _ :: _ :: _ :: _ :: _ :: _ => simp only [meaning, colorToRgba]; rfl

theorem png_of_ok (c : ColorArg) (hc : c ≠ .none) (r g b a : Nat) (h : colorToRgba c = .ok (r, g, b, a)) :
    pngColor c = .ok (if a == 255 then .rgb r g b else .rgba r g b a) := by
  cases c with
  | none => exact absurd rfl hc
  | _ => simp only [pngColor, h, bind, Except.bind]; rfl

theorem png_of_err (c : ColorArg) (hc : c ≠ .none) (e : PyErr) (h : colorToRgba c = .error e) :
    pngColor c = .error e := by
  cases c with
  | none => exact absurd rfl hc
  | _ => simp only [pngColor, h, bind, Except.bind]

theorem png_core (c : Model.ColorArg) :
    match meaning c with
    | some e => ∃ p, Model.pngColor c = .ok p ∧
        (match p with
         | .transparent => c = .none
         | .rgb r g b => e.accepts ⟨r, g, b, 255⟩ = true
         | .rgba r g b a => a ≠ 255 ∧ e.accepts ⟨r, g, b, a⟩ = true)
    | none => Model.pngColor c = .error Model.PyErr.valueError := by
  by_cases hc : c = .none
  · subst hc
    exact ⟨.transparent, rfl, rfl⟩
  · have h := grammar_core c hc
    cases hm : meaning c with
    | none => rw [hm] at h; exact png_of_err c hc _ h
    | some e =>
      rw [hm] at h
      obtain ⟨r, g, b, a, hok, hacc⟩ := h
      refine ⟨_, png_of_ok c hc r g b a hok, ?_⟩
      by_cases ha : a = 255
      · subst ha; exact hacc
      · have : (a == 255) = false := by simp [ha]
        simp only [this]
        exact ⟨ha, hacc⟩

theorem nameToRgb_congr (s t : String) (h : Model.lowerAscii s = Model.lowerAscii t) :
    Model.nameToRgb s = Model.nameToRgb t := by
  unfold Model.nameToRgb; rw [h]

theorem str_of_name (s : String) (r g b : Nat) (h : nameToRgb s = some (r, g, b)) :
    colorToRgba (.str s) = .ok (r, g, b, 255) := by
  simp only [colorToRgba, h]; rfl

theorem name_case (s t : String) (h : Model.lowerAscii s = Model.lowerAscii t)
    (hs : (Model.nameToRgb s).isSome) : Model.colorToRgba (.str s) = Model.colorToRgba (.str t) := by
  have ht := nameToRgb_congr s t h
  cases hn : nameToRgb s with
  | none => simp [hn] at hs
  | some v =>
    obtain ⟨r, g, b⟩ := v
    rw [str_of_name s r g b hn, str_of_name t r g b (ht ▸ hn)]

end Proofs.ColourGrammar
