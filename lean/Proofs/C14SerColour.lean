/-
  Proofs.C14SerColour — every colour parser of the document models ends in a value or in ValueError, and succeeds exactly on
  the colours of the documented grammar (`malformed` = the specification's grammar `Proofs.ColourGrammar.meaning` rejects the
  value; `opaqueCol` = well-formed and without transparency).  Helper lemmas for Props/C14Serializers.lean.

  HISTORY: the first forms of `isBlack_wellformed`, `isWhite_wellformed`, `toWebColor_clean` were refuted by `(0, 0, 0, 255.0)` /
  `(255, 255, 255, 255.0)` (equal to the int tuples as Python values, so `_color_is_black` / `_color_is_white` accepted them although
  255.0 is no alpha value of the grammar) — a defect of the repository, repaired by 5f5dbe9; `Model.Svg.isBlack` / `isWhite` follow
  the repaired code and the lemmas hold as first stated.
-/
import Proofs.C14SerDefs
import Proofs.RasterDocsColour
import Proofs.RasterDocsPam

set_option linter.unusedSimpArgs false
set_option linter.unusedVariables false

namespace Proofs.C14Ser
open Model Model.RasterDocs Model.Svg Model.VectorDocs Proofs.ColourGrammar

theorem malformed_none : malformed .none = false := rfl

theorem opaqueCol_none : opaqueCol .none = false := rfl

/-- an opaque colour is well-formed -/
theorem opaque_wellformed (c : ColorArg) (h : opaqueCol c = true) : malformed c = false := by
  unfold opaqueCol at h; unfold malformed
  cases hm : meaning c with
  | none => rw [hm] at h; cases h
  | some e => rfl

theorem malformed_iff (c : ColorArg) : malformed c = true ↔ meaning c = none := by
  unfold malformed; cases meaning c <;> simp

theorem colorToRgba_clean (c : ColorArg) (hc : c ≠ .none) :
    (malformed c = false → ∃ x, colorToRgba c = .ok x) ∧ (malformed c = true → colorToRgba c = .error .valueError) := by
  have h := grammar_core c hc
  unfold malformed
  cases hm : meaning c with
  | none => rw [hm] at h; simp [h]
  | some e =>
    rw [hm] at h; obtain ⟨r, g, b, a, hok, _⟩ := h
    simp [hok]

theorem pngColor_clean (c : ColorArg) :
    (malformed c = false → ∃ p, pngColor c = .ok p) ∧ (malformed c = true → pngColor c = .error .valueError) := by
  have h := png_core c
  unfold malformed
  cases hm : meaning c with
  | none => rw [hm] at h; simp [h]
  | some e =>
    rw [hm] at h; obtain ⟨p, hok, _⟩ := h
    simp [hok]

theorem rgbOrRgba_clean (c : ColorArg) (hc : c ≠ .none) :
    (malformed c = false → ∃ t, rgbOrRgba c = .ok t) ∧ (malformed c = true → rgbOrRgba c = .error .valueError) := by
  have h := colorToRgba_clean c hc
  refine ⟨fun hm => ?_, fun hm => ?_⟩
  · obtain ⟨⟨r, g, b, a⟩, hx⟩ := h.1 hm
    exact ⟨_, by simp only [rgbOrRgba, hx, bind, Except.bind]; rfl⟩
  · simp only [rgbOrRgba, h.2 hm, bind, Except.bind]

/-- `_color_to_rgb` on a string, through `_color_to_rgba` -/
theorem colorToRgb_str (s : String) :
    colorToRgb (.str s) = match colorToRgba (.str s) with
      | .ok (r, g, b, a) => if 254 ≤ a then .ok [r, g, b] else .error .valueError
      | .error e => .error e := by
  simp only [colorToRgb, colorToRgba]
  cases nameToRgb s with
  | some v => obtain ⟨r, g, b⟩ := v; rfl
  | none =>
    simp only [bind, Except.bind]
    cases hexToInts s with
    | error e => rfl
    | ok l =>
      match l with
      | [] => rfl
      | [_] => rfl
      | [_, _] => rfl
      | [r, g, b] => rfl
      | [r, g, b, a] => rfl
      | _ :: _ :: _ :: _ :: _ :: _ => rfl

theorem colorToRgb_clean (c : ColorArg) :
    (opaqueCol c = true → ∃ l, colorToRgb c = .ok l) ∧ (opaqueCol c = false → colorToRgb c = .error .valueError) := by
  cases c with
  | none => exact ⟨fun h => (by cases h), fun _ => rfl⟩
  | str s =>
    have h := str_agree s
    rw [colorToRgb_str]
    simp only [opaqueCol, meaning]
    cases hp : Spec.parseColourString s with
    | none => rw [hp] at h; simp [h]
    | some v =>
      rw [hp] at h
      simp only [h, Option.map_some]
      by_cases ha : 254 ≤ v.a <;> simp [ha]
  | floatAlpha r g b k =>
    simp only [opaqueCol, meaning, colorToRgb]
    by_cases h1 : r ≤ 255 ∧ g ≤ 255 ∧ b ≤ 255 ∧ k ≤ 1000
    · by_cases h2 : k = 1000
      · have h3 : r ≤ 255 ∧ g ≤ 255 ∧ b ≤ 255 ∧ k = 1000 := ⟨h1.1, h1.2.1, h1.2.2.1, h2⟩
        simp [h1, h3, h2, pure, Except.pure]
      · have h3 : ¬ (r ≤ 255 ∧ g ≤ 255 ∧ b ≤ 255 ∧ k = 1000) := fun h => h2 h.2.2.2
        simp [h1, h3, h2, throw, throwThe, MonadExceptOf.throw]
    · have h3 : ¬ (r ≤ 255 ∧ g ≤ 255 ∧ b ≤ 255 ∧ k = 1000) := fun h => h1 ⟨h.1, h.2.1, h.2.2.1, by omega⟩
      simp [h1, h3, throw, throwThe, MonadExceptOf.throw]
  | ints l =>
    match l with
    | [] => exact ⟨fun h => (by cases h), fun _ => rfl⟩
    | [_] => exact ⟨fun h => (by cases h), fun _ => rfl⟩
    | [_, _] => exact ⟨fun h => (by cases h), fun _ => rfl⟩
    | [r, g, b] =>
      simp only [opaqueCol, meaning, colorToRgb]
      by_cases h1 : r ≤ 255 ∧ g ≤ 255 ∧ b ≤ 255
      · simp [h1, pure, Except.pure]
      · simp [h1, throw, throwThe, MonadExceptOf.throw]
    | [r, g, b, a] =>
      simp only [opaqueCol, meaning, colorToRgb]
      by_cases h1 : r ≤ 255 ∧ g ≤ 255 ∧ b ≤ 255 ∧ a ≤ 255
      · by_cases h2 : 254 ≤ a
        · have h3 : r ≤ 255 ∧ g ≤ 255 ∧ b ≤ 255 ∧ 254 ≤ a ∧ a ≤ 255 := ⟨h1.1, h1.2.1, h1.2.2.1, h2, h1.2.2.2⟩
          simp [h1, h3, h2, pure, Except.pure]
        · have h3 : ¬ (r ≤ 255 ∧ g ≤ 255 ∧ b ≤ 255 ∧ 254 ≤ a ∧ a ≤ 255) := fun h => h2 h.2.2.2.1
          simp [h1, h3, h2, throw, throwThe, MonadExceptOf.throw]
      · have h3 : ¬ (r ≤ 255 ∧ g ≤ 255 ∧ b ≤ 255 ∧ 254 ≤ a ∧ a ≤ 255) := fun h => h1 ⟨h.1, h.2.1, h.2.2.1, h.2.2.2.2⟩
        simp [h1, h3, throw, throwThe, MonadExceptOf.throw]
    | _ :: _ :: _ :: _ :: _ :: _ => exact ⟨fun h => (by cases h), fun _ => rfl⟩
theorem alphaOfIntF_ok (a : Nat) (h : a ≤ 255) : ∃ t, alphaOfIntF a = .ok t := by
  unfold alphaOfIntF
  have : ¬ a > 255 := by omega
  simp only [this, if_false]
  repeat' split
  all_goals exact ⟨_, rfl⟩

theorem alphaOfIntF_err (a : Nat) (h : ¬ a ≤ 255) : alphaOfIntF a = .error .valueError := by
  unfold alphaOfIntF
  have : a > 255 := by omega
  simp only [this, if_true]; rfl

theorem alphaOfFloatF_ok (k : Nat) (h : k ≤ 1000) : ∃ t, alphaOfFloatF k = .ok t := by
  unfold alphaOfFloatF
  have : ¬ k > 1000 := by omega
  simp only [this, if_false]
  repeat' split
  all_goals exact ⟨_, rfl⟩

theorem alphaOfFloatF_err (k : Nat) (h : ¬ k ≤ 1000) : alphaOfFloatF k = .error .valueError := by
  unfold alphaOfFloatF
  have : k > 1000 := by omega
  simp only [this, if_true]; rfl

/-- the float-alpha variant succeeds and fails with the int-alpha variant -/
theorem rgbaF_of_rgba (c : ColorArg) :
    (∀ x, colorToRgba c = .ok x → ∃ y, colorToRgbaF c = .ok y)
    ∧ (colorToRgba c = .error .valueError → colorToRgbaF c = .error .valueError) := by
  cases c with
  | none => exact ⟨fun x h => (by cases h), fun _ => rfl⟩
  | floatAlpha r g b k =>
    simp only [colorToRgba, colorToRgbaF, alphaOfFloat]
    by_cases h1 : r ≤ 255 ∧ g ≤ 255 ∧ b ≤ 255
    · by_cases h2 : k ≤ 1000
      · obtain ⟨t, ht⟩ := alphaOfFloatF_ok k h2
        simp [h1, h2, ht, bind, Except.bind, pure, Except.pure]
      · simp [h1, h2, alphaOfFloatF_err k h2, bind, Except.bind, throw, throwThe, MonadExceptOf.throw]
    · simp [h1, throw, throwThe, MonadExceptOf.throw]
  | ints l =>
    match l with
    | [] => exact ⟨fun x h => (by cases h), fun _ => rfl⟩
    | [_] => exact ⟨fun x h => (by cases h), fun _ => rfl⟩
    | [_, _] => exact ⟨fun x h => (by cases h), fun _ => rfl⟩
    | [r, g, b] =>
      simp only [colorToRgba, colorToRgbaF]
      by_cases h1 : r ≤ 255 ∧ g ≤ 255 ∧ b ≤ 255
      · simp [h1, pure, Except.pure]
      · simp [h1, throw, throwThe, MonadExceptOf.throw]
    | [r, g, b, a] =>
      simp only [colorToRgba, colorToRgbaF, alphaOfInt]
      by_cases h1 : r ≤ 255 ∧ g ≤ 255 ∧ b ≤ 255
      · by_cases h2 : a ≤ 255
        · obtain ⟨t, ht⟩ := alphaOfIntF_ok a h2
          simp [h1, h2, ht, bind, Except.bind, pure, Except.pure]
        · simp [h1, h2, alphaOfIntF_err a h2, bind, Except.bind, throw, throwThe, MonadExceptOf.throw]
      · simp [h1, throw, throwThe, MonadExceptOf.throw]
    | _ :: _ :: _ :: _ :: _ :: _ => exact ⟨fun x h => (by cases h), fun _ => rfl⟩
  | str s =>
    simp only [colorToRgba, colorToRgbaF]
    cases nameToRgb s with
    | some v => obtain ⟨r, g, b⟩ := v; exact ⟨fun _ _ => ⟨_, rfl⟩, fun h => (by cases h)⟩
    | none =>
      simp only [bind, Except.bind]
      cases hx : hexToInts s with
      | error e => exact ⟨fun x h => (by cases h), fun h => (by simpa using h)⟩
      | ok l =>
        have hb := Proofs.RasterDocs.hexToInts_bounds s l hx
        match l with
        | [] => exact ⟨fun x h => (by cases h), fun _ => rfl⟩
        | [_] => exact ⟨fun x h => (by cases h), fun _ => rfl⟩
        | [_, _] => exact ⟨fun x h => (by cases h), fun _ => rfl⟩
        | [r, g, b] => exact ⟨fun _ _ => ⟨_, rfl⟩, fun h => (by cases h)⟩
        | [r, g, b, a] =>
          obtain ⟨t, ht⟩ := alphaOfIntF_ok a (hb a (by simp))
          simp only [ht]
          exact ⟨fun _ _ => ⟨_, rfl⟩, fun h => (by cases h)⟩
        | _ :: _ :: _ :: _ :: _ :: _ => exact ⟨fun x h => (by cases h), fun _ => rfl⟩

/-- `str.lower()` on one character -/
def lowerChar (c : Char) : Char := if 'A' ≤ c && c ≤ 'Z' then Char.ofNat (c.toNat + 32) else c

theorem lowerAscii_toList (s : String) : (lowerAscii s).toList = s.toList.map lowerChar := by
  unfold lowerAscii; rw [String.toList_ofList]; rfl

theorem upperChar_facts : ∀ n < 26, Spec.hexDigit? (Char.ofNat ((Char.ofNat (n + 65)).toNat + 32)) = Spec.hexDigit? (Char.ofNat (n + 65))
    ∧ Char.ofNat ((Char.ofNat (n + 65)).toNat + 32) ≠ '#' ∧ Char.ofNat (n + 65) ≠ '#' := by decide

theorem upperChar_cases (c : Char) (h : ('A' ≤ c && c ≤ 'Z') = true) : ∃ n, n < 26 ∧ c = Char.ofNat (n + 65) := by
  simp only [Bool.and_eq_true, decide_eq_true_eq] at h
  have h1 : 'A'.toNat ≤ c.toNat := h.1
  have h2 : c.toNat ≤ 'Z'.toNat := h.2
  have e1 : 'A'.toNat = 65 := by decide
  have e2 : 'Z'.toNat = 90 := by decide
  refine ⟨c.toNat - 65, by omega, ?_⟩
  have : c.toNat - 65 + 65 = c.toNat := by omega
  rw [this, Char.ofNat_toNat]

theorem lowerChar_hex (c : Char) : Spec.hexDigit? (lowerChar c) = Spec.hexDigit? c := by
  unfold lowerChar
  by_cases h : ('A' ≤ c && c ≤ 'Z') = true
  · obtain ⟨n, hn, rfl⟩ := upperChar_cases c h
    rw [if_pos h]; exact (upperChar_facts n hn).1
  · rw [if_neg h]

theorem lowerChar_hash (c : Char) : lowerChar c = '#' ↔ c = '#' := by
  unfold lowerChar
  by_cases h : ('A' ≤ c && c ≤ 'Z') = true
  · obtain ⟨n, hn, rfl⟩ := upperChar_cases c h
    rw [if_pos h]
    have := upperChar_facts n hn
    exact ⟨fun e => absurd e this.2.1, fun e => absurd e this.2.2⟩
  · rw [if_neg h]

theorem stripHash_lowerChar (l : List Char) : stripHash (l.map lowerChar) = (stripHash l).map lowerChar := by
  cases l with
  | nil => rfl
  | cons c rest =>
    by_cases hc : c = '#'
    · subst hc; rfl
    · have h2 : lowerChar c ≠ '#' := fun e => hc ((lowerChar_hash c).1 e)
      have e1 : stripHash (c :: rest) = c :: rest := by
        unfold stripHash; split
        · rename_i heq; cases heq; exact absurd rfl hc
        · rfl
      have e2 : stripHash (lowerChar c :: rest.map lowerChar) = lowerChar c :: rest.map lowerChar := by
        unfold stripHash; split
        · rename_i heq; injection heq with h1 _; exact absurd h1 h2
        · rfl
      rw [List.map_cons, e2, e1, List.map_cons]

theorem mapM_lowerChar (l : List Char) : (l.map lowerChar).mapM Spec.hexDigit? = l.mapM Spec.hexDigit? := by
  induction l with
  | nil => rfl
  | cons c rest ih => simp only [List.map_cons, List.mapM_cons, lowerChar_hex, ih]

/-- hexadecimal notation ignores the letter case -/
theorem parseHex_lower (s : String) : Spec.parseHexColour (lowerAscii s) = Spec.parseHexColour s := by
  rw [parseHexColour_eq, parseHexColour_eq, lowerAscii_toList, stripHash_lowerChar]
  unfold specCs; rw [mapM_lowerChar]

theorem malformed_str (s : String) : malformed (.str s) = (Spec.parseColourString s).isNone := by
  show ((Spec.parseColourString s).map Spec.ColExp.exact).isNone = _
  cases Spec.parseColourString s <;> rfl

theorem wellformed_of_hex (s : String) (h : (Spec.parseHexColour s).isSome = true) : malformed (.str s) = false := by
  rw [malformed_str]; unfold Spec.parseColourString
  cases Spec.css3Lookup (Spec.asciiLower s) with
  | some v => rfl
  | none =>
    cases hp : Spec.parseHexColour s with
    | none => rw [hp] at h; cases h
    | some v => rfl

theorem wellformed_of_name (s : String) (h : (Spec.css3Lookup (lowerAscii s)).isSome = true) : malformed (.str s) = false := by
  rw [malformed_str]; unfold Spec.parseColourString
  rw [lower_eq] at h
  cases hp : Spec.css3Lookup (Spec.asciiLower s) with
  | some v => rfl
  | none => rw [hp] at h; cases h

theorem wellformed_of_lower_hex (s t : String) (h : lowerAscii s = t) (ht : (Spec.parseHexColour t).isSome = true) :
    malformed (.str s) = false := by
  apply wellformed_of_hex
  rw [← parseHex_lower, h]; exact ht

/-- every value `_color_is_black` recognises is a well-formed colour (true since fix 5f5dbe9 of the repository: before it,
    `(0, 0, 0, 255.0)` — equal to `(0, 0, 0, 255)` as a Python value — counted as black although 255.0 is no alpha value of the grammar;
    the first form of this lemma was refuted by that value) -/
theorem isBlack_wellformed (c : ColorArg) (h : Svg.isBlack c = true) : malformed c = false := by
  cases c with
  | none => simp [isBlack] at h
  | str s =>
    simp only [isBlack, Bool.or_eq_true, beq_iff_eq] at h
    rcases h with (h | h) | h
    · exact wellformed_of_lower_hex s _ h (by decide +kernel)
    · exact wellformed_of_lower_hex s _ h (by decide +kernel)
    · exact wellformed_of_name s (by rw [h]; decide +kernel)
  | ints l =>
    match l, h with
    | [r, g, b], h =>
      simp only [isBlack, Bool.and_eq_true, beq_iff_eq] at h
      obtain ⟨⟨rfl, rfl⟩, rfl⟩ := h
      rfl
    | [r, g, b, a], h =>
      simp only [isBlack, opaqueIntAlpha, Bool.and_eq_true, Bool.or_eq_true, beq_iff_eq] at h
      obtain ⟨⟨⟨ha, rfl⟩, rfl⟩, rfl⟩ := h
      rcases ha with rfl | rfl <;> rfl
    | [], h => simp [isBlack] at h
    | [_], h => simp [isBlack] at h
    | [_, _], h => simp [isBlack] at h
    | _ :: _ :: _ :: _ :: _ :: _, h => simp [isBlack] at h
  | floatAlpha r g b k =>
    simp only [isBlack, Bool.and_eq_true, beq_iff_eq] at h
    obtain ⟨⟨⟨rfl, rfl⟩, rfl⟩, rfl⟩ := h
    decide

theorem isWhite_wellformed (c : ColorArg) (h : Svg.isWhite c = true) : malformed c = false := by
  cases c with
  | none => simp [isWhite] at h
  | str s =>
    simp only [isWhite, Bool.or_eq_true, beq_iff_eq] at h
    rcases h with (h | h) | h
    · exact wellformed_of_lower_hex s _ h (by decide +kernel)
    · exact wellformed_of_lower_hex s _ h (by decide +kernel)
    · exact wellformed_of_name s (by rw [h]; decide +kernel)
  | ints l =>
    match l, h with
    | [r, g, b], h =>
      simp only [isWhite, Bool.and_eq_true, beq_iff_eq] at h
      obtain ⟨⟨rfl, rfl⟩, rfl⟩ := h
      rfl
    | [r, g, b, a], h =>
      simp only [isWhite, opaqueIntAlpha, Bool.and_eq_true, Bool.or_eq_true, beq_iff_eq] at h
      obtain ⟨⟨⟨ha, rfl⟩, rfl⟩, rfl⟩ := h
      rcases ha with rfl | rfl <;> rfl
    | [], h => simp [isWhite] at h
    | [_], h => simp [isWhite] at h
    | [_, _], h => simp [isWhite] at h
    | _ :: _ :: _ :: _ :: _ :: _, h => simp [isWhite] at h
  | floatAlpha r g b k =>
    simp only [isWhite, Bool.and_eq_true, beq_iff_eq] at h
    obtain ⟨⟨⟨rfl, rfl⟩, rfl⟩, rfl⟩ := h
    decide

/-- the value that refuted the first form: no longer black, and malformed -/
example : Svg.isBlack (.floatAlpha 0 0 0 255000) = false ∧ malformed (.floatAlpha 0 0 0 255000) = true := by decide
example : Svg.isWhite (.floatAlpha 255 255 255 255000) = false ∧ malformed (.floatAlpha 255 255 255 255000) = true := by decide

theorem xpmColour_clean (c : ColorArg) :
    ((c = .none ∨ opaqueCol c = true) → ∃ s, xpmColour c = .ok s)
    ∧ (c ≠ .none → opaqueCol c = false → xpmColour c = .error .valueError) := by
  cases c with
  | none => exact ⟨fun _ => ⟨_, rfl⟩, fun h => absurd rfl h⟩
  | str s =>
    have h := colorToRgb_clean (.str s)
    refine ⟨fun ho => ?_, fun _ ho => ?_⟩
    · rcases ho with ho | ho
      · cases ho
      · obtain ⟨l, hl⟩ := h.1 ho
        exact ⟨_, by simp only [xpmColour, hl, bind, Except.bind]; rfl⟩
    · simp only [xpmColour, h.2 ho, bind, Except.bind]
  | ints p =>
    have h := colorToRgb_clean (.ints p)
    refine ⟨fun ho => ?_, fun _ ho => ?_⟩
    · rcases ho with ho | ho
      · cases ho
      · obtain ⟨l, hl⟩ := h.1 ho
        exact ⟨_, by simp only [xpmColour, hl, bind, Except.bind]; rfl⟩
    · simp only [xpmColour, h.2 ho, bind, Except.bind]
  | floatAlpha r g b k =>
    have h := colorToRgb_clean (.floatAlpha r g b k)
    refine ⟨fun ho => ?_, fun _ ho => ?_⟩
    · rcases ho with ho | ho
      · cases ho
      · obtain ⟨l, hl⟩ := h.1 ho
        exact ⟨_, by simp only [xpmColour, hl, bind, Except.bind]; rfl⟩
    · simp only [xpmColour, h.2 ho, bind, Except.bind]

theorem colorToRgbaF_clean (c : ColorArg) (hc : c ≠ .none) :
    (malformed c = false → ∃ x, colorToRgbaF c = .ok x) ∧ (malformed c = true → colorToRgbaF c = .error .valueError) := by
  have h := colorToRgba_clean c hc
  have k := rgbaF_of_rgba c
  exact ⟨fun hm => (by obtain ⟨x, hx⟩ := h.1 hm; exact k.1 x hx), fun hm => k.2 (h.2 hm)⟩

/-- `_color_to_webcolor`, by cases -/
theorem toWebColor_cases (css3 : Bool) (c : ColorArg) (hc : c ≠ .none) :
    ((malformed c = false ∨ Svg.isBlack c = true ∨ Svg.isWhite c = true) → ∃ x, toWebColor css3 c = .ok x)
    ∧ (malformed c = true → Svg.isBlack c = false → Svg.isWhite c = false → toWebColor css3 c = .error .valueError) := by
  have h := colorToRgbaF_clean c hc
  refine ⟨fun hm => ?_, fun hm hb hw => ?_⟩
  · unfold toWebColor
    by_cases hb : Svg.isBlack c = true
    · exact ⟨_, by rw [if_pos hb]; rfl⟩
    · rw [if_neg hb]
      by_cases hw : Svg.isWhite c = true
      · exact ⟨_, by rw [if_pos hw]; rfl⟩
      · rw [if_neg hw]
        have hm' : malformed c = false := by
          rcases hm with hm | hm | hm
          · exact hm
          · exact absurd hm hb
          · exact absurd hm hw
        obtain ⟨⟨r, g, b, a⟩, hx⟩ := h.1 hm'
        simp only [hx, bind, Except.bind]
        cases a with
        | none => exact ⟨_, rfl⟩
        | some t => cases css3 <;> exact ⟨_, rfl⟩
  · unfold toWebColor
    simp only [hb, hw, h.2 hm, bind, Except.bind, Bool.false_eq_true, if_false]

/-- `_color_to_webcolor`: succeeds exactly on well-formed colours, ValueError otherwise (the black / white shortcuts only recognise
    well-formed values) -/
theorem toWebColor_clean (css3 : Bool) (c : ColorArg) (hc : c ≠ .none) :
    (malformed c = false → ∃ x, toWebColor css3 c = .ok x) ∧ (malformed c = true → toWebColor css3 c = .error .valueError) := by
  have h := toWebColor_cases css3 c hc
  refine ⟨fun hm => h.1 (Or.inl hm), fun hm => h.2 hm ?_ ?_⟩
  · cases hk : Svg.isBlack c with
    | false => rfl
    | true => rw [isBlack_wellformed c hk] at hm; cases hm
  · cases hk : Svg.isWhite c with
    | false => rfl
    | true => rw [isWhite_wellformed c hk] at hm; cases hm

theorem epsColor_clean (c : ColorArg) :
    (opaqueCol c = true → ∃ s, epsColor (.arg c) = .ok s) ∧ (opaqueCol c = false → epsColor (.arg c) = .error .valueError) := by
  have h := colorToRgb_clean c
  refine ⟨fun ho => ?_, fun ho => ?_⟩
  · obtain ⟨l, hl⟩ := h.1 ho
    obtain ⟨r, g, b, rfl, _⟩ := Proofs.RasterDocs.colorToRgb_ok c l hl
    simp only [epsColor, channelTexts, hl, bind, Except.bind, pure, Except.pure, List.map]
    exact ⟨_, rfl⟩
  · simp only [epsColor, channelTexts, h.2 ho, bind, Except.bind]

theorem pdfColor_clean (o : PdfOpts) (c : ColorArg) :
    (opaqueCol c = true → ∃ s, pdfColor o (.arg c) = .ok s) ∧ (opaqueCol c = false → pdfColor o (.arg c) = .error .valueError) := by
  have h := colorToRgb_clean c
  refine ⟨fun ho => ?_, fun ho => ?_⟩
  · obtain ⟨l, hl⟩ := h.1 ho
    obtain ⟨r, g, b, rfl, _⟩ := Proofs.RasterDocs.colorToRgb_ok c l hl
    simp only [pdfColor, channelTexts, hl, bind, Except.bind, pure, Except.pure, List.map]
    exact ⟨_, rfl⟩
  · simp only [pdfColor, channelTexts, h.2 ho, bind, Except.bind]

end Proofs.C14Ser
