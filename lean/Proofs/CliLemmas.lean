/-
  Proofs.CliLemmas — helper lemmas about Model.Cli (file extension, ASCII case mapping, config filtering)
  used by Props/C12.lean and Props/C14.lean.
-/
import Model.Cli

namespace Proofs.CliLemmas
open Model.Cli Gen

/-! ### extension after the last dot -/

theorem afterLastDot_append (stem ext : Str) (h : '.' ∉ ext) :
    afterLastDot (stem ++ '.' :: ext) = ext := by
  induction stem with
  | nil => simp [afterLastDot, h]
  | cons c rest ih => simp [afterLastDot, ih]

theorem afterLastDot_noDot (s : Str) (h : '.' ∉ s) : afterLastDot s = s := by
  induction s with
  | nil => rfl
  | cons c rest ih =>
    simp only [List.mem_cons, not_or] at h
    have h2 : ¬ c = '.' := fun e => h.1 e.symm
    simp [afterLastDot, h.2, h2]

theorem splitLastDot_noDot (s : Str) (h : '.' ∉ s) : splitLastDot s = none := by
  induction s with
  | nil => rfl
  | cons c rest ih =>
    simp only [List.mem_cons, not_or] at h
    have h2 : ¬ c = '.' := fun e => h.1 e.symm
    simp [splitLastDot, ih h.2, h2]

theorem splitLastDot_append (stem ext : Str) (h : '.' ∉ ext) :
    splitLastDot (stem ++ '.' :: ext) = some (stem, '.' :: ext) := by
  induction stem with
  | nil => simp [splitLastDot, splitLastDot_noDot ext h]
  | cons c rest ih => simp [splitLastDot, ih]

/-! ### ASCII lower case -/

theorem lowerC_eq_dot (c : Char) : lowerC c = '.' ↔ c = '.' := by
  constructor
  · intro he
    unfold lowerC at he
    split at he <;> first | exact he | (exact absurd he (by decide))
  · intro he; subst he; rfl

theorem dot_mem_lower (s : Str) : '.' ∈ lower s ↔ '.' ∈ s := by
  induction s with
  | nil => simp [lower]
  | cons c rest ih =>
    simp only [lower, List.map_cons, List.mem_cons] at *
    rw [ih]
    constructor
    · rintro (h | h)
      · left; exact ((lowerC_eq_dot c).1 h.symm).symm
      · right; exact h
    · rintro (h | h)
      · left; exact ((lowerC_eq_dot c).2 h.symm).symm
      · right; exact h

/-! ### configuration dictionaries -/

theorem cget_cpop_self (c : Config) (k : String) : cget (cpop c k) k = none := by
  simp only [cget, cpop, Option.map_eq_none_iff, List.find?_eq_none]
  intro x hx
  simp only [List.mem_filter] at hx
  simp_all

end Proofs.CliLemmas
