/-
  Proofs.TieA2Stream — `write_terminator`, `write_padding_bits`, `write_pad_codewords` (translated, Gen/Funcs2.lean)
  against the three stages of `Model.finishStream`.
-/
import Proofs.TieA2
import Model.Encoder

namespace Proofs.TieA2
open Gen.Py Proofs.TieA

/-- the `ver` argument `_encode` passes to `write_terminator`: `None` for a QR Code, the version constant for a Micro QR Code -/
def verArg (v : Int) : Option Int := if v < 1 then some v else none

/-! ### the three stages of `Model.finishStream` -/

/-- `write_terminator` -/
def stage1 (buff : List Nat) (cap tl : Nat) : List Nat := buff ++ List.replicate (min (cap - buff.length) tl) 0

/-- `write_padding_bits` -/
def stage2 (b1 : List Nat) (v : Int) : List Nat :=
  if !Model.isM1M3 v then b1 ++ List.replicate (8 - b1.length % 8) 0 else b1

/-- `write_pad_codewords` -/
def stage3 (b2 : List Nat) (v : Int) (cap : Nat) : List Nat :=
  if Model.isM1M3 v then
    let len := b2.length
    let b3 := b2 ++ List.replicate (min ((8 - len % 8) % 8) (cap - len)) 0
    let b4 := b3 ++ ((List.range ((cap - b3.length) / 8)).map Model.padCodeword).flatten
    b4 ++ List.replicate (cap - b4.length) 0
  else
    b2 ++ ((List.range (cap / 8 - b2.length / 8)).map Model.padCodeword).flatten

theorem finishStream_stages (buff : List Nat) (v : Int) (cap : Nat) :
    Model.finishStream buff v cap =
      match Model.terminatorLength v with
      | none => .error .keyError
      | some tl => .ok (stage3 (stage2 (stage1 buff cap tl) v) v cap) := by
  unfold Model.finishStream stage3 stage2 stage1
  cases h : Model.terminatorLength v with
  | none => rfl
  | some tl =>
    simp only []
    by_cases hm : Model.isM1M3 v = true
    · simp [hm, pure, Except.pure, Bind.bind, Except.bind]
    · simp [hm, pure, Except.pure, Bind.bind, Except.bind]

theorem zeros_toI (n : Nat) : List.replicate n (0 : Int) = toI (List.replicate n 0) := by simp [toI]

/-! ### terminator -/

theorem terminator_lookup (v : Int) :
    lookup Gen.Funcs2.T_consts_TERMINATOR_LENGTH (verArg v) = ofOption .keyError ((Model.terminatorLength v).map Int.ofNat) := by
  by_cases h1 : 1 ≤ v
  · have e : verArg v = none := by simp [verArg]; omega
    have e2 : (if v > 0 then (1 : Int) else v) = 1 := by rw [if_pos (by omega)]
    rw [e]
    simp only [Model.terminatorLength, e2]
    rfl
  · by_cases hk : v = -3 ∨ v = -2 ∨ v = -1 ∨ v = 0
    · rcases hk with h | h | h | h <;> subst h <;> decide
    · have e : verArg v = some v := by simp [verArg]; omega
      have e2 : (if v > 0 then (1 : Int) else v) = v := by rw [if_neg (by omega)]
      have n3 : ((-3 : Int) == v) = false := by simp; omega
      have n2 : ((-2 : Int) == v) = false := by simp; omega
      have n1 : ((-1 : Int) == v) = false := by simp; omega
      have n0 : ((0 : Int) == v) = false := by simp; omega
      have p1 : ((1 : Int) == v) = false := by simp; omega
      rw [e]
      simp only [Model.terminatorLength, e2]
      simp [lookup, Gen.Funcs2.T_consts_TERMINATOR_LENGTH, Gen.TERMINATOR_LENGTH, Model.assoc, List.find?, n3, n2, n1, n0, p1]

theorem write_terminator_eq (buff : List Nat) (cap : Nat) (v : Int) :
    Gen.Funcs2.write_terminator (toI buff) cap (verArg v) buff.length =
      match Model.terminatorLength v with
      | none => .error .keyError
      | some tl => .ok (toI (stage1 buff cap tl)) := by
  unfold Gen.Funcs2.write_terminator
  rw [terminator_lookup]
  cases Model.terminatorLength v with
  | none => rfl
  | some tl =>
    have e : (min ((cap : Int) - (buff.length : Int)) (tl : Int)).toNat = min (cap - buff.length) tl := by omega
    simp [stage1, e, toI]

/-! ### padding bits -/

theorem isM1M3_iff (v : Int) : Model.isM1M3 v = ((v == (-3 : Int)) || (v == (-1 : Int))) := rfl

theorem write_padding_bits_eq (b1 : List Nat) (v : Int) :
    Gen.Funcs2.write_padding_bits (toI b1) v b1.length = toI (stage2 b1 v) := by
  unfold Gen.Funcs2.write_padding_bits stage2 Model.isM1M3
  have e : ((8 : Int) - ((b1.length : Int) % 8)).toNat = 8 - b1.length % 8 := by omega
  -- (by cases on the version, not on the Boolean expression of the source: `not in (a, b)` may be written otherwise)
  by_cases h3 : v = -3
  · subst h3; simp [Gen.VERSION_M1, Gen.VERSION_M3]
  · by_cases h1 : v = -1
    · subst h1; simp [Gen.VERSION_M1, Gen.VERSION_M3]
    · simp [h3, h1, e, toI, Gen.VERSION_M1, Gen.VERSION_M3]

/-! ### pad codewords -/

def padI (i : Int) : List Int := if i % 2 = 0 then [1, 1, 1, 0, 1, 1, 0, 0] else [0, 0, 0, 1, 0, 0, 0, 1]

theorem padI_nat (k : Nat) : padI (k : Int) = toI (Model.padCodeword k) := by
  unfold padI Model.padCodeword
  have h : ((k : Int) % 2 = 0) ↔ (k % 2 = 0) := by omega
  by_cases hk : k % 2 = 0
  · rw [if_pos (h.mpr hk)]; simp [hk]
  · rw [if_neg (fun x => hk (h.mp x))]; simp [hk]

theorem pad_foldl (b : List Int) (n : Nat) :
    ((List.range n).map Int.ofNat).foldl (fun acc i => acc ++ padI i) b
      = b ++ toI ((List.range n).map Model.padCodeword).flatten := by
  induction n with
  | zero => simp
  | succ n ih =>
    rw [List.range_succ]
    simp only [List.map_append, List.foldl_append, ih, List.map_cons, List.map_nil, List.foldl_cons, List.foldl_nil,
      List.flatten_append, List.flatten_cons, List.flatten_nil, List.append_nil, toI_append, List.append_assoc]
    congr 1
    congr 1
    exact padI_nat n

/-- the pad codeword loop: `for i in range(n): write(pad_codewords[i % 2])` -/
theorem pad_loop (b : List Int) (n : Int) :
    foldlM (range 0 n) b (fun acc i =>
      Gen.Py.bind (index [[(1 : Int), 1, 1, 0, 1, 1, 0, 0], [(0 : Int), 0, 0, 1, 0, 0, 0, 1]] (i % 2)) (fun t => .ok (acc ++ t)))
      = .ok (b ++ toI ((List.range n.toNat).map Model.padCodeword).flatten) := by
  rw [foldlM_eq_foldl _ _ _ (fun acc i => acc ++ padI i)]
  · have e : range 0 n = (List.range n.toNat).map Int.ofNat := by simp [range]
    rw [e, pad_foldl]
  · intro s x hx
    have hx0 := (mem_range hx).1
    rw [index_two _ _ _ hx0]
    rfl

theorem write_pad_codewords_eq (b2 : List Nat) (v : Int) (cap : Nat) :
    Gen.Funcs2.write_pad_codewords (toI b2) v cap b2.length = .ok (toI (stage3 b2 v cap)) := by
  unfold Gen.Funcs2.write_pad_codewords stage3
  rw [isM1M3_iff]
  by_cases h : ((v == (-3 : Int)) || (v == (-1 : Int))) = true
  · rw [if_pos h, if_pos h]
    have e1 : (min ((-(b2.length : Int)) % 8) ((cap : Int) - (b2.length : Int))).toNat
        = min ((8 - b2.length % 8) % 8) (cap - b2.length) := by omega
    simp only [e1]
    rw [zeros_toI, ← toI_append]
    simp only [toI_length, Int.ofNat_eq_natCast]
    rw [pad_loop]
    simp only [bind_ok]
    have e2 : ∀ l : List Nat, (((cap : Int) - (l.length : Int)) / 8).toNat = (cap - l.length) / 8 := by intro l; omega
    have e3 : ∀ l : List Nat, ((cap : Int) - (l.length : Int)).toNat = cap - l.length := by intro l; omega
    rw [e2, ← toI_append]
    simp only [toI_length]
    rw [e3, zeros_toI, ← toI_append]
  · rw [if_neg h, if_neg h]
    rw [pad_loop]
    have e2 : ((cap : Int) / 8 - (b2.length : Int) / 8).toNat = cap / 8 - b2.length / 8 := by omega
    simp [e2]

end Proofs.TieA2
