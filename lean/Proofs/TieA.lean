/-
  Proofs.TieA — helpers for Props/TieA.lean: the map from the exception classes of the translated code
  (`Gen.Py.PyExc`) to the outcomes of the hand-written model (`Model.PyErr`), and the bridge lemmas between the
  Python primitives of the translation (`Py.index`, `Py.lookup`, `Py.sumM`, tables in dict order) and the access
  functions of the model (`List.getElem?`, `lookup2`, `cciLen`, tables of `Gen.Tables` in sorted order).
-/
import Gen.Funcs
import Model.Args
import Model.Iter
import Model.Sequence
import Model.Png
import Model.RasterDocs
import Mathlib.Tactic.SplitIfs

namespace Proofs.TieA
open Gen.Py

/-- exception class of the translated code ↦ outcome of the model.  The model has no `AttributeError` /
    `ZeroDivisionError` of its own (Model/Args.lean: an uncaught `AttributeError` is a `typeError` outcome). -/
def exc : PyExc → Model.PyErr
  | .valueError => .valueError | .dataOverflow => .dataOverflow | .indexError => .indexError
  | .keyError => .keyError | .typeError => .typeError | .attributeError => .typeError
  | .assertionError => .assertionError | .unicodeError => .unicodeError | .lookupError => .lookupError
  | .zeroDivisionError => .typeError
  | .stopIteration => .typeError | .fuelExhausted => .typeError
  | .unboundLocalError => .typeError

/-- result of translated code read as a result of the model -/
def toR {α : Type} (x : M α) : Model.R α := x.mapError exc

@[simp] theorem toR_ok {α : Type} (a : α) : toR (Except.ok a : M α) = Except.ok a := rfl
@[simp] theorem toR_error {α : Type} (e : PyExc) : toR (Except.error e : M α) = Except.error (exc e) := rfl

/-- `Option` results of the model (`none` = the named exception) read as `Except` -/
def ofOption {α : Type} (e : PyExc) : Option α → M α
  | some a => .ok a
  | none => .error e

@[simp] theorem ofOption_some {α : Type} (e : PyExc) (a : α) : ofOption e (some a) = .ok a := rfl
@[simp] theorem ofOption_none {α : Type} (e : PyExc) : ofOption e (none : Option α) = .error e := rfl

/-- closes a linear-arithmetic goal, also when it is stated as an equation between Booleans -/
macro "bool_omega" : tactic => `(tactic| first | omega | (rw [Bool.eq_iff_iff]; simp; omega))

/-! ### Python subscripts against the model's table access -/

/-- `t[n]` for a non-negative index into a tuple of non-negative integers = `List.getElem?` -/
theorem index_map_ofNat (l : List Nat) (n : Nat) :
    index (l.map Int.ofNat) (n : Int) = ofOption .indexError (l[n]?.map Int.ofNat) := by
  simp only [index, List.length_map]
  by_cases h : n < l.length
  · have h1 : (0 : Int) ≤ (n : Int) ∧ (n : Int) < (l.length : Int) := ⟨by omega, by omega⟩
    rw [if_pos h1]
    simp [h]
  · have h1 : ¬ ((0 : Int) ≤ (n : Int) ∧ (n : Int) < (l.length : Int)) := by omega
    have h2 : ¬ (-(l.length : Int) ≤ (n : Int) ∧ (n : Int) < 0) := by omega
    have h3 : l[n]? = none := by simp; omega
    rw [if_neg h1, if_neg h2, h3]
    rfl

/-- `(x, y)[v]` for a matrix value v ∈ {0, 1} -/
theorem index_pair (x y : Int) (v : Nat) (hv : v = 0 ∨ v = 1) :
    index [x, y] (Int.ofNat v) = .ok (if v = 0 then x else y) := by
  rcases hv with h | h <;> subst h <;> rfl

/-- the two dumps of `consts.FORMAT_INFO` (dict order here, `Gen.Tables` there) agree -/
theorem format_info_tables : Gen.Funcs.T_consts_FORMAT_INFO = Gen.FORMAT_INFO.map Int.ofNat := by decide
theorem format_info_micro_tables : Gen.Funcs.T_consts_FORMAT_INFO_MICRO = Gen.FORMAT_INFO_MICRO.map Int.ofNat := by decide

/-- a mode without an entry in `consts.SUPPORTED_MODES` -/
theorem isModeSupported_unknown (mode : Nat) (h : mode ≠ 1 ∧ mode ≠ 2 ∧ mode ≠ 4 ∧ mode ≠ 7 ∧ mode ≠ 8 ∧ mode ≠ 13) (v : Int) :
    Model.isModeSupported mode v = none := by
  obtain ⟨h1, h2, h4, h7, h8, h13⟩ := h
  have f1 : ((1 : Nat) == mode) = false := by simp; omega
  have f2 : ((2 : Nat) == mode) = false := by simp; omega
  have f4 : ((4 : Nat) == mode) = false := by simp; omega
  have f7 : ((7 : Nat) == mode) = false := by simp; omega
  have f8 : ((8 : Nat) == mode) = false := by simp; omega
  have f13 : ((13 : Nat) == mode) = false := by simp; omega
  simp [Model.isModeSupported, Gen.SUPPORTED_MODES, List.find?, Model.assoc, f1, f2, f4, f7, f8, f13]

end Proofs.TieA
