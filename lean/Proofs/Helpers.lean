/-
  Proofs.Helpers — lemmas for C16 (helper payloads parse back).  Nothing here mentions `Gen`: the
  lemmas are about an abstract per-character escaping `s.flatMap esc` where `esc c` is either `[c]`
  (a character that is neither the backslash nor a delimiter) or `['\\', c]`.  Props/C16.lean shows
  that the tables of helpers.py have this form.
-/
import Spec.Helpers
import Model.Helpers

namespace Proofs.Helpers
open Spec.Helpers

/-! ### pieces -/

/-- put the text `p` in front of the first piece -/
def prependHead (p : List Char) : List (List Char) → List (List Char)
  | [] => [p]
  | h :: t => (p ++ h) :: t

theorem consHead_eq (c : Char) (l : List (List Char)) : consHead c l = prependHead [c] l := by
  cases l <;> simp [consHead, prependHead]

theorem prependHead_nil (l : List (List Char)) (h : l ≠ []) : prependHead [] l = l := by
  cases l with
  | nil => exact absurd rfl h
  | cons a t => simp [prependHead]

theorem prependHead_append (p q : List Char) (l : List (List Char)) (h : l ≠ []) :
    prependHead p (prependHead q l) = prependHead (p ++ q) l := by
  cases l with
  | nil => exact absurd rfl h
  | cons a t => simp [prependHead]

theorem prependHead_ne_nil (p : List Char) (l : List (List Char)) : prependHead p l ≠ [] := by
  cases l <;> simp [prependHead]

theorem splitAux_ne_nil (d : Char) (b : Bool) (s : List Char) : splitAux d b s ≠ [] := by
  induction s generalizing b with
  | nil => cases b <;> simp [splitAux]
  | cons c rest ih =>
    cases b
    · simp only [splitAux]
      split
      · rw [consHead_eq]; exact prependHead_ne_nil _ _
      · split
        · simp
        · rw [consHead_eq]; exact prependHead_ne_nil _ _
    · simp only [splitAux]; rw [consHead_eq]; exact prependHead_ne_nil _ _

/-- A text is *closed* for the delimiter `d` if, wherever it is placed (outside an escape), the
    splitter passes over it without splitting and ends outside an escape: it contains no unescaped
    `d` and does not end in an unescaped backslash. -/
def Closed (d : Char) (p : List Char) : Prop :=
  ∀ t, splitAux d false (p ++ t) = prependHead p (splitAux d false t)

theorem Closed.nil (d : Char) : Closed d [] := by
  intro t; simp [prependHead_nil _ (splitAux_ne_nil d false t)]

theorem Closed.append {d : Char} {p q : List Char} (hp : Closed d p) (hq : Closed d q) : Closed d (p ++ q) := by
  intro t
  rw [List.append_assoc, hp, hq, prependHead_append _ _ _ (splitAux_ne_nil d false t)]

/-- an ordinary character (neither backslash nor delimiter) -/
theorem Closed.plain {d c : Char} (h1 : c ≠ '\\') (h2 : c ≠ d) : Closed d [c] := by
  intro t
  simp [splitAux, h1, h2, consHead_eq]

/-- backslash + any character -/
theorem Closed.escaped (d c : Char) : Closed d ['\\', c] := by
  intro t
  simp [splitAux, consHead_eq, prependHead_append _ _ _ (splitAux_ne_nil d false t)]

theorem Closed.flatMap {d : Char} {esc : Char → List Char} (h : ∀ c, Closed d (esc c)) (s : List Char) :
    Closed d (s.flatMap esc) := by
  induction s with
  | nil => exact Closed.nil d
  | cons c rest ih => rw [List.flatMap_cons]; exact (h c).append ih

theorem Closed.plainList {d : Char} {k : List Char} (h : ∀ c ∈ k, c ≠ '\\' ∧ c ≠ d) : Closed d k := by
  induction k with
  | nil => exact Closed.nil d
  | cons c rest ih =>
    have : c :: rest = [c] ++ rest := rfl
    rw [this]
    exact (Closed.plain (h c (by simp)).1 (h c (by simp)).2).append (ih (fun x hx => h x (by simp [hx])))

/-- a closed text is one piece: it contains no unescaped delimiter -/
theorem Closed.single {d : Char} {p : List Char} (h : Closed d p) : splitUnescaped d p = [p] := by
  have := h []
  simpa [splitUnescaped, splitAux, prependHead] using this

/-- a closed text followed by the delimiter: the delimiter ends the piece (it cannot be swallowed by
    a trailing backslash of the text), and the rest is split independently -/
theorem Closed.then_delim {d : Char} (hd : d ≠ '\\') {p : List Char} (h : Closed d p) (rest : List Char) :
    splitUnescaped d (p ++ d :: rest) = p :: splitUnescaped d rest := by
  unfold splitUnescaped
  rw [h]
  simp [splitAux, hd, prependHead]

/-! ### abstract escaping -/

/-- `esc` escapes with a backslash exactly the characters in `sp` and leaves the others alone -/
structure Escaping (esc : Char → List Char) (sp : Char → Prop) : Prop where
  special : ∀ c, sp c → esc c = ['\\', c]
  other : ∀ c, ¬ sp c → esc c = [c]
  backslash : sp '\\'

theorem Escaping.closed {esc : Char → List Char} {sp : Char → Prop} (E : Escaping esc sp) {d : Char} (hd : sp d) (c : Char) :
    Closed d (esc c) := by
  by_cases h : sp c
  · rw [E.special c h]; exact Closed.escaped d c
  · rw [E.other c h]
    refine Closed.plain ?_ ?_
    · intro hc; exact h (hc ▸ E.backslash)
    · intro hc; exact h (hc ▸ hd)

theorem unescapeAux_escape {esc : Char → List Char} {sp : Char → Prop} (E : Escaping esc sp) (s t : List Char) :
    unescapeAux false (s.flatMap esc ++ t) = (unescapeAux false t).map (s ++ ·) := by
  induction s with
  | nil => simp
  | cons c rest ih =>
    rw [List.flatMap_cons, List.append_assoc]
    by_cases h : sp c
    · rw [E.special c h]
      simp only [List.cons_append, List.nil_append, unescapeAux, if_true, ih, Option.map_map]
      rfl
    · rw [E.other c h]
      have hc : c ≠ '\\' := fun hc => h (hc ▸ E.backslash)
      simp only [List.cons_append, List.nil_append, unescapeAux, if_neg hc, ih, Option.map_map]
      rfl

/-- removing the escapes gives the value back -/
theorem unescape_escape {esc : Char → List Char} {sp : Char → Prop} (E : Escaping esc sp) (s : List Char) :
    unescape (s.flatMap esc) = some s := by
  have := unescapeAux_escape E s []
  simpa [unescape, unescapeAux] using this

theorem escape_noop {esc : Char → List Char} {sp : Char → Prop} (E : Escaping esc sp) (s : List Char)
    (h : ∀ c ∈ s, ¬ sp c) : s.flatMap esc = s := by
  induction s with
  | nil => rfl
  | cons c rest ih =>
    rw [List.flatMap_cons, E.other c (h c (by simp)), ih (fun x hx => h x (by simp [hx]))]
    rfl

/-! ### `KEY:value;` payloads -/

def fieldText (esc : Char → List Char) (f : Field) : List Char := f.1 ++ ':' :: f.2.flatMap esc

/-- the fields as the builders write them: `KEY:escaped;` one after the other -/
def render (esc : Char → List Char) (fields : List Field) : List Char :=
  (fields.map (fun f => fieldText esc f ++ [';'])).flatten

/-- field names contain no backslash, no `;` and no `:` -/
def KeyOk (k : List Char) : Prop := ∀ c ∈ k, c ≠ '\\' ∧ c ≠ ';' ∧ c ≠ ':'

theorem render_cons (esc : Char → List Char) (f : Field) (fs : List Field) :
    render esc (f :: fs) = fieldText esc f ++ ';' :: render esc fs := by
  simp [render]

theorem render_append (esc : Char → List Char) (a b : List Field) : render esc (a ++ b) = render esc a ++ render esc b := by
  simp [render]

theorem fieldText_closed {esc : Char → List Char} {sp : Char → Prop} (E : Escaping esc sp) (hd : sp ';') (f : Field)
    (hk : KeyOk f.1) : Closed ';' (fieldText esc f) := by
  have h1 : Closed ';' f.1 := Closed.plainList (fun c hc => ⟨(hk c hc).1, (hk c hc).2.1⟩)
  have h2 : Closed ';' [':'] := Closed.plain (by decide) (by decide)
  have h3 : Closed ';' (f.2.flatMap esc) := Closed.flatMap (fun c => E.closed hd c) _
  have : fieldText esc f = f.1 ++ ([':'] ++ f.2.flatMap esc) := rfl
  rw [this]
  exact h1.append (h2.append h3)

theorem split_render {esc : Char → List Char} {sp : Char → Prop} (E : Escaping esc sp) (hd : sp ';') (fields : List Field)
    (hk : ∀ f ∈ fields, KeyOk f.1) (term : List Char) :
    splitUnescaped ';' (render esc fields ++ term) = fields.map (fieldText esc) ++ splitUnescaped ';' term := by
  induction fields with
  | nil => simp [render]
  | cons f fs ih =>
    rw [render_cons, List.append_assoc, List.cons_append,
      (fieldText_closed E hd f (hk f (by simp))).then_delim (by decide), ih (fun g hg => hk g (by simp [hg]))]
    simp

theorem dropWhile_key (k v : List Char) (h : ∀ c ∈ k, c ≠ ':') :
    (k ++ ':' :: v).dropWhile (· ≠ ':') = ':' :: v := by
  induction k with
  | nil => simp
  | cons c rest ih =>
    have hc : c ≠ ':' := h c (by simp)
    have ih' := ih (fun x hx => h x (by simp [hx]))
    simp only [List.cons_append, List.dropWhile_cons, hc, ne_eq, not_false_eq_true, decide_true, if_true]
    exact ih'

theorem takeWhile_key (k v : List Char) (h : ∀ c ∈ k, c ≠ ':') :
    (k ++ ':' :: v).takeWhile (· ≠ ':') = k := by
  induction k with
  | nil => simp
  | cons c rest ih =>
    have hc : c ≠ ':' := h c (by simp)
    have ih' := ih (fun x hx => h x (by simp [hx]))
    simp only [List.cons_append, List.takeWhile_cons, hc, ne_eq, not_false_eq_true, decide_true, if_true]
    rw [ih']

theorem parseField_fieldText {esc : Char → List Char} {sp : Char → Prop} (E : Escaping esc sp) (f : Field) (hk : KeyOk f.1) :
    parseField (fieldText esc f) = some f := by
  have h : ∀ c ∈ f.1, c ≠ ':' := fun c hc => (hk c hc).2.2
  unfold parseField fieldText
  rw [dropWhile_key _ _ h, takeWhile_key _ _ h]
  simp [unescape_escape E]

theorem stripPrefix_append (p x : List Char) : stripPrefix p (p ++ x) = some x := by
  induction p with
  | nil => cases x <;> simp [stripPrefix]
  | cons c rest ih => simp [stripPrefix, ih]

/-- **the round trip**: a payload `prefix KEY:escaped; … ;` followed by nothing or one more `;` splits
    at the unescaped `;` into exactly the fields, each value recovered verbatim -/
theorem fieldsOk_render {esc : Char → List Char} {sp : Char → Prop} (E : Escaping esc sp) (hd : sp ';')
    (pfx : List Char) (fields : List Field) (hk : ∀ f ∈ fields, KeyOk f.1) (term : List Char)
    (ht : term = [] ∨ term = [';']) :
    fieldsOk pfx (pfx ++ (render esc fields ++ term)) fields = true := by
  unfold fieldsOk
  rw [stripPrefix_append]
  simp only
  rw [split_render E hd fields hk term]
  have hlen : (fields.map (fieldText esc)).length = fields.length := by simp
  have hmap : (fields.map (fieldText esc)).map parseField = fields.map some := by
    rw [List.map_map]
    apply List.map_congr_left
    intro f hf
    exact parseField_fieldText E f (hk f hf)
  rw [List.drop_left' hlen, List.take_left' hlen, hmap]
  rcases ht with h | h <;> subst h <;> simp [splitUnescaped, splitAux]

end Proofs.Helpers
