/-
  Proofs.C14SerCover — on a symbol-shaped matrix the look-ups of the document models cannot fail: the alignment table has an
  entry for every symbol size (no IndexError), the colour map has an entry for every module type `matrix_iter_verbose` yields
  (no KeyError), the line iterator of `write_eps` is not empty (no StopIteration).  Helper lemmas for Props/C14Serializers.lean.
-/
import Proofs.C14SerDefs
import Proofs.Verbose
import Proofs.Colormap
import Proofs.RasterDocsBase

set_option linter.unusedSimpArgs false
set_option linter.unusedVariables false

namespace Proofs.C14Ser
open Model Model.RasterDocs Model.Lines Proofs.Colormap

/-- every entry of `consts.ALIGNMENT_POS` (versions 2 … 40) is a non-empty list -/
theorem alignPos_check :
    (List.range 39).all (fun k => match Gen.Align.ALIGNMENT_POS[k]? with | some (_ :: _) => true | _ => false) = true := by
  decide +kernel

/-- the 44 symbol sizes: Micro QR (11 … 17), QR below version 7 (21 … 41), QR from version 7 (45 … 177) -/
theorem symbolSize_cases (w : Nat) (hs : SymbolSize w) : 11 ≤ w ∧ w ≤ 177 ∧ (w < 21 ∨ (21 ≤ w ∧ w ≤ 41) ∨ 45 ≤ w) := by
  obtain ⟨v, h1, h2, rfl⟩ := hs
  unfold Spec.size
  by_cases h0 : v > 0
  · rw [if_pos h0]; omega
  · rw [if_neg h0]; omega

theorem symbol_alignment? (w : Nat) (hs : SymbolSize w) : ∃ A, alignmentMatrix? w = some A := by
  have hw := symbolSize_cases w hs
  unfold alignmentMatrix?
  simp only
  have e : Int.fdiv ((w : Int) - 17) 4 = ((w : Int) - 17) / 4 := Int.fdiv_eq_ediv_of_nonneg _ (by decide)
  rw [e]
  by_cases hv : ((w : Int) - 17) / 4 < 2
  · rw [if_pos hv]; exact ⟨_, rfl⟩
  · rw [if_neg hv]
    have hk : (((w : Int) - 17) / 4 - 2).toNat < 39 := by omega
    have hc := alignPos_check
    rw [List.all_eq_true] at hc
    have := hc _ (List.mem_range.2 hk)
    generalize Gen.Align.ALIGNMENT_POS[(((w : Int) - 17) / 4 - 2).toNat]? = o at this
    match o, this with
    | some (p :: ps), _ =>
      simp only [List.head?_cons]
      cases hl : (p :: ps).getLast? with
      | none => simp at hl
      | some m => exact ⟨_, rfl⟩

/-- `add_alignment_patterns` has what it needs for every symbol size: no IndexError in `matrix_iter_verbose` -/
theorem symbol_alignment (w : Nat) (hs : SymbolSize w) : ∃ A, alignmentMatrix w = .ok A := by
  obtain ⟨A, hA⟩ := symbol_alignment? w hs
  exact ⟨A, by unfold alignmentMatrix; rw [hA]; rfl⟩

/-- a Micro QR Code has no alignment pattern, version information or dark module -/
theorem branch_micro_none (w h : Int) (sq : Bool) (a : Nat) (i j : Int) :
    getBitBranch w h sq true a i j ≠ .alignment ∧ getBitBranch w h sq true a i j ≠ .version
      ∧ getBitBranch w h sq true a i j ≠ .darkmodule := by
  unfold getBitBranch
  simp only [Bool.not_true, Bool.false_and, Bool.false_eq_true, if_false]
  repeat' split
  all_goals decide

/-- version information needs more than 41 modules -/
theorem branch_version_gt (w h : Int) (sq mi : Bool) (a : Nat) (i j : Int) (hb : getBitBranch w h sq mi a i j = .version) : w > 41 := by
  unfold getBitBranch at hb
  split at hb
  · cases hb
  · split at hb
    · rename_i hc
      simp only [Bool.and_eq_true, decide_eq_true_eq] at hc
      exact hc.1.2.2
    · repeat' split at hb
      all_goals cases hb

/-- the map has an entry for the value of every `return` of `get_bit` whose region the size class has -/
theorem cover_aux {α : Type} (w : Nat) (dark light : α) (o : TypeOpts α) (br : Branch) (a val : Nat)
    (h1 : br = .version → lacks w w .version = false)
    (h2 : br = .alignment → lacks w w .alignment = false)
    (h3 : br = .darkmodule → lacks w w .darkmodule = false) :
    (cmGet (makeColormap w w dark light o) (branchCode br a val)).isSome = true := by
  rw [makeColormap_eq]
  generalize lacks w w .version = lv at *
  generalize lacks w w .alignment = la at *
  generalize lacks w w .darkmodule = ld at *
  by_cases hv : (val == 0) = true <;> by_cases ha : (a == 0) = true <;>
    cases br <;> simp only [branchCode, pick, hv, ha, if_true, if_false, Bool.false_eq_true] <;>
    cases lv <;> cases la <;> cases ld <;>
    first
    | rfl
    | exact absurd (h1 rfl) (by decide)
    | exact absurd (h2 rfl) (by decide)
    | exact absurd (h3 rfl) (by decide)

theorem colormap_quiet_zone {α : Type} (w h : Nat) (dark light : α) (o : TypeOpts α) :
    cmGet (makeColormap w h dark light o) Gen.TYPE_QUIET_ZONE = some (o.quiet_zone.getD light) := by
  rw [makeColormap_eq]
  cases lacks w h .version <;> cases lacks w h .alignment <;> cases lacks w h .darkmodule <;> rfl

theorem colormap_finder_dark {α : Type} (w h : Nat) (dark light : α) (o : TypeOpts α) :
    cmGet (makeColormap w h dark light o) Gen.TYPE_FINDER_PATTERN_DARK = some (o.finder_dark.getD dark) := by
  rw [makeColormap_eq]
  cases lacks w h .version <;> cases lacks w h .alignment <;> cases lacks w h .darkmodule <;> rfl

theorem colormap_data_dark {α : Type} (w h : Nat) (dark light : α) (o : TypeOpts α) :
    cmGet (makeColormap w h dark light o) Gen.TYPE_DATA_DARK = some (o.data_dark.getD dark) := by
  rw [makeColormap_eq]
  cases lacks w h .version <;> cases lacks w h .alignment <;> cases lacks w h .darkmodule <;> rfl

/-- the colour map of `_make_colormap` has an entry for every module type `matrix_iter_verbose` yields on a matrix of a symbol
    size (the dropped keys — version information below version 7, dark module and alignment patterns of Micro QR Codes — are
    never asked for): no KeyError.  For every matrix content and alignment matrix. -/
theorem colormap_covers {α : Type} (w : Nat) (hs : SymbolSize w) (dark light : α) (o : TypeOpts α) (M A : List (List Nat)) (b ii jj : Nat) :
    (cmGet (makeColormap w w dark light o) (verboseCell M A w w b ii jj)).isSome = true := by
  have hw := symbolSize_cases w hs
  unfold verboseCell
  split
  · simp only [getBitInside]
    apply cover_aux
    · intro hb
      have := branch_version_gt _ _ _ _ _ _ _ hb
      have h45 : ¬ w < 45 := by omega
      simp [lacks, h45]
    · intro hb
      by_cases hm : w < 21
      · have e : (w == w && decide (w < 21)) = true := by simp [hm]
        rw [e] at hb
        exact absurd hb (branch_micro_none _ _ _ _ _ _).1
      · simp [lacks, hm]
    · intro hb
      by_cases hm : w < 21
      · have e : (w == w && decide (w < 21)) = true := by simp [hm]
        rw [e] at hb
        exact absurd hb (branch_micro_none _ _ _ _ _ _).2.2
      · simp [lacks, hm]
  · rw [colormap_quiet_zone]; rfl

theorem iterWith_mem (cell : Nat → Nat → Nat) (w h s b : Nat) :
    ∀ r ∈ iterWith cell w h s b, ∀ t ∈ r, ∃ ii jj, t = cell ii jj := by
  intro r hr t ht
  simp only [iterWith, scaleRow, List.mem_flatMap, List.mem_map, List.mem_replicate, List.mem_range] at hr
  obtain ⟨row, ⟨ii, _, rfl⟩, _, rfl⟩ := hr
  simp only [List.mem_flatMap, List.mem_map, List.mem_replicate, List.mem_range] at ht
  obtain ⟨x, ⟨jj, _, rfl⟩, _, rfl⟩ := ht
  exact ⟨ii, jj, rfl⟩

/-- `matrix_iter_verbose` on a symbol size, an accepted scale and border: rows whose every value has a colour map entry -/
theorem iterVerbose_covered {α : Type} (M : List (List Nat)) (w : Nat) (hs : SymbolSize w) (scale : Num) (border : Option Num) (b : Nat)
    (a : Proofs.RasterDocs.Admitted w w scale border b) (dark light : α) (o : TypeOpts α) :
    ∃ rows, matrixIterVerbose M w w scale border = .ok rows
      ∧ ∀ r ∈ rows, ∀ t ∈ r, (cmGet (makeColormap w w dark light o) t).isSome = true := by
  obtain ⟨A, hA⟩ := symbol_alignment w hs
  refine ⟨iterWith (verboseCell M A w w b) w w scale.toInt.toNat b, ?_, ?_⟩
  · simp only [matrixIterVerbose, a.okBorder, a.okScale, a.okRange, hA, bind, Except.bind, pure, Except.pure]
  · intro r hr t ht
    obtain ⟨ii, jj, rfl⟩ := iterWith_mem _ _ _ _ _ r hr t ht
    exact colormap_covers w hs dark light o M A b ii jj

/-- a row scan that ends on a light module after a dark one has yielded a run -/
theorem rowGo_emits : ∀ (row : List Nat) (x1 x2 lb : Nat), (lb ≠ 0 ∨ ∃ v ∈ row, v ≠ 0) →
    (rowGo x1 x2 lb row).2.2.2 = 0 → (rowGo x1 x2 lb row).1 ≠ []
  | [], x1, x2, lb, h, h0 => by
    simp only [rowGo] at h0
    rcases h with h | ⟨v, hv, _⟩
    · exact absurd h0 h
    · cases hv
  | bit :: rest, x1, x2, lb, h, h0 => by
    simp only [rowGo] at h0 ⊢
    by_cases he : (lb != bit && bit == 0) = true
    · simp only [he, if_true]; exact List.cons_ne_nil _ _
    · simp only [he, if_false, Bool.false_eq_true] at h0 ⊢
      apply rowGo_emits rest _ _ bit _ h0
      by_cases hb : bit = 0
      · right
        subst hb
        have hl : lb = 0 := by
          simp only [beq_self_eq_true, Bool.and_true, bne_iff_ne, ne_eq, Decidable.not_not] at he
          exact he
        rcases h with h | ⟨v, hv, hv0⟩
        · exact absurd hl h
        · rcases List.mem_cons.1 hv with rfl | hv'
          · exact absurd rfl hv0
          · exact ⟨v, hv', hv0⟩
      · left; exact hb

theorem rowRuns_nonempty (x lb : Nat) (row : List Nat) (h : ∃ v ∈ row, v ≠ 0) : (rowRuns x lb row).1 ≠ [] := by
  unfold rowRuns
  by_cases hf : ((rowGo x x lb row).2.2.2 != 0) = true
  · simp only [hf, if_true]
    exact fun e => by simp at e
  · simp only [hf, if_false, Bool.false_eq_true]
    apply rowGo_emits row x x lb (Or.inr h)
    simpa using hf

theorem linesGo_nonempty (x : Nat) (inc2 : Int) : ∀ (m : List (List Nat)) (y2 : Int) (lb : Nat),
    (∃ r ∈ m, ∃ v ∈ r, v ≠ 0) → linesGo x inc2 y2 lb m ≠ []
  | [], _, _, h => by obtain ⟨r, hr, _⟩ := h; cases hr
  | row :: rest, y2, lb, h => by
    simp only [linesGo]
    obtain ⟨r, hr, hv⟩ := h
    rcases List.mem_cons.1 hr with rfl | hr'
    · have := rowRuns_nonempty x lb r hv
      intro e
      rw [List.append_eq_nil_iff] at e
      exact this (List.map_eq_nil_iff.1 e.1)
    · have := linesGo_nonempty x inc2 rest (y2 + inc2) (rowRuns x lb row).2 ⟨r, hr', hv⟩
      intro e
      rw [List.append_eq_nil_iff] at e
      exact this e.2

/-- a matrix with a dark module has at least one line: `next(line_iter)` of `write_eps` does not raise StopIteration -/
theorem epsPath_isSome (M : List (List Nat)) (b : Nat) (hdark : ∃ r ∈ M, ∃ x ∈ r, x ≠ 0) : (epsPath M b).isSome = true := by
  unfold epsPath
  simp only
  have h := linesGo_nonempty b (-2) M (2 * ((M.length : Int) + (b : Int)) - 1 - (-2)) 1 hdark
  unfold matrixToLines toInt
  generalize linesGo b (-2) (2 * ((M.length : Int) + (b : Int)) - 1 - (-2)) 1 M = l at h
  cases l with
  | nil => exact absurd rfl h
  | cons t ts => rfl

end Proofs.C14Ser
