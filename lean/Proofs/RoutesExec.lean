/-
  Proofs.RoutesExec — lemmas about plans and their execution (Model/Routes.lean): `execute` depends on a
  plan only through the bound keyword map; the plans of `save` for the different forms of `out` / `kind`;
  the loop of `QRCodeSequence.save`.
-/
import Proofs.Routes

namespace Proofs.Routes
open Gen (PyV)
open Model Model.Cli Model.Routes Proofs.CliLemmas

/-! ### `execute` -/

theorem execute_congr (env : Env) (p q : Plan) (hk : p.key = q.key) (ht : p.target = q.target) (hp : p.post = q.post)
    (hc : completeKw p.key p.kw = completeKw q.key q.kw) : execute env p = execute env q := by
  obtain ⟨pk, pkw, pt, pp⟩ := p
  obtain ⟨qk, qkw, qt, qp⟩ := q
  simp only at hk ht hp hc
  subst hk ht hp
  unfold execute Env.ser
  simp only [hc]

theorem refuseNames_ok_iff (names : List String) (kw : Config) :
    refuseNames names kw = .ok () ↔ kw.any (fun e => names.contains e.1) = false := by
  unfold refuseNames
  by_cases h : kw.any (fun e => names.contains e.1) = true
  · rw [if_pos h]
    constructor
    · intro x; exact absurd x (by simp [throw, throwThe, MonadExceptOf.throw])
    · intro x; rw [h] at x; exact absurd x (by simp)
  · rw [if_neg h]
    constructor
    · intro _; simpa using h
    · intro _; rfl

theorem refuseNames_err (names : List String) (kw : Config) (h : kw.any (fun e => names.contains e.1) = true) :
    refuseNames names kw = .error .typeError := by
  unfold refuseNames
  rw [if_pos h]
  rfl

/-- none of the names is a key -/
def Free (names : List String) (kw : Config) : Prop := ∀ k ∈ names, cget kw k = none

theorem any_names_false_of_free (names : List String) (kw : Config) (h : Free names kw) :
    kw.any (fun e => names.contains e.1) = false := by
  rw [Bool.eq_false_iff]
  intro hany
  obtain ⟨e, he, hc⟩ := List.any_eq_true.1 hany
  have hk : e.1 ∈ names := by simpa using hc
  have := h e.1 hk
  have hs : (cget kw e.1).isSome = true := by
    rw [isSome_cget_iff]
    exact List.any_eq_true.2 ⟨e, he, by simp⟩
  rw [this] at hs
  simp at hs

theorem free_of_any_names_false (names : List String) (kw : Config) (h : kw.any (fun e => names.contains e.1) = false) :
    Free names kw := by
  intro k hk
  cases hc : cget kw k with
  | none => rfl
  | some v =>
    have hs : (cget kw k).isSome = true := by rw [hc]; rfl
    rw [isSome_cget_iff] at hs
    obtain ⟨e, he, hek⟩ := List.any_eq_true.1 hs
    have : e.1 = k := by simpa using hek
    have : kw.any (fun e => names.contains e.1) = true :=
      List.any_eq_true.2 ⟨e, he, by rw [this]; simpa using hk⟩
    rw [h] at this
    exact absurd this (by simp)

theorem refuseNames_free (names : List String) (kw : Config) (h : Free names kw) : refuseNames names kw = .ok () :=
  (refuseNames_ok_iff names kw).2 (any_names_false_of_free names kw h)

theorem free_mono {names names' : List String} {kw : Config} (h : Free names kw) (hs : ∀ k ∈ names', k ∈ names) : Free names' kw :=
  fun k hk => h k (hs k hk)

/-! ### the plan of `save` -/

/-- the names `QRCode.save` and `writers.save` bind themselves -/
def saveReserved : List String := ["self", "out", "kind", "matrix", "matrix_size"]

theorem savePlan_refused (out : OutArg) (kind : Option Str) (kw : Config) (h : ¬ Free saveReserved kw) :
    savePlan out kind kw = .error .typeError := by
  unfold savePlan
  by_cases h1 : kw.any (fun e => ["self", "out", "kind"].contains e.1) = true
  · rw [refuseNames_err _ _ h1]; rfl
  · have h1' : kw.any (fun e => ["self", "out", "kind"].contains e.1) = false := by simpa using h1
    rw [(refuseNames_ok_iff _ _).2 h1']
    by_cases h2 : kw.any (fun e => ["matrix", "matrix_size"].contains e.1) = true
    · rw [refuseNames_err _ _ h2]; rfl
    · exfalso
      apply h
      have h2' : kw.any (fun e => ["matrix", "matrix_size"].contains e.1) = false := by simpa using h2
      have f1 := free_of_any_names_false _ _ h1'
      have f2 := free_of_any_names_false _ _ h2'
      intro k hk
      simp only [saveReserved, List.mem_cons, List.not_mem_nil, or_false] at hk
      rcases hk with rfl | rfl | rfl | rfl | rfl
      · exact f1 _ (by simp)
      · exact f1 _ (by simp)
      · exact f1 _ (by simp)
      · exact f2 _ (by simp)
      · exact f2 _ (by simp)

/-- the plan of `save` once the reserved names are out of the way: dispatch, then plain or gzip -/
def planOfKey (out : OutArg) (kw : Config) (key : String × Bool) : Plan :=
  if key.2 then
    { key := key.1, kw := cpop kw "compresslevel", target := .gzipOf ((cget kw "compresslevel").getD (.int 9)) out.sink, post := .nothing }
  else { key := key.1, kw := kw, target := .out out.sink, post := .nothing }

/-- the dispatch of `save` for the forms of `out` / `kind` -/
def dispatchOf (out : OutArg) (kind : Option Str) : R (String × Bool) :=
  match kind, out with
  | some _, _ => dispatch validKeys [] false kind
  | none, .path n => dispatch validKeys n false none
  | none, .stream _ (some n) => dispatch validKeys n true none
  | none, .stream _ none => throw .typeError

theorem savePlan_free (out : OutArg) (kind : Option Str) (kw : Config) (h : Free saveReserved kw) :
    savePlan out kind kw = (dispatchOf out kind).map (planOfKey out kw) := by
  unfold savePlan
  rw [refuseNames_free _ _ (free_mono h (by simp [saveReserved])), refuseNames_free _ _ (free_mono h (by simp [saveReserved]))]
  simp only [bind, Except.bind]
  unfold dispatchOf planOfKey
  cases kind with
  | some k =>
    simp only
    cases dispatch validKeys [] false (some k) with
    | error e => rfl
    | ok key => cases hk : key.2 <;> simp [Except.map, pure, Except.pure, hk]
  | none =>
    cases out with
    | path n =>
      simp only
      cases dispatch validKeys n false none with
      | error e => rfl
      | ok key => cases hk : key.2 <;> simp [Except.map, pure, Except.pure, hk]
    | stream b nm =>
      cases nm with
      | none => rfl
      | some n =>
        simp only
        cases dispatch validKeys n true none with
        | error e => rfl
        | ok key => cases hk : key.2 <;> simp [Except.map, pure, Except.pure, hk]

/-! ### targets -/

theorem writable_bin (env : Env) (so : SerOut) : writable env .bin so = (writableBin env so).map .bytes := by
  cases so <;> rfl

theorem writable_file_of_bin (env : Env) (so : SerOut) (b : List Nat) (h : writableBin env so = .ok b) :
    writable env .file so = .ok (.bytes b) := by
  cases so with
  | bytes x => simp only [writableBin, pure, Except.pure, Except.ok.injEq] at h; subst h; rfl
  | text s enc =>
    cases enc with
    | none => simp [writableBin, throw, throwThe, MonadExceptOf.throw] at h
    | some e =>
      simp only [writableBin] at h
      simp only [writable, h, bind, Except.bind, pure, Except.pure]

/-! ### `save` after the dispatch -/

/-- `writers.save` once the serialiser is chosen: gzip member of the SVG bytes, or the plain call -/
def saveCore (env : Env) (sink : Sink) (kw : Config) (key : String × Bool) : R Result :=
  if key.2 then do
    env.gzipCheck ((cget kw "compresslevel").getD (.int 9))
    if sink == .txt then throw PyErr.typeError else pure ()
    let so ← env.ser key.1 (cpop kw "compresslevel")
    let b ← writableBin env so
    pure (.written (.bytes (env.gzip ((cget kw "compresslevel").getD (.int 9)) b)))
  else do
    let so ← env.ser key.1 kw
    let w ← writable env sink so
    pure (.written w)

theorem execute_planOfKey (env : Env) (out : OutArg) (kw : Config) (key : String × Bool) :
    execute env (planOfKey out kw key) = saveCore env out.sink kw key := by
  unfold planOfKey saveCore execute
  cases hk : key.2
  · simp only [Bool.false_eq_true, if_false, openTarget, runTarget, pure, Except.pure, bind, Except.bind]
  · simp only [if_true, openTarget, runTarget, pure, Except.pure, bind, Except.bind]
    cases env.gzipCheck ((cget kw "compresslevel").getD (.int 9)) with
    | error e => rfl
    | ok u =>
      simp only
      cases hs : (out.sink == Sink.txt)
      · simp only [Bool.false_eq_true, if_false]
        cases env.ser key.1 (cpop kw "compresslevel") with
        | error e => rfl
        | ok so =>
          simp only
          cases hw : writableBin env so <;> simp [hw]
      · simp only [if_true]
        rfl

theorem save_free (env : Env) (out : OutArg) (kind : Option Str) (kw : Config) (h : Free saveReserved kw) :
    save env out kind kw = (dispatchOf out kind) >>= saveCore env out.sink kw := by
  unfold save
  rw [savePlan_free _ _ _ h]
  cases dispatchOf out kind with
  | error e => rfl
  | ok key => simp only [Except.map, bind, Except.bind]; exact execute_planOfKey env out kw key

theorem save_refused (env : Env) (out : OutArg) (kind : Option Str) (kw : Config) (h : ¬ Free saveReserved kw) :
    save env out kind kw = .error .typeError := by
  unfold save
  rw [savePlan_refused _ _ _ h]
  rfl

theorem saveCore_bin_file (env : Env) (kw : Config) (key : String × Bool) (b : List Nat)
    (h : saveCore env .bin kw key = .ok (.written (.bytes b))) : saveCore env .file kw key = .ok (.written (.bytes b)) := by
  unfold saveCore at h ⊢
  cases hk : key.2
  · simp only [hk, Bool.false_eq_true, if_false, bind, Except.bind] at h ⊢
    cases hs : env.ser key.1 kw with
    | error e => rw [hs] at h; exact absurd h (by simp)
    | ok so =>
      rw [hs] at h
      simp only at h ⊢
      rw [writable_bin] at h
      cases hw : writableBin env so with
      | error e => rw [hw] at h; exact absurd h (by simp [Except.map])
      | ok x =>
        rw [hw] at h
        simp only [Except.map, pure, Except.pure, Except.ok.injEq, Result.written.injEq, Written.bytes.injEq] at h
        subst h
        rw [writable_file_of_bin env so x hw]
        rfl
  · simp only [hk, if_true] at h ⊢
    exact h

theorem saveCore_txt_file (env : Env) (kw : Config) (key : String × Bool) (s : List Char)
    (h : saveCore env .txt kw key = .ok (.written (.chars s))) :
    saveCore env .file kw key = (env.codec env.defaultEnc s).map (fun b => .written (.bytes b)) := by
  unfold saveCore at h ⊢
  cases hk : key.2
  · simp only [hk, Bool.false_eq_true, if_false, bind, Except.bind] at h ⊢
    cases hs : env.ser key.1 kw with
    | error e => rw [hs] at h; exact absurd h (by simp)
    | ok so =>
      rw [hs] at h
      simp only at h ⊢
      cases so with
      | bytes x => simp [writable, throw, throwThe, MonadExceptOf.throw] at h
      | text t enc =>
        cases enc with
        | some e =>
          simp only [writable, bind, Except.bind] at h
          cases hc : env.codec e t with
          | error x => rw [hc] at h; exact absurd h (by simp)
          | ok x => rw [hc] at h; exact absurd h (by simp [throw, throwThe, MonadExceptOf.throw])
        | none =>
          simp only [writable, pure, Except.pure, Except.ok.injEq, Result.written.injEq, Written.chars.injEq] at h
          subst h
          simp only [writable, bind, Except.bind]
          cases env.codec env.defaultEnc t <;> rfl
  · simp only [hk, if_true, bind, Except.bind] at h
    cases hg : env.gzipCheck ((cget kw "compresslevel").getD (.int 9)) with
    | error e => rw [hg] at h; exact absurd h (by simp)
    | ok u =>
      rw [hg] at h
      simp [throw, throwThe, MonadExceptOf.throw] at h

theorem saveCore_file_cases (env : Env) (kw : Config) (key : String × Bool) (b : List Nat)
    (h : saveCore env .file kw key = .ok (.written (.bytes b))) :
    saveCore env .bin kw key = .ok (.written (.bytes b))
    ∨ ∃ s, saveCore env .txt kw key = .ok (.written (.chars s)) ∧ env.codec env.defaultEnc s = .ok b := by
  unfold saveCore at h ⊢
  cases hk : key.2
  · simp only [hk, Bool.false_eq_true, if_false, bind, Except.bind] at h ⊢
    cases hs : env.ser key.1 kw with
    | error e => rw [hs] at h; exact absurd h (by simp)
    | ok so =>
      rw [hs] at h
      simp only at h ⊢
      cases so with
      | bytes x =>
        left
        simp only [writable, writableBin, pure, Except.pure, bind, Except.bind] at h ⊢
        exact h
      | text t enc =>
        cases enc with
        | some e =>
          left
          simp only [writable, writableBin, pure, Except.pure, bind, Except.bind] at h ⊢
          exact h
        | none =>
          right
          refine ⟨t, rfl, ?_⟩
          simp only [writable, bind, Except.bind] at h
          cases hc : env.codec env.defaultEnc t with
          | error e => rw [hc] at h; exact absurd h (by simp)
          | ok x =>
            rw [hc] at h
            simp only [pure, Except.pure, Except.ok.injEq, Result.written.injEq, Written.bytes.injEq] at h
            rw [h]
  · left
    simp only [hk, if_true] at h ⊢
    exact h

/-! ### sequences -/

theorem seqSaveGo_length (m : Nat) (out : OutArg) (kind : Option Str) (kw : Config) :
    ∀ (envs : List Env) (n : Nat) (l : List (OutArg × Result)), seqSaveGo m out kind kw n envs = .ok l → l.length = envs.length
  | [], _, l, h => by
    simp only [seqSaveGo, pure, Except.pure, Except.ok.injEq] at h
    subst h; rfl
  | env :: rest, n, l, h => by
    simp only [seqSaveGo, bind, Except.bind] at h
    cases hr : save env (seqOut out m n) kind kw with
    | error e => rw [hr] at h; exact absurd h (by simp)
    | ok r =>
      rw [hr] at h
      simp only at h
      cases hm : seqSaveGo m out kind kw (n + 1) rest with
      | error e => rw [hm] at h; exact absurd h (by simp)
      | ok more =>
        rw [hm] at h
        simp only [pure, Except.pure, Except.ok.injEq] at h
        subst h
        simp [seqSaveGo_length m out kind kw rest (n + 1) more hm]

theorem seqSaveGo_get (m : Nat) (out : OutArg) (kind : Option Str) (kw : Config) :
    ∀ (envs : List Env) (n : Nat) (l : List (OutArg × Result)), seqSaveGo m out kind kw n envs = .ok l →
      ∀ (i : Nat) (env : Env), envs[i]? = some env →
        ∃ r, save env (seqOut out m (n + i)) kind kw = .ok r ∧ l[i]? = some (seqOut out m (n + i), r)
  | [], _, _, _, i, env, hi => by simp at hi
  | e :: rest, n, l, h, i, env, hi => by
    simp only [seqSaveGo, bind, Except.bind] at h
    cases hr : save e (seqOut out m n) kind kw with
    | error x => rw [hr] at h; exact absurd h (by simp)
    | ok r =>
      rw [hr] at h
      simp only at h
      cases hm : seqSaveGo m out kind kw (n + 1) rest with
      | error x => rw [hm] at h; exact absurd h (by simp)
      | ok more =>
        rw [hm] at h
        simp only [pure, Except.pure, Except.ok.injEq] at h
        subst h
        cases i with
        | zero =>
          simp only [List.getElem?_cons_zero, Option.some.injEq] at hi
          subst hi
          exact ⟨r, by simpa using hr, by simp⟩
        | succ j =>
          simp only [List.getElem?_cons_succ] at hi
          obtain ⟨r', h1, h2⟩ := seqSaveGo_get m out kind kw rest (n + 1) more hm j env hi
          refine ⟨r', ?_, ?_⟩
          · have : n + 1 + j = n + (j + 1) := by omega
            rw [← this]; exact h1
          · have : n + 1 + j = n + (j + 1) := by omega
            rw [← this]; simpa using h2

end Proofs.Routes
