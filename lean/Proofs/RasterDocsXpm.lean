/-
  Proofs.RasterDocsXpm — the list-level XPM reader (`Spec.L.readXpm`, Spec/RasterL.lean) applied to the whole text the
  model of `write_xpm` writes (`Model.RasterDocs.xpmDoc`): the reader returns the `Spec.grid` picture in the two
  configured colours (`None` = transparent).  Mathlib-free.
-/
import Proofs.RasterDocsBase
import Proofs.RasterDocsTok
import Proofs.RasterDocsNetpbm
import Proofs.RasterDocsColour

namespace Proofs.RasterDocs

open Model Model.RasterDocs Spec Spec.L Proofs.Raster

/-- what an XPM picture shows for a colour argument: the opaque RGB value `color_to_rgb_hex` prints, or
    nothing (alpha 0) for `None` -/
def XpmShows (c : ColorArg) (x : RGBA) : Prop :=
  match c with
  | .none => x.a = 0
  | c => ∃ r g b, colorToRgb c = .ok [r, g, b] ∧ x = ⟨r, g, b, 255⟩

/-! ### pieces between separators -/

theorem splitChars_go (sep : Char → Bool) (p : List Char) (hp : ∀ c ∈ p, sep c = false) (r : List Char) :
    ∀ cur, splitChars sep (p ++ r) cur = splitChars sep r (p.reverse ++ cur) := by
  induction p with
  | nil => intro cur; rfl
  | cons c p ih =>
    intro cur
    have hc : sep c = false := hp c (by simp)
    rw [List.cons_append, splitChars, hc]
    simp only [Bool.false_eq_true, if_false]
    rw [ih (fun x hx => hp x (by simp [hx]))]
    simp

/-- a non-empty piece up to its separator -/
theorem splitChars_piece (sep : Char → Bool) (p : List Char) (hne : p ≠ []) (hp : ∀ c ∈ p, sep c = false) (t : Char) (ht : sep t = true)
    (r : List Char) : splitChars sep (p ++ t :: r) [] = p :: splitChars sep r [] := by
  rw [splitChars_go sep p hp, splitChars, ht]
  simp [hne]

/-- the last piece -/
theorem splitChars_last (sep : Char → Bool) (p : List Char) (hne : p ≠ []) (hp : ∀ c ∈ p, sep c = false) : splitChars sep p [] = [p] := by
  have h := splitChars_go sep p hp [] []
  rw [List.append_nil] at h
  rw [h, splitChars]
  simp [hne]

/-- a separator before a piece -/
theorem splitChars_sep (sep : Char → Bool) (t : Char) (ht : sep t = true) (r : List Char) : splitChars sep (t :: r) [] = splitChars sep r [] := by
  rw [splitChars, ht]; rfl

/-! ### the values line -/

theorem charsNat_dec (n : Nat) : charsNat? (dec n) = some n := by
  unfold charsNat?
  have h1 : (dec n).isEmpty = false := by
    cases h : dec n with
    | nil => exact absurd h (dec_ne n)
    | cons d ds => rfl
  have h2 : (dec n).all Char.isDigit = true := List.all_eq_true.2 (dec_digits n)
  simp [h1, h2, decVal_dec]

theorem digit_not_space (c : Char) (hc : c.isDigit = true) : (c == ' ') = false := by
  have := digit_ne c ' ' hc (by decide)
  simp [this]

/-- `W H 2 1`: the four numbers of the values line -/
theorem values_line (W H : Nat) :
    (splitChars (fun c => c == ' ') (dec W ++ ' ' :: (dec H ++ [' ', '2', ' ', '1'])) []).map charsNat? = [some W, some H, some 2, some 1] := by
  rw [splitChars_piece _ (dec W) (dec_ne W) (fun c hc => digit_not_space c (dec_digits W c hc)) ' ' rfl,
    splitChars_piece _ (dec H) (dec_ne H) (fun c hc => digit_not_space c (dec_digits H c hc)) ' ' rfl]
  have : splitChars (fun c => c == ' ') ['2', ' ', '1'] [] = [['2'], ['1']] := by rfl
  rw [this]
  simp only [List.map_cons, List.map_nil, charsNat_dec]
  rfl

/-! ### the colour lines -/

theorem css3_no_hash : ∀ e ∈ css3, e.1.toList.head? ≠ some '#' := by decide +kernel

theorem hexChar_facts : ∀ a, a < 16 → hexChar a ≠ ' ' ∧ hexChar a ≠ '\t' ∧ hexChar a ≠ '"' ∧ hexChar a ≠ '\\' ∧
    (if 'A' ≤ hexChar a && hexChar a ≤ 'Z' then Char.ofNat ((hexChar a).toNat + 32) else hexChar a) = hexChar a := by decide +kernel

/-- the colour strings `write_xpm` prints: `None`, or `#` and six lower-case hexadecimal digits -/
theorem xpmColour_model (c : ColorArg) (s : List Char) (h : Model.RasterDocs.xpmColour c = .ok s) :
    (c = .none ∧ s = ['N', 'o', 'n', 'e'])
    ∨ (∃ r g b, r ≤ 255 ∧ g ≤ 255 ∧ b ≤ 255 ∧ XpmShows c ⟨r, g, b, 255⟩
        ∧ s = ['#', hexChar (r / 16 % 16), hexChar (r % 16), hexChar (g / 16 % 16), hexChar (g % 16), hexChar (b / 16 % 16), hexChar (b % 16)]) := by
  have key : ∀ c : ColorArg, (∀ x : RGBA, XpmShows c x ↔ ∃ r g b, colorToRgb c = .ok [r, g, b] ∧ x = ⟨r, g, b, 255⟩) →
      Model.RasterDocs.xpmColour c = (do let rgb ← colorToRgb c; pure ('#' :: rgb.flatMap hex2)) →
      Model.RasterDocs.xpmColour c = .ok s → ∃ r g b, r ≤ 255 ∧ g ≤ 255 ∧ b ≤ 255 ∧ XpmShows c ⟨r, g, b, 255⟩
        ∧ s = ['#', hexChar (r / 16 % 16), hexChar (r % 16), hexChar (g / 16 % 16), hexChar (g % 16), hexChar (b / 16 % 16), hexChar (b % 16)] := by
    intro c hshow heq h
    rw [heq] at h
    simp only [bind, Except.bind, pure, Except.pure] at h
    cases hc : colorToRgb c with
    | error e => rw [hc] at h; cases h
    | ok l =>
      rw [hc] at h
      obtain ⟨r, g, b, rfl, hr, hg, hb⟩ := colorToRgb_ok c l hc
      simp only [Except.ok.injEq] at h
      refine ⟨r, g, b, hr, hg, hb, (hshow _).2 ⟨r, g, b, hc, rfl⟩, ?_⟩
      rw [← h]; rfl
  cases c with
  | none =>
    left
    refine ⟨rfl, ?_⟩
    have : Model.RasterDocs.xpmColour .none = .ok ['N', 'o', 'n', 'e'] := rfl
    rw [this] at h
    simp only [Except.ok.injEq] at h
    exact h.symm
  | str t => exact Or.inr (key _ (fun _ => Iff.rfl) rfl h)
  | ints l => exact Or.inr (key _ (fun _ => Iff.rfl) rfl h)
  | floatAlpha r g b k => exact Or.inr (key _ (fun _ => Iff.rfl) rfl h)

theorem lowerChars_cons (c : Char) (s : List Char) :
    lowerChars (c :: s) = (if 'A' ≤ c && c ≤ 'Z' then Char.ofNat (c.toNat + 32) else c) :: lowerChars s := rfl

/-- the reader's view of a colour line `#rrggbb` -/
theorem xpmColour_hex (r g b : Nat) (hr : r ≤ 255) (hg : g ≤ 255) (hb : b ≤ 255) :
    Spec.L.xpmColour (' ' :: 'c' :: ' ' :: ['#', hexChar (r / 16 % 16), hexChar (r % 16), hexChar (g / 16 % 16), hexChar (g % 16),
        hexChar (b / 16 % 16), hexChar (b % 16)]) = .ok (some ⟨r, g, b, 255⟩) := by
  have f1 := hexChar_facts (r / 16 % 16) (Nat.mod_lt _ (by decide))
  have f2 := hexChar_facts (r % 16) (Nat.mod_lt _ (by decide))
  have f3 := hexChar_facts (g / 16 % 16) (Nat.mod_lt _ (by decide))
  have f4 := hexChar_facts (g % 16) (Nat.mod_lt _ (by decide))
  have f5 := hexChar_facts (b / 16 % 16) (Nat.mod_lt _ (by decide))
  have f6 := hexChar_facts (b % 16) (Nat.mod_lt _ (by decide))
  have d1 := hexDigit_hexChar (r / 16 % 16) (Nat.mod_lt _ (by decide))
  have d2 := hexDigit_hexChar (r % 16) (Nat.mod_lt _ (by decide))
  have d3 := hexDigit_hexChar (g / 16 % 16) (Nat.mod_lt _ (by decide))
  have d4 := hexDigit_hexChar (g % 16) (Nat.mod_lt _ (by decide))
  have d5 := hexDigit_hexChar (b / 16 % 16) (Nat.mod_lt _ (by decide))
  have d6 := hexDigit_hexChar (b % 16) (Nat.mod_lt _ (by decide))
  have er : r / 16 % 16 * 16 + r % 16 = r := by omega
  have eg : g / 16 % 16 * 16 + g % 16 = g := by omega
  have eb : b / 16 % 16 * 16 + b % 16 = b := by omega
  generalize hexChar (r / 16 % 16) = c1 at *
  generalize hexChar (r % 16) = c2 at *
  generalize hexChar (g / 16 % 16) = c3 at *
  generalize hexChar (g % 16) = c4 at *
  generalize hexChar (b / 16 % 16) = c5 at *
  generalize hexChar (b % 16) = c6 at *
  have hsep : ∀ c ∈ ['#', c1, c2, c3, c4, c5, c6], (c == ' ' || c == '\t') = false := by
    intro c hc
    simp only [List.mem_cons, List.not_mem_nil, or_false] at hc
    rcases hc with rfl | rfl | rfl | rfl | rfl | rfl | rfl
    · decide
    · simp [f1.1, f1.2.1]
    · simp [f2.1, f2.2.1]
    · simp [f3.1, f3.2.1]
    · simp [f4.1, f4.2.1]
    · simp [f5.1, f5.2.1]
    · simp [f6.1, f6.2.1]
  have hsplit : splitChars (fun c => c == ' ' || c == '\t') (' ' :: 'c' :: ' ' :: ['#', c1, c2, c3, c4, c5, c6]) [] = [['c'], ['#', c1, c2, c3, c4, c5, c6]] := by
    rw [splitChars_sep _ ' ' rfl]
    rw [show ('c' :: ' ' :: ['#', c1, c2, c3, c4, c5, c6]) = ['c'] ++ ' ' :: ['#', c1, c2, c3, c4, c5, c6] from rfl]
    rw [splitChars_piece _ ['c'] (by simp) (by decide) ' ' rfl, splitChars_last _ _ (by simp) hsep]
  have hlow : lowerChars ['#', c1, c2, c3, c4, c5, c6] = ['#', c1, c2, c3, c4, c5, c6] := by
    simp only [lowerChars_cons, f1.2.2.2.2, f2.2.2.2.2, f3.2.2.2.2, f4.2.2.2.2, f5.2.2.2.2, f6.2.2.2.2]
    rfl
  have hcss : css3.find? (fun e => e.1.toList == lowerChars ['#', c1, c2, c3, c4, c5, c6]) = none := by
    rw [List.find?_eq_none]
    intro e he
    have := css3_no_hash e he
    rw [hlow]
    intro heq
    simp only [beq_iff_eq] at heq
    rw [heq] at this
    exact this rfl
  have hhex : L.parseHexColour ['#', c1, c2, c3, c4, c5, c6] = some ⟨r, g, b, 255⟩ := by
    unfold L.parseHexColour
    simp only [List.mapM_cons, List.mapM_nil, d1, d2, d3, d4, d5, d6, bind, Option.bind, pure, er, eg, eb]
  unfold Spec.L.xpmColour
  rw [hsplit]
  have hfind : findC [['c'], ['#', c1, c2, c3, c4, c5, c6]] = some ['#', c1, c2, c3, c4, c5, c6] := by simp [findC]
  rw [hfind]
  simp only [hlow]
  have hnone : (['#', c1, c2, c3, c4, c5, c6] == "none".toList) = false := by
    rw [show "none".toList = ['n', 'o', 'n', 'e'] from rfl]
    rfl
  rw [hnone]
  unfold parseColourChars
  rw [hcss]
  simp only [hhex]
  rfl

/-- what the reader makes of the colour line the model writes for a colour argument -/
theorem xpmColour_read (c : ColorArg) (s : List Char) (h : Model.RasterDocs.xpmColour c = .ok s) :
    ∃ px, XpmShows c px ∧ Spec.L.xpmColour (' ' :: 'c' :: ' ' :: s) = .ok (some px) ∧ ∀ ch ∈ s, ch ≠ '"' ∧ ch ≠ '\\' := by
  rcases xpmColour_model c s h with ⟨rfl, rfl⟩ | ⟨r, g, b, hr, hg, hb, hshow, rfl⟩
  · exact ⟨⟨0, 0, 0, 0⟩, rfl, rfl, by decide⟩
  · refine ⟨⟨r, g, b, 255⟩, hshow, xpmColour_hex r g b hr hg hb, ?_⟩
    have f1 := hexChar_facts (r / 16 % 16) (Nat.mod_lt _ (by decide))
    have f2 := hexChar_facts (r % 16) (Nat.mod_lt _ (by decide))
    have f3 := hexChar_facts (g / 16 % 16) (Nat.mod_lt _ (by decide))
    have f4 := hexChar_facts (g % 16) (Nat.mod_lt _ (by decide))
    have f5 := hexChar_facts (b / 16 % 16) (Nat.mod_lt _ (by decide))
    have f6 := hexChar_facts (b % 16) (Nat.mod_lt _ (by decide))
    intro ch hch
    simp only [List.mem_cons, List.not_mem_nil, or_false] at hch
    rcases hch with rfl | rfl | rfl | rfl | rfl | rfl | rfl
    · decide
    · exact ⟨f1.2.2.1, f1.2.2.2.1⟩
    · exact ⟨f2.2.2.1, f2.2.2.2.1⟩
    · exact ⟨f3.2.2.1, f3.2.2.2.1⟩
    · exact ⟨f4.2.2.1, f4.2.2.2.1⟩
    · exact ⟨f5.2.2.1, f5.2.2.2.1⟩
    · exact ⟨f6.2.2.1, f6.2.2.2.1⟩

/-! ### the text of the document -/

/-- one string literal of the array: `"…",\n` (the last one without the comma) -/
def lit (s : List Char) (last : Bool) : List Char := '"' :: (s ++ (if last then ['"', '\n'] else ['"', ',', '\n']))

/-- the character of a pixel -/
def pixChar (v : Nat) : Char := if v == 0 then ' ' else 'X'

theorem xpmRow_eq (row : List Nat) (last : Bool) : xpmRow row last = lit (row.map pixChar) last := rfl

theorem withLast_cons {α β : Type} (f : α → Bool → β) (a : α) (l : List α) (hl : l ≠ []) : withLast f (a :: l) = f a false :: withLast f l := by
  cases l with
  | nil => exact absurd rfl hl
  | cons x xs => rfl

theorem withLast_xpmRow : ∀ rows : List (List Nat), withLast xpmRow rows = withLast lit (rows.map (fun r => r.map pixChar))
  | [] => rfl
  | [_] => rfl
  | r :: x :: xs => by
    have ih := withLast_xpmRow (x :: xs)
    show xpmRow r false :: withLast xpmRow (x :: xs) = lit (r.map pixChar) false :: withLast lit ((x :: xs).map (fun r => r.map pixChar))
    rw [ih]; rfl

theorem lit_xpm1 : "/* XPM */\n".toList = "/* XPM */".toList ++ ['\n'] := rfl
theorem lit_xpm2 : "static char *".toList = "static".toList ++ ' ' :: ("char".toList ++ [' ', '*']) := rfl
theorem lit_xpm3 : "[] = {\n".toList = ['[', ']', ' ', '=', ' ', '{', '\n'] := rfl
theorem lit_xpm4 : " 2 1\",\n".toList = [' ', '2', ' ', '1', '"', ',', '\n'] := rfl
theorem lit_xpm5 : "\"  c ".toList = ['"', ' ', ' ', 'c', ' '] := rfl
theorem lit_xpm6 : "\",\n".toList = ['"', ',', '\n'] := rfl
theorem lit_xpm7 : "\"X c ".toList = ['"', 'X', ' ', 'c', ' '] := rfl

theorem xpmHeader_eq (name : List Char) (W H : Nat) (bg stroke : List Char) (rest : List Char) :
    xpmHeader name W H bg stroke ++ rest =
      "/* XPM */".toList ++ '\n' :: ("static".toList ++ ' ' :: ("char".toList ++ ' ' :: '*' :: (name ++ '[' :: ']' :: ' ' :: '=' :: ' ' :: '{' :: '\n' ::
        (lit (dec W ++ ' ' :: (dec H ++ [' ', '2', ' ', '1'])) false ++ (lit (' ' :: ' ' :: 'c' :: ' ' :: bg) false
          ++ (lit ('X' :: ' ' :: 'c' :: ' ' :: stroke) false ++ rest)))))) := by
  unfold xpmHeader lit
  simp only [lit_xpm1, lit_xpm2, lit_xpm3, lit_xpm4, lit_xpm5, lit_xpm6, lit_xpm7, List.append_assoc, List.cons_append, List.nil_append,
    Bool.false_eq_true, if_false]

/-- the whole text as a declaration around comma-separated string literals -/
theorem xpmText_eq (name : List Char) (W H : Nat) (bg stroke : List Char) (rows : List (List Nat)) (hrows : rows ≠ []) :
    xpmHeader name W H bg stroke ++ (withLast xpmRow rows).flatten ++ "};\n".toList =
      "/* XPM */".toList ++ '\n' :: ("static".toList ++ ' ' :: ("char".toList ++ ' ' :: '*' :: (name ++ '[' :: ']' :: ' ' :: '=' :: ' ' :: '{' :: '\n' ::
        ((withLast lit ((dec W ++ ' ' :: (dec H ++ [' ', '2', ' ', '1'])) :: (' ' :: ' ' :: 'c' :: ' ' :: bg) :: ('X' :: ' ' :: 'c' :: ' ' :: stroke)
            :: rows.map (fun r => r.map pixChar))).flatten ++ '}' :: [';', '\n'])))) := by
  have hne : rows.map (fun r => r.map pixChar) ≠ [] := by simpa using hrows
  rw [List.append_assoc, xpmHeader_eq, withLast_xpmRow, withLast_cons _ _ _ (by simp), withLast_cons _ _ _ (by simp), withLast_cons _ _ _ hne]
  simp only [List.flatten_cons, List.append_assoc]
  rfl

/-! ### its tokens -/

/-- string literals separated by commas -/
def commaStrs : List (List Char) → List Tok
  | [] => []
  | [s] => [.str s]
  | s :: rest => .str s :: .punct ',' :: commaStrs rest

theorem commaStrs_cons (s t : List Char) (rest : List (List Char)) :
    commaStrs (s :: t :: rest) = .str s :: .punct ',' :: commaStrs (t :: rest) := rfl

theorem run_ident0 (name : List Char) (hname : IsCIdent name) (t : Char) (r : List Char) (ht : isIdentChar t = false) :
    run .idle (name ++ t :: r) = .ident name :: run .idle (t :: r) := by
  have := run_ident name hname [] (by simp) t r ht
  simpa using this

theorem run_lits (r : List Char) : ∀ ss : List (List Char), ss ≠ [] → (∀ s ∈ ss, ∀ c ∈ s, c ≠ '"' ∧ c ≠ '\\') →
    run .idle ((withLast lit ss).flatten ++ '}' :: r) = commaStrs ss ++ run .idle ('}' :: r)
  | [], h, _ => absurd rfl h
  | [s], _, hs => by
    have e : (withLast lit [s]).flatten ++ '}' :: r = '"' :: (s ++ '"' :: '\n' :: '}' :: r) := by
      simp [withLast, lit]
    rw [e, run_str s _ (hs s (by simp)), run_ws '\n' _ (by simp)]
    rfl
  | s :: t :: rest, _, hs => by
    have ih := run_lits r (t :: rest) (by simp) (fun x hx => hs x (by simp [hx]))
    have e : (withLast lit (s :: t :: rest)).flatten ++ '}' :: r
        = '"' :: (s ++ '"' :: ',' :: '\n' :: ((withLast lit (t :: rest)).flatten ++ '}' :: r)) := by
      rw [withLast_cons _ _ _ (by simp)]
      simp [lit]
    rw [e, run_str s _ (hs s (by simp)), run_punct ',' _ rfl, run_ws '\n' _ (by simp), ih, commaStrs_cons]
    rfl

theorem commaStrs_mem : ∀ (ss : List (List Char)) (t : Tok), t ∈ commaStrs ss → (∃ s, t = .str s) ∨ t = .punct ','
  | [], t, h => by cases h
  | [s], t, h => by
    simp only [commaStrs, List.mem_singleton] at h
    exact Or.inl ⟨s, h⟩
  | s :: x :: rest, t, h => by
    rw [commaStrs_cons] at h
    simp only [List.mem_cons] at h
    rcases h with h | h | h
    · exact Or.inl ⟨s, h⟩
    · exact Or.inr h
    · exact commaStrs_mem (x :: rest) t h

theorem xpmStrings_comma : ∀ ss : List (List Char), ss ≠ [] → xpmStrings (commaStrs ss ++ [.punct '}', .punct ';']) = .ok ss
  | [], h => absurd rfl h
  | [s], _ => by
    show xpmStrings [.str s, .punct '}', .punct ';'] = .ok [s]
    simp [xpmStrings]
  | s :: t :: rest, _ => by
    have ih := xpmStrings_comma (t :: rest) (by simp)
    rw [commaStrs_cons]
    show xpmStrings (.str s :: .punct ',' :: (commaStrs (t :: rest) ++ [.punct '}', .punct ';'])) = _
    rw [xpmStrings]
    simp only [beq_self_eq_true, if_true, ih]

/-- the tokens of the text -/
def xpmToks (name : List Char) (ss : List (List Char)) : List Tok :=
  .comment " XPM ".toList :: .ident "static".toList :: .ident "char".toList :: .punct '*' :: .ident name
    :: .punct '[' :: .punct ']' :: .punct '=' :: .punct '{' :: (commaStrs ss ++ [.punct '}', .punct ';'])

theorem cTokens_xpm (name : List Char) (hname : IsCIdent name) (ss : List (List Char)) (hne : ss ≠ [])
    (hss : ∀ s ∈ ss, ∀ c ∈ s, c ≠ '"' ∧ c ≠ '\\') :
    L.cTokens ("/* XPM */".toList ++ '\n' :: ("static".toList ++ ' ' :: ("char".toList ++ ' ' :: '*' :: (name ++ '[' :: ']' :: ' ' :: '=' :: ' ' :: '{' :: '\n' ::
        ((withLast lit ss).flatten ++ '}' :: [';', '\n'])))))
      = xpmToks name ss := by
  have hstatic : IsCIdent "static".toList := ⟨'s', ['t', 'a', 't', 'i', 'c'], rfl, by decide, by decide⟩
  have hchar : IsCIdent "char".toList := ⟨'c', ['h', 'a', 'r'], rfl, by decide, by decide⟩
  unfold L.cTokens xpmToks
  rw [run_xpm_comment, run_ws '\n' _ (by simp), run_ident0 _ hstatic ' ' _ (by decide), run_ws ' ' _ (by simp),
    run_ident0 _ hchar ' ' _ (by decide), run_ws ' ' _ (by simp), run_punct '*' _ rfl, run_ident0 name hname '[' _ (by decide),
    run_punct '[' _ rfl, run_punct ']' _ rfl, run_ws ' ' _ (by simp), run_punct '=' _ rfl, run_ws ' ' _ (by simp), run_punct '{' _ rfl,
    run_ws '\n' _ (by simp), run_lits _ ss hne hss, run_punct '}' _ rfl, run_punct ';' _ rfl, run_ws '\n' _ (by simp)]
  rfl

theorem xpmToks_not_bad (name : List Char) (ss : List (List Char)) : (xpmToks name ss).any Tok.isBad = false := by
  rw [List.any_eq_false]
  intro t ht
  unfold xpmToks at ht
  simp only [List.mem_cons, List.mem_append, List.not_mem_nil, or_false] at ht
  rcases ht with rfl | rfl | rfl | rfl | rfl | rfl | rfl | rfl | rfl | h | rfl | rfl <;> try (simp [Tok.isBad])
  rcases commaStrs_mem ss t h with ⟨s, rfl⟩ | rfl <;> rfl

theorem commaStrs_filter (ss : List (List Char)) (tl : List Tok) (htl : ∀ t ∈ tl, t.isComment = false) :
    (commaStrs ss ++ tl).filter (fun t => !t.isComment) = commaStrs ss ++ tl := by
  rw [List.filter_eq_self]
  intro t ht
  rcases List.mem_append.1 ht with h | h
  · rcases commaStrs_mem ss t h with ⟨s, rfl⟩ | rfl <;> rfl
  · simp [htl t h]

theorem xpmRest_filter (name : List Char) (ss : List (List Char)) :
    (Tok.ident "static".toList :: .ident "char".toList :: .punct '*' :: .ident name
      :: .punct '[' :: .punct ']' :: .punct '=' :: .punct '{' :: (commaStrs ss ++ [.punct '}', .punct ';'])).filter (fun t => !t.isComment)
    = .ident "static".toList :: .ident "char".toList :: .punct '*' :: .ident name
      :: .punct '[' :: .punct ']' :: .punct '=' :: .punct '{' :: (commaStrs ss ++ [.punct '}', .punct ';']) := by
  rw [List.filter_eq_self]
  intro t ht
  simp only [List.mem_cons, List.mem_append, List.not_mem_nil, or_false] at ht
  rcases ht with rfl | rfl | rfl | rfl | rfl | rfl | rfl | rfl | h | rfl | rfl <;> try rfl
  rcases commaStrs_mem ss t h with ⟨s, rfl⟩ | rfl <;> rfl

theorem xpmDecl_ok (name : List Char) (rest : List Tok) :
    xpmDecl name (.ident "static".toList :: .ident "char".toList :: .punct '*' :: .ident name
      :: .punct '[' :: .punct ']' :: .punct '=' :: .punct '{' :: rest) = .ok rest := by
  unfold xpmDecl
  simp

theorem pixChar_ok (v : Nat) : pixChar v ≠ '"' ∧ pixChar v ≠ '\\' := by
  unfold pixChar
  split <;> decide

/-! ### colour table and pixel rows -/

theorem chunks_one {α : Type} : ∀ l : List α, L.chunks 1 l.length l = l.map (fun c => [c])
  | [] => rfl
  | c :: l => by
    simp only [List.length_cons, L.chunks, List.map_cons]
    rw [show (c :: l).drop 1 = l from rfl, chunks_one l]
    rfl

theorem xpmRowPixels_row (lPx dPx : RGBA) : ∀ row : List Nat,
    xpmRowPixels [([' '], some lPx), (['X'], some dPx)] (row.map (fun v => [pixChar v]))
      = .ok (row.map (fun v => some (if v ≠ 0 then dPx else lPx)))
  | [] => rfl
  | v :: row => by
    rw [List.map_cons, xpmRowPixels, xpmRowPixels_row lPx dPx row]
    by_cases hv : v = 0
    · subst hv; rfl
    · have hp : pixChar v = 'X' := by simp [pixChar, hv]
      rw [hp]
      simp [hv]

theorem xpmRows_rows (lPx dPx : RGBA) (W : Nat) : ∀ rows : List (List Nat), (∀ r ∈ rows, r.length = W) →
    xpmRows [([' '], some lPx), (['X'], some dPx)] W 1 (rows.map (fun r => r.map pixChar))
      = .ok (rows.map (fun row => row.map (fun v => some (if v ≠ 0 then dPx else lPx))))
  | [], _ => rfl
  | r :: rows, h => by
    have hr : r.length = W := h r (by simp)
    have ih := xpmRows_rows lPx dPx W rows (fun x hx => h x (by simp [hx]))
    subst hr
    rw [List.map_cons, xpmRows]
    have hlen : ((r.map pixChar).length != r.length * 1) = false := by simp
    have hch : L.chunks 1 r.length (r.map pixChar) = r.map (fun v => [pixChar v]) := by
      have := chunks_one (r.map pixChar)
      rw [List.length_map] at this
      rw [this, List.map_map]; rfl
    rw [hlen, hch, xpmRowPixels_row, ih]
    rfl

/-- the two colour lines -/
theorem xpmTable_two (bg stroke : List Char) (lPx dPx : RGBA)
    (hbg : Spec.L.xpmColour (' ' :: 'c' :: ' ' :: bg) = .ok (some lPx)) (hst : Spec.L.xpmColour (' ' :: 'c' :: ' ' :: stroke) = .ok (some dPx)) :
    xpmTable 1 [' ' :: ' ' :: 'c' :: ' ' :: bg, 'X' :: ' ' :: 'c' :: ' ' :: stroke] [] = .ok [([' '], some lPx), (['X'], some dPx)] := by
  simp [xpmTable, hbg, hst]

/-! ### the document -/

theorem xpmDoc_eq {w h : Nat} {scale : Num} {border : Option Num} {b : Nat} (a : Admitted w h scale border b)
    (M : List (List Nat)) (hM : WellFormed M w h) (dark light : Option ColorArg) (name : List Char) (doc : List Char)
    (hdoc : xpmDoc M w h scale border dark light name = .ok doc) :
    ∃ stroke bg, Model.RasterDocs.xpmColour (dark.getD (.str "#000")) = .ok stroke ∧ Model.RasterDocs.xpmColour (light.getD (.str "#fff")) = .ok bg
      ∧ doc = xpmHeader name ((w + 2 * b) * scale.toInt.toNat) ((h + 2 * b) * scale.toInt.toNat) bg stroke
                ++ (withLast xpmRow (grid M w h scale.toInt.toNat b)).flatten ++ "};\n".toList := by
  unfold xpmDoc at hdoc
  simp only [validSB_ok a, matrixIter_ok a M hM, a.okRange, bind, Except.bind, pure, Except.pure] at hdoc
  cases hs : Model.RasterDocs.xpmColour (dark.getD (.str "#000")) with
  | error e => rw [hs] at hdoc; cases hdoc
  | ok stroke =>
    cases hb : Model.RasterDocs.xpmColour (light.getD (.str "#fff")) with
    | error e => rw [hs, hb] at hdoc; cases hdoc
    | ok bg =>
      rw [hs, hb] at hdoc
      simp only [Except.ok.injEq] at hdoc
      exact ⟨stroke, bg, rfl, rfl, hdoc.symm⟩

/-- XPM: whenever the model of `write_xpm` succeeds, the reader returns the `Spec.grid` picture in the two
    configured colours (`None` = transparent), for every C identifier as `name` -/
theorem xpm_doc {w h : Nat} {scale : Num} {border : Option Num} {b : Nat} (a : Admitted w h scale border b)
    (M : List (List Nat)) (hM : WellFormed M w h) (hw : 0 < w) (hh : 0 < h)
    (dark light : Option ColorArg) (name : List Char) (hname : IsCIdent name) (doc : List Char)
    (hdoc : xpmDoc M w h scale border dark light name = .ok doc) :
    ∃ dPx lPx, XpmShows (dark.getD (.str "#000")) dPx ∧ XpmShows (light.getD (.str "#fff")) lPx
      ∧ L.readXpm doc name = .ok { w := (w + 2 * b) * scale.toInt.toNat, h := (h + 2 * b) * scale.toInt.toNat,
                                   px := (grid M w h scale.toInt.toNat b).map (fun row => row.map (fun v => some (if v ≠ 0 then dPx else lPx))) } := by
  obtain ⟨stroke, bg, hstroke, hbg, rfl⟩ := xpmDoc_eq a M hM dark light name doc hdoc
  have hs := a.pos
  generalize scale.toInt.toNat = s at hs
  obtain ⟨dPx, hdShow, hdRead, hdChars⟩ := xpmColour_read _ stroke hstroke
  obtain ⟨lPx, hlShow, hlRead, hlChars⟩ := xpmColour_read _ bg hbg
  refine ⟨dPx, lPx, hdShow, hlShow, ?_⟩
  have hW : 0 < (w + 2 * b) * s := Nat.mul_pos (by omega) hs
  have hH : 0 < (h + 2 * b) * s := Nat.mul_pos (by omega) hs
  generalize hWd : (w + 2 * b) * s = W at hW
  generalize hHd : (h + 2 * b) * s = H at hH
  have hglen : (grid M w h s b).length = H := by rw [grid_length, hHd]
  have hgrow : ∀ r ∈ grid M w h s b, r.length = W := by intro r hr; rw [grid_row_length M w h s b r hr, hWd]
  generalize grid M w h s b = rows at hglen hgrow
  have hrows : rows ≠ [] := by
    intro h0; rw [h0] at hglen; simp at hglen; omega
  rw [xpmText_eq name W H bg stroke rows hrows]
  have hchars : ∀ s ∈ (dec W ++ ' ' :: (dec H ++ [' ', '2', ' ', '1'])) :: (' ' :: ' ' :: 'c' :: ' ' :: bg) :: ('X' :: ' ' :: 'c' :: ' ' :: stroke)
      :: rows.map (fun r => r.map pixChar), ∀ c ∈ s, c ≠ '"' ∧ c ≠ '\\' := by
    intro t ht c hc
    simp only [List.mem_cons, List.mem_map] at ht
    rcases ht with rfl | rfl | rfl | ⟨r, _, rfl⟩
    · simp only [List.mem_append, List.mem_cons, List.not_mem_nil, or_false] at hc
      rcases hc with hc | rfl | hc | rfl | rfl | rfl | rfl
      · exact ⟨digit_ne c '"' (dec_digits W c hc) (by decide), digit_ne c '\\' (dec_digits W c hc) (by decide)⟩
      · decide
      · exact ⟨digit_ne c '"' (dec_digits H c hc) (by decide), digit_ne c '\\' (dec_digits H c hc) (by decide)⟩
      all_goals decide
    · simp only [List.mem_cons] at hc
      rcases hc with rfl | rfl | rfl | rfl | hc
      · decide
      · decide
      · decide
      · decide
      · exact hlChars c hc
    · simp only [List.mem_cons] at hc
      rcases hc with rfl | rfl | rfl | rfl | hc
      · decide
      · decide
      · decide
      · decide
      · exact hdChars c hc
    · simp only [List.mem_map] at hc
      obtain ⟨v, _, rfl⟩ := hc
      exact pixChar_ok v
  have htoks := cTokens_xpm name hname _ (by simp) hchars
  unfold L.readXpm
  simp only [htoks, xpmToks_not_bad]
  unfold xpmToks
  simp only [xpmRest_filter, xpmDecl_ok]
  have htrim : (trimWs " XPM ".toList != "XPM".toList) = false := by rfl
  rw [xpmStrings_comma _ (by simp)]
  have hW0 : (W == 0) = false := by simp; omega
  have hH0 : (H == 0) = false := by simp; omega
  have hcount : (((' ' :: ' ' :: 'c' :: ' ' :: bg) :: ('X' :: ' ' :: 'c' :: ' ' :: stroke) :: rows.map (fun r => r.map pixChar)).length != 2 + H) = false := by
    simp [hglen]; omega
  simp only [Bool.false_eq_true, if_false, htrim, values_line, hW0, hH0, hcount]
  have hz : (false || false || 2 == 0 || 1 == 0) = false := by decide
  rw [hz]
  simp only [Bool.false_eq_true, if_false, List.take_succ_cons, List.take_zero, List.drop_succ_cons, List.drop_zero,
    xpmTable_two bg stroke lPx dPx hlRead hdRead, xpmRows_rows lPx dPx W rows hgrow]

end Proofs.RasterDocs
