/-
  Proofs.TieA2Final — `make_final_message(version, error, buff)` and its nested function `to_binary` (translated,
  Gen/Funcs2.lean) against `Model.makeFinalMessage` / `Model.appendBits`, for EVERY version number, every error level
  (or `None`) and every 0/1 stream.

  Stage 1: `to_binary(val, length)` = `appendBits` (most significant bit first).
  Stage 2: `chain(*map(to_binary, (x for x in chain.from_iterable(zip_longest(*blocks)) if x is not None)))` is the
           model's `interleave` followed by `appendBits · 8`.
  Stage 3: `consts.ECC[version][error]` (nested dicts) against `Model.eccInfo` (flat table) inside and outside the
           tables; every EC information of the table has num_blocks ≥ 1 and num_data ≤ num_total.
  Stage 4: the statements after `make_blocks`: M1 / M3 pop the last codeword of the first data block (`IndexError`
           without one), interleaving, remainder bits.
  Stage 5: the whole function (`make_blocks_eq` of Proofs.TieA2Blocks for the blocks).
-/
import Gen.Funcs2
import Proofs.TieA2
import Proofs.TieA2Blocks
import Proofs.TieA2Capacity
import Proofs.TieA2Matrix
import Proofs.TieA2Stream
import Model.Encoder

set_option linter.unusedVariables false

namespace Proofs.TieA2
open Gen.Py Proofs.TieA Model

/-! ### `to_binary` -/

theorem fm_bit (x k : Nat) : band (Int.fdiv (x : Int) (2 ^ ((k : Int)).toNat)) 1 = (((x >>> k) % 2 : Nat) : Int) := by
  have h := shr_nat x k
  unfold shr at h
  rw [if_neg (by omega)] at h
  injection h with h
  rw [h, band_one]

theorem fm_reverse_range (n : Nat) : (List.range n).reverse = (List.range n).map (fun k => n - 1 - k) := by
  conv => lhs; rw [List.range_eq_range', List.reverse_range']
  apply List.map_congr_left
  intro k _
  omega

theorem to_binary_eq (x len : Nat) : Gen.Funcs2.to_binary (x : Int) (len : Int) = toI (Model.appendBits x len) := by
  unfold Gen.Funcs2.to_binary Model.appendBits
  rw [range_zero_nat, ← List.map_reverse, fm_reverse_range]
  simp only [toI, List.map_map]
  apply List.map_congr_left
  intro k _
  simp only [Function.comp]
  exact fm_bit x (len - 1 - k)

/-! ### interleaving -/

/-- the pipeline `chain(*map(to_binary, (x for x in chain.from_iterable(zip_longest(*blocks)) if x is not None)))` -/
def ilvI (B : List (List Int)) : List Int :=
  ((((zipLongest B).flatten).filterMap id).map (fun (x : Int) => Gen.Funcs2.to_binary x (8 : Int))).flatten

theorem fm_zip_interleave (B : List (List Nat)) :
    ((zipLongest (B.map toI)).flatten).filterMap id = toI (Model.interleave B) := by
  unfold zipLongest Model.interleave
  rw [List.filterMap_flatten]
  simp only [toI, List.map_map, List.map_flatten]
  have hlen : (List.length ∘ toI) = List.length := by
    funext l; simp
  rw [hlen]
  congr 1
  apply List.map_congr_left
  intro r _
  simp only [Function.comp, List.filterMap_map, List.map_filterMap]
  apply List.filterMap_congr
  intro b _
  simp [toI]

theorem fm_ilv (B : List (List Nat)) :
    ilvI (B.map toI) = toI ((Model.interleave B).map (fun x => Model.appendBits x 8)).flatten := by
  unfold ilvI
  rw [fm_zip_interleave]
  simp only [toI, List.map_map, List.map_flatten]
  congr 1
  apply List.map_congr_left
  intro x _
  exact to_binary_eq x 8


/-! ### the ECC table -/

/-- `consts.ECC[v][e]` of the translated code -/
def eccLookup (v : Int) (e : Option Int) : M (List (Int × Int × Int)) :=
  Gen.Py.bind (lookup Gen.Funcs2.T_consts_ECC_intkeys v) (fun d => lookup d e)

theorem ecc_inside : ∀ v ∈ versions44, ∀ e ∈ levels5,
    eccLookup v (e.map Int.ofNat) = ofOption .keyError ((Model.eccInfo v e).map ecI) := by
  decide +kernel

theorem ecc_outer_keys : ∀ p ∈ Gen.Funcs2.T_consts_ECC_intkeys, (-3 ≤ p.1 ∧ p.1 ≤ 40) := by decide +kernel

theorem ecc_inner_keys : ∀ p ∈ Gen.Funcs2.T_consts_ECC_intkeys, ∀ kv ∈ p.2,
    kv.1 = none ∨ kv.1 = some 0 ∨ kv.1 = some 1 ∨ kv.1 = some 2 ∨ kv.1 = some 3 := by decide +kernel

theorem gen_ecc_keys : ∀ x ∈ Gen.ECC, (-3 ≤ x.1 ∧ x.1 ≤ 40) ∧ (-1 ≤ x.2.1 ∧ x.2.1 ≤ 3) := by decide +kernel

/-- every EC information of the table: at least one block, not more data codewords than codewords -/
theorem gen_ecc_facts : ∀ x ∈ Gen.ECC, ∀ y ∈ x.2.2, 1 ≤ y.1 ∧ y.2.2 ≤ y.2.1 := by decide +kernel

theorem model_ecc_none (v : Int) (e : Option Nat)
    (h : ¬ (-3 ≤ v ∧ v ≤ 40) ∨ (∃ n, e = some n ∧ 4 ≤ n)) : Model.eccInfo v e = none := by
  unfold Model.eccInfo Model.lookup2
  have : Gen.ECC.find? (fun x => x.1 == v && x.2.1 == Model.lvlKey e) = none := by
    rw [List.find?_eq_none]
    intro x hx
    have hk := gen_ecc_keys x hx
    rcases h with h | ⟨n, rfl, hn⟩
    · have : ¬ (x.1 = v) := by omega
      simp [this]
    · have : ¬ (x.2.1 = (n : Int)) := by omega
      simp [Model.lvlKey, this]
  rw [this]; rfl

theorem model_ecc_facts (v : Int) (e : Option Nat) (ecs : List (Nat × Nat × Nat)) (h : Model.eccInfo v e = some ecs) :
    ∀ y ∈ ecs, 1 ≤ y.1 ∧ y.2.2 ≤ y.2.1 := by
  unfold Model.eccInfo Model.lookup2 at h
  cases hf : Gen.ECC.find? (fun x => x.1 == v && x.2.1 == Model.lvlKey e) with
  | none => rw [hf] at h; cases h
  | some x =>
    rw [hf] at h
    simp only [Option.map_some, Option.some.injEq] at h
    rw [← h]
    exact gen_ecc_facts x (List.mem_of_find?_eq_some hf)

/-- `consts.ECC[version][error]` for every version number and every error level / `None` -/
theorem ecc_lookup (v : Int) (e : Option Nat) :
    eccLookup v (e.map Int.ofNat) = ofOption .keyError ((Model.eccInfo v e).map ecI) := by
  by_cases hv : -3 ≤ v ∧ v ≤ 40
  · by_cases he : e ∈ levels5
    · refine ecc_inside v ?_ e he
      simp only [versions44, List.mem_map, List.mem_range]
      exact ⟨(v + 3).toNat, by omega, by omega⟩
    · have hn : ∃ n, e = some n ∧ 4 ≤ n := by
        cases e with
        | none => exact absurd (by simp [levels5]) he
        | some n =>
          refine ⟨n, rfl, ?_⟩
          by_cases hlt : 4 ≤ n
          · exact hlt
          · exfalso
            have : n = 0 ∨ n = 1 ∨ n = 2 ∨ n = 3 := by omega
            rcases this with h | h | h | h <;> subst h <;> simp [levels5] at he
      rw [model_ecc_none v e (Or.inr hn)]
      obtain ⟨n, rfl, hn4⟩ := hn
      unfold eccLookup
      cases hl : lookup Gen.Funcs2.T_consts_ECC_intkeys v with
      | error ex =>
        unfold lookup at hl
        cases hf : List.find? (fun kv => kv.1 == v) Gen.Funcs2.T_consts_ECC_intkeys with
        | none => rw [hf] at hl; cases hl; rfl
        | some kv => rw [hf] at hl; cases hl
      | ok d =>
        obtain ⟨p, hp, rfl⟩ := lookup_mem _ _ _ hl
        simp only [bind_ok, Option.map_some, Option.map_none, ofOption_none]
        apply lookup_absent
        intro kv hkv
        have := ecc_inner_keys p hp kv hkv
        rcases this with h | h | h | h | h <;> rw [h] <;> simp <;> omega
  · rw [model_ecc_none v e (Or.inl hv)]
    unfold eccLookup
    rw [lookup_absent]
    · rfl
    · intro p hp
      have := ecc_outer_keys p hp
      simp; omega


/-! ### the statements after `make_blocks` -/

/-- the `if` / `elif` chain for the remainder bits as the translation has it -/
def remI (version : Int) : Int :=
  if ((version == (2 : Int)) || (version == (3 : Int)) || (version == (4 : Int)) || (version == (5 : Int)) || (version == (6 : Int))) then
    (7 : Int)
  else if ((version == (14 : Int)) || (version == (15 : Int)) || (version == (16 : Int)) || (version == (17 : Int)) || (version == (18 : Int)) || (version == (19 : Int)) || (version == (20 : Int)) || (version == (28 : Int)) || (version == (29 : Int)) || (version == (30 : Int)) || (version == (31 : Int)) || (version == (32 : Int)) || (version == (33 : Int)) || (version == (34 : Int))) then
    (3 : Int)
  else if ((version == (21 : Int)) || (version == (22 : Int)) || (version == (23 : Int)) || (version == (24 : Int)) || (version == (25 : Int)) || (version == (26 : Int)) || (version == (27 : Int))) then
    (4 : Int)
  else (0 : Int)

theorem remI_eq (v : Int) : remI v = Gen.remainder_bits v := rfl

/-- `make_final_message` after `make_blocks` (translated code) -/
def mfmRest (version : Int) (t3 : List (List Int) × List (List Int)) : M (List Int) :=
  if ((version == (-3 : Int)) || (version == (-1 : Int))) then
    Gen.Py.bind (index t3.1 (0 : Int)) (fun t4 =>
      Gen.Py.bind (popAt t4 (-1 : Int)) (fun t5 =>
        Gen.Py.bind (setItem t3.1 (0 : Int) t5.2) (fun t6 =>
          .ok ((((([] : List Int) ++ ilvI t6) ++ Gen.Funcs2.to_binary (t5.1 / (16 : Int)) (4 : Int)) ++ ilvI t3.2)
            ++ Gen.Py.repeat [(0 : Int)] (remI version)))))
  else
    .ok (((([] : List Int) ++ ilvI t3.1) ++ ilvI t3.2) ++ Gen.Py.repeat [(0 : Int)] (remI version))

theorem mfm_unfold (v : Int) (e : Option Int) (buff : List Int) :
    Gen.Funcs2.make_final_message v e buff =
      Gen.Py.bind (eccLookup v e) (fun t2 => Gen.Py.bind (Gen.Funcs2.make_blocks t2 buff) (mfmRest v)) := by
  unfold eccLookup
  rw [bind_assoc]
  rfl

/-- `make_final_message` after `make_blocks` (model) -/
def modelRest (v : Int) (D E : List (List Nat)) : R (List Nat) :=
  if isM1M3 v then
    match D with
    | b :: bs =>
      match b.getLast? with
      | some lastCw => .ok (((interleave (b.dropLast :: bs)).map (fun x => Model.appendBits x 8)).flatten ++ Model.appendBits (lastCw >>> 4) 4
          ++ ((interleave E).map (fun x => Model.appendBits x 8)).flatten ++ List.replicate (Gen.remainder_bits v).toNat 0)
      | none => .error .indexError
    | [] => .error .indexError
  else .ok (((interleave D).map (fun x => Model.appendBits x 8)).flatten ++ []
          ++ ((interleave E).map (fun x => Model.appendBits x 8)).flatten ++ List.replicate (Gen.remainder_bits v).toNat 0)

theorem mfm_model_unfold (v : Int) (e : Option Nat) (bits : List Nat) :
    Model.makeFinalMessage v e bits =
      match Model.eccInfo v e with
      | some ecs => (Model.makeBlocks ecs (Model.toInts (bits.length + 1) bits)) >>= (fun p => modelRest v p.1 p.2)
      | none => .error .keyError := by
  unfold Model.makeFinalMessage
  cases Model.eccInfo v e with
  | none => rfl
  | some ecs =>
    simp only []
    cases Model.makeBlocks ecs (Model.toInts (bits.length + 1) bits) with
    | error ex => rfl
    | ok p =>
      obtain ⟨D, E⟩ := p
      unfold modelRest
      by_cases hm : isM1M3 v = true
      · simp only [hm, if_true]
        cases D with
        | nil => rfl
        | cons b bs =>
          cases hb : b.getLast? with
          | none => rfl
          | some l => rfl
      · simp only [hm]
        rfl


theorem fm_repeat (r : Int) : Gen.Py.repeat [(0 : Int)] r = toI (List.replicate r.toNat 0) := by
  unfold Gen.Py.repeat
  rw [List.flatten_replicate_singleton, toI_replicate]
  rfl

theorem fm_popAt (b' : List Nat) (l : Nat) : popAt (toI (b' ++ [l])) (-1 : Int) = .ok ((l : Int), toI b') := by
  unfold popAt
  rw [show (-1 : Int) = -((1 : Nat) : Int) from rfl, normIndex_neg _ 1 (by omega) (by simp)]
  have hlen : (toI (b' ++ [l])).length - 1 = (toI b').length := by simp
  rw [hlen, toI_append]
  dsimp only
  rw [List.getElem?_append_right (Nat.le_refl _), List.eraseIdx_append_of_length_le (Nat.le_refl _)]
  simp

theorem fm_shift (l : Nat) : (l : Int) / (16 : Int) = ((l >>> 4 : Nat) : Int) := by
  rw [Nat.shiftRight_eq_div_pow]
  omega

theorem fm_to_binary4 (x : Nat) : Gen.Funcs2.to_binary (x : Int) (4 : Int) = toI (Model.appendBits x 4) := to_binary_eq x 4

theorem fm_rest_eq (v : Int) (D E : List (List Nat)) :
    toR (mfmRest v (D.map toI, E.map toI)) = (modelRest v D E).map toI := by
  unfold mfmRest modelRest
  rw [isM1M3_iff, remI_eq, fm_repeat, fm_ilv E]
  by_cases h : ((v == (-3 : Int)) || (v == (-1 : Int))) = true
  · rw [if_pos h, if_pos h]
    cases D with
    | nil => rfl
    | cons b bs =>
      have hidx : index (List.map toI (b :: bs)) (0 : Int) = .ok (toI b) := by
        rw [show (0 : Int) = ((0 : Nat) : Int) from rfl, index_eq_of_norm _ _ 0 (normIndex_nat _ 0 (by simp))]
        rfl
      simp only [hidx, bind_ok]
      rcases List.eq_nil_or_concat b with rfl | ⟨b', l, rfl⟩
      · rfl
      · simp only [List.concat_eq_append]
        rw [fm_popAt, bind_ok]
        simp only []
        rw [show (0 : Int) = ((0 : Nat) : Int) from rfl, setItem_eq_of_norm _ _ 0 _ (normIndex_nat _ 0 (by simp)), bind_ok]
        have hset : (List.map toI ((b' ++ [l]) :: bs)).set 0 (toI b') = List.map toI (b' :: bs) := rfl
        rw [hset, fm_ilv, fm_shift, fm_to_binary4]
        simp only [List.getLast?_append, List.getLast?_singleton, Option.some_or, List.dropLast_concat, toR_ok,
          Except.map, List.nil_append, toI_append]
  · rw [if_neg h, if_neg h, fm_ilv D]
    simp only [toR_ok, Except.map, List.nil_append, List.append_nil, toI_append]

/-- `make_final_message(version, error, buff)` for every version number, error level (or None) and bit stream:
    the same final message; `KeyError` (no ECC entry / no generator polynomial) and `IndexError` (M1 / M3 without a data
    codeword) in the same cases -/
theorem make_final_message_eq (v : Int) (e : Option Nat) (bits : List Nat) (hbits : ∀ b ∈ bits, b ≤ 1) :
    toR (Gen.Funcs2.make_final_message v (e.map Int.ofNat) (toI bits)) = (Model.makeFinalMessage v e bits).map toI := by
  rw [mfm_unfold, mfm_model_unfold, ecc_lookup]
  cases hE : Model.eccInfo v e with
  | none => rfl
  | some ecs =>
    simp only [Option.map_some, ofOption_some, bind_ok]
    have hmb := make_blocks_eq ecs bits hbits (model_ecc_facts v e ecs hE)
    cases hg : Gen.Funcs2.make_blocks (ecI ecs) (toI bits) with
    | error ex =>
      cases hm : Model.makeBlocks ecs (Model.toInts (bits.length + 1) bits) with
      | error er =>
        rw [hg, hm] at hmb
        simp only [toR_error, Except.map, Except.error.injEq] at hmb
        rw [bind_error, toR_error, hmb]
        rfl
      | ok p => rw [hg, hm] at hmb; simp [Except.map] at hmb
    | ok p' =>
      cases hm : Model.makeBlocks ecs (Model.toInts (bits.length + 1) bits) with
      | error er => rw [hg, hm] at hmb; simp [Except.map] at hmb
      | ok p =>
        rw [hg, hm] at hmb
        simp only [toR_ok, Except.map, Except.ok.injEq] at hmb
        rw [bind_ok, hmb]
        exact fm_rest_eq v p.1 p.2

end Proofs.TieA2
