/-
  Proofs.PngPalette — helper lemmas for `png_palette_sound` (Props/C09Png.lean): the palette / tRNS
  assembly of `Model.buildPalette` read back with the reference reader's colour semantics.
-/
import Proofs.PngDefs

namespace Proofs.Png

open Model Spec

/-! ### PLTE bytes read back -/

def comp (c : PColor) : Nat × Nat × Nat :=
  match c with
  | .transparent => (0, 0, 0)
  | .rgb r g b => (r, g, b)
  | .rgba r g b _ => (r, g, b)

theorem rgb3_eq (c : PColor) : c.rgb3 = [(comp c).1, (comp c).2.1, (comp c).2.2] := by
  cases c <;> rfl

theorem length_flatMap_rgb3 (l : List PColor) : (l.flatMap PColor.rgb3).length = 3 * l.length := by
  induction l with
  | nil => rfl
  | cons c l ih => simp [List.flatMap_cons, ih, rgb3_eq]; omega

theorem getD_flatMap_rgb3 (l : List PColor) (k i : Nat) (hi : i < 3) (hk : k < l.length) :
    (l.flatMap PColor.rgb3).getD (3 * k + i) 0 = (l[k].rgb3).getD i 0 := by
  induction l generalizing k with
  | nil => simp at hk
  | cons c l ih =>
    rw [List.flatMap_cons]
    cases k with
    | zero =>
      have : i < c.rgb3.length := by rw [rgb3_eq]; simpa using hi
      simp [List.getD_eq_getElem?_getD, List.getElem?_append_left this]
    | succ k =>
      have h3 : c.rgb3.length = 3 := by rw [rgb3_eq]; rfl
      have : c.rgb3.length ≤ 3 * (k + 1) + i := by omega
      simp only [List.getD_eq_getElem?_getD, List.getElem?_append_right this, h3]
      have e : 3 * (k + 1) + i - 3 = 3 * k + i := by omega
      rw [e]
      have := ih k (by simpa using hk)
      simpa [List.getD_eq_getElem?_getD] using this

/-- entry `k` of the palette the reader builds from the PLTE bytes of palette `l` -/
theorem plteOfBytes_getElem? (l : List PColor) (trns : List Nat) (k : Nat) :
    (plteOfBytes (l.flatMap PColor.rgb3) trns)[k]? =
      l[k]?.map (fun c => (⟨(comp c).1, (comp c).2.1, (comp c).2.2, trns.getD k 255⟩ : RGBA)) := by
  unfold plteOfBytes
  rw [length_flatMap_rgb3]
  have hdiv : 3 * l.length / 3 = l.length := by omega
  rw [hdiv]
  by_cases hk : k < l.length
  · simp only [List.getElem?_map, List.getElem?_zipIdx, List.getElem?_range hk, Option.map_some, Nat.zero_add,
      List.getElem?_eq_getElem hk]
    have h0 := getD_flatMap_rgb3 l k 0 (by omega) hk
    have h1 := getD_flatMap_rgb3 l k 1 (by omega) hk
    have h2 := getD_flatMap_rgb3 l k 2 (by omega) hk
    simp only [Nat.add_zero] at h0
    rw [h0, h1, h2, rgb3_eq]
    rfl
  · have : l.length ≤ k := Nat.le_of_not_lt hk
    simp [this]

/-- what the reference reader makes of code `k` in an indexed-colour image -/
theorem readColour_indexed (d : Nat) (plte trns : List Nat) (k : Nat) :
    readColour d 3 plte trns k = (plteOfBytes plte trns)[k]? := by
  simp [readColour, specPng, Png.img]

/-- … and in a greyscale image of bit depth 1 -/
theorem readColour_grey1 (trns : List Nat) (k : Nat) :
    readColour 1 0 [] trns k =
      some ⟨k * 255, k * 255, k * 255,
        if (if trns.length == 2 then some (trns.getD 0 0 * 256 + trns.getD 1 0) else none) == some k then 0 else 255⟩ := by
  simp [readColour, specPng, Png.img]

/-! ### the sorted set of colours -/

theorem keyLe_trans (a b c : PColor) (h1 : keyLe a b = true) (h2 : keyLe b c = true) : keyLe a c = true := by
  cases a <;> cases b <;> cases c <;> simp [keyLe, PColor.key] at h1 h2 ⊢ <;> omega

theorem keyLe_total (a b : PColor) : (keyLe a b || keyLe b a) = true := by
  cases a <;> cases b <;> simp [keyLe, PColor.key] <;> omega

/-- nothing sorts before the placeholder but the placeholder -/
theorem keyLe_transparent (a : PColor) (h : keyLe a .transparent = true) : a = .transparent := by
  cases a <;> simp [keyLe, PColor.key] at h ⊢

theorem insertBy_perm {α : Type} (le : α → α → Bool) (a : α) (l : List α) : (insertBy le a l).Perm (a :: l) := by
  induction l with
  | nil => exact List.Perm.refl _
  | cons b l ih =>
    unfold insertBy
    split
    · exact List.Perm.refl _
    · exact (List.Perm.cons b ih).trans (List.Perm.swap a b l)

theorem sortBy_perm {α : Type} (le : α → α → Bool) (l : List α) : (sortBy le l).Perm l := by
  induction l with
  | nil => exact List.Perm.refl _
  | cons a l ih =>
    show (insertBy le a (sortBy le l)).Perm (a :: l)
    exact (insertBy_perm le a _).trans (List.Perm.cons a ih)

theorem insertBy_pairwise {α : Type} (le : α → α → Bool) (htrans : ∀ a b c, le a b = true → le b c = true → le a c = true)
    (htotal : ∀ a b, (le a b || le b a) = true) (a : α) (l : List α) (hl : l.Pairwise (fun x y => le x y = true)) :
    (insertBy le a l).Pairwise (fun x y => le x y = true) := by
  induction l with
  | nil => simp [insertBy]
  | cons b l ih =>
    unfold insertBy
    have hb := List.pairwise_cons.1 hl
    split
    · rename_i hab
      refine List.pairwise_cons.2 ⟨?_, hl⟩
      intro x hx
      rcases List.mem_cons.1 hx with rfl | hx
      · exact hab
      · exact htrans _ _ _ hab (hb.1 x hx)
    · rename_i hab
      have hba : le b a = true := by
        have := htotal a b
        cases h1 : le a b <;> simp_all
      refine List.pairwise_cons.2 ⟨?_, ih hb.2⟩
      intro x hx
      rcases List.mem_cons.1 ((insertBy_perm le a l).mem_iff.1 hx) with rfl | hx
      · exact hba
      · exact hb.1 x hx

theorem sortBy_pairwise {α : Type} (le : α → α → Bool) (htrans : ∀ a b c, le a b = true → le b c = true → le a c = true)
    (htotal : ∀ a b, (le a b || le b a) = true) (l : List α) : (sortBy le l).Pairwise (fun x y => le x y = true) := by
  induction l with
  | nil => exact List.Pairwise.nil
  | cons a l ih => exact insertBy_pairwise le htrans htotal a _ ih

/-- `palette0` of `buildPalette` -/
def palette0 (setOrder : List PColor → List PColor) (clrMap : List (Nat × PColor)) : List PColor :=
  sortBy keyLe (setOrder (clrMap.map (·.2)))

theorem mem_palette0 (setOrder : List PColor → List PColor) (hset : SetOrderOK setOrder) (clrMap : List (Nat × PColor)) (c : PColor) :
    c ∈ palette0 setOrder clrMap ↔ c ∈ clrMap.map (·.2) := by
  unfold palette0
  rw [(sortBy_perm _ _).mem_iff, (hset _).2]

theorem nodup_palette0 (setOrder : List PColor → List PColor) (hset : SetOrderOK setOrder) (clrMap : List (Nat × PColor)) :
    (palette0 setOrder clrMap).Nodup := by
  unfold palette0
  exact ((sortBy_perm _ _).nodup_iff).2 (hset _).1

theorem sorted_palette0 (setOrder : List PColor → List PColor) (clrMap : List (Nat × PColor)) :
    (palette0 setOrder clrMap).Pairwise (fun a b => keyLe a b = true) :=
  sortBy_pairwise keyLe keyLe_trans keyLe_total _

/-- the placeholder, if present, is the first entry of the sorted palette -/
theorem head_palette0 (setOrder : List PColor → List PColor) (clrMap : List (Nat × PColor))
    (h : PColor.transparent ∈ palette0 setOrder clrMap) :
    ∃ rest, palette0 setOrder clrMap = .transparent :: rest := by
  have hs := sorted_palette0 setOrder clrMap
  generalize palette0 setOrder clrMap = l at h hs
  cases l with
  | nil => simp at h
  | cons a rest =>
    refine ⟨rest, ?_⟩
    rcases List.mem_cons.1 h with h | h
    · rw [← h]
    · have := (List.pairwise_cons.1 hs).1 _ h
      rw [keyLe_transparent a this]

theorem cmGet_mem {α : Type} (cm : List (Nat × α)) (t : Nat) (c : α) (h : cmGet cm t = some c) : c ∈ cm.map (·.2) := by
  unfold cmGet at h
  cases hf : cm.find? (fun e => e.1 == t) with
  | none => simp [hf] at h
  | some e =>
    simp [hf] at h
    exact List.mem_map.2 ⟨e, List.mem_of_find?_eq_some hf, h⟩

theorem cmGet_map {α : Type} (cm : List (Nat × α)) (f : α → α) (t : Nat) :
    cmGet (cm.map (fun e => (e.1, f e.2))) t = (cmGet cm t).map f := by
  unfold cmGet
  induction cm with
  | nil => rfl
  | cons e cm ih =>
    simp only [List.map_cons, List.find?_cons]
    by_cases h : (e.1 == t) = true
    · simp [h]
    · simp only [h]; exact ih

theorem getElem?_idxOf_of_mem (l : List PColor) (c : PColor) (h : c ∈ l) : l[l.idxOf c]? = some c := by
  have hlt : l.idxOf c < l.length := List.idxOf_lt_length_iff.2 h
  rw [List.getElem?_eq_getElem hlt, List.getElem_idxOf hlt]

/-! ### tRNS against the palette -/

theorem shows_self (c : PColor) : Shows c ⟨(comp c).1, (comp c).2.1, (comp c).2.2, c.alpha⟩ := by
  cases c <;> simp [Shows, comp, PColor.alpha]

theorem alpha_of_not_rgba (c : PColor) (h : c.isRgba = false) : c.alpha = 255 := by
  cases c <;> simp [PColor.isRgba] at h ⊢ <;> rfl

/-- the alpha table of a palette whose RGBA entries `A` come first -/
theorem alpha_table (A B : List PColor) (hB : ∀ c ∈ B, c.isRgba = false) (k : Nat) (c : PColor)
    (hk : (A ++ B)[k]? = some c) : (A.map PColor.alpha).getD k 255 = c.alpha := by
  by_cases h : k < A.length
  · rw [List.getElem?_append_left h] at hk
    simp [List.getD_eq_getElem?_getD, hk]
  · have h' : A.length ≤ k := Nat.le_of_not_lt h
    rw [List.getElem?_append_right h'] at hk
    have hc : c ∈ B := List.mem_of_getElem? hk
    rw [alpha_of_not_rgba c (hB c hc)]
    simp [List.getD_eq_getElem?_getD, h']

/-- the tRNS rule of `write_png` for a palette without placeholder: alpha values of the leading RGBA entries -/
theorem trns_opaque (A B : List PColor) (hA : ∀ c ∈ A, c.isRgba = true) (hB : ∀ c ∈ B, c.isRgba = false) :
    (if (((A ++ B).head?.map PColor.isRgba).getD false) = true then ((A ++ B).filter PColor.isRgba).map PColor.alpha else [])
      = A.map PColor.alpha := by
  have hfB : B.filter PColor.isRgba = [] := by
    rw [List.filter_eq_nil_iff]; intro c hc; simp [hB c hc]
  have hfA : A.filter PColor.isRgba = A := by
    rw [List.filter_eq_self]; exact hA
  cases A with
  | nil =>
    cases B with
    | nil => simp
    | cons b B => simp [hB b (by simp)]
  | cons a A =>
    have : a.isRgba = true := hA a (by simp)
    simp only [List.cons_append, List.head?_cons, Option.map_some, Option.getD_some, this, if_true]
    rw [← List.cons_append, List.filter_append, hfA, hfB, List.append_nil]

theorem filter_isRgba_all (l : List PColor) : ∀ c ∈ l.filter (fun x => x.isRgba), c.isRgba = true := by
  intro c hc; exact (List.mem_filter.1 hc).2

theorem filter_not_isRgba_all (l : List PColor) : ∀ c ∈ l.filter (fun c => !c.isRgba), c.isRgba = false := by
  intro c hc; simpa using (List.mem_filter.1 hc).2

theorem mem_plteOrder (l : List PColor) (c : PColor) :
    c ∈ l.filter (fun x => x.isRgba) ++ l.filter (fun c => !c.isRgba) ↔ c ∈ l := by
  simp only [List.mem_append, List.mem_filter]
  constructor
  · rintro (h | h) <;> exact h.1
  · intro h; by_cases hr : c.isRgba = true
    · exact Or.inl ⟨h, hr⟩
    · exact Or.inr ⟨h, by simpa using hr⟩

/-- what the reader shows at the index of colour `c` -/
def showsAt (p : PaletteInfo) (k : Nat) (c : PColor) : Prop :=
  ∃ x, readColour p.depth (if p.isGrey then 0 else 3) (plteBytes p) (trnsBytes p) k = some x ∧ Shows c x

theorem shows_indexed (P : List PColor) (trns : List Nat) (d k : Nat) (c c' : PColor) (hk : P[k]? = some c')
    (ha : Shows c ⟨(comp c').1, (comp c').2.1, (comp c').2.2, trns.getD k 255⟩) :
    ∃ x, readColour d 3 (P.flatMap PColor.rgb3) trns k = some x ∧ Shows c x := by
  rw [readColour_indexed, plteOfBytes_getElem?, hk]
  exact ⟨_, rfl, ha⟩

/-- indexed colour, no "transparent" in the map: tRNS = the alpha values of the leading RGBA entries -/
theorem trns_plte_opaque (P0 : List PColor) (clrMap : List (Nat × PColor)) (n d : Nat) :
    let p : PaletteInfo := { palette := P0.filter (fun x => x.isRgba) ++ P0.filter (fun c => !c.isRgba), clrMap := clrMap, n := n,
                             isGrey := false, isTransparent := false, depth := d, transIdx := 0 }
    trnsBytes p = (P0.filter (fun x => x.isRgba)).map PColor.alpha := by
  intro p
  have := trns_opaque _ _ (filter_isRgba_all P0) (filter_not_isRgba_all P0)
  simp only [trnsBytes, p, Bool.not_false, if_true, Bool.false_eq_true, if_false]
  exact this

/-- indexed colour, no "transparent" in the map -/
theorem sound_plte_opaque (P0 : List PColor) (clrMap : List (Nat × PColor)) (n d : Nat) (t : Nat) (c : PColor)
    (hc : cmGet clrMap t = some c) (hmem : c ∈ P0) :
    let p : PaletteInfo := { palette := P0.filter (fun x => x.isRgba) ++ P0.filter (fun c => !c.isRgba), clrMap := clrMap, n := n,
                             isGrey := false, isTransparent := false, depth := d, transIdx := 0 }
    showsAt p (typeIndex p t) c := by
  intro p
  have hin : c ∈ p.palette := (mem_plteOrder P0 c).2 hmem
  have hk := getElem?_idxOf_of_mem _ _ hin
  have hidx : typeIndex p t = p.palette.idxOf c := by simp [typeIndex, p, hc]
  have htr := trns_plte_opaque P0 clrMap n d
  have hpl : plteBytes p = p.palette.flatMap PColor.rgb3 := by simp [plteBytes, p]
  unfold showsAt
  rw [hidx, htr, hpl]
  apply shows_indexed _ _ _ _ c c hk
  rw [alpha_table _ _ (filter_not_isRgba_all P0) _ _ hk]
  exact shows_self c

/-- the stand-in colour: not a colour of the palette, not the placeholder, of the kind (RGB / RGBA)
    of the second palette entry (RGB if there is none), and fully transparent if RGBA -/
theorem standIn_spec (P1 : List PColor) (T : PColor) (h : standIn P1 = .ok T) :
    T ∉ P1 ∧ T ≠ .transparent ∧ T.alpha = (if T.isRgba then 0 else 255)
      ∧ (match P1[1]? with | some c => T.isRgba = c.isRgba | none => T.isRgba = false) := by
  unfold standIn at h
  cases hfind : (standInCandidates P1).find? (fun c => !P1.contains c) with
  | none => rw [hfind] at h; cases h
  | some c =>
    rw [hfind] at h
    cases h
    have hnot : T ∉ P1 := by
      have := List.find?_some hfind
      simpa using this
    have hin := List.mem_of_find?_eq_some hfind
    refine ⟨hnot, ?_⟩
    unfold standInCandidates at hin
    cases h1 : P1[1]? with
    | none =>
      simp only [h1] at hin
      obtain ⟨e, _, rfl⟩ := List.mem_map.1 hin
      exact ⟨by simp, rfl, rfl⟩
    | some c =>
      simp only [h1] at hin
      cases c with
      | rgb r g b =>
        obtain ⟨e, _, rfl⟩ := List.mem_map.1 hin
        exact ⟨by simp, rfl, rfl⟩
      | rgba r g b a =>
        obtain ⟨e, _, rfl⟩ := List.mem_map.1 hin
        exact ⟨by simp, rfl, rfl⟩
      | transparent =>
        obtain ⟨e, _, rfl⟩ := List.mem_map.1 hin
        exact ⟨by simp, rfl, rfl⟩

theorem cmGet_replace (cm : List (Nat × PColor)) (T : PColor) (t : Nat) :
    cmGet (cm.map (fun e => if (e.2 == PColor.transparent) = true then (e.1, T) else e)) t
      = (cmGet cm t).map (fun c => if c == PColor.transparent then T else c) := by
  rw [← cmGet_map]
  congr 1
  apply List.map_congr_left
  intro e _
  by_cases h : (e.2 == PColor.transparent) = true <;> simp [h]

/-- indexed colour with "transparent" in the map: shape of palette and tRNS.  The placeholder is the
    first palette entry and is replaced by the stand-in colour -/
theorem plte_transparent_shape (rest0 : List PColor) (clrMap : List (Nat × PColor)) (n d : Nat) (T : PColor)
    (hT : standIn ((PColor.transparent :: rest0).filter (fun x => x.isRgba) ++ (PColor.transparent :: rest0).filter (fun c => !c.isRgba)) = .ok T) :
    let P1 := (PColor.transparent :: rest0).filter (fun x => x.isRgba) ++ (PColor.transparent :: rest0).filter (fun c => !c.isRgba)
    let p : PaletteInfo := { palette := P1.set 0 T,
                             clrMap := clrMap.map (fun e => if (e.2 == PColor.transparent) = true then (e.1, T) else e), n := n,
                             isGrey := false, isTransparent := true, depth := d, transIdx := 0 }
    T ∉ P1 ∧ P1 = PColor.transparent :: (rest0.filter (fun x => x.isRgba) ++ rest0.filter (fun c => !c.isRgba))
      ∧ p.palette = T :: (rest0.filter (fun x => x.isRgba) ++ rest0.filter (fun c => !c.isRgba))
      ∧ trnsBytes p = 0 :: (rest0.filter (fun x => x.isRgba)).map PColor.alpha := by
  intro P1 p
  obtain ⟨hnot, hTne, hTalpha, hkind⟩ := standIn_spec _ _ hT
  let A' := rest0.filter (fun x => x.isRgba)
  let B := rest0.filter (fun c => !c.isRgba)
  have hP1 : P1 = PColor.transparent :: (A' ++ B) := by
    simp [P1, A', B, PColor.isRgba]
  have hpal : p.palette = T :: (A' ++ B) := by
    show P1.set 0 T = _
    rw [hP1]; rfl
  have hB : ∀ c ∈ B, c.isRgba = false := filter_not_isRgba_all rest0
  have hA : ∀ c ∈ A', c.isRgba = true := filter_isRgba_all rest0
  have hA'nil : T.isRgba = false → A' = [] := by
    intro hf
    cases hA'e : A' with
    | nil => rfl
    | cons a A'' =>
      have h1 : (PColor.transparent :: rest0).filter (fun x => x.isRgba) ++ (PColor.transparent :: rest0).filter (fun c => !c.isRgba)
          = PColor.transparent :: (a :: A'' ++ B) := by
        have := hP1; rw [hA'e] at this; exact this
      rw [h1] at hkind
      simp only [List.getElem?_cons_succ, List.cons_append, List.getElem?_cons_zero] at hkind
      have : a.isRgba = true := hA a (by rw [hA'e]; simp)
      rw [this, hf] at hkind
      cases hkind
  have htr : trnsBytes p = 0 :: A'.map PColor.alpha := by
    simp only [trnsBytes, p, Bool.not_false, if_true]
    show (if ((P1.set 0 T).head?.map PColor.isRgba).getD false = true then _ else _) = _
    rw [show P1.set 0 T = T :: (A' ++ B) from hpal]
    simp only [List.head?_cons, Option.map_some, Option.getD_some]
    by_cases hTr : T.isRgba = true
    · simp only [hTr, if_true]
      have hfB : B.filter PColor.isRgba = [] := by
        rw [List.filter_eq_nil_iff]; intro c hc; simp [hB c hc]
      have hfA : A'.filter PColor.isRgba = A' := by
        rw [List.filter_eq_self]; exact hA
      rw [List.filter_cons, hTr]
      simp only [if_true, List.map_cons, List.filter_append, hfA, hfB, List.append_nil]
      rw [hTalpha, hTr]; rfl
    · have hTr' : T.isRgba = false := by simpa using hTr
      simp only [hTr', Bool.false_eq_true, if_false]
      rw [hA'nil hTr']; rfl
  exact ⟨hnot, hP1, hpal, htr⟩

/-- … and every module type shows its colour -/
theorem sound_plte_transparent (rest0 : List PColor) (clrMap : List (Nat × PColor)) (n d : Nat) (T : PColor) (t : Nat) (c : PColor)
    (hT : standIn ((PColor.transparent :: rest0).filter (fun x => x.isRgba) ++ (PColor.transparent :: rest0).filter (fun c => !c.isRgba)) = .ok T)
    (hc : cmGet clrMap t = some c) (hmem : c ∈ PColor.transparent :: rest0) :
    let P1 := (PColor.transparent :: rest0).filter (fun x => x.isRgba) ++ (PColor.transparent :: rest0).filter (fun c => !c.isRgba)
    let p : PaletteInfo := { palette := P1.set 0 T,
                             clrMap := clrMap.map (fun e => if (e.2 == PColor.transparent) = true then (e.1, T) else e), n := n,
                             isGrey := false, isTransparent := true, depth := d, transIdx := 0 }
    showsAt p (typeIndex p t) c := by
  intro P1 p
  obtain ⟨hnot', hP1', hpal', htr'⟩ := plte_transparent_shape rest0 clrMap n d T hT
  let A' := rest0.filter (fun x => x.isRgba)
  let B := rest0.filter (fun c => !c.isRgba)
  have hnot : T ∉ P1 := hnot'
  have hP1 : P1 = PColor.transparent :: (A' ++ B) := hP1'
  have hpal : p.palette = T :: (A' ++ B) := hpal'
  have htr : trnsBytes p = 0 :: A'.map PColor.alpha := htr'
  have hB : ∀ c ∈ B, c.isRgba = false := filter_not_isRgba_all rest0
  have hpl : plteBytes p = p.palette.flatMap PColor.rgb3 := by simp [plteBytes, p]
  have hidx : typeIndex p t = p.palette.idxOf (if c == PColor.transparent then T else c) := by
    simp only [typeIndex, p]
    rw [cmGet_replace, hc]; rfl
  unfold showsAt
  rw [hidx, htr, hpl, hpal]
  by_cases hct : c = PColor.transparent
  · subst hct
    simp only [beq_self_eq_true, if_true, List.idxOf_cons_self]
    apply shows_indexed _ _ _ _ _ T (by simp)
    simp [Shows]
  · have hbeq : (c == PColor.transparent) = false := by simpa using hct
    simp only [hbeq, Bool.false_eq_true, if_false]
    have hcin : c ∈ A' ++ B := by
      have : c ∈ P1 := (mem_plteOrder _ c).2 hmem
      rw [hP1] at this
      rcases List.mem_cons.1 this with h | h
      · exact absurd h hct
      · exact h
    have hcT : T ≠ c := by
      intro h; apply hnot; rw [h]; exact (mem_plteOrder _ c).2 hmem
    have hk := getElem?_idxOf_of_mem _ _ hcin
    have hio : List.idxOf c (T :: (A' ++ B)) = List.idxOf c (A' ++ B) + 1 := by
      rw [List.idxOf_cons]
      have : (T == c) = false := by simpa using hcT
      simp [this]
    rw [hio]
    apply shows_indexed _ _ _ _ c c (by simpa using hk)
    simp only [List.getD_eq_getElem?_getD, List.getElem?_cons_succ]
    have := alpha_table A' B hB _ _ hk
    simp only [List.getD_eq_getElem?_getD] at this
    rw [this]
    exact shows_self c

/-! ### greyscale -/

/-- the three palettes for which `write_png` chooses greyscale: a sorted set of two of
    placeholder, black, white -/
theorem grey_palettes (P0 : List PColor) (hlen : P0.length = 2)
    (hall : P0.all (fun c => c == PColor.transparent || c == PColor.black || c == PColor.white) = true)
    (hnd : P0.Nodup) (hs : P0.Pairwise (fun a b => keyLe a b = true)) :
    P0 = [PColor.black, PColor.white] ∨ P0 = [PColor.transparent, PColor.black] ∨ P0 = [PColor.transparent, PColor.white] := by
  match P0, hlen with
  | [a, b], _ =>
    simp only [List.all_cons, List.all_nil, Bool.and_true, Bool.and_eq_true, Bool.or_eq_true, beq_iff_eq] at hall
    have hne : a ≠ b := by
      intro h; subst h; simp at hnd
    have hle : keyLe a b = true := by
      simpa using hs
    obtain ⟨ha, hb⟩ := hall
    rcases ha with (rfl | rfl) | rfl <;> rcases hb with (rfl | rfl) | rfl <;>
      first
      | exact absurd rfl hne
      | exact absurd hle (by decide)
      | simp

theorem sound_grey_opaque (clrMap : List (Nat × PColor)) (n : Nat) (t : Nat) (c : PColor)
    (hc : cmGet clrMap t = some c) (hmem : c ∈ [PColor.black, PColor.white]) :
    let p : PaletteInfo := { palette := [PColor.black, PColor.white], clrMap := clrMap, n := n, isGrey := true,
                             isTransparent := false, depth := 1, transIdx := 0 }
    showsAt p (typeIndex p t) c := by
  intro p
  have hidx : typeIndex p t = [PColor.black, PColor.white].idxOf c := by simp [typeIndex, p, hc]
  unfold showsAt
  rw [hidx]
  have h1 : plteBytes p = [] := by simp [plteBytes, p]
  have h2 : trnsBytes p = [] := by simp [trnsBytes, p]
  rw [h1, h2]
  refine ⟨_, readColour_grey1 _ _, ?_⟩
  simp only [List.mem_cons, List.not_mem_nil, or_false] at hmem
  rcases hmem with rfl | rfl
  · have : [PColor.black, PColor.white].idxOf PColor.black = 0 := by decide
    rw [this]; simp [Shows, PColor.black]
  · have : [PColor.black, PColor.white].idxOf PColor.white = 1 := by decide
    rw [this]; simp [Shows, PColor.white]

theorem sound_grey_transparent (P0 : List PColor) (clrMap : List (Nat × PColor)) (n : Nat) (t : Nat) (c : PColor)
    (hP0 : P0 = [PColor.transparent, PColor.black] ∨ P0 = [PColor.transparent, PColor.white])
    (hc : cmGet clrMap t = some c) (hmem : c ∈ P0) :
    let palette := if P0.contains PColor.black = true then [PColor.black, PColor.transparent] else P0
    let p : PaletteInfo := { palette := palette, clrMap := clrMap, n := n, isGrey := true,
                             isTransparent := true, depth := 1, transIdx := palette.idxOf PColor.transparent }
    showsAt p (typeIndex p t) c := by
  intro palette p
  have hidx : typeIndex p t = palette.idxOf c := by simp [typeIndex, p, hc]
  unfold showsAt
  rw [hidx]
  have h1 : plteBytes p = [] := by simp [plteBytes, p]
  rw [h1]
  rcases hP0 with rfl | rfl
  · have hpal : palette = [PColor.black, PColor.transparent] := by decide
    have h2 : trnsBytes p = [0, 1] := by
      simp only [trnsBytes, p]; rw [hpal]; decide
    rw [h2, hpal]
    refine ⟨_, readColour_grey1 _ _, ?_⟩
    simp only [List.mem_cons, List.not_mem_nil, or_false] at hmem
    rcases hmem with rfl | rfl
    · have : [PColor.black, PColor.transparent].idxOf PColor.transparent = 1 := by decide
      rw [this]; simp [Shows]
    · have : [PColor.black, PColor.transparent].idxOf PColor.black = 0 := by decide
      rw [this]; simp [Shows, PColor.black]
  · have hpal : palette = [PColor.transparent, PColor.white] := by decide
    have h2 : trnsBytes p = [0, 0] := by
      simp only [trnsBytes, p]; rw [hpal]; decide
    rw [h2, hpal]
    refine ⟨_, readColour_grey1 _ _, ?_⟩
    simp only [List.mem_cons, List.not_mem_nil, or_false] at hmem
    rcases hmem with rfl | rfl
    · have : [PColor.transparent, PColor.white].idxOf PColor.transparent = 0 := by decide
      rw [this]; simp [Shows]
    · have : [PColor.transparent, PColor.white].idxOf PColor.white = 1 := by decide
      rw [this]; simp [Shows, PColor.white]

/-! ### the palette part of `write_png` -/

theorem paletteFrom_sound (P0 : List PColor) (clrMap : List (Nat × PColor)) (p : PaletteInfo)
    (hp : paletteFrom P0 clrMap = .ok p) (t : Nat) (c : PColor) (hc : cmGet clrMap t = some c)
    (hmem : c ∈ P0) (hnd : P0.Nodup) (hsorted : P0.Pairwise (fun a b => keyLe a b = true))
    (hhead : PColor.transparent ∈ P0 → ∃ rest, P0 = PColor.transparent :: rest) :
    showsAt p (typeIndex p t) c := by
  unfold paletteFrom at hp
  simp only [bind, Except.bind, pure, Except.pure] at hp
  split at hp
  · -- PLTE
    split at hp
    · rename_i hg htr
      obtain ⟨rest0, rfl⟩ := hhead (by simpa using htr)
      split at hp
      · cases hp
      · rename_i T hT
        cases hp
        exact sound_plte_transparent rest0 clrMap _ _ T t c hT hc hmem
    · cases hp
      exact sound_plte_opaque P0 clrMap _ _ t c hc hmem
  · -- greyscale
    rename_i hg
    have hg' : (P0.length == 2 && P0.all (fun c => c == PColor.transparent || c == PColor.black || c == PColor.white)) = true := by
      cases h : (P0.length == 2 && P0.all (fun c => c == PColor.transparent || c == PColor.black || c == PColor.white)) with
      | true => rfl
      | false => rw [h] at hg; exact absurd rfl hg
    rw [Bool.and_eq_true] at hg'
    have hpal := grey_palettes P0 (by simpa using hg'.1) hg'.2 hnd hsorted
    split at hp
    · rename_i htr
      cases hp
      rcases hpal with rfl | hpal
      · exact absurd htr (by decide)
      · exact sound_grey_transparent P0 clrMap _ t c hpal hc hmem
    · rename_i htr
      cases hp
      rcases hpal with rfl | rfl | rfl
      · exact sound_grey_opaque clrMap _ t c hc hmem
      · exact absurd (by decide) htr
      · exact absurd (by decide) htr

/-- every module type of the map points to a palette entry / grey level that the reference reader
    shows as the colour configured for the type -/
theorem palette_sound (setOrder : List PColor → List PColor) (hset : SetOrderOK setOrder) (clrMap : List (Nat × PColor))
    (p : PaletteInfo) (hp : buildPalette setOrder clrMap = .ok p) (t : Nat) (c : PColor) (hc : cmGet clrMap t = some c) :
    showsAt p (typeIndex p t) c :=
  paletteFrom_sound (palette0 setOrder clrMap) clrMap p hp t c hc
    ((mem_palette0 setOrder hset clrMap c).2 (cmGet_mem _ _ _ hc)) (nodup_palette0 setOrder hset clrMap)
    (sorted_palette0 setOrder clrMap) (head_palette0 setOrder clrMap)

/-! ### the stand-in colour and the extent of tRNS -/

theorem lt_length_iff_isRgba (A B : List PColor) (hA : ∀ c ∈ A, c.isRgba = true) (hB : ∀ c ∈ B, c.isRgba = false)
    (k : Nat) (c : PColor) (hk : (A ++ B)[k]? = some c) : k < A.length ↔ c.isRgba = true := by
  by_cases h : k < A.length
  · rw [List.getElem?_append_left h] at hk
    exact ⟨fun _ => hA c (List.mem_of_getElem? hk), fun _ => h⟩
  · rw [List.getElem?_append_right (Nat.le_of_not_lt h)] at hk
    have := hB c (List.mem_of_getElem? hk)
    exact ⟨fun h' => absurd h' h, fun h' => by rw [this] at h'; cases h'⟩

/-- `paletteFrom_trns` (indexed colour): the stand-in colour that replaces the placeholder is none of
    the colours of the map, and tRNS covers exactly the leading palette entries that have an alpha
    channel (the stand-in, if there is one, then the RGBA colours), with their alpha values -/
theorem paletteFrom_trns (P0 : List PColor) (clrMap : List (Nat × PColor)) (p : PaletteInfo)
    (hp : paletteFrom P0 clrMap = .ok p)
    (hhead : PColor.transparent ∈ P0 → ∃ rest, P0 = PColor.transparent :: rest) (hg : p.isGrey = false) :
    (p.isTransparent = true → ∃ T rest, p.palette = T :: rest ∧ T ∉ P0 ∧ T ≠ PColor.transparent)
    ∧ ∀ k c, p.palette[k]? = some c →
        ((k < (trnsBytes p).length ↔ (c.isRgba = true ∨ (p.isTransparent = true ∧ k = 0)))
         ∧ (trnsBytes p).getD k 255 = if p.isTransparent = true ∧ k = 0 then 0 else c.alpha) := by
  unfold paletteFrom at hp
  simp only [bind, Except.bind, pure, Except.pure] at hp
  split at hp
  · split at hp
    · rename_i _ htr
      obtain ⟨rest0, rfl⟩ := hhead (by simpa using htr)
      split at hp
      · cases hp
      · rename_i T hT
        cases hp
        obtain ⟨hnot, hP1, hpal, htrns⟩ := plte_transparent_shape rest0 clrMap
          (PColor.transparent :: rest0).length
          (if (PColor.transparent :: rest0).length > 2 then if (PColor.transparent :: rest0).length < 5 then 2 else 4 else 1) T hT
        obtain ⟨_, hTne, _, _⟩ := standIn_spec _ _ hT
        have hA := filter_isRgba_all rest0
        have hB := filter_not_isRgba_all rest0
        refine ⟨fun _ => ⟨T, _, hpal, fun h => hnot ((mem_plteOrder _ T).2 h), hTne⟩, ?_⟩
        intro k c hk
        rw [htrns]
        rw [hpal] at hk
        cases k with
        | zero => simp
        | succ k =>
          simp only [List.getElem?_cons_succ] at hk
          have h1 := lt_length_iff_isRgba _ _ hA hB k c hk
          have h2 := alpha_table _ _ hB k c hk
          simp only [List.length_cons, List.length_map, Nat.add_lt_add_iff_right, h1, Nat.succ_ne_zero, and_false, or_false,
            if_false, true_and]
          simpa [List.getD_eq_getElem?_getD] using h2
    · cases hp
      have htrns := trns_plte_opaque P0 clrMap P0.length (if P0.length > 2 then if P0.length < 5 then 2 else 4 else 1)
      have hA := filter_isRgba_all P0
      have hB := filter_not_isRgba_all P0
      refine ⟨fun h => (by cases h), ?_⟩
      intro k c hk
      rw [htrns]
      have h1 := lt_length_iff_isRgba _ _ hA hB k c hk
      have h2 := alpha_table _ _ hB k c hk
      simp only [List.length_map, h1, Bool.false_eq_true, false_and, or_false, if_false, true_and]
      exact h2
  · split at hp <;> (cases hp; cases hg)

end Proofs.Png
