/-
  Proofs.SequenceRoundtrip — helper lemmas for Props/C08Roundtrip.lean, part 2: `_encode` after the
  data bit stream is fixed (`Model.encodeTail`, any stream) read by the reference reader; one symbol
  with Structured Append header; all symbols of a sequence.
  (Part 1, the stream parser on header ‖ segment ‖ tail: Proofs/SequenceRoundtripStream.lean.)
-/
import Spec.Decode
import Spec.Judge
import Model.Sequence
import Proofs.Sequence
import Proofs.EndToEnd
import Proofs.SequenceRoundtripStream

namespace Proofs.SequenceRoundtrip
open Model Proofs.EndToEnd Proofs.Sequence

/-! ### `encodeTail`: all stages -/

theorem encodeTail_chain (buff : List Nat) (segs : List Segment) (e : Option Nat) (v : Int) (mask : Option Nat) (c : Code)
    (h : Model.encodeTail buff segs e v mask = .ok c) :
    c.version = v ∧ c.error = e ∧ c.segments = segs ∧
    ∃ cap stream final, capacity v e = some cap ∧ finishStream buff v cap = .ok stream
      ∧ makeFinalMessage v e stream = .ok final
      ∧ ∃ m0 m1 m2 m3,
          addAlignmentPatterns (addFinderPatterns (makeMatrix (Gen.calc_matrix_size v).toNat) (Gen.calc_matrix_size v).toNat)
            (Gen.calc_matrix_size v).toNat = .ok m0
          ∧ addCodewords m0 final v = .ok m1
          ∧ findAndApplyBestMask m1 mask = .ok (c.mask, m2)
          ∧ addFormatInfo m2 v e c.mask = .ok m3
          ∧ addVersionInfo m3 v = .ok c.matrix := by
  unfold Model.encodeTail at h
  split at h
  case h_2 => exact absurd h (throw_ne_ok _ _)
  case h_1 cap hcap =>
  obtain ⟨stream, hstream, h⟩ := bind_ok.1 h
  obtain ⟨final, hfinal, h⟩ := bind_ok.1 h
  dsimp only at h
  obtain ⟨m0, hm0, h⟩ := bind_ok.1 h
  obtain ⟨m1, hm1, h⟩ := bind_ok.1 h
  obtain ⟨⟨mk, m2⟩, hm2, h⟩ := bind_ok.1 h
  dsimp only at h
  obtain ⟨m3, hm3, h⟩ := bind_ok.1 h
  obtain ⟨m4, hm4, h⟩ := bind_ok.1 h
  rw [pure_eq_ok] at h
  subst h
  exact ⟨rfl, rfl, rfl, cap, stream, final, hcap, hstream, hfinal, m0, m1, m2, m3, hm0, hm1, hm2, hm3, hm4⟩

/-! ### any data bit stream that fits: the finished symbol is read back -/

/-- `_encode` from the complete data bit stream `buff` (bits, not longer than the capacity): the
    reference reader reports the version / level / mask, intact function patterns, valid RS blocks,
    zero remainder bits, and its data stream is `buff` followed by the (D1-)tail -/
theorem tail_decodes (buff : List Nat) (segs : List Segment) (e : Option Nat) (v : Int) (mask : Option Nat) (c : Code)
    (hb : Bin buff) (h : Model.encodeTail buff segs e v mask = .ok c)
    (hfit : ∀ cap, capacity v e = some cap → buff.length ≤ cap) :
    ∃ d cap, capacity v e = some cap ∧ Spec.decode c.matrix = .ok d
      ∧ d.header = { version := v, level := lvlKey e, mask := c.mask }
      ∧ d.fnBad = none ∧ d.badBlocks = 0 ∧ Spec.allZero d.blocks.remainder = true
      ∧ d.stream = buff ++ Spec.d1Tail v cap buff.length
      ∧ d.parsed = Spec.parseStream v d.stream := by
  obtain ⟨-, -, -, cap, stream, final, hcap, hstream, hfinal, m0, m1, m2, m3, hm0, hm1, hm2, hm3, hm4⟩ :=
    encodeTail_chain _ _ _ _ _ _ h
  obtain ⟨h1, h2, -, -⟩ := Proofs.Stream.cap_facts e hcap
  have hl := hfit cap hcap
  obtain ⟨htake, hcl⟩ := Props.C13.stream_layout_d1 v cap buff stream h1 h2 ⟨e, hcap⟩ hl hstream
  have hbs := Bin_finish buff stream v cap h1 h2 hb hstream
  have hz : Spec.fourBitFinal v = true → ∀ b ∈ (stream.drop cap).take 4, b = 0 := by
    intro hf b hb'
    have := Props.C03.m13_stream_has_capacity_length v e cap _ _ hcap hl hf hstream
    rw [List.drop_of_length_le (by omega)] at hb'
    simp at hb'
  obtain ⟨b, hsplit, hbad, hrem, hds⟩ :=
    Props.C03.final_message_blocks_valid_partial v e cap stream final h1 h2 hcap hcl hbs hz hfinal
  have hbf := Bin_final v e stream final hfinal
  obtain ⟨ecc, hecc⟩ := Proofs.Message.ecc_of_ok _ _ _ _ hfinal
  have hl1 := Props.C03.final_message_length v e cap stream final h1 h2 hcap hcl hfinal ecc hecc
  have hl2 := Props.C01.data_cell_count v (lvlKey e) ecc h1 h2 hecc
  have hlen : final.length = (Spec.dataCoords v).length := by
    generalize (if Spec.fourBitFinal v = true then 4 else 0) = z at hl1 hl2
    omega
  have ch : Chain v e mask c.mask final c.matrix :=
    ⟨m0, m1, m2, m3, by rwa [calc_size v h1 h2] at hm0, hm1, hm2, hm3, hm4⟩
  have hread := chain_data _ _ _ _ _ _ ch h1 h2 hbf hlen
  have hhdr := chain_header _ _ _ _ _ _ ch h1 h2 hbf hlen cap hcap
  have hfn := chain_fn _ _ _ _ _ _ ch h1 h2 hbf hlen cap hcap
  have hdec := decode_eq c.matrix _ b hhdr (by rw [hread]; exact hsplit)
  refine ⟨_, cap, hcap, hdec, rfl, hfn, hbad, hrem, ?_, rfl⟩
  show Spec.dataStream v b = _
  rw [hds, htake]

/-! ### bit length with / without the Structured Append header -/

theorem bitLength_sa (segs : List Segment) (v : Int) (eci : Bool) (bl : Nat)
    (h : bitLengthWithOverhead segs v eci true = some bl) :
    ∃ need, bitLengthWithOverhead segs v eci false = some need ∧ bl = need + 20 := by
  unfold bitLengthWithOverhead at h ⊢
  dsimp only at h ⊢
  cases hc : segs.mapM (fun s => cciLen s.mode (if v > 0 then Gen.version_range v else v)) with
  | none => rw [hc] at h; simp [bind, Option.bind] at h
  | some ccis =>
    rw [hc] at h
    simp only [bind, Option.bind, pure, Option.some.injEq, if_true] at h
    refine ⟨_, rfl, ?_⟩
    rw [← h]
    simp only [Bool.false_eq_true, if_false]
    omega

theorem Bin_saHeader (sa : Option (Nat × Nat × Nat)) : Bin (saHeader sa) := by
  cases sa with
  | none => exact Bin_nil
  | some x =>
    obtain ⟨a, b, c⟩ := x
    exact Bin_append (Bin_append (Bin_append (Bin_appendBits _ _) (Bin_appendBits _ _)) (Bin_appendBits _ _)) (Bin_appendBits _ _)

theorem mapM_single {α β : Type} (g : α → R β) (a : α) (r : List β) (h : [a].mapM g = .ok r) :
    ∃ b, g a = .ok b ∧ r = [b] := by
  obtain ⟨b, bs, hb, hbs, rfl⟩ := Proofs.StreamParse.mapM_ok_cons g a [] r h
  cases hbs
  exact ⟨b, hb, rfl⟩

theorem oneItemSegments_make (chunk : List Nat) (mode : Nat) (enc : String) (segs : List Segment)
    (h : oneItemSegments chunk mode enc = .ok segs) :
    ∃ s enc', makeSegment chunk (some mode) enc' = .ok s ∧ segs = [s] := by
  unfold oneItemSegments at h
  obtain ⟨s, hs, hp⟩ := bind_ok.1 h
  rw [pure_eq_ok] at hp
  exact ⟨s, _, hs, by rw [← hp]; simp [addSegment]⟩

/-! ### one symbol with Structured Append header -/

/-- one symbol, capacity hypothesis for the error level the symbol finally has (after boosting);
    the content may be empty -/
theorem sa_symbol_final (data : List Nat) (mode : Nat) (enc : String) (segs : List Segment) (error : Option Nat)
    (v : Int) (mask : Option Nat) (boost : Bool) (f : String → Option Nat) (i total parity : Nat) (c : Code)
    (hd : ∀ b ∈ data, b < 256) (hm : mode ∈ [1, 2, 4, 8, 13])
    (hi : i < 16) (ht : total < 16) (hp : parity < 256) (hv : 1 ≤ v)
    (hs : oneItemSegments data mode enc = .ok segs)
    (hfit : ∃ bl cap, bitLengthWithOverhead segs v false true = some bl ∧ capacity v c.error = some cap ∧ bl ≤ cap)
    (h : encodeCore segs error v mask false boost f (some (i, total, parity)) = .ok c) :
    ∃ d, Spec.decode c.matrix = .ok d
      ∧ d.header = { version := c.version, level := lvlKey c.error, mask := c.mask }
      ∧ d.fnBad = none ∧ d.badBlocks = 0 ∧ Spec.allZero d.blocks.remainder = true
      ∧ ∃ p, d.parsed = .ok p ∧ p.sa = some (i, total, parity)
          ∧ (p.segments.map (·.bytes)).flatten = data := by
  obtain ⟨s, enc', hmk, rfl⟩ := oneItemSegments_make _ _ _ _ hs
  have hmm := some_mode_mem mode hm
  have hwf : ∀ x ∈ [s], Proofs.Sizing.WFs x := by
    intro x hx
    rw [List.mem_singleton] at hx
    subst hx
    exact Proofs.Sizing.makeSegment_wf data (some mode) enc' x hmm hmk
  rw [Proofs.Sequence.encodeCore_eq] at h
  obtain ⟨error', he, h⟩ := bind_ok.1 h
  obtain ⟨segBits, hw, htail⟩ := bind_ok.1 h
  obtain ⟨bits, hwb, rfl⟩ := mapM_single _ _ _ hw
  obtain ⟨hcv, hce, -, cap0, hcap0⟩ := encodeTail_ok _ _ _ _ _ _ htail
  obtain ⟨h1, h2, -, -⟩ := Proofs.Stream.cap_facts error' hcap0
  rw [hce] at hfit
  obtain ⟨bl, cap, hbl, hcap, hle⟩ := hfit
  obtain ⟨need, hneed, hblneed⟩ := bitLength_sa _ _ _ _ hbl
  have hlen := written_length [s] v false f [bits] h1 h2 hwf hw
  rw [hneed] at hlen
  have hneq : need = bits.length := by
    have := Option.some.inj hlen
    simpa using this
  have hcount := count_fits [s] v false error' need cap h1 h2 hwf hneed hcap (by omega) s (List.mem_singleton.2 rfl)
  -- the finished symbol
  have hflat : [bits].flatten = bits := by simp
  rw [hflat] at htail
  have hbin : Bin (saHeader (some (i, total, parity)) ++ bits) := by
    refine Bin_append (Bin_saHeader _) ?_
    have hshape := Proofs.Modes.makeSegment_ok_cases data (some mode) enc' s hmm hmk
    exact Bin_written s v false f bits h1 h2 (hwf s (List.mem_singleton.2 rfl)).1 (Bin_segment data s hshape) hwb
  have hbufflen : (saHeader (some (i, total, parity)) ++ bits).length = bl := by
    rw [List.length_append, saHeader_length]; omega
  obtain ⟨d, cap', hcap', hdec, hhdr, hfn, hbad, hrem, hstream, hparsed⟩ :=
    tail_decodes _ _ _ _ _ _ hbin htail (by
      intro cap' hc'
      rw [hcap] at hc'
      cases hc'
      omega)
  rw [hcap] at hcap'
  cases hcap'
  have hparse := sa_single_tail data (some mode) enc' s v bits
    (Spec.d1Tail v cap (saHeader (some (i, total, parity)) ++ bits).length) f i total parity
    hv h2 hd hmm hi ht hp hmk hwb hcount
    (Proofs.StreamParse.d1Tail_stop v cap _ error' hcap (by omega))
  refine ⟨d, hdec, by rw [hhdr, hcv, hce], hfn, hbad, hrem, ?_⟩
  rw [hparsed, hstream, hparse]
  exact ⟨_, rfl, rfl, by simp⟩

/-- boosting keeps the stream within the capacity: from the requested level to the final one -/
theorem fit_final (segs : List Segment) (error : Option Nat) (v : Int) (mask : Option Nat) (eci boost : Bool)
    (f : String → Option Nat) (sa : Nat × Nat × Nat) (c : Code)
    (hfit : ∃ bl cap, bitLengthWithOverhead segs v eci true = some bl ∧ capacity v error = some cap ∧ bl ≤ cap)
    (h : encodeCore segs error v mask eci boost f (some sa) = .ok c) :
    ∃ bl cap, bitLengthWithOverhead segs v eci true = some bl ∧ capacity v c.error = some cap ∧ bl ≤ cap := by
  obtain ⟨-, -, -, -, hb0, hb1⟩ := encodeCore_ok _ _ _ _ _ _ _ _ _ h
  cases boost with
  | false => rw [hb0 rfl]; exact hfit
  | true =>
    rcases Proofs.Sequence.boost_fits _ _ _ _ _ _ (hb1 rfl) with he | ⟨cap, bl, hc, hbl, hle⟩
    · rw [he]; exact hfit
    · exact ⟨bl, cap, hbl, hc, hle⟩

/-- `Props.C08.sa_symbol_decodes` without the hypothesis that the content is non-empty -/
theorem sa_symbol_core (data : List Nat) (mode : Nat) (enc : String) (segs : List Segment) (error : Option Nat)
    (v : Int) (mask : Option Nat) (boost : Bool) (f : String → Option Nat) (i total parity : Nat) (c : Code)
    (hd : ∀ b ∈ data, b < 256) (hm : mode ∈ [1, 2, 4, 8, 13])
    (hi : i < 16) (ht : total < 16) (hp : parity < 256) (hv : 1 ≤ v)
    (hs : oneItemSegments data mode enc = .ok segs)
    (hfit : ∃ bl cap, bitLengthWithOverhead segs v false true = some bl ∧ capacity v error = some cap ∧ bl ≤ cap)
    (h : encodeCore segs error v mask false boost f (some (i, total, parity)) = .ok c) :
    ∃ d, Spec.decode c.matrix = .ok d
      ∧ d.header = { version := c.version, level := lvlKey c.error, mask := c.mask }
      ∧ d.fnBad = none ∧ d.badBlocks = 0 ∧ Spec.allZero d.blocks.remainder = true
      ∧ ∃ p, d.parsed = .ok p ∧ p.sa = some (i, total, parity)
          ∧ (p.segments.map (·.bytes)).flatten = data :=
  sa_symbol_final data mode enc segs error v mask boost f i total parity c hd hm hi ht hp hv hs
    (fit_final segs error v mask false boost f _ c hfit h) h

end Proofs.SequenceRoundtrip
