/-
  Proofs.RasterDocsPngPicture — the whole PNG file as a picture: the list-level reference reader `Spec.L.readPng`
  (container, zlib header + Adler-32 of the inflated stream, scanline filters, samples, colour table) applied to
  the file the model writes and to the model's own scanline stream (the inflated IDAT data: inflating is a
  runtime service) returns a picture in which every pixel shows the colour configured for its module type.
-/
import Proofs.RasterDocsPngOk
import Proofs.PngPicture

namespace Proofs.RasterDocs

open Model Model.RasterDocs Spec Proofs.Png Proofs.Raster

/-! ### scanline filters: the reader's byte-wise reconstruction = `Proofs.Png.recon` -/

theorem unfilterGo_none (raw : List Nat) (h : ∀ v ∈ raw, v < 256) : ∀ prev a c, L.unfilterGo 0 raw prev a c = raw := by
  induction raw with
  | nil => intro prev a c; rfl
  | cons x raw ih =>
    intro prev a c
    have hx : x % 256 = x := Nat.mod_eq_of_lt (h x (by simp))
    simp only [L.unfilterGo, hx]
    rw [ih (fun v hv => h v (by simp [hv]))]

theorem unfilterGo_up (raw : List Nat) : ∀ prev a c, raw.length ≤ prev.length → L.unfilterGo 2 raw prev a c = unfilterUp raw prev := by
  induction raw with
  | nil => intro prev a c _; simp [L.unfilterGo, unfilterUp]
  | cons x raw ih =>
    intro prev a c hlen
    cases prev with
    | nil => simp at hlen
    | cons p prev =>
      simp only [L.unfilterGo, List.headD_cons, List.tail_cons, Nat.mod_mod, unfilterUp, List.zipWith_cons_cons]
      rw [ih prev _ _ (by simpa using hlen)]
      rfl

theorem unfilterUp_length (raw prev : List Nat) (h : raw.length = prev.length) : (unfilterUp raw prev).length = raw.length := by
  unfold unfilterUp
  simp [List.length_zipWith, h]

/-- the reader's scanline loop over the flat stream yields the reconstructed scanlines -/
theorem scanlines_recon (rb : Nat) : ∀ (lines : List Line) (prev : List Nat), prev.length = rb →
    (∀ l ∈ lines, (l.1 = 0 ∨ l.1 = 2) ∧ l.2.length = rb ∧ ∀ v ∈ l.2, v < 256) →
    L.scanlines rb lines.length (flat lines) prev = .ok (recon prev lines) := by
  intro lines
  induction lines with
  | nil => intro prev _ _; rfl
  | cons l rest ih =>
    intro prev hprev hl
    obtain ⟨ft, raw⟩ := l
    obtain ⟨hft, hlen, hbytes⟩ := hl (ft, raw) (by simp)
    simp only at hft hlen hbytes
    have hflat : flat ((ft, raw) :: rest) = ft :: (raw ++ flat rest) := by simp [flat]
    have hcur : L.unfilterGo ft raw prev 0 0 = (if ft == 2 then unfilterUp raw prev else raw) := by
      rcases hft with rfl | rfl
      · simp [unfilterGo_none raw hbytes]
      · simp [unfilterGo_up raw prev 0 0 (by omega)]
    have hcurlen : (if ft == 2 then unfilterUp raw prev else raw).length = rb := by
      split
      · rw [unfilterUp_length raw prev (by omega), hlen]
      · exact hlen
    have hgt : ¬ ft > 4 := by rcases hft with rfl | rfl <;> decide
    have htake : List.take rb (raw ++ flat rest) = raw := by rw [← hlen]; exact List.take_left' rfl
    have hdrop : List.drop (rb + 1) (ft :: (raw ++ flat rest)) = flat rest := by
      simp only [List.drop_succ_cons]; rw [← hlen]; exact List.drop_left' rfl
    simp only [List.length_cons, L.scanlines, hflat, List.headD_cons, hgt, if_false, List.drop_succ_cons, List.drop_zero, htake, hcur, hdrop]
    rw [ih _ hcurlen (fun l' hl' => hl l' (by simp [hl'])), recon_cons]

/-! ### the model's scanlines -/

theorem packRow_bytes (d : Nat) (hd : d = 1 ∨ d = 2 ∨ d = 4) (row : List Nat) (hrow : ∀ v ∈ row, v < 2 ^ d) : ∀ v ∈ packRow d row, v < 256 :=
  packRow_lt d hd row hrow

theorem pngLines_bytes (idx : List (List Nat)) (w d s b qz : Nat) (hd : d = 1 ∨ d = 2 ∨ d = 4) (hqz : qz < 2 ^ d)
    (hrows : ∀ r ∈ idx, r.length = w ∧ ∀ v ∈ r, v < 2 ^ d) : ∀ l ∈ pngLines idx w d s b qz, ∀ v ∈ l.2, v < 256 := by
  have hborder : ∀ v ∈ (borderLine d ((w + 2 * b) * s) qz).2, v < 256 := by
    apply packRow_bytes d hd
    intro v hv
    simp only [List.mem_replicate] at hv
    rw [hv.2]; exact hqz
  have hpos : 0 < 2 ^ d := Nat.pos_of_ne_zero (by rcases hd with h | h | h <;> rw [h] <;> decide)
  intro l hl
  unfold pngLines at hl
  simp only [List.mem_append, List.mem_replicate, List.mem_flatMap] at hl
  rcases hl with (⟨_, rfl⟩ | ⟨row, hrow, hl⟩) | ⟨_, rfl⟩
  · exact hborder
  · unfold rowLines at hl
    simp only [List.mem_cons, List.mem_replicate] at hl
    rcases hl with rfl | ⟨_, rfl⟩
    · apply packRow_bytes d hd
      exact fullRow_bound s b qz _ hqz row (hrows row hrow).2
    · apply packRow_bytes d hd
      intro v hv
      simp only [List.mem_replicate] at hv
      rw [hv.2]; exact hpos
  · exact hborder

/-- what the reference reader checks of the zlib container of the IDAT data (RFC 1950: compression method 8,
    window size, header check, no preset dictionary, Adler-32 of the inflated stream) -/
def ZlibOK (comp idat : List Nat) : Prop :=
  6 ≤ comp.length ∧ comp.getD 0 0 % 16 = 8 ∧ comp.getD 0 0 / 16 ≤ 7 ∧ (comp.getD 0 0 * 256 + comp.getD 1 0) % 31 = 0
    ∧ comp.getD 1 0 / 32 % 2 = 0 ∧ L.adler32 idat = L.be32 (comp.drop (comp.length - 4))

/-- the picture the reader decodes from reconstructed scanlines -/
def picOf (c : L.PngL) (lines : List Line) : L.Pic :=
  { w := c.hdr.width, h := c.hdr.height,
    px := (recon (List.replicate ((c.hdr.width * c.hdr.depth + 7) / 8) 0) lines).map
            (fun row => (unpackRow c.hdr.depth c.hdr.width row).map (L.pngColour c)) }

/-- the pixel part of the reader: for an accepted container and scanlines as the model writes them -/
theorem readPng_lines (file : List Nat) (c : L.PngL) (hc : L.readPngContainer file = .ok c) (lines : List Line)
    (hz : ZlibOK c.comp (flat lines)) (hlen : lines.length = c.hdr.height)
    (hl : ∀ l ∈ lines, (l.1 = 0 ∨ l.1 = 2) ∧ l.2.length = (c.hdr.width * c.hdr.depth + 7) / 8 ∧ ∀ v ∈ l.2, v < 256) :
    L.readPng file (flat lines) = .ok (c, picOf c lines) := by
  obtain ⟨h6, z1, z2, z3, z4, z5⟩ := hz
  have hflatlen : (flat lines).length = c.hdr.height * ((c.hdr.width * c.hdr.depth + 7) / 8 + 1) := by
    have : ∀ l ∈ lines, ((fun l : Line => l.1 :: l.2) l).length = (c.hdr.width * c.hdr.depth + 7) / 8 + 1 := by
      intro l hl'; simp [(hl l hl').2.1]
    unfold flat
    rw [length_flatMap_const _ _ lines this, hlen, Nat.mul_comm]
  have hscan := scanlines_recon ((c.hdr.width * c.hdr.depth + 7) / 8) lines (List.replicate ((c.hdr.width * c.hdr.depth + 7) / 8) 0) (by simp) hl
  rw [hlen] at hscan
  unfold L.readPng
  simp only [hc]
  have c1 : ¬ c.comp.length < 6 := by omega
  have c2 : (c.comp.getD 0 0 % 16 != 8 || decide (c.comp.getD 0 0 / 16 > 7) || (c.comp.getD 0 0 * 256 + c.comp.getD 1 0) % 31 != 0
      || c.comp.getD 1 0 / 32 % 2 != 0) = false := by
    have e1 : (c.comp.getD 0 0 % 16 != 8) = false := by rw [z1]; rfl
    have e2 : decide (c.comp.getD 0 0 / 16 > 7) = false := decide_eq_false (by omega)
    have e3 : ((c.comp.getD 0 0 * 256 + c.comp.getD 1 0) % 31 != 0) = false := by rw [z3]; rfl
    have e4 : (c.comp.getD 1 0 / 32 % 2 != 0) = false := by rw [z4]; rfl
    rw [e1, e2, e3, e4]; rfl
  simp only [c1, if_false, c2, Bool.false_eq_true, z5, bne_self_eq_false, hflatlen, hscan, picOf]

/-! ### the rows of colour indexes of a successful run fit the bit depth -/

theorem writePng_rows (setOrder : List PColor → List PColor) (hset : SetOrderOK setOrder) (M : List (List Nat)) (w h : Nat)
    (colormap : List (Nat × ColorArg)) (scale : Num) (border : Option Num) (out : PngOut)
    (hM : WellFormed M w h) (hn : colormap.length ≤ 16) (hw : writePng setOrder M w h colormap scale border = .ok out)
    (clrMap : List (Nat × PColor)) (p : PaletteInfo) (idx : List (List Nat))
    (hparse : parseColormap colormap = .ok clrMap) (hpal : buildPalette setOrder clrMap = .ok p) (hidx : indexRows p M w h = .ok idx) :
    (∀ r ∈ idx, r.length = w ∧ ∀ v ∈ r, v < 2 ^ p.depth) ∧ typeIndex p Gen.TYPE_QUIET_ZONE < 2 ^ p.depth := by
  obtain ⟨clrMap', p', b, idx', hparse', hpal', _, hidx', _, hcheapkeys, _, _⟩ := writePng_ok setOrder M w h colormap scale border out hw
  rw [hparse] at hparse'
  cases hparse'
  rw [hpal] at hpal'
  cases hpal'
  rw [hidx] at hidx'
  cases hidx'
  have hlen : clrMap.length ≤ 16 := by rw [parseColormap_length _ _ hparse]; exact hn
  obtain ⟨hd, hkeys, hlt, _⟩ := buildPalette_facts setOrder hset clrMap p hpal hlen
  have hqzlt : typeIndex p Gen.TYPE_QUIET_ZONE < 2 ^ p.depth := by
    cases hq : cmGet clrMap Gen.TYPE_QUIET_ZONE with
    | some c => exact hlt _ (by rw [hq]; rfl)
    | none =>
      rw [typeIndex_none p _ ((hkeys _).2 hq)]
      exact Nat.pos_of_ne_zero (by rcases hd with h | h | h <;> rw [h] <;> decide)
  refine ⟨?_, hqzlt⟩
  by_cases hv : useVerbose p = true
  · obtain ⟨A, _, hlenidx, hrowlen, hcells⟩ := indexRows_verbose p M w h idx hv hidx
    apply rows_bound idx w h _ hlenidx hrowlen
    intro i j hi hj
    obtain ⟨hsome, hval⟩ := hcells i j hi hj
    rw [hval]
    obtain ⟨c, hc⟩ := isSome_of_keys p clrMap hkeys _ hsome
    exact hlt _ (by rw [hc]; rfl)
  · have hv' : useVerbose p = false := by simpa using hv
    obtain ⟨hlenidx, hrowlen, hcells⟩ := indexRows_cheap p M w h idx hv' hM hidx
    apply rows_bound idx w h _ hlenidx hrowlen
    intro i j hi hj
    obtain ⟨_, hval⟩ := hcells i j hi hj
    rw [hval]
    have hsome : (cmGet p.clrMap (if cellL M i j = 0 then Gen.TYPE_QUIET_ZONE else Gen.TYPE_FINDER_PATTERN_DARK)).isSome = true := by
      split
      · exact (hcheapkeys hv').1
      · exact (hcheapkeys hv').2
    obtain ⟨c, hc⟩ := isSome_of_keys p clrMap hkeys _ hsome
    exact hlt _ (by rw [hc]; rfl)

/-- a pixel of the decoded picture is the colour of the sample `Proofs.Png.readCode` finds there -/
theorem picOf_pixel (c : L.PngL) (lines : List Line)
    (hrecon : recon (List.replicate ((c.hdr.width * c.hdr.depth + 7) / 8) 0) lines = recon [] lines)
    (x y : Nat) (hx : x < c.hdr.width) (hy : y < lines.length) :
    (((picOf c lines).px).getD y []).getD x none = L.pngColour c (readCode lines c.hdr.depth c.hdr.width x y) := by
  have hlen : ∀ (pv : List Nat) (ls : List Line), (recon pv ls).length = ls.length := by
    intro pv ls
    induction ls generalizing pv with
    | nil => rfl
    | cons l rest ih => obtain ⟨ft, raw⟩ := l; rw [recon_cons]; simp [ih]
  unfold picOf readCode
  simp only [hrecon]
  have hy' : y < (recon [] lines).length := by rw [hlen]; exact hy
  simp only [List.getD_eq_getElem?_getD, List.getElem?_map, List.getElem?_eq_getElem hy', Option.map_some, Option.getD_some]
  unfold unpackRow
  simp [hx]

end Proofs.RasterDocs
