/-
  Proofs.SvgColorful — lemmas about the multicolour branch of the model of `write_svg`
  (Model/SvgDoc.lean) for C11: the run machine `vrowGo` / `vlinesGo`, the `coordinates` / `xy` loop
  `accumulate`, and the reference semantics `svgAbs` of the relative moves.  Mathlib-free.
-/
import Model.SvgDoc
import Proofs.Lines

namespace Proofs.SvgColorful

open Model Model.Svg Model.Lines Spec.Vector Proofs.Lines

section generic
variable {α κ : Type} [DecidableEq κ] (key : α → κ)

/-! ### one row -/

/-- 1 iff column `j` holds a colour of key `k`, the colours laid out from column `x` on -/
def colAt : Nat → List α → κ → Nat → Nat
  | _, [], _, _ => 0
  | x, c :: rest, k, j => (if j = x ∧ key c = k then 1 else 0) + colAt (x + 1) rest k j

/-- the runs `(x1, x2)` of colour key `k` -/
def selRuns (k : κ) (rs : List (α × Nat × Nat)) : List (Nat × Nat) := (rs.filter (fun r => key r.1 = k)).map (·.2)

theorem selRuns_cons (k : κ) (r : α × Nat × Nat) (rs : List (α × Nat × Nat)) :
    selRuns key k (r :: rs) = if key r.1 = k then r.2 :: selRuns key k rs else selRuns key k rs := by
  unfold selRuns
  by_cases h : key r.1 = k <;> simp [List.filter_cons, h]

theorem ind_succ (x1 x2 j : Nat) (h : x1 ≤ x2) : ind x1 (x2 + 1) j = ind x1 x2 j + (if j = x2 then 1 else 0) := by
  unfold ind
  repeat' (first | omega | split)

theorem ind_single (x j : Nat) : ind x (x + 1) j = if j = x then 1 else 0 := by
  unfold ind
  repeat' (first | omega | split)

/-- the loop invariant of `matrix_to_lines_verbose`: `[x1, x2)` is the pending run of colour `last` -/
theorem vrowGo_cover (cols : List α) : ∀ (x1 x2 : Nat) (last : α) (k : κ) (j : Nat), x1 ≤ x2 →
    coverAt (selRuns key k (vrowGo key x1 x2 last cols)) j
      = (if key last = k then ind x1 x2 j else 0) + colAt key x2 cols k j := by
  induction cols with
  | nil =>
    intro x1 x2 last k j _
    simp only [vrowGo, selRuns_cons, colAt]
    by_cases h : key last = k
    · simp [h, coverAt_cons, selRuns, coverAt_nil]
    · simp [h, selRuns, coverAt_nil]
  | cons c rest ih =>
    intro x1 x2 last k j h12
    simp only [vrowGo, colAt]
    by_cases hlc : key last = key c
    · simp only [hlc, if_true]
      rw [ih x1 (x2 + 1) c k j (by omega)]
      by_cases hk : key c = k
      · simp only [hk, if_true, and_true]
        rw [ind_succ x1 x2 j h12]; omega
      · simp [hk]
    · simp only [hlc, if_false]
      rw [selRuns_cons]
      by_cases hk : key last = k
      · have hck : ¬ key c = k := fun h => hlc (hk.trans h.symm)
        simp only [hk, if_true, coverAt_cons]
        rw [ih x2 (x2 + 1) c k j (by omega)]
        simp [hck]
      · simp only [hk, if_false]
        rw [ih x2 (x2 + 1) c k j (by omega)]
        by_cases hck : key c = k
        · simp only [hck, if_true, and_true, ind_single]; omega
        · simp [hck]

theorem colAt_lt (cols : List α) : ∀ x k j, j < x → colAt key x cols k j = 0 := by
  induction cols with
  | nil => intros; rfl
  | cons c rest ih =>
    intro x k j h
    have h1 : ¬ (j = x ∧ key c = k) := by omega
    simp [colAt, h1, ih (x + 1) k j (by omega)]

theorem colAt_ge (cols : List α) : ∀ x k j, x + cols.length ≤ j → colAt key x cols k j = 0 := by
  induction cols with
  | nil => intros; rfl
  | cons c rest ih =>
    intro x k j h
    simp only [List.length_cons] at h
    have h1 : ¬ (j = x ∧ key c = k) := by omega
    simp [colAt, h1, ih (x + 1) k j (by omega)]

/-- inside the row: 1 iff the colour at that column has key `k` -/
theorem colAt_inside (cols : List α) : ∀ x k j (h1 : x ≤ j) (h2 : j - x < cols.length),
    colAt key x cols k j = if key (cols[j - x]) = k then 1 else 0 := by
  induction cols with
  | nil => intro x k j _ h2; simp at h2
  | cons c rest ih =>
    intro x k j h1 h2
    by_cases hj : j = x
    · subst hj
      simp [colAt, colAt_lt key rest (j + 1) k j (by omega)]
    · have hne : ¬ (j = x ∧ key c = k) := fun h => hj h.1
      simp only [List.length_cons] at h2
      have h3 : j - (x + 1) < rest.length := by omega
      simp only [colAt, hne, if_false, Nat.zero_add]
      rw [ih (x + 1) k j (by omega) h3]
      have e : j - x = (j - (x + 1)) + 1 := by omega
      simp [e]

/-- a row: the runs of colour key `k` cover exactly the columns whose colour has key `k`, each once -/
theorem vrowRuns_cover (row : List α) (rs : List (α × Nat × Nat)) (h : vrowRuns key row = some rs) (k : κ) (j : Nat) :
    coverAt (selRuns key k rs) j = colAt key 0 row k j := by
  cases row with
  | nil => simp [vrowRuns] at h
  | cons c rest =>
    simp only [vrowRuns, Option.some.injEq] at h
    subst h
    rw [vrowGo_cover key rest 0 1 c k j (by omega)]
    simp only [colAt, Nat.zero_add]
    by_cases hk : key c = k
    · simp only [hk, if_true, and_true]
      have := ind_single 0 j
      simp only [Nat.zero_add] at this
      rw [this]
    · simp [hk]

/-! ### all rows -/

/-- the runs of colour key `k` among the lines at doubled height `y2` -/
def segsAt (k : κ) (y2 : Int) (lines : List (α × Int × Int × Int)) : List (Nat × Nat) :=
  (lines.filter (fun l => key l.1 = k ∧ l.2.2.1 = y2)).map (fun l => (l.2.1.toNat, l.2.2.2.toNat))

theorem segsAt_append (k : κ) (y2 : Int) (a b : List (α × Int × Int × Int)) :
    segsAt key k y2 (a ++ b) = segsAt key k y2 a ++ segsAt key k y2 b := by
  simp [segsAt, List.filter_append]

theorem segsAt_nil_of (k : κ) (y2 : Int) (a : List (α × Int × Int × Int)) (h : ∀ l ∈ a, l.2.2.1 ≠ y2) :
    segsAt key k y2 a = [] := by
  unfold segsAt
  rw [List.map_eq_nil_iff, List.filter_eq_nil_iff]
  intro l hl
  have := h l hl
  simp [this]

/-- the lines of one row at its own height: the runs of the row -/
theorem segsAt_row (k : κ) (y2 : Int) (rs : List (α × Nat × Nat)) :
    segsAt key k y2 (rs.map (fun r => (r.1, (r.2.1 : Int), y2, (r.2.2 : Int)))) = selRuns key k rs := by
  induction rs with
  | nil => rfl
  | cons r rest ih =>
    rw [List.map_cons, selRuns_cons]
    have e : segsAt key k y2 ((r.1, (r.2.1 : Int), y2, (r.2.2 : Int)) :: rest.map (fun r => (r.1, (r.2.1 : Int), y2, (r.2.2 : Int))))
        = (if key r.1 = k then [r.2] else []) ++ segsAt key k y2 (rest.map (fun r => (r.1, (r.2.1 : Int), y2, (r.2.2 : Int)))) := by
      unfold segsAt
      by_cases h : key r.1 = k <;> simp [List.filter_cons, h]
    rw [e, ih]
    by_cases h : key r.1 = k <;> simp [h]

/-- every line of the rows below lies strictly below `j2` -/
theorem vlinesGo_below (rows : List (List α)) : ∀ (j2 : Int) (lines : List (α × Int × Int × Int)),
    vlinesGo key j2 rows = some lines → ∀ l ∈ lines, j2 < l.2.2.1 := by
  induction rows with
  | nil => intro j2 lines h l hl; simp [vlinesGo] at h; subst h; simp at hl
  | cons row rest ih =>
    intro j2 lines h l hl
    simp only [vlinesGo] at h
    cases hr : vrowRuns key row with
    | none => simp [hr] at h
    | some rs =>
      cases hm : vlinesGo key (j2 + 2) rest with
      | none => simp [hr, hm] at h
      | some more =>
        simp only [hr, hm, Option.some.injEq] at h
        subst h
        rw [List.mem_append] at hl
        rcases hl with hl | hl
        · simp only [List.mem_map] at hl
          obtain ⟨r, _, rfl⟩ := hl
          simp; omega
        · have := ih (j2 + 2) more hm l hl
          omega

/-- row `i` of the colour grid is drawn at doubled height `j2 + 2·(i + 1)`; its lines of colour key `k` are the runs of the row -/
theorem vlinesGo_rows (rows : List (List α)) : ∀ (j2 : Int) (lines : List (α × Int × Int × Int)),
    vlinesGo key j2 rows = some lines → ∀ (i : Nat) (hi : i < rows.length),
      ∃ rs, vrowRuns key (rows[i]) = some rs ∧ ∀ k, segsAt key k (j2 + 2 * ((i : Int) + 1)) lines = selRuns key k rs := by
  induction rows with
  | nil => intro j2 lines _ i hi; simp at hi
  | cons row rest ih =>
    intro j2 lines h i hi
    simp only [vlinesGo] at h
    cases hr : vrowRuns key row with
    | none => simp [hr] at h
    | some rs =>
      cases hm : vlinesGo key (j2 + 2) rest with
      | none => simp [hr, hm] at h
      | some more =>
        simp only [hr, hm, Option.some.injEq] at h
        subst h
        cases i with
        | zero =>
          refine ⟨rs, by simpa using hr, ?_⟩
          intro k
          rw [segsAt_append]
          have e : j2 + 2 * (((0 : Nat) : Int) + 1) = j2 + 2 := by omega
          rw [e, segsAt_row]
          rw [segsAt_nil_of key k (j2 + 2) more]
          · simp
          · intro l hl
            have := vlinesGo_below key rest (j2 + 2) more hm l hl
            omega
        | succ n =>
          have hn : n < rest.length := by simpa using hi
          obtain ⟨rs', hrs', hseg⟩ := ih (j2 + 2) more hm n hn
          refine ⟨rs', by simpa using hrs', ?_⟩
          intro k
          rw [segsAt_append]
          have e : j2 + 2 * (((n + 1 : Nat) : Int) + 1) = j2 + 2 + 2 * ((n : Int) + 1) := by omega
          rw [e, hseg k]
          rw [segsAt_nil_of]
          · simp
          · intro l hl
            simp only [List.mem_map] at hl
            obtain ⟨r, _, rfl⟩ := hl
            simp; omega

/-- no line lies at a height that is not the height of a row -/
theorem vlinesGo_heights (rows : List (List α)) : ∀ (j2 : Int) (lines : List (α × Int × Int × Int)),
    vlinesGo key j2 rows = some lines → ∀ l ∈ lines, ∃ i : Nat, i < rows.length ∧ l.2.2.1 = j2 + 2 * ((i : Int) + 1) := by
  induction rows with
  | nil => intro j2 lines h l hl; simp [vlinesGo] at h; subst h; simp at hl
  | cons row rest ih =>
    intro j2 lines h l hl
    simp only [vlinesGo] at h
    cases hr : vrowRuns key row with
    | none => simp [hr] at h
    | some rs =>
      cases hm : vlinesGo key (j2 + 2) rest with
      | none => simp [hr, hm] at h
      | some more =>
        simp only [hr, hm, Option.some.injEq] at h
        subst h
        rw [List.mem_append] at hl
        rcases hl with hl | hl
        · simp only [List.mem_map] at hl
          obtain ⟨r, _, rfl⟩ := hl
          exact ⟨0, by simp, by simp⟩
        · obtain ⟨i, hi, e⟩ := ih (j2 + 2) more hm l hl
          exact ⟨i + 1, by simpa using hi, by rw [e]; push_cast; omega⟩

/-! ### the `coordinates` / `xy` loop -/

/-- the lines `(x1, 2·y, x2)` of colour key `k`, in order -/
def sel (k : κ) (lines : List (α × Int × Int × Int)) : List (Int × Int × Int) := (lines.filter (fun l => key l.1 = k)).map (·.2)

theorem sel_append (k : κ) (a b : List (α × Int × Int × Int)) : sel key k (a ++ b) = sel key k a ++ sel key k b := by
  simp [sel, List.filter_append]

/-- the pen after drawing the relative triples -/
def penEnd : Int → Int → List (Int × Int × Int) → Int × Int
  | px, py, [] => (px, py)
  | px, py, (dx, dy, len) :: rest => penEnd (px + dx + len) (py + dy) rest

theorem svgAbs_snoc (a : List (Int × Int × Int)) : ∀ (px py : Int) (t : Int × Int × Int),
    svgAbs px py (a ++ [t]) = svgAbs px py a
      ++ [((penEnd px py a).1 + t.1, (penEnd px py a).2 + t.2.1, (penEnd px py a).1 + t.1 + t.2.2)] := by
  induction a with
  | nil => intro px py t; obtain ⟨dx, dy, len⟩ := t; simp [svgAbs, penEnd]
  | cons r rest ih =>
    intro px py t
    obtain ⟨dx, dy, len⟩ := r
    simp only [List.cons_append, svgAbs, penEnd]
    rw [ih]

theorem penEnd_snoc (a : List (Int × Int × Int)) : ∀ (px py : Int) (t : Int × Int × Int),
    penEnd px py (a ++ [t]) = ((penEnd px py a).1 + t.1 + t.2.2, (penEnd px py a).2 + t.2.1) := by
  induction a with
  | nil => intro px py t; obtain ⟨dx, dy, len⟩ := t; simp [penEnd]
  | cons r rest ih =>
    intro px py t
    obtain ⟨dx, dy, len⟩ := r
    simp only [List.cons_append, penEnd]
    rw [ih]

/-- the invariant of the loop after the lines `pre`: distinct keys; every entry's triples absolutise (`svgAbs`,
    pen at the origin) to the lines of its colour key in order and its pen is where they end; every colour seen has an entry -/
def Inv (d : List (Entry α)) (pre : List (α × Int × Int × Int)) : Prop :=
  (d.map (fun e => key e.obj)).Nodup
  ∧ (∀ e ∈ d, svgAbs 0 0 e.coords = sel key (key e.obj) pre ∧ (e.px, e.py2) = penEnd 0 0 e.coords)
  ∧ (∀ l ∈ pre, ∃ e ∈ d, key e.obj = key l.1)

theorem inv_nil : Inv key ([] : List (Entry α)) [] := by
  refine ⟨by simp, ?_, ?_⟩ <;> intro _ h <;> simp at h

theorem inv_step (d : List (Entry α)) (pre : List (α × Int × Int × Int)) (l : α × Int × Int × Int) (h : Inv key d pre) :
    Inv key (accumStep key d l) (pre ++ [l]) := by
  obtain ⟨hnd, hent, hall⟩ := h
  obtain ⟨c, x1, y2, x2⟩ := l
  unfold accumStep
  by_cases hany : (d.any (fun e => decide (key e.obj = key c))) = true
  · -- the colour has an entry: it is extended, the others stay
    rw [if_pos hany]
    refine ⟨?_, ?_, ?_⟩
    · have : (d.map (fun e => if key e.obj = key c then
          ({ e with px := x2, py2 := y2, coords := e.coords ++ [(x1 - e.px, y2 - e.py2, x2 - x1)] } : Entry α) else e)).map (fun e => key e.obj)
          = d.map (fun e => key e.obj) := by
        rw [List.map_map]
        apply List.map_congr_left
        intro e _
        simp only [Function.comp]
        split <;> rfl
      rw [this]; exact hnd
    · intro e' he'
      simp only [List.mem_map] at he'
      obtain ⟨e, he, rfl⟩ := he'
      obtain ⟨habs, hpen⟩ := hent e he
      by_cases hk : key e.obj = key c
      · simp only [hk, if_true]
        have hpx : (penEnd 0 0 e.coords).1 = e.px := by rw [← hpen]
        have hpy : (penEnd 0 0 e.coords).2 = e.py2 := by rw [← hpen]
        constructor
        · rw [svgAbs_snoc, sel_append, habs, hk, hpx, hpy]
          have : sel key (key c) [(c, x1, y2, x2)] = [(x1, y2, x2)] := by simp [sel]
          rw [this]
          congr 2
          simp only [Prod.mk.injEq]
          refine ⟨by omega, by omega, by omega⟩
        · rw [penEnd_snoc, hpx, hpy]
          simp only [Prod.mk.injEq]
          constructor <;> omega
      · simp only [hk, if_false]
        refine ⟨?_, hpen⟩
        rw [sel_append, habs]
        have hck : ¬ key c = key e.obj := fun h => hk h.symm
        have : sel key (key e.obj) [(c, x1, y2, x2)] = [] := by
          simp [sel, hck]
        rw [this, List.append_nil]
    · intro l hl
      rw [List.mem_append] at hl
      have hkeep : ∀ e ∈ d, ∃ e' ∈ d.map (fun e => if key e.obj = key c then
          ({ e with px := x2, py2 := y2, coords := e.coords ++ [(x1 - e.px, y2 - e.py2, x2 - x1)] } : Entry α) else e), key e'.obj = key e.obj := by
        intro e he
        refine ⟨_, List.mem_map_of_mem he, ?_⟩
        split <;> rfl
      rcases hl with hl | hl
      · obtain ⟨e, he, hek⟩ := hall l hl
        obtain ⟨e', he', hk'⟩ := hkeep e he
        exact ⟨e', he', hk'.trans hek⟩
      · simp only [List.mem_singleton] at hl
        subst hl
        rw [List.any_eq_true] at hany
        obtain ⟨e, he, hek⟩ := hany
        obtain ⟨e', he', hk'⟩ := hkeep e he
        exact ⟨e', he', hk'.trans (by simpa using hek)⟩
  · -- a new colour: a new entry at the end
    rw [if_neg hany]
    have hnone : ∀ e ∈ d, key e.obj ≠ key c := by
      intro e he hk
      apply hany
      rw [List.any_eq_true]
      exact ⟨e, he, by simpa using hk⟩
    have hselnil : sel key (key c) pre = [] := by
      unfold sel
      rw [List.map_eq_nil_iff, List.filter_eq_nil_iff]
      intro l hl
      obtain ⟨e, he, hek⟩ := hall l hl
      have := hnone e he
      simp only [decide_eq_true_eq]
      intro hk
      exact this (hek.trans hk)
    refine ⟨?_, ?_, ?_⟩
    · rw [List.map_append, List.nodup_append]
      refine ⟨hnd, by simp, ?_⟩
      intro a ha b hb
      simp only [List.map_cons, List.map_nil, List.mem_singleton] at hb
      subst hb
      simp only [List.mem_map] at ha
      obtain ⟨e, he, rfl⟩ := ha
      exact hnone e he
    · intro e he
      rw [List.mem_append] at he
      rcases he with he | he
      · obtain ⟨habs, hpen⟩ := hent e he
        refine ⟨?_, hpen⟩
        rw [sel_append, habs]
        have hck : ¬ key c = key e.obj := fun h => hnone e he h.symm
        have : sel key (key e.obj) [(c, x1, y2, x2)] = [] := by
          simp [sel, hck]
        rw [this, List.append_nil]
      · simp only [List.mem_singleton] at he
        subst he
        simp only
        constructor
        · rw [sel_append, hselnil]
          simp [sel, svgAbs]; omega
        · simp [penEnd]; omega
    · intro l hl
      rw [List.mem_append] at hl
      rcases hl with hl | hl
      · obtain ⟨e, he, hek⟩ := hall l hl
        exact ⟨e, List.mem_append_left _ he, hek⟩
      · simp only [List.mem_singleton] at hl
        subst hl
        exact ⟨_, List.mem_append_right _ (List.mem_singleton.2 rfl), rfl⟩

theorem inv_foldl (rest : List (α × Int × Int × Int)) : ∀ (d : List (Entry α)) (pre : List (α × Int × Int × Int)),
    Inv key d pre → Inv key (rest.foldl (accumStep key) d) (pre ++ rest) := by
  induction rest with
  | nil => intro d pre h; simpa using h
  | cons l rest ih =>
    intro d pre h
    have := ih (accumStep key d l) (pre ++ [l]) (inv_step key d pre l h)
    simpa [List.foldl_cons, List.append_assoc] using this

theorem inv_accumulate (lines : List (α × Int × Int × Int)) : Inv key (accumulate key lines) lines := by
  have := inv_foldl key lines [] [] (inv_nil key)
  simpa [accumulate] using this

/-! ### rasterising an absolutised path -/

/-- the segments `(x1, x2)` of absolute lines that lie on grid row `i` (centre line y = i + ½) -/
def rowSegs (abs : List (Int × Int × Int)) (i : Nat) : List (Nat × Nat) :=
  (abs.filter (fun t => t.2.1 = 2 * (i : Int) + 1)).map (fun t => (t.1.toNat, t.2.2.toNat))

theorem rowSegs_sel (k : κ) (lines : List (α × Int × Int × Int)) (i : Nat) :
    rowSegs (sel key k lines) i = segsAt key k (2 * (i : Int) + 1) lines := by
  unfold rowSegs sel segsAt
  rw [List.filter_map, List.map_map, List.filter_filter]
  congr 1
  apply List.filter_congr
  intro l _
  simp [Function.comp, Bool.and_comm]

end generic

/-- `mapM` over `Except`: same length, element-wise results -/
theorem mapM_ok {β γ : Type} (f : β → R γ) : ∀ (l : List β) (l' : List γ), l.mapM f = .ok l' →
    l'.length = l.length ∧ ∀ (i : Nat) (h : i < l.length) (h' : i < l'.length), f (l[i]) = .ok (l'[i]) := by
  intro l
  induction l with
  | nil =>
    intro l' h
    simp only [List.mapM_nil, pure, Except.pure, Except.ok.injEq] at h
    subst h
    exact ⟨rfl, fun i h => by simp at h⟩
  | cons a rest ih =>
    intro l' h
    rw [List.mapM_cons] at h
    cases ha : f a with
    | error e => rw [ha] at h; cases h
    | ok b =>
      cases hr : rest.mapM f with
      | error e => rw [ha, hr] at h; cases h
      | ok bs =>
        rw [ha, hr] at h
        simp only [bind, Except.bind, pure, Except.pure, Except.ok.injEq] at h
        subst h
        obtain ⟨hlen, hel⟩ := ih bs hr
        refine ⟨by simp [hlen], ?_⟩
        intro i hi hi'
        cases i with
        | zero => simpa using ha
        | succ n => simpa using hel n (by simpa using hi) (by simpa using hi')

/-- all elements of a list with one distinct key have the same key -/
theorem distinct_one {α κ : Type} [DecidableEq κ] (key : α → κ) (l : List α) (h : distinctCount key l = 1) (x y : α) (hx : x ∈ l) (hy : y ∈ l) :
    key x = key y := by
  unfold distinctCount at h
  match hl : (l.map key).eraseDups, h with
  | [a], _ =>
    have hx' : key x ∈ (l.map key).eraseDups := List.mem_eraseDups.2 (List.mem_map_of_mem hx)
    have hy' : key y ∈ (l.map key).eraseDups := List.mem_eraseDups.2 (List.mem_map_of_mem hy)
    rw [hl] at hx' hy'
    simp only [List.mem_singleton] at hx' hy'
    rw [hx', hy']

end Proofs.SvgColorful
