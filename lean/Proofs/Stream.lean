/-
  Proofs.Stream — helper lemmas for C13 (terminator, padding bits, pad codewords).
  `Model.finishStream` versus `Spec.isoTail` / `Spec.d1Tail`.
-/
import Spec.Decode
import Model.Encoder

namespace Proofs.Stream

open Model Spec

/-! ### table facts -/

/-- row check of `consts.SYMBOL_CAPACITY`: version in range, capacity ≡ 4 (mod 8) for M1/M3 and
    ≡ 0 (mod 8) otherwise, with the minimal sizes 20 / 32 -/
def capRowOk (x : Int × Int × Nat) : Bool :=
  decide (-3 ≤ x.1) && decide (x.1 ≤ 40) &&
  (if x.1 == -3 || x.1 == -1 then x.2.2 % 8 == 4 && decide (20 ≤ x.2.2)
   else x.2.2 % 8 == 0 && decide (32 ≤ x.2.2))

theorem cap_table_ok : Gen.SYMBOL_CAPACITY.all capRowOk = true := by decide +kernel

theorem cap_facts {v : Int} {cap : Nat} (e : Option Nat) (h : Model.capacity v e = some cap) :
    -3 ≤ v ∧ v ≤ 40 ∧
      (Spec.fourBitFinal v = true → cap % 8 = 4 ∧ 20 ≤ cap) ∧
      (Spec.fourBitFinal v = false → cap % 8 = 0 ∧ 32 ≤ cap) := by
  unfold Model.capacity Model.lookup2 at h
  rw [Option.map_eq_some_iff] at h
  obtain ⟨x, hx, rfl⟩ := h
  have hm := List.mem_of_find?_eq_some hx
  have hp := List.find?_some hx
  have hok := List.all_eq_true.mp cap_table_ok x hm
  simp only [Bool.and_eq_true, beq_iff_eq] at hp
  obtain ⟨hv, -⟩ := hp
  subst hv
  unfold capRowOk at hok
  unfold Spec.fourBitFinal
  simp only [Bool.and_eq_true, decide_eq_true_eq] at hok
  obtain ⟨⟨h1, h2⟩, h3⟩ := hok
  refine ⟨h1, h2, ?_, ?_⟩
  · intro hf
    rw [if_pos hf] at h3
    simpa using h3
  · intro hf
    rw [if_neg (by simp [hf])] at h3
    simpa using h3

theorem isM1M3_eq (v : Int) : Model.isM1M3 v = Spec.fourBitFinal v := rfl

theorem terminator_length (v : Int) (h1 : -3 ≤ v) (h2 : v ≤ 40) :
    Model.terminatorLength v = some (Spec.terminatorLen v) := by
  unfold Model.terminatorLength Spec.terminatorLen
  by_cases hv : v > 0
  · rw [if_pos hv, if_pos hv]; decide
  · rw [if_neg hv, if_neg hv]
    have : v = -3 ∨ v = -2 ∨ v = -1 ∨ v = 0 := by omega
    rcases this with rfl | rfl | rfl | rfl <;> decide

theorem remainder_bits_nat :
    ∀ n : Nat, n < 44 → Gen.remainder_bits ((n : Int) - 3) = (Spec.remainderBits ((n : Int) - 3) : Int) := by
  decide +kernel

theorem remainder_bits (v : Int) (h1 : -3 ≤ v) (h2 : v ≤ 40) :
    Gen.remainder_bits v = (Spec.remainderBits v : Int) := by
  have h := remainder_bits_nat (v + 3).toNat (by omega)
  have e : (((v + 3).toNat : Nat) : Int) - 3 = v := by omega
  rw [e] at h
  exact h

/-! ### pad codewords -/

theorem pad_flatten (k : Nat) :
    ((List.range k).map Model.padCodeword).flatten = Spec.padCodewords k := by
  induction k with
  | zero => rfl
  | succ n ih =>
    rw [List.range_succ, List.map_append, List.flatten_append, ih]
    simp [Spec.padCodewords, Model.padCodeword]

theorem padCodewords_length (k : Nat) : (Spec.padCodewords k).length = 8 * k := by
  induction k with
  | zero => rfl
  | succ n ih =>
    simp only [Spec.padCodewords, List.length_append, ih]
    split <;> simp <;> omega

/-! ### normal forms of `finishStream` -/

/-- QR, M2, M4: terminator, then ALWAYS `8 - length % 8` zero bits (D1), then pad codewords -/
theorem finish_qr (buff : List Nat) (v : Int) (cap : Nat) (h1 : -3 ≤ v) (h2 : v ≤ 40)
    (hf : Spec.fourBitFinal v = false) :
    Model.finishStream buff v cap = .ok
      (buff ++ List.replicate
          (min (cap - buff.length) (Spec.terminatorLen v)
            + (8 - (buff.length + min (cap - buff.length) (Spec.terminatorLen v)) % 8)) 0
        ++ Spec.padCodewords (cap / 8 -
            (buff.length + min (cap - buff.length) (Spec.terminatorLen v)
              + (8 - (buff.length + min (cap - buff.length) (Spec.terminatorLen v)) % 8)) / 8)) := by
  unfold Model.finishStream
  rw [terminator_length v h1 h2]
  simp only [isM1M3_eq, hf, pad_flatten, ← List.replicate_append_replicate, List.length_append,
    List.length_replicate, List.append_assoc, Nat.add_assoc, Bool.not_false, if_true, Bool.false_eq_true, if_false]
  rfl

/-- M1, M3: terminator, zero bits to the codeword boundary (at most up to the capacity), pad
    codewords, zero bits up to the capacity -/
theorem finish_m13 (buff : List Nat) (v : Int) (cap : Nat) (h1 : -3 ≤ v) (h2 : v ≤ 40)
    (hf : Spec.fourBitFinal v = true) :
    Model.finishStream buff v cap = .ok
      (buff ++ List.replicate
          (min (cap - buff.length) (Spec.terminatorLen v)
            + min ((8 - (buff.length + min (cap - buff.length) (Spec.terminatorLen v)) % 8) % 8)
                (cap - (buff.length + min (cap - buff.length) (Spec.terminatorLen v)))) 0
        ++ Spec.padCodewords ((cap -
            (buff.length + min (cap - buff.length) (Spec.terminatorLen v)
              + min ((8 - (buff.length + min (cap - buff.length) (Spec.terminatorLen v)) % 8) % 8)
                  (cap - (buff.length + min (cap - buff.length) (Spec.terminatorLen v))))) / 8)
        ++ List.replicate (cap -
            (buff.length + min (cap - buff.length) (Spec.terminatorLen v)
              + min ((8 - (buff.length + min (cap - buff.length) (Spec.terminatorLen v)) % 8) % 8)
                  (cap - (buff.length + min (cap - buff.length) (Spec.terminatorLen v)))
              + 8 * ((cap -
                (buff.length + min (cap - buff.length) (Spec.terminatorLen v)
                  + min ((8 - (buff.length + min (cap - buff.length) (Spec.terminatorLen v)) % 8) % 8)
                      (cap - (buff.length + min (cap - buff.length) (Spec.terminatorLen v))))) / 8))) 0) := by
  unfold Model.finishStream
  rw [terminator_length v h1 h2]
  simp only [isM1M3_eq, hf, pad_flatten, padCodewords_length, ← List.replicate_append_replicate, List.length_append,
    List.length_replicate, List.append_assoc, Nat.add_assoc, Bool.not_true, if_true, Bool.false_eq_true, if_false]
  rfl

/-! ### comparison with the ISO tail -/

theorem tail_eq3 (buff : List Nat) (n1 n2 k1 k2 m1 m2 : Nat) (hn : n1 = n2) (hk : k1 = k2)
    (hm : m1 = m2) :
    buff ++ List.replicate n1 0 ++ Spec.padCodewords k1 ++ List.replicate m1 0
      = buff ++ (List.replicate n2 0 ++ Spec.padCodewords k2 ++ List.replicate m2 0) := by
  subst hn hk hm; simp only [List.append_assoc]

theorem tail_eq2 (buff : List Nat) (n1 n2 k1 k2 m2 : Nat) (hn : n1 = n2) (hk : k1 = k2)
    (hm : m2 = 0) :
    buff ++ List.replicate n1 0 ++ Spec.padCodewords k1
      = buff ++ (List.replicate n2 0 ++ Spec.padCodewords k2 ++ List.replicate m2 0) := by
  subst hn hk hm; simp

theorem tail_eq1 (buff : List Nat) (n1 n2 k1 m1 : Nat) (hn : n1 + m1 = n2) (hk : k1 = 0) :
    buff ++ List.replicate n1 0 ++ Spec.padCodewords k1 ++ List.replicate m1 0
      = buff ++ List.replicate n2 0 := by
  subst hn hk; simp [Spec.padCodewords]

/-- outside "not M1/M3 and the terminated stream is codeword-aligned" the model produces exactly
    segments ++ ISO tail -/
theorem finish_iso (buff : List Nat) (v : Int) (cap : Nat) (e : Option Nat)
    (hc : Model.capacity v e = some cap) (hl : buff.length ≤ cap)
    (hcond : Spec.fourBitFinal v = true ∨
      (buff.length + min (cap - buff.length) (Spec.terminatorLen v)) % 8 ≠ 0) :
    Model.finishStream buff v cap = .ok (buff ++ Spec.isoTail v cap buff.length) := by
  obtain ⟨h1, h2, hc4, hc0⟩ := cap_facts e hc
  cases hf : Spec.fourBitFinal v with
  | false =>
    obtain ⟨hm, hge⟩ := hc0 hf
    have hne : (buff.length + min (cap - buff.length) (Spec.terminatorLen v)) % 8 ≠ 0 := by
      rcases hcond with h | h
      · rw [hf] at h; cases h
      · exact h
    rw [finish_qr buff v cap h1 h2 hf]
    unfold Spec.isoTail
    simp only [hf, Bool.false_eq_true, if_false]
    rw [if_neg (by omega)]
    exact congrArg Except.ok (tail_eq2 _ _ _ _ _ _ (by omega) (by omega) (by omega))
  | true =>
    obtain ⟨hm, hge⟩ := hc4 hf
    rw [finish_m13 buff v cap h1 h2 hf]
    unfold Spec.isoTail
    simp only [hf, if_true]
    split
    · exact congrArg Except.ok (tail_eq1 _ _ _ _ _ (by omega) (by omega))
    · exact congrArg Except.ok (tail_eq3 _ _ _ _ _ _ _ (by omega) (by omega) (by omega))

theorem isoTail_length (v : Int) (cap len : Nat) (e : Option Nat)
    (hc : Model.capacity v e = some cap) (hl : len ≤ cap) :
    len + (Spec.isoTail v cap len).length = cap := by
  obtain ⟨h1, h2, hc4, hc0⟩ := cap_facts e hc
  unfold Spec.isoTail
  cases hf : Spec.fourBitFinal v with
  | false =>
    obtain ⟨hm, hge⟩ := hc0 hf
    simp only [Bool.false_eq_true, if_false]
    split
    · simp only [List.length_replicate]; omega
    · simp only [List.length_append, List.length_replicate, padCodewords_length]; omega
  | true =>
    obtain ⟨hm, hge⟩ := hc4 hf
    simp only [if_true]
    split
    · simp only [List.length_replicate]; omega
    · simp only [List.length_append, List.length_replicate, padCodewords_length]; omega

/-- D1: not M1/M3 and the terminated stream is codeword-aligned: a whole zero codeword is appended -/
theorem finish_d1 (buff : List Nat) (v : Int) (cap : Nat) (e : Option Nat)
    (hc : Model.capacity v e = some cap)
    (hf : Spec.fourBitFinal v = false)
    (hal : (buff.length + min (cap - buff.length) (Spec.terminatorLen v)) % 8 = 0) :
    Model.finishStream buff v cap = .ok
      (buff ++ List.replicate (min (cap - buff.length) (Spec.terminatorLen v) + 8) 0
        ++ Spec.padCodewords
            ((cap - (buff.length + min (cap - buff.length) (Spec.terminatorLen v)) - 8) / 8)) := by
  obtain ⟨h1, h2, hc4, hc0⟩ := cap_facts e hc
  obtain ⟨hm, hge⟩ := hc0 hf
  rw [finish_qr buff v cap h1 h2 hf]
  have hn : min (cap - buff.length) (Spec.terminatorLen v)
      + (8 - (buff.length + min (cap - buff.length) (Spec.terminatorLen v)) % 8)
      = min (cap - buff.length) (Spec.terminatorLen v) + 8 := by omega
  have hk : cap / 8 - (buff.length + min (cap - buff.length) (Spec.terminatorLen v)
      + (8 - (buff.length + min (cap - buff.length) (Spec.terminatorLen v)) % 8)) / 8
      = (cap - (buff.length + min (cap - buff.length) (Spec.terminatorLen v)) - 8) / 8 := by omega
  rw [hn, hk]

theorem d1Tail_eq_isoTail (v : Int) (cap len : Nat)
    (h : Spec.d1Trigger v cap len = false) : Spec.d1Tail v cap len = Spec.isoTail v cap len := by
  unfold Spec.d1Trigger at h
  unfold Spec.d1Tail
  simp only [Bool.and_eq_false_iff, Bool.not_eq_false', beq_eq_false_iff_ne, decide_eq_false_iff_not] at h
  simp only [Bool.or_eq_true, bne_iff_ne, decide_eq_true_eq]
  rw [if_pos]
  rcases h with h | h
  · exact Or.inl h
  · exact Or.inr (by omega)

theorem take_zero_codeword (buff : List Nat) (t : Nat) :
    (buff ++ List.replicate (t + 8) 0 ++ Spec.padCodewords 0).take (buff.length + t)
      = buff ++ List.replicate t 0 := by
  have h : buff.take (buff.length + t) = buff := List.take_of_length_le (Nat.le_add_right _ _)
  simp [Spec.padCodewords, List.take_append, List.take_replicate, h]

/-- the model's stream, cut to the capacity, is segments ++ (ISO tail or the D1 deviation) -/
theorem finish_take (buff s : List Nat) (v : Int) (cap : Nat) (e : Option Nat)
    (hc : Model.capacity v e = some cap) (hl : buff.length ≤ cap)
    (h : Model.finishStream buff v cap = .ok s) :
    s.take cap = buff ++ Spec.d1Tail v cap buff.length ∧ cap ≤ s.length := by
  obtain ⟨h1, h2, hc4, hc0⟩ := cap_facts e hc
  have hlen := isoTail_length v cap buff.length e hc hl
  by_cases hcond : Spec.fourBitFinal v = true ∨
      (buff.length + min (cap - buff.length) (Spec.terminatorLen v)) % 8 ≠ 0
  · -- no deviation
    have htr : Spec.d1Trigger v cap buff.length = false := by
      unfold Spec.d1Trigger
      rcases hcond with h | h
      · simp [h]
      · simp [h]
    rw [finish_iso buff v cap e hc hl hcond] at h
    cases h
    rw [d1Tail_eq_isoTail v cap _ htr]
    have hs : (buff ++ Spec.isoTail v cap buff.length).length = cap := by
      rw [List.length_append]; exact hlen
    exact ⟨List.take_of_length_le (by omega), by omega⟩
  · have hf : Spec.fourBitFinal v = false := by
      cases hf : Spec.fourBitFinal v with
      | false => rfl
      | true => exact absurd (Or.inl hf) hcond
    have hal : (buff.length + min (cap - buff.length) (Spec.terminatorLen v)) % 8 = 0 := by omega
    obtain ⟨hm, hge⟩ := hc0 hf
    rw [finish_d1 buff v cap e hc hf hal] at h
    cases h
    by_cases hlt : buff.length + min (cap - buff.length) (Spec.terminatorLen v) < cap
    · -- D1 trigger: the stream has exactly `cap` bits
      have hd : Spec.d1Tail v cap buff.length
          = List.replicate (min (cap - buff.length) (Spec.terminatorLen v) + 8) 0
            ++ Spec.padCodewords
              ((cap - (buff.length + min (cap - buff.length) (Spec.terminatorLen v)) - 8) / 8) := by
        unfold Spec.d1Tail
        simp only [hf, Bool.false_or, Bool.or_eq_true, bne_iff_ne, decide_eq_true_eq]
        rw [if_neg (by omega)]
      rw [hd, ← List.append_assoc]
      have hs : (buff ++ List.replicate (min (cap - buff.length) (Spec.terminatorLen v) + 8) 0
          ++ Spec.padCodewords
            ((cap - (buff.length + min (cap - buff.length) (Spec.terminatorLen v)) - 8) / 8)).length
          = cap := by
        simp only [List.length_append, List.length_replicate, padCodewords_length]; omega
      exact ⟨List.take_of_length_le (by omega), by omega⟩
    · -- the terminated stream fills the capacity: 8 surplus zero bits
      have htr : Spec.d1Trigger v cap buff.length = false := by
        unfold Spec.d1Trigger
        simp only [Bool.and_eq_false_iff, decide_eq_false_iff_not]
        exact Or.inr hlt
      rw [d1Tail_eq_isoTail v cap _ htr]
      have hk : (cap - (buff.length + min (cap - buff.length) (Spec.terminatorLen v)) - 8) / 8 = 0 := by
        omega
      have hcap : cap = buff.length + min (cap - buff.length) (Spec.terminatorLen v) := by omega
      have hiso : Spec.isoTail v cap buff.length
          = List.replicate (min (cap - buff.length) (Spec.terminatorLen v)) 0 := by
        unfold Spec.isoTail
        simp only [hf, Bool.false_eq_true, if_false]
        rw [if_pos (by omega)]
        congr 1; omega
      rw [hk, hiso]
      constructor
      · conv => lhs; arg 1; rw [hcap]
        exact take_zero_codeword buff _
      · simp only [List.length_append, List.length_replicate, padCodewords_length]; omega

theorem finish_total (v : Int) (cap : Nat) (buff : List Nat) (h1 : -3 ≤ v) (h2 : v ≤ 40) :
    ∃ s, Model.finishStream buff v cap = .ok s := by
  cases hf : Spec.fourBitFinal v with
  | false => exact ⟨_, finish_qr buff v cap h1 h2 hf⟩
  | true => exact ⟨_, finish_m13 buff v cap h1 h2 hf⟩

/-! ### the deviation is real -/

theorem padCodewords_succ_head (k : Nat) : ∃ r, Spec.padCodewords (k + 1) = 1 :: r := by
  induction k with
  | zero => exact ⟨_, rfl⟩
  | succ n ih =>
    obtain ⟨r, hr⟩ := ih
    rw [Spec.padCodewords, hr]
    exact ⟨_, List.cons_append⟩

/-- not M1/M3 and terminated stream codeword-aligned: the model's stream is NOT segments ++ ISO tail
    (either 8 surplus bits, or 00000000 where ISO has 11101100) -/
theorem finish_ne_iso (buff : List Nat) (v : Int) (cap : Nat) (e : Option Nat)
    (hc : Model.capacity v e = some cap) (hl : buff.length ≤ cap)
    (hf : Spec.fourBitFinal v = false)
    (hal : (buff.length + min (cap - buff.length) (Spec.terminatorLen v)) % 8 = 0) :
    Model.finishStream buff v cap ≠ .ok (buff ++ Spec.isoTail v cap buff.length) := by
  obtain ⟨h1, h2, hc4, hc0⟩ := cap_facts e hc
  obtain ⟨hm, hge⟩ := hc0 hf
  have hlen := isoTail_length v cap buff.length e hc hl
  rw [finish_d1 buff v cap e hc hf hal]
  intro heq
  have heq := Except.ok.inj heq
  by_cases hlt : buff.length + min (cap - buff.length) (Spec.terminatorLen v) < cap
  · have hiso : Spec.isoTail v cap buff.length
        = List.replicate (min (cap - buff.length) (Spec.terminatorLen v)) 0
          ++ Spec.padCodewords ((cap - (buff.length + min (cap - buff.length) (Spec.terminatorLen v)) - 8) / 8 + 1) := by
      unfold Spec.isoTail
      simp only [hf, Bool.false_eq_true, if_false]
      rw [if_neg (by omega)]
      have e1 : min (cap - buff.length) (Spec.terminatorLen v) +
          (8 - (buff.length + min (cap - buff.length) (Spec.terminatorLen v)) % 8) % 8
          = min (cap - buff.length) (Spec.terminatorLen v) := by omega
      have e2 : (cap - (buff.length + min (cap - buff.length) (Spec.terminatorLen v) +
          (8 - (buff.length + min (cap - buff.length) (Spec.terminatorLen v)) % 8) % 8)) / 8
          = (cap - (buff.length + min (cap - buff.length) (Spec.terminatorLen v)) - 8) / 8 + 1 := by
        omega
      rw [e1, e2, Nat.sub_self]
      simp
    obtain ⟨r, hr⟩ := padCodewords_succ_head
      ((cap - (buff.length + min (cap - buff.length) (Spec.terminatorLen v)) - 8) / 8)
    rw [hiso, hr, ← List.replicate_append_replicate] at heq
    simp only [List.append_assoc] at heq
    have h3 := List.append_cancel_left (List.append_cancel_left heq)
    have h4 : List.replicate 8 0 = 0 :: List.replicate 7 0 := rfl
    rw [h4, List.cons_append] at h3
    have h5 := (List.cons.inj h3).1
    omega
  · have h6 := congrArg List.length heq
    simp only [List.length_append, List.length_replicate, padCodewords_length] at h6
    omega

end Proofs.Stream
