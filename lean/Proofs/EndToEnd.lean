/-
  Proofs.EndToEnd — helper lemmas for Props/EndToEnd.lean, part 8: all layers composed for one
  accepted input of `Model.encode`.
  (Parts: EndToEndSeg — merging / prepare_data; EndToEndStages — inversion of encode / _encode;
  EndToEndStream — stream parses; EndToEndBlocks — RS blocks; EndToEndMatrix / EndToEndHeader /
  EndToEndFinal — placement, header, function patterns.)
-/
import Spec.Decode
import Model.Encoder
import Props.C03Message
import Props.C01Placement
import Proofs.EndToEndFinal

namespace Proofs.EndToEnd
open Model
set_option linter.unusedVariables false
set_option linter.unusedSimpArgs false

/-- everything the reference reader finds in the symbol of an accepted input, stated along the data
    path of `_encode` (written segments → padded stream → final message → matrix) -/
theorem encode_all (parts : List Part) (error : Option Nat) (version : Option Int)
    (mode : Option Nat) (mask : Option Nat) (eci : Bool) (micro : Option Bool) (boost : Bool)
    (f : String → Option Nat) (c : Code)
    (hp : ∀ p ∈ parts, (∀ b ∈ p.data, b < 256) ∧ p.data ≠ [] ∧ p.mode ∈ [none, some 1, some 2, some 4, some 8, some 13])
    (hf : ∀ enc n, f enc = some n → n < 128)
    (h : encode parts error version mode mask eci micro boost f = .ok c) :
    ∃ segBits cap stream final,
      (c.segments.mapM (fun s => writeSegment s c.version eci f) = .ok segBits
        ∧ capacity c.version c.error = some cap
        ∧ finishStream segBits.flatten c.version cap = .ok stream
        ∧ makeFinalMessage c.version c.error stream = .ok final)
      ∧ prepareData parts = .ok c.segments
      ∧ segBits.flatten.length ≤ cap ∧ cap ≤ stream.length
      ∧ (∃ p, Spec.parseStream c.version (stream.take cap) = .ok p ∧ p.sa = none
          ∧ (p.segments.map (·.bytes)).flatten = (parts.map (·.data)).flatten
          ∧ (eci = false → ∀ s ∈ p.segments, s.eci = none)
          ∧ (stream.take cap).drop p.endPos = Spec.d1Tail c.version cap p.endPos)
      ∧ (∃ b, Spec.splitBlocks c.version (lvlKey c.error) final = .ok b ∧ Spec.badBlocks b = 0
          ∧ Spec.allZero b.remainder = true ∧ Spec.dataStream c.version b = stream.take cap)
      ∧ Spec.readDataBits c.version c.mask c.matrix = final
      ∧ Spec.readHeader c.matrix = .ok { version := c.version, level := lvlKey c.error, mask := c.mask }
      ∧ Spec.functionPatternsOk c.version c.matrix = none := by
  obtain ⟨segs, hprep, ⟨st⟩, hev, h1, h2, hfit⟩ := encode_stages _ _ _ _ _ _ _ _ _ _ h
  have hsegs := st.hsegs
  obtain ⟨hfit', hcl, hparse⟩ := stream_parses parts segs c.version mask eci f c st hp hprep h1 h2 hev hfit hf
  obtain ⟨hbin, hblocks⟩ := blocks_valid parts segs c.version mask eci f c st hp hprep h1 h2 hfit' hcl
  -- the final message fills the encoding region
  obtain ⟨ecc, hecc⟩ := Proofs.Message.ecc_of_ok _ _ _ _ st.hfinal
  have hl1 := Props.C03.final_message_length c.version c.error st.cap st.stream st.final h1 h2 st.hcap hcl st.hfinal ecc hecc
  have hl2 := Props.C01.data_cell_count c.version (lvlKey c.error) ecc h1 h2 hecc
  have hlen : st.final.length = (Spec.dataCoords c.version).length := by
    generalize (if Spec.fourBitFinal c.version = true then 4 else 0) = z at hl1 hl2
    omega
  have ch : Chain c.version c.error mask c.mask st.final c.matrix :=
    ⟨st.m0, st.m1, st.m2, st.m3, by have := st.hm0; rwa [calc_size c.version h1 h2] at this, st.hm1, st.hm2, st.hm3, st.hm4⟩
  refine ⟨st.segBits, st.cap, st.stream, st.final, ⟨by rw [hsegs]; exact st.hw, st.hcap, st.hstream, st.hfinal⟩,
    by rw [hsegs]; exact hprep, hfit', hcl, hparse, hblocks,
    chain_data _ _ _ _ _ _ ch h1 h2 hbin hlen,
    chain_header _ _ _ _ _ _ ch h1 h2 hbin hlen st.cap st.hcap,
    chain_fn _ _ _ _ _ _ ch h1 h2 hbin hlen st.cap st.hcap⟩


/-- `Spec.decode` assembled from its parts -/
theorem decode_eq (m : Spec.Matrix) (hdr : Spec.Header) (b : Spec.Blocks)
    (hh : Spec.readHeader m = .ok hdr)
    (hs : Spec.splitBlocks hdr.version hdr.level (Spec.readDataBits hdr.version hdr.mask m) = .ok b) :
    Spec.decode m = .ok {
      header := hdr, fnBad := Spec.functionPatternsOk hdr.version m, blocks := b,
      badBlocks := Spec.badBlocks b, stream := Spec.dataStream hdr.version b,
      parsed := Spec.parseStream hdr.version (Spec.dataStream hdr.version b) } := by
  unfold Spec.decode
  simp only [hh, hs, bind, Except.bind, pure, Except.pure]

end Proofs.EndToEnd
