/-
  Proofs.TieA3Place — `add_codewords` (third round of Tie A): the three nested loops of the translation (two-module
  wide columns from right to left, `right -= 1` to skip the vertical timing pattern, rows upwards / downwards, the two
  modules of a column) with the state (idx, matrix), against `Model.addCodewords`, a fold over the list of visited
  coordinates `Model.codewordCoords` with the state (matrix, remaining bits).
-/
import Proofs.TieA3Mask
import Proofs.TieA2Scores

namespace Proofs.TieA3
open Gen.Py Proofs.TieA Proofs.TieA2 Model

/-! ### loops over mapped lists with a state that is the image of a model state -/

theorem foldlM_map_inv {σ τ α : Type} (emb : τ → σ) (Inv : τ → Prop) (f : τ → α → τ) (g : α → Int) (P : α → Prop)
    (body : σ → Int → M σ)
    (hstep : ∀ t x, P x → Inv t → body (emb t) (g x) = .ok (emb (f t x)) ∧ Inv (f t x)) :
    ∀ (L : List α), (∀ x ∈ L, P x) → ∀ (s0 : σ) (t : τ), s0 = emb t → Inv t →
      foldlM (L.map g) s0 body = .ok (emb (L.foldl f t)) ∧ Inv (L.foldl f t) := by
  intro L
  induction L with
  | nil => intro _ s0 t h0 hinv; subst h0; exact ⟨rfl, hinv⟩
  | cons x xs ih =>
    intro hP s0 t h0 hinv
    subst h0
    obtain ⟨h1, h2⟩ := hstep t x (hP x (by simp)) hinv
    rw [List.map_cons, foldlM_cons, h1]
    exact ih (fun y hy => hP y (by simp [hy])) _ _ rfl h2

/-- a simulation carries over to folds -/
theorem foldl_sim {τ ρ α : Type} (sim : τ → ρ) (f : τ → α → τ) (F : ρ → α → ρ) (h : ∀ t x, sim (f t x) = F (sim t) x) (L : List α) :
    ∀ t, sim (L.foldl f t) = L.foldl F (sim t) := by
  induction L with
  | nil => intro t; rfl
  | cons x xs ih => intro t; rw [List.foldl_cons, List.foldl_cons, ih, h]

/-! ### the walk in terms of (matrix, idx) -/

/-- state of the translation: (idx, matrix) -/
def emb (t : Matrix × Nat) : Int × List (List Int) := ((t.2 : Int), mI t.1)

/-- `if row[j] == 0x2 and idx < codeword_length: row[j] = codewords[idx]; idx += 1` -/
def cwStep (bits : List Nat) (t : Matrix × Nat) (i j : Nat) : Matrix × Nat :=
  if get2 t.1 i j == 2 && decide (t.2 < bits.length) then (set2 t.1 i j (bits.getD t.2 0), t.2 + 1) else t

@[irreducible] def upOf (mic : Bool) (inc right z : Nat) : Bool :=
  if !mic then ((((right + inc) &&& 2) == 0) != decide (right - z < 6)) else (((right + inc) &&& 2) == 0)

def iOf (n : Nat) (up : Bool) (vertical : Nat) : Nat := if up then n - 1 - vertical else vertical

def adj (mic : Bool) (right0 : Nat) : Nat := if !mic && decide (right0 ≤ 6) then right0 - 1 else right0

def cellF (bits : List Nat) (n : Nat) (mic : Bool) (inc right vertical : Nat) (t : Matrix × Nat) (z : Nat) : Matrix × Nat :=
  cwStep bits t (iOf n (upOf mic inc right z) vertical) (right - z)

def vertF (bits : List Nat) (n : Nat) (mic : Bool) (inc right : Nat) (t : Matrix × Nat) (vertical : Nat) : Matrix × Nat :=
  (List.range 2).foldl (cellF bits n mic inc right vertical) t

def rightF (bits : List Nat) (n : Nat) (mic : Bool) (inc : Nat) (t : Matrix × Nat) (k : Nat) : Matrix × Nat :=
  (List.range n).foldl (vertF bits n mic inc (adj mic (n - 1 - 2 * k))) t

def Inv (bits : List Nat) (n : Nat) (t : Matrix × Nat) : Prop := Sq t.1 n ∧ t.2 ≤ bits.length

theorem inv_cwStep {bits : List Nat} {n : Nat} {t : Matrix × Nat} (h : Inv bits n t) (i j : Nat) : Inv bits n (cwStep bits t i j) := by
  unfold cwStep
  split
  · rename_i hc
    simp only [Bool.and_eq_true, decide_eq_true_eq] at hc
    exact ⟨sq_set2 h.1 _ _ _, by show t.2 + 1 ≤ bits.length; omega⟩
  · exact h

/-- one cell: the body of the innermost loop after its index arithmetic -/
theorem cw_cell (bits : List Nat) (n : Nat) (t : Matrix × Nat) (ht : Inv bits n t) (i j : Nat) (hi : i < n) (hj : j < n)
    (ii jj : Int) (hii : ii = (i : Int)) (hjj : jj = (j : Int)) :
    Gen.Py.bind (index (mI t.1) ii) (fun _ => Gen.Py.bind (index (mI t.1) ii) (fun t2 => Gen.Py.bind (index t2 jj) (fun t3 =>
      if ((t3 == (2 : Int)) && decide ((t.2 : Int) < Int.ofNat (toI bits).length)) then
        Gen.Py.bind (index (toI bits) (t.2 : Int)) (fun t4 => Gen.Py.bind (setItem2 (mI t.1) ii jj t4) (fun t5 =>
          Except.ok ((t.2 : Int) + (1 : Int), t5)))
      else Except.ok ((t.2 : Int), mI t.1))))
      = .ok (emb (cwStep bits t i j)) := by
  subst hii hjj
  rw [bind_eq_of_eq _ _ (index_row ht.1 _ i (normIndex_nat n i hi)), index_cell_then ht.1 i j hi hj]
  unfold cwStep
  by_cases hc : get2 t.1 i j = 2
  · by_cases hl : t.2 < bits.length
    · have e1 : (Int.ofNat (get2 t.1 i j) == (2 : Int)) = true := by rw [hc]; rfl
      have e2 : decide ((t.2 : Int) < Int.ofNat (toI bits).length) = true := by
        rw [toI_length]; simp only [Int.ofNat_eq_natCast, decide_eq_true_eq]; omega
      rw [e1, e2]
      simp only [Bool.and_self, if_true, hc, hl, beq_self_eq_true, decide_true]
      rw [index_toI bits t.2 hl, bind_ok, setItem2_cell ht.1 _ _ i j _ (normIndex_nat n i hi) (normIndex_nat n j hj), bind_ok]
      simp only [emb]
      push_cast
      rfl
    · have e2 : decide ((t.2 : Int) < Int.ofNat (toI bits).length) = false := by
        rw [toI_length]; simp only [Int.ofNat_eq_natCast, decide_eq_false_iff_not]; omega
      rw [e2]
      simp [hl, emb]
  · have e1 : (Int.ofNat (get2 t.1 i j) == (2 : Int)) = false := by
      simp only [Int.ofNat_eq_natCast, beq_eq_false_iff_ne, ne_eq]; omega
    have e3 : (get2 t.1 i j == 2) = false := by simp [hc]
    rw [e1, e3]
    simp [emb]

/-! ### index arithmetic: the `Int` expressions of the translation are the casts of the `Nat` expressions of the model -/

theorem band_two (x : Nat) : band (x : Int) 2 = ((x &&& 2 : Nat) : Int) := by
  show Int.ofNat (x &&& 2) = _
  rfl

theorem up_int (mic : Bool) (inc right z : Nat) (hz : z ≤ right) :
    (if (!mic) then ((band ((right : Int) + (inc : Int)) 2 == (0 : Int)) != decide ((right : Int) - (z : Int) < 6))
      else (band ((right : Int) + (inc : Int)) 2 == (0 : Int))) = upOf mic inc right z := by
  unfold upOf
  have e : ((right : Int) + (inc : Int)) = ((right + inc : Nat) : Int) := by push_cast; rfl
  rw [e, band_two]
  have e2 : ((((right + inc) &&& 2 : Nat) : Int) == (0 : Int)) = (((right + inc) &&& 2) == 0) := by
    rw [Bool.eq_iff_iff]; simp
  have e3 : decide ((right : Int) - (z : Int) < 6) = decide (right - z < 6) := by
    rw [Bool.eq_iff_iff]; simp only [decide_eq_true_eq]; omega
  rw [e2, e3]

theorem i_int (n vertical : Nat) (up : Bool) (hv : vertical < n) :
    (if up then ((n : Int) - 1) - (vertical : Int) else (vertical : Int)) = ((iOf n up vertical : Nat) : Int) := by
  unfold iOf
  cases up
  · rfl
  · simp only [if_true]; omega

theorem iOf_lt (n vertical : Nat) (up : Bool) (hv : vertical < n) : iOf n up vertical < n := by
  unfold iOf; cases up <;> simp <;> omega

theorem adj_int (mic : Bool) (r : Nat) (hr : 1 ≤ r) :
    (if (!mic && decide ((r : Int) ≤ 6)) then (r : Int) - 1 else (r : Int)) = ((adj mic r : Nat) : Int) := by
  unfold adj
  have e : decide ((r : Int) ≤ 6) = decide (r ≤ 6) := by
    rw [Bool.eq_iff_iff]; simp only [decide_eq_true_eq]; omega
  rw [e]
  split
  · omega
  · rfl

/-- the adjusted column: between 1 and n − 1 (n odd: the unadjusted one is even) -/
theorem adj_bounds (mic : Bool) (n k : Nat) (hodd : n % 2 = 1) (hk : k < n / 2) :
    1 ≤ adj mic (n - 1 - 2 * k) ∧ adj mic (n - 1 - 2 * k) < n := by
  unfold adj
  split <;> omega

theorem rangeDown_eq (n : Nat) :
    rangeDown ((n : Int) - 1) 0 2 = (List.range (n / 2)).map (fun (k : Nat) => (n : Int) - 1 - (k : Int) * 2) := by
  unfold rangeDown
  have e : (((n : Int) - 1 - 0).toNat + 2 - 1) / 2 = n / 2 := by omega
  rw [e]
  rfl

theorem range_two : range 0 2 = (List.range 2).map (fun (k : Nat) => (k : Int)) := by decide

theorem range_n (n : Nat) : range 0 (n : Int) = (List.range n).map (fun (k : Nat) => (k : Int)) := by
  rw [range_zero_nat]; rfl

/-! ### the model's fold -/

/-- state of the model: (matrix, remaining bits) -/
def sim (bits : List Nat) (t : Matrix × Nat) : Matrix × List Nat := (t.1, bits.drop t.2)

def mStep (acc : Matrix × List Nat) (c : Nat × Nat) : Matrix × List Nat :=
  match acc.2 with
  | [] => acc
  | b :: bs => if get2 acc.1 c.1 c.2 == 2 then (set2 acc.1 c.1 c.2 b, bs) else acc

theorem sim_cwStep (bits : List Nat) (t : Matrix × Nat) (i j : Nat) :
    sim bits (cwStep bits t i j) = mStep (sim bits t) (i, j) := by
  unfold cwStep mStep sim
  by_cases hl : t.2 < bits.length
  · rw [List.drop_eq_getElem_cons hl]
    by_cases hc : get2 t.1 i j = 2
    · simp [hc, hl]
    · simp [hc]
  · have : bits.drop t.2 = [] := List.drop_eq_nil_of_le (by omega)
    rw [this]
    simp [hl]
    omega

theorem emb_pair (x : Matrix × Nat) : ((emb x).1, (emb x).2) = emb x := rfl
theorem emb_eta (x : Matrix × Nat) : (Except.ok ((emb x).1, (emb x).2) : M (Int × List (List Int))) = .ok (emb x) := rfl

/-- a loop over a mapped list followed by a continuation -/
theorem bind_fold_then {σ τ α β : Type} (emb : τ → σ) (Inv : τ → Prop) (f : τ → α → τ) (g : α → Int) (P : α → Prop)
    (body : σ → Int → M σ)
    (hstep : ∀ t x, P x → Inv t → body (emb t) (g x) = .ok (emb (f t x)) ∧ Inv (f t x))
    (L : List α) (hP : ∀ x ∈ L, P x) (s0 : σ) (t : τ) (h0 : s0 = emb t) (hinv : Inv t) (K : σ → M β) (R : M β)
    (hK : Inv (L.foldl f t) → K (emb (L.foldl f t)) = R) :
    Gen.Py.bind (foldlM (L.map g) s0 body) K = R := by
  obtain ⟨h1, h2⟩ := foldlM_map_inv emb Inv f g P body hstep L hP s0 t h0 hinv
  rw [h1, bind_ok]
  exact hK h2

theorem inc_int (v : Int) :
    (if (!((v == (-3 : Int)) || (v == (-1 : Int)))) then (0 : Int) else (2 : Int)) = (((if isM1M3 v then 2 else 0 : Nat)) : Int) := by
  unfold isM1M3 Gen.VERSION_M1 Gen.VERSION_M3
  by_cases h1 : v = -3
  · subst h1; rfl
  · by_cases h2 : v = -1
    · subst h2; rfl
    · simp [h1, h2]

theorem vertF_eq (bits : List Nat) (n : Nat) (mic : Bool) (inc right : Nat) (t : Matrix × Nat) (vertical : Nat) :
    vertF bits n mic inc right t vertical = cellF bits n mic inc right vertical (cellF bits n mic inc right vertical t 0) 1 := by
  unfold vertF
  rw [show List.range 2 = [0, 1] from rfl]
  simp only [List.foldl_cons, List.foldl_nil]

theorem inv_vertF {bits : List Nat} {n : Nat} (mic : Bool) (inc right : Nat) {t : Matrix × Nat} (h : Inv bits n t) (vertical : Nat) :
    Inv bits n (vertF bits n mic inc right t vertical) := by
  rw [vertF_eq]
  unfold cellF
  exact inv_cwStep (inv_cwStep h _ _) _ _

theorem inv_foldl_vertF {bits : List Nat} {n : Nat} (mic : Bool) (inc right : Nat) (L : List Nat) :
    ∀ (u : Matrix × Nat), Inv bits n u → Inv bits n (L.foldl (vertF bits n mic inc right) u) := by
  induction L with
  | nil => intro u hu; exact hu
  | cons x xs ih => intro u hu; exact ih _ (inv_vertF mic inc right hu x)

set_option maxHeartbeats 400000 in
/-- the translation computes the fold of `rightF` over the column pairs and checks that every bit was placed -/
theorem add_codewords_py (m : Matrix) (bits : List Nat) (v : Int) (n : Nat) (hs : Sq m n) (hodd : n % 2 = 1) :
    Gen.Funcs3.add_codewords (mI m) (toI bits) v =
      (if ((List.range (n / 2)).foldl (rightF bits n (decide (v < 1)) (if isM1M3 v then 2 else 0)) (m, 0)).2 = bits.length
       then .ok (mI ((List.range (n / 2)).foldl (rightF bits n (decide (v < 1)) (if isM1M3 v then 2 else 0)) (m, 0)).1)
       else .error .valueError) := by
  unfold Gen.Funcs3.add_codewords
  simp only [mI_length, hs.size, Int.ofNat_eq_natCast]
  rw [inc_int, rangeDown_eq]
  generalize decide (v < 1) = mic
  generalize (if isM1M3 v then 2 else 0 : Nat) = inc
  refine bind_fold_then emb (Inv bits n) (rightF bits n mic inc) _ (fun k => k < n / 2) _ ?step (List.range (n / 2))
    (fun x hx => List.mem_range.mp hx) _ (m, 0) rfl ⟨hs, Nat.zero_le _⟩ _ _ ?fin
  case fin =>
    intro hinv
    generalize (List.range (n / 2)).foldl (rightF bits n mic inc) (m, 0) = T at hinv
    have hle := hinv.2
    simp only [emb, toI_length]
    by_cases hT : T.2 = bits.length
    · simp [hT]
    · have : ¬ ((T.2 : Int) = (bits.length : Int)) := by omega
      simp [hT, this]
  case step =>
    intro t k hk ht
    have hb := adj_bounds mic n k hodd hk
    have eg : (n : Int) - 1 - (k : Int) * 2 = ((n - 1 - 2 * k : Nat) : Int) := by omega
    rw [eg, adj_int mic (n - 1 - 2 * k) (by omega), range_n]
    unfold rightF
    generalize adj mic (n - 1 - 2 * k) = right at hb
    have hinvR : Inv bits n ((List.range n).foldl (vertF bits n mic inc right) t) := inv_foldl_vertF mic inc right _ t ht
    refine ⟨?_, hinvR⟩
    refine bind_fold_then emb (Inv bits n) (vertF bits n mic inc right) _ (fun k => k < n) _ ?vstep (List.range n)
      (fun x hx => List.mem_range.mp hx) _ t (emb_pair t) ht _ _ (fun _ => emb_eta _)
    intro u vertical hv hu
    rw [range_two]
    refine ⟨?_, inv_vertF mic inc right hu vertical⟩
    unfold vertF
    refine bind_fold_then emb (Inv bits n) (cellF bits n mic inc right vertical) _ (fun z => z < 2) _ ?cstep (List.range 2)
      (fun x hx => List.mem_range.mp hx) _ u (emb_pair u) hu _ _ (fun _ => emb_eta _)
    intro w z hz hw
    unfold cellF
    have hz' : z ≤ right := by omega
    refine ⟨cw_cell bits n w hw (iOf n (upOf mic inc right z) vertical) (right - z) (iOf_lt n vertical _ hv) (by omega) _ _ ?hii ?hjj,
      inv_cwStep hw _ _⟩
    · rw [up_int mic inc right z hz']
      exact i_int n vertical _ hv
    · omega

/-! ### the model -/

theorem mStep_eq : (fun (acc : Matrix × List Nat) (x : Nat × Nat) =>
      match x with
      | (i, j) =>
        match acc.2 with
        | [] => acc
        | b :: bs => if get2 acc.1 i j == 2 then (set2 acc.1 i j b, bs) else acc) = mStep := by
  funext acc x
  rcases x with ⟨i, j⟩
  rfl

theorem sim_cellF (bits : List Nat) (n : Nat) (mic : Bool) (inc right vertical : Nat) (t : Matrix × Nat) (z : Nat) :
    sim bits (cellF bits n mic inc right vertical t z) = mStep (sim bits t) (iOf n (upOf mic inc right z) vertical, right - z) :=
  sim_cwStep bits t _ _

/-- the coordinates of `Model.codewordCoords`, column pair by column pair -/
theorem coords_eq (n : Nat) (v : Int) :
    codewordCoords n v = ((List.range (n / 2)).map (fun k =>
      ((List.range n).map (fun vertical => (List.range 2).map (fun z =>
        (iOf n (upOf (decide (v < 1)) (if isM1M3 v then 2 else 0) (adj (decide (v < 1)) (n - 1 - 2 * k)) z) vertical,
          adj (decide (v < 1)) (n - 1 - 2 * k) - z)))).flatten)).flatten := by
  unfold codewordCoords
  simp only [List.map_map]
  congr 1
  apply List.map_congr_left
  intro k _
  simp only [Function.comp]
  congr 1
  apply List.map_congr_left
  intro vertical _
  rw [show List.range 2 = [0, 1] from rfl]
  simp only [List.map_cons, List.map_nil]
  unfold upOf iOf adj
  rfl

theorem foldl_sim2 {τ ρ α : Type} (sim : τ → ρ) (f : τ → α → τ) (F : ρ → α → ρ) (h : ∀ t x, F (sim t) x = sim (f t x)) (L : List α) (t : τ) :
    L.foldl F (sim t) = sim (L.foldl f t) :=
  (foldl_sim sim f F (fun t x => (h t x).symm) L t).symm

/-- `Model.addCodewords` is the same fold, read through `sim` -/
theorem addCodewords_fold (m : Matrix) (bits : List Nat) (v : Int) :
    (codewordCoords m.size v).foldl mStep (m, bits)
      = sim bits ((List.range (m.size / 2)).foldl (rightF bits m.size (decide (v < 1)) (if isM1M3 v then 2 else 0)) (m, 0)) := by
  rw [coords_eq, List.foldl_flatten, List.foldl_map]
  have e0 : (m, bits) = sim bits (m, 0) := by simp [sim]
  rw [e0]
  apply foldl_sim2
  intro t k
  unfold rightF
  rw [List.foldl_flatten, List.foldl_map]
  apply foldl_sim2
  intro u vertical
  unfold vertF
  rw [List.foldl_map]
  apply foldl_sim2
  intro w z
  exact (sim_cellF bits _ _ _ _ _ w z).symm

theorem addCodewords_unfold (m : Matrix) (bits : List Nat) (v : Int) :
    Model.addCodewords m bits v =
      (if ((codewordCoords m.size v).foldl mStep (m, bits)).2.isEmpty then pure ((codewordCoords m.size v).foldl mStep (m, bits)).1
       else throw PyErr.valueError) := by
  unfold Model.addCodewords
  rw [← mStep_eq]
  first
    | rfl
    | (simp only []; done)
    | (simp only []
       generalize List.foldl _ (m, bits) (codewordCoords (Array.size m) v) = X
       rcases X with ⟨a, b⟩
       rfl)

/-- `add_codewords(matrix, codewords, version)` on an n × n matrix, n odd (every symbol size), every bit list and version number -/
theorem add_codewords_eq (m : Matrix) (bits : List Nat) (v : Int) (n : Nat) (hs : Sq m n) (hodd : n % 2 = 1) :
    toR (Gen.Funcs3.add_codewords (mI m) (toI bits) v) = (Model.addCodewords m bits v).map mI := by
  rw [add_codewords_py m bits v n hs hodd, addCodewords_unfold, addCodewords_fold, hs.size]
  generalize hT : (List.range (n / 2)).foldl (rightF bits n (decide (v < 1)) (if isM1M3 v then 2 else 0)) (m, 0) = T
  have hinv : Inv bits n T := by
    rw [← hT]
    have : ∀ (L : List Nat) (u : Matrix × Nat), Inv bits n u → Inv bits n (L.foldl (rightF bits n (decide (v < 1)) (if isM1M3 v then 2 else 0)) u) := by
      intro L
      induction L with
      | nil => intro u hu; exact hu
      | cons x xs ih => intro u hu; exact ih _ (inv_foldl_vertF _ _ _ _ u hu)
    exact this _ _ ⟨hs, Nat.zero_le _⟩
  have hle := hinv.2
  unfold sim
  by_cases h : T.2 = bits.length
  · have : bits.drop T.2 = [] := List.drop_eq_nil_of_le (by omega)
    simp [h, this]
    rfl
  · have : bits.drop T.2 ≠ [] := by
      intro hd
      have := List.drop_eq_nil_iff.mp hd
      omega
    simp [h, this]
    rfl

end Proofs.TieA3
