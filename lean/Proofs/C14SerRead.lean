/-
  Proofs.C14SerRead — the reading equation: on the documented option domain a serialiser call of the complete environment
  (`Model.RoutesVec.fullEnv`: Python's keyword binding `completeKw`, then the argument readers `svgArgs`, `pngSem`, `rasterSem`,
  `epsArgs`, `pdfArgs`, `texArgs`) IS the typed whole-document model applied to the values read in the obvious way
  (`Proofs.C14Ser.serRead`).  Also: the option table of Proofs/C14SerDefs.lean is the regenerated signature table.
  Helper lemmas for Props/C14Serializers.lean.
-/
import Proofs.C14SerDefs

namespace Proofs.C14Ser
open Gen (PyV)
open Model Model.Cli Model.Routes Model.RoutesDocs Model.RoutesVec Model.RasterDocs

/-- Tie to the source: for every serialiser the documented options are exactly the keyword parameters of its signature
    (`inspect.signature` through `colorful`, regenerated into Gen/Sigs.lean on every run), each once -/
theorem option_table_is_signature :
    ∀ key ∈ kinds, (∃ d, serializerDefaults key = some d ∧ (optTypes key).map (·.1) = d.map (·.1)) ∧ ((optTypes key).map (·.1)).Nodup := by
  decide +kernel

/-- every default of a signature has the documented type of its option -/
theorem defaults_typed :
    ∀ key ∈ kinds, ∀ d, serializerDefaults key = some d → ∀ e ∈ d, (optTypes key).any (fun p => p.1 == e.1 && hasType p.2 e.2) = true := by
  decide +kernel

/-! ### keyword binding -/

/-- lookup in a completed keyword map -/
theorem cget_map_defaults (defaults kw : Config) (k : String) :
    cget (defaults.map (fun d => (d.1, (cget kw d.1).getD d.2))) k = (cget defaults k).map (fun dv => (cget kw k).getD dv) := by
  induction defaults with
  | nil => rfl
  | cons d ds ih =>
    unfold cget at ih ⊢
    simp only [List.map_cons, List.find?_cons]
    by_cases hk : d.1 == k
    · have : d.1 = k := by simpa using hk
      simp [this]
    · simp only [hk]
      exact ih

theorem cget_mem {kw : Config} {k : String} {v : PyV} (h : cget kw k = some v) : (k, v) ∈ kw := by
  unfold cget at h
  cases hf : kw.find? (·.1 == k) with
  | none => simp [hf] at h
  | some e =>
    simp [hf] at h
    have hm := List.mem_of_find?_eq_some hf
    have hp := List.find?_some hf
    have : e.1 = k := by simpa using hp
    obtain ⟨a, b⟩ := e
    simp at this h
    subst this; subst h
    exact hm

theorem cget_isSome_iff (c : Config) (k : String) : (cget c k).isSome = true ↔ k ∈ c.map (·.1) := by
  unfold cget
  simp [List.find?_isSome]

theorem documented_key {key : String} {kw : Config} (hdoc : DocumentedSer key kw) {e : String × PyV} (he : e ∈ kw) :
    ∃ ty, (e.1, ty) ∈ optTypes key ∧ hasType ty e.2 = true := by
  have := hdoc.2 e he
  simp only [List.any_eq_true, Bool.and_eq_true, beq_iff_eq] at this
  obtain ⟨⟨a, ty⟩, hm, hk, ht⟩ := this
  simp at hk; subst hk
  exact ⟨ty, hm, ht⟩

/-- Python binds the call: every keyword is a parameter -/
theorem completeKw_documented (key : String) (kw : Config) (hdoc : DocumentedSer key kw) :
    completeKw key kw = .ok (completed key kw) := by
  obtain ⟨⟨d, hd, hkeys⟩, _⟩ := option_table_is_signature key hdoc.1
  unfold completeKw completed
  rw [hd]
  have hall : kw.all (fun kv => d.any (·.1 == kv.1)) = true := by
    rw [List.all_eq_true]
    intro e he
    obtain ⟨ty, hm, _⟩ := documented_key hdoc he
    have : e.1 ∈ (optTypes key).map (·.1) := List.mem_map.2 ⟨_, hm, rfl⟩
    rw [hkeys] at this
    obtain ⟨p, hp, hpe⟩ := List.mem_map.1 this
    rw [List.any_eq_true]
    exact ⟨p, hp, by simpa using hpe⟩
  simp only [hall, if_true, Option.getD_some]
  rfl

/-- the value a parameter receives -/
theorem arg_completed (key : String) (kw : Config) (hdoc : DocumentedSer key kw) (k : String) :
    arg (completed key kw) k = val key kw k := by
  obtain ⟨⟨d, hd, hkeys⟩, _⟩ := option_table_is_signature key hdoc.1
  unfold arg completed val
  rw [hd, Option.getD_some, cget_map_defaults]
  change _ = (cget kw k).getD ((cget d k).getD .none)
  cases hdk : cget d k with
  | some dv => rfl
  | none =>
    cases hkk : cget kw k with
    | none => rfl
    | some v =>
      exfalso
      obtain ⟨ty, hm, _⟩ := documented_key hdoc (cget_mem hkk)
      have : k ∈ (optTypes key).map (·.1) := List.mem_map.2 ⟨_, hm, rfl⟩
      rw [hkeys, ← cget_isSome_iff, hdk] at this
      simp at this

theorem nodup_keys_unique {α : Type} {l : List (String × α)} (hn : (l.map (·.1)).Nodup) {k : String} {a b : α}
    (ha : (k, a) ∈ l) (hb : (k, b) ∈ l) : a = b := by
  induction l with
  | nil => simp at ha
  | cons x xs ih =>
    simp only [List.map_cons, List.nodup_cons] at hn
    rcases List.mem_cons.1 ha with rfl | ha' <;> rcases List.mem_cons.1 hb with hb' | hb'
    · simpa using hb'.symm
    · exact absurd (List.mem_map.2 ⟨_, hb', rfl⟩) hn.1
    · subst hb'; exact absurd (List.mem_map.2 ⟨_, ha', rfl⟩) hn.1
    · exact ih hn.2 ha' hb'

/-- the default of every option has its documented type (form of `defaults_typed` used by `val_typed`) -/
theorem default_typed' :
    ∀ key ∈ kinds, ∀ p ∈ optTypes key,
      hasType p.2 ((((serializerDefaults key).getD []).find? (·.1 == p.1)).map (·.2) |>.getD .none) = true := by
  decide +kernel

/-- … has the documented type of the parameter -/
theorem val_typed (key : String) (kw : Config) (hdoc : DocumentedSer key kw) (k : String) (ty : Ty) (h : (k, ty) ∈ optTypes key) :
    hasType ty (val key kw k) = true := by
  unfold val
  cases hkk : cget kw k with
  | none => exact default_typed' key hdoc.1 (k, ty) h
  | some v =>
    obtain ⟨ty', hm, ht⟩ := documented_key hdoc (cget_mem hkk)
    have := nodup_keys_unique (option_table_is_signature key hdoc.1).2 h hm
    subst this
    exact ht

/-! ### the readers on typed values -/

theorem colour_read {v : PyV} (h : hasType .colour v = true) : colorOf v = some (colV v) := by
  unfold colV
  cases v <;> simp_all [hasType, isColour, colorOf]
  case other t =>
    cases ht : tupleColor t <;> simp_all

theorem typeColour_read {v : PyV} (h : hasType .typeColour v = true) : typeOpt v = some (typeColV v) := by
  by_cases hv : v = .bool false
  · subst hv; rfl
  · have hc : hasType .colour v = true := by
      cases v with
      | bool b => cases b <;> simp_all [hasType]
      | _ => simpa [hasType] using h
    have h1 : typeOpt v = (colorOf v).map some := by
      cases v with
      | bool b => cases b <;> simp_all [typeOpt]
      | _ => rfl
    have h2 : typeColV v = some (colV v) := by
      cases v with
      | bool b => cases b <;> simp_all [typeColV]
      | _ => rfl
    rw [h1, h2, colour_read hc]; rfl

theorem scale_num {v : PyV} (h : hasType .scale v = true) : numOf v = some (numV v) := by
  cases v <;> simp_all [hasType, isNumber, numOf, numV]

theorem scale_svg (svc : Services) {v : PyV} (h : hasType .scale v = true) : svgScaleOf svc v = some (scaleV svc v) := by
  cases v <;> simp_all [hasType, isNumber, svgScaleOf, scaleV]

theorem scale_isNumber {v : PyV} (h : hasType .scale v = true) : isNumber v = true := h

theorem border_num {v : PyV} (h : hasType .border v = true) : optNumOf v = some (optNumV v) := by
  cases v <;> simp_all [hasType, refusedFloat, optNumOf, optNumV, numOf, numV]

theorem border_int {v : PyV} (h : hasType .border v = true) (hr : refusedFloat v = false) : intBorderOf v = some (intBorderV v) := by
  cases v <;> simp_all [hasType, intBorderOf, intBorderV]

theorem border_refused {v : PyV} (hr : refusedFloat v = true) : intBorderOf v = none := by
  cases v <;> simp_all [refusedFloat, intBorderOf]

theorem flag_read {v : PyV} (h : hasType .flag v = true) : flagOf v = some (flagV v) := by
  cases v <;> simp_all [hasType, flagOf, flagV]

theorem optText_read {v : PyV} (h : hasType .optText v = true) : optStrOf v = some (optStrV v) := by
  cases v <;> simp_all [hasType, optStrOf, optStrV]

theorem text_optStr {v : PyV} (h : hasType .text v = true) : optStrOf v = some (optStrV v) := by
  cases v <;> simp_all [hasType, optStrOf, optStrV]

theorem dpi_read (svc : Services) {v : PyV} (h : hasType .dpi v = true) : dpiOf svc v = some (dpiV svc v) := by
  cases v <;> simp_all [hasType, dpiOf, dpiV]

theorem svgversion_read (svc : Services) {v : PyV} (h : hasType .svgversion v = true) :
    svgVersionOf svc v = some (svgVersionV svc v) := by
  cases v <;> simp_all [hasType, svgVersionOf, svgVersionV]

theorem typeOpts_read (c : Config) (v : String → PyV) (h : ∀ k ∈ moduleColours, typeOpt (arg c k) = some (typeColV (v k))) :
    typeOptsOf c = some (typeOptsV v) := by
  unfold typeOptsOf typeOptsV
  simp only [moduleColours, List.forall_mem_cons, List.not_mem_nil, false_imp_iff, implies_true, and_true] at h
  obtain ⟨h1, h2, h3, h4, h5, h6, h7, h8, h9, h10, h11, h12, h13, h14, h15⟩ := h
  simp only [h1, h2, h3, h4, h5, h6, h7, h8, h9, h10, h11, h12, h13, h14, h15]
  rfl

theorem ser_unfold (svc : Services) (vs : VecServices) (rt : Runtime) (M : List (List Nat)) (w h : Nat) (rest : String → Config → R SerOut)
    (key : String) (kw : Config) (hdoc : DocumentedSer key kw) :
    (fullEnv svc vs rt M w h rest).ser key kw = docSem svc M w h (vecSem svc vs M w h rest) key (completed key kw) := by
  simp only [Env.ser, completeKw_documented key kw hdoc, fullEnv, docEnv, bind, Except.bind]

/-! ### one serialiser at a time -/

theorem text_str {v : PyV} (h : hasType .text v = true) : ∃ s, v = .str s := by
  cases v <;> simp_all [hasType]

theorem txtText_read {v : PyV} (h : hasType .txtText v = true) : txtStrOf v = some (txtV v) := by
  cases v <;> simp_all [hasType, txtV, txtStrOf]

theorem typeOpts_completed (key : String) (kw : Config) (hdoc : DocumentedSer key kw)
    (hm : ∀ k ∈ moduleColours, (k, Ty.typeColour) ∈ optTypes key) :
    typeOptsOf (completed key kw) = some (typeOptsV (val key kw)) := by
  apply typeOpts_read
  intro k hk
  rw [arg_completed key kw hdoc]
  exact typeColour_read (val_typed key kw hdoc k _ (hm k hk))

/-- closes the `Option` binds of the argument readers and the comparisons of the (concrete) serialiser key -/
local macro "ser_finish" : tactic => `(tactic|
  simp (config := {decide := true}) only [if_false, if_true, Option.pure_def, bind, Option.bind])

section
variable (svc : Services) (vs : VecServices) (rt : Runtime) (M : List (List Nat)) (w h : Nat) (rest : String → Config → R SerOut)

theorem read_pbm (kw : Config) (hdoc : DocumentedSer "pbm" kw) :
    (fullEnv svc vs rt M w h rest).ser "pbm" kw = serRead svc vs M w h rest "pbm" kw := by
  rw [ser_unfold _ _ _ _ _ _ _ _ _ hdoc]
  have ht := fun k ty (hm : (k, ty) ∈ optTypes "pbm") => val_typed "pbm" kw hdoc k ty hm
  have hscale := scale_num (ht "scale" .scale (by decide))
  have hborder := border_num (ht "border" .border (by decide))
  have hplain := flag_read (ht "plain" .flag (by decide))
  simp only [docSem, serRead, rasterSem, arg_completed "pbm" kw hdoc, hscale, hborder, hplain]
  ser_finish

theorem read_ppm (kw : Config) (hdoc : DocumentedSer "ppm" kw) :
    (fullEnv svc vs rt M w h rest).ser "ppm" kw = serRead svc vs M w h rest "ppm" kw := by
  rw [ser_unfold _ _ _ _ _ _ _ _ _ hdoc]
  have ht := fun k ty (hm : (k, ty) ∈ optTypes "ppm") => val_typed "ppm" kw hdoc k ty hm
  have hscale := scale_num (ht "scale" .scale (by decide))
  have hborder := border_num (ht "border" .border (by decide))
  have hdark := colour_read (ht "dark" .colour (by decide))
  have hlight := colour_read (ht "light" .colour (by decide))
  have hto := typeOpts_completed "ppm" kw hdoc (by decide)
  simp only [docSem, serRead, rasterSem, hto, arg_completed "ppm" kw hdoc, hscale, hborder, hdark, hlight]
  ser_finish

theorem read_pam (kw : Config) (hdoc : DocumentedSer "pam" kw) :
    (fullEnv svc vs rt M w h rest).ser "pam" kw = serRead svc vs M w h rest "pam" kw := by
  rw [ser_unfold _ _ _ _ _ _ _ _ _ hdoc]
  have ht := fun k ty (hm : (k, ty) ∈ optTypes "pam") => val_typed "pam" kw hdoc k ty hm
  have hscale := scale_num (ht "scale" .scale (by decide))
  have hborder := border_num (ht "border" .border (by decide))
  have hdark := colour_read (ht "dark" .colour (by decide))
  have hlight := colour_read (ht "light" .colour (by decide))
  simp only [docSem, serRead, rasterSem, arg_completed "pam" kw hdoc, hscale, hborder, hdark, hlight]
  ser_finish

theorem read_xbm (kw : Config) (hdoc : DocumentedSer "xbm" kw) :
    (fullEnv svc vs rt M w h rest).ser "xbm" kw = serRead svc vs M w h rest "xbm" kw := by
  rw [ser_unfold _ _ _ _ _ _ _ _ _ hdoc]
  have ht := fun k ty (hm : (k, ty) ∈ optTypes "xbm") => val_typed "xbm" kw hdoc k ty hm
  have hscale := scale_num (ht "scale" .scale (by decide))
  have hborder := border_num (ht "border" .border (by decide))
  obtain ⟨s, hname⟩ := text_str (ht "name" .text (by decide))
  simp only [docSem, serRead, rasterSem, arg_completed "xbm" kw hdoc, hscale, hborder, hname, strV]
  ser_finish

theorem read_xpm (kw : Config) (hdoc : DocumentedSer "xpm" kw) :
    (fullEnv svc vs rt M w h rest).ser "xpm" kw = serRead svc vs M w h rest "xpm" kw := by
  rw [ser_unfold _ _ _ _ _ _ _ _ _ hdoc]
  have ht := fun k ty (hm : (k, ty) ∈ optTypes "xpm") => val_typed "xpm" kw hdoc k ty hm
  have hscale := scale_num (ht "scale" .scale (by decide))
  have hborder := border_num (ht "border" .border (by decide))
  have hdark := colour_read (ht "dark" .colour (by decide))
  have hlight := colour_read (ht "light" .colour (by decide))
  obtain ⟨s, hname⟩ := text_str (ht "name" .text (by decide))
  simp only [docSem, serRead, rasterSem, arg_completed "xpm" kw hdoc, hscale, hborder, hdark, hlight, hname, strV]
  ser_finish

theorem read_txt (kw : Config) (hdoc : DocumentedSer "txt" kw) :
    (fullEnv svc vs rt M w h rest).ser "txt" kw = serRead svc vs M w h rest "txt" kw := by
  rw [ser_unfold _ _ _ _ _ _ _ _ _ hdoc]
  have ht := fun k ty (hm : (k, ty) ∈ optTypes "txt") => val_typed "txt" kw hdoc k ty hm
  have hborder := border_num (ht "border" .border (by decide))
  have hdark := txtText_read (ht "dark" .txtText (by decide))
  have hlight := txtText_read (ht "light" .txtText (by decide))
  simp only [docSem, serRead, rasterSem, arg_completed "txt" kw hdoc, hborder, hdark, hlight]
  ser_finish

theorem read_ans (kw : Config) (hdoc : DocumentedSer "ans" kw) :
    (fullEnv svc vs rt M w h rest).ser "ans" kw = serRead svc vs M w h rest "ans" kw := by
  rw [ser_unfold _ _ _ _ _ _ _ _ _ hdoc]
  have ht := fun k ty (hm : (k, ty) ∈ optTypes "ans") => val_typed "ans" kw hdoc k ty hm
  have hborder := border_num (ht "border" .border (by decide))
  simp only [docSem, serRead, rasterSem, arg_completed "ans" kw hdoc, hborder]
  ser_finish

theorem read_compact (kw : Config) (hdoc : DocumentedSer "compact" kw) :
    (fullEnv svc vs rt M w h rest).ser "compact" kw = serRead svc vs M w h rest "compact" kw := by
  rw [ser_unfold _ _ _ _ _ _ _ _ _ hdoc]
  have ht := fun k ty (hm : (k, ty) ∈ optTypes "compact") => val_typed "compact" kw hdoc k ty hm
  have hborder := border_num (ht "border" .border (by decide))
  simp only [docSem, serRead, rasterSem, arg_completed "compact" kw hdoc, hborder]
  ser_finish
end

theorem level_int {v : PyV} (h : hasType .level v = true) : ∃ i, v = .int i ∧ (-1 ≤ i ∧ i ≤ 9) := by
  cases v with
  | int i =>
    simp only [hasType, decide_eq_true_eq] at h
    exact ⟨i, rfl, by omega, by omega⟩
  | _ => simp [hasType] at h

section
variable (svc : Services) (vs : VecServices) (rt : Runtime) (M : List (List Nat)) (w h : Nat) (rest : String → Config → R SerOut)

theorem read_eps (kw : Config) (hdoc : DocumentedSer "eps" kw) :
    (fullEnv svc vs rt M w h rest).ser "eps" kw = serRead svc vs M w h rest "eps" kw := by
  rw [ser_unfold _ _ _ _ _ _ _ _ _ hdoc]
  have ht := fun k ty (hm : (k, ty) ∈ optTypes "eps") => val_typed "eps" kw hdoc k ty hm
  have hscale := scale_svg svc (ht "scale" .scale (by decide))
  have hnum := scale_isNumber (ht "scale" .scale (by decide))
  have hdark := colour_read (ht "dark" .colour (by decide))
  have hlight := colour_read (ht "light" .colour (by decide))
  cases hr : refusedFloat (val "eps" kw "border") with
  | true =>
    have hborder := border_refused hr
    simp only [docSem, serRead, rasterSem, vecSem, epsSem, epsArgs, vcolorOf, floatBorderRefusal, arg_completed "eps" kw hdoc, hscale, hnum, hr, hborder, hdark, hlight]
    ser_finish
    simp only [Option.map, Option.orElse]
  | false =>
    have hborder := border_int (ht "border" .border (by decide)) hr
    simp only [docSem, serRead, rasterSem, vecSem, epsSem, epsArgs, vcolorOf, epsOptsV, arg_completed "eps" kw hdoc, hscale, hr, hborder, hdark, hlight]
    ser_finish
    simp only [Option.map, Option.orElse]

theorem read_pdf (kw : Config) (hdoc : DocumentedSer "pdf" kw) :
    (fullEnv svc vs rt M w h rest).ser "pdf" kw = serRead svc vs M w h rest "pdf" kw := by
  rw [ser_unfold _ _ _ _ _ _ _ _ _ hdoc]
  have ht := fun k ty (hm : (k, ty) ∈ optTypes "pdf") => val_typed "pdf" kw hdoc k ty hm
  have hscale := scale_svg svc (ht "scale" .scale (by decide))
  have hnum := scale_isNumber (ht "scale" .scale (by decide))
  have hdark := colour_read (ht "dark" .colour (by decide))
  have hlight := colour_read (ht "light" .colour (by decide))
  obtain ⟨lv, hlevel, hlv⟩ := level_int (ht "compresslevel" .level (by decide))
  cases hr : refusedFloat (val "pdf" kw "border") with
  | true =>
    have hborder := border_refused hr
    simp only [docSem, serRead, rasterSem, vecSem, pdfSem, pdfArgs, vcolorOf, floatBorderRefusal, arg_completed "pdf" kw hdoc, hscale, hnum, hr, hborder, hdark, hlight]
    ser_finish
    simp only [Option.map, Option.orElse]
  | false =>
    have hborder := border_int (ht "border" .border (by decide)) hr
    simp only [docSem, serRead, rasterSem, vecSem, pdfSem, pdfArgs, vcolorOf, pdfOptsV, arg_completed "pdf" kw hdoc, hscale, hr, hborder, hdark, hlight, hlevel, hlv, levelV]
    ser_finish
    simp only [Option.map, Option.orElse]

theorem read_tex (kw : Config) (hdoc : DocumentedSer "tex" kw) :
    (fullEnv svc vs rt M w h rest).ser "tex" kw = serRead svc vs M w h rest "tex" kw := by
  rw [ser_unfold _ _ _ _ _ _ _ _ _ hdoc]
  have ht := fun k ty (hm : (k, ty) ∈ optTypes "tex") => val_typed "tex" kw hdoc k ty hm
  have hscale := scale_svg svc (ht "scale" .scale (by decide))
  have hnum := scale_isNumber (ht "scale" .scale (by decide))
  have hdark := optText_read (ht "dark" .optText (by decide))
  have hurl := optText_read (ht "url" .optText (by decide))
  obtain ⟨u, hunit⟩ := text_str (ht "unit" .text (by decide))
  cases hr : refusedFloat (val "tex" kw "border") with
  | true =>
    have hborder := border_refused hr
    simp only [docSem, serRead, rasterSem, vecSem, texSem, texArgs, floatBorderRefusal, arg_completed "tex" kw hdoc, hscale, hnum, hr, hborder]
    ser_finish
    simp only [Option.map, Option.orElse]
  | false =>
    have hborder := border_int (ht "border" .border (by decide)) hr
    simp only [docSem, serRead, rasterSem, vecSem, texSem, texArgs, texOptsV, arg_completed "tex" kw hdoc, hscale, hr, hborder, hdark, hurl, hunit, strV]
    ser_finish
    simp only [Option.map, Option.orElse]
    generalize val "tex" kw "scale" = sc
    cases sc <;> rfl

theorem read_svg (kw : Config) (hdoc : DocumentedSer "svg" kw) :
    (fullEnv svc vs rt M w h rest).ser "svg" kw = serRead svc vs M w h rest "svg" kw := by
  rw [ser_unfold _ _ _ _ _ _ _ _ _ hdoc]
  have ht := fun k ty (hm : (k, ty) ∈ optTypes "svg") => val_typed "svg" kw hdoc k ty hm
  have hscale := scale_svg svc (ht "scale" .scale (by decide))
  have hnum := scale_isNumber (ht "scale" .scale (by decide))
  have hdark := colour_read (ht "dark" .colour (by decide))
  have hlight := colour_read (ht "light" .colour (by decide))
  have hto := typeOpts_completed "svg" kw hdoc (by decide)
  have h1 := flag_read (ht "xmldecl" .flag (by decide))
  have h2 := flag_read (ht "svgns" .flag (by decide))
  have h3 := optText_read (ht "title" .optText (by decide))
  have h4 := optText_read (ht "desc" .optText (by decide))
  have h5 := optText_read (ht "svgid" .optText (by decide))
  have h6 := optText_read (ht "svgclass" .optText (by decide))
  have h7 := optText_read (ht "lineclass" .optText (by decide))
  have h8 := flag_read (ht "omitsize" .flag (by decide))
  have h9 := optText_read (ht "unit" .optText (by decide))
  have h10 := text_optStr (ht "encoding" .text (by decide))
  have h11 := svgversion_read svc (ht "svgversion" .svgversion (by decide))
  have h12 := flag_read (ht "nl" .flag (by decide))
  have h13 := flag_read (ht "draw_transparent" .flag (by decide))
  cases hr : refusedFloat (val "svg" kw "border") with
  | true =>
    have hborder := border_refused hr
    simp only [docSem, serRead, svgSem, svgArgs, vecSem, floatBorderRefusal, hto, arg_completed "svg" kw hdoc, hscale, hnum, hr, hborder, hdark, hlight]
    ser_finish
    simp only [Option.map]
  | false =>
    have hborder := border_int (ht "border" .border (by decide)) hr
    simp only [docSem, serRead, svgSem, svgArgs, svgOptsV, sizeTexts, effBorder, hto, arg_completed "svg" kw hdoc, hscale, hr, hborder, hdark, hlight,
      h1, h2, h3, h4, h5, h6, h7, h8, h9, h10, h11, h12, h13]
    ser_finish
    simp only [Option.map]
    generalize val "svg" kw "scale" = sc
    generalize intBorderV (val "svg" kw "border") = ib
    cases sc <;> cases ib <;> rfl

theorem read_png (kw : Config) (hdoc : DocumentedSer "png" kw) :
    (fullEnv svc vs rt M w h rest).ser "png" kw = serRead svc vs M w h rest "png" kw := by
  rw [ser_unfold _ _ _ _ _ _ _ _ _ hdoc]
  have ht := fun k ty (hm : (k, ty) ∈ optTypes "png") => val_typed "png" kw hdoc k ty hm
  have hscale := scale_num (ht "scale" .scale (by decide))
  have hborder := border_num (ht "border" .border (by decide))
  have hdark := colour_read (ht "dark" .colour (by decide))
  have hlight := colour_read (ht "light" .colour (by decide))
  have hto := typeOpts_completed "png" kw hdoc (by decide)
  have hdpi := dpi_read svc (ht "dpi" .dpi (by decide))
  obtain ⟨lv, hlevel, hlv⟩ := level_int (ht "compresslevel" .level (by decide))
  simp only [docSem, serRead, pngSem, pngFileV, pngCompV, vecSem, hto, arg_completed "png" kw hdoc, hscale, hborder, hdark, hlight, hdpi, hlevel, hlv, levelV]
  ser_finish
  generalize savePng svc.setOrder M w h (some (colV (val "png" kw "dark"))) (some (colV (val "png" kw "light")))
    (typeOptsV (val "png" kw)) (numV (val "png" kw "scale")) (optNumV (val "png" kw "border")) = sp
  cases sp with
  | error e =>
    dsimp only
    generalize savePngFile svc.setOrder M w h (some (colV (val "png" kw "dark"))) (some (colV (val "png" kw "light")))
      (typeOptsV (val "png" kw)) (numV (val "png" kw "scale")) (optNumV (val "png" kw "border")) (dpiV svc (val "png" kw "dpi")) [] = r
    rcases r with e | _ | bs <;> rfl
  | ok out =>
    dsimp only
    generalize savePngFile svc.setOrder M w h (some (colV (val "png" kw "dark"))) (some (colV (val "png" kw "light")))
      (typeOptsV (val "png" kw)) (numV (val "png" kw "scale")) (optNumV (val "png" kw "border")) (dpiV svc (val "png" kw "dpi"))
      (svc.deflate lv out.idat) = r
    rcases r with e | _ | bs <;> rfl
end

/-- **the reading equation** -/
theorem ser_eq_read (svc : Services) (vs : VecServices) (rt : Runtime) (M : List (List Nat)) (w h : Nat) (rest : String → Config → R SerOut)
    (key : String) (kw : Config) (hdoc : DocumentedSer key kw) :
    (fullEnv svc vs rt M w h rest).ser key kw = serRead svc vs M w h rest key kw := by
  have hk := hdoc.1
  simp only [kinds, List.mem_cons, List.not_mem_nil, or_false] at hk
  rcases hk with rfl | rfl | rfl | rfl | rfl | rfl | rfl | rfl | rfl | rfl | rfl | rfl | rfl
  · exact read_svg svc vs rt M w h rest kw hdoc
  · exact read_png svc vs rt M w h rest kw hdoc
  · exact read_eps svc vs rt M w h rest kw hdoc
  · exact read_txt svc vs rt M w h rest kw hdoc
  · exact read_pdf svc vs rt M w h rest kw hdoc
  · exact read_ans svc vs rt M w h rest kw hdoc
  · exact read_pbm svc vs rt M w h rest kw hdoc
  · exact read_pam svc vs rt M w h rest kw hdoc
  · exact read_ppm svc vs rt M w h rest kw hdoc
  · exact read_tex svc vs rt M w h rest kw hdoc
  · exact read_xbm svc vs rt M w h rest kw hdoc
  · exact read_xpm svc vs rt M w h rest kw hdoc
  · exact read_compact svc vs rt M w h rest kw hdoc

end Proofs.C14Ser
