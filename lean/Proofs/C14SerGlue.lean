/-
  Proofs.C14SerGlue — the refusal conditions of the table `Proofs.C14Ser.Malformed` (on tagged Python values) are the refusal
  conditions of the typed document models on the values read from them.  Helper lemmas for Props/C14Serializers.lean.
-/
import Proofs.C14SerDefs
import Props.C09

namespace Proofs.C14Ser
open Gen (PyV)
open Model Model.Cli Model.Routes Model.RoutesDocs Model.RoutesVec Model.RasterDocs

/-- scale / border of the raster writers -/
theorem refused_iff (s b : PyV) (hb : hasType .border b = true) :
    Props.C09.Refused (numV s) (optNumV b) ↔ (scaleRefusedRaster s = true ∨ borderRefused b = true) := by
  unfold Props.C09.Refused scaleRefusedRaster
  have hs : (numV s).toInt < 1 ↔ decide ((numV s).toInt ≤ 0) = true := by
    simp only [decide_eq_true_eq]; omega
  rw [hs]
  apply or_congr Iff.rfl
  cases b with
  | none => simp [optNumV, borderRefused, refusedFloat]
  | int i => simp [optNumV, numV, borderRefused, Num.isFractional, Num.isNegative]
  | float n d =>
    simp only [hasType] at hb
    simp only [optNumV, numV, borderRefused, hb]
    simp only [refusedFloat, Bool.and_eq_true, bne_iff_ne, ne_eq, Bool.or_eq_true, decide_eq_true_eq] at hb
    obtain ⟨hd, hr⟩ := hb
    simp only [Option.some.injEq, exists_eq_left', Num.isFractional, Num.isNegative, decide_eq_true_eq, Bool.and_eq_true,
      Bool.or_eq_true, bne_iff_ne, ne_eq, iff_true]
    by_cases hf : n.natAbs % d = 0
    · right
      rcases hr with hn | hn
      · refine ⟨hn, Or.inl ?_⟩
        have hpos : 0 < n.natAbs := by omega
        have hdpos : 0 < d := Nat.pos_of_ne_zero hd
        intro h0
        have := Nat.div_add_mod n.natAbs d
        rw [h0, hf] at this
        omega
      · exact absurd hf hn
    · left; exact hf
  | bool _ => simp [hasType, refusedFloat] at hb
  | str _ => simp [hasType, refusedFloat] at hb
  | other _ => simp [hasType, refusedFloat] at hb

/-- the text writers have no scale -/
theorem refused_iff_one (b : PyV) (hb : hasType .border b = true) :
    Props.C09.Refused (.int 1) (optNumV b) ↔ borderRefused b = true := by
  have := refused_iff (.int 1) b hb
  simpa [numV, scaleRefusedRaster, Num.toInt] using this

theorem borderOK_of_typed (b : PyV) (hb : hasType .border b = true) : BorderOK (optNumV b) := by
  intro x hx
  cases b with
  | none => simp [optNumV] at hx
  | int i => simp [optNumV, numV] at hx; exact Or.inl ⟨i, hx.symm⟩
  | float n d =>
    have h := (refused_iff (.int 1) (.float n d) hb).2 (Or.inr (by simpa [borderRefused, hasType] using hb))
    rcases h with h | ⟨y, hy, h⟩
    · simp [numV, Num.toInt] at h
    · rw [hx] at hy
      cases hy
      exact Or.inr h
  | bool _ => simp [hasType, refusedFloat] at hb
  | str _ => simp [hasType, refusedFloat] at hb
  | other _ => simp [hasType, refusedFloat] at hb

/-- scale of the vector writers -/
theorem scaleBad_eq (svc : Services) (s : PyV) (hs : hasType .scale s = true) : scaleBad (scaleV svc s) = scaleRefusedVector s := by
  cases s with
  | int i => rfl
  | float n d =>
    simp only [scaleV, svgScaleOf, Option.getD_some, scaleBad, scaleRefusedVector]
    by_cases h : n ≤ 0
    · have : ¬ n > 0 := by omega
      simp [h, this]
    · have : n > 0 := by omega
      simp [h, this]
  | none => simp [hasType, isNumber] at hs
  | bool _ => simp [hasType, isNumber] at hs
  | str _ => simp [hasType, isNumber] at hs
  | other _ => simp [hasType, isNumber] at hs

/-- border of the vector writers, once the float case is set aside -/
theorem borderBad_eq (b : PyV) (hb : hasType .border b = true) (hf : refusedFloat b = false) :
    borderBad (intBorderV b) = borderRefused b := by
  cases b with
  | none => rfl
  | int i => rfl
  | float n d => simp only [hasType] at hb; rw [hb] at hf; cases hf
  | bool _ => simp [hasType, refusedFloat] at hb
  | str _ => simp [hasType, refusedFloat] at hb
  | other _ => simp [hasType, refusedFloat] at hb

theorem borderRefused_of_float (b : PyV) (hf : refusedFloat b = true) : borderRefused b = true := by
  cases b <;> simp_all [borderRefused, refusedFloat]

theorem dpiBad_eq (svc : Services) (d : PyV) (hd : hasType .dpi d = true) : dpiBad (dpiV svc d) = dpiNegative d := by
  cases d with
  | none => rfl
  | int i =>
    simp only [dpiV, dpiOf, Option.getD_some, dpiBad, dpiNegative]
    by_cases h : i < 0
    · have : i ≠ 0 := by omega
      simp [h, this]
    · simp [h]
  | bool _ => simp [hasType] at hd
  | str _ => simp [hasType] at hd
  | float _ _ => simp [hasType] at hd
  | other _ => simp [hasType] at hd

/-- the effective border of a typed request -/
theorem effBorder_eq (w h : Nat) (b : PyV) (hb : hasType .border b = true) (hf : refusedFloat b = false) :
    effBorder w h (intBorderV b) = borderNat w h b := by
  cases b with
  | none => rfl
  | int i => rfl
  | float n d => simp only [hasType] at hb; rw [hb] at hf; cases hf
  | bool _ => simp [hasType, refusedFloat] at hb
  | str _ => simp [hasType, refusedFloat] at hb
  | other _ => simp [hasType, refusedFloat] at hb

/-- the border a typed request asks for, when it is not refused -/
theorem borderValue_eq (w h : Nat) (b : PyV) (hb : hasType .border b = true) (hnr : borderRefused b = false) :
    Props.C09.borderValue w h (optNumV b) = some (borderNat w h b) := by
  cases b with
  | none => rfl
  | int i => rfl
  | float n d =>
    simp only [hasType] at hb
    simp only [borderRefused, hb] at hnr
    cases hnr
  | bool _ => simp [hasType, refusedFloat] at hb
  | str _ => simp [hasType, refusedFloat] at hb
  | other _ => simp [hasType, refusedFloat] at hb

/-- … stated with the refusal predicate of the raster models -/
theorem admitted_typed (w h : Nat) (s b : PyV) (hb : hasType .border b = true) (hnr : ¬ Props.C09.Refused (numV s) (optNumV b)) :
    Props.C09.borderValue w h (optNumV b) = some (borderNat w h b) := by
  apply borderValue_eq w h b hb
  cases hbr : borderRefused b with
  | false => rfl
  | true => exact absurd ((refused_iff s b hb).2 (Or.inr hbr)) hnr

/-- … and `range(-border, …)` gets it -/
theorem borderForRange_eq (w h : Nat) (s b : PyV) (hb : hasType .border b = true) (hnr : ¬ Props.C09.Refused (numV s) (optNumV b)) :
    borderForRange w h (optNumV b) = .ok (borderNat w h b) := by
  cases b with
  | none => rfl
  | int i => rfl
  | float n d =>
    exfalso
    apply hnr
    exact (refused_iff s (.float n d) hb).2 (Or.inr (by simpa [borderRefused, hasType] using hb))
  | bool _ => simp [hasType, refusedFloat] at hb
  | str _ => simp [hasType, refusedFloat] at hb
  | other _ => simp [hasType, refusedFloat] at hb

/-- a symbol has at least 11 modules per side -/
theorem symbol_pos {M : List (List Nat)} {w h : Nat} (hs : SymbolShaped M w h) : 0 < w ∧ 0 < h := by
  obtain ⟨v, h1, _, hv⟩ := hs.size
  have : 11 ≤ w := by
    rw [hv]; unfold Spec.size
    split <;> omega
  have := hs.square
  omega

theorem bytesOut_ok (r : R (List Nat)) (so : SerOut) (h : bytesOut r = .ok so) : ∃ d, r = .ok d ∧ so = .bytes d := by
  cases r with
  | error e => simp [bytesOut, Except.map] at h
  | ok d => simp only [bytesOut, Except.map, Except.ok.injEq] at h; exact ⟨d, rfl, h.symm⟩

theorem textOut_ok (r : R (List Char)) (so : SerOut) (h : textOut r = .ok so) : ∃ d, r = .ok d ∧ so = .text d none := by
  cases r with
  | error e => simp [textOut, Except.map] at h
  | ok d => simp only [textOut, Except.map, Except.ok.injEq] at h; exact ⟨d, rfl, h.symm⟩

/-! ### `bytesOut` / `textOut` keep the outcome -/

theorem bytesOut_err (r : R (List Nat)) (e : PyErr) : bytesOut r = .error e ↔ r = .error e := by
  cases r <;> simp [bytesOut, Except.map]

theorem textOut_err (r : R (List Char)) (e : PyErr) : textOut r = .error e ↔ r = .error e := by
  cases r <;> simp [textOut, Except.map]

theorem map_err {α β : Type} (f : α → β) (r : R α) (e : PyErr) : r.map f = .error e ↔ r = .error e := by
  cases r <;> simp [Except.map]

theorem clean_bytesOut (r : R (List Nat)) : Clean (bytesOut r) ↔ Clean r := by
  cases r <;> simp [bytesOut, Except.map, Clean]

theorem clean_textOut (r : R (List Char)) : Clean (textOut r) ↔ Clean r := by
  cases r <;> simp [textOut, Except.map, Clean]

theorem clean_map {α β : Type} (f : α → β) (r : R α) : Clean (r.map f) ↔ Clean r := by
  cases r <;> simp [Except.map, Clean]

theorem clean_of_exists {α : Type} (r : R α) (h : ∃ x, r = .ok x) : Clean r := Or.inl h

theorem clean_of_ve {α : Type} (r : R α) (h : r = .error .valueError) : Clean r := Or.inr h

end Proofs.C14Ser
