/-
  Proofs.Routes — lemmas about the route layer (Model/Routes.lean): keyword maps (`cget` through
  concatenation, filtering, keyed maps), Python's binding (`bindArgs`, `through`, `completeKw`), and the
  execution of plans.
-/
import Model.Routes
import Proofs.CliLemmas

namespace Proofs.Routes
open Gen (PyV)
open Model Model.Cli Model.Routes Proofs.CliLemmas

/-! ### keyword maps -/

theorem cget_nil (k : String) : cget [] k = none := rfl

theorem cget_cons (e : String × PyV) (c : Config) (k : String) :
    cget (e :: c) k = if e.1 == k then some e.2 else cget c k := by
  unfold cget
  rw [List.find?_cons]
  by_cases h : (e.1 == k) = true <;> simp [h]

theorem cget_append (a b : Config) (k : String) :
    cget (a ++ b) k = match cget a k with | some v => some v | none => cget b k := by
  induction a with
  | nil => simp [cget_nil]
  | cons e a ih =>
    rw [List.cons_append, cget_cons, cget_cons]
    by_cases h : (e.1 == k) = true
    · simp [h]
    · simp [h, ih]

/-- filtering by a predicate on the KEY -/
theorem cget_filter (c : Config) (p : String → Bool) (k : String) :
    cget (c.filter (fun e => p e.1)) k = if p k then cget c k else none := by
  induction c with
  | nil => simp [cget_nil]
  | cons e c ih =>
    by_cases hp : p e.1 = true
    · rw [List.filter_cons_of_pos (by simpa using hp), cget_cons, cget_cons, ih]
      by_cases h : (e.1 == k) = true
      · have : e.1 = k := by simpa using h
        subst this
        simp [hp]
      · simp [h]
    · rw [List.filter_cons_of_neg (by simpa using hp), ih, cget_cons]
      by_cases h : (e.1 == k) = true
      · have : e.1 = k := by simpa using h
        subst this
        simp [hp]
      · simp [h]

theorem cget_cpop (c : Config) (k k' : String) : cget (cpop c k) k' = if k' = k then none else cget c k' := by
  unfold cpop
  have := cget_filter c (fun x => x != k) k'
  rw [this]
  by_cases h : k' = k <;> simp [h]

/-- a map built from a list of keys -/
theorem cget_keys (keys : List String) (v : String → PyV) (k : String) :
    cget (keys.map (fun x => (x, v x))) k = if keys.contains k then some (v k) else none := by
  induction keys with
  | nil => simp [cget_nil]
  | cons x xs ih =>
    rw [List.map_cons, cget_cons, ih]
    by_cases h : (x == k) = true
    · have : x = k := by simpa using h
      subst this
      simp
    · have hne : ¬ x = k := by simpa using h
      have hne' : ¬ k = x := fun e => hne e.symm
      simp [h, List.contains_cons, hne']

/-- a map that keeps the keys of `Q` -/
theorem cget_rekey (Q : Config) (g : String × PyV → PyV) (k : String) :
    cget (Q.map (fun p => (p.1, g p))) k = (Q.find? (·.1 == k)).map g := by
  induction Q with
  | nil => rfl
  | cons p Q ih =>
    rw [List.map_cons, cget_cons, List.find?_cons]
    by_cases h : (p.1 == k) = true
    · simp [h]
    · simp [h, ih]

theorem isSome_cget_iff (c : Config) (k : String) : (cget c k).isSome = c.any (·.1 == k) := by
  induction c with
  | nil => rfl
  | cons e c ih =>
    rw [cget_cons, List.any_cons]
    by_cases h : (e.1 == k) = true
    · simp [h]
    · simp [h, ih]

/-- the default of a named parameter -/
def dflt (params : Config) (k : String) : PyV := (cget params k).getD .none

def hasKey (c : Config) (k : String) : Bool := c.any (·.1 == k)

theorem all_known_iff (kw : Config) (known : String → Bool) :
    kw.all (fun kv => known kv.1) = true ↔ ∀ k, (cget kw k).isSome = true → known k = true := by
  constructor
  · intro h k hk
    rw [isSome_cget_iff] at hk
    obtain ⟨e, he, hek⟩ := List.any_eq_true.1 hk
    have : e.1 = k := by simpa using hek
    rw [← this]
    exact List.all_eq_true.1 h e he
  · intro h
    apply List.all_eq_true.2
    intro e he
    apply h e.1
    rw [isSome_cget_iff]
    exact List.any_eq_true.2 ⟨e, he, by simp⟩

/-! ### binding -/

theorem completeKw_congr (key : String) (kw1 kw2 : Config) (defaults : Config)
    (hd : serializerDefaults key = some defaults)
    (hval : ∀ d ∈ defaults, (cget kw1 d.1).getD d.2 = (cget kw2 d.1).getD d.2)
    (hknown : (∀ k, (cget kw1 k).isSome = true → hasKey defaults k = true) ↔ (∀ k, (cget kw2 k).isSome = true → hasKey defaults k = true)) :
    completeKw key kw1 = completeKw key kw2 := by
  unfold completeKw
  rw [hd]
  have h1 := all_known_iff kw1 (hasKey defaults)
  have h2 := all_known_iff kw2 (hasKey defaults)
  simp only [hasKey] at h1 h2 hknown
  have hmap : defaults.map (fun d => (d.1, (cget kw1 d.1).getD d.2)) = defaults.map (fun d => (d.1, (cget kw2 d.1).getD d.2)) := by
    apply List.map_congr_left
    intro d hd'
    rw [hval d hd']
  by_cases hk : kw1.all (fun kv => defaults.any (·.1 == kv.1)) = true
  · have hk2 : kw2.all (fun kv => defaults.any (·.1 == kv.1)) = true := h2.2 (hknown.1 (h1.1 hk))
    simp only [hk, hk2, if_true, hmap]
  · have hk2 : ¬ kw2.all (fun kv => defaults.any (·.1 == kv.1)) = true := fun h => hk (h1.2 (hknown.2 (h2.1 h)))
    simp [hk, hk2]

theorem bindArgs_ok (sig : Sig) (kw b rest : Config) (h : bindArgs sig kw = .ok (b, rest)) :
    b = sig.params.map (fun p => (p.1, (cget kw p.1).getD p.2))
    ∧ rest = kw.filter (fun e => !sig.params.any (·.1 == e.1))
    ∧ kw.any (fun e => sig.positional.contains e.1) = false := by
  unfold bindArgs at h
  by_cases hpos : kw.any (fun e => sig.positional.contains e.1) = true
  · simp only [hpos, if_true] at h
    exact absurd h (by simp [throw, throwThe, MonadExceptOf.throw])
  · simp only [hpos, Bool.false_eq_true, if_false] at h
    by_cases hv : (!sig.varkw && !(kw.filter (fun e => !sig.params.any (·.1 == e.1))).isEmpty) = true
    · simp only [hv, if_true] at h
      exact absurd h (by simp [throw, throwThe, MonadExceptOf.throw])
    · simp only [hv, Bool.false_eq_true, if_false, pure, Except.pure, Except.ok.injEq, Prod.mk.injEq] at h
      exact ⟨h.1.symm, h.2.symm, by simpa using hpos⟩

theorem arg_bound (params kw : Config) (k : String) (hk : hasKey params k = true) :
    arg (params.map (fun p => (p.1, (cget kw p.1).getD p.2))) k = (cget kw k).getD (dflt params k) := by
  unfold arg dflt
  rw [cget_rekey]
  unfold cget
  unfold hasKey at hk
  cases hf : params.find? (·.1 == k) with
  | none =>
    rw [List.find?_eq_none] at hf
    obtain ⟨e, he, hek⟩ := List.any_eq_true.1 hk
    exact absurd hek (hf e he)
  | some p =>
    have hp : p.1 = k := by simpa using List.find?_some hf
    simp [hp]

/-- what the inner call of a wrapper receives, key by key -/
theorem through_cget (sig : Sig) (passes : List String) (kw b inner : Config)
    (h : through sig passes kw = .ok (b, inner)) (hsub : ∀ k ∈ passes, hasKey sig.params k = true) :
    (∀ k, cget inner k =
      if passes.contains k then some ((cget kw k).getD (dflt sig.params k))
      else if hasKey sig.params k then none else cget kw k)
    ∧ (∀ k, hasKey sig.params k = true → arg b k = (cget kw k).getD (dflt sig.params k))
    ∧ kw.any (fun e => sig.positional.contains e.1) = false := by
  unfold through at h
  cases hb : bindArgs sig kw with
  | error e => rw [hb] at h; exact absurd h (by simp [bind, Except.bind])
  | ok br =>
    obtain ⟨b', rest⟩ := br
    obtain ⟨hb1, hrest, hpos⟩ := bindArgs_ok sig kw b' rest hb
    rw [hb] at h
    simp only [bind, Except.bind] at h
    unfold callKw at h
    by_cases hc : (rest.any (fun e => (passes.map (fun k => (k, arg b' k))).any (·.1 == e.1))) = true
    · simp only [hc, if_true] at h
      exact absurd h (by simp [throw, throwThe, MonadExceptOf.throw])
    · simp only [hc, Bool.false_eq_true, if_false, pure, Except.pure, Except.ok.injEq, Prod.mk.injEq] at h
      obtain ⟨hbb, hinner⟩ := h
      subst hbb
      refine ⟨?_, ?_, hpos⟩
      · intro k
        rw [← hinner, cget_append, cget_keys]
        by_cases hp : passes.contains k = true
        · have hk := hsub k (by simpa using hp)
          simp only [hp, if_true]
          rw [hb1, arg_bound _ _ _ hk]
        · simp only [hp, Bool.false_eq_true, if_false]
          rw [hrest]
          have := cget_filter kw (fun x => !sig.params.any (·.1 == x)) k
          rw [this]
          unfold hasKey
          by_cases hq : sig.params.any (·.1 == k) = true <;> simp [hq]
      · intro k hk
        rw [hb1, arg_bound _ _ _ hk]

theorem through_ok_of (sig : Sig) (passes : List String) (kw : Config) (hv : sig.varkw = true)
    (hsub : ∀ k ∈ passes, hasKey sig.params k = true)
    (hpos : kw.any (fun e => sig.positional.contains e.1) = false) :
    ∃ b inner, through sig passes kw = .ok (b, inner) := by
  unfold through bindArgs
  simp only [hpos, Bool.false_eq_true, if_false, hv, Bool.not_true, Bool.false_and]
  simp only [bind, Except.bind, pure, Except.pure]
  unfold callKw
  have : (kw.filter (fun e => !sig.params.any (·.1 == e.1))).any
      (fun e => (passes.map (fun k => (k, arg (sig.params.map (fun p => (p.1, (cget kw p.1).getD p.2))) k))).any (·.1 == e.1)) = false := by
    rw [Bool.eq_false_iff]
    intro hany
    obtain ⟨e, he, hex⟩ := List.any_eq_true.1 hany
    obtain ⟨q, hq, hqe⟩ := List.any_eq_true.1 hex
    rw [List.mem_filter] at he
    obtain ⟨k, hk, hkq⟩ := List.mem_map.1 hq
    have h1 : q.1 = e.1 := by simpa using hqe
    have h2 : q.1 = k := by rw [← hkq]
    have := hsub k hk
    unfold hasKey at this
    rw [← h2, h1] at this
    simp [this] at he
  simp only [this, Bool.false_eq_true, if_false, pure, Except.pure]
  exact ⟨_, _, rfl⟩

theorem through_err (sig : Sig) (passes : List String) (kw : Config) (hv : sig.varkw = true)
    (hsub : ∀ k ∈ passes, hasKey sig.params k = true)
    (hpos : kw.any (fun e => sig.positional.contains e.1) = true) :
    through sig passes kw = .error .typeError := by
  unfold through bindArgs
  simp only [hpos, if_true]
  rfl

end Proofs.Routes
