/-
  Proofs.RasterDocsXbm — the list-level XBM reader (`Spec.L.readXbm`: the C tokenizer as a state machine, the two
  `#define` lines, the declaration, the byte array) applied to the whole text the model writes
  (`Model.RasterDocs.xbmDoc`), for every C identifier as `name`.  Mathlib-free.
-/
import Proofs.RasterDocsBase
import Proofs.RasterDocsTok
import Proofs.RasterDocsNetpbm

namespace Proofs.RasterDocs

open Model Model.RasterDocs Spec Spec.L Proofs.Raster

/-! ### the tokens of the header -/

theorem run_kw_define (r : List Char) : run .idle ("define".toList ++ ' ' :: r) = .ident "define".toList :: run .idle r := rfl
theorem run_kw_static (r : List Char) : run .idle ("static".toList ++ ' ' :: r) = .ident "static".toList :: run .idle r := rfl
theorem run_kw_unsigned (r : List Char) : run .idle ("unsigned".toList ++ ' ' :: r) = .ident "unsigned".toList :: run .idle r := rfl
theorem run_kw_char (r : List Char) : run .idle ("char".toList ++ ' ' :: r) = .ident "char".toList :: run .idle r := rfl

/-- `[] = {` and the end of the line -/
theorem run_xbm_open (r : List Char) :
    run .idle ('[' :: ']' :: ' ' :: '=' :: ' ' :: '{' :: '\n' :: r) = .punct '[' :: .punct ']' :: .punct '=' :: .punct '{' :: run .idle r := rfl

/-- `};` and the end of the text -/
theorem run_xbm_close : run .idle "};\n".toList = [.punct '}', .punct ';'] := rfl

/-- the header, piece by piece -/
theorem xbmHeader_eq (name : List Char) (W H : Nat) (rest : List Char) :
    xbmHeader name W H ++ rest =
      '#' :: ("define".toList ++ ' ' :: (name ++ "_width".toList ++ ' ' :: (dec W ++ '\n' ::
      '#' :: ("define".toList ++ ' ' :: (name ++ "_height".toList ++ ' ' :: (dec H ++ '\n' ::
      ("static".toList ++ ' ' :: ("unsigned".toList ++ ' ' :: ("char".toList ++ ' ' ::
      (name ++ "_bits".toList ++ '[' :: ']' :: ' ' :: '=' :: ' ' :: '{' :: '\n' :: rest)))))))))) := by
  have e1 : "#define ".toList = '#' :: ("define".toList ++ [' ']) := rfl
  have e2 : "_width ".toList = "_width".toList ++ [' '] := rfl
  have e3 : "_height ".toList = "_height".toList ++ [' '] := rfl
  have e4 : "static unsigned char ".toList = "static".toList ++ ' ' :: ("unsigned".toList ++ ' ' :: ("char".toList ++ [' '])) := rfl
  have e5 : "_bits[] = {".toList = "_bits".toList ++ ['[', ']', ' ', '=', ' ', '{'] := rfl
  unfold xbmHeader
  rw [e1, e2, e3, e4, e5]
  simp only [List.append_assoc, List.cons_append, List.nil_append]

/-- the sixteen tokens in front of the array -/
def xbmHeadToks (name : List Char) (W H : Nat) (rest : List Tok) : List Tok :=
  .punct '#' :: .ident "define".toList :: .ident (name ++ "_width".toList) :: .num W ::
  .punct '#' :: .ident "define".toList :: .ident (name ++ "_height".toList) :: .num H ::
  .ident "static".toList :: .ident "unsigned".toList :: .ident "char".toList :: .ident (name ++ "_bits".toList) ::
  .punct '[' :: .punct ']' :: .punct '=' :: .punct '{' :: rest

theorem run_xbmHeader (name : List Char) (hname : IsCIdent name) (W H : Nat) (rest : List Char) :
    run .idle (xbmHeader name W H ++ rest) = xbmHeadToks name W H (run .idle rest) := by
  rw [xbmHeader_eq]
  rw [run_punct '#' _ rfl, run_kw_define,
    run_ident name hname "_width".toList (by decide) ' ' _ (by decide), run_ws ' ' _ (Or.inl rfl),
    run_dec W '\n' _ (by decide) (by decide) (by decide) (by decide), run_ws '\n' _ (Or.inr (Or.inl rfl)),
    run_punct '#' _ rfl, run_kw_define,
    run_ident name hname "_height".toList (by decide) ' ' _ (by decide), run_ws ' ' _ (Or.inl rfl),
    run_dec H '\n' _ (by decide) (by decide) (by decide) (by decide), run_ws '\n' _ (Or.inr (Or.inl rfl)),
    run_kw_static, run_kw_unsigned, run_kw_char,
    run_ident name hname "_bits".toList (by decide) '[' _ (by decide), run_xbm_open]
  rfl

/-! ### the tokens of the array -/

/-- numbers separated by commas -/
def commaToks : List Nat → List Tok
  | [] => []
  | [b] => [.num b]
  | b :: c :: rest => .num b :: .punct ',' :: commaToks (c :: rest)

theorem commaToks_append : ∀ (bs cs : List Nat), bs ≠ [] → cs ≠ [] →
    commaToks (bs ++ cs) = commaToks bs ++ .punct ',' :: commaToks cs
  | [], _, h, _ => absurd rfl h
  | [x], cs, _, hcs => by
    cases cs with
    | nil => exact absurd rfl hcs
    | cons c cs => rfl
  | x :: y :: rest, cs, _, hcs => by
    have ih := commaToks_append (y :: rest) cs (by simp) hcs
    simp only [List.cons_append] at ih ⊢
    simp only [commaToks, ih, List.cons_append]

theorem commaToks_clean : ∀ (bs : List Nat), ∀ t ∈ commaToks bs, t.isComment = false ∧ t.isBad = false
  | [], t, ht => by simp [commaToks] at ht
  | [x], t, ht => by
    simp only [commaToks, List.mem_singleton] at ht
    subst ht; exact ⟨rfl, rfl⟩
  | x :: y :: rest, t, ht => by
    simp only [commaToks, List.mem_cons] at ht
    rcases ht with rfl | rfl | ht
    · exact ⟨rfl, rfl⟩
    · exact ⟨rfl, rfl⟩
    · exact commaToks_clean (y :: rest) t ht

/-- the items of one row: `0x..` separated by `, ` -/
theorem run_items : ∀ (bs : List Nat), bs ≠ [] → (∀ b ∈ bs, b < 256) → ∀ (t : Char) (r : List Char), (hexDigit? t).isSome = false →
    run .idle (joinComma (bs.map (fun b => '0' :: 'x' :: hex2 b)) ++ t :: r) = commaToks bs ++ run .idle (t :: r)
  | [], h, _, _, _, _ => absurd rfl h
  | [x], _, hb, t, r, ht => by
    simp only [List.map_cons, List.map_nil, joinComma, List.cons_append, commaToks, List.nil_append]
    exact run_hex2 x (hb x (by simp)) t r ht
  | x :: y :: rest, _, hb, t, r, ht => by
    have ih := run_items (y :: rest) (by simp) (fun b hb' => hb b (List.mem_cons_of_mem _ hb')) t r ht
    simp only [List.map_cons] at ih ⊢
    simp only [joinComma, List.append_assoc, List.cons_append, List.nil_append, commaToks]
    rw [run_hex2 x (hb x (by simp)) ',' _ (by decide), run_punct ',' _ rfl, run_ws ' ' _ (Or.inl rfl)]
    rw [ih]

/-- one row of the array -/
theorem run_xbmRow (row : List Nat) (hne : packRowXbm row ≠ []) (hb : ∀ b ∈ packRowXbm row, b < 256) (last : Bool) (r : List Char) :
    run .idle (xbmRow row last ++ r) = commaToks (packRowXbm row) ++ ((if last then [] else [.punct ',']) ++ run .idle r) := by
  have e : "    ".toList = [' ', ' ', ' ', ' '] := rfl
  unfold xbmRow
  rw [e]
  cases last with
  | true =>
    simp only [if_true, List.append_assoc, List.cons_append, List.nil_append]
    rw [run_ws ' ' _ (Or.inl rfl), run_ws ' ' _ (Or.inl rfl), run_ws ' ' _ (Or.inl rfl), run_ws ' ' _ (Or.inl rfl),
      run_items _ hne hb '\n' r (by decide), run_ws '\n' _ (Or.inr (Or.inl rfl))]
  | false =>
    simp only [Bool.false_eq_true, if_false, List.append_assoc, List.cons_append, List.nil_append]
    rw [run_ws ' ' _ (Or.inl rfl), run_ws ' ' _ (Or.inl rfl), run_ws ' ' _ (Or.inl rfl), run_ws ' ' _ (Or.inl rfl),
      run_items _ hne hb ',' _ (by decide), run_punct ',' _ rfl, run_ws '\n' _ (Or.inr (Or.inl rfl))]

/-- all rows of the array: no comma after the last byte -/
theorem run_xbmRows : ∀ (rows : List (List Nat)), rows ≠ [] →
    (∀ row ∈ rows, packRowXbm row ≠ [] ∧ ∀ b ∈ packRowXbm row, b < 256) → ∀ (r : List Char),
    run .idle ((withLast xbmRow rows).flatten ++ r) = commaToks (rows.flatMap packRowXbm) ++ run .idle r
  | [], h, _, _ => absurd rfl h
  | [x], _, hrows, r => by
    have hx := hrows x (by simp)
    simp only [withLast, List.flatten_cons, List.flatten_nil, List.append_nil, List.flatMap_cons, List.flatMap_nil]
    rw [run_xbmRow x hx.1 hx.2 true r]
    simp only [if_true, List.nil_append]
  | x :: y :: rest, _, hrows, r => by
    have hx := hrows x (by simp)
    have hy := hrows y (by simp)
    have ih := run_xbmRows (y :: rest) (by simp) (fun row hr => hrows row (List.mem_cons_of_mem _ hr)) r
    have hne : (y :: rest).flatMap packRowXbm ≠ [] := by
      rw [List.flatMap_cons]
      intro h0
      exact hy.1 (List.append_eq_nil_iff.1 h0).1
    simp only [withLast, List.flatten_cons, List.append_assoc]
    rw [run_xbmRow x hx.1 hx.2 false _]
    have hfm : (x :: y :: rest).flatMap packRowXbm = packRowXbm x ++ (y :: rest).flatMap packRowXbm := List.flatMap_cons
    rw [ih, hfm, commaToks_append _ _ hx.1 hne]
    simp only [Bool.false_eq_true, if_false, List.append_assoc, List.cons_append, List.nil_append]

/-! ### the reader on these tokens -/

theorem xbmArray_comma : ∀ (bs : List Nat), bs ≠ [] → (∀ b ∈ bs, b < 256) →
    xbmArray (commaToks bs ++ [.punct '}', .punct ';']) = .ok bs
  | [], h, _ => absurd rfl h
  | [x], _, hb => by
    have hx : ¬ x > 255 := by have := hb x (by simp); omega
    simp [commaToks, xbmArray, hx]
  | x :: y :: rest, _, hb => by
    have ih := xbmArray_comma (y :: rest) (by simp) (fun b hb' => hb b (List.mem_cons_of_mem _ hb'))
    have hx : ¬ x > 255 := by have := hb x (by simp); omega
    simp only [commaToks, List.cons_append] at ih ⊢
    simp only [xbmArray, hx, if_false, beq_self_eq_true, if_true, ih]

theorem xbmDecl_ok (name : List Char) (rest : List Tok) :
    xbmDecl name (.ident "static".toList :: .ident "unsigned".toList :: .ident "char".toList :: .ident (name ++ "_bits".toList) ::
      .punct '[' :: .punct ']' :: .punct '=' :: .punct '{' :: rest) = .ok rest := by
  simp [xbmDecl]

/-- what the reader makes of the tokens of a well-formed XBM text -/
theorem readXbm_of_tokens (src name : List Char) (W H : Nat) (bytes : List Nat)
    (hsrc : L.cTokens src = xbmHeadToks name W H (commaToks bytes ++ [.punct '}', .punct ';']))
    (hW : 0 < W) (hH : 0 < H) (hne : bytes ≠ []) (hb : ∀ b ∈ bytes, b < 256) (hlen : bytes.length = (W + 7) / 8 * H) :
    L.readXbm src name = .ok { w := W, h := H, px := (L.chunks ((W + 7) / 8) H bytes).map (fun row => (unpackRowXbm W row).map bw) } := by
  have hclean : ∀ t ∈ xbmHeadToks name W H (commaToks bytes ++ [.punct '}', .punct ';']), t.isComment = false ∧ t.isBad = false := by
    intro t ht
    simp only [xbmHeadToks, List.mem_cons, List.mem_append, List.not_mem_nil, or_false] at ht
    rcases ht with rfl | rfl | rfl | rfl | rfl | rfl | rfl | rfl | rfl | rfl | rfl | rfl | rfl | rfl | rfl | rfl | ht | rfl | rfl
    all_goals first | exact ⟨rfl, rfl⟩ | exact commaToks_clean bytes t ht
  have hfilter : (L.cTokens src).filter (fun t => !t.isComment) = xbmHeadToks name W H (commaToks bytes ++ [.punct '}', .punct ';']) := by
    rw [hsrc, List.filter_eq_self]
    intro t ht
    rw [(hclean t ht).1]; rfl
  have hany : (xbmHeadToks name W H (commaToks bytes ++ [.punct '}', .punct ';'])).any Tok.isBad = false := by
    rw [List.any_eq_false]
    intro t ht
    rw [(hclean t ht).2]; decide
  have hW0 : (W == 0) = false := by simp; omega
  have hH0 : (H == 0) = false := by simp; omega
  unfold L.readXbm
  simp only [hfilter, hany]
  simp only [xbmHeadToks, Bool.false_eq_true, if_false, beq_self_eq_true, Bool.and_self, Bool.not_true, bne_self_eq_false,
    xbmDecl_ok, hW0, hH0, Bool.or_self, xbmArray_comma bytes hne hb, hlen]

/-! ### the bytes of a row -/

theorem packRowXbm_length (row : List Nat) : (packRowXbm row).length = (row.length + 7) / 8 := by
  simp [packRowXbm, groupsOf]

theorem foldBits_rev_lt (c : List Nat) (hc : c.length = 8) (hv : ∀ v ∈ c, v < 2) : foldBits 1 c.reverse < 256 := by
  match c, hc with
  | [a0, a1, a2, a3, a4, a5, a6, a7], _ =>
    have h0 := hv a0 (by simp); have h1 := hv a1 (by simp); have h2 := hv a2 (by simp); have h3 := hv a3 (by simp)
    have h4 := hv a4 (by simp); have h5 := hv a5 (by simp); have h6 := hv a6 (by simp); have h7 := hv a7 (by simp)
    simp [foldBits, Nat.shiftLeft_eq]
    omega

theorem packRowXbm_lt (row : List Nat) (hrow : ∀ v ∈ row, v ≤ 1) : ∀ b ∈ packRowXbm row, b < 256 := by
  intro b hb
  simp only [packRowXbm, groupsOf, List.map_map, List.mem_map, List.mem_range, Function.comp] at hb
  obtain ⟨g, _, rfl⟩ := hb
  exact foldBits_rev_lt _ (groupAt_length 8 row g)
    (groupAt_bound 2 8 (by decide) row g (fun v hv => by have := hrow v hv; omega))

theorem packRowXbm_ne (row : List Nat) (hrow : 0 < row.length) : packRowXbm row ≠ [] := by
  intro h0
  have := packRowXbm_length row
  rw [h0] at this
  simp only [List.length_nil] at this
  omega

/-! ### the whole document -/

theorem xbmDoc_eq {w h : Nat} {scale : Num} {border : Option Num} {b : Nat} (a : Admitted w h scale border b)
    (M : List (List Nat)) (hM : WellFormed M w h) (name : List Char) :
    xbmDoc M w h scale border name =
      .ok (xbmHeader name ((w + 2 * b) * scale.toInt.toNat) ((h + 2 * b) * scale.toInt.toNat)
            ++ (withLast xbmRow (grid M w h scale.toInt.toNat b)).flatten ++ "};\n".toList) := by
  simp only [xbmDoc, validSB_ok a, matrixIter_ok a M hM, a.okRange, bind, Except.bind, pure, Except.pure]

/-- XBM: the reader returns the `Spec.grid` picture in black and white, for every C identifier as `name` -/
theorem xbm_doc {w h : Nat} {scale : Num} {border : Option Num} {b : Nat} (a : Admitted w h scale border b)
    (M : List (List Nat)) (hM : WellFormed M w h) (hbits : Bits M) (hw : 0 < w) (hh : 0 < h)
    (name : List Char) (hname : IsCIdent name) :
    ∃ doc, xbmDoc M w h scale border name = .ok doc
      ∧ L.readXbm doc name = .ok { w := (w + 2 * b) * scale.toInt.toNat, h := (h + 2 * b) * scale.toInt.toNat,
                                   px := bwPicture (grid M w h scale.toInt.toNat b) } := by
  have hs := a.pos
  generalize hsd : scale.toInt.toNat = s at hs
  refine ⟨_, by rw [xbmDoc_eq a M hM, hsd], ?_⟩
  have hW : 0 < (w + 2 * b) * s := Nat.mul_pos (by omega) hs
  have hH : 0 < (h + 2 * b) * s := Nat.mul_pos (by omega) hs
  have hgbits := grid_bits M w h s b hbits
  have hrows : ∀ row ∈ grid M w h s b, packRowXbm row ≠ [] ∧ ∀ x ∈ packRowXbm row, x < 256 := by
    intro row hr
    refine ⟨packRowXbm_ne row ?_, packRowXbm_lt row (hgbits row hr)⟩
    rw [grid_row_length M w h s b row hr]; exact hW
  have hgne : grid M w h s b ≠ [] := by
    intro h0
    have := grid_length M w h s b
    rw [h0] at this
    simp only [List.length_nil] at this
    omega
  have hrowlen : ∀ r ∈ grid M w h s b, (packRowXbm r).length = ((w + 2 * b) * s + 7) / 8 := by
    intro r hr
    rw [packRowXbm_length, grid_row_length M w h s b r hr]
  have hlen : ((grid M w h s b).flatMap packRowXbm).length = ((w + 2 * b) * s + 7) / 8 * ((h + 2 * b) * s) := by
    rw [length_flatMap_const _ _ _ hrowlen, grid_length]
  have hbytes : ∀ x ∈ (grid M w h s b).flatMap packRowXbm, x < 256 := by
    intro x hx
    simp only [List.mem_flatMap] at hx
    obtain ⟨row, hr, hx⟩ := hx
    exact (hrows row hr).2 x hx
  have hbne : (grid M w h s b).flatMap packRowXbm ≠ [] := by
    intro h0
    rw [h0] at hlen
    simp only [List.length_nil] at hlen
    have h8 : 0 < ((w + 2 * b) * s + 7) / 8 := by omega
    have := Nat.mul_pos h8 hH
    omega
  have htoks : L.cTokens (xbmHeader name ((w + 2 * b) * s) ((h + 2 * b) * s) ++ (withLast xbmRow (grid M w h s b)).flatten ++ "};\n".toList)
      = xbmHeadToks name ((w + 2 * b) * s) ((h + 2 * b) * s) (commaToks ((grid M w h s b).flatMap packRowXbm) ++ [.punct '}', .punct ';']) := by
    unfold L.cTokens
    rw [List.append_assoc, run_xbmHeader name hname, run_xbmRows _ hgne hrows, run_xbm_close]
  rw [readXbm_of_tokens _ name _ _ _ htoks hW hH hbne hbytes hlen]
  congr 1
  congr 1
  have hch := chunks_flatMap packRowXbm _ (grid M w h s b) hrowlen
  rw [grid_length] at hch
  rw [hch, List.map_map, ← map_bw_bits _ hgbits]
  apply List.map_congr_left
  intro r hr
  simp only [Function.comp]
  have := unpack_pack_xbm r (hgbits r hr)
  rw [grid_row_length M w h s b r hr] at this
  rw [this]

end Proofs.RasterDocs
