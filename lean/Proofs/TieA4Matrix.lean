/-
  Proofs.TieA4Matrix — `make_matrix` (translated, Gen/Funcs4.lean) against `Model.makeMatrix`.

  The translation builds the matrix (`[2] * width`, one copy per row), runs the two reservation loops on it (rows reached
  through the views `row = matrix[i]`, `row_eight = matrix[8]`, negative indexes `row[-11]`, `matrix[-i][8]`) and calls the
  round-2 translation of `add_timing_pattern`.  The model is `timingM (reservedM n) n (n < 21)` (`Proofs.TieA2Timing`); the
  two loops of `reservedM` are `verStep` / `fmtStep` below.  The loop bodies of the translation are never quoted: they are
  found by unification (`fold_sq_then`).
-/
import Proofs.TieA2Timing
import Gen.Funcs4

namespace Proofs.TieA4
open Gen.Py Proofs.TieA Proofs.TieA2 Model

/-! ### the loops of `Model.makeMatrix` -/

/-- one round of the version-area loop of `Model.makeMatrix` -/
def verStep (n : Nat) (m : Matrix) (i : Nat) : Matrix :=
  let m := set2 (set2 (set2 m i (n - 11) 0) i (n - 10) 0) i (n - 9) 0
  set2 (set2 (set2 m (n - 11) i 0) (n - 10) i 0) (n - 9) i 0

/-- Python's `-i` as an index into a sequence of length n (i ≤ n): 0 for i = 0 -/
def negIdx (n i : Nat) : Nat := if i == 0 then 0 else n - i

/-- one round of the format-area loop of `Model.makeMatrix` -/
def fmtStep (n : Nat) (isMicro : Bool) (m : Matrix) (i : Nat) : Matrix :=
  let m := set2 (set2 m i 8 0) 8 i 0
  if !isMicro then
    set2 (set2 m (negIdx n i) 8 0) 8 (negIdx n i) 0
  else m

/-- the matrix of `0x2` -/
def twos (n : Nat) : Matrix := Array.replicate n (Array.replicate n 2)

theorem reservedM_eq (n : Nat) :
    reservedM n = (List.range 9).foldl (fmtStep n (decide (n < 21)))
      (if n > 41 then (List.range 6).foldl (verStep n) (twos n) else twos n) := rfl

theorem sq_twos (n : Nat) : Sq (twos n) n := by
  constructor
  · simp [twos]
  · intro i h
    simp [twos]

theorem sq_verStep {m : Matrix} {n : Nat} (h : Sq m n) (i : Nat) : Sq (verStep n m i) n :=
  sq_set2 (sq_set2 (sq_set2 (sq_set2 (sq_set2 (sq_set2 h _ _ _) _ _ _) _ _ _) _ _ _) _ _ _) _ _ _

theorem sq_fmtStep {m : Matrix} {n : Nat} (h : Sq m n) (b : Bool) (i : Nat) : Sq (fmtStep n b m i) n := by
  unfold fmtStep
  cases b
  · exact sq_set2 (sq_set2 (sq_set2 (sq_set2 h _ _ _) _ _ _) _ _ _) _ _ _
  · exact sq_set2 (sq_set2 h _ _ _) _ _ _

theorem sq_foldl {n : Nat} (f : Matrix → Nat → Matrix) (hf : ∀ m k, Sq m n → Sq (f m k) n) (xs : List Nat) :
    ∀ m, Sq m n → Sq (xs.foldl f m) n := by
  induction xs with
  | nil => intro m h; exact h
  | cons x xs ih => intro m h; exact ih _ (hf m x h)

/-! ### a loop over `range(c)` whose state is the image of an n × n model matrix -/

theorem fold_sq (n : Nat) (xs : List Nat) (body : List (List Int) → Int → M (List (List Int))) (f : Matrix → Nat → Matrix)
    (hf : ∀ m k, Sq m n → Sq (f m k) n)
    (hstep : ∀ m, Sq m n → ∀ k ∈ xs, body (mI m) (Int.ofNat k) = .ok (mI (f m k))) :
    ∀ m, Sq m n → foldlM (xs.map Int.ofNat) (mI m) body = .ok (mI (xs.foldl f m)) := by
  induction xs with
  | nil => intro m _; rfl
  | cons x xs ih =>
    intro m hs
    rw [List.map_cons, foldlM_cons, hstep m hs x (by simp)]
    exact ih (fun m hm k hk => hstep m hm k (by simp [hk])) _ (hf m x hs)

/-- the loop followed by the rest of the function; `body` and `k` are found by unification -/
theorem fold_sq_then {β : Type} (n c : Nat) (body : List (List Int) → Int → M (List (List Int))) (f : Matrix → Nat → Matrix)
    (k : List (List Int) → M β) (r : M β) (m : Matrix) (hs : Sq m n)
    (hf : ∀ m k, Sq m n → Sq (f m k) n)
    (hstep : ∀ m, Sq m n → ∀ i, i < c → body (mI m) (Int.ofNat i) = .ok (mI (f m i)))
    (hk : k (mI ((List.range c).foldl f m)) = r) :
    Gen.Py.bind (foldlM (range 0 (c : Int)) (mI m) body) k = r := by
  rw [range_zero_nat, fold_sq n (List.range c) body f hf (fun m hm i hi => hstep m hm i (by simpa using hi)) m hs, bind_ok]
  exact hk

/-! ### cells reached through Python indexes -/

theorem setItem2_zero {m : Matrix} {n : Nat} (hs : Sq m n) (ii jj : Int) (i j : Nat)
    (hi : normIndex n ii = some i) (hj : normIndex n jj = some j) :
    setItem2 (mI m) ii jj (0 : Int) = .ok (mI (set2 m i j 0)) :=
  setItem2_cell hs ii jj i j 0 hi hj

/-- `xs[-i]` for 0 ≤ i ≤ n, n ≥ 1: `-0` is index 0, not the end -/
theorem normIndex_negIdx (n i : Nat) (hn : 1 ≤ n) (h : i ≤ n) : normIndex n (-(Int.ofNat i)) = some (negIdx n i) := by
  unfold negIdx
  by_cases h0 : i = 0
  · subst h0
    simpa using normIndex_nat n 0 (by omega)
  · have : (i == 0) = false := by simpa using h0
    rw [this]
    exact normIndex_neg n i (by omega) h

theorem normIndex_lit (n : Nat) (k : Nat) (h : k < n) : normIndex n (Int.ofNat k) = some k := normIndex_nat n k h

/-- one round of the version-area loop of the translation -/
theorem ver_round {m : Matrix} {n : Nat} (hs : Sq m n) (hn : 11 ≤ n) (i : Nat) (hi : i < 6) :
    (Gen.Py.bind ((Gen.Py.index (mI m) (Int.ofNat i)) : M (List Int)) (fun _ =>
      (Gen.Py.bind ((Gen.Py.setItem2 (mI m) (Int.ofNat i) (-11 : Int) (0 : Int)) : M (List (List Int))) (fun t'2 =>
        (Gen.Py.bind ((Gen.Py.setItem2 t'2 (Int.ofNat i) (-10 : Int) (0 : Int)) : M (List (List Int))) (fun t'3 =>
          (Gen.Py.bind ((Gen.Py.setItem2 t'3 (Int.ofNat i) (-9 : Int) (0 : Int)) : M (List (List Int))) (fun t'4 =>
            (Gen.Py.bind ((Gen.Py.setItem2 t'4 (-11 : Int) (Int.ofNat i) (0 : Int)) : M (List (List Int))) (fun t'5 =>
              (Gen.Py.bind ((Gen.Py.setItem2 t'5 (-10 : Int) (Int.ofNat i) (0 : Int)) : M (List (List Int))) (fun t'6 =>
                ((Gen.Py.setItem2 t'6 (-9 : Int) (Int.ofNat i) (0 : Int)) : M (List (List Int)))))))))))))))
      = .ok (mI (verStep n m i)) := by
  have hI : normIndex n (Int.ofNat i) = some i := normIndex_nat n i (by omega)
  have h11 : normIndex n (-11 : Int) = some (n - 11) := normIndex_neg n 11 (by omega) hn
  have h10 : normIndex n (-10 : Int) = some (n - 10) := normIndex_neg n 10 (by omega) (by omega)
  have h9 : normIndex n (-9 : Int) = some (n - 9) := normIndex_neg n 9 (by omega) (by omega)
  have s1 := sq_set2 hs i (n - 11) 0
  have s2 := sq_set2 s1 i (n - 10) 0
  have s3 := sq_set2 s2 i (n - 9) 0
  have s4 := sq_set2 s3 (n - 11) i 0
  have s5 := sq_set2 s4 (n - 10) i 0
  rw [index_row hs _ _ hI, bind_ok, setItem2_zero hs _ _ _ _ hI h11, bind_ok, setItem2_zero s1 _ _ _ _ hI h10, bind_ok,
    setItem2_zero s2 _ _ _ _ hI h9, bind_ok, setItem2_zero s3 _ _ _ _ h11 hI, bind_ok, setItem2_zero s4 _ _ _ _ h10 hI, bind_ok,
    setItem2_zero s5 _ _ _ _ h9 hI]
  rfl

/-- one round of the format-area loop of the translation -/
theorem fmt_round {m : Matrix} {n : Nat} (hs : Sq m n) (hn : 9 ≤ n) (isMicro : Bool) (i : Nat) (hi : i < 9) :
    (Gen.Py.bind ((Gen.Py.setItem2 (mI m) (Int.ofNat i) (8 : Int) (0 : Int)) : M (List (List Int))) (fun t'9 =>
      (Gen.Py.bind ((Gen.Py.setItem2 t'9 (8 : Int) (Int.ofNat i) (0 : Int)) : M (List (List Int))) (fun t'10 =>
        (if (!isMicro) then
          (Gen.Py.bind ((Gen.Py.setItem2 t'10 (-(Int.ofNat i)) (8 : Int) (0 : Int)) : M (List (List Int))) (fun t'11 =>
            ((Gen.Py.setItem2 t'11 (8 : Int) (-(Int.ofNat i)) (0 : Int)) : M (List (List Int)))))
        else
          (Except.ok t'10))))))
      = .ok (mI (fmtStep n isMicro m i)) := by
  have hI : normIndex n (Int.ofNat i) = some i := normIndex_nat n i (by omega)
  have h8 : normIndex n (8 : Int) = some 8 := normIndex_nat n 8 (by omega)
  have hN : normIndex n (-(Int.ofNat i)) = some (negIdx n i) := normIndex_negIdx n i (by omega) (by omega)
  have s1 := sq_set2 hs i 8 0
  have s2 := sq_set2 s1 8 i 0
  have s3 := sq_set2 s2 (negIdx n i) 8 0
  rw [setItem2_zero hs _ _ _ _ hI h8, bind_ok, setItem2_zero s1 _ _ _ _ h8 hI, bind_ok]
  unfold fmtStep
  cases isMicro
  · simp only [Bool.not_false, if_true]
    rw [setItem2_zero s2 _ _ _ _ hN h8, bind_ok, setItem2_zero s3 _ _ _ _ h8 hN]
  · simp only [Bool.not_true, Bool.false_eq_true, if_false]

/-! ### the initial matrix -/

theorem initial_matrix (w h : Int) :
    ((range (0 : Int) h).map (fun (_ : Int) => List.replicate w.toNat (2 : Int))) = List.replicate h.toNat (List.replicate w.toNat 2) := by
  rw [range_eq, List.map_map]
  have e : ((fun (_ : Int) => List.replicate w.toNat (2 : Int)) ∘ fun (k : Nat) => (0 : Int) + Int.ofNat k)
      = fun _ => List.replicate w.toNat (2 : Int) := rfl
  rw [e, List.map_const']
  simp

theorem mI_twos (n : Nat) : mI (twos n) = List.replicate n (List.replicate n (2 : Int)) := by
  simp [mI, twos, toI]

theorem initial_twos (n : Nat) :
    ((range (0 : Int) (n : Int)).map (fun (_ : Int) => List.replicate n (2 : Int))) = mI (twos n) := by
  have h := initial_matrix (n : Int) (n : Int)
  simp only [Int.toNat_natCast] at h
  rw [h, mI_twos]

/-! ### the function -/

/-- the format-area loop and the timing pattern (the part of `make_matrix` after the version areas) -/
local macro "format_and_timing" hs:term:max n:term:max : tactic => `(tactic| (
  rw [index_row $hs (8 : Int) 8 (normIndex_nat _ 8 (by omega)), bind_ok]
  refine fold_sq_then $n 9 _ (fmtStep $n (decide ($n < 21))) _ _ _ $hs (fun m k h => sq_fmtStep h _ k) ?_ ?_
  · intro m hm i hi
    exact fmt_round hm (by omega) _ i hi
  · exact add_timing_pattern_eq _ _ (sq_foldl _ (fun m k h => sq_fmtStep h _ k) _ _ $hs) _ (by split <;> omega)))

/-- `make_matrix(n, n)` with both flags set, n ≥ 9 (row 8 must exist) -/
theorem make_matrix_eq (n : Nat) (hn : 9 ≤ n) :
    Gen.Funcs4.make_matrix (n : Int) (n : Int) true true = .ok (mI (Model.makeMatrix n)) := by
  rw [makeMatrix_eq_timingM, reservedM_eq]
  have e41 : decide ((n : Int) > 41) = decide (n > 41) := decide_eq_decide.mpr (by omega)
  have e21 : decide ((n : Int) < 21) = decide (n < 21) := decide_eq_decide.mpr (by omega)
  unfold Gen.Funcs4.make_matrix
  simp only [beq_self_eq_true, Bool.true_and, if_true, Int.toNat_natCast, initial_twos, e41, e21]
  by_cases h41 : n > 41
  · simp only [h41, decide_true, if_true]
    refine fold_sq_then n 6 _ (verStep n) _ _ (twos n) (sq_twos n) (fun m k h => sq_verStep h k) ?_ ?_
    · intro m hm i hi
      exact ver_round hm (by omega) i hi
    · have hs := sq_foldl (verStep n) (fun m k h => sq_verStep h k) (List.range 6) _ (sq_twos n)
      format_and_timing hs n
  · simp only [h41, decide_false, Bool.false_eq_true, if_false]
    have hs := sq_twos n
    format_and_timing hs n

/-- below 9 modules there is no row 8: `row_eight = matrix[8]` raises IndexError (so 9 ≤ n is exactly the range of `make_matrix_eq`) -/
theorem make_matrix_small (n : Nat) (hn : n < 9) :
    Gen.Funcs4.make_matrix (n : Int) (n : Int) true true = .error .indexError := by
  have h : n = 0 ∨ n = 1 ∨ n = 2 ∨ n = 3 ∨ n = 4 ∨ n = 5 ∨ n = 6 ∨ n = 7 ∨ n = 8 := by omega
  rcases h with h | h | h | h | h | h | h | h | h <;> subst h <;> decide +kernel

/-- `make_matrix(w, h, reserve_regions=False, add_timing=False)`: every cell is 2 (any integers w, h; negative ones give
    empty rows / no rows, as `[2] * w` and `range(h)` do) -/
theorem make_matrix_plain_eq (w h : Int) :
    Gen.Funcs4.make_matrix w h false false = .ok (List.replicate h.toNat (List.replicate w.toNat (2 : Int))) := by
  unfold Gen.Funcs4.make_matrix
  simp only [Bool.false_eq_true, if_false, initial_matrix]

end Proofs.TieA4
