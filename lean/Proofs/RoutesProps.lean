/-
  Proofs.RoutesProps — small lemmas used by the proofs in Props/C12Routes.lean (dispatch of the fixed kinds,
  reserved names, plans that bind the same values).
-/
import Proofs.RoutesUri

namespace Proofs.Routes
open Gen (PyV)
open Model Model.Cli Model.Routes Proofs.CliLemmas

def okIs {α : Type} [BEq α] (r : R α) (a : α) : Bool := match r with | .ok x => x == a | .error _ => false

theorem eq_of_okIs {r : R (String × Bool)} {a : String × Bool} (h : okIs r a = true) : r = .ok a := by
  cases r with
  | error e => simp [okIs] at h
  | ok x =>
    simp only [okIs, beq_iff_eq] at h
    rw [h]

theorem dispatch_svgz (stem : Str) : dispatchOf (.path (stem ++ '.' :: "svgz".toList)) none = .ok ("svg", true) := by
  have h : afterLastDot (stem ++ '.' :: "svgz".toList) = "svgz".toList := afterLastDot_append stem _ (by decide)
  have h2 : afterLastDot ('x' :: '.' :: "svgz".toList) = "svgz".toList := by decide
  have : dispatch validKeys (stem ++ '.' :: "svgz".toList) false none = dispatch validKeys ('x' :: '.' :: "svgz".toList) false none := by
    simp only [dispatch, dispatchKey, h, h2]
  simp only [dispatchOf]
  rw [this]
  exact eq_of_okIs (by decide +kernel)

theorem dispatch_svg_kind (out : OutArg) : dispatchOf out (some "svg".toList) = .ok ("svg", false) := by
  simp only [dispatchOf]
  exact eq_of_okIs (by decide +kernel)

theorem free_cpop (names : List String) (kw : Config) (k : String) (hk : k ∉ names) : Free names (cpop kw k) ↔ Free names kw := by
  constructor
  · intro h x hx
    have := h x hx
    rw [cget_cpop] at this
    have hne : ¬ x = k := fun e => hk (e ▸ hx)
    simpa [hne] using this
  · intro h x hx
    rw [cget_cpop]
    have hne : ¬ x = k := fun e => hk (e ▸ hx)
    simp [hne, h x hx]

theorem pngDefaults_eq : serializerDefaults "png" = some pngDefaults := by decide +kernel
theorem svgDefaults_eq : serializerDefaults "svg" = some svgDefaults := by decide +kernel

theorem free_uriSaveKw (kw : Config) (hf : Free saveReserved kw) : Free saveReserved (uriSaveKw kw) := by
  intro k hk
  unfold uriSaveKw
  rw [cget_withDefaults, cget_dropKeys, hf k hk]
  simp only [saveReserved, List.mem_cons, List.not_mem_nil, or_false] at hk
  rcases hk with rfl | rfl | rfl | rfl | rfl <;> decide

theorem execute_of_planEquiv (env : Env) (p q : R Plan) (h : planEquiv p q = true) :
    (p >>= execute env) = (q >>= execute env) := by
  unfold planEquiv at h
  cases p with
  | error a =>
    cases q with
    | error b => simp only [beq_iff_eq] at h; rw [h]
    | ok q => exact absurd h (by simp)
  | ok p =>
    cases q with
    | error b => exact absurd h (by simp)
    | ok q =>
      simp only [Bool.and_eq_true, beq_iff_eq] at h
      obtain ⟨⟨⟨hk, ht⟩, hp⟩, hc⟩ := h
      simp only [bind, Except.bind]
      apply execute_congr env p q hk ht hp
      cases h1 : completeKw p.key p.kw with
      | ok a =>
        cases h2 : completeKw q.key q.kw with
        | ok b => rw [h1, h2] at hc; simp only [beq_iff_eq] at hc; rw [hc]
        | error b => rw [h1, h2] at hc; exact absurd hc (by simp)
      | error a =>
        cases h2 : completeKw q.key q.kw with
        | ok b => rw [h1, h2] at hc; exact absurd hc (by simp)
        | error b => rw [h1, h2] at hc; simp only [beq_iff_eq] at hc; rw [hc]


end Proofs.Routes
