/-
  Proofs.C14RouteDefs — vocabulary of Props/C14Routes.lean (definitions only): the documented domain of the ROUTE layer
  (`QRCode.save`, `svg_inline`, `svg_data_uri`, `png_data_uri`, `terminal`, `QRCodeSequence.save`) and of the command line tool,
  the contract of the runtime services codec / gzip, and how a route may end.
-/
import Proofs.C14SerDefs
import Proofs.RoutesExec

namespace Proofs.C14Route
open Gen (PyV)
open Model Model.Cli Model.Routes Model.RoutesDocs Model.RoutesVec Proofs.C14Ser Proofs.Routes

/-! ### runtime services -/

/-- what the codec, `bytes.decode` and `gzip.open` may do: a codec returns the bytes or raises UnicodeError (a ValueError) or
    LookupError (unknown encoding); `gzip.open` accepts the compression level or raises ValueError -/
structure RuntimeOK (rt : Runtime) : Prop where
  codec : ∀ e s, (∃ b, rt.codec e s = .ok b) ∨ rt.codec e s = .error .unicodeError ∨ rt.codec e s = .error .lookupError
  decode : ∀ e b, (∃ s, rt.decode e b = .ok s) ∨ rt.decode e b = .error .unicodeError ∨ rt.decode e b = .error .lookupError
  gzip : ∀ l, rt.gzipCheck l = .ok () ∨ rt.gzipCheck l = .error .valueError

/-- a codec that knows every encoding it is asked for -/
def CodecKnows (rt : Runtime) : Prop :=
  (∀ e s, rt.codec e s ≠ .error .lookupError) ∧ (∀ e b, rt.decode e b ≠ .error .lookupError)

/-- how a route may end: with its result, with ValueError (a refusal), with UnicodeError (a ValueError: the codec cannot encode
    the document) or with LookupError (the codec does not know the encoding) -/
def RouteClean {α : Type} (r : R α) : Prop :=
  (∃ x, r = .ok x) ∨ r = .error .valueError ∨ r = .error .unicodeError ∨ r = .error .lookupError

/-! ### where a document may go -/

/-- serialisers that write bytes -/
def binaryKinds : List String := ["png", "pdf", "pbm", "pam", "ppm"]
/-- serialisers that write text (`write_svg` writes text through the codec of `encoding` and needs a BINARY stream) -/
def textKinds : List String := ["eps", "txt", "ans", "tex", "xbm", "xpm", "compact"]

/-- the documented `out` of a serialiser: a file name always; "io.BytesIO" for svg and the binary kinds, "io.StringIO" for the text kinds -/
def SinkOK (key : String) : Sink → Bool
  | .file => true
  | .bin => key == "svg" || binaryKinds.contains key
  | .txt => textKinds.contains key

/-! ### `QRCode.save` -/

/-- the documented domain of `save(out, kind=None, **kw)`: the format can be determined (a file name, a stream with a `name`, or
    `kind` is given), and for the serialiser that the name / `kind` selects the keyword map is documented — for svgz together with a
    `compresslevel` —, `out` is of the documented sort, and a PNG fits its 32-bit fields -/
structure DocumentedSave (svc : Services) (M : List (List Nat)) (w h : Nat) (out : OutArg) (kind : Option Str) (kw : Config) : Prop where
  named : kind = none → ∀ b, out ≠ .stream b none
  /-- no keyword names a parameter of `QRCode.save` / `writers.save` itself (`self`, `out`, `kind`, `matrix`, `matrix_size`) -/
  free : Free saveReserved kw
  opts : ∀ key gz, dispatchOf out kind = .ok (key, gz) →
    DocumentedSer key (if gz then cpop kw "compresslevel" else kw)
    ∧ SinkOK key out.sink = true
    ∧ (gz = true → out.sink ≠ .txt ∧ ∀ v, cget kw "compresslevel" = some v → hasType .level v = true)
    ∧ (key = "png" → PngFits svc M w h kw)

/-! ### the other routes -/

/-- `svg_inline(**kw)`: SVG options except the three it forces (`xmldecl`, `svgns`, `nl` — naming one of them is Python's
    "multiple values for keyword argument") -/
def DocumentedInline (kw : Config) : Prop :=
  DocumentedSer "svg" kw ∧ ∀ e ∈ kw, e.1 ∉ ["xmldecl", "svgns", "nl"]

/-- `svg_data_uri(xmldecl=False, encode_minimal=False, omit_charset=False, nl=False, **kw)`: SVG options and the two switches -/
def DocumentedSvgUri (kw : Config) : Prop :=
  DocumentedSer "svg" (dropKeys ["encode_minimal", "omit_charset"] kw)

/-- `QRCode.terminal(out=None, border=None, compact=False)`: `out` is `None`, a file name or a text stream -/
def DocumentedTerminal (out : Option OutArg) (border : PyV) : Prop :=
  hasType .border border = true ∧ ∀ nm, out ≠ some (.stream true nm)

/-! ### the command line tool -/

/-- what an action stores for a value GIVEN on the command line, by its `type=` conversion and `nargs` (Gen.CLI_ARG_TYPES): a flag
    stores a bool, `type=int` an int, `type=float` a float, `_convert_scale` an int or a float, everything else a str -/
def cliGivenOK (conv nargs : String) (v : PyV) : Bool :=
  if nargs == "0" then (match v with | .bool _ => true | _ => false)
  else if nargs == "+" then true
  else if conv == "int" then (match v with | .int _ => true | _ => false)
  else if conv == "float" then (match v with | .float _ d => d != 0 | _ => false)
  else if conv == "_convert_scale" then (match v with | .int _ => true | .float _ d => d != 0 | _ => false)
  else (match v with | .str _ => true | _ => false)

/-- a namespace `vars(parse_args(argv))` as the argparse table of `cli.make_parser()` (regenerated: Gen.CLI_ARGS with the effective
    defaults, Gen.CLI_ARG_TYPES with the conversions, aligned row by row) can produce it: every entry belongs to an action and holds
    that action's default or a value it can store (`cli.parse` may reset `micro` to None), every dest is present, no dest twice (a
    namespace is a dict) -/
def ArgparseAccepted (parsed : Config) : Prop :=
  (∀ e ∈ parsed, ∃ pr ∈ Gen.CLI_ARGS.zip Gen.CLI_ARG_TYPES, pr.1.1 = e.1 ∧
      (e.2 = pr.1.2.2.2 ∨ cliGivenOK pr.2.2.1 pr.2.2.2.2 e.2 = true ∨ (e.1 = "micro" ∧ e.2 = .none)))
  ∧ (∀ row ∈ Gen.CLI_ARG_TYPES, (cget parsed row.1).isSome = true)
  ∧ (parsed.map (·.1)).Nodup

end Proofs.C14Route
