/-
  Proofs.Align — the alignment look-up of `matrix_iter_verbose` (Model.alignmentMatrix?) against
  Annex E (`Spec.inAlignment`): the Boolean per-version check `alignCheck` (evaluated by the kernel in
  Props/C11Align*.lean) and what follows from it for every cell.  Imports nothing generated except
  the alignment position table (through Model.Align).
-/
import Model.Align
import Spec.Geometry

namespace Proofs.Align

open Model Spec

/-! ### the alignment look-up -/

/-- is `i` within two modules of an alignment centre coordinate? -/
def nearAny (pos : List Nat) (i : Nat) : Bool := pos.any (fun x => inRange i (x - 2) (x + 2))

theorem inAlignment_false_of_row (v n i j : Nat) (h : nearAny (annexE v) i = false) : inAlignment v n i j = false := by
  unfold inAlignment
  have hn : (annexE v).find? (fun x => inRange i (x - 2) (x + 2)) = none := by
    rw [List.find?_eq_none]
    unfold nearAny at h
    simp only [List.any_eq_false] at h
    intro x hx
    simpa using h x hx
  simp [hn]

theorem inAlignment_false_of_col (v n i j : Nat) (h : nearAny (annexE v) j = false) : inAlignment v n i j = false := by
  unfold inAlignment
  have hn : (annexE v).find? (fun y => inRange j (y - 2) (y + 2)) = none := by
    rw [List.find?_eq_none]
    unfold nearAny at h
    simp only [List.any_eq_false] at h
    intro x hx
    simpa using h x hx
  cases hf : (annexE v).find? (fun x => inRange i (x - 2) (x + 2)) <;> simp [hn]

/-- what has to hold between the alignment matrix value `a` at (i, j) and ISO -/
def AlignCell (v : Int) (i j a : Nat) : Prop :=
  (a ≠ 2 ↔ inAlignment v.toNat (size v) i j = true) ∧
  (inAlignment v.toNat (size v) i j = true → kind v i j = .alignment ∧ a ≤ 1)

/-- the per-version check (Boolean, evaluated by the kernel): the matrix `add_alignment_patterns`
    fills is 2 outside the Annex E blocks and 0 / 1 inside, and the blocks lie in the region ISO
    calls alignment.  Rows / columns that are not within two modules of a centre are compared as a
    whole, so that the expensive `Spec.inAlignment` is evaluated on the 25·k² band cells only. -/
def alignCheck (v : Int) : Bool :=
  let n := size v
  let pos := annexE v.toNat
  match alignmentMatrix? n with
  | none => false
  | some A =>
    A.length == n && A.zipIdx.all (fun (row, i) =>
      if !(nearAny pos i) then row == List.replicate n 2
      else row.length == n && row.zipIdx.all (fun (a, j) =>
        if !(nearAny pos j) then a == 2
        else if inAlignment v.toNat n i j then a != 2 && decide (a ≤ 1) && (kind v i j == .alignment)
        else a == 2))

theorem getD_eq_of_getElem? {α : Type} (l : List α) (i : Nat) (d x : α) (h : l[i]? = some x) : l.getD i d = x := by
  simp [List.getD_eq_getElem?_getD, h]

theorem alignCell_of_check (v : Int) (h : alignCheck v = true) :
    ∃ A, alignmentMatrix? (size v) = some A ∧
      ∀ i j, i < size v → j < size v → AlignCell v i j ((A.getD i []).getD j 2) := by
  unfold alignCheck at h
  simp only at h
  split at h
  · exact absurd h (by simp)
  · rename_i A hA
    refine ⟨A, hA, ?_⟩
    simp only [Bool.and_eq_true, List.all_eq_true, beq_iff_eq] at h
    obtain ⟨hlen, hrows⟩ := h
    intro i j hi hj
    have hi' : i < A.length := by omega
    have hrow := hrows (A[i], i) (List.mem_zipIdx_iff_getElem?.2 (by simp [hi']))
    have hAi : A.getD i [] = A[i] := getD_eq_of_getElem? A i [] A[i] (by simp [hi'])
    rw [hAi]
    simp only at hrow
    unfold AlignCell
    by_cases hni : nearAny (annexE v.toNat) i = true
    · simp only [hni, Bool.not_true, Bool.false_eq_true, if_false, Bool.and_eq_true, List.all_eq_true, beq_iff_eq] at hrow
      have hj' : j < A[i].length := by omega
      have hcell := hrow.2 (A[i][j], j) (List.mem_zipIdx_iff_getElem?.2 (by simp [hj']))
      have hAij : A[i].getD j 2 = A[i][j] := getD_eq_of_getElem? _ j 2 _ (by simp [hj'])
      rw [hAij]
      simp only at hcell
      by_cases hnj : nearAny (annexE v.toNat) j = true
      · simp only [hnj, Bool.not_true, Bool.false_eq_true, if_false] at hcell
        by_cases hal : inAlignment v.toNat (size v) i j = true
        · rw [if_pos hal] at hcell
          simp only [Bool.and_eq_true, bne_iff_ne, ne_eq, decide_eq_true_eq, beq_iff_eq] at hcell
          exact ⟨⟨fun _ => hal, fun _ => hcell.1.1⟩, fun _ => ⟨hcell.2, hcell.1.2⟩⟩
        · rw [if_neg hal] at hcell
          simp only [beq_iff_eq] at hcell
          rw [hcell]
          exact ⟨⟨fun h => absurd rfl h, fun h => absurd h hal⟩, fun h => absurd h hal⟩
      · have hnj' : nearAny (annexE v.toNat) j = false := by simpa using hnj
        simp only [hnj', Bool.not_false, if_true, beq_iff_eq] at hcell
        have hf := inAlignment_false_of_col v.toNat (size v) i j hnj'
        rw [hcell, hf]
        exact ⟨⟨fun h => absurd rfl h, fun h => absurd h (by simp)⟩, fun h => absurd h (by simp)⟩
    · have hni' : nearAny (annexE v.toNat) i = false := by simpa using hni
      simp only [hni', Bool.not_false, if_true, beq_iff_eq] at hrow
      have hf := inAlignment_false_of_row v.toNat (size v) i j hni'
      have h2 : (List.replicate (size v) 2).getD j 2 = 2 := by
        simp only [List.getD_eq_getElem?_getD, List.getElem?_replicate]
        split <;> rfl
      rw [hrow, h2, hf]
      exact ⟨⟨fun h => absurd rfl h, fun h => absurd h (by simp)⟩, fun h => absurd h (by simp)⟩

end Proofs.Align
