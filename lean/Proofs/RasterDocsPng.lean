/-
  Proofs.RasterDocsPng — the chunk framing of the PNG file the model writes (`Model.RasterDocs.pngFile`): the
  list-level chunk walk of Spec/RasterL.lean (`Spec.L.pngChunks`: lengths, chunk names, CRC-32 of every chunk)
  accepts it and returns exactly the chunks written, in order.  Mathlib-free.
-/
import Proofs.RasterDocsBase

namespace Proofs.RasterDocs

open Model Model.RasterDocs Spec

/-! ### CRC-32: the model's shift register is the reference one -/

theorem crcByte_eq (c : UInt32) (b : Nat) : crc32Step c (UInt8.ofNat b) = crcByte c b := by
  have hb : ∀ x : UInt32, (if x &&& 1 = 1 then x >>> 1 ^^^ 3988292384 else x >>> 1) = crcBit x := by
    intro x; simp [crcBit]
  unfold crc32Step
  simp [Id.run]
  show List.foldl (fun (b : UInt32) (_ : Nat) => if b &&& 1 = 1 then b >>> 1 ^^^ 3988292384 else b >>> 1)
    (c ^^^ (UInt8.ofNat b).toUInt32) (List.range' 0 8) = _
  simp only [List.range', List.foldl, hb]
  rfl

/-- the CRC-32 the model computes is the CRC-32 the reference reader verifies -/
theorem crc_eq (bs : List Nat) : L.crc32 bs = Model.RasterDocs.crc32 bs := by
  have : (fun (c : UInt32) (b : Nat) => crc32Step c (UInt8.ofNat b)) = crcByte := by funext c b; exact crcByte_eq c b
  unfold L.crc32 Model.RasterDocs.crc32
  rw [this]

theorem crc_lt (bs : List Nat) : Model.RasterDocs.crc32 bs < 4294967296 := by
  unfold Model.RasterDocs.crc32
  exact UInt32.toNat_lt _

/-! ### big-endian numbers -/

theorem be32_read (n : Nat) (h : n < 4294967296) (rest : List Nat) : L.be32 (be32 n ++ rest) = n := by
  simp only [L.be32, RasterDocs.be32, List.cons_append, List.nil_append, List.getD_cons_zero, List.getD_cons_succ]
  omega

theorem be32_length (n : Nat) : (be32 n).length = 4 := rfl

/-! ### the chunk walk -/

/-- with enough fuel for the bytes that are left, more fuel changes nothing -/
theorem pngChunks_fuel : ∀ (fuel : Nat) (bs : List Nat), bs.length ≤ 12 * fuel → L.pngChunks fuel bs = L.pngChunks (fuel + 1) bs := by
  intro fuel
  induction fuel with
  | zero =>
    intro bs h
    have : bs = [] := by cases bs with
      | nil => rfl
      | cons a l => simp at h
    subst this
    rfl
  | succ n ih =>
    intro bs h
    cases bs with
    | nil => rfl
    | cons a l =>
      simp only [L.pngChunks]
      split
      · rfl
      · split
        · rfl
        · split
          · rfl
          · split
            · rfl
            · rename_i h12 hlen _ _
              rw [ih]
              simp only [List.length_drop]
              simp only [List.length_cons, Nat.not_lt, ge_iff_le, gt_iff_lt] at h h12 hlen ⊢
              omega

theorem pngChunks_fuel_le (fuel k : Nat) (bs : List Nat) (h : bs.length ≤ 12 * fuel) : L.pngChunks (fuel + k) bs = L.pngChunks fuel bs := by
  induction k with
  | zero => rfl
  | succ k ih =>
    rw [← ih, ← Nat.add_assoc, ← pngChunks_fuel (fuel + k) bs (by omega)]

/-- a chunk name: four ASCII letters -/
def IsChunkName (nm : List Nat) : Prop := nm.length = 4 ∧ nm.all L.isAlphaByte = true

/-- one chunk the model writes, with the CRC-32 the model computes, is accepted and split off -/
theorem pngChunks_chunk (nm data rest : List Nat) (hnm : IsChunkName nm) (hlen : data.length < 4294967296) (fuel : Nat)
    (hfuel : (be32 data.length ++ nm ++ data ++ be32 (Model.RasterDocs.crc32 (nm ++ data)) ++ rest).length ≤ 12 * fuel) :
    L.pngChunks fuel (be32 data.length ++ nm ++ data ++ be32 (Model.RasterDocs.crc32 (nm ++ data)) ++ rest) =
      (match L.pngChunks fuel rest with
       | .error e => .error e
       | .ok l => .ok ({ name := nm, data := data } :: l)) := by
  obtain ⟨hn4, halpha⟩ := hnm
  obtain ⟨f, rfl⟩ : ∃ f, fuel = f + 1 := by
    cases fuel with
    | zero => simp only [List.length_append, be32_length] at hfuel; omega
    | succ f => exact ⟨f, rfl⟩
  have hrest : rest.length ≤ 12 * f := by
    simp only [List.length_append, be32_length, hn4] at hfuel
    omega
  rw [← pngChunks_fuel f rest hrest]
  generalize hcrc : Model.RasterDocs.crc32 (nm ++ data) = crc at hfuel ⊢
  have hcrc_lt : crc < 4294967296 := by rw [← hcrc]; exact crc_lt _
  -- the byte string, bracketed so that every prefix the reader cuts off is visible
  have e1 : be32 data.length ++ nm ++ data ++ be32 crc ++ rest = be32 data.length ++ (nm ++ (data ++ (be32 crc ++ rest))) := by
    simp only [List.append_assoc]
  have e2 : be32 data.length ++ nm ++ data ++ be32 crc ++ rest = (be32 data.length ++ nm) ++ (data ++ (be32 crc ++ rest)) := by
    simp only [List.append_assoc]
  have e3 : be32 data.length ++ nm ++ data ++ be32 crc ++ rest = (be32 data.length ++ nm ++ data) ++ (be32 crc ++ rest) := by
    simp only [List.append_assoc]
  have e4 : be32 data.length ++ nm ++ data ++ be32 crc ++ rest = (be32 data.length ++ nm ++ data ++ be32 crc) ++ rest := by
    simp only [List.append_assoc]
  have hbe : L.be32 (be32 data.length ++ nm ++ data ++ be32 crc ++ rest) = data.length := by
    rw [e1]; exact be32_read _ hlen _
  have hname : ((be32 data.length ++ nm ++ data ++ be32 crc ++ rest).drop 4).take 4 = nm := by
    rw [e1, List.drop_left' (be32_length _), List.take_left' hn4]
  have hdata : ((be32 data.length ++ nm ++ data ++ be32 crc ++ rest).drop 8).take data.length = data := by
    rw [e2, List.drop_left' (by simp [be32_length, hn4]), List.take_left' rfl]
  have hcrcRead : L.be32 ((be32 data.length ++ nm ++ data ++ be32 crc ++ rest).drop (8 + data.length)) = crc := by
    rw [e3, List.drop_left' (by simp [be32_length, hn4]; omega)]
    exact be32_read _ hcrc_lt _
  have hdrop : (be32 data.length ++ nm ++ data ++ be32 crc ++ rest).drop (12 + data.length) = rest := by
    rw [e4, List.drop_left' (by simp [be32_length, hn4]; omega)]
  have hlenbs : (be32 data.length ++ nm ++ data ++ be32 crc ++ rest).length = 12 + data.length + rest.length := by
    simp only [List.length_append, be32_length, hn4]; omega
  obtain ⟨x, xs, hx⟩ : ∃ x xs, be32 data.length ++ nm ++ data ++ be32 crc ++ rest = x :: xs := ⟨_, _, by simp only [RasterDocs.be32, List.cons_append]; rfl⟩
  rw [hx] at hbe hname hdata hcrcRead hdrop hlenbs ⊢
  simp only [L.pngChunks, hlenbs, hbe, hname, hdata, hcrcRead, hdrop, halpha, crc_eq, hcrc]
  have c1 : ¬ (12 + data.length + rest.length < 12) := by omega
  have c2 : ¬ (12 + data.length > 12 + data.length + rest.length) := by omega
  simp only [c1, c2, if_false, Bool.not_true, Bool.false_eq_true, bne_self_eq_false]
  cases L.pngChunks f rest <;> rfl

/-- the same for `Model.RasterDocs.chunk` -/
theorem pngChunks_model_chunk (name : String) (data rest : List Nat) (hnm : IsChunkName (ascii name)) (hlen : data.length < 4294967296)
    (fuel : Nat) (hfuel : (chunk name data ++ rest).length ≤ 12 * fuel) :
    L.pngChunks fuel (chunk name data ++ rest) =
      (match L.pngChunks fuel rest with
       | .error e => .error e
       | .ok l => .ok ({ name := ascii name, data := data } :: l)) := by
  have e : chunk name data ++ rest = be32 data.length ++ ascii name ++ data ++ be32 (Model.RasterDocs.crc32 (ascii name ++ data)) ++ rest := by
    simp only [chunk, List.append_assoc]
  rw [e] at hfuel ⊢
  exact pngChunks_chunk _ data rest hnm hlen fuel hfuel

/-- an optional chunk -/
theorem pngChunks_opt_chunk (c : Bool) (name : String) (data rest : List Nat) (hnm : IsChunkName (ascii name)) (hlen : data.length < 4294967296)
    (fuel : Nat) (hfuel : ((if c then chunk name data else []) ++ rest).length ≤ 12 * fuel) (l : List L.ChunkL)
    (hrest : L.pngChunks fuel rest = .ok l) :
    L.pngChunks fuel ((if c then chunk name data else []) ++ rest) = .ok ((if c then [{ name := ascii name, data := data }] else []) ++ l) := by
  cases c with
  | false => simpa using hrest
  | true =>
    simp only [if_true] at hfuel ⊢
    rw [pngChunks_model_chunk name data rest hnm hlen fuel hfuel, hrest]
    rfl

theorem chunkName_IHDR : IsChunkName (ascii "IHDR") := ⟨rfl, rfl⟩
theorem chunkName_pHYs : IsChunkName (ascii "pHYs") := ⟨rfl, rfl⟩
theorem chunkName_PLTE : IsChunkName (ascii "PLTE") := ⟨rfl, rfl⟩
theorem chunkName_tRNS : IsChunkName (ascii "tRNS") := ⟨rfl, rfl⟩
theorem chunkName_IDAT : IsChunkName (ascii "IDAT") := ⟨rfl, rfl⟩
theorem chunkName_IEND : IsChunkName (ascii "IEND") := ⟨rfl, rfl⟩

/-- the chunks of the file the model writes -/
def fileChunks (o : PngOut) (ppm : Nat) (comp : List Nat) : List L.ChunkL :=
  { name := L.nIHDR, data := be32 o.width ++ be32 o.height ++ [o.depth, o.ctype, 0, 0, 0] }
    :: ((if ppm != 0 then [{ name := L.npHYs, data := be32 ppm ++ be32 ppm ++ [1] }] else [])
        ++ ((if o.ctype != 0 then [{ name := L.nPLTE, data := o.plte }] else [])
            ++ ((if !o.trns.isEmpty then [{ name := L.ntRNS, data := o.trns }] else [])
                ++ [{ name := L.nIDAT, data := comp }, { name := L.nIEND, data := [] }])))

/-- `png_file_chunks`: the file starts with the PNG signature and the chunk walk — which verifies the length,
    the name and the CRC-32 of every chunk — returns exactly the chunks the model wrote, IEND last -/
theorem png_file_chunks (o : PngOut) (ppm : Nat) (comp : List Nat)
    (hplte : o.plte.length < 4294967296) (htrns : o.trns.length < 4294967296) (hcomp : comp.length < 4294967296) :
    (pngFile o ppm comp).take 8 = [137, 80, 78, 71, 13, 10, 26, 10]
    ∧ L.pngChunks (pngFile o ppm comp).length ((pngFile o ppm comp).drop 8) = .ok (fileChunks o ppm comp) := by
  have hsig : ∀ X : List Nat, (pngSignature ++ X).take 8 = [137, 80, 78, 71, 13, 10, 26, 10] ∧ (pngSignature ++ X).drop 8 = X := by
    intro X; constructor <;> rfl
  generalize hF : (pngFile o ppm comp).length = F
  have hfile : pngFile o ppm comp = pngSignature ++ (chunk "IHDR" (be32 o.width ++ be32 o.height ++ [o.depth, o.ctype, 0, 0, 0])
      ++ ((if ppm != 0 then chunk "pHYs" (be32 ppm ++ be32 ppm ++ [1]) else [])
        ++ ((if o.ctype != 0 then chunk "PLTE" o.plte else [])
          ++ ((if !o.trns.isEmpty then chunk "tRNS" o.trns else [])
            ++ (chunk "IDAT" comp ++ (chunk "IEND" [] ++ [])))))) := by
    simp only [pngFile, List.append_assoc, List.append_nil]
  rw [hfile] at hF ⊢
  refine ⟨(hsig _).1, ?_⟩
  rw [(hsig _).2]
  simp only [List.length_append] at hF
  have h6 : L.pngChunks F [] = .ok [] := by cases F <;> rfl
  have h5 : L.pngChunks F (chunk "IEND" [] ++ []) = .ok [{ name := L.nIEND, data := [] }] := by
    rw [pngChunks_model_chunk "IEND" [] [] chunkName_IEND (by decide) F (by simp only [List.length_append]; omega), h6]
    rfl
  have h4 : L.pngChunks F (chunk "IDAT" comp ++ (chunk "IEND" [] ++ [])) = .ok [{ name := L.nIDAT, data := comp }, { name := L.nIEND, data := [] }] := by
    rw [pngChunks_model_chunk "IDAT" comp _ chunkName_IDAT hcomp F (by simp only [List.length_append]; omega), h5]
    rfl
  have h3 := pngChunks_opt_chunk (!o.trns.isEmpty) "tRNS" o.trns _ chunkName_tRNS htrns F (by simp only [List.length_append]; omega) _ h4
  have h2 := pngChunks_opt_chunk (o.ctype != 0) "PLTE" o.plte _ chunkName_PLTE hplte F (by simp only [List.length_append]; omega) _ h3
  have h1 := pngChunks_opt_chunk (ppm != 0) "pHYs" (be32 ppm ++ be32 ppm ++ [1]) _ chunkName_pHYs (by simp [be32_length]) F
    (by simp only [List.length_append]; omega) _ h2
  rw [pngChunks_model_chunk "IHDR" _ _ chunkName_IHDR (by simp [be32_length]) F (by simp only [List.length_append]; omega), h1]
  rfl

end Proofs.RasterDocs
