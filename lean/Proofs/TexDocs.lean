/-
  Proofs.TexDocs — lemmas about the model of `write_tex` (Model/Tex.lean) for C10: the lines as row groups at
  y = −(border + i), reading the PGF commands back, and the core of the judge's TeX judgement (`judgeTex` of
  Spec/Vector.lean: path building with `PathSt.moveTo` / `PathSt.lineTo`, `strokeRects`, `gridSegs` with the y-up
  geometry `top = s/2` and tolerance `relTol`, `checkCoverage`) on the model's commands.  Mathlib-free.
-/
import Model.Tex
import Proofs.VectorAcceptGrid

namespace Proofs.TexDocs

open Model Model.Lines Model.Tex Spec.Vector Proofs.Lines Proofs.VectorAccept

/-! ### the lines of `write_tex` -/

/-- row groups → lines: group i lies at y = y0 − i -/
def texAttach : Int → List (List (Nat × Nat)) → List (Int × Int × Int)
  | _, [] => []
  | y, rs :: rest => rs.map (fun ab => ((ab.1 : Int), y, (ab.2 : Int))) ++ texAttach (y - 1) rest

theorem attach_half (rows : List (List (Nat × Nat))) : ∀ y : Int,
    (toInt (attach (-2) (2 * y + 2) rows)).map (fun t => (t.1, t.2.1 / 2, t.2.2)) = texAttach y rows := by
  induction rows with
  | nil => intro y; rfl
  | cons rs rest ih =>
    intro y
    have e1 : (2 * y + 2 + -2) / 2 = y := by omega
    have e2 : 2 * y + 2 + -2 = 2 * (y - 1) + 2 := by omega
    simp only [attach, toInt, List.map_append, List.map_map, texAttach]
    congr 1
    · apply List.map_congr_left
      intro ab _
      simp only [Function.comp, e1]
    · have := ih (y - 1)
      simp only [toInt, List.map_map] at this
      rw [e2]; exact this

/-- the lines of the model of `write_tex`: the runs of matrix row i (start column = border) at y = −(border + i) -/
theorem texLines_rows (m : List (List Nat)) (b : Nat) : texLines m b = texAttach (-(b : Int)) (rowsGo b 1 m) := by
  unfold texLines matrixToLines
  rw [linesGo_rows]
  have e : -(2 * (b : Int)) - -2 = 2 * (-(b : Int)) + 2 := by omega
  rw [e]
  exact attach_half _ _

/-! ### reading the commands back -/

/-- reference semantics of a PGF path made of `moveto` / `lineto` pairs: the horizontal segments `(x1, y, x2)` -/
def texRead : List Cmd → Option (List (Int × Int × Int))
  | [] => some []
  | .moveto x y :: .lineto x' y' :: rest =>
    if y = y' then (texRead rest).map (fun l => (x, y, x') :: l) else none
  | _ => none

theorem texRead_texCmds (lines : List (Int × Int × Int)) : texRead (texCmds lines) = some lines := by
  induction lines with
  | nil => rfl
  | cons t rest ih =>
    obtain ⟨x1, y, x2⟩ := t
    have : texCmds ((x1, y, x2) :: rest) = .moveto x1 y :: .lineto x2 y :: texCmds rest := by
      simp [texCmds]
    rw [this]
    simp only [texRead, if_true]
    have ih' : texRead (texCmds rest) = some rest := ih
    rw [ih']
    rfl

/-! ### the judge's TeX judgement on the model's commands -/

/-- the body of the `for` loop of `judgeTex` for `mv:` / `ln:` commands whose coordinates are `x·s`, `y·s` -/
def texStep (s : Rat) (p : PathSt) : Cmd → Except String PathSt
  | .moveto x y => .ok (p.moveTo ((x : Rat) * s, (y : Rat) * s) ((x : Rat) * s, (y : Rat) * s))
  | .lineto x y => p.lineTo ((x : Rat) * s, (y : Rat) * s) ((x : Rat) * s, (y : Rat) * s)

def texPath (s : Rat) (cmds : List Cmd) (p : PathSt) : Except String PathSt := cmds.foldlM (texStep s) p

/-- the two-point subpath of a line -/
def texSub (s : Rat) (t : Int × Int × Int) : Sub :=
  { pts := [((t.1 : Rat) * s, (t.2.1 : Rat) * s), ((t.2.2 : Rat) * s, (t.2.1 : Rat) * s)], closed := false }

theorem texPath_lines (s : Rat) (lines : List (Int × Int × Int)) : ∀ p : PathSt,
    ∃ p', texPath s (texCmds lines) p = .ok p' ∧ p'.done = p.done ++ lines.map (texSub s) := by
  induction lines with
  | nil => intro p; exact ⟨p, rfl, by simp⟩
  | cons t rest ih =>
    intro p
    obtain ⟨x1, y, x2⟩ := t
    have hc : texCmds ((x1, y, x2) :: rest) = .moveto x1 y :: .lineto x2 y :: texCmds rest := by simp [texCmds]
    obtain ⟨p1, h1, _, hd1⟩ := moveTo_lineTo_done p ((x1 : Rat) * s, (y : Rat) * s) ((x1 : Rat) * s, (y : Rat) * s)
      ((x2 : Rat) * s, (y : Rat) * s) ((x2 : Rat) * s, (y : Rat) * s)
    obtain ⟨p2, h2, hd2⟩ := ih p1
    refine ⟨p2, ?_, ?_⟩
    · rw [hc]
      unfold texPath at h2 ⊢
      simp only [List.foldlM_cons, texStep, bind, Except.bind, h1]
      exact h2
    · rw [hd2, hd1]
      simp [texSub]

/-- the rectangle the stroke of half width `s/2` covers -/
def texRect (s : Rat) (t : Int × Int × Int) : Rect :=
  mkRect ((t.1 : Rat) * s) ((t.2.2 : Rat) * s) ((t.2.1 : Rat) * s - s / 2) ((t.2.1 : Rat) * s + s / 2)

theorem strokeRects_tex (s : Rat) (lines : List (Int × Int × Int)) :
    strokeRects (s / 2) (lines.map (texSub s)) = .ok (lines.map (texRect s)) := by
  unfold strokeRects
  apply mapM_map_ok
  intro t _
  simp [texSub, texRect]

theorem gridItems_shift (b : Nat) (rows : List (List (Nat × Nat))) : ∀ i0 : Nat,
    gridItems i0 (rows.map (shiftRuns b)) = (gridItems i0 rows).map (fun a => (a.1, a.2.1 + b, a.2.2 + b)) := by
  induction rows with
  | nil => intro i0; rfl
  | cons rs rest ih =>
    intro i0
    simp only [List.map_cons, gridItems, List.map_append, ih (i0 + 1)]
    congr 1
    simp [shiftRuns]

theorem texAttach_items (rows : List (List (Nat × Nat))) : ∀ (y : Int) (i0 : Nat),
    texAttach (y - (i0 : Int)) rows = (gridItems i0 rows).map (fun a => ((a.2.1 : Int), y - (a.1 : Int), (a.2.2 : Int))) := by
  induction rows with
  | nil => intro y i0; rfl
  | cons rs rest ih =>
    intro y i0
    have e : y - (i0 : Int) - 1 = y - ((i0 + 1 : Nat) : Int) := by omega
    simp only [texAttach, gridItems, List.map_append, List.map_map, e, ih y (i0 + 1)]
    congr 1

/-- the lines as items (matrix row, first column, end column) of the unshifted runs -/
def itemLine (b : Nat) (a : Nat × Nat × Nat) : Int × Int × Int :=
  (((a.2.1 + b : Nat) : Int), -(((a.1 + b : Nat) : Int)), ((a.2.2 + b : Nat) : Int))

theorem texLines_items (m : List (List Nat)) (b : Nat) : texLines m b = (gridItems 0 (rowsGo 0 1 m)).map (itemLine b) := by
  rw [texLines_rows, rowsGo_shift]
  have := texAttach_items ((rowsGo 0 1 m).map (shiftRuns b)) (-(b : Int)) 0
  simp only [Int.natCast_zero, Int.sub_zero] at this
  rw [this, gridItems_shift, List.map_map]
  apply List.map_congr_left
  intro a _
  simp only [Function.comp, itemLine, Prod.mk.injEq]
  refine ⟨trivial, by omega, trivial⟩

theorem snap_int_tol (tol : Rat) (ht : 0 ≤ tol) (k : Int) : snap tol (k : Rat) = some k := by
  unfold snap
  rw [roundQ_int]
  have : absQ ((k : Rat) - (k : Rat)) = 0 := by
    have : (k : Rat) - (k : Rat) = 0 := by grind
    rw [this]; rfl
  simp [this, ht]

/-- `gridSegs_items` for a non-negative tolerance (the TeX judgement uses `relTol`) -/
theorem gridSegs_items_tol (s tol : Rat) (ht : 0 ≤ tol) (n b : Nat) (yUp : Bool) (top : Rat) (items : List (Nat × Nat × Nat))
    (rect : Nat × Nat × Nat → Rect)
    (h : ∀ a ∈ items, a.2.1 ≤ a.2.2 ∧ a.2.2 + b ≤ n ∧ a.1 + b < n
      ∧ (if yUp then top - (rect a).y1 else (rect a).y0 - top) / s = (((a.1 + b : Nat) : Int) : Rat)
      ∧ (if yUp then top - (rect a).y0 else (rect a).y1 - top) / s = ((((a.1 + b : Nat) : Int) + 1 : Int) : Rat)
      ∧ (rect a).x0 / s = (((a.2.1 + b : Nat) : Int) : Rat)
      ∧ (rect a).x1 / s = (((a.2.2 + b : Nat) : Int) : Rat)) :
    gridSegs s tol n yUp top (items.map rect) = .ok (items.filterMap (itemSeg b)) := by
  unfold gridSegs
  apply filterMapM_map_ok
  intro a ha
  obtain ⟨h1, h2, h3, e1, e2, e3, e4⟩ := h a ha
  simp only [e1, e2, e3, e4, snap_int_tol tol ht]
  have c1 : (decide ((((a.1 + b : Nat) : Int)) < 0) || decide ((((a.1 + b : Nat) : Int)) ≥ (n : Int))
      || decide ((((a.2.1 + b : Nat) : Int)) < 0) || decide ((((a.2.2 + b : Nat) : Int)) > (n : Int))) = false := by
    simp only [Bool.or_eq_false_iff, decide_eq_false_iff_not]; omega
  simp only [bne_self_eq_false, Bool.false_eq_true, if_false, c1]
  unfold itemSeg
  by_cases hx : a.2.1 = a.2.2
  · simp [hx]
  · have : ((((a.2.1 + b : Nat) : Int)) == (((a.2.2 + b : Nat) : Int))) = false := by simp; omega
    simp only [this, Bool.false_eq_true, if_false, hx]
    simp
    omega

theorem relTol_nonneg : (0 : Rat) ≤ relTol := by decide +kernel

/-- the core of `judgeTex` on the model's commands: path → stroked rectangles → grid segments → coverage -/
theorem tex_core (m : List (List Nat)) (b : Nat) (s : Rat) (hs : 0 < s) (hsq : ∀ row ∈ m, row.length = m.length) :
    (do
      let p ← texPath s (texCmds (texLines m b)) {}
      let rects ← strokeRects (s / 2) p.done
      let segs ← gridSegs s relTol (m.length + 2 * b) true (s / 2) rects
      checkCoverage { m := m, size := m.length, b := b, s := s, dark := some black, light := none } segs
      pure segs) = Except.ok (segsFrom b (rowsGo b 1 m)) := by
  obtain ⟨p', hp, hd⟩ := texPath_lines s (texLines m b) {}
  rw [hp]
  simp only [bind, Except.bind]
  have hd0 : ({} : PathSt).done = [] := rfl
  rw [hd, hd0, List.nil_append, strokeRects_tex]
  simp only []
  rw [texLines_items, List.map_map]
  have hok := items_ok m.length (rowsGo 0 1 m) (rowsGo_ok 0 m.length m hsq 1) 0
  rw [gridSegs_items_tol s relTol relTol_nonneg (m.length + 2 * b) b true (s / 2) _ (texRect s ∘ itemLine b)]
  · have e := segsFrom_items b (rowsGo 0 1 m) 0
    rw [Nat.zero_add, ← rowsGo_shift] at e
    rw [← e]
    simp only []
    rw [checkCoverage_ok _ black rfl _ (fun r hr => model_cover m b hsq r hr)]
    rfl
  · intro a ha
    have h := hok a ha
    rw [rowsGo_length] at h
    refine ⟨h.2.2.1, by omega, by omega, ?_⟩
    simp only [if_true, Function.comp, texRect, itemLine]
    have hJ : ((a.2.1 + b : Nat) : Int) ≤ ((a.2.2 + b : Nat) : Int) := by have := h.2.2.1; omega
    have := rect_up s hs (((a.2.1 + b : Nat) : Int) * s) (((a.2.2 + b : Nat) : Int) * s)
      (((-(((a.1 + b : Nat) : Int)) : Int) : Rat) * s) (s / 2) (s / 2) ((a.2.1 + b : Nat) : Int) ((a.2.2 + b : Nat) : Int) ((a.1 + b : Nat) : Int) hJ
      (by grind) (by grind) rfl (by rw [Rat.intCast_neg]; grind)
    exact this

/-! ### the judge's number reader on the printed coordinates `<int><unit>` -/

/-- units the reader `numUnit?` separates from the number: the unit does not start with a digit or `.`, and not with an
    exponent (`e` / `E`, optional sign, digit) -/
def unitOk (u : List Char) : Bool :=
  match u with
  | [] => true
  | c :: r => !c.isDigit && c != '.' && !((c == 'e' || c == 'E') &&
      (match r with
        | '-' :: t => (match t with | d :: _ => d.isDigit | [] => false)
        | '+' :: t => (match t with | d :: _ => d.isDigit | [] => false)
        | d :: _ => d.isDigit
        | [] => false))

theorem spanDigits_nodigit (r : List Char) (h : ∀ c t, r = c :: t → c.isDigit = false) : spanDigits r = ([], r) := by
  have := spanDigits_append [] r (by simp) h
  simpa using this

/-- after a block of digits, a good unit is left untouched -/
theorem parse_digits_unit (ds u : List Char) (hne : ds ≠ []) (hd : ∀ c ∈ ds, c.isDigit = true) (hu : unitOk u = true) :
    parseDecPrefix (ds ++ u) = some ((((digitsVal ds : Nat) : Int), 1), u) := by
  cases ds with
  | nil => exact absurd rfl hne
  | cons d r =>
    have hd0 : d.isDigit = true := hd d (by simp)
    have h1 : d ≠ '-' := by intro h; subst h; simp at hd0
    have h2 : d ≠ '+' := by intro h; subst h; simp at hd0
    cases u with
    | nil => simpa using parse_digits (d :: r) hne hd
    | cons c t =>
      simp only [unitOk, Bool.and_eq_true, Bool.not_eq_true', bne_iff_ne, ne_eq] at hu
      obtain ⟨⟨hc1, hc2⟩, hc3⟩ := hu
      have hs := spanDigits_append (d :: r) (c :: t) hd (by intro c' r' h; cases h; exact hc1)
      simp only [List.cons_append] at hs
      by_cases he : (c == 'e' || c == 'E') = true
      · -- an `e` that does not start an exponent
        simp only [he, Bool.true_and, Bool.not_eq_eq_eq_not, Bool.not_true] at hc3
        have hex : ∀ (r1 : List Char), (∀ c' t', r1 = c' :: t' → c'.isDigit = false) →
            ((spanDigits r1).1.isEmpty || decide ((spanDigits r1).1.length > 3)) = true := by
          intro r1 h; rw [spanDigits_nodigit r1 h]; rfl
        cases t with
        | nil =>
          simp [parseDecPrefix, h1, h2, hs, hc2, he, spanDigits_nodigit [] (by intro _ _ h; cases h)]
        | cons t0 t1 =>
          by_cases hm : t0 = '-'
          · subst hm
            have hr1 : ∀ c' t', t1 = c' :: t' → c'.isDigit = false := by
              intro c' t' h; subst h; simpa using hc3
            simp [parseDecPrefix, h1, h2, hs, hc2, he, spanDigits_nodigit t1 hr1]
          · by_cases hp : t0 = '+'
            · subst hp
              have hr1 : ∀ c' t', t1 = c' :: t' → c'.isDigit = false := by
                intro c' t' h; subst h; simpa using hc3
              simp [parseDecPrefix, h1, h2, hs, hc2, he, spanDigits_nodigit t1 hr1]
            · have hr1 : ∀ c' t', t0 :: t1 = c' :: t' → c'.isDigit = false := by
                intro c' t' h; cases h
                revert hc3
                split <;> simp_all
              simp [parseDecPrefix, h1, h2, hs, hc2, he, hm, hp, spanDigits_nodigit (t0 :: t1) hr1]
      · simp only [Bool.not_eq_true] at he
        simp [parseDecPrefix, h1, h2, hs, hc2, he]

theorem parse_neg_digits_unit (ds u : List Char) (hne : ds ≠ []) (hd : ∀ c ∈ ds, c.isDigit = true) (hu : unitOk u = true) :
    parseDecPrefix ('-' :: (ds ++ u)) = some ((-((digitsVal ds : Nat) : Int), 1), u) := by
  cases u with
  | nil => simpa using parse_neg_digits ds hne hd
  | cons c t =>
    simp only [unitOk, Bool.and_eq_true, Bool.not_eq_true', bne_iff_ne, ne_eq] at hu
    obtain ⟨⟨hc1, hc2⟩, hc3⟩ := hu
    have hs := spanDigits_append ds (c :: t) hd (by intro c' r' h; cases h; exact hc1)
    by_cases he : (c == 'e' || c == 'E') = true
    · simp only [he, Bool.true_and, Bool.not_eq_eq_eq_not, Bool.not_true] at hc3
      cases t with
      | nil =>
        simp [parseDecPrefix, hs, hc2, he, hne, spanDigits_nodigit [] (by intro _ _ h; cases h)]
      | cons t0 t1 =>
        by_cases hm : t0 = '-'
        · subst hm
          have hr1 : ∀ c' t', t1 = c' :: t' → c'.isDigit = false := by
            intro c' t' h; subst h; simpa using hc3
          simp [parseDecPrefix, hs, hc2, he, hne, spanDigits_nodigit t1 hr1]
        · by_cases hp : t0 = '+'
          · subst hp
            have hr1 : ∀ c' t', t1 = c' :: t' → c'.isDigit = false := by
              intro c' t' h; subst h; simpa using hc3
            simp [parseDecPrefix, hs, hc2, he, hne, spanDigits_nodigit t1 hr1]
          · have hr1 : ∀ c' t', t0 :: t1 = c' :: t' → c'.isDigit = false := by
              intro c' t' h; cases h
              revert hc3
              split <;> simp_all
            simp [parseDecPrefix, hs, hc2, he, hne, hm, hp, spanDigits_nodigit (t0 :: t1) hr1]
    · simp only [Bool.not_eq_true] at he
      simp [parseDecPrefix, hs, hc2, he, hne]

/-- the judge reads the coordinate text `<k><unit>` the model prints for an integer scale as the number k and the unit -/
theorem numUnit_int (k : Int) (unit : String) (hu : unitOk unit.toList = true) :
    numUnit? (toString k ++ unit) = some ((k : Rat), unit) := by
  unfold numUnit?
  rw [String.toList_append, toList_int]
  by_cases h : 0 ≤ k
  · obtain ⟨n, rfl⟩ := Int.eq_ofNat_of_zero_le h
    rw [if_pos h, parse_digits_unit _ _ Nat.toDigits_ne_nil (isDigit_toDigits _) hu, digitsVal_toDigits]
    simp [Rat.mkRat_eq_div]
    grind
  · obtain ⟨n, rfl⟩ : ∃ n : Nat, k = -(n : Int) := ⟨(-k).toNat, by omega⟩
    rw [if_neg h]
    have e : '-' :: Nat.toDigits 10 (-(-(n : Int))).toNat ++ unit.toList = '-' :: (Nat.toDigits 10 (-(-(n : Int))).toNat ++ unit.toList) := rfl
    rw [e, parse_neg_digits_unit _ _ Nat.toDigits_ne_nil (isDigit_toDigits _) hu, digitsVal_toDigits]
    simp [Rat.mkRat_eq_div]
    grind

/-! ### lists (PDF offsets) -/

theorem prefixSums_length (l : List Nat) : ∀ a, (prefixSums a l).length = l.length := by
  induction l with
  | nil => intro a; rfl
  | cons p r ih => intro a; simp [prefixSums, ih]

theorem getLastD_six (l : List Nat) (h : l.length = 6) : l.getLastD 0 = l[5]'(by omega) := by
  match l, h with
  | [_, _, _, _, _, _], _ => rfl

end Proofs.TexDocs
