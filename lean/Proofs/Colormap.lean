/-
  Proofs.Colormap — definitions and helper lemmas for the colour map theorems of C11
  (Props/C11Colormap.lean) and for the two-colour PNG picture (Proofs/PngTwoTone.lean).
-/
import Model.Colormap
import Spec.Raster

namespace Proofs.Colormap

open Model Spec

/-- the keyword option that configures the modules of region `k` with value `val` -/
def optionFor {α : Type} (o : TypeOpts α) (k : Kind) (val : Nat) : Option α :=
  match k with
  | .finder => if val != 0 then o.finder_dark else o.finder_light
  | .separator => o.separator
  | .alignment => if val != 0 then o.alignment_dark else o.alignment_light
  | .timing => if val != 0 then o.timing_dark else o.timing_light
  | .format => if val != 0 then o.format_dark else o.format_light
  | .version => if val != 0 then o.version_dark else o.version_light
  | .darkmodule => o.dark_module
  | .data => if val != 0 then o.data_dark else o.data_light

/-- the size classes (matrix of `w` × `h` modules) whose key for region `k` is dropped:
    no version information below 45 modules (version 7), no dark module and no alignment pattern
    below 21 modules (Micro QR Codes); non-square matrices as the code treats them -/
def lacks (w h : Nat) (k : Kind) : Bool :=
  match k with
  | .version => w != h || w < 45
  | .darkmodule => w != h || w < 21
  | .alignment => if w != h then w < 43 else w < 21
  | _ => false

/-- the map `_make_colormap` returns, written out: the 15 entries in the order of the dict literal,
    without the entries of the regions the size class lacks -/
theorem makeColormap_eq {α : Type} (w h : Nat) (dark light : α) (o : TypeOpts α) :
    makeColormap w h dark light o =
      [(typeCode .finder 1, o.finder_dark.getD dark), (typeCode .finder 0, o.finder_light.getD light),
       (typeCode .data 1, o.data_dark.getD dark), (typeCode .data 0, o.data_light.getD light)]
      ++ (if lacks w h .version then [] else
            [(typeCode .version 1, o.version_dark.getD dark), (typeCode .version 0, o.version_light.getD light)])
      ++ (if lacks w h .alignment then [] else
            [(typeCode .alignment 1, o.alignment_dark.getD dark), (typeCode .alignment 0, o.alignment_light.getD light)])
      ++ [(typeCode .timing 1, o.timing_dark.getD dark), (typeCode .timing 0, o.timing_light.getD light),
          (typeCode .format 1, o.format_dark.getD dark), (typeCode .format 0, o.format_light.getD light),
          (typeCode .separator 0, o.separator.getD light)]
      ++ (if lacks w h .darkmodule then [] else [(typeCode .darkmodule 1, o.dark_module.getD dark)])
      ++ [(typeQuietZone, o.quiet_zone.getD light)] := by
  have consts : Gen.TYPE_FINDER_PATTERN_DARK = 1536 ∧ Gen.TYPE_FINDER_PATTERN_LIGHT = 6 ∧ Gen.TYPE_DATA_DARK = 1024 ∧ Gen.TYPE_DATA_LIGHT = 4
      ∧ Gen.TYPE_VERSION_DARK = 4096 ∧ Gen.TYPE_VERSION_LIGHT = 16 ∧ Gen.TYPE_ALIGNMENT_PATTERN_DARK = 2560 ∧ Gen.TYPE_ALIGNMENT_PATTERN_LIGHT = 10
      ∧ Gen.TYPE_TIMING_DARK = 3072 ∧ Gen.TYPE_TIMING_LIGHT = 12 ∧ Gen.TYPE_FORMAT_DARK = 3584 ∧ Gen.TYPE_FORMAT_LIGHT = 14
      ∧ Gen.TYPE_SEPARATOR = 8 ∧ Gen.TYPE_DARKMODULE = 512 ∧ Gen.TYPE_QUIET_ZONE = 18 := by decide
  obtain ⟨c1, c2, c3, c4, c5, c6, c7, c8, c9, c10, c11, c12, c13, c14, c15⟩ := consts
  simp only [makeColormap, mt2color, unsupportedTypes, c1, c2, c3, c4, c5, c6, c7, c8, c9, c10, c11, c12, c13, c14, c15]
  by_cases h1 : w = h
  · subst h1
    by_cases h2 : w < 21
    · have h4 : w < 45 := by omega
      simp [lacks, typeCode, typeQuietZone, h2, h4]
    · by_cases h4 : w < 45
      · simp [lacks, typeCode, typeQuietZone, h2, h4]
      · simp [lacks, typeCode, typeQuietZone, h2, h4]
  · by_cases h3 : w < 43
    · simp [lacks, typeCode, typeQuietZone, h1, h3]
    · simp [lacks, typeCode, typeQuietZone, h1, h3]

theorem version_witness_all :
    (List.range 34).all (fun k => kind ((k : Int) + 7) 0 (size ((k : Int) + 7) - 11) == Kind.version) = true := by decide +kernel
theorem darkmodule_witness_all :
    (List.range 40).all (fun k => kind ((k : Int) + 1) (size ((k : Int) + 1) - 8) 8 == Kind.darkmodule) = true := by decide +kernel
theorem alignment_witness_all :
    (List.range 39).all (fun k => kind ((k : Int) + 2) (size ((k : Int) + 2) - 7) (size ((k : Int) + 2) - 7) == Kind.alignment) = true := by
  decide +kernel

theorem size_ge (v : Int) (h1 : -3 ≤ v) (n : Nat) (c : Int) (hc : 17 + 4 * c = n) (hn : 21 ≤ n) (hs : n ≤ size v) : c ≤ v := by
  unfold size at hs
  by_cases h0 : v > 0
  · simp [h0] at hs; omega
  · simp [h0] at hs; omega

end Proofs.Colormap
