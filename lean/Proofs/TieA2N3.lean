/-
  Proofs.TieA2N3 — `mask_scores.n3_pattern_occurrences` (translated, Gen/Funcs2.lean) against `Model.n3Occurrences`:
  the `while idx != -1` loop over `seq.find(n3_pattern, idx + 4)` and the model's `go` run in lock-step, and the
  declared fuel `len(seq) + 1` of the translation always suffices (each further hit lies at least 4 to the right).
-/
import Gen.Funcs2
import Proofs.TieA2
import Model.Encoder
import Mathlib.Tactic.SplitIfs

set_option linter.unusedSimpArgs false
set_option linter.unusedTactic false
set_option linter.unusedVariables false

namespace Proofs.TieA2
open Gen.Py Proofs.TieA Model

/-! ### `seq.find(n3_pattern, start)` -/

/-- `findSome?` with a guarded value is `find?` followed by the value -/
theorem findSome_guard_eq_find (l : List Nat) (p q : Nat → Bool) (f : Nat → Nat) (h : ∀ k ∈ l, q k = p k) :
    l.findSome? (fun k => if q k then some (f k) else none) = (l.find? p).map f := by
  induction l with
  | nil => rfl
  | cons a l ih =>
    have ha : q a = p a := h a (by simp)
    have ih' := ih (fun k hk => h k (by simp [hk]))
    rw [List.findSome?_cons, List.find?_cons, ha]
    cases hp : p a
    · simpa using ih'
    · simp

theorem n3Pattern_toI : ([1, 0, 1, 1, 1, 0, 1] : List Int) = toI Model.n3Pattern := rfl

/-- comparing a window with the pattern: `Int` side and `Nat` side agree -/
theorem window_beq (seq : List Nat) (a : Nat) :
    (((toI seq).drop a).take 7 == toI Model.n3Pattern) = ((seq.drop a).take 7 == Model.n3Pattern) := by
  have hinj : ∀ x y : Nat, Int.ofNat x = Int.ofNat y → x = y := fun x y h => Int.ofNat.inj h
  have : ((toI seq).drop a).take 7 = toI ((seq.drop a).take 7) := by
    simp [toI, List.map_drop, List.map_take]
  rw [this, Bool.eq_iff_iff]
  simp only [beq_iff_eq, toI]
  exact List.map_inj_right hinj

/-- the encoding of the result of `find`: an index, or `-1` -/
def encIdx : Option Nat → Int
  | some i => (i : Int)
  | none => -1

theorem find_n3 (seq : List Nat) (start : Nat) :
    Gen.Py.find (toI seq) [1, 0, 1, 1, 1, 0, 1] (start : Int) = encIdx (Model.findPattern seq start) := by
  rw [n3Pattern_toI]
  unfold Gen.Py.find Model.findPattern
  simp only [toI_length]
  have hlen : Model.n3Pattern.length = 7 := rfl
  rw [hlen]
  by_cases hs : (start : Int) > (seq.length : Int)
  · rw [if_pos hs]
    have : seq.length + 1 - start - 7 + 0 = 0 := by omega
    rw [this]
    rfl
  · rw [if_neg hs]
    have hclip : clip seq.length (start : Int) = start := by
      unfold clip
      rw [if_neg (by omega)]
      omega
    rw [hclip]
    have hr : seq.length + 1 - start - 7 + 0 = seq.length + 1 - 7 - start := by omega
    rw [hr]
    have key := findSome_guard_eq_find (List.range (seq.length + 1 - 7 - start))
      (fun k => ((toI seq).drop (start + k)).take 7 == toI Model.n3Pattern)
      (fun k => decide (start + k + 7 ≤ seq.length) && ((seq.drop (start + k)).take 7 == Model.n3Pattern))
      (fun k => start + k)
      (by
        intro k hk
        have hk' : k < seq.length + 1 - 7 - start := List.mem_range.mp hk
        have : decide (start + k + 7 ≤ seq.length) = true := decide_eq_true (by omega)
        simp only [this, Bool.true_and]
        exact (window_beq seq (start + k)).symm)
    rw [key]
    cases List.find? (fun k => ((toI seq).drop (start + k)).take 7 == toI Model.n3Pattern)
        (List.range (seq.length + 1 - 7 - start)) with
    | none => rfl
    | some k => rfl

/-- a hit of `find` from `start` lies at or after `start` and leaves room for the pattern -/
theorem findPattern_bounds (seq : List Nat) (start i : Nat) (h : Model.findPattern seq start = some i) :
    start ≤ i ∧ i + 7 ≤ seq.length := by
  unfold Model.findPattern at h
  obtain ⟨k, hk, hf⟩ := List.exists_of_findSome?_eq_some h
  have hk' := List.mem_range.mp hk
  simp only at hf
  split_ifs at hf with hc
  · have : start + k = i := Option.some.inj hf
    omega

/-! ### the loop body -/

/-- the body of the `while` loop of `n3_pattern_occurrences`, verbatim from Gen/Funcs2.lean -/
def n3Body (n3_pattern : List Int) (qr_size : Int) (seq : List Int) : (Int × Int) → M (Gen.Py.Step (Int × Int) Int) :=
  (fun (acc'1 : (Int × Int)) =>
      ((if (!(acc'1.2 == (-1 : Int))) then
        (let offset'1 := (acc'1.2 + (7 : Int));
        (let count'2 := (if (((acc'1.2 == (0 : Int)) || (acc'1.2 == (qr_size - (7 : Int)))) || ((!(((Gen.Py.slice seq (some (max (acc'1.2 - (4 : Int)) (0 : Int))) (some (min acc'1.2 qr_size)))).any (fun x'1 => (x'1 != 0)))) || (!(((Gen.Py.slice seq (some (max offset'1 (0 : Int))) (some (min (offset'1 + (4 : Int)) qr_size)))).any (fun x'2 => (x'2 != 0)))))) then
          (let count'1 := (acc'1.1 + (40 : Int));
          count'1)
        else
          acc'1.1);
        (let idx'2 := (Gen.Py.find seq n3_pattern (acc'1.2 + (4 : Int)));
        (Except.ok (Gen.Py.Step.next (count'2, idx'2))))))
      else
        (Except.ok (Gen.Py.Step.brk (acc'1.1, acc'1.2)))) : M (Gen.Py.Step (Int × Int) Int)))

theorem n3_pattern_occurrences_unfold (pat : List Int) (q : Int) (seq : List Int) :
    Gen.Funcs2.n3_pattern_occurrences pat q seq =
      Gen.Py.bind (Gen.Py.whileM ((Int.ofNat seq.length) + (1 : Int)).toNat ((0 : Int), Gen.Py.find seq pat (0 : Int))
        (n3Body pat q seq))
        (fun d => match d with
          | .fin s => Except.ok s.1
          | .ret r => Except.ok r) := rfl

/-- the model's test of one occurrence -/
def n3Hit (seq : List Nat) (idx : Nat) : Bool :=
  idx == 0 || idx + 7 == seq.length
    || !anyNonZero ((seq.drop (idx - 4)).take (min idx seq.length - (idx - 4)))
    || !anyNonZero ((seq.drop (idx + 7)).take (min (idx + 7 + 4) seq.length - (idx + 7)))

theorem go_succ_some (seq : List Nat) (f idx count : Nat) :
    Model.n3Occurrences.go seq seq.length (f + 1) (some idx) count
      = Model.n3Occurrences.go seq seq.length f (Model.findPattern seq (idx + 4))
          (if n3Hit seq idx then count + 40 else count) := by
  rw [Model.n3Occurrences.go]
  rfl

theorem go_none (seq : List Nat) (f count : Nat) :
    Model.n3Occurrences.go seq seq.length f none count = count := by
  cases f <;> rfl

theorem any_toI (l : List Nat) : (toI l).any (fun x => x != 0) = anyNonZero l := by
  unfold toI anyNonZero
  rw [List.any_map]
  congr 1
  funext a
  simp only [Function.comp]
  rw [Bool.eq_iff_iff]
  simp only [bne_iff_ne, ne_eq]
  constructor
  · intro h h'; exact h (by subst h'; rfl)
  · intro h h'; exact h (by exact Int.ofNat.inj h')

/-- a slice with non-negative bounds of the `Int` view is the `Int` view of drop / take -/
theorem slice_toI (seq : List Nat) (a b : Int) (a' b' : Nat) (ha : 0 ≤ a) (hb : 0 ≤ b)
    (ha' : a.toNat = a') (hb' : min b.toNat seq.length = b') :
    Gen.Py.slice (toI seq) (some a) (some b) = toI ((seq.drop a').take (b' - a')) := by
  unfold Gen.Py.slice sliceHi sliceLo clip
  simp only [toI_length]
  rw [if_neg (by omega), if_neg (by omega), hb']
  have hmin : min a.toNat seq.length = min a' seq.length := by rw [ha']
  rw [hmin, List.drop_take]
  unfold toI
  rw [List.map_take, List.map_drop]
  by_cases hle : a' ≤ seq.length
  · rw [Nat.min_eq_left hle]
  · have h1 : min a' seq.length = seq.length := Nat.min_eq_right (by omega)
    rw [h1]
    have h2 : b' - seq.length = 0 := by omega
    have h3 : b' - a' = 0 := by omega
    rw [h2, h3]
    rfl

theorem n3Body_some (seq : List Nat) (c i : Nat) (hi : i + 7 ≤ seq.length) :
    n3Body [1, 0, 1, 1, 1, 0, 1] (seq.length : Int) (toI seq) ((c : Int), (i : Int))
      = .ok (.next (((if n3Hit seq i then c + 40 else c : Nat) : Int),
          encIdx (Model.findPattern seq (i + 4)))) := by
  unfold n3Body
  have hne : (!((i : Int) == (-1 : Int))) = true := by
    rw [Bool.not_eq_true', beq_eq_false_iff_ne]; omega
  simp only [hne, if_true]
  have hfind : Gen.Py.find (toI seq) [1, 0, 1, 1, 1, 0, 1] ((i : Int) + 4) = encIdx (Model.findPattern seq (i + 4)) := by
    have := find_n3 seq (i + 4)
    rwa [show (((i + 4 : Nat) : Int)) = (i : Int) + 4 by push_cast; rfl] at this
  rw [hfind]
  have h0 : ((i : Int) == 0) = (i == 0) := by
    rw [Bool.eq_iff_iff]; simp only [beq_iff_eq]; omega
  have h7 : ((i : Int) == (seq.length : Int) - 7) = (i + 7 == seq.length) := by
    rw [Bool.eq_iff_iff]; simp only [beq_iff_eq]; omega
  have hs1 : Gen.Py.slice (toI seq) (some (max ((i : Int) - 4) 0)) (some (min (i : Int) (seq.length : Int)))
      = toI ((seq.drop (i - 4)).take (min i seq.length - (i - 4))) :=
    slice_toI seq _ _ _ _ (by omega) (by omega) (by omega) (by omega)
  have hs2 : Gen.Py.slice (toI seq) (some (max ((i : Int) + 7) 0)) (some (min ((i : Int) + 7 + 4) (seq.length : Int)))
      = toI ((seq.drop (i + 7)).take (min (i + 7 + 4) seq.length - (i + 7))) :=
    slice_toI seq _ _ _ _ (by omega) (by omega) (by omega) (by omega)
  rw [h0, h7, hs1, hs2, any_toI, any_toI]
  have hhit : ((i == 0 || i + 7 == seq.length)
      || (!anyNonZero ((seq.drop (i - 4)).take (min i seq.length - (i - 4)))
        || !anyNonZero ((seq.drop (i + 7)).take (min (i + 7 + 4) seq.length - (i + 7))))) = n3Hit seq i := by
    unfold n3Hit
    simp only [Bool.or_assoc]
  rw [hhit]
  cases n3Hit seq i
  · rfl
  · simp only [if_true]
    push_cast
    rfl

theorem n3Body_none (pat : List Int) (q : Int) (seq : List Int) (c : Int) :
    n3Body pat q seq (c, (-1 : Int)) = .ok (.brk (c, (-1 : Int))) := by
  unfold n3Body
  simp

/-! ### the two loops in lock-step -/

/-- enough fuel for the translation: each further hit lies at least 4 to the right of the current one -/
def n3Inv (len fuel : Nat) : Option Nat → Prop
  | some i => i + 7 ≤ len ∧ (len - 7 - i) / 4 + 2 ≤ fuel
  | none => 1 ≤ fuel

theorem n3_loop (seq : List Nat) :
    ∀ (fuel : Nat) (idx? : Option Nat) (count : Nat), n3Inv seq.length fuel idx? →
      Gen.Py.whileM fuel ((count : Int), encIdx idx?) (n3Body [1, 0, 1, 1, 1, 0, 1] (seq.length : Int) (toI seq))
        = .ok (.fin (((Model.n3Occurrences.go seq seq.length fuel idx? count : Nat) : Int), (-1 : Int))) := by
  intro fuel
  induction fuel with
  | zero =>
    intro idx? count hinv
    cases idx? with
    | none => simp only [n3Inv] at hinv; omega
    | some i => simp only [n3Inv] at hinv; omega
  | succ f ih =>
    intro idx? count hinv
    cases idx? with
    | none =>
      rw [go_none]
      show Gen.Py.whileM (f + 1) ((count : Int), (-1 : Int)) _ = _
      rw [Gen.Py.whileM, n3Body_none]
    | some i =>
      simp only [n3Inv] at hinv
      obtain ⟨hi, hfuel⟩ := hinv
      rw [go_succ_some]
      show Gen.Py.whileM (f + 1) ((count : Int), (i : Int)) _ = _
      rw [Gen.Py.whileM, n3Body_some seq count i hi]
      simp only
      apply ih
      cases hfp : Model.findPattern seq (i + 4) with
      | none => simp only [n3Inv]; omega
      | some j =>
        obtain ⟨h1, h2⟩ := findPattern_bounds seq (i + 4) j hfp
        simp only [n3Inv]
        refine ⟨h2, ?_⟩
        omega

/-- `n3_pattern_occurrences(seq)` inside `mask_scores` for a row / column of a symbol of size `qr_size = len(seq)`: the
    `while` loop over `seq.find` is `Model.n3Occurrences`; in particular the declared fuel `len(seq) + 1` suffices -/
theorem n3_occurrences_eq (seq : List Nat) :
    Gen.Funcs2.n3_pattern_occurrences [1, 0, 1, 1, 1, 0, 1] (seq.length : Int) (toI seq)
      = .ok (Int.ofNat (Model.n3Occurrences seq)) := by
  rw [n3_pattern_occurrences_unfold]
  have hfuel : ((Int.ofNat (toI seq).length) + (1 : Int)).toNat = seq.length + 1 := by
    rw [toI_length]
    show ((seq.length : Int) + 1).toNat = seq.length + 1
    omega
  have h0 : Gen.Py.find (toI seq) [1, 0, 1, 1, 1, 0, 1] (0 : Int) = encIdx (Model.findPattern seq 0) :=
    find_n3 seq 0
  rw [hfuel, h0]
  have hinv : n3Inv seq.length (seq.length + 1) (Model.findPattern seq 0) := by
    cases hfp : Model.findPattern seq 0 with
    | none => simp only [n3Inv]; omega
    | some j =>
      obtain ⟨h1, h2⟩ := findPattern_bounds seq 0 j hfp
      simp only [n3Inv]
      refine ⟨h2, ?_⟩
      omega
  have := n3_loop seq (seq.length + 1) (Model.findPattern seq 0) 0 hinv
  rw [show (((0 : Nat) : Int)) = (0 : Int) from rfl] at this
  rw [this]
  rfl

end Proofs.TieA2
