/-
  Proofs.Sequence — helper lemmas for Props/C08 (Structured Append sequences).
-/
import Model.Sequence
import Proofs.Idempotent

namespace Proofs.Sequence
open Model

/-! ### the Except monad -/

theorem bind_ok {ε α β : Type} {x : Except ε α} {f : α → Except ε β} {b : β} :
    (x >>= f) = .ok b ↔ ∃ a, x = .ok a ∧ f a = .ok b := by
  cases x with
  | error e => simp [bind, Except.bind]
  | ok a => simp [bind, Except.bind]

theorem map_ok {ε α β : Type} {x : Except ε α} {f : α → β} {b : β} :
    (f <$> x) = .ok b ↔ ∃ a, x = .ok a ∧ f a = b := by
  cases x with
  | error e => simp [Functor.map, Except.map]
  | ok a => simp [Functor.map, Except.map]

theorem exceptMap_ok {ε α β : Type} {x : Except ε α} {f : α → β} {b : β} :
    Except.map f x = .ok b ↔ ∃ a, x = .ok a ∧ f a = b := by
  cases x with
  | error e => simp [Except.map]
  | ok a => simp [Except.map]

/-- `mapM` in `Except`: success means success on every element, in order -/
theorem mapM_ok {ε α β : Type} (f : α → Except ε β) :
    ∀ (l : List α) (r : List β), l.mapM f = .ok r →
      r.length = l.length ∧ ∀ (i : Nat) (h1 : i < l.length) (h2 : i < r.length), f l[i] = .ok r[i] := by
  intro l
  induction l with
  | nil =>
    intro r h
    simp [List.mapM_nil, pure, Except.pure] at h
    subst h
    simp
  | cons a as ih =>
    intro r h
    rw [List.mapM_cons] at h
    obtain ⟨b, hb, h⟩ := bind_ok.1 h
    obtain ⟨bs, hbs, h⟩ := bind_ok.1 h
    simp [pure, Except.pure] at h
    subst h
    obtain ⟨hl, hi⟩ := ih bs hbs
    refine ⟨by simp [hl], ?_⟩
    intro i h1 h2
    cases i with
    | zero => simpa using hb
    | succ j =>
      simp only [List.getElem_cons_succ]
      exact hi j (by simpa using h1) (by simpa using h2)

/-! ### `encodeCore` = boost, header ‖ segments, tail -/

theorem encodeCore_eq (segs : List Segment) (error : Option Nat) (v : Int) (mask : Option Nat) (eci boost : Bool)
    (n : String → Option Nat) (sa : Option (Nat × Nat × Nat)) :
    encodeCore segs error v mask eci boost n sa =
      ((if boost then boostErrorLevel v error segs eci sa.isSome else pure error) >>= fun error' =>
        (segs.mapM (fun s => writeSegment s v eci n)) >>= fun segBits =>
          encodeTail (saHeader sa ++ segBits.flatten) segs error' v mask) := by
  unfold encodeCore encodeTail saHeader
  cases boost <;> cases sa with
  | none => rfl
  | some x => obtain ⟨a, b, c⟩ := x; rfl

/-! ### slices with consecutive boundaries -/

theorem flatten_slices {α : Type} (d : List α) (f : Nat → Nat) (h0 : f 0 = 0) (hmono : ∀ i, f i ≤ f (i + 1)) (n : Nat) :
    ((List.range n).map (fun i => (d.drop (f i)).take (f (i + 1) - f i))).flatten = d.take (f n) := by
  induction n with
  | zero => simp [h0]
  | succ n ih =>
    rw [List.range_succ, List.map_append, List.flatten_append, ih]
    simp only [List.map_cons, List.map_nil, List.flatten_cons, List.flatten_nil, List.append_nil]
    have : f (n + 1) = f n + (f (n + 1) - f n) := by have := hmono n; omega
    conv => rhs; rw [this, List.take_add]

/-! ### `divide_into_chunks` -/

theorem chunkStart_zero (k m cs : Nat) : chunkStart k m cs 0 = 0 := by simp [chunkStart]

theorem chunkStart_step (k m cs i : Nat) :
    chunkStart k m cs (i + 1) = chunkStart k m cs i + (k + (if i < m then 1 else 0)) * cs := by
  unfold chunkStart
  rw [← Nat.add_mul]
  congr 1
  have hmin : min (i + 1) m = min i m + (if i < m then 1 else 0) := by
    by_cases h : i < m
    · simp [h]; omega
    · simp [h]; omega
  rw [hmin, Nat.add_mul i 1 k]
  omega

theorem chunkStart_mono (k m cs i : Nat) : chunkStart k m cs i ≤ chunkStart k m cs (i + 1) := by
  rw [chunkStart_step]; omega

theorem chunkStart_last (n num cs : Nat) (hnum : 0 < num) :
    chunkStart (n / num) (n % num) cs num = n * cs := by
  unfold chunkStart
  have hm : n % num < num := Nat.mod_lt _ hnum
  have : min num (n % num) = n % num := by omega
  rw [this]
  congr 1
  exact Nat.div_add_mod n num

theorem chunkStart_le_last (k m cs num i : Nat) (hi : i ≤ num) : chunkStart k m cs i ≤ chunkStart k m cs num := by
  induction num with
  | zero => have : i = 0 := by omega
            subst this; exact Nat.le_refl _
  | succ n ih =>
    by_cases h : i ≤ n
    · exact Nat.le_trans (ih h) (chunkStart_mono _ _ _ _)
    · have : i = n + 1 := by omega
      subst this; exact Nat.le_refl _

theorem divideIntoChunks_length (d : List Nat) (num cs : Nat) : (divideIntoChunks d num cs).length = num := by
  simp [divideIntoChunks]

theorem divideIntoChunks_flatten (d : List Nat) (num cs : Nat) (hnum : 0 < num) :
    (divideIntoChunks d num cs).flatten = d.take (d.length / cs * cs) := by
  unfold divideIntoChunks
  simp only []
  rw [flatten_slices d (chunkStart (d.length / cs / num) (d.length / cs % num) cs) (chunkStart_zero _ _ _)
      (chunkStart_mono _ _ _), chunkStart_last _ _ _ hnum]

/-- the i-th chunk has `(k + [i < m]) * cs` bytes, where `k, m = divmod(len(data) // cs, num)` -/
theorem divideIntoChunks_getElem_length (d : List Nat) (num cs : Nat) (hnum : 0 < num) (i : Nat)
    (hi : i < (divideIntoChunks d num cs).length) :
    ((divideIntoChunks d num cs)[i]).length
      = (d.length / cs / num + (if i < d.length / cs % num then 1 else 0)) * cs := by
  have hin : i < num := by simpa [divideIntoChunks] using hi
  have hget : (divideIntoChunks d num cs)[i]
      = (d.drop (chunkStart (d.length / cs / num) (d.length / cs % num) cs i)).take
          (chunkStart (d.length / cs / num) (d.length / cs % num) cs (i + 1)
            - chunkStart (d.length / cs / num) (d.length / cs % num) cs i) := by
    simp [divideIntoChunks]
  rw [hget]
  simp only [List.length_take, List.length_drop]
  have h1 : chunkStart (d.length / cs / num) (d.length / cs % num) cs (i + 1) ≤ d.length := by
    have := chunkStart_le_last (d.length / cs / num) (d.length / cs % num) cs num (i + 1) (by omega)
    rw [chunkStart_last _ _ _ hnum] at this
    exact Nat.le_trans this (Nat.div_mul_le_self _ _)
  rw [chunkStart_step] at h1 ⊢
  omega

/-! ### `make_segment`: mode, encoding and number of payload bits -/

theorem appendBits_length (v l : Nat) : (appendBits v l).length = l := by simp [appendBits]

theorem numeric_len : ∀ (fuel : Nat) (data : List Nat), data.length ≤ fuel →
    ((chunks 3 fuel data).map (fun c => appendBits (digitsVal c) (c.length * 3 + 1))).flatten.length
      = 10 * (data.length / 3) + (if data.length % 3 = 0 then 0 else 3 * (data.length % 3) + 1) := by
  intro fuel
  induction fuel with
  | zero => intro data h; have : data = [] := List.eq_nil_of_length_eq_zero (by omega)
            subst this; simp [chunks]
  | succ f ih =>
    intro data h
    cases data with
    | nil => simp [chunks]
    | cons a t =>
      simp only [chunks, List.map_cons, List.flatten_cons, List.length_append, appendBits_length]
      rw [ih _ (by simp at h ⊢; omega)]
      simp only [List.length_take, List.length_drop, List.length_cons]
      generalize t.length = n
      by_cases h3 : n + 1 ≤ 3
      · have : min 3 (n + 1) = n + 1 := by omega
        rw [this]
        have hn : n = 0 ∨ n = 1 ∨ n = 2 := by omega
        rcases hn with rfl | rfl | rfl <;> simp
      · have : min 3 (n + 1) = 3 := by omega
        rw [this]
        split <;> split <;> omega

theorem alnum_len : ∀ (fuel : Nat) (data : List Nat), data.length ≤ fuel →
    ((chunks 2 fuel data).map (fun c =>
      match c with
      | [a, b] => appendBits (alnumIndex a * 45 + alnumIndex b) 11
      | [a] => appendBits (alnumIndex a) 6
      | _ => [])).flatten.length
      = 11 * (data.length / 2) + 6 * (data.length % 2) := by
  intro fuel
  induction fuel with
  | zero => intro data h; have : data = [] := List.eq_nil_of_length_eq_zero (by omega)
            subst this; simp [chunks]
  | succ f ih =>
    intro data h
    match data, h with
    | [], _ => simp [chunks]
    | [a], _ =>
      cases f <;> simp [chunks, appendBits_length]
    | a :: b :: t, h =>
      simp only [chunks, List.map_cons, List.flatten_cons, List.length_append]
      have : List.take 2 (a :: b :: t) = [a, b] := by simp
      rw [this]
      simp only [appendBits_length]
      rw [show List.drop 2 (a :: b :: t) = t by simp, ih t (by simp at h; omega)]
      simp only [List.length_cons]
      omega

theorem pairs_length : ∀ (l : List Nat), (pairs l).length = l.length / 2
  | [] => by simp [pairs]
  | [_] => by simp [pairs]
  | a :: b :: t => by
    simp only [pairs, List.length_cons, pairs_length t]
    omega

theorem flatten_const_len (gs : List (List Nat)) (k : Nat) (h : ∀ g ∈ gs, g.length = k) :
    gs.flatten.length = k * gs.length := by
  induction gs with
  | nil => simp
  | cons g t ih =>
    simp only [List.flatten_cons, List.length_append, List.length_cons]
    rw [h g (by simp), ih (fun x hx => h x (by simp [hx]))]
    rw [Nat.mul_add]; omega


theorem throw_bind {ε α β : Type} (e : ε) (f : α → Except ε β) : ((throw e : Except ε α) >>= f) = throw e := rfl
theorem throw_ne_ok {ε α : Type} (e : ε) (a : α) : (throw e : Except ε α) ≠ .ok a := by
  intro h; cases h
theorem pure_eq_ok {ε α : Type} (a b : α) : ((pure a : Except ε α) = .ok b) ↔ a = b := by
  constructor
  · intro h; cases h; rfl
  · intro h; subst h; rfl

def payloadLen (m n : Nat) : Nat :=
  if m == Gen.MODE_NUMERIC then 10 * (n / 3) + (if n % 3 = 0 then 0 else 3 * (n % 3) + 1)
  else if m == Gen.MODE_ALPHANUMERIC then 11 * (n / 2) + 6 * (n % 2)
  else if m == Gen.MODE_BYTE then 8 * n
  else 13 * (n / 2)

theorem makeSegment_some (data : List Nat) (m : Nat) (enc : String) (s : Segment)
    (h : makeSegment data (some m) enc = .ok s) :
    s.mode = m ∧ s.encoding = (if m != Gen.MODE_BYTE then none else some enc)
      ∧ s.bits.length = payloadLen m data.length := by
  unfold makeSegment at h
  extract_lets len guessed bitsN bitsA jpH jpK jp at h
  split at h
  case h_2 heq => cases heq
  case h_1 m' heq =>
  cases heq
  split at h
  · exact absurd h (by rw [throw_bind]; exact throw_ne_ok _ _)
  · rw [pure_bind] at h
    simp -zeta only [jp] at h
    extract_lets segEnc isDouble charCount jp2 at h
    split at h
    · exact absurd h (by rw [throw_bind]; exact throw_ne_ok _ _)
    · simp -zeta only [jp2] at h
      split at h
      · rename_i hm
        rw [pure_eq_ok] at h; subst h
        refine ⟨rfl, rfl, ?_⟩
        simp only [bitsN, len, payloadLen, hm, if_true]
        exact numeric_len _ _ (Nat.le_refl _)
      · split at h
        · rename_i hn hm
          rw [pure_eq_ok] at h; subst h
          refine ⟨rfl, rfl, ?_⟩
          simp only [bitsA, len, payloadLen, hm, hn, if_true]
          exact alnum_len _ _ (Nat.le_refl _)
        · split at h
          · rename_i hn ha hm
            rw [pure_eq_ok] at h; subst h
            refine ⟨rfl, rfl, ?_⟩
            simp only [payloadLen, hm, hn, ha, if_true]
            rw [flatten_const_len _ 8 (by intro g hg; simp at hg; obtain ⟨b, _, rfl⟩ := hg; exact appendBits_length _ _)]
            simp
          · rename_i hn ha hb
            have hpl : payloadLen m data.length = 13 * (data.length / 2) := by
              simp only [payloadLen, hn, ha, hb, Bool.false_eq_true, ↓reduceIte]
            split at h
            · obtain ⟨groups, hg, hp⟩ := bind_ok.1 h
              rw [pure_eq_ok] at hp; subst hp
              refine ⟨rfl, rfl, ?_⟩
              have hlen := mapM_ok _ _ _ hg
              rw [hpl]
              rw [flatten_const_len groups 13 ?_, hlen.1, pairs_length]
              intro g hgm
              obtain ⟨i, hi, rfl⟩ := List.getElem_of_mem hgm
              have hx := hlen.2 i (by omega) hi
              generalize (pairs data)[i] = x at hx
              dsimp only at hx
              split at hx
              · exact absurd hx (by rw [throw_bind]; exact throw_ne_ok _ _)
              · split at hx
                · rw [pure_bind] at hx; simp only [jpH] at hx; rw [pure_eq_ok] at hx; rw [← hx]; exact appendBits_length _ _
                · split at hx
                  · rw [pure_bind] at hx; simp only [jpH] at hx; rw [pure_eq_ok] at hx; rw [← hx]; exact appendBits_length _ _
                  · exact absurd hx (by rw [throw_bind]; exact throw_ne_ok _ _)
            · obtain ⟨groups, hg, hp⟩ := bind_ok.1 h
              rw [pure_eq_ok] at hp; subst hp
              refine ⟨rfl, rfl, ?_⟩
              have hlen := mapM_ok _ _ _ hg
              rw [hpl]
              rw [flatten_const_len groups 13 ?_, hlen.1, pairs_length]
              intro g hgm
              obtain ⟨i, hi, rfl⟩ := List.getElem_of_mem hgm
              have hx := hlen.2 i (by omega) hi
              generalize (pairs data)[i] = x at hx
              dsimp only at hx
              split at hx
              · exact absurd hx (by rw [throw_bind]; exact throw_ne_ok _ _)
              · split at hx
                · rw [pure_bind] at hx; simp only [jpK] at hx; rw [pure_eq_ok] at hx; rw [← hx]; exact appendBits_length _ _
                · split at hx
                  · rw [pure_bind] at hx; simp only [jpK] at hx; rw [pure_eq_ok] at hx; rw [← hx]; exact appendBits_length _ _
                  · exact absurd hx (by rw [throw_bind]; exact throw_ne_ok _ _)
/-! ### chunks of one sequence: same mode, bit length monotone in the chunk length -/

theorem payloadLen_mono (m a b : Nat) (h : a ≤ b) : payloadLen m a ≤ payloadLen m b := by
  unfold payloadLen
  split
  · split <;> split <;> omega
  · split
    · omega
    · split <;> omega

theorem longest_ge (cs : List (List Nat)) : ∀ c ∈ cs, c.length ≤ (longest cs).length := by
  cases cs with
  | nil => simp
  | cons c0 t =>
    simp only [longest]
    -- generalise the accumulator
    have key : ∀ (l : List (List Nat)) (best : List Nat),
        best.length ≤ (l.foldl (fun best x => if x.length > best.length then x else best) best).length
        ∧ ∀ c ∈ l, c.length ≤ (l.foldl (fun best x => if x.length > best.length then x else best) best).length := by
      intro l
      induction l with
      | nil => intro best; simp
      | cons x xs ih =>
        intro best
        simp only [List.foldl_cons]
        obtain ⟨h1, h2⟩ := ih (if x.length > best.length then x else best)
        refine ⟨?_, ?_⟩
        · refine Nat.le_trans ?_ h1
          split <;> omega
        · intro c hc
          rcases List.mem_cons.1 hc with rfl | hc
          · refine Nat.le_trans ?_ h1
            split <;> omega
          · exact h2 c hc
    intro c hc
    rcases List.mem_cons.1 hc with rfl | hc
    · exact (key t c).1
    · exact (key t c0).2 c hc

theorem oneItemSegments_ok (chunk : List Nat) (mode : Nat) (enc : String) (segs : List Segment)
    (h : oneItemSegments chunk mode enc = .ok segs) :
    ∃ s, segs = [s] ∧ s.mode = mode
      ∧ s.encoding = (if mode != Gen.MODE_BYTE then none else some (if mode == Gen.MODE_HANZI then Gen.HANZI_ENCODING else enc))
      ∧ s.bits.length = payloadLen mode chunk.length := by
  unfold oneItemSegments at h
  obtain ⟨s, hs, hp⟩ := bind_ok.1 h
  rw [pure_eq_ok] at hp
  obtain ⟨h1, h2, h3⟩ := makeSegment_some _ _ _ _ hs
  exact ⟨s, by rw [← hp]; simp [addSegment], h1, h2, h3⟩

/-- bit length of a single segment symbol: everything except the payload depends only on the mode,
    the encoding and the version -/
theorem bitLength_single (s : Segment) (v : Int) (eci isSa : Bool) :
    bitLengthWithOverhead [s] v eci isSa =
      (cciLen s.mode (if v > 0 then Gen.version_range v else v)).map (fun cl =>
        (if eci && (s.mode == Gen.MODE_BYTE && s.encoding != some Gen.DEFAULT_BYTE_ENCODING) then 12 else 0)
        + (if isSa then 20 else 0)
        + (if v > 0 then 4 + 4 * (if s.mode == Gen.MODE_HANZI then 1 else 0) else if v > Gen.VERSION_M1 then (v + 3).toNat else 0)
        + cl + s.bits.length) := by
  unfold bitLengthWithOverhead
  cases hc : cciLen s.mode (if v > 0 then Gen.version_range v else v) with
  | none => simp [hc, bind, Option.bind]
  | some cl =>
    simp only [List.mapM_cons, List.mapM_nil, hc, bind, Option.bind, pure, Option.map, sumNat, List.foldl_cons, List.foldl_nil, List.map]
    congr 1
    by_cases he : eci <;> by_cases hb : (s.mode == Gen.MODE_BYTE && s.encoding != some Gen.DEFAULT_BYTE_ENCODING) <;>
      by_cases hh : s.mode == Gen.MODE_HANZI <;> simp [he, hb, hh, List.filter] <;> split <;> omega

/-! ### `find_version` restricted to QR Codes -/

theorem mem_intRange (lo hi v : Int) : v ∈ intRange lo hi ↔ lo ≤ v ∧ v ≤ hi := by
  unfold intRange
  simp only [List.mem_map, List.mem_range, Int.ofNat_eq_natCast]
  constructor
  · rintro ⟨k, hk, rfl⟩; omega
  · intro ⟨h1, h2⟩
    exact ⟨(v - lo).toNat, by omega, by omega⟩

theorem findVersion_qr (segs : List Segment) (e : Nat) (eci isSa : Bool) (v : Int)
    (h : findVersion segs (some e) eci (some false) isSa = .ok v) :
    1 ≤ v ∧ v ≤ 40 ∧ ∃ cap bl, capacity v (some e) = some cap ∧ bitLengthWithOverhead segs v eci isSa = some bl ∧ bl ≤ cap := by
  unfold findVersion at h
  simp only [show ((some false : Option Bool) == some true) = false from rfl, Bool.and_false, Bool.false_eq_true, ↓reduceIte,
    show ((some false : Option Bool) != some false) = false from rfl, pure_bind, Int.lt_irrefl,
    Option.isNone_some, Bool.false_and] at h
  split at h
  · rename_i v' hf
    rw [pure_eq_ok] at h; subst h
    have hm := List.mem_of_find?_eq_some hf
    have hp := List.find?_some hf
    rw [mem_intRange] at hm
    refine ⟨hm.1, hm.2, ?_⟩
    split at hp
    · rename_i cap bl hc hb
      exact ⟨cap, bl, hc, hb, by simpa using hp⟩
    · cases hp
  · exact absurd h (throw_ne_ok _ _)
/-! ### the plan of a sequence -/

/-- bytes per character -/
def csOf (mode : Nat) : Nat := if (mode == Gen.MODE_KANJI || mode == Gen.MODE_HANZI) = true then 2 else 1

theorem planSequence_ok (segs : List Segment) (msg : List Nat) (msgEnc : String) (error : Option Nat) (version : Option Int)
    (eci : Bool) (symbolCount : Option Nat) (mode : Nat) (chunks : List (List Nat)) (v : Int) (parity : Nat)
    (h : planSequence segs msg msgEnc error version eci symbolCount = .ok (mode, chunks, v, parity)) :
    ∃ s0 num, segs.head? = some s0 ∧ mode = s0.mode ∧ parity = xorBytes msg ∧ num ≤ 16
      ∧ chunks = divideIntoChunks msg num (csOf mode)
      ∧ (∀ k, symbolCount = some k → k ≤ msg.length / csOf mode)
      ∧ (∀ vv, version = some vv → numberOfSymbolsByVersion msg.length (csOf mode) vv error mode msgEnc eci = .ok num)
      ∧ (version = none → num = symbolCount.getD 16)
      ∧ (∀ k, symbolCount = some k → ∃ segsL, oneItemSegments (longest chunks) mode msgEnc = .ok segsL
            ∧ findVersion segsL error eci (some false) true = .ok v)
      ∧ (symbolCount = none → version = some v) := by
  unfold planSequence at h
  dsimp only at h
  split at h
  · exact absurd h (by rw [throw_bind]; exact throw_ne_ok _ _)
  · split at h
    case h_2 => exact absurd h (throw_ne_ok _ _)
    case h_1 s0 hs0 =>
    -- the symbol-count length check
    have hk : ∀ k, symbolCount = some k → k ≤ msg.length / csOf s0.mode := by
      intro k hk; subst hk
      refine Nat.le_of_not_lt (fun hlt => ?_)
      simp only [csOf] at hlt
      simp only [hlt, ↓reduceIte] at h
      exact absurd h (by rw [throw_bind]; exact throw_ne_ok _ _)
    have h' : (match version with
        | some v => numberOfSymbolsByVersion msg.length (csOf s0.mode) v error s0.mode msgEnc eci
        | none => pure (symbolCount.getD 16)) >>= (fun num =>
          if num > 16 then throw PyErr.dataOverflow else
            (match symbolCount, version with
              | some _, _ => do
                let segs' ← oneItemSegments (longest (divideIntoChunks msg num (csOf s0.mode))) s0.mode msgEnc
                findVersion segs' error eci (some false) true
              | none, some v => pure v
              | none, none => throw PyErr.valueError) >>= fun v => pure (s0.mode, divideIntoChunks msg num (csOf s0.mode), v, xorBytes msg))
        = .ok (mode, chunks, v, parity) := by
      rw [← h]
      cases symbolCount with
      | none => cases version <;> simp [csOf, throw_bind] <;> rfl
      | some k =>
        have := hk k rfl
        simp only [csOf] at this
        simp only [show ¬ (msg.length / (if (s0.mode == Gen.MODE_KANJI || s0.mode == Gen.MODE_HANZI) = true then 2 else 1) < k) from by omega,
          ↓reduceIte]
        cases version <;> simp [csOf, throw_bind] <;> rfl
    clear h
    obtain ⟨num, hnum, h⟩ := bind_ok.1 h'
    split at h
    · exact absurd h (throw_ne_ok _ _)
    · rename_i hle
      obtain ⟨v', hv', h⟩ := bind_ok.1 h
      rw [pure_eq_ok] at h
      simp only [Prod.mk.injEq] at h
      obtain ⟨rfl, rfl, rfl, rfl⟩ := h
      refine ⟨s0, num, hs0, rfl, rfl, by omega, rfl, hk, ?_, ?_, ?_, ?_⟩
      · intro vv hvv; subst hvv; simpa using hnum
      · intro hvn; subst hvn; rw [pure_eq_ok] at hnum; exact hnum.symm
      · intro k hk'; subst hk'
        simp only at hv'
        obtain ⟨segsL, h1, h2⟩ := bind_ok.1 hv'
        exact ⟨segsL, h1, h2⟩
      · intro hn; subst hn
        cases version with
        | none => exact absurd hv' (throw_ne_ok _ _)
        | some vv => simp only at hv'; rw [pure_eq_ok] at hv'; rw [hv']
/-! ### `encode_sequence` dissected -/

/-- the per-symbol call of `encode_sequence` -/
def symbolOf (mode : Nat) (msgEnc : String) (error' : Option Nat) (v : Int) (mask : Option Nat) (eci boost : Bool)
    (n : String → Option Nat) (total parity : Nat) (x : List Nat × Nat) : R Code := do
  let segs' ← oneItemSegments x.1 mode msgEnc
  encodeCore segs' error' v mask eci boost n (some (x.2, total, parity))

theorem encodeSequenceAux_ok (parts : List Part) (msg : List Nat) (msgEnc : String) (error : Option Nat) (version : Option Int)
    (mask : Option Nat) (eci boost : Bool) (symbolCount : Option Int) (n : String → Option Nat) (isSa : Bool) (cs : List Code)
    (h : encodeSequenceAux parts msg msgEnc error version mask eci boost symbolCount n = .ok (isSa, cs)) :
    (∀ vv, version = some vv → 1 ≤ vv) ∧ (version = none → symbolCount.isSome = true)
    ∧ (∀ k, symbolCount = some k → 1 ≤ k ∧ k ≤ 16)
    ∧ ∃ segs, prepareData parts = .ok segs ∧
      ((isSa = false ∧ symbolCount = none ∧ ∃ g c,
          findVersion segs (if error.isNone then some Gen.ERROR_LEVEL_L else error) eci (some false) = .ok g
          ∧ g ≤ version.getD g
          ∧ encodeCore segs (if error.isNone then some Gen.ERROR_LEVEL_L else error) (version.getD g) mask eci boost n = .ok c
          ∧ cs = [c])
      ∨ (isSa = true ∧ ∃ mode chunks v parity,
          planSequence segs msg msgEnc (if error.isNone then some Gen.ERROR_LEVEL_L else error) version eci
            (symbolCount.map Int.toNat) = .ok (mode, chunks, v, parity)
          ∧ (chunks.zipIdx).mapM (symbolOf mode msgEnc (if error.isNone then some Gen.ERROR_LEVEL_L else error) v mask eci boost n
                (chunks.length - 1) parity) = .ok cs)) := by
  unfold encodeSequenceAux at h
  extract_lets error' jpC jpB jpA at h
  -- version / symbol count requests
  have hA : jpA () = .ok (isSa, cs) ∧ (∀ vv, version = some vv → 1 ≤ vv) ∧ (version = none → symbolCount.isSome = true) := by
    cases version with
    | some vv =>
      simp only at h
      split at h
      · exact absurd h (by rw [throw_bind]; exact throw_ne_ok _ _)
      · exact ⟨h, (by intro v' hv'; cases hv'; omega), (by intro hc; cases hc)⟩
    | none =>
      simp only at h
      split at h
      · exact absurd h (by rw [throw_bind]; exact throw_ne_ok _ _)
      · rename_i hs
        refine ⟨h, (by intro v' hv'; cases hv'), fun _ => ?_⟩
        cases symbolCount <;> simp_all
  obtain ⟨hA, hv1, hv2⟩ := hA
  have hB : jpB () = .ok (isSa, cs) ∧ (∀ k, symbolCount = some k → 1 ≤ k ∧ k ≤ 16) := by
    simp only [jpA] at hA
    cases symbolCount with
    | none => exact ⟨hA, (by intro k hk; cases hk)⟩
    | some k =>
      simp only at hA
      split at hA
      · exact absurd hA (by rw [throw_bind]; exact throw_ne_ok _ _)
      · rename_i hk
        refine ⟨hA, ?_⟩
        intro k' hk'; cases hk'
        simp at hk
        omega
  obtain ⟨hB, hk⟩ := hB
  have hC : jpC () = .ok (isSa, cs) := by
    simp only [jpB] at hB
    cases mask with
    | none => exact hB
    | some mk =>
      simp only at hB
      split at hB
      · exact absurd hB (by rw [throw_bind]; exact throw_ne_ok _ _)
      · exact hB
  refine ⟨hv1, hv2, hk, ?_⟩
  simp -zeta only [jpC] at hC
  obtain ⟨segs, hsegs, hC⟩ := bind_ok.1 hC
  refine ⟨segs, hsegs, ?_⟩
  extract_lets jpD at hC
  have hD : ∀ sc, jpD sc = .ok (isSa, cs) →
      (∃ vsc, sc = some vsc ∧ isSa = false ∧ ∃ c, encodeCore segs error' vsc mask eci boost n = .ok c ∧ cs = [c])
      ∨ (sc = none ∧ isSa = true ∧ ∃ mode chunks v parity,
          planSequence segs msg msgEnc error' version eci (symbolCount.map Int.toNat) = .ok (mode, chunks, v, parity)
          ∧ (chunks.zipIdx).mapM (symbolOf mode msgEnc error' v mask eci boost n (chunks.length - 1) parity) = .ok cs) := by
    intro sc hsc
    simp only [jpD] at hsc
    cases sc with
    | some vsc =>
      left
      simp only at hsc
      obtain ⟨c, hc, hp⟩ := bind_ok.1 hsc
      rw [pure_eq_ok] at hp
      simp only [Prod.mk.injEq] at hp
      exact ⟨vsc, rfl, hp.1.symm, c, hc, hp.2.symm⟩
    | none =>
      right
      simp only at hsc
      obtain ⟨⟨mode, chunks, v, parity⟩, hplan, hp⟩ := bind_ok.1 hsc
      simp only at hp
      obtain ⟨cs', hcs', hp⟩ := bind_ok.1 hp
      rw [pure_eq_ok] at hp
      simp only [Prod.mk.injEq] at hp
      refine ⟨rfl, hp.1.symm, mode, chunks, v, parity, hplan, ?_⟩
      rw [← hp.2]
      exact hcs'
  split at hC
  · split at hC
    · rename_i g hg
      rw [pure_bind] at hC
      rcases hD (if g ≤ version.getD g then some (version.getD g) else none) hC with ⟨vsc, hsc, hsa, c, hc, hcs⟩ | ⟨hsc, hsa, rest⟩
      · left
        rename_i hnone
        have hsn : symbolCount = none := by cases symbolCount <;> simp_all
        split at hsc
        · rename_i hle
          cases hsc
          exact ⟨hsa, hsn, g, c, hg, hle, hc, hcs⟩
        · cases hsc
      · right; exact ⟨hsa, rest⟩
    · rw [pure_bind] at hC
      rcases hD none hC with ⟨vsc, hsc, _⟩ | ⟨hsc, hsa, rest⟩
      · cases hsc
      · right; exact ⟨hsa, rest⟩
    · exact absurd hC (by rw [throw_bind]; exact throw_ne_ok _ _)
  · rw [pure_bind] at hC
    rcases hD none hC with ⟨vsc, hsc, _⟩ | ⟨hsc, hsa, rest⟩
    · cases hsc
    · right; exact ⟨hsa, rest⟩
/-! ### what `_encode` returns -/

theorem encodeTail_ok (buff : List Nat) (segs : List Segment) (error' : Option Nat) (v : Int) (mask : Option Nat) (c : Code)
    (h : encodeTail buff segs error' v mask = .ok c) :
    c.version = v ∧ c.error = error' ∧ c.segments = segs ∧ ∃ cap, capacity v error' = some cap := by
  unfold encodeTail at h
  split at h
  case h_2 => exact absurd h (throw_ne_ok _ _)
  case h_1 cap hcap =>
  obtain ⟨stream, _, h⟩ := bind_ok.1 h
  obtain ⟨final, _, h⟩ := bind_ok.1 h
  dsimp only at h
  obtain ⟨m0, _, h⟩ := bind_ok.1 h
  obtain ⟨m1, _, h⟩ := bind_ok.1 h
  obtain ⟨⟨mk, m2⟩, _, h⟩ := bind_ok.1 h
  dsimp only at h
  obtain ⟨m3, _, h⟩ := bind_ok.1 h
  obtain ⟨m4, _, h⟩ := bind_ok.1 h
  rw [pure_eq_ok] at h
  subst h
  exact ⟨rfl, rfl, rfl, cap, hcap⟩

theorem encodeCore_ok (segs : List Segment) (error : Option Nat) (v : Int) (mask : Option Nat) (eci boost : Bool)
    (n : String → Option Nat) (sa : Option (Nat × Nat × Nat)) (c : Code)
    (h : encodeCore segs error v mask eci boost n sa = .ok c) :
    c.version = v ∧ c.segments = segs
      ∧ ∃ payload, encodeTail (saHeader sa ++ payload) segs c.error v mask = .ok c
      ∧ (boost = false → c.error = error)
      ∧ (boost = true → boostErrorLevel v error segs eci sa.isSome = .ok c.error) := by
  rw [encodeCore_eq] at h
  obtain ⟨error', he, h⟩ := bind_ok.1 h
  obtain ⟨segBits, _, h⟩ := bind_ok.1 h
  obtain ⟨h1, h2, h3, _⟩ := encodeTail_ok _ _ _ _ _ _ h
  subst h2
  refine ⟨h1, h3, segBits.flatten, h, ?_, ?_⟩
  · intro hb; subst hb; simp only [Bool.false_eq_true, ↓reduceIte] at he; rw [pure_eq_ok] at he; exact he.symm
  · intro hb; subst hb; simpa using he
/-! ### number of symbols -/

theorem capacity_table_pos : Gen.SYMBOL_CAPACITY.all (fun x => decide (0 < x.2.2)) = true := by decide +kernel

theorem capacity_pos (v : Int) (e : Option Nat) (cap : Nat) (h : capacity v e = some cap) : 0 < cap := by
  unfold capacity lookup2 at h
  cases hf : Gen.SYMBOL_CAPACITY.find? (fun x => x.1 == v && x.2.1 == lvlKey e) with
  | none => rw [hf] at h; cases h
  | some x =>
    rw [hf] at h
    simp only [Option.map] at h
    cases h
    have := List.all_eq_true.1 capacity_table_pos x (List.mem_of_find?_eq_some hf)
    simpa using this

theorem capacity_table_domain : Gen.SYMBOL_CAPACITY.all (fun x => decide (-3 ≤ x.1) && decide (x.1 ≤ 40)) = true := by decide +kernel

theorem capacity_domain (v : Int) (e : Option Nat) (cap : Nat) (h : capacity v e = some cap) : -3 ≤ v ∧ v ≤ 40 := by
  unfold capacity lookup2 at h
  cases hf : Gen.SYMBOL_CAPACITY.find? (fun x => x.1 == v && x.2.1 == lvlKey e) with
  | none => rw [hf] at h; cases h
  | some x =>
    have hm := List.all_eq_true.1 capacity_table_domain x (List.mem_of_find?_eq_some hf)
    have hp := List.find?_some hf
    simp only [Bool.and_eq_true, beq_iff_eq, decide_eq_true_eq] at hm hp
    rw [← hp.1]; exact hm

/-- a symbol that `_encode` returned has a version for which a capacity is tabulated -/
theorem encodeCore_version_le (segs : List Segment) (error : Option Nat) (v : Int) (mask : Option Nat) (eci boost : Bool)
    (n : String → Option Nat) (sa : Option (Nat × Nat × Nat)) (c : Code)
    (h : encodeCore segs error v mask eci boost n sa = .ok c) : v ≤ 40 := by
  obtain ⟨_, _, payload, htail, _⟩ := encodeCore_ok _ _ _ _ _ _ _ _ _ h
  obtain ⟨_, _, _, cap, hcap⟩ := encodeTail_ok _ _ _ _ _ _ htail
  exact (capacity_domain _ _ _ hcap).2

theorem ceilDiv_pos (a b : Nat) (ha : 0 < a) (hb : 0 < b) : 0 < ceilDiv a b := by
  unfold ceilDiv
  exact Nat.div_pos (by omega) hb

theorem numberOfSymbols_pos (len cs : Nat) (v : Int) (error : Option Nat) (mode : Nat) (enc : String) (eci : Bool) (num : Nat)
    (h : numberOfSymbolsByVersion len cs v error mode enc eci = .ok num) : 0 < num := by
  unfold numberOfSymbolsByVersion at h
  dsimp only at h
  split at h
  case h_2 => exact absurd h (throw_ne_ok _ _)
  case h_1 bl hbl =>
  split at h
  case h_2 => exact absurd h (throw_ne_ok _ _)
  case h_1 cap hcap =>
  rw [pure_eq_ok] at h
  subst h
  have hc := capacity_pos _ _ _ hcap
  have hb : 0 < bl := by
    unfold calcQrcodeBitLength at hbl
    cases hcl : cciLen mode (Gen.version_range v) with
    | none => simp [hcl, bind, Option.bind] at hbl
    | some cl =>
      simp only [hcl, bind, Option.bind, pure, Option.some.injEq] at hbl
      rw [← hbl]
      split <;> split <;> omega
  exact ceilDiv_pos _ _ (by omega) hc

theorem zipIdx_mapM_ok {β : Type} (f : List Nat × Nat → R β) (chunks : List (List Nat)) (r : List β)
    (h : (chunks.zipIdx).mapM f = .ok r) :
    r.length = chunks.length ∧ ∀ (i : Nat) (h1 : i < chunks.length) (h2 : i < r.length), f (chunks[i], i) = .ok r[i] := by
  obtain ⟨hl, hi⟩ := mapM_ok f _ _ h
  rw [List.length_zipIdx] at hl
  refine ⟨hl, ?_⟩
  intro i h1 h2
  have := hi i (by rw [List.length_zipIdx]; exact h1) h2
  simpa using this

theorem symbolOf_ok (mode : Nat) (msgEnc : String) (error' : Option Nat) (v : Int) (mask : Option Nat) (eci boost : Bool)
    (n : String → Option Nat) (total parity : Nat) (x : List Nat × Nat) (c : Code)
    (h : symbolOf mode msgEnc error' v mask eci boost n total parity x = .ok c) :
    ∃ segs', oneItemSegments x.1 mode msgEnc = .ok segs'
      ∧ encodeCore segs' error' v mask eci boost n (some (x.2, total, parity)) = .ok c := by
  unfold symbolOf at h
  exact bind_ok.1 h
/-! ### boosting keeps the data within the capacity (any `is_sa`) -/

theorem boost_fits (v : Int) (e r : Option Nat) (segs : List Segment) (eci isSa : Bool)
    (h : boostErrorLevel v e segs eci isSa = .ok r) :
    r = e ∨ ∃ cap bl, capacity v r = some cap ∧ bitLengthWithOverhead segs v eci isSa = some bl ∧ bl ≤ cap := by
  unfold boostErrorLevel at h
  split at h
  · rw [pure_eq_ok] at h; exact Or.inl h.symm
  · rename_i e0
    split at h
    · rw [pure_eq_ok] at h; exact Or.inl h.symm
    · simp only [] at h
      generalize (if v < 1 then _ else _ : List Nat) = levels at h
      split at h
      · rename_i dataLen hbl
        split at h
        · exact absurd h (by rw [throw_bind]; exact throw_ne_ok _ _)
        · obtain ⟨r', hgo, hr⟩ := bind_ok.1 h
          rw [pure_eq_ok] at hr
          subst hr
          rcases Proofs.Idempotent.go_inv _ _ _ _ _ hgo with rfl | ⟨cap, hcap, hle⟩
          · exact Or.inl rfl
          · exact Or.inr ⟨cap, dataLen, hcap, hbl, hle⟩
      · exact absurd h (throw_ne_ok _ _)

end Proofs.Sequence
