/-
  Proofs.EncodeStages — the stages of `Model.encode` before `_encode` (`encodeCore`): which errors each stage can
  raise and what a successful stage establishes (the content fits, the mask is in range).
-/
import Proofs.ArgsLemmas
import Proofs.SegmentErr

namespace Proofs.EncodeStages
open Model Model.Args Model.Cli Gen Proofs.ArgsLemmas Proofs.SegmentErr

/-- the content fits into version `v` at the level the encoder starts from -/
def Fits (segs : List Segment) (er : Option Nat) (eci : Bool) (v : Int) : Prop :=
  ∃ cap bl, capacity v (defaultLevel er v) = some cap ∧ bitLengthWithOverhead segs v eci false = some bl ∧ bl ≤ cap

def MaskOk (v : Int) (mask : Option Nat) : Prop :=
  ∀ mk, mask = some mk → mk < 8 ∧ (v < 1 → mk < 4)

theorem combo_eci {micro : Option Bool} (hm : micro = some true) (v : Option Int) (er m : Option Nat) :
    comboChecks v er m true micro = .error .valueError := by
  have hne : comboChecks v er m true micro ≠ .ok () := by
    intro h
    unfold comboChecks at h
    simp only [bind, Except.bind, pure, Except.pure, throw, throwThe, MonadExceptOf.throw] at h
    repeat' split at h
    all_goals first | (cases h; done) | skip
    all_goals simp_all
  cases h : comboChecks v er m true micro with
  | ok u => cases u; exact absurd h hne
  | error e => rw [comboChecks_err _ _ _ _ _ _ h]

theorem findVersion_err (segs : List Segment) (er : Option Nat) (eci : Bool) (micro : Option Bool) (e : PyErr)
    (h : findVersion segs er eci micro = .error e) :
    e = .valueError ∨ e = .dataOverflow ∨ (e = .assertionError ∧ (eci && micro == some true) = true) := by
  unfold findVersion at h
  simp only [bind, Except.bind, pure, Except.pure, throw, throwThe, MonadExceptOf.throw] at h
  repeat' split at h
  all_goals first
    | (cases h; left; rfl)
    | (cases h; right; left; rfl)
    | (cases h; right; right; exact ⟨rfl, by assumption⟩)
    | (cases h; done)

theorem findVersion_fits (segs : List Segment) (er : Option Nat) (eci : Bool) (micro : Option Bool) (g : Int)
    (h : findVersion segs er eci micro = .ok g) : Fits segs er eci g := by
  unfold findVersion at h
  simp only [bind, Except.bind, pure, Except.pure, throw, throwThe, MonadExceptOf.throw] at h
  repeat' split at h
  all_goals first | (cases h; done) | skip
  all_goals
    rename_i hfound
    cases h
    have hp := List.find?_some hfound
    simp only [Fits, defaultLevel]
    split at hp
    · rename_i cap bl hc hb
      exact ⟨cap, bl, hc, hb, by simpa using hp⟩
    · cases hp

theorem pickVersion_err (version : Option Int) (g : Int) (e : PyErr) (h : pickVersion version g = .error e) : e = .dataOverflow := by
  unfold pickVersion at h
  err_cases h

theorem ownCapacityCheck_err (segs : List Segment) (v g : Int) (er : Option Nat) (eci : Bool) (e : PyErr)
    (h : ownCapacityCheck segs v g er eci = .error e) : e = .dataOverflow := by
  unfold ownCapacityCheck at h
  err_cases h

theorem maskRangeCheck_err (v : Int) (mask : Option Nat) (e : PyErr) (h : maskRangeCheck v mask = .error e) : e = .valueError := by
  unfold maskRangeCheck at h
  err_cases h

theorem ownCapacityCheck_fits (segs : List Segment) (v g : Int) (er : Option Nat) (eci : Bool) (u : Unit)
    (hg : Fits segs er eci g) (h : ownCapacityCheck segs v g (defaultLevel er v) eci = .ok u) : Fits segs er eci v := by
  unfold ownCapacityCheck at h
  simp only [pure, Except.pure, throw, throwThe, MonadExceptOf.throw] at h
  split at h
  · split at h
    · rename_i cap bl hc hb
      split at h
      · rename_i hle; exact ⟨cap, bl, hc, hb, hle⟩
      · cases h
    · cases h
  · rename_i hne
    have : v = g := by simpa using hne
    subst this; exact hg

theorem maskRangeCheck_ok (v : Int) (mask : Option Nat) (u : Unit) (h : maskRangeCheck v mask = .ok u) : MaskOk v mask := by
  unfold maskRangeCheck at h
  simp only [pure, Except.pure, throw, throwThe, MonadExceptOf.throw] at h
  intro mk hmk
  subst hmk
  simp only [] at h
  split at h
  · cases h
  · rename_i hc
    simp at hc
    omega

end Proofs.EncodeStages
