/-
  Proofs.TieA3Alnum — `make_segment`, alphanumeric mode: the loop over `range(0, n, 2)` with `chunk = data[i:i + 2]`, 11 bits for a
  pair (`to_byte(chunk[0]) * 45 + to_byte(chunk[1])`), 6 bits for a single character, against `Model.chunks 2` / `Model.alnumIndex`.
-/
import Proofs.TieA3Numeric

namespace Proofs.TieA3
open Gen.Py Proofs.TieA Proofs.TieA2 Model

theorem rangeStep2 (len : Nat) :
    rangeStep 0 (len : Int) 2 = (List.range ((len + 1) / 2)).map (fun (j : Nat) => (0 : Int) + Int.ofNat j * Int.ofNat 2) := by
  unfold rangeStep
  have e : (((len : Int) - 0).toNat + 2 - 1) / 2 = (len + 1) / 2 := by omega
  rw [e]

theorem slice_chunk2 (data : List Nat) (j : Nat) :
    Gen.Py.slice (toI data) (some ((0 : Int) + Int.ofNat j * Int.ofNat 2)) (some ((0 : Int) + Int.ofNat j * Int.ofNat 2 + (2 : Int)))
      = toI ((data.drop (j * 2)).take 2) := by
  unfold Gen.Py.slice sliceHi sliceLo clip
  have h1 : ¬ ((0 : Int) + Int.ofNat j * Int.ofNat 2 + 2 < 0) := by simp only [Int.ofNat_eq_natCast]; omega
  have h2 : ¬ ((0 : Int) + Int.ofNat j * Int.ofNat 2 < 0) := by simp only [Int.ofNat_eq_natCast]; omega
  have e1 : ((0 : Int) + Int.ofNat j * Int.ofNat 2 + 2).toNat = j * 2 + 2 := by simp only [Int.ofNat_eq_natCast]; omega
  have e2 : ((0 : Int) + Int.ofNat j * Int.ofNat 2).toNat = j * 2 := by simp only [Int.ofNat_eq_natCast]; omega
  simp only [h1, h2, if_false, e1, e2, toI_length]
  unfold toI
  rw [← List.map_take, ← List.map_drop, take_drop_window]

theorem chunks2_eq : ∀ (fuel : Nat) (l : List Nat), l.length ≤ fuel →
    chunks 2 fuel l = (List.range ((l.length + 1) / 2)).map (fun j => (l.drop (j * 2)).take 2) := by
  intro fuel
  induction fuel with
  | zero =>
    intro l h
    have : l = [] := List.eq_nil_of_length_eq_zero (by omega)
    subst this
    rfl
  | succ f ih =>
    intro l h
    cases l with
    | nil => rfl
    | cons x t =>
      have hc : chunks 2 (f + 1) (x :: t) = (x :: t).take 2 :: chunks 2 f ((x :: t).drop 2) := rfl
      have h' : t.length + 1 ≤ f + 1 := by simpa using h
      rw [hc, ih ((x :: t).drop 2) (by simp only [List.length_drop, List.length_cons]; omega)]
      have e : ((x :: t).length + 1) / 2 = (((x :: t).drop 2).length + 1) / 2 + 1 := by
        simp only [List.length_drop, List.length_cons]; omega
      rw [e, List.range_succ_eq_map, List.map_cons, List.map_map]
      congr 1
      apply List.map_congr_left
      intro j _
      simp only [Function.comp, List.drop_drop]
      congr 2
      omega

/-- `consts.ALPHANUMERIC_CHARS.find(b)` for a character of the table is its index -/
theorem find_alnum : ∀ b ∈ Gen.ALPHANUMERIC_CHARS,
    Gen.Py.find Gen.Funcs3.T_consts_ALPHANUMERIC_CHARS [(b : Int)] 0 = ((alnumIndex b : Nat) : Int) := by
  decide +kernel

/-- the bits of one chunk of `Model.makeSegment` in alphanumeric mode -/
def alnumBits (c : List Nat) : List Nat :=
  match c with
  | [a, b] => Model.appendBits (alnumIndex a * 45 + alnumIndex b) 11
  | [a] => Model.appendBits (alnumIndex a) 6
  | _ => []

theorem alnum_loop (data : List Nat) (hd : ∀ b ∈ data, b ∈ Gen.ALPHANUMERIC_CHARS) :
    foldlM (rangeStep 0 (data.length : Int) 2) ([] : List Int) (fun acc i =>
        if decide (Int.ofNat (Gen.Py.slice (toI data) (some i) (some (i + (2 : Int)))).length > (1 : Int)) = true then
          Gen.Py.bind (index (Gen.Py.slice (toI data) (some i) (some (i + (2 : Int)))) (0 : Int)) (fun t3 =>
            Gen.Py.bind (index (Gen.Py.slice (toI data) (some i) (some (i + (2 : Int)))) (1 : Int)) (fun t4 =>
              Except.ok (acc ++ Gen.Py.appendBits
                (Gen.Py.find Gen.Funcs3.T_consts_ALPHANUMERIC_CHARS [t3] (0 : Int) * (45 : Int)
                  + Gen.Py.find Gen.Funcs3.T_consts_ALPHANUMERIC_CHARS [t4] (0 : Int)) (11 : Int))))
        else
          Except.ok (acc ++ Gen.Py.appendBits
            (Gen.Py.find Gen.Funcs3.T_consts_ALPHANUMERIC_CHARS (Gen.Py.slice (toI data) (some i) (some (i + (2 : Int)))) (0 : Int)) (6 : Int)))
      = .ok (toI (((chunks 2 data.length data).map alnumBits).flatten)) := by
  rw [rangeStep2, chunks2_eq data.length data (Nat.le_refl _), List.map_map]
  have key := foldlM_map_inv (σ := List Int) (τ := List Nat) toI (fun _ => True)
    (fun acc j => acc ++ alnumBits ((data.drop (j * 2)).take 2))
    (fun (j : Nat) => (0 : Int) + Int.ofNat j * Int.ofNat 2) (fun j => j < (data.length + 1) / 2)
    (fun acc i =>
        if decide (Int.ofNat (Gen.Py.slice (toI data) (some i) (some (i + (2 : Int)))).length > (1 : Int)) = true then
          Gen.Py.bind (index (Gen.Py.slice (toI data) (some i) (some (i + (2 : Int)))) (0 : Int)) (fun t3 =>
            Gen.Py.bind (index (Gen.Py.slice (toI data) (some i) (some (i + (2 : Int)))) (1 : Int)) (fun t4 =>
              Except.ok (acc ++ Gen.Py.appendBits
                (Gen.Py.find Gen.Funcs3.T_consts_ALPHANUMERIC_CHARS [t3] (0 : Int) * (45 : Int)
                  + Gen.Py.find Gen.Funcs3.T_consts_ALPHANUMERIC_CHARS [t4] (0 : Int)) (11 : Int))))
        else
          Except.ok (acc ++ Gen.Py.appendBits
            (Gen.Py.find Gen.Funcs3.T_consts_ALPHANUMERIC_CHARS (Gen.Py.slice (toI data) (some i) (some (i + (2 : Int)))) (0 : Int)) (6 : Int)))
    (by
      intro acc j hj _
      refine ⟨?_, trivial⟩
      rw [slice_chunk2]
      have hlen : ((data.drop (j * 2)).take 2).length = min 2 (data.length - j * 2) := by simp
      have hmem : ∀ b ∈ (data.drop (j * 2)).take 2, b ∈ Gen.ALPHANUMERIC_CHARS :=
        fun b hb => hd b (List.mem_of_mem_drop (List.mem_of_mem_take hb))
      generalize (data.drop (j * 2)).take 2 = c at hlen hmem
      rcases c with _ | ⟨a, _ | ⟨b, _ | ⟨x, r⟩⟩⟩
      · simp only [List.length_nil] at hlen; omega
      · have ha := find_alnum a (hmem a (by simp))
        have e : decide (Int.ofNat (toI [a]).length > (1 : Int)) = false := by simp
        rw [e]
        simp only [Bool.false_eq_true, if_false, toI_cons, toI_nil, ha, alnumBits]
        rw [appendBits_lit (alnumIndex a) 6 ((alnumIndex a : Nat) : Int) (6 : Int) rfl rfl, toI_append]
      · have ha := find_alnum a (hmem a (by simp))
        have hb := find_alnum b (hmem b (by simp))
        have e : decide (Int.ofNat (toI [a, b]).length > (1 : Int)) = true := by simp
        have i0 : index (toI [a, b]) (0 : Int) = .ok (a : Int) := by simp [index, toI]
        have i1 : index (toI [a, b]) (1 : Int) = .ok (b : Int) := by simp [index, toI]
        rw [e, i0, i1]
        simp only [if_true, bind_ok, ha, hb, alnumBits]
        rw [appendBits_lit (alnumIndex a * 45 + alnumIndex b) 11 _ (11 : Int) (by push_cast; rfl) rfl, toI_append]
      · simp only [List.length_cons] at hlen; omega)
    (List.range ((data.length + 1) / 2)) (fun x hx => List.mem_range.mp hx) [] [] rfl trivial
  rw [key.1, foldl_append_flatten, List.nil_append]
  rfl

theorem findMode_alnum (data : List Nat) (h : findMode data = 2) : ∀ b ∈ data, b ∈ Gen.ALPHANUMERIC_CHARS := by
  unfold findMode at h
  split at h
  · simp [Gen.MODE_NUMERIC] at h
  · split at h
    · rename_i hc
      simp only [Bool.and_eq_true, List.all_eq_true] at hc
      intro b hb
      have := hc.2 b hb
      simpa [isAlnumByte] using this
    · split at h
      · simp [Gen.MODE_KANJI] at h
      · simp [Gen.MODE_BYTE] at h

theorem make_segment_alnum_py (raw : String) (data : List Nat) (mode : Option Nat) (enc : Option String) (encName : String)
    (intOf : List Int → M Int) (hg : findMode data = 2) (hmode : mode = none ∨ mode = some 2) :
    Gen.Funcs3.make_segment raw (mode.map Int.ofNat) enc (.ok (toI data, (data.length : Int), encName)) (findMode data : Int) intOf
      = .ok (toI (((chunks 2 data.length data).map alnumBits).flatten), (data.length : Int), 2, none) := by
  have hl := alnum_loop data (findMode_alnum data hg)
  rcases hmode with h | h
  · subst h
    unfold Gen.Funcs3.make_segment
    simp only [hg, Option.map_none, bind_ok]
    rw [hl]
    simp
  · subst h
    unfold Gen.Funcs3.make_segment
    simp only [hg, Option.map_some, bind_ok]
    rw [hl]
    simp

theorem alnumBits_eq : (fun (c : List Nat) =>
      match c with
      | [a, b] => Model.appendBits (alnumIndex a * 45 + alnumIndex b) 11
      | [a] => Model.appendBits (alnumIndex a) 6
      | _ => []) = alnumBits := by
  funext c
  rcases c with _ | ⟨a, _ | ⟨b, _ | ⟨x, r⟩⟩⟩ <;> rfl

theorem make_segment_alnum_model (data : List Nat) (mode : Option Nat) (encName : String)
    (hg : findMode data = 2) (hmode : mode = none ∨ mode = some 2) :
    Model.makeSegment data mode encName
      = .ok { bits := ((chunks 2 data.length data).map alnumBits).flatten, charCount := data.length, mode := 2, encoding := none } := by
  rcases hmode with h | h
  · subst h
    unfold Model.makeSegment
    simp [hg, Gen.MODE_BYTE, Gen.MODE_KANJI, Gen.MODE_HANZI, Gen.MODE_NUMERIC, Gen.MODE_ALPHANUMERIC, Bind.bind, Except.bind, Pure.pure, Except.pure]
    congr 2
  · subst h
    unfold Model.makeSegment
    simp [hg, Gen.MODE_BYTE, Gen.MODE_KANJI, Gen.MODE_HANZI, Gen.MODE_NUMERIC, Gen.MODE_ALPHANUMERIC, Bind.bind, Except.bind, Pure.pure, Except.pure]
    congr 2

/-- digits are characters of the alphanumeric table -/
theorem digits_alnum (data : List Nat) (h : ∀ b ∈ data, 48 ≤ b ∧ b ≤ 57) : ∀ b ∈ data, b ∈ Gen.ALPHANUMERIC_CHARS := by
  intro b hb
  obtain ⟨h1, h2⟩ := h b hb
  have : b = 48 ∨ b = 49 ∨ b = 50 ∨ b = 51 ∨ b = 52 ∨ b = 53 ∨ b = 54 ∨ b = 55 ∨ b = 56 ∨ b = 57 := by omega
  rcases this with h | h | h | h | h | h | h | h | h | h <;> subst h <;> decide

/-- alphanumeric mode requested for digits-only data -/
theorem make_segment_alnum_digits (raw : String) (data : List Nat) (enc : Option String) (encName : String)
    (intOf : List Int → M Int) (hg : findMode data = 1) :
    Gen.Funcs3.make_segment raw (some (2 : Int)) enc (.ok (toI data, (data.length : Int), encName)) (findMode data : Int) intOf
      = .ok (toI (((chunks 2 data.length data).map alnumBits).flatten), (data.length : Int), 2, none)
    ∧ Model.makeSegment data (some 2) encName
      = .ok { bits := ((chunks 2 data.length data).map alnumBits).flatten, charCount := data.length, mode := 2, encoding := none } := by
  have hl := alnum_loop data (digits_alnum data (findMode_numeric data hg))
  constructor
  · unfold Gen.Funcs3.make_segment
    simp only [hg, bind_ok]
    rw [hl]
    simp
  · unfold Model.makeSegment
    simp [hg, Gen.MODE_BYTE, Gen.MODE_KANJI, Gen.MODE_HANZI, Gen.MODE_NUMERIC, Gen.MODE_ALPHANUMERIC, Bind.bind, Except.bind, Pure.pure, Except.pure]
    congr 2

/-- kanji / hanzi requested for an odd number of bytes: `ValueError` on both sides (whatever `find_mode` finds) -/
theorem make_segment_odd (raw : String) (data : List Nat) (md : Nat) (enc : Option String) (encName : String)
    (intOf : List Int → M Int) (hmd : md = 8 ∨ md = 13) (hodd : data.length % 2 = 1) :
    Gen.Funcs3.make_segment raw (some (md : Int)) enc (.ok (toI data, (data.length : Int), encName)) (findMode data : Int) intOf
      = .error .valueError
    ∧ Model.makeSegment data (some md) encName = .error .valueError := by
  have hl : ((data.length : Int) % 2 != 0) = true := by
    simp only [bne_iff_ne, ne_eq]; omega
  constructor
  · unfold Gen.Funcs3.make_segment
    by_cases hlt : ((md : Int) < (findMode data : Int))
    · rcases hmd with h | h <;> subst h <;> simp [hlt] <;> (intros; omega)
    · rcases hmd with h | h <;> subst h <;> simp [hlt, hl] <;> (intros; omega)
  · unfold Model.makeSegment
    by_cases hlt : md < findMode data
    · rcases hmd with h | h <;> subst h <;>
        simp [hlt, Gen.MODE_BYTE, Bind.bind, Except.bind, throw, throwThe, MonadExceptOf.throw]
    · rcases hmd with h | h <;> subst h <;>
        simp [hlt, hodd, Gen.MODE_BYTE, Gen.MODE_KANJI, Gen.MODE_HANZI, Bind.bind, Except.bind, throw, throwThe, MonadExceptOf.throw,
          Pure.pure, Except.pure]

end Proofs.TieA3
