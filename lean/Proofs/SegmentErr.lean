/-
  Proofs.SegmentErr — `makeSegment` / `prepareData` (the model of `make_segment` / `prepare_data`) end in
  segments or in ValueError: no other outcome, for every input.
-/
import Proofs.ArgsLemmas

namespace Proofs.SegmentErr
open Model Model.Args Model.Cli Gen Proofs.ArgsLemmas

theorem mapM_err {α β : Type} (f : α → R β) (hf : ∀ a e, f a = .error e → e = PyErr.valueError) :
    ∀ (l : List α) (e : PyErr), l.mapM f = .error e → e = .valueError := by
  intro l
  induction l with
  | nil => intro e h; simp [pure, Except.pure] at h
  | cons a rest ih =>
    intro e h
    rw [List.mapM_cons] at h
    rcases bind_err h with h | ⟨b, _, h⟩
    · exact hf a e h
    rcases bind_err h with h | ⟨bs, _, h⟩
    · exact ih e h
    · cases h

macro "close_mapm" h:ident heq:ident : tactic => `(tactic| (
  cases $h:ident
  refine mapM_err _ ?_ _ _ $heq:ident
  intro a e' ha
  repeat' split at ha
  all_goals first | (cases ha; rfl) | (cases ha; done)))

set_option maxHeartbeats 2000000 in
theorem makeSegment_err (d : List Nat) (m : Option Nat) (enc : String) (e : PyErr)
    (h : makeSegment d m enc = .error e) : e = .valueError := by
  cases m with
  | none =>
    unfold makeSegment at h
    simp only [bind, Except.bind, pure, Except.pure, throw, throwThe, MonadExceptOf.throw] at h
    repeat' split at h
    all_goals first | (cases h; rfl) | (cases h; done) | skip
    all_goals (rename_i heq; close_mapm h heq)
  | some md =>
    unfold makeSegment at h
    simp only [bind, Except.bind, pure, Except.pure, throw, throwThe, MonadExceptOf.throw] at h
    generalize (if (some md != some MODE_BYTE) = true then findMode d else MODE_BYTE) = guessed at h
    repeat' split at h
    all_goals first | (cases h; rfl) | (cases h; done) | skip
    all_goals (rename_i heq; close_mapm h heq)

theorem prepareData_err (ps : List Part) (e : PyErr) (h : prepareData ps = .error e) : e = .valueError := by
  unfold prepareData at h
  have gen : ∀ (ps : List Part) (acc : List Segment) (e : PyErr),
      List.foldlM (fun segs p => do let s ← makeSegment p.data p.mode p.encoding; pure (addSegment segs s)) acc ps = .error e →
      e = .valueError := by
    intro ps
    induction ps with
    | nil => intro acc e h; simp [List.foldlM, pure, Except.pure] at h
    | cons p rest ih =>
      intro acc e h
      rw [List.foldlM_cons] at h
      rcases bind_err h with h | ⟨b, _, h⟩
      · rcases bind_err h with h | ⟨s, _, h⟩
        · exact makeSegment_err _ _ _ _ h
        · cases h
      · exact ih _ _ h
  exact gen ps [] e h

end Proofs.SegmentErr
