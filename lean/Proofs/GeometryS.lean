/-
  Proofs.GeometryS — kernel-checked strip facts for all 44 versions (linear in the symbol size):
  the strip columns of `add_codewords` are those of the reference reader, strip k runs upwards iff k
  is even, and the strips cover every column except the vertical timing column.
-/
import Proofs.Placement2

namespace Proofs.Placement2

set_option maxRecDepth 100000 in
theorem strips_all : allVersions.all stripsOK = true := by decide +kernel

theorem strips_ok (v : Int) (h1 : -3 ≤ v) (h2 : v ≤ 40) : orderOK v = true ∧ colsOK v = true := by
  have := List.all_eq_true.mp strips_all v (mem_allVersions v h1 h2)
  unfold stripsOK at this
  simpa using this

end Proofs.Placement2
