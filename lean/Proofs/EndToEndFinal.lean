/-
  Proofs.EndToEndFinal — helper lemmas for Props/EndToEnd.lean, part 7: the finished matrix read by
  the reference reader: data bits, header, function patterns.
-/
import Spec.Decode
import Model.Encoder
import Proofs.EndToEndHeader

namespace Proofs.EndToEnd
open Model Proofs.Placement2
set_option linter.unusedVariables false
set_option linter.unusedSimpArgs false

theorem level_facts (v : Int) (e : Option Nat) (cap : Nat) (hcap : capacity v e = some cap) :
    (v < 1 → ∃ s, Spec.microSymbolNumber v (lvlKey e) = some s) ∧ (1 ≤ v → ∃ x, e = some x ∧ x < 4) := by
  rw [Proofs.Sizing.capacity_eq] at hcap
  have hmem := Proofs.Message.lookup2_mem _ _ _ _ hcap
  have hrow := List.all_eq_true.mp level_table _ hmem
  dsimp only at hrow
  constructor
  · intro hv
    rw [if_pos hv] at hrow
    exact Option.isSome_iff_exists.mp hrow
  · intro hv
    rw [if_neg (by omega)] at hrow
    simp only [Bool.and_eq_true, decide_eq_true_eq] at hrow
    cases e with
    | none => simp [lvlKey] at hrow
    | some x => exact ⟨x, rfl, by simp [lvlKey] at hrow; omega⟩

theorem microSymbol_facts (v lvl : Int) (s : Nat) (h : Spec.microSymbolNumber v lvl = some s) :
    s < 8 ∧ Spec.microSymbol s = (v, lvl) := by
  unfold Spec.microSymbolNumber at h
  have hm := List.mem_of_find?_eq_some h
  have hp := List.find?_some h
  exact ⟨List.mem_range.mp hm, eq_of_beq hp⟩

theorem maskPatterns_length (v : Int) :
    (maskPatterns (decide (v < 1))).length = if v < 1 then 4 else 8 := by
  obtain ⟨h1, h2⟩ := Proofs.Mask.mask_order
  unfold maskPatterns
  by_cases hv : v < 1
  · simp [hv, h1]
  · simp [hv, h2]


/-! ### the chain of matrices of `_encode` -/

structure Chain (v : Int) (e : Option Nat) (mask : Option Nat) (mk : Nat) (bits : List Nat) (m4 : Matrix) where
  m0 : Matrix
  m1 : Matrix
  m2 : Matrix
  m3 : Matrix
  hm0 : addAlignmentPatterns (addFinderPatterns (makeMatrix (Spec.size v)) (Spec.size v)) (Spec.size v) = .ok m0
  hm1 : addCodewords m0 bits v = .ok m1
  hm2 : findAndApplyBestMask m1 mask = .ok (mk, m2)
  hm3 : addFormatInfo m2 v e mk = .ok m3
  hm4 : addVersionInfo m3 v = .ok m4

theorem chain_basic (v : Int) (e : Option Nat) (mask : Option Nat) (mk : Nat) (bits : List Nat) (m4 : Matrix)
    (ch : Chain v e mask mk bits m4) (h1 : -3 ≤ v) (h2 : v ≤ 40) (hb : ∀ b ∈ bits, b ≤ 1)
    (hlen : bits.length = (Spec.dataCoords v).length) :
    ∃ fm, functionMatrix (Spec.size v) = .ok fm
      ∧ mk < (maskPatterns (decide (v < 1))).length
      ∧ ch.m2 = applyMask ch.m1 fm ((maskPatterns (decide (v < 1))).getD mk 0)
      ∧ Placed v ch.m2
      ∧ Proofs.Placement.Sq ch.m2 (Spec.size v)
      ∧ Proofs.Placement.Sq ch.m3 (Spec.size v)
      ∧ Proofs.Placement.Sq m4 (Spec.size v)
      ∧ (∀ a b, a < Spec.size v → b < Spec.size v → get2 m4 a b ≤ 1)
      ∧ (∀ a b, Spec.kind v a b ≠ .version → get2 m4 a b = get2 ch.m3 a b)
      ∧ (∀ a b, ¬ inVersionArea (Spec.size v) a b → get2 m4 a b = get2 ch.m3 a b) := by
  have P1 := placed_m1 v bits ch.m0 ch.m1 h1 h2 hb hlen ch.hm0 ch.hm1
  obtain ⟨fm, hfm⟩ := functionMatrix_ok _ _ ch.hm0
  have hsz1 : ch.m1.size = Spec.size v := P1.sq.1
  obtain ⟨hmk, hm2eq⟩ := mask_inv ch.m1 fm mask mk ch.m2 (by rw [hsz1]; exact hfm) ch.hm2
  rw [hsz1, size_lt21_iff v h1 h2] at hmk hm2eq
  have P2 : Placed v ch.m2 := by rw [hm2eq]; exact placed_mask v ch.m1 fm _ h1 h2 hfm P1
  have hsq2 : Proofs.Placement.Sq ch.m2 (Spec.size v) := P2.sq
  have hbin2 : ∀ a b, a < Spec.size v → b < Spec.size v → get2 ch.m2 a b ≤ 1 := by
    intro a b ha hb'
    cases hd : Spec.isData v a b with
    | true => exact P2.data a b ha hb' hd
    | false => rw [P2.other a b ha hb' hd]; exact skelCell_le_one_of_not_data 0 (by decide) v a b hd
  obtain ⟨hsq3, hbin3⟩ := format_step ch.m2 ch.m3 v e mk h1 h2 hsq2 ch.hm3
  obtain ⟨hsq4, hbin4, hk4, hc4⟩ := version_step ch.m3 m4 v h1 h2 hsq3 ch.hm4
  exact ⟨fm, hfm, hmk, hm2eq, P2, hsq2, hsq3, hsq4,
    fun a b ha hb' => hbin4 a b (hbin3 a b (hbin2 a b ha hb')), hk4, hc4⟩

/-- **step 5**: the reference reader gets the final message back from the finished matrix -/
theorem chain_data (v : Int) (e : Option Nat) (mask : Option Nat) (mk : Nat) (bits : List Nat) (m4 : Matrix)
    (ch : Chain v e mask mk bits m4) (h1 : -3 ≤ v) (h2 : v ≤ 40) (hb : ∀ b ∈ bits, b ≤ 1)
    (hlen : bits.length = (Spec.dataCoords v).length) :
    Spec.readDataBits v mk m4 = bits := by
  obtain ⟨fm, hfm, hmk, hm2eq, P2, hsq2, hsq3, hsq4, hbin4, hk4, hc4⟩ := chain_basic v e mask mk bits m4 ch h1 h2 hb hlen
  rw [Props.C01.readDataBits_ignores_function_cells v mk m4 ch.m3
      (fun i j hk => hk4 i j (by rw [hk]; decide)),
    Props.C01.readDataBits_ignores_function_cells v mk ch.m3 ch.m2
      (fun i j hk => Props.C02.format_info_touches_only_format_cells ch.m2 ch.m3 v e mk i j h1 h2 hsq2 ch.hm3
        (by rw [hk]; exact ⟨by decide, by decide⟩)),
    hm2eq]
  exact Props.C01.placement_roundtrip v bits fm ch.m0 ch.m1 mk h1 h2 hb hlen hfm ch.hm0 ch.hm1 hmk


/-- **step 7**: every fixed function module of the finished matrix has its ISO value -/
theorem chain_fn (v : Int) (e : Option Nat) (mask : Option Nat) (mk : Nat) (bits : List Nat) (m4 : Matrix)
    (ch : Chain v e mask mk bits m4) (h1 : -3 ≤ v) (h2 : v ≤ 40) (hb : ∀ b ∈ bits, b ≤ 1)
    (hlen : bits.length = (Spec.dataCoords v).length) (cap : Nat) (hcap : capacity v e = some cap) :
    Spec.functionPatternsOk v m4 = none := by
  obtain ⟨fm, hfm, hmk, hm2eq, P2, hsq2, hsq3, hsq4, hbin4, hk4, hc4⟩ := chain_basic v e mask mk bits m4 ch h1 h2 hb hlen
  unfold Spec.functionPatternsOk
  simp only [List.findSome?_eq_none_iff, List.mem_range]
  intro i hi j hj
  cases hfx : Spec.fixedValue v i j with
  | none => rfl
  | some x =>
    have hgen : Spec.kind v i j ≠ .darkmodule → Spec.kind v i j ≠ .format → Spec.kind v i j ≠ .version →
        Spec.kind v i j ≠ .data → Spec.cell m4 i j = x := by
      intro n1 n2 n3 n4
      have hd : Spec.isData v i j = false := by
        unfold Spec.isData
        cases hk : Spec.kind v i j <;> first | rfl | exact absurd hk n4
      show get2 m4 i j = x
      rw [hk4 i j n3]
      have := Props.C02.format_info_touches_only_format_cells ch.m2 ch.m3 v e mk i j h1 h2 hsq2 ch.hm3 ⟨n2, n1⟩
      show get2 ch.m3 i j = x
      rw [show get2 ch.m3 i j = get2 ch.m2 i j from this, P2.other i j hi hj hd]
      unfold skelCell
      cases hk : Spec.kind v i j
      all_goals first | exact absurd hk n1 | exact absurd hk n2 | exact absurd hk n3 | exact absurd hk n4 | skip
      all_goals (simp only [hfx]; rfl)
    have hcell : Spec.cell m4 i j = x := by
      cases hk : Spec.kind v i j
      case darkmodule =>
        have hv : 1 ≤ v := by
          apply Decidable.byContradiction
          intro hv
          exact kind_micro_not_dark v (by omega) i j hk
        obtain ⟨hi8, hj8⟩ := (kind_dark_iff v hv i j).mp hk
        obtain ⟨x', rfl, hx'⟩ := (level_facts v e cap hcap).2 hv
        have hmk8 : mk < 8 := by rw [maskPatterns_length, if_neg (by omega)] at hmk; exact hmk
        have hdark := (Props.C02.format_written_qr ch.m2 ch.m3 v x' mk hv h2 hx' hmk8 hsq2 ch.hm3).2.2
        unfold Spec.fixedValue at hfx
        simp only [hk, Option.some.injEq] at hfx
        show get2 m4 i j = x
        rw [hk4 i j (by rw [hk]; decide), ← hfx]
        have : i = Spec.size v - 8 := by omega
        rw [this, hj8]
        exact hdark
      case data =>
        unfold Spec.fixedValue at hfx
        simp only [hk] at hfx
        cases hfx
      case format =>
        unfold Spec.fixedValue at hfx
        simp only [hk] at hfx
        cases hfx
      case version =>
        unfold Spec.fixedValue at hfx
        simp only [hk] at hfx
        cases hfx
      all_goals exact hgen (by rw [hk]; decide) (by rw [hk]; decide) (by rw [hk]; decide) (by rw [hk]; decide)
    simp [hcell]


theorem bch_facts (K : Nat) (hK : K < 32) :
    Spec.bch15 K >>> 10 = K ∧ Spec.bch15 K ^^^ 0x5412 < 2 ^ 15 ∧ Spec.bch15 K ^^^ 0x4445 < 2 ^ 15 := by
  have := List.all_eq_true.mp bch_table K (List.mem_range.mpr hK)
  simp only [Bool.and_eq_true, beq_iff_eq, decide_eq_true_eq] at this
  exact ⟨this.1.1, this.1.2, this.2⟩

theorem xor_cancel (a b : Nat) : (a ^^^ b) ^^^ b = a := by
  rw [Nat.xor_assoc, Nat.xor_self, Nat.xor_zero]

theorem fmt_not_version (n k : Nat) (hn : 21 ≤ n) :
    ¬ inVersionArea n (Spec.fmtPos1 k).1 (Spec.fmtPos1 k).2 ∧ ¬ inVersionArea n (Spec.fmtPos2 n k).1 (Spec.fmtPos2 n k).2
      ∧ ¬ inVersionArea n (n - 8) 8 := by
  unfold inVersionArea Spec.fmtPos1 Spec.fmtPos2
  refine ⟨?_, ?_, by omega⟩
  · repeat' split
    all_goals (simp only; omega)
  · split <;> (simp only; omega)

/-- **step 6**: the reference reader reads the reported version, level and mask from the finished matrix -/
theorem chain_header (v : Int) (e : Option Nat) (mask : Option Nat) (mk : Nat) (bits : List Nat) (m4 : Matrix)
    (ch : Chain v e mask mk bits m4) (h1 : -3 ≤ v) (h2 : v ≤ 40) (hb : ∀ b ∈ bits, b ≤ 1)
    (hlen : bits.length = (Spec.dataCoords v).length) (cap : Nat) (hcap : capacity v e = some cap) :
    Spec.readHeader m4 = .ok { version := v, level := lvlKey e, mask := mk } := by
  obtain ⟨fm, hfm, hmk, hm2eq, P2, hsq2, hsq3, hsq4, hbin4, hk4, hc4⟩ := chain_basic v e mask mk bits m4 ch h1 h2 hb hlen
  have hsz4 : m4.size = Spec.size v := hsq4.1
  have hall1 := all_square m4 _ hsq4
  have hall2 := all_binary m4 _ hsq4 hbin4
  by_cases hv : v < 1
  · -- Micro QR
    obtain ⟨s, hs⟩ := (level_facts v e cap hcap).1 hv
    obtain ⟨hs8, hsym⟩ := microSymbol_facts v (lvlKey e) s hs
    have hmk4 : mk < 4 := by rw [maskPatterns_length, if_pos hv] at hmk; exact hmk
    have h43 : m4 = ch.m3 := by
      have := ch.hm4
      rw [Props.C02.version_info_noop ch.m3 v (by omega)] at this
      exact (Except.ok.inj this).symm
    have hfmt := Props.C02.format_written_micro ch.m2 ch.m3 v e mk s h1 hv hmk4 hsq2 hs ch.hm3
    obtain ⟨b1, -, b3⟩ := bch_facts (s * 4 + mk) (by omega)
    have hw : Spec.readWord m4 Spec.fmtPosMicro 15 = Spec.formatWordMicro s mk := by
      rw [readWord_eq m4 _ (Spec.formatWordMicro s mk) 15 (fun k hk => by rw [h43]; exact hfmt k hk)]
      exact Nat.mod_eq_of_lt b3
    have hx : Spec.formatWordMicro s mk ^^^ 0x4445 = Spec.bch15 (s * 4 + mk) := xor_cancel _ _
    refine readHeader_micro m4 v (lvlKey e) mk _ hall1 hall2 ?_ ?_ hw ?_ ?_ hsz4.symm ?_
    · rw [hsz4]; exact Proofs.Placement2.size_micro v hv
    · rw [hsz4]
      have : v = -3 ∨ v = -2 ∨ v = -1 ∨ v = 0 := by omega
      rcases this with rfl | rfl | rfl | rfl <;> decide
    · rw [hx, b1]
    · rw [hx, b1, Nat.shiftRight_eq_div_pow, show (s * 4 + mk) / 2 ^ 2 = s by omega]; exact hsym
    · rw [hx, b1]; omega
  · -- QR
    have hv1 : 1 ≤ v := by omega
    obtain ⟨x, rfl, hx4⟩ := (level_facts v e cap hcap).2 hv1
    have hmk8 : mk < 8 := by rw [maskPatterns_length, if_neg hv] at hmk; exact hmk
    obtain ⟨hn21, hnv⟩ := Proofs.Placement.size_qr v hv1 h2
    obtain ⟨f1, f2, f3⟩ := Props.C02.format_written_qr ch.m2 ch.m3 v x mk hv1 h2 hx4 hmk8 hsq2 ch.hm3
    obtain ⟨b1, b2, -⟩ := bch_facts (x * 8 + mk) (by omega)
    have hw1 : Spec.readWord m4 Spec.fmtPos1 15 = Spec.formatWordQR x mk := by
      rw [readWord_eq m4 _ (Spec.formatWordQR x mk) 15 (fun k hk => by
        show get2 m4 _ _ = _
        rw [hc4 _ _ (fmt_not_version (Spec.size v) k hn21).1]; exact f1 k hk)]
      exact Nat.mod_eq_of_lt b2
    have hw2 : Spec.readWord m4 (Spec.fmtPos2 m4.size) 15 = Spec.formatWordQR x mk := by
      rw [hsz4, readWord_eq m4 _ (Spec.formatWordQR x mk) 15 (fun k hk => by
        show get2 m4 _ _ = _
        rw [hc4 _ _ (fmt_not_version (Spec.size v) k hn21).2.1]; exact f2 k hk)]
      exact Nat.mod_eq_of_lt b2
    have hdark : Spec.cell m4 (m4.size - 8) 8 = 1 := by
      rw [hsz4]
      show get2 m4 _ _ = _
      rw [hc4 _ _ (fmt_not_version (Spec.size v) 0 hn21).2.2]; exact f3
    have hx : Spec.formatWordQR x mk ^^^ 0x5412 = Spec.bch15 (x * 8 + mk) := xor_cancel _ _
    have hres := readHeader_qr m4 v.toNat x mk _ hall1 hall2 (by rw [hsz4]; omega) (by rw [hsz4]; omega)
      (by rw [hsz4]; omega) (by rw [hsz4]; omega) hw1 hw2 hdark (by rw [hx, b1])
      (by rw [hx, b1, Nat.shiftRight_eq_div_pow]; omega) (by rw [hx, b1]; omega)
      (by
        intro h7
        have hv7 : 7 ≤ v := by omega
        obtain ⟨g1, g2⟩ := Props.C02.version_written ch.m3 m4 v hv7 h2 hsq3 ch.hm4
        have hg : Spec.golay18 v.toNat < 2 ^ 18 := by
          have := List.all_eq_true.mp golay_table v.toNat (List.mem_range.mpr (by omega))
          simpa using this
        rw [hsz4]
        exact ⟨by rw [readWord_eq m4 _ _ 18 g1]; exact Nat.mod_eq_of_lt hg,
          by rw [readWord_eq m4 _ _ 18 g2]; exact Nat.mod_eq_of_lt hg⟩)
    rw [hres]
    have e1 : ((v.toNat : Nat) : Int) = v := by omega
    rw [e1]
    rfl

end Proofs.EndToEnd
