/-
  Proofs.PngPicture — composition for `png_model_picture` (Props/C09Png.lean): the chunk contents the
  model of `write_png` produces, read with the reference reader's semantics, show for every pixel
  the colour configured for the module type at that pixel.
-/
import Proofs.PngIndex

namespace Proofs.Png

open Model Spec Proofs.Raster

/-- the colour code the reference reader obtains for pixel (x, y): scanlines reconstructed (filter
    types 0 / 2, `Spec.unfilterUp`) and unpacked (`Spec.unpackRow`) -/
def readCode (lines : List Line) (d W x y : Nat) : Nat :=
  (((recon [] lines).map (unpackRow d W)).getD y []).getD x 0

/-- the module type whose colour pixel (x, y) has to show: what `matrix_iter_verbose` (model, scale s,
    border b) reports for the pixel if the expensive iterator is used; with the cheap iterator (two-tone
    map) "dark finder module" for a dark module and "quiet zone" for a light one -/
def pixelType (p : PaletteInfo) (M A : List (List Nat)) (w h s b x y : Nat) : Nat :=
  if useVerbose p then verboseCell M A w h b (y / s) (x / s)
  else if pixelOf (cellL M) s b x y ≠ 0 then Gen.TYPE_FINDER_PATTERN_DARK else Gen.TYPE_QUIET_ZONE

theorem verboseCell_inside (M A : List (List Nat)) (w h b ii jj : Nat)
    (hin : b ≤ ii ∧ ii < b + h ∧ b ≤ jj ∧ jj < b + w) :
    verboseCell M A w h b ii jj = verboseCell M A w h 0 (ii - b) (jj - b) := by
  unfold verboseCell
  have h0 : 0 ≤ ii - b ∧ ii - b < 0 + h ∧ 0 ≤ jj - b ∧ jj - b < 0 + w := by omega
  simp only [hin, and_self, if_true, h0, Nat.sub_zero]

theorem verboseCell_outside (M A : List (List Nat)) (w h b ii jj : Nat)
    (hout : ¬ (b ≤ ii ∧ ii < b + h ∧ b ≤ jj ∧ jj < b + w)) :
    verboseCell M A w h b ii jj = Gen.TYPE_QUIET_ZONE := by
  unfold verboseCell
  simp only [hout, if_false]

theorem cellL_outside (M : List (List Nat)) (w h i j : Nat) (hM : WellFormed M w h) (hout : ¬ (i < h ∧ j < w)) :
    cellL M i j = 0 := by
  unfold cellL
  obtain ⟨hlen, hrows⟩ := hM
  by_cases hi : i < h
  · have hj : w ≤ j := by omega
    have hi' : i < M.length := by omega
    have : M.getD i [] = M[i] := by simp [List.getD_eq_getElem?_getD, hi']
    rw [this, getD_of_length_le _ _ _ (by rw [hrows _ (List.getElem_mem hi')]; exact hj)]
  · rw [getD_of_length_le M _ _ (by omega)]; rfl

theorem isSome_of_keys (p : PaletteInfo) (clrMap : List (Nat × PColor))
    (hkeys : ∀ t, cmGet p.clrMap t = none ↔ cmGet clrMap t = none) (t : Nat)
    (h : (cmGet p.clrMap t).isSome = true) : ∃ c, cmGet clrMap t = some c := by
  cases hc : cmGet clrMap t with
  | some c => exact ⟨c, rfl⟩
  | none => rw [(hkeys t).2 hc] at h; cases h

theorem typeIndex_none (p : PaletteInfo) (t : Nat) (h : cmGet p.clrMap t = none) : typeIndex p t = 0 := by
  simp [typeIndex, h]

/-- rows of bounded values, from the cell-wise description of an index grid -/
theorem rows_bound (idx : List (List Nat)) (w h bound : Nat) (hlen : idx.length = h) (hrowlen : ∀ r ∈ idx, r.length = w)
    (hcell : ∀ i j, i < h → j < w → (idx.getD i []).getD j 0 < bound) :
    ∀ r ∈ idx, r.length = w ∧ ∀ v ∈ r, v < bound := by
  intro r hr
  refine ⟨hrowlen r hr, ?_⟩
  intro v hv
  obtain ⟨i, hi, rfl⟩ := List.mem_iff_getElem.1 hr
  obtain ⟨j, hj, rfl⟩ := List.mem_iff_getElem.1 hv
  have hw : idx[i].length = w := hrowlen _ (List.getElem_mem hi)
  have := hcell i j (by omega) (by omega)
  simpa [List.getD_eq_getElem?_getD, hi, hj] using this

/-- the picture of the model: every pixel shows the colour configured for its module type -/
theorem model_picture (setOrder : List PColor → List PColor) (hset : SetOrderOK setOrder) (M : List (List Nat)) (w h : Nat)
    (colormap : List (Nat × ColorArg)) (scale : Num) (border : Option Num) (out : PngOut)
    (hM : WellFormed M w h) (hn : colormap.length ≤ 16)
    (hw : writePng setOrder M w h colormap scale border = .ok out) :
    ∃ clrMap p b idx A,
      parseColormap colormap = .ok clrMap ∧ buildPalette setOrder clrMap = .ok p ∧ borderForRange w h border = .ok b
      ∧ indexRows p M w h = .ok idx ∧ 0 < scale.toInt.toNat
      ∧ (useVerbose p = true → alignmentMatrix w = .ok A)
      ∧ (p.depth = 1 ∨ p.depth = 2 ∨ p.depth = 4)
      ∧ out = { width := (w + 2 * b) * scale.toInt.toNat, height := (h + 2 * b) * scale.toInt.toNat, depth := p.depth,
                ctype := if p.isGrey then 0 else 3, plte := plteBytes p, trns := trnsBytes p,
                idat := flat (pngLines idx w p.depth scale.toInt.toNat b (typeIndex p Gen.TYPE_QUIET_ZONE)) }
      ∧ (pngLines idx w p.depth scale.toInt.toNat b (typeIndex p Gen.TYPE_QUIET_ZONE)).length = (h + 2 * b) * scale.toInt.toNat
      ∧ (∀ l ∈ pngLines idx w p.depth scale.toInt.toNat b (typeIndex p Gen.TYPE_QUIET_ZONE),
            (l.1 = 0 ∨ l.1 = 2) ∧ l.2.length = ((w + 2 * b) * scale.toInt.toNat * p.depth + 7) / 8)
      ∧ ∀ x y, x < (w + 2 * b) * scale.toInt.toNat → y < (h + 2 * b) * scale.toInt.toNat →
          ∃ c rgba, cmGet clrMap (pixelType p M A w h scale.toInt.toNat b x y) = some c
            ∧ readColour p.depth (if p.isGrey then 0 else 3) (plteBytes p) (trnsBytes p)
                (readCode (pngLines idx w p.depth scale.toInt.toNat b (typeIndex p Gen.TYPE_QUIET_ZONE)) p.depth
                  ((w + 2 * b) * scale.toInt.toNat) x y) = some rgba
            ∧ Shows c rgba := by
  obtain ⟨clrMap, p, b, idx, hparse, hpal, hb, hidx, hs, hcheapkeys, hqzkey, hout⟩ :=
    writePng_ok setOrder M w h colormap scale border out hw
  have hlen : clrMap.length ≤ 16 := by rw [parseColormap_length _ _ hparse]; exact hn
  obtain ⟨hd, hkeys, hlt, _⟩ := buildPalette_facts setOrder hset clrMap p hpal hlen
  generalize hsdef : scale.toInt.toNat = s at *
  -- the quiet zone index fits the bit depth
  have hqzlt : typeIndex p Gen.TYPE_QUIET_ZONE < 2 ^ p.depth := by
    cases hq : cmGet clrMap Gen.TYPE_QUIET_ZONE with
    | some c => exact hlt _ (by rw [hq]; rfl)
    | none =>
      rw [typeIndex_none p _ ((hkeys _).2 hq)]
      exact Nat.pos_of_ne_zero (by rcases hd with h | h | h <;> rw [h] <;> decide)
  -- a lemma for both iterators: the cells of `idx`
  have main : ∀ (A : List (List Nat)), (useVerbose p = true → alignmentMatrix w = .ok A) →
      idx.length = h → (∀ r ∈ idx, r.length = w) →
      (∀ i j, i < h → j < w → ∃ t, (cmGet p.clrMap t).isSome = true ∧ (idx.getD i []).getD j 0 = typeIndex p t
          ∧ ∀ x y, y / s - b = i → x / s - b = j → b ≤ y / s → b ≤ x / s → pixelType p M A w h s b x y = t) →
      (∀ x y, ¬ (b ≤ y / s ∧ y / s < b + h ∧ b ≤ x / s ∧ x / s < b + w) → pixelType p M A w h s b x y = Gen.TYPE_QUIET_ZONE) →
      ∃ clrMap p b idx A,
        parseColormap colormap = .ok clrMap ∧ buildPalette setOrder clrMap = .ok p ∧ borderForRange w h border = .ok b
        ∧ indexRows p M w h = .ok idx ∧ 0 < s
        ∧ (useVerbose p = true → alignmentMatrix w = .ok A)
        ∧ (p.depth = 1 ∨ p.depth = 2 ∨ p.depth = 4)
        ∧ out = { width := (w + 2 * b) * s, height := (h + 2 * b) * s, depth := p.depth,
                  ctype := if p.isGrey then 0 else 3, plte := plteBytes p, trns := trnsBytes p,
                  idat := flat (pngLines idx w p.depth s b (typeIndex p Gen.TYPE_QUIET_ZONE)) }
        ∧ (pngLines idx w p.depth s b (typeIndex p Gen.TYPE_QUIET_ZONE)).length = (h + 2 * b) * s
        ∧ (∀ l ∈ pngLines idx w p.depth s b (typeIndex p Gen.TYPE_QUIET_ZONE),
              (l.1 = 0 ∨ l.1 = 2) ∧ l.2.length = ((w + 2 * b) * s * p.depth + 7) / 8)
        ∧ ∀ x y, x < (w + 2 * b) * s → y < (h + 2 * b) * s →
            ∃ c rgba, cmGet clrMap (pixelType p M A w h s b x y) = some c
              ∧ readColour p.depth (if p.isGrey then 0 else 3) (plteBytes p) (trnsBytes p)
                  (readCode (pngLines idx w p.depth s b (typeIndex p Gen.TYPE_QUIET_ZONE)) p.depth ((w + 2 * b) * s) x y) = some rgba
              ∧ Shows c rgba := by
    intro A hA hlenidx hrowlen hcells hquiet
    have hrows : ∀ r ∈ idx, r.length = w ∧ ∀ v ∈ r, v < 2 ^ p.depth := by
      apply rows_bound idx w h _ hlenidx hrowlen
      intro i j hi hj
      obtain ⟨t, hsome, hval, _⟩ := hcells i j hi hj
      rw [hval]
      obtain ⟨c, hc⟩ := isSome_of_keys p clrMap hkeys t hsome
      exact hlt t (by rw [hc]; rfl)
    refine ⟨clrMap, p, b, idx, A, hparse, hpal, hb, hidx, hs, hA, hd, ?_, ?_, ?_, ?_⟩
    · rw [hout, pngStream_eq_flat]
    · rw [pngLines_length _ _ _ _ _ _ hs, hlenidx]
    · exact pngLines_line idx w p.depth s b _ hd hrowlen
    · intro x y hx hy
      have hcode : readCode (pngLines idx w p.depth s b (typeIndex p Gen.TYPE_QUIET_ZONE)) p.depth ((w + 2 * b) * s) x y
          = idxCell idx w b (typeIndex p Gen.TYPE_QUIET_ZONE) (y / s) (x / s) := by
        unfold readCode
        rw [recon_unpack idx w p.depth s b _ hd hs hqzlt hrows]
        exact idxPicture_pixel idx w s b _ hs x y hx (by rw [hlenidx]; exact hy)
      rw [hcode]
      by_cases hin : b ≤ y / s ∧ y / s < b + h ∧ b ≤ x / s ∧ x / s < b + w
      · obtain ⟨t, hsome, hval, htype⟩ := hcells (y / s - b) (x / s - b) (by omega) (by omega)
        have hcell : idxCell idx w b (typeIndex p Gen.TYPE_QUIET_ZONE) (y / s) (x / s) = typeIndex p t := by
          unfold idxCell
          rw [hlenidx]
          simp only [hin, and_self, if_true]
          exact hval
        rw [hcell, htype x y rfl rfl hin.1 hin.2.2.1]
        obtain ⟨c, hc⟩ := isSome_of_keys p clrMap hkeys t hsome
        obtain ⟨rgba, h1, h2⟩ := palette_sound setOrder hset clrMap p hpal t c hc
        exact ⟨c, rgba, hc, h1, h2⟩
      · have hcell : idxCell idx w b (typeIndex p Gen.TYPE_QUIET_ZONE) (y / s) (x / s) = typeIndex p Gen.TYPE_QUIET_ZONE := by
          unfold idxCell
          rw [hlenidx]
          simp only [hin, if_false]
        rw [hcell, hquiet x y hin]
        have hbpos : 0 < b := by
          have hy' : y / s < h + 2 * b := (Nat.div_lt_iff_lt_mul hs).2 hy
          have hx' : x / s < w + 2 * b := (Nat.div_lt_iff_lt_mul hs).2 hx
          clear hcell hcode
          generalize y / s = ys at hin hy'
          generalize x / s = xs at hin hx'
          omega
        obtain ⟨c, hc⟩ := isSome_of_keys p clrMap hkeys _ (hqzkey hbpos)
        obtain ⟨rgba, h1, h2⟩ := palette_sound setOrder hset clrMap p hpal _ c hc
        exact ⟨c, rgba, hc, h1, h2⟩
  by_cases hv : useVerbose p = true
  · obtain ⟨A, hA, hlenidx, hrowlen, hcells⟩ := indexRows_verbose p M w h idx hv hidx
    apply main A (fun _ => hA) hlenidx hrowlen
    · intro i j hi hj
      refine ⟨verboseCell M A w h 0 i j, (hcells i j hi hj).1, (hcells i j hi hj).2, ?_⟩
      intro x y hy hx hby hbx
      unfold pixelType
      rw [if_pos hv, verboseCell_inside M A w h b (y / s) (x / s) (by omega), hy, hx]
    · intro x y hout'
      unfold pixelType
      rw [if_pos hv]
      exact verboseCell_outside M A w h b _ _ hout'
  · have hv' : useVerbose p = false := by simpa using hv
    obtain ⟨hlenidx, hrowlen, hcells⟩ := indexRows_cheap p M w h idx hv' hM hidx
    apply main [] (fun h' => absurd h' hv) hlenidx hrowlen
    · intro i j hi hj
      obtain ⟨hle, hval⟩ := hcells i j hi hj
      refine ⟨if cellL M i j = 0 then Gen.TYPE_QUIET_ZONE else Gen.TYPE_FINDER_PATTERN_DARK, ?_, hval, ?_⟩
      · split
        · exact (hcheapkeys hv').1
        · exact (hcheapkeys hv').2
      · intro x y hy hx hby hbx
        unfold pixelType pixelOf
        rw [if_neg hv]
        simp only [hby, hbx, and_self, if_true, hy, hx]
        by_cases h0 : cellL M i j = 0 <;> simp [h0]
    · intro x y hout'
      unfold pixelType pixelOf
      rw [if_neg hv]
      by_cases hb' : b ≤ y / s ∧ b ≤ x / s
      · simp only [hb', and_self, if_true]
        rw [cellL_outside M w h _ _ hM (by omega)]
        simp
      · simp only [hb', if_false]
        simp

end Proofs.Png
