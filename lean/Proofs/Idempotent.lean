/-
  Proofs.Idempotent — re-encoding with the version / error level / mask chosen by a first call of
  `Model.encode` (boost disabled) succeeds and reproduces the identical symbol.
-/
import Model.Encoder
open Model
namespace Proofs.Idempotent
set_option linter.unusedSimpArgs false
set_option linter.unusedVariables false

/-! ### `Except` plumbing -/

theorem bind_ok_iff {ε α β : Type} (x : Except ε α) (f : α → Except ε β) (b : β) :
    (x >>= f) = .ok b ↔ ∃ a, x = .ok a ∧ f a = .ok b := by
  cases x <;> simp [bind, Except.bind]

@[local simp] theorem throw_bind' {ε α β : Type} (e : ε) (f : α → Except ε β) :
    ((throw e : Except ε α) >>= f) = throw e := rfl
@[local simp] theorem throw_ne_ok {ε α : Type} (e : ε) (a : α) : ((throw e : Except ε α) = .ok a) ↔ False := by
  simp [throw, throwThe, MonadExceptOf.throw]
@[local simp] theorem pure_eq_ok {ε α : Type} (a b : α) : ((pure a : Except ε α) = .ok b) ↔ a = b := by
  simp [pure, Except.pure]

theorem ite_throw_ok {ε α : Type} (c : Prop) [Decidable c] (e : ε) (x : Except ε α) (a : α) :
    ((if c then throw e else x) = .ok a) ↔ ¬ c ∧ x = .ok a := by
  by_cases h : c <;> simp [h]

theorem ite_else_throw_ok {ε α : Type} (c : Prop) [Decidable c] (e : ε) (x : Except ε α) (a : α) :
    ((if c then x else throw e) = .ok a) ↔ c ∧ x = .ok a := by
  by_cases h : c <;> simp [h]

def isMicroVer (version : Option Int) : Bool :=
  match version with | some v => Gen.MICRO_VERSIONS.contains v | none => false

def err' (error : Option Nat) (v : Int) : Option Nat :=
  if error.isNone && v != Gen.VERSION_M1 then some Gen.ERROR_LEVEL_L else error

def Fits (segs : List Segment) (v : Int) (eci : Bool) (e : Option Nat) : Prop :=
  ∃ cap bl, capacity v e = some cap ∧ bitLengthWithOverhead segs v eci false = some bl ∧ bl ≤ cap

/-! ### `encode` as a conjunction of its steps -/

theorem encode_ok_iff (parts : List Model.Part) (error : Option Nat) (version : Option Int) (mode : Option Nat) (mask : Option Nat)
    (eci : Bool) (micro : Option Bool) (boost : Bool) (n : String → Option Nat) (c : Model.Code) :
    Model.encode parts error version mode mask eci micro boost n = .ok c ↔
    (micro == some false && isMicroVer version) = false ∧
    (micro == some true && version.isSome && !isMicroVer version) = false ∧
    (∀ md v, mode = some md → version = some v → isModeSupported md v = some true) ∧
    (error == some Gen.ERROR_LEVEL_H && (micro == some true || isMicroVer version)) = false ∧
    (eci && (micro == some true || isMicroVer version)) = false ∧
    ∃ segs, prepareData parts = .ok segs ∧
    ∃ guessed, findVersion segs error eci (if eci && micro.isNone then some false else micro) = .ok guessed ∧
    ∃ v, (version = none ∧ v = guessed ∨ version = some v ∧ guessed ≤ v) ∧
      (v ≠ guessed → Fits segs v eci (err' error v)) ∧
      (∀ mk, mask = some mk → (decide (v < 1) && decide (mk ≥ 4) || decide (mk ≥ 8)) = false) ∧
      encodeCore segs (err' error v) v mask eci boost n = .ok c := by
  unfold Model.encode
  have herr : ∀ v : Int, (if (error.isNone && v != Gen.VERSION_M1) = true then some Gen.ERROR_LEVEL_L else error) = err' error v := fun _ => rfl
  cases version with
  | none =>
    cases mode <;> cases mask <;>
    simp only [↓throw_bind', ite_throw_ok, throw_ne_ok, pure_eq_ok, bind_ok_iff, isMicroVer, ↓pure_bind, herr, Bool.not_eq_true] <;>
    simp [ite_throw_ok]
  | some ver =>
    cases mode with
    | none =>
      cases mask <;>
      simp only [↓throw_bind', ite_throw_ok, throw_ne_ok, pure_eq_ok, bind_ok_iff, isMicroVer, ↓pure_bind, herr, Bool.not_eq_true]
      all_goals
        simp [ite_throw_ok]
        intro _ _ _ _
        refine exists_congr fun segs => and_congr_right fun _ => exists_congr fun g => and_congr_right fun _ => ?_
        simp only [and_assoc, exists_eq_left']
        refine and_congr_right fun _ => ?_
        unfold Fits
        generalize capacity ver _ = oc
        generalize bitLengthWithOverhead segs ver eci false = ob
        by_cases hvg : ver = g
        · subst hvg; simp [ite_throw_ok, and_assoc]
        · cases oc <;> cases ob <;> simp [hvg, and_assoc, ite_throw_ok, ite_else_throw_ok]
    | some md =>
      generalize hms : isModeSupported md ver = oms
      have hms' : (∀ (md' : Nat) (v : Int), some md = some md' → some ver = some v → isModeSupported md' v = some true) ↔ oms = some true := by
        constructor
        · intro h; rw [← hms]; exact h md ver rfl rfl
        · intro h md' v h1 h2; cases h1; cases h2; rw [hms]; exact h
      rw [hms']
      rcases oms with _ | _ | _ <;> cases mask <;>
      simp only [hms, ↓throw_bind', ite_throw_ok, throw_ne_ok, pure_eq_ok, bind_ok_iff, isMicroVer, ↓pure_bind, herr, Bool.not_eq_true]
      all_goals try (simp; done)
      all_goals
        simp [ite_throw_ok]
        intro _ _ _ _
        refine exists_congr fun segs => and_congr_right fun _ => exists_congr fun g => and_congr_right fun _ => ?_
        simp only [and_assoc, exists_eq_left']
        refine and_congr_right fun _ => ?_
        unfold Fits
        generalize capacity ver _ = oc
        generalize bitLengthWithOverhead segs ver eci false = ob
        by_cases hvg : ver = g
        · subst hvg; simp [ite_throw_ok, and_assoc]
        · cases oc <;> cases ob <;> simp [hvg, and_assoc, ite_throw_ok, ite_else_throw_ok]

/-! ### `_encode` split at the mask selection -/

theorem encodeCore_boost (segs : List Segment) (e : Option Nat) (v : Int) (mask : Option Nat) (eci boost : Bool)
    (n : String → Option Nat) :
    encodeCore segs e v mask eci boost n =
      (if boost then boostErrorLevel v e segs eci false else pure e) >>= fun e'' =>
        encodeCore segs e'' v mask eci false n := by
  cases boost
  · rfl
  · rfl

/-- everything of `_encode` up to (excluding) the mask selection -/
def preMatrix (segs : List Segment) (e : Option Nat) (v : Int) (eci : Bool) (n : String → Option Nat) : R Matrix := do
  let segBits ← segs.mapM (fun s => writeSegment s v eci n)
  match capacity v e with
  | some cap => do
    let stream ← finishStream ([] ++ segBits.flatten) v cap
    let final ← makeFinalMessage v e stream
    let sz := (Gen.calc_matrix_size v).toNat
    let m0 ← addAlignmentPatterns (addFinderPatterns (makeMatrix sz) sz) sz
    addCodewords m0 final v
  | none => throw PyErr.keyError

theorem encodeCore_false (segs : List Segment) (e : Option Nat) (v : Int) (mask : Option Nat) (eci : Bool)
    (n : String → Option Nat) :
    encodeCore segs e v mask eci false n =
      preMatrix segs e v eci n >>= fun m1 =>
      findAndApplyBestMask m1 mask >>= fun x =>
      addFormatInfo x.2 v e x.1 >>= fun m3 =>
      addVersionInfo m3 v >>= fun m4 =>
      pure { matrix := m4, version := v, error := e, mask := x.1, segments := segs } := by
  unfold encodeCore preMatrix
  cases hoc : capacity v e <;> simp [hoc, bind_assoc]

/-! ### matrix size -/

theorem size_set2 (m : Matrix) (i j x : Nat) : (set2 m i j x).size = m.size := by
  simp [set2]

theorem size_foldl {α : Type} (f : Matrix → α → Matrix) (hf : ∀ m a, (f m a).size = m.size)
    (l : List α) (m : Matrix) : (l.foldl f m).size = m.size := by
  induction l generalizing m with
  | nil => rfl
  | cons a l ih => simp [List.foldl_cons, ih, hf]

theorem size_makeMatrix (n : Nat) : (makeMatrix n).size = n := by
  unfold makeMatrix
  simp only []
  split <;> rw [size_foldl] <;> try rw [size_foldl] 
  all_goals first
    | (intro m a; split <;> simp [size_set2])
    | (intro m a; simp [size_set2])
    | skip
  all_goals split
  all_goals first
    | (rw [size_foldl]; simp; intro m a; simp [size_set2])
    | simp

theorem size_addFinderPatterns (m : Matrix) (n : Nat) : (addFinderPatterns m n).size = m.size := by
  unfold addFinderPatterns
  apply size_foldl
  intro m a
  apply size_foldl
  intro m a
  apply size_foldl
  intro m a
  apply size_set2

theorem size_addAlignmentPatterns (m m' : Matrix) (n : Nat) (h : addAlignmentPatterns m n = .ok m') :
    m'.size = m.size := by
  unfold addAlignmentPatterns at h
  simp only [bind_ok_iff, pure_eq_ok] at h
  split at h
  · simp only [pure_eq_ok] at h; rw [← h]
  · split at h
    · split at h
      · split at h
        · simp only [pure_eq_ok] at h
          rw [← h]
          apply size_foldl
          intro m a
          split
          · rfl
          · apply size_foldl
            intro m a
            apply size_foldl
            intro m a
            apply size_set2
        · simp at h
      · simp at h
    · simp at h

theorem size_fst_foldl {α β : Type} (f : Matrix × β → α → Matrix × β) (hf : ∀ p a, (f p a).1.size = p.1.size)
    (l : List α) (p : Matrix × β) : (l.foldl f p).1.size = p.1.size := by
  induction l generalizing p with
  | nil => rfl
  | cons a l ih => simp [List.foldl_cons, ih, hf]

theorem size_addCodewords (m m' : Matrix) (bits : List Nat) (v : Int) (h : addCodewords m bits v = .ok m') :
    m'.size = m.size := by
  unfold addCodewords at h
  simp only [] at h
  split at h
  · simp only [pure_eq_ok] at h
    subst h
    refine size_fst_foldl _ ?_ _ (m, bits)
    intro p a
    split
    · rfl
    · split
      · apply size_set2
      · rfl
  · simp at h

/-! ### mask selection -/

/-- invariant of the candidate fold in `find_and_apply_best_mask` -/
theorem foldl_inv {α β : Type} (P : β → Prop) (f : β → α → β) (l : List α)
    (hf : ∀ b a, a ∈ l → P b → P (f b a)) (b : β) (hb : P b) : P (l.foldl f b) := by
  induction l generalizing b with
  | nil => exact hb
  | cons a l ih =>
    simp only [List.foldl_cons]
    exact ih (fun b a' ha' => hf b a' (List.mem_cons_of_mem _ ha')) _ (hf b a (List.mem_cons_self ..) hb)

theorem fabm_idem (m : Matrix) (mask : Option Nat) (k : Nat) (m2 : Matrix)
    (h : findAndApplyBestMask m mask = .ok (k, m2)) :
    findAndApplyBestMask m (some k) = .ok (k, m2) ∧ k < (maskPatterns (decide (m.size < 21))).length := by
  unfold findAndApplyBestMask at h ⊢
  simp only [bind_ok_iff] at h ⊢
  obtain ⟨fm, hfm, h⟩ := h
  have key : ∃ pat, (maskPatterns (decide (m.size < 21)))[k]? = some pat ∧ m2 = applyMask m fm pat := by
    cases mask with
    | some p =>
      simp only [] at h
      split at h
      · rename_i pat hp
        simp only [pure_eq_ok, Prod.mk.injEq] at h
        obtain ⟨rfl, rfl⟩ := h
        exact ⟨pat, hp, rfl⟩
      · simp at h
    | none =>
      simp only [] at h
      split at h
      · rename_i s k' bm hbest
        simp only [pure_eq_ok, Prod.mk.injEq] at h
        obtain ⟨rfl, rfl⟩ := h
        revert hbest
        generalize hP : (fun (best : Option (Nat × Nat × Matrix)) => ∀ s k bm, best = some (s, k, bm) →
          ∃ pat, (maskPatterns (decide (m.size < 21)))[k]? = some pat ∧ bm = applyMask m fm pat) = P
        suffices hs : P (List.foldl _ none (maskPatterns (decide (m.size < 21))).zipIdx) by
          intro hbest; rw [← hP] at hs; exact hs _ _ _ hbest
        apply foldl_inv P
        · intro b a ha hb
          rw [← hP] at hb ⊢
          obtain ⟨pat, j⟩ := a
          have hj := List.mem_zipIdx_iff_getElem?.1 ha
          simp only [] at hj
          intro s k bm hh
          split at hh
          · simp only [Option.some.injEq, Prod.mk.injEq] at hh
            obtain ⟨_, rfl, rfl⟩ := hh
            exact ⟨pat, hj, rfl⟩
          · split at hh <;> split at hh <;>
            first
              | exact hb _ _ _ hh
              | (simp only [Option.some.injEq, Prod.mk.injEq] at hh
                 obtain ⟨_, rfl, rfl⟩ := hh
                 exact ⟨pat, hj, rfl⟩)
        · rw [← hP]; intro s k bm hh; cases hh
      · simp at h
  obtain ⟨pat, hp, rfl⟩ := key
  refine ⟨⟨fm, hfm, ?_⟩, ?_⟩
  · simp only [hp]; rfl
  · exact (List.getElem?_eq_some_iff.1 hp).1

/-! ### `find_version` and `boost_error_level` -/

def maxV (micro : Option Bool) : Int := if micro == some true then Gen.VERSION_M4 else 40

def minV1R (segs : List Segment) (micro : Option Bool) : R Int :=
  if (if micro != some false then Gen.VERSION_M1 else 1 : Int) < 1 then
      match segs.mapM (fun s => findMinimumVersionForMode s.mode) with
      | none => throw PyErr.valueError
      | some [] => throw PyErr.valueError
      | some (x :: xs) => pure (xs.foldl max x)
    else pure (if micro != some false then Gen.VERSION_M1 else 1)

def fitsB (segs : List Segment) (eci : Bool) (error : Option Nat) (v : Int) : Bool :=
    match capacity v (err' error v), bitLengthWithOverhead segs v eci false with
    | some cap, some bl => cap ≥ bl
    | _, _ => false

theorem findVersion_eq (segs : List Segment) (error : Option Nat) (eci : Bool) (micro : Option Bool) :
    findVersion segs error eci micro =
      (if eci && micro == some true then throw PyErr.assertionError else
        minV1R segs micro >>= fun minV1 =>
        match (intRange (if error.isSome && micro != some false then Gen.VERSION_M2 else minV1) (maxV micro)).find?
            (fitsB segs eci error) with
        | some v => pure v
        | none => throw PyErr.dataOverflow) := by
  unfold findVersion minV1R
  by_cases h1 : (eci && micro == some true) = true
  · simp only [h1, if_true]; rfl
  · simp only [h1, if_false]
    by_cases h2 : (if (micro != some false) = true then Gen.VERSION_M1 else 1 : Int) < 1
    · simp only [h2, if_true]
      cases hm : List.mapM (fun s => findMinimumVersionForMode s.mode) segs with
      | none => rfl
      | some l =>
        cases l with
        | nil => rfl
        | cons x xs => rfl
    · simp only [h2, if_false]; rfl

theorem fitsB_iff (segs : List Segment) (eci : Bool) (error : Option Nat) (v : Int) :
    fitsB segs eci error v = true ↔ Fits segs v eci (err' error v) := by
  unfold fitsB Fits
  generalize capacity v _ = oc
  generalize bitLengthWithOverhead segs v eci false = ob
  cases oc <;> cases ob <;> simp

theorem findVersion_ok_iff (segs : List Segment) (error : Option Nat) (eci : Bool) (micro : Option Bool) (g : Int) :
    findVersion segs error eci micro = .ok g ↔
      (eci && micro == some true) = false ∧ ∃ minV1, minV1R segs micro = .ok minV1 ∧
        (intRange (if error.isSome && micro != some false then Gen.VERSION_M2 else minV1) (maxV micro)).find?
            (fitsB segs eci error) = some g := by
  rw [findVersion_eq]
  simp only [ite_throw_ok, bind_ok_iff, Bool.not_eq_true]
  refine and_congr_right fun _ => exists_congr fun minV1 => and_congr_right fun _ => ?_
  split
  · rename_i h; simp only [h, pure_eq_ok, Option.some.injEq]
  · rename_i h; simp only [h, throw_ne_ok, reduceCtorEq]

theorem minV1R_false (segs : List Segment) (m : Int) (h : minV1R segs (some false) = .ok m) : m = 1 := by
  unfold minV1R at h
  simp at h
  exact h.symm

theorem mem_intRange (lo hi v : Int) : v ∈ intRange lo hi ↔ lo ≤ v ∧ v ≤ hi := by
  unfold intRange
  simp only [List.mem_map, List.mem_range]
  constructor
  · rintro ⟨k, hk, rfl⟩
    simp only [Int.ofNat_eq_natCast]
    omega
  · intro h
    refine ⟨(v - lo).toNat, by omega, ?_⟩
    simp only [Int.ofNat_eq_natCast]
    omega

theorem pairwise_intRange (lo hi : Int) : (intRange lo hi).Pairwise (· < ·) := by
  unfold intRange
  rw [List.pairwise_map]
  refine List.Pairwise.imp ?_ List.pairwise_lt_range
  intro a b hab
  simp only [Int.ofNat_eq_natCast]
  omega

theorem find?_le_of_pairwise (p : Int → Bool) (l : List Int) (hl : l.Pairwise (· < ·)) (v : Int)
    (hv : v ∈ l) (hp : p v = true) : ∃ g, l.find? p = some g ∧ g ≤ v := by
  induction l with
  | nil => cases hv
  | cons a l ih =>
    rw [List.pairwise_cons] at hl
    by_cases ha : p a = true
    · refine ⟨a, by simp [List.find?_cons, ha], ?_⟩
      rcases List.mem_cons.1 hv with rfl | hv'
      · exact Int.le_refl _
      · exact Int.le_of_lt (hl.1 v hv')
    · rcases List.mem_cons.1 hv with rfl | hv'
      · exact absurd hp ha
      · obtain ⟨g, hg, hle⟩ := ih hl.2 hv'
        exact ⟨g, by simp [List.find?_cons, ha, hg], hle⟩

theorem go_inv (v : Int) (dataLen : Nat) (ls : List Nat) (cur r : Nat)
    (h : boostErrorLevel.go v dataLen cur ls = .ok r) :
    r = cur ∨ ∃ cap, capacity v (some r) = some cap ∧ dataLen ≤ cap := by
  induction ls generalizing cur with
  | nil => 
    unfold boostErrorLevel.go at h
    simp only [pure_eq_ok] at h
    exact Or.inl h.symm
  | cons l ls ih =>
    unfold boostErrorLevel.go at h
    split at h
    · simp at h
    · rename_i cap hcap
      split at h
      · rename_i hge
        rcases ih l h with rfl | h'
        · exact Or.inr ⟨cap, hcap, hge⟩
        · exact Or.inr h'
      · simp only [pure_eq_ok] at h
        exact Or.inl h.symm

theorem boost_inv (v : Int) (e r : Option Nat) (segs : List Segment) (eci : Bool)
    (h : boostErrorLevel v e segs eci false = .ok r) :
    r = e ∨ (r.isSome ∧ Fits segs v eci r) := by
  unfold boostErrorLevel at h
  split at h
  · simp only [pure_eq_ok] at h; exact Or.inl h.symm
  · rename_i e0
    split at h
    · simp only [pure_eq_ok] at h; exact Or.inl h.symm
    · simp only [] at h
      generalize (if v < 1 then _ else _ : List Nat) = levels at h
      split at h
      · rename_i dataLen hbl
        split at h
        · simp at h
        · simp only [bind_ok_iff, pure_eq_ok] at h
          obtain ⟨r', hgo, rfl⟩ := h
          rcases go_inv _ _ _ _ _ hgo with rfl | ⟨cap, hcap, hle⟩
          · exact Or.inl rfl
          · exact Or.inr ⟨rfl, cap, dataLen, hcap, hbl, hle⟩
      · simp at h

/-! ### facts read off the generated tables (re-checked against `Gen` on every run) -/

theorem symbol_capacity_facts :
    Gen.SYMBOL_CAPACITY.all (fun x =>
      decide (-3 ≤ x.1) && decide (x.1 ≤ 40) && (x.2.1 != 2 || decide (1 ≤ x.1)) &&
      (x.1 != -3 || x.2.1 == -1)) = true := by
  decide +kernel

theorem capacity_mem (v : Int) (e : Option Nat) (cap : Nat) (h : capacity v e = some cap) :
    (v, lvlKey e, cap) ∈ Gen.SYMBOL_CAPACITY := by
  unfold capacity lookup2 at h
  rw [Option.map_eq_some_iff] at h
  obtain ⟨x, hx, rfl⟩ := h
  have hp := List.find?_some hx
  have hm := List.mem_of_find?_eq_some hx
  simp only [Bool.and_eq_true, beq_iff_eq] at hp
  obtain ⟨x1, x2, x3⟩ := x
  simp only [] at hp
  obtain ⟨rfl, rfl⟩ := hp
  exact hm

theorem capacity_facts (v : Int) (e : Option Nat) (cap : Nat) (h : capacity v e = some cap) :
    -3 ≤ v ∧ v ≤ 40 ∧ (e = some Gen.ERROR_LEVEL_H → 1 ≤ v) ∧ (e.isSome = true → v ≠ -3) := by
  have hm := capacity_mem v e cap h
  have := List.all_eq_true.1 symbol_capacity_facts _ hm
  simp only [Bool.and_eq_true, Bool.or_eq_true, decide_eq_true_eq, bne_iff_ne, ne_eq, beq_iff_eq] at this
  obtain ⟨⟨⟨h1, h2⟩, h3⟩, h4⟩ := this
  refine ⟨h1, h2, ?_, ?_⟩
  · rintro rfl
    simp only [lvlKey, Gen.ERROR_LEVEL_H] at h3
    omega
  · intro hs
    cases e with
    | none => cases hs
    | some x =>
      simp only [lvlKey] at h4
      omega

theorem micro_contains (v : Int) : Gen.MICRO_VERSIONS.contains v = true ↔ -3 ≤ v ∧ v ≤ 0 := by
  simp only [Gen.MICRO_VERSIONS, List.contains_eq_mem, List.mem_cons, List.not_mem_nil, or_false,
    decide_eq_true_eq]
  omega

theorem preMatrix_size (segs : List Segment) (e : Option Nat) (v : Int) (eci : Bool) (n : String → Option Nat)
    (m1 : Matrix) (h : preMatrix segs e v eci n = .ok m1) : m1.size = (Gen.calc_matrix_size v).toNat := by
  unfold preMatrix at h
  simp only [bind_ok_iff] at h
  obtain ⟨segBits, _, h⟩ := h
  split at h
  · simp only [bind_ok_iff] at h
    obtain ⟨_, _, _, _, m0, hm0, h⟩ := h
    rw [size_addCodewords _ _ _ _ h, size_addAlignmentPatterns _ _ _ hm0, size_addFinderPatterns, size_makeMatrix]
  · simp at h

theorem mask_bound (v : Int) (sz k : Nat) (hsz : sz = (Gen.calc_matrix_size v).toNat)
    (hk : k < (maskPatterns (decide (sz < 21))).length) : k < 8 ∧ (v < 1 → k < 4) := by
  unfold maskPatterns at hk
  constructor
  · split at hk
    · simp [Gen.maskOrderMicro] at hk; omega
    · simp [Gen.maskOrderQR] at hk; omega
  · intro hv
    have : sz < 21 := by
      rw [hsz]
      unfold Gen.calc_matrix_size
      have : ¬ (v > 0) := by omega
      simp only [this, decide_false]
      simp
      omega
    simp [this, Gen.maskOrderMicro] at hk
    exact hk

/-! ### main theorem -/

theorem err'_eq_none (error : Option Nat) (v : Int) (h : err' error v = none) :
    error = none ∧ v = Gen.VERSION_M1 := by
  unfold err' at h
  split at h
  · cases h
  · rename_i hc
    subst h
    simpa using hc

theorem reencode_idempotent_core
    (parts : List Model.Part) (error : Option Nat) (version : Option Int) (mode : Option Nat) (mask : Option Nat)
    (eci : Bool) (micro : Option Bool) (boost : Bool) (n : String → Option Nat) (c : Model.Code)
    (h : Model.encode parts error version mode mask eci micro boost n = .ok c)
    (hmode : mode = none ∨ version.isSome = true ∨ ∃ md, mode = some md ∧ Model.isModeSupported md c.version = some true) :
    ∃ c', Model.encode parts c.error (some c.version) mode (some c.mask) eci micro false n = .ok c'
          ∧ c'.matrix = c.matrix ∧ c'.version = c.version ∧ c'.error = c.error ∧ c'.mask = c.mask := by
  rw [encode_ok_iff] at h
  obtain ⟨h1, h2, h3, h4, h5, segs, hsegs, g, hg, v, hv, hfit, hmask, hcore⟩ := h
  rw [encodeCore_boost] at hcore
  obtain ⟨e2, hboost, hcore⟩ := (bind_ok_iff _ _ _).1 hcore
  have hcore0 := hcore
  rw [encodeCore_false] at hcore
  simp only [bind_ok_iff, pure_eq_ok] at hcore
  obtain ⟨m1, hpre, ⟨k, m2⟩, hfabm, m3, hfmt, m4, hver, rfl⟩ := hcore
  simp only [] at hmode hfmt hver ⊢
  -- the first `find_version` call
  generalize hmicro' : (if (eci && micro.isNone) = true then some false else micro) = micro' at hg
  obtain ⟨hchk, minV1, hmin, hfind⟩ := (findVersion_ok_iff _ _ _ _ _).1 hg
  have hgfit : Fits segs g eci (err' error g) := (fitsB_iff _ _ _ _).1 (List.find?_some hfind)
  have hgmem := (mem_intRange _ _ _).1 (List.mem_of_find?_eq_some hfind)
  have hgv : g ≤ v := by
    rcases hv with ⟨_, rfl⟩ | ⟨_, hle⟩
    · exact Int.le_refl _
    · exact hle
  -- the chosen version fits at the chosen level
  have hfit0 : Fits segs v eci (err' error v) := by
    by_cases hvg : v = g
    · rw [hvg]; exact hgfit
    · exact hfit hvg
  have he2 : e2 = err' error v ∨ (e2.isSome = true ∧ Fits segs v eci e2) := by
    cases boost
    · simp only [Bool.false_eq_true, if_false, pure_eq_ok] at hboost
      exact Or.inl hboost.symm
    · simp only [if_true] at hboost
      exact boost_inv _ _ _ _ _ hboost
  have hFe2 : Fits segs v eci e2 := by
    rcases he2 with rfl | ⟨_, h⟩
    · exact hfit0
    · exact h
  obtain ⟨cap, bl, hcap, hbl, hle⟩ := hFe2
  obtain ⟨hvlo, hvhi, hvH, hvS⟩ := capacity_facts _ _ _ hcap
  have hFe2 : Fits segs v eci e2 := ⟨cap, bl, hcap, hbl, hle⟩
  have herr2 : err' e2 v = e2 := by
    cases e2 with
    | none =>
      rcases he2 with h | ⟨h, _⟩
      · obtain ⟨_, rfl⟩ := err'_eq_none _ _ h.symm
        simp [err']
      · cases h
    | some l => simp [err']
  have hmicro_true : micro' = some true → micro = some true := by
    intro hm
    rw [← hmicro'] at hm
    split at hm
    · cases hm
    · exact hm
  have hA : micro' = some false → 1 ≤ v := by
    intro hm; subst hm
    have := minV1R_false _ _ hmin; subst this
    simp at hgmem
    omega
  have hB : micro = some true → v ≤ 0 := by
    intro hm; subst hm
    have : micro' = some true := by rw [← hmicro']; simp
    subst this
    rcases hv with ⟨hvn, rfl⟩ | ⟨hvs, _⟩
    · simp [maxV, Gen.VERSION_M4] at hgmem; omega
    · subst hvs; simp [isMicroVer] at h2; exact ((micro_contains v).1 (by simp [h2])).2
  have hfv2 : ∃ g', findVersion segs e2 eci micro' = .ok g' ∧ g' ≤ v := by
    cases e2 with
    | none => 
      rcases he2 with h | ⟨h, _⟩
      · obtain ⟨rfl, _⟩ := err'_eq_none _ _ h.symm; exact ⟨g, hg, hgv⟩
      · cases h
    | some l =>
      have hv3 : v ≠ -3 := hvS rfl
      have hmemv : v ∈ intRange (if ((some l).isSome && micro' != some false) = true then Gen.VERSION_M2 else minV1)
          (maxV micro') := by
        rw [mem_intRange]; constructor
        · by_cases hmf : micro' = some false
          · subst hmf; simp at hgmem ⊢; omega
          · have : (micro' != some false) = true := by simpa using hmf
            simp [this, Gen.VERSION_M2]; omega
        · unfold maxV; split
          · rename_i hmt
            have := hB (hmicro_true (by simpa using hmt))
            simp [Gen.VERSION_M4]; omega
          · exact hvhi
      have hp : fitsB segs eci (some l) v = true := (fitsB_iff _ _ _ _).2 (by rw [herr2]; exact hFe2)
      obtain ⟨g', hg', hle'⟩ := find?_le_of_pairwise _ _ (pairwise_intRange _ _) v hmemv hp
      exact ⟨g', (findVersion_ok_iff _ _ _ _ _).2 ⟨hchk, minV1, hmin, hg'⟩, hle'⟩
  obtain ⟨g', hg', hg'v⟩ := hfv2
  have hmf : micro = some false → 1 ≤ v := by
    intro hm; apply hA; rw [← hmicro', hm]; simp
  have hE : eci = true → 1 ≤ v ∧ micro ≠ some true := by
    intro he; subst he
    have hmt : micro ≠ some true := by
      intro hm; subst hm; simp at h5
    refine ⟨?_, hmt⟩
    apply hA
    rw [← hmicro']
    rcases micro with _ | _ | _
    · simp
    · simp
    · exact absurd rfl hmt
  have hnc : 1 ≤ v → isMicroVer (some v) = false := by
    intro h1v
    cases hc : isMicroVer (some v)
    · rfl
    · have := (micro_contains v).1 hc; omega
  have hyc : v ≤ 0 → isMicroVer (some v) = true := fun h0 => (micro_contains v).2 ⟨hvlo, h0⟩
  refine ⟨{ matrix := m4, version := v, error := e2, mask := k, segments := segs },
    (encode_ok_iff _ _ _ _ _ _ _ _ _ _).2 ⟨?chkA, ?chkB, ?chkC, ?chkD, ?chkE, segs, hsegs, g', by rw [hmicro']; exact hg', v,
    Or.inr ⟨rfl, hg'v⟩, ?chkFit, ?chkMask, ?chkCore⟩, rfl, rfl, rfl, rfl⟩
  case chkFit => intro _; rw [herr2]; exact hFe2
  case chkCore =>
    rw [herr2, encodeCore_false]
    simp only [bind_ok_iff, pure_eq_ok]
    exact ⟨m1, hpre, (k, m2), (fabm_idem _ _ _ _ hfabm).1, m3, hfmt, m4, hver, rfl⟩
  case chkMask =>
    intro mk hmk
    cases hmk
    have := mask_bound v m1.size k (preMatrix_size _ _ _ _ _ _ hpre) (fabm_idem _ _ _ _ hfabm).2
    simp
    omega
  case chkA =>
    rcases micro with _ | _ | _
    · rfl
    · simp [hnc (hmf rfl)]
    · rfl
  case chkB =>
    rcases micro with _ | _ | _
    · rfl
    · rfl
    · simp [hyc (hB rfl)]
  case chkC =>
    intro md v' hmd hv'
    cases hv'
    rcases hmode with hm | hs | ⟨md', hm, hsup⟩
    · rw [hm] at hmd; cases hmd
    · rcases hv with ⟨hn, _⟩ | ⟨hs', _⟩
      · rw [hn] at hs; cases hs
      · exact h3 md v hmd hs'
    · rw [hm] at hmd; cases hmd; exact hsup
  case chkD =>
    by_cases he : e2 = some Gen.ERROR_LEVEL_H
    · have h1v := hvH he
      have hmt : (micro == some true) = false := by
        rcases micro with _ | _ | _
        · rfl
        · rfl
        · have := hB rfl; omega
      simp [hmt, hnc h1v]
    · have : (e2 == some Gen.ERROR_LEVEL_H) = false := by simpa using he
      simp [this]
  case chkE =>
    cases eci
    · rfl
    · obtain ⟨h1v, hmt⟩ := hE rfl
      simp [hnc h1v]
      exact hmt

end Proofs.Idempotent

-- checked: 'Proofs.Idempotent.reencode_idempotent_core' depends on axioms: [propext, Classical.choice, Quot.sound]
-- #print axioms Proofs.Idempotent.reencode_idempotent_core
