/-
  Proofs.VectorAccept — C10: assembling the layers (token level, geometry, coverage) into
  "the judge accepts the model's SVG path".  Mathlib-free.
-/
import Proofs.VectorAcceptCover

namespace Proofs.VectorAccept
open Spec.Vector Model.Lines Proofs.Lines

def black : Color := { r := 0, g := 0, b := 0 }

theorem black_same : black.same black = true := by decide +kernel

theorem absQ_nonneg (x : Rat) : 0 ≤ absQ x := by
  unfold absQ; split
  · rename_i h; have := Rat.neg_le_neg (Rat.le_of_lt h); simpa using this
  · rename_i h; exact Rat.not_lt.mp h

theorem closeTo_self (P : Rat) : closeTo P P = true := by
  unfold closeTo
  rw [Rat.sub_self]
  have h0 : absQ 0 = 0 := by decide +kernel
  have h1 : (0 : Rat) ≤ relTol := by decide +kernel
  rw [h0]
  exact decide_eq_true (Rat.mul_nonneg h1 (absQ_nonneg P))

theorem checkPaints_single (w : Want) (cover : Rect → Bool) (rs : List Rect) (c d : Color)
    (hd : w.dark = some d) (hl : w.light = none) (hs : d.same c = true) :
    checkPaints w cover [Paint.stroke rs c] = .ok rs := by
  unfold checkPaints
  simp [List.forIn_cons, hd, hl, hs]
  rfl

/-- the common judgement on one stroke paint whose rectangles are the model's runs -/
theorem judgePaints_model (m : List (List Nat)) (b : Nat) (s : Rat) (hs : 0 < s)
    (hsq : ∀ row ∈ m, row.length = m.length) :
    judgePaints { m := m, size := m.length, b := b, s := s, dark := some black, light := none }
        (some (((m.length + 2 * b : Nat) : Rat) * s, ((m.length + 2 * b : Nat) : Rat) * s)) false 0 0
        [Paint.stroke ((toInt (attach 2 (2 * (b : Int) - 1) (rowsGo b 1 m))).map (rectOf s)) black]
      = .ok (segsFrom b (rowsGo b 1 m)) := by
  unfold judgePaints
  simp only [closeTo_self, Bool.and_self, Bool.not_true, Bool.false_eq_true, if_false]
  rw [checkPaints_single _ _ _ black black rfl rfl black_same]
  simp only [bind, Except.bind]
  have hgood := attach_good b m.length (m.length + 2 * b) (by omega) (rowsGo b 1 m)
    (rowsGo_ok b m.length m hsq 1) b (by rw [rowsGo_length]; omega)
  rw [gridSegs_lines s hs _ _ hgood, filterMap_lineSeg_attach]
  simp only []
  rw [checkCoverage_ok _ black rfl _ (fun r hr => model_cover m b hsq r hr)]
  rfl

end Proofs.VectorAccept
