/-
  Proofs.TieA3Kanji — `make_segment`, kanji and hanzi mode: the loop over `range(0, n, 2)` reading `segment_data[i]` and
  `segment_data[i + 1]` (`Py.index`), the trail byte / code range checks with their `ValueError`s and 13 bits per pair, against
  `(Model.pairs data).mapM …` followed by `.flatten` — for every byte string of even length, the first failing pair decides on
  both sides (`pair_loop`: a `Py.foldlM` that may raise against `List.mapM`).  The kanji loop is also the code's last `else`: it
  runs for every requested mode number other than 1, 2, 4, 13 (`make_segment_kanji_py` takes the mode number as a parameter).
  `makeSegment_eq'` names the two per-pair functions of the model (`hanziGroup`, `kanjiGroup`; definitional unfolding).
  `findMode_cases`: `find_mode` returns 1, 2, 4 or 8; `findMode_kanji_even`: kanji only for an even number of bytes.
-/
import Proofs.TieA3Alnum

set_option linter.unusedSimpArgs false

namespace Proofs.TieA3
open Gen.Py Proofs.TieA Proofs.TieA2 Model

/-- the bits of one pair of `Model.makeSegment` in hanzi mode -/
def hanziGroup : Nat × Nat → R (List Nat) := fun (hi, lo) => do
      let code := hi * 256 + lo
      if !(0xa1 ≤ lo && lo ≤ 0xfe) then throw PyErr.valueError
      let diff ← if 0xa1a1 ≤ code && code ≤ 0xaafe then pure (code - 0xa1a1)
                 else if 0xb0a1 ≤ code && code ≤ 0xfafe then pure (code - 0xa6a1)
                 else throw PyErr.valueError
      pure (Model.appendBits ((diff >>> 8) * 0x60 + (diff &&& 0xff)) 13)

/-- the bits of one pair of `Model.makeSegment` in kanji mode -/
def kanjiGroup : Nat × Nat → R (List Nat) := fun (hi, lo) => do
      let code := hi * 256 + lo
      if !isSjisTrail lo then throw PyErr.valueError
      let diff ← if 0x8140 ≤ code && code ≤ 0x9ffc then pure (code - 0x8140)
                 else if 0xe040 ≤ code && code ≤ 0xebbf then pure (code - 0xc140)
                 else throw PyErr.valueError
      pure (Model.appendBits ((diff >>> 8) * 0xc0 + (diff &&& 0xff)) 13)

/-- `Model.makeSegment` with the two functions of a pair named -/
def makeSegment' (data : List Nat) (mode : Option Nat) (encoding : String) : R Segment := do
  let len := data.length
  let guessed := if mode != some Gen.MODE_BYTE then findMode data else Gen.MODE_BYTE
  let segMode ← match mode with
    | some m => if m < guessed then throw PyErr.valueError else pure m
    | none => pure guessed
  let segEnc := if segMode != Gen.MODE_BYTE then none else some encoding
  let isDouble := segMode == Gen.MODE_KANJI || segMode == Gen.MODE_HANZI
  let charCount := if isDouble then len / 2 else len
  if isDouble && len % 2 != 0 then throw PyErr.valueError
  if segMode == Gen.MODE_NUMERIC then
    let bits := ((chunks 3 len data).map (fun c => Model.appendBits (digitsVal c) (c.length * 3 + 1))).flatten
    return { bits := bits, charCount := charCount, mode := segMode, encoding := segEnc }
  else if segMode == Gen.MODE_ALPHANUMERIC then
    let bits := ((chunks 2 len data).map (fun c =>
      match c with
      | [a, b] => Model.appendBits (alnumIndex a * 45 + alnumIndex b) 11
      | [a] => Model.appendBits (alnumIndex a) 6
      | _ => [])).flatten
    return { bits := bits, charCount := charCount, mode := segMode, encoding := segEnc }
  else if segMode == Gen.MODE_BYTE then
    return { bits := (data.map (fun b => Model.appendBits b 8)).flatten, charCount := charCount, mode := segMode, encoding := segEnc }
  else if segMode == Gen.MODE_HANZI then
    let groups ← (pairs data).mapM hanziGroup
    return { bits := groups.flatten, charCount := charCount, mode := segMode, encoding := segEnc }
  else
    let groups ← (pairs data).mapM kanjiGroup
    return { bits := groups.flatten, charCount := charCount, mode := segMode, encoding := segEnc }

theorem makeSegment_eq' (data : List Nat) (mode : Option Nat) (encoding : String) :
    Model.makeSegment data mode encoding = makeSegment' data mode encoding := by
  rfl

theorem toR_bind {α β : Type} (x : M α) (f : α → M β) :
    toR (Gen.Py.bind x f) = (toR x) >>= (fun a => toR (f a)) := by
  cases x <;> rfl

/-- a loop that may raise against `mapM` -/
theorem pair_loop (body : List Int → Int → M (List Int)) (φ : Nat → Int) (step : Nat → R (List Nat))
    (L : List Nat) (hstep : ∀ acc, ∀ j ∈ L, toR (body (toI acc) (φ j)) = (step j).map (fun bs => toI (acc ++ bs))) :
    ∀ acc, toR (foldlM (L.map φ) (toI acc) body) = (L.mapM step).map (fun gs => toI (acc ++ gs.flatten)) := by
  induction L with
  | nil => intro acc; simp [Except.map, Pure.pure, Except.pure]
  | cons j t ih =>
    intro acc
    have h := hstep acc j (by simp)
    have ih' := ih (fun acc' j' hj' => hstep acc' j' (by simp [hj']))
    rw [List.map_cons, foldlM_cons, List.mapM_cons]
    cases hb : body (toI acc) (φ j) with
    | error e =>
      rw [hb] at h
      cases hs : step j with
      | error e' => rw [hs] at h; simpa [toR, Except.map, Except.mapError, Bind.bind, Except.bind] using h
      | ok bs => rw [hs] at h; cases h
    | ok v =>
      rw [hb] at h
      cases hs : step j with
      | error e' => rw [hs] at h; cases h
      | ok bs =>
        rw [hs] at h
        have hv : v = toI (acc ++ bs) := by simpa [toR, Except.map, Except.mapError] using h
        subst hv
        simp only []
        rw [ih' (acc ++ bs)]
        cases List.mapM step t <;> simp [Except.map, Bind.bind, Except.bind, Pure.pure, Except.pure, List.append_assoc]

theorem pairs_eq_range : ∀ (n : Nat) (l : List Nat), l.length ≤ n →
    pairs l = (List.range (l.length / 2)).map (fun j => (l.getD (2 * j) 0, l.getD (2 * j + 1) 0)) := by
  intro n
  induction n with
  | zero =>
    intro l h
    have : l = [] := List.eq_nil_of_length_eq_zero (by omega)
    subst this
    rfl
  | succ n ih =>
    intro l h
    match l, h with
    | [], _ => rfl
    | [a], _ => simp [pairs]
    | a :: b :: rest, h =>
      have hp : pairs (a :: b :: rest) = (a, b) :: pairs rest := rfl
      rw [hp, ih rest (by simp only [List.length_cons] at h; omega)]
      have e : (a :: b :: rest).length / 2 = rest.length / 2 + 1 := by simp only [List.length_cons]; omega
      rw [e, List.range_succ_eq_map, List.map_cons, List.map_map]
      congr 1

theorem index_toI (data : List Nat) (k : Nat) (i : Int) (hi : i = (k : Int)) (hk : k < data.length) :
    index (toI data) i = .ok ((data.getD k 0 : Nat) : Int) := by
  subst hi
  unfold index
  have h1 : (0 : Int) ≤ (k : Int) ∧ (k : Int) < ((toI data).length : Int) := by rw [toI_length]; omega
  simp [h1, toI, hk]

theorem code_eq (a b : Nat) (hb : b < 256) : bor ((a : Int) * 256) (b : Int) = ((a * 256 + b : Nat) : Int) := by
  have e : (a : Int) * 256 = ((a * 256 : Nat) : Int) := by push_cast; rfl
  rw [e]
  show Int.ofNat (a * 256 ||| b) = _
  have := Nat.shiftLeft_add_eq_or_of_lt (i := 8) (b := b) (by omega) a
  rw [Nat.shiftLeft_eq] at this
  simp only [Int.ofNat_eq_natCast]
  norm_num at this ⊢
  omega

theorem grp_int (c k m : Nat) (ki mi : Int) (hk : ki = (k : Int)) (hm : mi = (m : Int)) (h : k ≤ c) :
    ((c : Int) - ki) / (256 : Int) * mi + band ((c : Int) - ki) (255 : Int) = ((((c - k) >>> 8) * m + ((c - k) &&& 255) : Nat) : Int) := by
  subst hk hm
  have e : (c : Int) - (k : Int) = ((c - k : Nat) : Int) := by omega
  rw [e]
  generalize c - k = d
  have hb : band (d : Int) 255 = ((d &&& 255 : Nat) : Int) := rfl
  rw [hb, Nat.shiftRight_eq_div_pow]
  push_cast
  rfl

theorem hanzi_step (acc : List Nat) (a b : Nat) (hb : b < 256) :
    toR (if (!(decide ((161 : Int) ≤ (b : Int)) && decide ((b : Int) ≤ (254 : Int)))) = true then Except.error PyExc.valueError
      else if (decide ((41377 : Int) ≤ bor ((a : Int) * (256 : Int)) (b : Int)) && decide (bor ((a : Int) * (256 : Int)) (b : Int) ≤ (43774 : Int))) = true then
        Except.ok (toI acc ++ Gen.Py.appendBits ((bor ((a : Int) * (256 : Int)) (b : Int) - (41377 : Int)) / (256 : Int) * (96 : Int)
          + band (bor ((a : Int) * (256 : Int)) (b : Int) - (41377 : Int)) (255 : Int)) (13 : Int))
      else if (decide ((45217 : Int) ≤ bor ((a : Int) * (256 : Int)) (b : Int)) && decide (bor ((a : Int) * (256 : Int)) (b : Int) ≤ (64254 : Int))) = true then
        Except.ok (toI acc ++ Gen.Py.appendBits ((bor ((a : Int) * (256 : Int)) (b : Int) - (42657 : Int)) / (256 : Int) * (96 : Int)
          + band (bor ((a : Int) * (256 : Int)) (b : Int) - (42657 : Int)) (255 : Int)) (13 : Int))
      else (Except.error PyExc.valueError : M (List Int)))
    = (hanziGroup (a, b)).map (fun bs => toI (acc ++ bs)) := by
  rw [code_eq a b hb]
  unfold hanziGroup
  generalize hc : a * 256 + b = c
  by_cases h1 : 161 ≤ b ∧ b ≤ 254
  · have h1' : (!(decide ((161 : Int) ≤ (b : Int)) && decide ((b : Int) ≤ (254 : Int)))) = false := by simp; omega
    have h1'' : (!(decide (161 ≤ b) && decide (b ≤ 254))) = false := by simp; omega
    by_cases h2 : 41377 ≤ c ∧ c ≤ 43774
    · have h2' : (decide ((41377 : Int) ≤ (c : Int)) && decide ((c : Int) ≤ (43774 : Int))) = true := by simp; omega
      have h2'' : (decide (41377 ≤ c) && decide (c ≤ 43774)) = true := by simp; omega
      rw [grp_int c 41377 96 (41377 : Int) (96 : Int) rfl rfl h2.1, appendBits_lit _ 13 _ (13 : Int) rfl rfl]
      simp [h1', h1'', h2', h2'', hc, Except.map, Bind.bind, Except.bind, Pure.pure, Except.pure]
    · have h2' : (decide ((41377 : Int) ≤ (c : Int)) && decide ((c : Int) ≤ (43774 : Int))) = false := by simp; omega
      have h2'' : (decide (41377 ≤ c) && decide (c ≤ 43774)) = false := by simp; omega
      by_cases h3 : 45217 ≤ c ∧ c ≤ 64254
      · have h3' : (decide ((45217 : Int) ≤ (c : Int)) && decide ((c : Int) ≤ (64254 : Int))) = true := by simp; omega
        have h3'' : (decide (45217 ≤ c) && decide (c ≤ 64254)) = true := by simp; omega
        rw [grp_int c 42657 96 (42657 : Int) (96 : Int) rfl rfl (by omega), appendBits_lit _ 13 _ (13 : Int) rfl rfl]
        simp [h1', h1'', h2', h2'', h3', h3'', hc, Except.map, Bind.bind, Except.bind, Pure.pure, Except.pure]
      · have h3' : (decide ((45217 : Int) ≤ (c : Int)) && decide ((c : Int) ≤ (64254 : Int))) = false := by simp; omega
        have h3'' : (decide (45217 ≤ c) && decide (c ≤ 64254)) = false := by simp; omega
        simp [h1', h1'', h2', h2'', h3', h3'', hc, Except.map, Bind.bind, Except.bind, Pure.pure, Except.pure, throw, throwThe, MonadExceptOf.throw, exc]
  · have h1' : (!(decide ((161 : Int) ≤ (b : Int)) && decide ((b : Int) ≤ (254 : Int)))) = true := by simp; omega
    have h1'' : (!(decide (161 ≤ b) && decide (b ≤ 254))) = true := by simp; omega
    simp [h1', h1'', Except.map, Bind.bind, Except.bind, throw, throwThe, MonadExceptOf.throw, exc]

theorem kanji_step (acc : List Nat) (a b : Nat) (hb : b < 256) :
    toR (if (!(Gen.Funcs._is_shift_jis_trail_byte (b : Int))) = true then Except.error PyExc.valueError
      else if (decide ((33088 : Int) ≤ bor ((a : Int) * (256 : Int)) (b : Int)) && decide (bor ((a : Int) * (256 : Int)) (b : Int) ≤ (40956 : Int))) = true then
        Except.ok (toI acc ++ Gen.Py.appendBits ((bor ((a : Int) * (256 : Int)) (b : Int) - (33088 : Int)) / (256 : Int) * (192 : Int)
          + band (bor ((a : Int) * (256 : Int)) (b : Int) - (33088 : Int)) (255 : Int)) (13 : Int))
      else if (decide ((57408 : Int) ≤ bor ((a : Int) * (256 : Int)) (b : Int)) && decide (bor ((a : Int) * (256 : Int)) (b : Int) ≤ (60351 : Int))) = true then
        Except.ok (toI acc ++ Gen.Py.appendBits ((bor ((a : Int) * (256 : Int)) (b : Int) - (49472 : Int)) / (256 : Int) * (192 : Int)
          + band (bor ((a : Int) * (256 : Int)) (b : Int) - (49472 : Int)) (255 : Int)) (13 : Int))
      else (Except.error PyExc.valueError : M (List Int)))
    = (kanjiGroup (a, b)).map (fun bs => toI (acc ++ bs)) := by
  rw [code_eq a b hb]
  unfold kanjiGroup
  generalize hc : a * 256 + b = c
  by_cases h1 : 64 ≤ b ∧ b ≤ 252 ∧ b ≠ 127
  · have h1' : (!(Gen.Funcs._is_shift_jis_trail_byte (b : Int))) = false := by simp [Gen.Funcs._is_shift_jis_trail_byte]; omega
    have h1'' : (!isSjisTrail b) = false := by simp [isSjisTrail]; omega
    by_cases h2 : 33088 ≤ c ∧ c ≤ 40956
    · have h2' : (decide ((33088 : Int) ≤ (c : Int)) && decide ((c : Int) ≤ (40956 : Int))) = true := by simp; omega
      have h2'' : (decide (33088 ≤ c) && decide (c ≤ 40956)) = true := by simp; omega
      rw [grp_int c 33088 192 (33088 : Int) (192 : Int) rfl rfl h2.1, appendBits_lit _ 13 _ (13 : Int) rfl rfl]
      simp [h1', h1'', h2', h2'', hc, Except.map, Bind.bind, Except.bind, Pure.pure, Except.pure]
    · have h2' : (decide ((33088 : Int) ≤ (c : Int)) && decide ((c : Int) ≤ (40956 : Int))) = false := by simp; omega
      have h2'' : (decide (33088 ≤ c) && decide (c ≤ 40956)) = false := by simp; omega
      by_cases h3 : 57408 ≤ c ∧ c ≤ 60351
      · have h3' : (decide ((57408 : Int) ≤ (c : Int)) && decide ((c : Int) ≤ (60351 : Int))) = true := by simp; omega
        have h3'' : (decide (57408 ≤ c) && decide (c ≤ 60351)) = true := by simp; omega
        rw [grp_int c 49472 192 (49472 : Int) (192 : Int) rfl rfl (by omega), appendBits_lit _ 13 _ (13 : Int) rfl rfl]
        simp [h1', h1'', h2', h2'', h3', h3'', hc, Except.map, Bind.bind, Except.bind, Pure.pure, Except.pure]
      · have h3' : (decide ((57408 : Int) ≤ (c : Int)) && decide ((c : Int) ≤ (60351 : Int))) = false := by simp; omega
        have h3'' : (decide (57408 ≤ c) && decide (c ≤ 60351)) = false := by simp; omega
        simp [h1', h1'', h2', h2'', h3', h3'', hc, Except.map, Bind.bind, Except.bind, Pure.pure, Except.pure, throw, throwThe, MonadExceptOf.throw, exc]
  · have h1' : (!(Gen.Funcs._is_shift_jis_trail_byte (b : Int))) = true := by simp [Gen.Funcs._is_shift_jis_trail_byte]; omega
    have h1'' : (!isSjisTrail b) = true := by simp [isSjisTrail]; omega
    simp [h1', h1'', Except.map, Bind.bind, Except.bind, throw, throwThe, MonadExceptOf.throw, exc]

theorem hanzi_loop (data : List Nat) (hd : ∀ b ∈ data, b < 256) (hev : data.length % 2 = 0) :
    toR (foldlM (rangeStep 0 (data.length : Int) 2) ([] : List Int) (fun acc i =>
        Gen.Py.bind (index (toI data) i) (fun t5 =>
          Gen.Py.bind (index (toI data) (i + (1 : Int))) (fun t6 =>
            Gen.Py.bind (index (toI data) (i + (1 : Int))) (fun t7 =>
              if (!(decide ((161 : Int) ≤ t7) && decide (t7 ≤ (254 : Int)))) = true then Except.error PyExc.valueError
              else if (decide ((41377 : Int) ≤ bor (t5 * (256 : Int)) t6) && decide (bor (t5 * (256 : Int)) t6 ≤ (43774 : Int))) = true then
                Except.ok (acc ++ Gen.Py.appendBits ((bor (t5 * (256 : Int)) t6 - (41377 : Int)) / (256 : Int) * (96 : Int)
                  + band (bor (t5 * (256 : Int)) t6 - (41377 : Int)) (255 : Int)) (13 : Int))
              else if (decide ((45217 : Int) ≤ bor (t5 * (256 : Int)) t6) && decide (bor (t5 * (256 : Int)) t6 ≤ (64254 : Int))) = true then
                Except.ok (acc ++ Gen.Py.appendBits ((bor (t5 * (256 : Int)) t6 - (42657 : Int)) / (256 : Int) * (96 : Int)
                  + band (bor (t5 * (256 : Int)) t6 - (42657 : Int)) (255 : Int)) (13 : Int))
              else (Except.error PyExc.valueError : M (List Int)))))))
      = ((pairs data).mapM hanziGroup).map (fun gs => toI gs.flatten) := by
  have e : (data.length + 1) / 2 = data.length / 2 := by omega
  rw [rangeStep2, e]
  refine Eq.trans (pair_loop _ (fun (j : Nat) => (0 : Int) + Int.ofNat j * Int.ofNat 2)
    (fun j => hanziGroup (data.getD (2 * j) 0, data.getD (2 * j + 1) 0)) (List.range (data.length / 2)) ?_ []) ?_
  · intro acc j hj
    have hj' : j < data.length / 2 := List.mem_range.mp hj
    have hm : data.getD (2 * j + 1) 0 ∈ data := by
      rw [List.getD_eq_getElem _ _ (by omega)]; exact List.getElem_mem _
    rw [index_toI data (2 * j) _ (by simp only [Int.ofNat_eq_natCast]; push_cast; omega) (by omega),
      index_toI data (2 * j + 1) _ (by simp only [Int.ofNat_eq_natCast]; push_cast; omega) (by omega)]
    simp only [bind_ok]
    exact hanzi_step acc _ _ (hd _ hm)
  · rw [pairs_eq_range data.length data (Nat.le_refl _), List.mapM_map]
    simp only [List.nil_append]
    rfl

theorem kanji_loop (data : List Nat) (hd : ∀ b ∈ data, b < 256) (hev : data.length % 2 = 0) :
    toR (foldlM (rangeStep 0 (data.length : Int) 2) ([] : List Int) (fun acc i =>
        Gen.Py.bind (index (toI data) i) (fun t5 =>
          Gen.Py.bind (index (toI data) (i + (1 : Int))) (fun t6 =>
            Gen.Py.bind (index (toI data) (i + (1 : Int))) (fun t7 =>
              if (!(Gen.Funcs._is_shift_jis_trail_byte t7)) = true then Except.error PyExc.valueError
              else if (decide ((33088 : Int) ≤ bor (t5 * (256 : Int)) t6) && decide (bor (t5 * (256 : Int)) t6 ≤ (40956 : Int))) = true then
                Except.ok (acc ++ Gen.Py.appendBits ((bor (t5 * (256 : Int)) t6 - (33088 : Int)) / (256 : Int) * (192 : Int)
                  + band (bor (t5 * (256 : Int)) t6 - (33088 : Int)) (255 : Int)) (13 : Int))
              else if (decide ((57408 : Int) ≤ bor (t5 * (256 : Int)) t6) && decide (bor (t5 * (256 : Int)) t6 ≤ (60351 : Int))) = true then
                Except.ok (acc ++ Gen.Py.appendBits ((bor (t5 * (256 : Int)) t6 - (49472 : Int)) / (256 : Int) * (192 : Int)
                  + band (bor (t5 * (256 : Int)) t6 - (49472 : Int)) (255 : Int)) (13 : Int))
              else (Except.error PyExc.valueError : M (List Int)))))))
      = ((pairs data).mapM kanjiGroup).map (fun gs => toI gs.flatten) := by
  have e : (data.length + 1) / 2 = data.length / 2 := by omega
  rw [rangeStep2, e]
  refine Eq.trans (pair_loop _ (fun (j : Nat) => (0 : Int) + Int.ofNat j * Int.ofNat 2)
    (fun j => kanjiGroup (data.getD (2 * j) 0, data.getD (2 * j + 1) 0)) (List.range (data.length / 2)) ?_ []) ?_
  · intro acc j hj
    have hj' : j < data.length / 2 := List.mem_range.mp hj
    have hm : data.getD (2 * j + 1) 0 ∈ data := by
      rw [List.getD_eq_getElem _ _ (by omega)]; exact List.getElem_mem _
    rw [index_toI data (2 * j) _ (by simp only [Int.ofNat_eq_natCast]; push_cast; omega) (by omega),
      index_toI data (2 * j + 1) _ (by simp only [Int.ofNat_eq_natCast]; push_cast; omega) (by omega)]
    simp only [bind_ok]
    exact kanji_step acc _ _ (hd _ hm)
  · rw [pairs_eq_range data.length data (Nat.le_refl _), List.mapM_map]
    simp only [List.nil_append]
    rfl

/-- `find_mode` finds numeric, alphanumeric, byte or kanji -/
theorem findMode_cases (data : List Nat) : findMode data = 1 ∨ findMode data = 2 ∨ findMode data = 4 ∨ findMode data = 8 := by
  unfold findMode
  split
  · exact Or.inl rfl
  · split
    · exact Or.inr (Or.inl rfl)
    · split
      · exact Or.inr (Or.inr (Or.inr rfl))
      · exact Or.inr (Or.inr (Or.inl rfl))

/-- kanji is found only for an even number of bytes -/
theorem findMode_kanji_even (data : List Nat) (h : findMode data = 8) : data.length % 2 = 0 := by
  unfold findMode at h
  split at h
  · simp [Gen.MODE_NUMERIC] at h
  · split at h
    · simp [Gen.MODE_ALPHANUMERIC] at h
    · split at h
      · rename_i hk
        simp only [isKanji, Bool.and_eq_true, beq_iff_eq] at hk
        exact hk.1.2
      · simp [Gen.MODE_BYTE] at h

theorem make_segment_hanzi_py (raw : String) (data : List Nat) (enc : Option String) (encName : String)
    (intOf : List Int → M Int) (hd : ∀ b ∈ data, b < 256) (hev : data.length % 2 = 0) :
    toR (Gen.Funcs3.make_segment raw (some (13 : Int)) enc (.ok (toI data, (data.length : Int), encName)) (findMode data : Int) intOf)
      = ((pairs data).mapM hanziGroup).map
          (fun gs => (toI gs.flatten, ((data.length / 2 : Nat) : Int), (13 : Int), (none : Option String))) := by
  have hl := hanzi_loop data hd hev
  have hlt : ¬ ((13 : Int) < (findMode data : Int)) := by
    rcases findMode_cases data with h | h | h | h <;> rw [h] <;> omega
  have hlen : ¬ ((data.length : Int) % 2 ≠ 0) := by omega
  unfold Gen.Funcs3.make_segment
  simp only [bind_ok]
  have c1 : (if (!(some (13 : Int) == some (4 : Int))) = true then (findMode data : Int) else (4 : Int)) = (findMode data : Int) := by simp
  rw [c1]
  rw [if_neg (show ¬ (decide ((13 : Int) < (findMode data : Int)) = true) by simpa using hlt)]
  rw [if_neg (show ¬ ((((13 : Int) == (8 : Int) || (13 : Int) == (13 : Int)) && ((data.length : Int) % (2 : Int) != 0)) = true) by simp; omega)]
  rw [if_neg (show ¬ (((13 : Int) == (1 : Int)) = true) by decide), if_neg (show ¬ (((13 : Int) == (2 : Int)) = true) by decide),
    if_neg (show ¬ (((13 : Int) == (4 : Int)) = true) by decide), if_pos (show ((13 : Int) == (13 : Int)) = true by decide)]
  rw [toR_bind, hl]
  cases List.mapM hanziGroup (pairs data) <;> simp [Except.map, Bind.bind, Except.bind]

/-- the model in hanzi mode (even number of bytes) -/
theorem make_segment_hanzi_model (data : List Nat) (encName : String) (hev : data.length % 2 = 0) :
    Model.makeSegment data (some 13) encName
      = ((pairs data).mapM hanziGroup).map
          (fun gs => { bits := gs.flatten, charCount := data.length / 2, mode := 13, encoding := none }) := by
  rw [makeSegment_eq']
  unfold makeSegment'
  have hlt : ¬ (13 < findMode data) := by
    rcases findMode_cases data with h | h | h | h <;> rw [h] <;> omega
  simp [hlt, hev, Gen.MODE_BYTE, Gen.MODE_KANJI, Gen.MODE_HANZI, Gen.MODE_NUMERIC, Gen.MODE_ALPHANUMERIC, Bind.bind, Except.bind, Pure.pure, Except.pure]
  cases List.mapM hanziGroup (pairs data) <;> rfl

/-- the translation in kanji mode: requested (8), or any requested mode number other than 1, 2, 4, 13 that is not below the
    mode found (the code's last `else`; the number of characters is halved for 8 only), even number of bytes -/
theorem make_segment_kanji_py (raw : String) (data : List Nat) (m : Nat) (enc : Option String) (encName : String)
    (intOf : List Int → M Int) (hd : ∀ b ∈ data, b < 256) (hev : data.length % 2 = 0)
    (hm : m ≠ 1 ∧ m ≠ 2 ∧ m ≠ 4 ∧ m ≠ 13) (hge : ¬ m < findMode data) :
    toR (Gen.Funcs3.make_segment raw (some (m : Int)) enc (.ok (toI data, (data.length : Int), encName)) (findMode data : Int) intOf)
      = ((pairs data).mapM kanjiGroup).map
          (fun gs => (toI gs.flatten, ((if m = 8 then data.length / 2 else data.length : Nat) : Int), (m : Int), (none : Option String))) := by
  have hl := kanji_loop data hd hev
  obtain ⟨hm1, hm2, hm4, hm13⟩ := hm
  have e1 : ((m : Int) == (1 : Int)) = false := by simp; omega
  have e2 : ((m : Int) == (2 : Int)) = false := by simp; omega
  have e4 : ((m : Int) == (4 : Int)) = false := by simp; omega
  have e13 : ((m : Int) == (13 : Int)) = false := by simp; omega
  have hlen : (((data.length : Int) % (2 : Int)) != 0) = false := by simp; omega
  unfold Gen.Funcs3.make_segment
  simp only [bind_ok]
  have c1 : (if (!(some (m : Int) == some (4 : Int))) = true then (findMode data : Int) else (4 : Int)) = (findMode data : Int) := by
    simp [e4]
  rw [c1]
  rw [if_neg (show ¬ (decide ((m : Int) < (findMode data : Int)) = true) by simp; omega)]
  rw [if_neg (show ¬ ((((m : Int) == (8 : Int) || (m : Int) == (13 : Int)) && ((data.length : Int) % (2 : Int) != 0)) = true) by simp [hlen])]
  rw [if_neg (show ¬ (((m : Int) == (1 : Int)) = true) by simp [e1]), if_neg (show ¬ (((m : Int) == (2 : Int)) = true) by simp [e2]),
    if_neg (show ¬ (((m : Int) == (4 : Int)) = true) by simp [e4]), if_neg (show ¬ (((m : Int) == (13 : Int)) = true) by simp [e13])]
  rw [toR_bind, hl]
  by_cases h8 : m = 8
  · subst h8
    cases List.mapM kanjiGroup (pairs data) <;> simp [Except.map, Bind.bind, Except.bind]
  · have e8 : ((m : Int) == (8 : Int)) = false := by simp; omega
    cases List.mapM kanjiGroup (pairs data) <;> simp [Except.map, Bind.bind, Except.bind, e4, e8, e13, h8]

/-- the model in the same cases -/
theorem make_segment_kanji_model (data : List Nat) (m : Nat) (encName : String) (hev : data.length % 2 = 0)
    (hm : m ≠ 1 ∧ m ≠ 2 ∧ m ≠ 4 ∧ m ≠ 13) (hge : ¬ m < findMode data) :
    Model.makeSegment data (some m) encName
      = ((pairs data).mapM kanjiGroup).map
          (fun gs => { bits := gs.flatten, charCount := if m = 8 then data.length / 2 else data.length, mode := m, encoding := none }) := by
  rw [makeSegment_eq']
  unfold makeSegment'
  obtain ⟨hm1, hm2, hm4, hm13⟩ := hm
  by_cases h8 : m = 8
  · subst h8
    simp [hge, hev, Gen.MODE_BYTE, Gen.MODE_KANJI, Gen.MODE_HANZI, Gen.MODE_NUMERIC, Gen.MODE_ALPHANUMERIC, Bind.bind, Except.bind, Pure.pure, Except.pure]
    cases List.mapM kanjiGroup (pairs data) <;> rfl
  · simp [hge, hev, hm1, hm2, hm4, hm13, h8, Gen.MODE_BYTE, Gen.MODE_KANJI, Gen.MODE_HANZI, Gen.MODE_NUMERIC, Gen.MODE_ALPHANUMERIC, Bind.bind, Except.bind, Pure.pure, Except.pure]
    cases List.mapM kanjiGroup (pairs data) <;> rfl

/-- the translation when no mode is requested and `find_mode` finds kanji -/
theorem make_segment_kanji_none_py (raw : String) (data : List Nat) (enc : Option String) (encName : String)
    (intOf : List Int → M Int) (hd : ∀ b ∈ data, b < 256) (hg : findMode data = 8) :
    toR (Gen.Funcs3.make_segment raw (none : Option Int) enc (.ok (toI data, (data.length : Int), encName)) (findMode data : Int) intOf)
      = ((pairs data).mapM kanjiGroup).map
          (fun gs => (toI gs.flatten, ((data.length / 2 : Nat) : Int), (8 : Int), (none : Option String))) := by
  have hev := findMode_kanji_even data hg
  have hl := kanji_loop data hd hev
  have hlen : (((data.length : Int) % (2 : Int)) != 0) = false := by simp; omega
  unfold Gen.Funcs3.make_segment
  rw [hg]
  simp only [bind_ok, Nat.cast_ofNat]
  have c1 : (if (!((none : Option Int) == some (4 : Int))) = true then (8 : Int) else (4 : Int)) = (8 : Int) := by decide
  simp only [c1]
  rw [if_neg (show ¬ ((((8 : Int) == (8 : Int) || (8 : Int) == (13 : Int)) && ((data.length : Int) % (2 : Int) != 0)) = true) by simp [hlen])]
  rw [if_neg (show ¬ (((8 : Int) == (1 : Int)) = true) by decide), if_neg (show ¬ (((8 : Int) == (2 : Int)) = true) by decide),
    if_neg (show ¬ (((8 : Int) == (4 : Int)) = true) by decide), if_neg (show ¬ (((8 : Int) == (13 : Int)) = true) by decide)]
  rw [toR_bind, hl]
  cases List.mapM kanjiGroup (pairs data) <;> simp [Except.map, Bind.bind, Except.bind]

/-- the model in that case -/
theorem make_segment_kanji_none_model (data : List Nat) (encName : String) (hg : findMode data = 8) :
    Model.makeSegment data none encName
      = ((pairs data).mapM kanjiGroup).map
          (fun gs => { bits := gs.flatten, charCount := data.length / 2, mode := 8, encoding := none }) := by
  have hev := findMode_kanji_even data hg
  rw [makeSegment_eq']
  unfold makeSegment'
  simp [hg, hev, Gen.MODE_BYTE, Gen.MODE_KANJI, Gen.MODE_HANZI, Gen.MODE_NUMERIC, Gen.MODE_ALPHANUMERIC, Bind.bind, Except.bind, Pure.pure, Except.pure]
  cases List.mapM kanjiGroup (pairs data) <;> rfl

end Proofs.TieA3
