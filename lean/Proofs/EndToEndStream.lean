/-
  Proofs.EndToEndStream — helper lemmas for Props/EndToEnd.lean, part 3: the data bit stream the
  model builds parses back to the content.
-/
import Spec.Decode
import Spec.Sizing
import Model.Encoder
import Props.C01
import Props.C01Stream
import Props.C13
import Proofs.Sizing
import Proofs.Stream
import Proofs.StreamParse
import Proofs.Message
import Proofs.EndToEndStages

namespace Proofs.EndToEnd
open Model
set_option linter.unusedVariables false
set_option linter.unusedSimpArgs false

/-! ### written length = computed bit length -/

theorem eciPart_length (s : Segment) (eci : Bool) (f : String → Option Nat) (e : List Nat)
    (h : Proofs.StreamParse.eciPart s eci f = .ok e) :
    e.length = if (Proofs.Sizing.info eci s).eci then 12 else 0 := by
  unfold Proofs.StreamParse.eciPart at h
  have hc : (Proofs.Sizing.info eci s).eci
      = (eci && s.mode == Gen.MODE_BYTE && s.encoding != some Gen.DEFAULT_BYTE_ENCODING) := rfl
  rw [hc]
  split at h
  · next c =>
    rw [if_pos c]
    split at h
    · simp only [pure, Except.pure, Except.ok.injEq] at h
      rw [← h]; simp [Proofs.Roundtrip.appendBits_length]
    · cases h
  · next c =>
    rw [if_neg c]
    simp only [pure, Except.pure, Except.ok.injEq] at h
    rw [← h]; rfl

theorem written_specPer (s : Segment) (v : Int) (eci : Bool) (f : String → Option Nat) (bits : List Nat)
    (h1 : -3 ≤ v) (h2 : v ≤ 40) (hwf : Proofs.Sizing.WFs s) (hw : writeSegment s v eci f = .ok bits) :
    Proofs.Sizing.specPer v (Proofs.Sizing.info eci s) = some bits.length := by
  obtain ⟨e, m, cl, he, hm, hc, hb⟩ := Proofs.StreamParse.writeSegment_ok s v eci f bits h1 h2 hw
  obtain ⟨mi, hmi, -⟩ := Proofs.StreamParse.modePart_spec s.mode v m cl h1 h2 hwf.1 hm hc
  have hel := eciPart_length s eci f e he
  unfold Proofs.Sizing.specPer
  have e1 : (Proofs.Sizing.info eci s).mode = s.mode := rfl
  have e2 : (Proofs.Sizing.info eci s).count = s.charCount := rfl
  rw [e1, e2, hc]
  simp only [bind, Option.bind, pure, Option.some.injEq]
  rw [hb, hmi]
  simp only [List.length_append, Proofs.Roundtrip.appendBits_length, hel, hwf.2]
  by_cases h13 : s.mode = 13
  · simp [h13, Proofs.Roundtrip.appendBits_length]; omega
  · simp [h13]; omega

theorem written_mapM (v : Int) (eci : Bool) (f : String → Option Nat) (h1 : -3 ≤ v) (h2 : v ≤ 40) :
    ∀ (segs : List Segment) (segBits : List (List Nat)), (∀ x ∈ segs, Proofs.Sizing.WFs x) →
      segs.mapM (fun s => writeSegment s v eci f) = .ok segBits →
      (segs.map (Proofs.Sizing.info eci)).mapM (Proofs.Sizing.specPer v) = some (segBits.map List.length)
  | [], segBits, _, hw => by cases hw; rfl
  | s :: rest, segBits, hwf, hw => by
    obtain ⟨b, bs, hwb, hwr, rfl⟩ := Proofs.StreamParse.mapM_ok_cons _ _ _ _ hw
    rw [List.map_cons, List.mapM_cons, written_specPer s v eci f b h1 h2 (hwf s (List.mem_cons_self ..)) hwb,
      written_mapM v eci f h1 h2 rest bs (fun x hx => hwf x (List.mem_cons_of_mem _ hx)) hwr]
    rfl

/-- the bits `_encode` writes for the segments are exactly as many as `bit_length_with_overhead` computed -/
theorem written_length (segs : List Segment) (v : Int) (eci : Bool) (f : String → Option Nat)
    (segBits : List (List Nat)) (h1 : -3 ≤ v) (h2 : v ≤ 40) (hwf : ∀ x ∈ segs, Proofs.Sizing.WFs x)
    (hw : segs.mapM (fun s => writeSegment s v eci f) = .ok segBits) :
    bitLengthWithOverhead segs v eci false = some segBits.flatten.length := by
  rw [Proofs.Sizing.bitLength_eq_needed segs v eci false hwf h1 h2, Proofs.Sizing.neededBits_eq,
    written_mapM v eci f h1 h2 segs segBits hwf hw]
  simp [List.length_flatten]

/-! ### the character count fits its indicator -/

theorem mapM_some_fwd {α β : Type} (g : α → Option β) : ∀ (l : List α) (r : List β), l.mapM g = some r →
    ∀ a ∈ l, ∃ y ∈ r, g a = some y := by
  intro l
  induction l with
  | nil => intro r _ a ha; cases ha
  | cons x t ih =>
    intro r h a ha
    rw [List.mapM_cons] at h
    cases hx : g x with
    | none => simp [hx] at h
    | some b =>
      cases ht : t.mapM g with
      | none => simp [hx, ht] at h
      | some bs =>
        simp [hx, ht] at h
        subst h
        rcases List.mem_cons.1 ha with rfl | ha
        · exact ⟨b, List.mem_cons_self .., hx⟩
        · obtain ⟨y, hy, e⟩ := ih bs ht a ha
          exact ⟨y, List.mem_cons_of_mem _ hy, e⟩

theorem le_sum_of_mem (l : List Nat) (x : Nat) (h : x ∈ l) : x ≤ l.sum := by
  induction l with
  | nil => cases h
  | cons a t ih =>
    rw [List.sum_cons]
    rcases List.mem_cons.1 h with rfl | h
    · omega
    · have := ih h; omega

theorem count_fits (segs : List Segment) (v : Int) (eci : Bool) (e : Option Nat) (need cap : Nat)
    (h1 : -3 ≤ v) (h2 : v ≤ 40) (hwf : ∀ x ∈ segs, Proofs.Sizing.WFs x)
    (hneed : bitLengthWithOverhead segs v eci false = some need) (hcap : capacity v e = some cap)
    (hle : need ≤ cap) :
    ∀ s ∈ segs, ∀ w, Spec.cciBits s.mode v = some w → s.charCount < 2 ^ w := by
  intro s hs w hw
  rw [Proofs.Sizing.bitLength_eq_needed segs v eci false hwf h1 h2, Proofs.Sizing.neededBits_eq] at hneed
  cases hper : (segs.map (Proofs.Sizing.info eci)).mapM (Proofs.Sizing.specPer v) with
  | none => rw [hper] at hneed; cases hneed
  | some per =>
    rw [hper] at hneed
    simp only [Option.map_some, Option.some.injEq] at hneed
    obtain ⟨y, hy, hys⟩ := mapM_some_fwd _ _ _ hper (Proofs.Sizing.info eci s) (List.mem_map_of_mem hs)
    have hyle := le_sum_of_mem per y hy
    unfold Proofs.Sizing.specPer at hys
    have e1 : (Proofs.Sizing.info eci s).mode = s.mode := rfl
    have e2 : (Proofs.Sizing.info eci s).count = s.charCount := rfl
    rw [e1, e2, hw] at hys
    simp only [bind, Option.bind, pure, Option.some.injEq] at hys
    -- the table fact
    rw [Proofs.Sizing.capacity_eq] at hcap
    have hmem := Proofs.Message.lookup2_mem _ _ _ _ hcap
    have hrow := List.all_eq_true.mp Props.C01.count_fits_indicator _ hmem
    have hmode := List.all_eq_true.mp hrow s.mode (hwf s hs).1
    dsimp only at hmode
    rw [hw] at hmode
    simp only [decide_eq_true_eq] at hmode
    apply Decidable.byContradiction
    intro hge
    have hmono := Props.C01.payloadBits_mono s.mode (2 ^ w) s.charCount (by omega)
    omega


/-! ### steps 1–3: the stream parses to the content -/

theorem stream_parses (parts : List Part) (segs : List Segment) (v : Int) (mask : Option Nat) (eci : Bool)
    (f : String → Option Nat) (c : Code) (st : Stages segs v mask eci f c)
    (hp : ∀ p ∈ parts, (∀ b ∈ p.data, b < 256) ∧ p.data ≠ [] ∧ p.mode ∈ [none, some 1, some 2, some 4, some 8, some 13])
    (hprep : prepareData parts = .ok segs) (h1 : -3 ≤ v) (h2 : v ≤ 40) (hev : eci = true → 1 ≤ v)
    (hfit : ∃ need cap, bitLengthWithOverhead segs v eci false = some need
          ∧ capacity v c.error = some cap ∧ need ≤ cap)
    (hf : ∀ enc n, f enc = some n → n < 128) :
    st.segBits.flatten.length ≤ st.cap ∧ st.cap ≤ st.stream.length ∧
    ∃ p, Spec.parseStream v (st.stream.take st.cap) = .ok p ∧ p.sa = none
      ∧ (p.segments.map (·.bytes)).flatten = (parts.map (·.data)).flatten
      ∧ (eci = false → ∀ s ∈ p.segments, s.eci = none)
      ∧ (st.stream.take st.cap).drop p.endPos = Spec.d1Tail v st.cap p.endPos := by
  obtain ⟨ps, hsegs, hflat, hok⟩ := prepareData_pairs parts segs hp hprep
  have hwf := Proofs.Sizing.prepareData_wf parts segs (fun p hp' => (hp p hp').2.2) hprep
  obtain ⟨need, cap, hneed, hcap, hle⟩ := hfit
  have hcapeq : cap = st.cap := by
    have := st.hcap; rw [hcap] at this; exact Option.some.inj this
  subst hcapeq
  have hlen := written_length segs v eci f st.segBits h1 h2 hwf st.hw
  rw [hneed] at hlen
  have hneq : need = st.segBits.flatten.length := Option.some.inj hlen
  have hfit' : st.segBits.flatten.length ≤ st.cap := by omega
  have hcapof : Props.C13.CapOf v st.cap := ⟨c.error, hcap⟩
  obtain ⟨htake, hcl⟩ := Props.C13.stream_layout_d1 v st.cap st.segBits.flatten st.stream h1 h2 hcapof hfit' st.hstream
  have hcount := count_fits segs v eci c.error need st.cap h1 h2 hwf hneed hcap hle
  have hw' : (ps.map (·.2)).mapM (fun s => writeSegment s v eci f) = .ok st.segBits := by
    rw [← hsegs]; exact st.hw
  have hparse := Props.C01.stream_roundtrip_list_d1 ps v st.cap eci f st.segBits h1 h2 hcapof hev
    (fun x hx => ⟨(hok x hx).1, (hok x hx).2.1⟩)
    (fun x hx => by
      obtain ⟨-, -, hm, enc, hk⟩ := hok x hx
      exact ⟨some x.2.mode, enc, some_mode_mem _ hm, hk⟩)
    hw' hfit'
    (fun x hx w hw => hcount x.2 (by rw [hsegs]; exact List.mem_map_of_mem hx) w hw)
    (fun x hx n hn => by
      unfold Props.C01.eciDesignator at hn
      split at hn
      · exact hf _ n hn
      · cases hn)
  refine ⟨hfit', hcl, _, by rw [htake]; exact hparse, rfl, ?_, ?_, ?_⟩
  · rw [← hflat]
    simp only [List.map_map]
    rfl
  · intro he s hs
    simp only [List.mem_map] at hs
    obtain ⟨x, hx, rfl⟩ := hs
    subst he
    rfl
  · rw [htake]
    simp

end Proofs.EndToEnd
