/-
  Proofs.RasterDocsBase — lemmas shared by the whole-document theorems of C09 (Props/C09Docs.lean): what the
  validation of scale / border admits, the rows `matrix_iter` yields, chunking of concatenated rows, and
  reading back the decimal numbers the model prints.  Mathlib-free.
-/
import Proofs.Raster
import Model.RasterDocs
import Spec.RasterL

namespace Proofs.RasterDocs

open Model Model.RasterDocs Spec Proofs.Raster

/-- the validation passed: scale ≥ 1 after truncation, the border absent or a non-negative `int` b -/
structure Admitted (w h : Nat) (scale : Num) (border : Option Num) (b : Nat) : Prop where
  okScale : checkValidScale scale.toInt = .ok ()
  okBorder : checkValidBorder border = .ok ()
  okRange : borderForRange w h border = .ok b

/-- all modules are 0 or 1 -/
def Bits (M : List (List Nat)) : Prop := ∀ r ∈ M, ∀ v ∈ r, v ≤ 1

theorem Admitted.pos {w h : Nat} {scale : Num} {border : Option Num} {b : Nat} (a : Admitted w h scale border b) :
    0 < scale.toInt.toNat := by
  have := a.okScale
  unfold checkValidScale at this
  by_cases h0 : scale.toInt ≤ 0
  · simp [h0] at this
  · omega

theorem validSB_ok {w h : Nat} {scale : Num} {border : Option Num} {b : Nat} (a : Admitted w h scale border b) :
    validSB scale border = .ok () := by
  unfold validSB
  rw [a.okScale, a.okBorder]; rfl

theorem matrixIter_ok {w h : Nat} {scale : Num} {border : Option Num} {b : Nat} (a : Admitted w h scale border b)
    (M : List (List Nat)) (hM : WellFormed M w h) :
    matrixIter M w h scale border = .ok (grid M w h scale.toInt.toNat b) := by
  simp only [matrixIter, a.okBorder, a.okScale, a.okRange, bind, Except.bind, pure, Except.pure]
  rw [iter_eq_grid M w h _ b a.pos hM]

/-- with scale 1 (the text writers) -/
theorem matrixIter_one {w h : Nat} {border : Option Num} {b : Nat} (a : Admitted w h (.int 1) border b)
    (M : List (List Nat)) (hM : WellFormed M w h) :
    matrixIter M w h (.int 1) border = .ok (grid M w h 1 b) := matrixIter_ok a M hM

/-! ### the grid -/

theorem grid_length (M : List (List Nat)) (w h s b : Nat) : (grid M w h s b).length = (h + 2 * b) * s := by simp [grid]

theorem grid_row_length (M : List (List Nat)) (w h s b : Nat) : ∀ r ∈ grid M w h s b, r.length = (w + 2 * b) * s := by
  intro r hr
  simp only [grid, List.mem_map, List.mem_range] at hr
  obtain ⟨y, _, rfl⟩ := hr
  simp

theorem cellL_le (M : List (List Nat)) (hb : Bits M) (i j : Nat) : cellL M i j ≤ 1 := by
  unfold cellL
  simp only [List.getD_eq_getElem?_getD]
  cases hi : M[i]? with
  | none => simp
  | some r =>
    have hmem : r ∈ M := List.mem_of_getElem? hi
    simp only [Option.getD_some]
    cases hj : r[j]? with
    | none => simp
    | some v => simpa using hb r hmem v (List.mem_of_getElem? hj)

theorem grid_bits (M : List (List Nat)) (w h s b : Nat) (hb : Bits M) : ∀ r ∈ grid M w h s b, ∀ v ∈ r, v ≤ 1 := by
  intro r hr v hv
  simp only [grid, List.mem_map, List.mem_range] at hr
  obtain ⟨y, _, rfl⟩ := hr
  simp only [List.mem_map, List.mem_range] at hv
  obtain ⟨x, _, rfl⟩ := hv
  unfold pixelOf
  split
  · exact cellL_le M hb _ _
  · omega

/-! ### chunking -/

theorem chunks_flatMap {α β : Type} (f : α → List β) (k : Nat) (rows : List α) (hlen : ∀ r ∈ rows, (f r).length = k) :
    L.chunks k rows.length (rows.flatMap f) = rows.map f := by
  induction rows with
  | nil => rfl
  | cons r rest ih =>
    have h1 : (f r).length = k := hlen r (by simp)
    subst h1
    simp only [List.flatMap_cons, List.length_cons, L.chunks, List.map_cons, List.take_left', List.drop_left']
    rw [ih (fun x hx => hlen x (by simp [hx]))]

theorem chunks_flatten {α : Type} (k : Nat) (rows : List (List α)) (hlen : ∀ r ∈ rows, r.length = k) :
    L.chunks k rows.length rows.flatten = rows := by
  have := chunks_flatMap (fun r : List α => r) k rows hlen
  simpa [List.flatMap_id'] using this

theorem length_flatMap_const {α β : Type} (f : α → List β) (k : Nat) (rows : List α) (hlen : ∀ r ∈ rows, (f r).length = k) :
    (rows.flatMap f).length = k * rows.length := by
  induction rows with
  | nil => simp
  | cons r rest ih =>
    simp only [List.flatMap_cons, List.length_append, List.length_cons]
    rw [hlen r (by simp), ih (fun x hx => hlen x (by simp [hx])), Nat.mul_succ]; omega

/-! ### decimal numbers -/

theorem isDigitB_of_isDigit (c : Char) (h : c.isDigit = true) : isDigitB c.toNat = true := by
  unfold Char.isDigit at h
  simp only [Bool.and_eq_true, decide_eq_true_eq, ge_iff_le, UInt32.le_iff_toNat_le] at h
  unfold isDigitB Char.toNat
  simp only [Bool.and_eq_true, decide_eq_true_eq]
  exact h

theorem decBytes_digits (n : Nat) : ∀ c ∈ decBytes n, isDigitB c = true := by
  intro c hc
  simp only [decBytes, dec, List.mem_map] at hc
  obtain ⟨ch, hch, rfl⟩ := hc
  exact isDigitB_of_isDigit ch (Nat.isDigit_of_mem_toDigits (by decide) (by decide) hch)

theorem decBytes_ne (n : Nat) : decBytes n ≠ [] := by
  simp [decBytes, dec, Nat.toDigits_ne_nil]

theorem digitsVal_decBytes (n : Nat) : L.digitsVal (decBytes n) = n := by
  have h := @Nat.ofDigitChars_ten_toDigits n
  unfold Nat.ofDigitChars at h
  have hf : (fun (v : Nat) (c : Char) => v * 10 + (c.toNat - 48)) = (fun sofar c => 10 * sofar + (c.toNat - '0'.toNat)) := by
    funext v c; rw [Nat.mul_comm]; rfl
  unfold L.digitsVal decBytes dec
  rw [List.foldl_map, hf]; exact h

theorem takeWhile_stop {α : Type} (p : α → Bool) (ds : List α) (t : α) (rest : List α) (hd : ∀ c ∈ ds, p c = true) (ht : p t = false) :
    (ds ++ t :: rest).takeWhile p = ds ∧ (ds ++ t :: rest).dropWhile p = t :: rest := by
  induction ds with
  | nil => simp [ht]
  | cons d ds ih =>
    have h1 : p d = true := hd d (by simp)
    have := ih (fun c hc => hd c (by simp [hc]))
    simp [h1, this.1, this.2]

theorem isWs_not_digit (t : Nat) (h : isWs t = true) : isDigitB t = false := by
  unfold isWs at h
  unfold isDigitB
  simp only [Bool.or_eq_true, beq_iff_eq] at h
  rcases h with ((((h | h) | h) | h) | h) | h <;> subst h <;> decide

theorem skipWs_digit (c : Nat) (rest : List Nat) (h : isDigitB c = true) : L.skipWs false (c :: rest) = c :: rest := by
  unfold isDigitB at h
  simp only [Bool.and_eq_true, decide_eq_true_eq] at h
  have h35 : (c == 35) = false := by simp; omega
  have hws : isWs c = false := by
    unfold isWs; simp; omega
  simp [L.skipWs, h35, hws]

/-- a number the model prints, followed by white space, is read back -/
theorem readNum_dec (n t : Nat) (rest : List Nat) (ht : isWs t = true) :
    L.readNum (decBytes n ++ t :: rest) = some (n, t :: rest) := by
  have hne := decBytes_ne n
  have hd := decBytes_digits n
  obtain ⟨d, ds, hds⟩ : ∃ d ds, decBytes n = d :: ds := by
    cases h : decBytes n with
    | nil => exact absurd h hne
    | cons d ds => exact ⟨d, ds, rfl⟩
  have hskip : L.skipWs false (decBytes n ++ t :: rest) = decBytes n ++ t :: rest := by
    rw [hds]; exact skipWs_digit d _ (by apply hd; rw [hds]; simp)
  have htw := takeWhile_stop isDigitB (decBytes n) t rest hd (isWs_not_digit t ht)
  unfold L.readNum
  simp only [hskip, htw.1, htw.2]
  have : (decBytes n).isEmpty = false := by rw [hds]; rfl
  simp [this, ht, digitsVal_decBytes]

/-- at the end of the file -/
theorem readNum_ws (c : Nat) (bs : List Nat) (h : isWs c = true) : L.readNum (c :: bs) = L.readNum bs := by
  have h35 : (c == 35) = false := by
    unfold isWs at h
    simp only [Bool.or_eq_true, beq_iff_eq] at h
    rcases h with ((((h | h) | h) | h) | h) | h <;> subst h <;> decide
  unfold L.readNum
  simp [L.skipWs, h35, h]

theorem skipWs_comment (l : List Nat) (bs : List Nat) (hl : ∀ c ∈ l, c ≠ 10 ∧ c ≠ 13) :
    L.skipWs true (l ++ 10 :: bs) = L.skipWs false bs := by
  induction l with
  | nil => simp [L.skipWs]
  | cons c l ih =>
    have := hl c (by simp)
    simp only [List.cons_append, L.skipWs]
    have h1 : (c == 10 || c == 13) = false := by simp [this.1, this.2]
    rw [h1]
    simpa using ih (fun x hx => hl x (by simp [hx]))

/-- a `#` comment up to the end of its line is skipped -/
theorem readNum_comment (l : List Nat) (bs : List Nat) (hl : ∀ c ∈ l, c ≠ 10 ∧ c ≠ 13) :
    L.readNum (35 :: (l ++ 10 :: bs)) = L.readNum bs := by
  unfold L.readNum
  have : L.skipWs false (35 :: (l ++ 10 :: bs)) = L.skipWs false bs := by
    simp only [L.skipWs]
    simpa using skipWs_comment l bs hl
  rw [this]

/-! ### the header comment -/

/-- the comment behind the `#` -/
def commentTail : List Nat := ascii " Created by " ++ Gen.Writers.CREATOR_POINTS

theorem createdBy_eq : createdBy = .ok (35 :: commentTail) := by rfl

theorem commentTail_ok : ∀ c ∈ commentTail, c ≠ 10 ∧ c ≠ 13 := by decide

/-! ### packing -/

theorem packRow_length (d : Nat) (row : List Nat) : (packRow d row).length = (row.length + 8 / d - 1) / (8 / d) := by
  simp [packRow, groupsOf]

theorem unpack_pack1 (row : List Nat) (hrow : ∀ v ∈ row, v ≤ 1) : unpackRow 1 row.length (packRow 1 row) = row := by
  unfold unpackRow packRow
  exact unpack_pack_generic 8 (by decide) (foldBits 1) (sampleOfByte 1) 2 (by decide) field_depth1 row (fun v hv => by have := hrow v hv; omega)

theorem unpack_pack_xbm (row : List Nat) (hrow : ∀ v ∈ row, v ≤ 1) : unpackRowXbm row.length (packRowXbm row) = row := by
  unfold unpackRowXbm packRowXbm
  exact unpack_pack_generic 8 (by decide) (fun g => foldBits 1 g.reverse) xbmBit 2 (by decide) field_xbm row (fun v hv => by have := hrow v hv; omega)

/-- `bw` of a 0 / 1 value: black exactly for a dark module -/
theorem bw_bit (v : Nat) (hv : v ≤ 1) : L.bw v = some (if v ≠ 0 then black else white) := by
  unfold L.bw
  have : v = 0 ∨ v = 1 := by omega
  rcases this with rfl | rfl <;> rfl

end Proofs.RasterDocs
