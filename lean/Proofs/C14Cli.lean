/-
  Proofs.C14Cli — the command line tool (`cli.main` after `make_code`, Model.Routes.cliMain / Model.Cli.buildConfig): whatever
  argparse can put into the namespace, the keyword map `build_config` hands to `QRCode.save` is a documented request of the
  serialiser the file name selects.  Helper lemmas for Props/C14Routes.lean.
-/
import Proofs.C14RouteDefs
import Proofs.C14SerRead
import Proofs.CliLemmas

namespace Proofs.C14Route
open Gen (PyV)
open Model Model.Cli Model.Routes Model.RoutesDocs Model.RoutesVec Proofs.C14Ser Proofs.Routes

/-- Tie to the source: every keyword `_EXT_TO_KW_MAPPING` lists for a serialiser is an option of the documented table -/
theorem ext_mapping_documented :
    ∀ row ∈ Gen.EXT_TO_KW_MAPPING, row.1 ∈ kinds ∧ ∀ k ∈ row.2, (optTypes row.1).any (fun p => p.1 == k) = true := by
  decide +kernel

/-- every dest of the argparse table has a type row, and the flags are the store_true / store_false actions -/
theorem cli_types_cover :
    (Gen.CLI_ARGS.map (·.1) = Gen.CLI_ARG_TYPES.map (·.1))
    ∧ ∀ i (h1 : i < Gen.CLI_ARGS.length) (h2 : i < Gen.CLI_ARG_TYPES.length),
        ((Gen.CLI_ARG_TYPES[i]).2.2.2 == "0") = ((Gen.CLI_ARGS[i]).2.2.1 == "_StoreTrueAction" || (Gen.CLI_ARGS[i]).2.2.1 == "_StoreFalseAction") := by
  decide +kernel

/-! ### shapes of values -/

inductive Sh where
  | none | bool | int | str | num | bad
  deriving DecidableEq, Repr

def allSh : List Sh := [.none, .bool, .int, .str, .num, .bad]

theorem mem_allSh (s : Sh) : s ∈ allSh := by cases s <;> decide

def shape : PyV → Sh
  | .none => .none
  | .bool _ => .bool
  | .int _ => .int
  | .str _ => .str
  | .float _ d => if d != 0 then .num else .bad
  | .other _ => .bad

/-- lower bound of `hasType` by shape -/
def hasTypeS : Ty → Sh → Bool
  | .scale, s => s == .int || s == .num
  | .border, s => s == .none || s == .int
  | .colour, s => s == .none || s == .str
  | .typeColour, s => s == .none || s == .str
  | .flag, s => s == .bool
  | .text, s => s == .str
  | .optText, s => s == .none || s == .str
  | .level, _ => false
  | .dpi, s => s == .none || s == .int
  | .svgversion, s => s == .none || s == .int || s == .num
  | .txtText, s => s == .none || s == .str

theorem hasType_of_shape (ty : Ty) (v : PyV) (h : hasTypeS ty (shape v) = true) : hasType ty v = true := by
  cases ty <;> cases v <;> simp_all [hasTypeS, shape, hasType, isNumber, isColour] <;>
    (split at h <;> simp_all)

def givenS (conv nargs : String) (s : Sh) : Bool :=
  if nargs == "0" then s == .bool
  else if nargs == "+" then true
  else if conv == "int" then s == .int
  else if conv == "float" then s == .num
  else if conv == "_convert_scale" then s == .int || s == .num
  else s == .str

theorem given_shape (conv nargs : String) (v : PyV) (h : cliGivenOK conv nargs v = true) : givenS conv nargs (shape v) = true := by
  unfold cliGivenOK at h
  unfold givenS
  split
  · simp_all; cases v <;> simp_all [shape]
  · split
    · rfl
    · split
      · simp_all; cases v <;> simp_all [shape]
      · split
        · simp_all; cases v <;> simp_all [shape]
        · split
          · simp_all; cases v <;> simp_all [shape]
          · simp_all; cases v <;> simp_all [shape]


/-! ### the per-key invariant -/

def optTextKeys : List String := ["title", "desc", "svgid", "svgclass", "lineclass", "unit", "output"]
def flagKeys : List String := ["xmldecl", "svgns", "nl", "omitsize", "draw_transparent"]

/-- the shapes of the values the command line can hand over for key `k` (no other key reaches `build_config`) -/
def cliValS (k : String) (s : Sh) : Bool :=
  if colourKeys.contains k || optTextKeys.contains k then s == .none || s == .str
  else if k == "scale" then s == .int || s == .num
  else if k == "border" || k == "dpi" then s == .none || s == .int
  else if k == "svgversion" then s == .none || s == .num
  else if flagKeys.contains k then s == .bool
  else if k == "svgencoding" || k == "encoding" then s == .str
  else ["symbol_count", "no_classes", "compact"].contains k

def CliVal (k : String) (v : PyV) : Bool := cliValS k (shape v)

/-- creation keys whose value is not constrained (all except `output`) -/
def freeKey (k : String) : Bool := creationKeys.contains k && k != "output"

theorem arg_table :
    (Gen.CLI_ARGS.zip Gen.CLI_ARG_TYPES).all (fun pr =>
      freeKey pr.1.1 || (cliValS pr.1.1 (shape pr.1.2.2.2) && allSh.all (fun s => !givenS pr.2.2.1 pr.2.2.2.2 s || cliValS pr.1.1 s))) = true := by
  decide +kernel

theorem kw_table :
    validKeys.all (fun key => (supportedKeywords Gen.EXT_TO_KW_MAPPING key).all (fun k => allSh.all (fun s =>
      !cliValS k s || (k == "unit" && s == .none) || (optTypes key).any (fun p => p.1 == k && hasTypeS p.2 s)))) = true := by
  decide +kernel

theorem kw_table' (key : String) (hk : key ∈ validKeys) (k : String) (hkw : k ∈ supportedKeywords Gen.EXT_TO_KW_MAPPING key) (s : Sh) :
    (!cliValS k s || (k == "unit" && s == .none) || (optTypes key).any (fun p => p.1 == k && hasTypeS p.2 s)) = true := by
  have h1 := List.all_eq_true.1 kw_table key hk
  have h2 := List.all_eq_true.1 h1 k hkw
  exact List.all_eq_true.1 h2 s (mem_allSh s)

theorem validKeys_kinds : ∀ k ∈ validKeys, k ∈ kinds := by decide +kernel


/-! ### the invariant of a configuration -/

def AllOK (c : Config) : Prop := ∀ e ∈ c, CliVal e.1 e.2 = true
def KeysNodup (c : Config) : Prop := (c.map (·.1)).Nodup
def Inv (c : Config) : Prop := AllOK c ∧ KeysNodup c

theorem mem_of_cget {c : Config} {k : String} {v : PyV} (h : cget c k = some v) : (k, v) ∈ c := by
  induction c with
  | nil => simp [cget_nil] at h
  | cons e c ih =>
    rw [cget_cons] at h
    by_cases hk : (e.1 == k) = true
    · simp only [hk, if_true, Option.some.injEq] at h
      have : e.1 = k := by simpa using hk
      subst this; subst h
      exact List.mem_cons_self
    · simp only [hk] at h
      exact List.mem_cons_of_mem _ (ih h)

theorem cget_of_mem {c : Config} (hn : KeysNodup c) {e : String × PyV} (he : e ∈ c) : cget c e.1 = some e.2 := by
  induction c with
  | nil => cases he
  | cons x c ih =>
    unfold KeysNodup at hn
    rw [List.map_cons, List.nodup_cons] at hn
    rw [cget_cons]
    rcases List.mem_cons.1 he with h | h
    · subst h; simp
    · have hne : ¬ (x.1 == e.1) = true := by
        intro hx
        have : x.1 = e.1 := by simpa using hx
        exact hn.1 (this ▸ List.mem_map_of_mem (f := (·.1)) h)
      simp only [hne]
      exact ih hn.2 h

theorem inv_filter {c : Config} (p : String × PyV → Bool) (h : Inv c) : Inv (c.filter p) := by
  refine ⟨fun e he => h.1 e (List.mem_filter.1 he).1, ?_⟩
  exact List.Nodup.sublist (List.Sublist.map _ List.filter_sublist) h.2

theorem inv_cpop {c : Config} (k : String) (h : Inv c) : Inv (cpop c k) := inv_filter _ h

theorem inv_cset {c : Config} {k : String} {v : PyV} (h : Inv c) (hv : CliVal k v = true) : Inv (cset c k v) := by
  unfold cset
  split
  · refine ⟨?_, ?_⟩
    · intro e he
      rcases List.mem_map.1 he with ⟨x, hx, rfl⟩
      split
      · exact hv
      · exact h.1 x hx
    · unfold KeysNodup
      rw [List.map_map]
      have : ((fun x : String × PyV => x.1) ∘ fun kv => if (kv.1 == k) = true then (k, v) else kv) = (fun x => x.1) := by
        funext kv
        simp only [Function.comp]
        split
        · rename_i hk; exact (by simpa using hk : kv.1 = k).symm
        · rfl
      rw [this]; exact h.2
  · rename_i hany
    refine ⟨?_, ?_⟩
    · intro e he
      rcases List.mem_append.1 he with he | he
      · exact h.1 e he
      · simp only [List.mem_singleton] at he; subst he; exact hv
    · unfold KeysNodup
      rw [List.map_append, List.map_cons, List.map_nil]
      refine List.nodup_append.2 ⟨h.2, (by simp), ?_⟩
      intro a ha b hb
      simp only [List.mem_singleton] at hb
      subst hb
      rintro rfl
      apply hany
      rcases List.mem_map.1 ha with ⟨x, hx, hxa⟩
      exact List.any_eq_true.2 ⟨x, hx, by simpa using hxa⟩

theorem foldl_inv {α : Type} (f : Config → α → Config) (l : List α) (P : α → Prop) (hl : ∀ x ∈ l, P x)
    (hf : ∀ c x, P x → Inv c → Inv (f c x)) (c : Config) (h : Inv c) : Inv (l.foldl f c) := by
  induction l generalizing c with
  | nil => exact h
  | cons x l ih =>
    rw [List.foldl_cons]
    exact ih (fun y hy => hl y (List.mem_cons_of_mem _ hy)) _ (hf c x (hl x List.mem_cons_self) h)


theorem cliVal_getD {c : Config} (h : Inv c) (k : String) (d : PyV) (hd : CliVal k d = true) :
    CliVal k ((cget c k).getD d) = true := by
  cases hc : cget c k with
  | none => simpa using hd
  | some v => exact h.1 _ (mem_of_cget hc)

theorem colour_none : ∀ clr ∈ colourKeys, CliVal clr .none = true := by decide +kernel

theorem enc_of_svgenc (v : PyV) (h : CliVal "svgencoding" v = true) : CliVal "encoding" v = true := by
  unfold CliVal at *
  generalize shape v = s at *
  revert h; cases s <;> decide

theorem inv_prepare (c : Config) (h : Inv c) : Inv (prepareConfig c) := by
  unfold prepareConfig
  have h1 := foldl_inv (fun c clr =>
      let val := (cget c clr).getD .none
      let c' := cpop c clr
      if val == .str "transparent" || val == .str "trans" then cset c' clr .none
      else if truthy val then cset c' clr val
      else c') colourKeys (fun clr => CliVal clr .none = true) colour_none
    (by
      intro c clr hclr hc
      dsimp only
      have hval := cliVal_getD hc clr .none hclr
      split
      · exact inv_cset (inv_cpop _ hc) hclr
      · split
        · exact inv_cset (inv_cpop _ hc) hval
        · exact inv_cpop _ hc) c h
  have h2 := foldl_inv (fun c name => if (cget c name).getD .none == .none then cpop c name else c)
    ["svgid", "svgclass", "lineclass"] (fun _ => True) (fun _ _ => trivial)
    (by
      intro c name _ hc
      split
      · exact inv_cpop _ hc
      · exact hc) _ h1
  dsimp only
  generalize List.foldl (fun c name => if ((cget c name).getD PyV.none == PyV.none) = true then cpop c name else c) _ _ = c2 at h2 ⊢
  have h3 : Inv (cpop c2 "no_classes") := inv_cpop _ h2
  have h4 : Inv (if truthy ((cget c2 "no_classes").getD (.bool false)) = true
      then cset (cset (cpop c2 "no_classes") "svgclass" .none) "lineclass" .none else cpop c2 "no_classes") := by
    split
    · exact inv_cset (inv_cset h3 (by decide)) (by decide)
    · exact h3
  generalize (if truthy ((cget c2 "no_classes").getD (.bool false)) = true
      then cset (cset (cpop c2 "no_classes") "svgclass" .none) "lineclass" .none else cpop c2 "no_classes") = c4 at h4 ⊢
  refine inv_cset (inv_cpop _ h4) ?_
  exact enc_of_svgenc _ (cliVal_getD h4 _ _ (by decide))


/-! ### what argparse stores -/

theorem parsed_entry (parsed : Config) (hp : ArgparseAccepted parsed) (e : String × PyV) (he : e ∈ parsed) :
    freeKey e.1 = true ∨ CliVal e.1 e.2 = true := by
  obtain ⟨pr, hpr, hk, hv⟩ := hp.1 e he
  have ht := List.all_eq_true.1 arg_table pr hpr
  rw [hk] at ht
  rcases Bool.or_eq_true_iff.1 ht with ht | ht
  · exact Or.inl ht
  · rw [Bool.and_eq_true] at ht
    rcases hv with hv | hv | hv
    · right; unfold CliVal; rw [hv]; exact ht.1
    · right
      have := List.all_eq_true.1 ht.2 (shape e.2) (mem_allSh _)
      rw [given_shape _ _ _ hv] at this
      unfold CliVal
      simpa using this
    · left; rw [hv.1]; decide

theorem inv_main (parsed : Config) (hp : ArgparseAccepted parsed) : Inv (mainConfig parsed) := by
  refine ⟨?_, ?_⟩
  · intro e he
    unfold mainConfig at he
    rw [List.mem_filter] at he
    rcases parsed_entry parsed hp e he.1 with h | h
    · unfold freeKey at h
      rw [Bool.and_eq_true] at h
      have := he.2
      rw [h.1] at this
      cases this
    · exact h
  · exact List.Nodup.sublist (List.Sublist.map _ List.filter_sublist) hp.2.2

/-! ### the serialiser the file name selects -/

theorem dispatch_key (output : Str) (key : String) (gz : Bool)
    (hd : dispatch validKeys output false none = .ok (key, gz)) : key = configExt output ∧ key ∈ validKeys := by
  unfold dispatch at hd
  dsimp only at hd
  split at hd
  · rename_i hv
    have hk : dispatchKey output false none = (key, gz) := by
      simpa [pure, Except.pure] using hd
    have h1 : (dispatchKey output false none).1 = configExt output := by
      unfold dispatchKey configExt
      dsimp only
      have : (String.ofList (lower (afterLastDot output)) == "svgz") = (lower (afterLastDot output) == "svgz".toList) := by
        rw [Bool.eq_iff_iff]
        simp only [beq_iff_eq]
        constructor
        · intro h; rw [← h]; simp
        · intro h; rw [h]; simp
      rw [this]
      simp
    rw [hk] at h1 hv
    exact ⟨h1, by simpa using hv⟩
  · simp [throw, throwThe, MonadExceptOf.throw] at hd


theorem filter_entry (m : List (String × List String)) (c : Config) (fname : Str) (h : Inv c) (e : String × PyV)
    (he : e ∈ filterConfig m c fname) :
    e ∈ c ∧ (supportedKeywords m (configExt fname)).contains e.1 = true ∧ (e.1 = "unit" → e.2 ≠ .none) := by
  unfold filterConfig at he
  dsimp only at he
  have h6 := inv_filter (fun kv => (supportedKeywords m (configExt fname)).contains kv.1) h
  generalize hc6 : c.filter (fun kv => (supportedKeywords m (configExt fname)).contains kv.1) = c6 at he h6
  have hsub : ∀ x ∈ c6, x ∈ c ∧ (supportedKeywords m (configExt fname)).contains x.1 = true := by
    intro x hx; rw [← hc6] at hx; exact List.mem_filter.1 hx
  split at he
  · unfold cpop at he
    rw [List.mem_filter] at he
    refine ⟨(hsub e he.1).1, (hsub e he.1).2, ?_⟩
    intro hu
    have := he.2
    simp [hu] at this
  · rename_i hne
    refine ⟨(hsub e he).1, (hsub e he).2, ?_⟩
    intro hu hv
    apply hne
    have := cget_of_mem h6.2 he
    rw [hu, hv] at this
    rw [this]; rfl

theorem cliKwargs_entry (parsed : Config) (hp : ArgparseAccepted parsed) (output : Str) (e : String × PyV)
    (he : e ∈ cliKwargs Gen.EXT_TO_KW_MAPPING parsed output) :
    CliVal e.1 e.2 = true ∧ (supportedKeywords Gen.EXT_TO_KW_MAPPING (configExt output)).contains e.1 = true
      ∧ (e.1 = "unit" → e.2 ≠ .none) := by
  have hi := inv_prepare _ (inv_main parsed hp)
  have he' : e ∈ filterConfig Gen.EXT_TO_KW_MAPPING (prepareConfig (mainConfig parsed)) output := he
  have := filter_entry Gen.EXT_TO_KW_MAPPING _ output hi e he'
  exact ⟨hi.1 e this.1, this.2⟩

/-- **the keyword map of the command line tool is a documented request**: for a namespace argparse can produce and an output file
    name whose extension selects the serialiser `key` (`gz`: svgz), every keyword `build_config` keeps is an option of that
    serialiser with a value of the documented type; there is never a `compresslevel` -/
theorem cliKwargs_documented (parsed : Config) (hp : ArgparseAccepted parsed) (output : Str) (key : String) (gz : Bool)
    (hd : dispatch validKeys output false none = .ok (key, gz)) :
    DocumentedSer key (cliKwargs Gen.EXT_TO_KW_MAPPING parsed output)
    ∧ cget (cliKwargs Gen.EXT_TO_KW_MAPPING parsed output) "compresslevel" = none := by
  obtain ⟨hk, hv⟩ := dispatch_key output key gz hd
  refine ⟨⟨validKeys_kinds key hv, ?_⟩, ?_⟩
  · intro e he
    obtain ⟨h1, h2, h3⟩ := cliKwargs_entry parsed hp output e he
    rw [← hk] at h2
    have ht := kw_table' key hv e.1 (List.contains_iff_mem.1 h2) (shape e.2)
    unfold CliVal at h1
    rw [h1] at ht
    simp only [Bool.not_true, Bool.false_or, Bool.or_eq_true, Bool.and_eq_true, beq_iff_eq] at ht
    rcases ht with ht | ht
    · exfalso
      apply h3 ht.1
      revert ht
      cases e.2 <;> simp [shape]
      split <;> simp
    · rw [List.any_eq_true] at ht ⊢
      obtain ⟨p, hp1, hp2⟩ := ht
      refine ⟨p, hp1, ?_⟩
      rw [Bool.and_eq_true] at hp2 ⊢
      exact ⟨hp2.1, hasType_of_shape _ _ hp2.2⟩
  · cases hc : cget (cliKwargs Gen.EXT_TO_KW_MAPPING parsed output) "compresslevel" with
    | none => rfl
    | some v =>
      exfalso
      have : CliVal "compresslevel" v = true := (cliKwargs_entry parsed hp output _ (mem_of_cget hc)).1
      unfold CliVal at this
      revert this
      generalize shape v = s
      cases s <;> decide


theorem parsed_cget (parsed : Config) (hp : ArgparseAccepted parsed) (k : String) (v : PyV) (hk : freeKey k = false)
    (h : cget parsed k = some v) : cliValS k (shape v) = true := by
  rcases parsed_entry parsed hp (k, v) (mem_of_cget h) with h' | h'
  · rw [hk] at h'; cases h'
  · exact h'

/-- the border of the terminal route is `None` or an int -/
theorem cli_border_typed (parsed : Config) (hp : ArgparseAccepted parsed) (border : PyV) (hb : cget parsed "border" = some border) :
    hasType .border border = true := by
  apply hasType_of_shape
  have := parsed_cget parsed hp "border" border (by decide) hb
  revert this
  generalize shape border = s
  cases s <;> decide

/-- `output` is `None` or a str, `border` is present -/
theorem cli_output_cases (parsed : Config) (hp : ArgparseAccepted parsed) :
    (cget parsed "output" = some .none ∨ ∃ s, cget parsed "output" = some (.str s)) ∧ ∃ b, cget parsed "border" = some b := by
  constructor
  · have ho := hp.2.1 ("output", "-", "", "-") (by decide)
    cases hc : cget parsed "output" with
    | none => rw [hc] at ho; cases ho
    | some v =>
      have := parsed_cget parsed hp "output" v (by decide) hc
      cases v <;> simp [shape] at this ⊢
      · revert this; decide
      · revert this; decide
      · revert this; split <;> decide
      · revert this; decide
  · have hb := hp.2.1 ("border", "int", "", "-") (by decide)
    cases hc : cget parsed "border" with
    | none => rw [hc] at hb; cases hb
    | some v => exact ⟨v, rfl⟩

end Proofs.C14Route
