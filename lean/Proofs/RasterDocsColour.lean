/-
  Proofs.RasterDocsColour — what `Model.colorToRgb` (`_color_to_rgb`) returns when it succeeds: three values,
  each at most 255.  Used by the PPM and XPM document theorems.  Mathlib-free.
-/
import Model.Png

namespace Proofs.RasterDocs

open Model

theorem hexVal?_le (c : Char) : (hexVal? c).getD 0 ≤ 15 := by
  unfold hexVal?
  split
  · rename_i h
    simp only [Bool.and_eq_true, decide_eq_true_eq] at h
    have h2 : c.toNat ≤ '9'.toNat := h.2
    have : '9'.toNat = 57 := by decide
    simp only [Option.getD_some]; omega
  · split
    · rename_i h
      simp only [Bool.and_eq_true, decide_eq_true_eq] at h
      have h2 : c.toNat ≤ 'f'.toNat := h.2
      have : 'f'.toNat = 102 := by decide
      simp only [Option.getD_some]; omega
    · split
      · rename_i h
        simp only [Bool.and_eq_true, decide_eq_true_eq] at h
        have h2 : c.toNat ≤ 'F'.toNat := h.2
        have : 'F'.toNat = 70 := by decide
        simp only [Option.getD_some]; omega
      · simp

theorem hexPairs_le : ∀ (cs : List Char), ∀ v ∈ hexPairs cs, v ≤ 255
  | [] => by simp [hexPairs]
  | [_] => by simp [hexPairs]
  | a :: b :: rest => by
    intro v hv
    simp only [hexPairs, List.mem_cons] at hv
    rcases hv with rfl | hv
    · have := hexVal?_le a; have := hexVal?_le b; omega
    · exact hexPairs_le rest v hv

theorem hexToInts_le (s : String) (l : List Nat) (h : hexToInts s = .ok l) : ∀ v ∈ l, v ≤ 255 := by
  unfold hexToInts at h
  simp only at h
  split at h <;> split at h <;> split at h <;>
    first
    | (simp only [pure, Except.pure, Except.ok.injEq] at h; subst h; exact hexPairs_le _)
    | cases h

theorem name2rgb_le : ∀ e ∈ Gen.NAME2RGB, e.2.1 ≤ 255 ∧ e.2.2.1 ≤ 255 ∧ e.2.2.2 ≤ 255 := by decide +kernel

theorem nameToRgb_le (s : String) (r g b : Nat) (h : nameToRgb s = some (r, g, b)) : r ≤ 255 ∧ g ≤ 255 ∧ b ≤ 255 := by
  unfold nameToRgb at h
  cases hf : Gen.NAME2RGB.find? (fun e => e.1 == lowerAscii s) with
  | none => rw [hf] at h; cases h
  | some e =>
    rw [hf] at h
    simp only [Option.map_some, Option.some.injEq] at h
    have := name2rgb_le e (List.mem_of_find?_eq_some hf)
    rw [h] at this
    exact this

/-- `_color_to_rgb` returns three values of at most 255 -/
theorem colorToRgb_ok (c : ColorArg) (l : List Nat) (h : colorToRgb c = .ok l) :
    ∃ r g b, l = [r, g, b] ∧ r ≤ 255 ∧ g ≤ 255 ∧ b ≤ 255 := by
  unfold colorToRgb at h
  split at h
  · cases h
  · split at h
    · rename_i hc
      simp only [pure, Except.pure, Except.ok.injEq] at h
      exact ⟨_, _, _, h.symm, hc⟩
    · cases h
  · split at h
    · rename_i hc
      simp only [pure, Except.pure, Except.ok.injEq] at h
      exact ⟨_, _, _, h.symm, hc.1, hc.2.1, hc.2.2.1⟩
    · cases h
  · cases h
  · split at h
    · rename_i hc
      simp only [pure, Except.pure, Except.ok.injEq] at h
      exact ⟨_, _, _, h.symm, hc.1, hc.2.1, hc.2.2.1⟩
    · cases h
  · rename_i s
    split at h
    · rename_i r g b hn
      simp only [pure, Except.pure, Except.ok.injEq] at h
      exact ⟨r, g, b, h.symm, nameToRgb_le s r g b hn⟩
    · simp only [bind, Except.bind] at h
      cases hh : hexToInts s with
      | error e => rw [hh] at h; cases h
      | ok l' =>
        rw [hh] at h
        have hle := hexToInts_le s l' hh
        simp only at h
        split at h
        · simp only [pure, Except.pure, Except.ok.injEq] at h
          exact ⟨_, _, _, h.symm, hle _ (by simp), hle _ (by simp), hle _ (by simp)⟩
        · split at h
          · simp only [pure, Except.pure, Except.ok.injEq] at h
            exact ⟨_, _, _, h.symm, hle _ (by simp), hle _ (by simp), hle _ (by simp)⟩
          · cases h
        · cases h

end Proofs.RasterDocs
