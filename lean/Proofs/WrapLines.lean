/-
  Proofs.WrapLines — the line breaking of `write_eps` (`textwrap.wrap(content, 254)`, model `wrapLines` of
  Model/VectorDocs.lean): no word is lost, duplicated or reordered, and no line is longer than the width.
  Mathlib-free.
-/
import Model.VectorDocs

namespace Proofs.WrapLines

open Model.VectorDocs

/-- total number of characters of a list of chunks -/
def total (l : List (List Char)) : Nat := (l.map List.length).sum

/-- the words of a chunk list: the chunks that are not blank -/
def wordsOf (l : List (List Char)) : List (List Char) := l.filter (fun ch => !isBlankChunk ch)

theorem total_cons (c : List Char) (l : List (List Char)) : total (c :: l) = c.length + total l := by simp [total]

theorem total_append (a b : List (List Char)) : total (a ++ b) = total a + total b := by simp [total]

theorem total_reverse (a : List (List Char)) : total a.reverse = total a := by
  induction a with
  | nil => rfl
  | cons c r ih => rw [List.reverse_cons, total_append, ih, total_cons]; simp [total]; omega

theorem wordsOf_append (a b : List (List Char)) : wordsOf (a ++ b) = wordsOf a ++ wordsOf b := by simp [wordsOf]

/-- the inner loop splits the chunks: what it took (reversed) followed by the rest is the input, and it fits -/
theorem takeLine_spec (width : Nat) (chunks : List (List Char)) : ∀ (curLen : Nat) (cur : List (List Char)),
    curLen = total cur → curLen ≤ width →
    (takeLine width curLen cur chunks).1.reverse ++ (takeLine width curLen cur chunks).2 = cur.reverse ++ chunks
    ∧ total (takeLine width curLen cur chunks).1 ≤ width := by
  induction chunks with
  | nil => intro curLen cur h1 h2; simp [takeLine]; omega
  | cons ch rest ih =>
    intro curLen cur h1 h2
    simp only [takeLine]
    by_cases hfit : curLen + ch.length ≤ width
    · simp only [hfit, if_true]
      obtain ⟨e, t⟩ := ih (curLen + ch.length) (ch :: cur) (by rw [total_cons, h1]; omega) hfit
      exact ⟨by rw [e]; simp, t⟩
    · simp only [hfit, if_false]
      exact ⟨trivial, by omega⟩

theorem pickTaken_spec (width : Nat) (c0 : List Char) (rest0 : List (List Char)) :
    (pickTaken width c0 rest0).1.reverse ++ (pickTaken width c0 rest0).2 = c0 :: rest0
    ∧ (pickTaken width c0 rest0).1 ≠ []
    ∧ (c0.length ≤ width → total (pickTaken width c0 rest0).1 ≤ width) := by
  obtain ⟨e, t⟩ := takeLine_spec width (c0 :: rest0) 0 [] rfl (Nat.zero_le _)
  simp only [List.reverse_nil, List.nil_append] at e
  unfold pickTaken
  by_cases hemp : (takeLine width 0 [] (c0 :: rest0)).1.isEmpty = true
  · rw [if_pos hemp]
    exact ⟨rfl, by simp, fun h => by simpa [total] using h⟩
  · rw [if_neg hemp]
    exact ⟨e, by intro h0; apply hemp; simp [h0], fun _ => t⟩

theorem dropTrailingBlank_spec (l : List (List Char)) :
    wordsOf (dropTrailingBlank l).reverse = wordsOf l.reverse ∧ total (dropTrailingBlank l) ≤ total l := by
  cases l with
  | nil => exact ⟨rfl, Nat.le_refl _⟩
  | cons last before =>
    by_cases hb : isBlankChunk last = true
    · simp only [dropTrailingBlank, hb, if_true, List.reverse_cons, wordsOf_append, total_cons]
      refine ⟨by simp [wordsOf, hb], by omega⟩
    · simp only [dropTrailingBlank, hb]
      exact ⟨rfl, Nat.le_refl _⟩

/-- one round: the line and the rest split the input (up to one dropped blank chunk), the rest is shorter, the line fits -/
theorem lineStep_spec (width : Nat) (c0 : List Char) (rest0 : List (List Char)) :
    wordsOf (lineStep width c0 rest0).1 ++ wordsOf (lineStep width c0 rest0).2 = wordsOf (c0 :: rest0)
    ∧ (lineStep width c0 rest0).2.length < (c0 :: rest0).length
    ∧ (∀ x ∈ (lineStep width c0 rest0).2, x ∈ c0 :: rest0)
    ∧ (c0.length ≤ width → total (lineStep width c0 rest0).1 ≤ width) := by
  obtain ⟨hs, hne, ht⟩ := pickTaken_spec width c0 rest0
  obtain ⟨hw, hd⟩ := dropTrailingBlank_spec (pickTaken width c0 rest0).1
  unfold lineStep
  simp only []
  refine ⟨?_, ?_, ?_, ?_⟩
  · rw [hw, ← wordsOf_append, hs]
  · have : ((pickTaken width c0 rest0).1.reverse ++ (pickTaken width c0 rest0).2).length = (c0 :: rest0).length := by rw [hs]
    have h1 : 0 < (pickTaken width c0 rest0).1.length := List.length_pos_iff.mpr hne
    simp only [List.length_append, List.length_reverse] at this
    omega
  · intro x hx; rw [← hs]; exact List.mem_append_right _ hx
  · intro h; rw [total_reverse]; have := ht h; omega

/-- the words (non-blank chunks) of all lines, in order, are the words of the input (enough fuel) -/
theorem wrapLines_words (width : Nat) : ∀ (fuel : Nat) (first : Bool) (chunks : List (List Char)), chunks.length < fuel →
    wordsOf (wrapLines width fuel first chunks).flatten = wordsOf chunks := by
  intro fuel
  induction fuel with
  | zero => intro first chunks h; omega
  | succ fuel ih =>
    intro first chunks hf
    cases chunks with
    | nil => simp [wrapLines, wordsOf]
    | cons ch rest =>
      simp only [wrapLines]
      have key : ∀ (c0 : List Char) (rest0 : List (List Char)), (c0 :: rest0).length < fuel + 1 →
          wordsOf (let st := lineStep width c0 rest0
            let tail := wrapLines width fuel false st.2
            if st.1.isEmpty then tail else st.1 :: tail).flatten = wordsOf (c0 :: rest0) := by
        intro c0 rest0 hlen
        obtain ⟨hw, hl, _, _⟩ := lineStep_spec width c0 rest0
        have ihm := ih false (lineStep width c0 rest0).2 (by omega)
        simp only []
        rw [← hw, ← ihm]
        by_cases hce : (lineStep width c0 rest0).1.isEmpty = true
        · rw [if_pos hce]
          have : (lineStep width c0 rest0).1 = [] := by simpa using hce
          rw [this]; simp [wordsOf]
        · rw [if_neg hce, List.flatten_cons, wordsOf_append]
      by_cases hdrop : (!first && isBlankChunk ch) = true
      · simp only [hdrop, if_true]
        have hw : wordsOf (ch :: rest) = wordsOf rest := by
          have hb : isBlankChunk ch = true := by simp at hdrop; exact hdrop.2
          simp [wordsOf, hb]
        rw [hw]
        cases rest with
        | nil => simp [wordsOf]
        | cons c0 rest0 =>
          exact key c0 rest0 (by simp only [List.length_cons] at hf ⊢; omega)
      · simp only [hdrop]
        exact key ch rest hf

/-- no line is longer than the width, if no chunk is -/
theorem wrapLines_length (width : Nat) : ∀ (fuel : Nat) (first : Bool) (chunks : List (List Char)),
    (∀ ch ∈ chunks, ch.length ≤ width) → ∀ line ∈ wrapLines width fuel first chunks, total line ≤ width := by
  intro fuel
  induction fuel with
  | zero => intro first chunks _ line hl; simp [wrapLines] at hl
  | succ fuel ih =>
    intro first chunks hle line hl
    cases chunks with
    | nil => simp [wrapLines] at hl
    | cons ch rest =>
      simp only [wrapLines] at hl
      have key : ∀ (c0 : List Char) (rest0 : List (List Char)), (∀ x ∈ c0 :: rest0, x.length ≤ width) →
          line ∈ (let st := lineStep width c0 rest0
            let tail := wrapLines width fuel false st.2
            if st.1.isEmpty then tail else st.1 :: tail) → total line ≤ width := by
        intro c0 rest0 hle0 hmem
        obtain ⟨_, _, hsub, ht⟩ := lineStep_spec width c0 rest0
        have hrest : ∀ x ∈ (lineStep width c0 rest0).2, x.length ≤ width := fun x hx => hle0 x (hsub x hx)
        simp only [] at hmem
        split at hmem
        · exact ih false _ hrest line hmem
        · rw [List.mem_cons] at hmem
          rcases hmem with rfl | hmem
          · exact ht (hle0 c0 (by simp))
          · exact ih false _ hrest line hmem
      by_cases hdrop : (!first && isBlankChunk ch) = true
      · simp only [hdrop, if_true] at hl
        cases rest with
        | nil => simp at hl
        | cons c0 rest0 =>
          exact key c0 rest0 (fun x hx => hle x (List.mem_cons_of_mem _ hx)) hl
      · simp only [hdrop] at hl
        exact key ch rest hle hl

end Proofs.WrapLines
