/-
  Proofs.SvgText — the XML escaping of the model of `write_svg` (Model/SvgDoc.lean: `escape`, `quoteattr` of
  xml.sax.saxutils) read back with a reference decoder of character data / attribute values.  Mathlib-free.
-/
import Model.SvgDoc

namespace Proofs.SvgText

open Model.Svg

/-- an entity / character reference the writer uses at the start of the list: (character it stands for, its length) -/
def entityAt (s : List Char) : Option (Char × Nat) :=
  if (stripPrefix? "&amp;".toList s).isSome then some ('&', 5)
  else if (stripPrefix? "&lt;".toList s).isSome then some ('<', 4)
  else if (stripPrefix? "&gt;".toList s).isSome then some ('>', 4)
  else if (stripPrefix? "&quot;".toList s).isSome then some ('"', 6)
  else if (stripPrefix? "&#10;".toList s).isSome then some ('\n', 5)
  else if (stripPrefix? "&#13;".toList s).isSome then some ('\r', 5)
  else if (stripPrefix? "&#9;".toList s).isSome then some ('\t', 4)
  else none

/-- reference decoder of XML character data / attribute values (first argument: characters of a reference still to skip) -/
def decodeGo : Nat → List Char → List Char
  | _, [] => []
  | skip + 1, _ :: cs => decodeGo skip cs
  | 0, c :: cs =>
    match entityAt (c :: cs) with
    | some (d, n) => d :: decodeGo (n - 1) cs
    | none => c :: decodeGo 0 cs

def xmlDecode (s : List Char) : List Char := decodeGo 0 s

/-- what the writer prints for one character of an attribute value (`qm`: the value is delimited by `"` and contains both
    kinds of quotes, so `"` is written as `&quot;`) or of character data (`attr = false`: only `&`, `<`, `>`) -/
def enc (attr qm : Bool) (c : Char) : List Char :=
  if c = '&' then "&amp;".toList else if c = '>' then "&gt;".toList else if c = '<' then "&lt;".toList
  else if attr && c = '\n' then "&#10;".toList else if attr && c = '\r' then "&#13;".toList else if attr && c = '\t' then "&#9;".toList
  else if qm && c = '"' then "&quot;".toList else [c]

theorem flatMap_congr' {α β : Type} (l : List α) (f g : α → List β) (h : ∀ a ∈ l, f a = g a) : l.flatMap f = l.flatMap g := by
  induction l with
  | nil => rfl
  | cons a r ih => rw [List.flatMap_cons, List.flatMap_cons, h a (by simp), ih (fun x hx => h x (by simp [hx]))]

theorem escape_eq (s : List Char) : escape s = s.flatMap (enc false false) := by
  unfold escape
  apply flatMap_congr'
  intro c _
  unfold enc
  by_cases h1 : c = '&' <;> by_cases h2 : c = '>' <;> by_cases h3 : c = '<' <;> simp [h1, h2, h3]

theorem entityAt_plain (c : Char) (cs : List Char) (h : c ≠ '&') : entityAt (c :: cs) = none := by
  have hh : ('&' == c) = false := by simp [Ne.symm h]
  simp [entityAt, stripPrefix?, hh]

/-- decoding what was written for one character gives the character back -/
theorem decode_enc (attr qm : Bool) (c : Char) (rest : List Char) :
    decodeGo 0 (enc attr qm c ++ rest) = c :: decodeGo 0 rest := by
  unfold enc
  by_cases h1 : c = '&'
  · subst h1; simp [decodeGo, entityAt, stripPrefix?]
  by_cases h2 : c = '>'
  · subst h2; simp [decodeGo, entityAt, stripPrefix?]
  by_cases h3 : c = '<'
  · subst h3; simp [decodeGo, entityAt, stripPrefix?]
  simp only [h1, h2, h3, if_false]
  by_cases h4 : (attr && decide (c = '\n')) = true
  · simp only [h4, if_true]
    simp [decodeGo, entityAt, stripPrefix?]
    simp at h4; exact h4.2.symm
  by_cases h5 : (attr && decide (c = '\r')) = true
  · simp only [h4, h5, if_true]
    simp [decodeGo, entityAt, stripPrefix?]
    simp at h5; exact h5.2.symm
  by_cases h6 : (attr && decide (c = '\t')) = true
  · simp only [h4, h5, h6, if_true]
    simp [decodeGo, entityAt, stripPrefix?]
    simp at h6; exact h6.2.symm
  by_cases h7 : (qm && decide (c = '"')) = true
  · simp only [h4, h5, h6, h7, if_true]
    simp [decodeGo, entityAt, stripPrefix?]
    simp at h7; exact h7.2.symm
  · simp only [h4, h5, h6, h7]
    simp only [Bool.false_eq_true, if_false, List.cons_append, List.nil_append, decodeGo, entityAt_plain c rest h1]

theorem decode_flatMap (attr qm : Bool) (s : List Char) : xmlDecode (s.flatMap (enc attr qm)) = s := by
  unfold xmlDecode
  induction s with
  | nil => rfl
  | cons c rest ih => rw [List.flatMap_cons, decode_enc, ih]

/-- no markup character survives, and `"` does not if `qm` -/
theorem enc_clean (attr qm : Bool) (c : Char) : ∀ x ∈ enc attr qm c, x ≠ '<' ∧ x ≠ '>' ∧ (qm = true → x ≠ '"')
    ∧ (attr = true → x ≠ '\n' ∧ x ≠ '\r' ∧ x ≠ '\t') := by
  intro x hx
  unfold enc at hx
  split at hx
  · simp at hx; rcases hx with rfl | rfl | rfl | rfl | rfl <;> exact ⟨by decide, by decide, fun _ => by decide, fun _ => by decide⟩
  split at hx
  · simp at hx; rcases hx with rfl | rfl | rfl | rfl <;> exact ⟨by decide, by decide, fun _ => by decide, fun _ => by decide⟩
  split at hx
  · simp at hx; rcases hx with rfl | rfl | rfl | rfl <;> exact ⟨by decide, by decide, fun _ => by decide, fun _ => by decide⟩
  split at hx
  · simp at hx; rcases hx with rfl | rfl | rfl | rfl | rfl <;> exact ⟨by decide, by decide, fun _ => by decide, fun _ => by decide⟩
  split at hx
  · simp at hx; rcases hx with rfl | rfl | rfl | rfl | rfl <;> exact ⟨by decide, by decide, fun _ => by decide, fun _ => by decide⟩
  split at hx
  · simp at hx; rcases hx with rfl | rfl | rfl | rfl <;> exact ⟨by decide, by decide, fun _ => by decide, fun _ => by decide⟩
  split at hx
  · simp at hx; rcases hx with rfl | rfl | rfl | rfl | rfl | rfl <;> exact ⟨by decide, by decide, fun _ => by decide, fun _ => by decide⟩
  · simp only [List.mem_singleton] at hx
    subst hx
    rename_i h1 h2 h3 h4 h5 h6 h7
    refine ⟨h3, h2, ?_, ?_⟩
    · intro hq; subst hq; simpa using h7
    · intro ha; subst ha
      refine ⟨by simpa using h4, by simpa using h5, by simpa using h6⟩

/-- the first two stages of `quoteattr` (escape, then `\n` `\r` `\t`) as one pass -/
theorem stage2_eq (s : List Char) :
    (escape s).flatMap (fun c => if c == '\n' then "&#10;".toList else if c == '\r' then "&#13;".toList else if c == '\t' then "&#9;".toList else [c])
      = s.flatMap (enc true false) := by
  rw [escape_eq, List.flatMap_assoc]
  apply flatMap_congr'
  intro c _
  unfold enc
  by_cases h1 : c = '&'
  · subst h1; decide
  by_cases h2 : c = '>'
  · subst h2; decide
  by_cases h3 : c = '<'
  · subst h3; decide
  by_cases h4 : c = '\n'
  · subst h4; decide
  by_cases h5 : c = '\r'
  · subst h5; decide
  by_cases h6 : c = '\t'
  · subst h6; decide
  simp [h1, h2, h3, h4, h5, h6]

/-- the third stage (`"` → `&quot;`, only if the value contains both kinds of quotes) -/
theorem stage3_eq (s : List Char) :
    (s.flatMap (enc true false)).flatMap (fun c => if c == '"' then "&quot;".toList else [c]) = s.flatMap (enc true true) := by
  rw [List.flatMap_assoc]
  apply flatMap_congr'
  intro c _
  unfold enc
  by_cases h1 : c = '&'
  · subst h1; decide
  by_cases h2 : c = '>'
  · subst h2; decide
  by_cases h3 : c = '<'
  · subst h3; decide
  by_cases h4 : c = '\n'
  · subst h4; decide
  by_cases h5 : c = '\r'
  · subst h5; decide
  by_cases h6 : c = '\t'
  · subst h6; decide
  by_cases h7 : c = '"'
  · subst h7; decide
  simp [h1, h2, h3, h4, h5, h6, h7]

theorem mem_flatMap_enc (attr qm : Bool) (s : List Char) : ∀ x ∈ s.flatMap (enc attr qm), x ≠ '<' ∧ x ≠ '>' ∧ (qm = true → x ≠ '"')
    ∧ (attr = true → x ≠ '\n' ∧ x ≠ '\r' ∧ x ≠ '\t') := by
  intro x hx
  rw [List.mem_flatMap] at hx
  obtain ⟨c, _, hc⟩ := hx
  exact enc_clean attr qm c x hc

end Proofs.SvgText
