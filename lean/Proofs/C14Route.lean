/-
  Proofs.C14Route — the ROUTE layer (Model/Routes.lean) over the complete serialiser environment `Model.RoutesVec.fullEnv`: on
  documented arguments every route ends with its result, ValueError, or an error of the codec service (UnicodeError, LookupError);
  the TypeErrors of Python's keyword binding are characterised.  Helper lemmas for Props/C14Routes.lean.
  (Auxiliary lemmas: Proofs/C14RouteAux.lean.)
-/
import Proofs.C14RouteDefs
import Props.C14Serializers
import Proofs.C14RouteAux

namespace Proofs.C14Route
open Gen (PyV)
open Model Model.Cli Model.Routes Model.RoutesDocs Model.RoutesVec Proofs.C14Ser Proofs.Routes Proofs.Png

section
variable (svc : Services) (vs : VecServices) (rt : Runtime) (M : List (List Nat)) (w h : Nat) (rest : String → Config → R SerOut)

private theorem shape_bytes {key : String} {so : SerOut} (hb : ∃ b, so = .bytes b) (h1 : key ≠ "svg") (h2 : key ∉ textKinds) :
    (key = "svg" → ∃ s e, so = .text s (some e)) ∧ (key ∈ binaryKinds → ∃ b, so = .bytes b) ∧ (key ∈ textKinds → ∃ s, so = .text s none) :=
  ⟨fun h => absurd h h1, fun _ => hb, fun h => absurd h h2⟩

private theorem shape_text {key : String} {so : SerOut} (hb : ∃ s, so = .text s none) (h1 : key ≠ "svg") (h2 : key ∉ binaryKinds) :
    (key = "svg" → ∃ s e, so = .text s (some e)) ∧ (key ∈ binaryKinds → ∃ b, so = .bytes b) ∧ (key ∈ textKinds → ∃ s, so = .text s none) :=
  ⟨fun h => absurd h h1, fun h => absurd h h2, fun _ => hb⟩

/-- what a serialiser hands to `writable`: `write_svg` text with its encoding, the binary kinds bytes, the text kinds text -/
theorem ser_shape (key : String) (kw : Config) (hdoc : DocumentedSer key kw) (hfit : key = "png" → PngFits svc M w h kw) (so : SerOut)
    (hso : (fullEnv svc vs rt M w h rest).ser key kw = .ok so) :
    (key = "svg" → ∃ s e, so = .text s (some e)) ∧ (key ∈ binaryKinds → ∃ b, so = .bytes b) ∧ (key ∈ textKinds → ∃ s, so = .text s none) := by
  rw [ser_eq_read svc vs rt M w h rest key kw hdoc] at hso
  have hk := hdoc.1
  simp only [kinds, List.mem_cons, List.not_mem_nil, or_false] at hk
  have hB : ∀ r : R (List Nat), bytesOut r = .ok so → ∃ b, so = .bytes b := fun r hr => by
    obtain ⟨d, _, hd⟩ := bytesOut_ok r so hr; exact ⟨d, hd⟩
  have hT : ∀ r : R (List Char), textOut r = .ok so → ∃ s, so = .text s none := fun r hr => by
    obtain ⟨d, _, hd⟩ := textOut_ok r so hr; exact ⟨d, hd⟩
  rcases hk with rfl | rfl | rfl | rfl | rfl | rfl | rfl | rfl | rfl | rfl | rfl | rfl | rfl
  · -- svg
    refine ⟨fun _ => ?_, fun hb => absurd hb (by decide), fun hb => absurd hb (by decide)⟩
    change (if refusedFloat (val "svg" kw "border") then _ else _) = _ at hso
    cases hf : refusedFloat (val "svg" kw "border") with
    | true => rw [hf] at hso; simp only [if_true] at hso; cases hso
    | false =>
      rw [hf] at hso
      simp only [Bool.false_eq_true, if_false, svgDoc, bind, Except.bind] at hso
      split at hso
      · cases hso
      · simp only [pure, Except.pure, Except.ok.injEq] at hso
        exact ⟨_, _, hso.symm⟩
  · -- png
    refine shape_bytes ?_ (by decide) (by decide)
    have hf : pngFileV svc M w h (val "png" kw) ≠ .ok none := hfit rfl
    change pngOut (rest "png" (completed "png" kw)) (pngFileV svc M w h (val "png" kw)) = _ at hso
    cases hp : pngFileV svc M w h (val "png" kw) with
    | error e => rw [hp] at hso; cases hso
    | ok f =>
      cases f with
      | none => exact absurd hp hf
      | some bs => rw [hp] at hso; simp only [pngOut, Except.ok.injEq] at hso; exact ⟨bs, hso.symm⟩
  · -- eps
    refine shape_text ?_ (by decide) (by decide)
    change (if refusedFloat (val "eps" kw "border") then _ else _) = _ at hso
    cases hf : refusedFloat (val "eps" kw "border") with
    | true => rw [hf] at hso; simp only [if_true] at hso; cases hso
    | false =>
      rw [hf] at hso
      simp only [Bool.false_eq_true, if_false] at hso
      obtain ⟨a, ha⟩ := map_ok_shape _ _ _ hso
      exact ⟨_, ha⟩
  · exact shape_text (hT _ hso) (by decide) (by decide)   -- txt
  · -- pdf
    refine shape_bytes ?_ (by decide) (by decide)
    change (if refusedFloat (val "pdf" kw "border") then _ else _) = _ at hso
    cases hf : refusedFloat (val "pdf" kw "border") with
    | true => rw [hf] at hso; simp only [if_true] at hso; cases hso
    | false =>
      rw [hf] at hso
      simp only [Bool.false_eq_true, if_false] at hso
      obtain ⟨a, ha⟩ := map_ok_shape _ _ _ hso
      exact ⟨_, ha⟩
  · exact shape_text (hT _ hso) (by decide) (by decide)   -- ans
  · exact shape_bytes (hB _ hso) (by decide) (by decide)  -- pbm
  · exact shape_bytes (hB _ hso) (by decide) (by decide)  -- pam
  · exact shape_bytes (hB _ hso) (by decide) (by decide)  -- ppm
  · -- tex
    refine shape_text ?_ (by decide) (by decide)
    change (if refusedFloat (val "tex" kw "border") then _ else _) = _ at hso
    cases hf : refusedFloat (val "tex" kw "border") with
    | true => rw [hf] at hso; simp only [if_true] at hso; cases hso
    | false =>
      rw [hf] at hso
      simp only [Bool.false_eq_true, if_false] at hso
      obtain ⟨a, ha⟩ := map_ok_shape _ _ _ hso
      exact ⟨_, ha⟩
  · exact shape_text (hT _ hso) (by decide) (by decide)   -- xbm
  · exact shape_text (hT _ hso) (by decide) (by decide)   -- xpm
  · exact shape_text (hT _ hso) (by decide) (by decide)   -- compact

/-- the target of a plan suits its serialiser -/
def TargetOK (p : Plan) : Prop :=
  match p.target with
  | .out sink => SinkOK p.key sink = true
  | .gzipOf _ sink => p.key = "svg" ∧ sink ≠ .txt
  | .buffer => p.key = "svg" ∨ p.key ∈ binaryKinds
  | .stdout => p.key ∈ textKinds

/-- the post-processing of a plan has what it needs: a buffer to read, an encoding that is a str -/
def PostOK (p : Plan) : Prop :=
  match p.post with
  | .nothing => True
  | .decode enc => p.target = .buffer ∧ ∃ e, enc = .str e
  | .svgUri enc _ noCharset => p.target = .buffer ∧ (noCharset = true ∨ ∃ e, enc = .str e)
  | .pngUri => p.target = .buffer

/-- the target receives the document: a result or an error of the codec; a buffer holds bytes -/
theorem runTarget_ends (env : Env) (P : PyErr → Prop) (he : EnvP env P) (p : Plan) (ht : TargetOK p) (so : SerOut) (hsh : ShapeOK p.key so) :
    EndsP P (runTarget env p.target so) ∧ (p.target = .buffer → ∀ x, runTarget env p.target so = .ok x → ∃ b, x = .bytes b) := by
  obtain ⟨key, kw, target, post⟩ := p
  cases target with
  | out sink =>
    refine ⟨?_, fun hb => by cases hb⟩
    simp only [TargetOK] at ht
    simp only [runTarget]
    cases sink with
    | file => exact writable_file_ends env P he so
    | bin =>
      rw [writable_bin]
      refine endsP_map (writableBin_ends env P he so (shape_bin hsh ?_)) _
      simpa [SinkOK] using ht
    | txt =>
      have : key ∈ textKinds := by simpa [SinkOK] using ht
      obtain ⟨s, rfl⟩ := hsh.2.2 this
      exact Or.inl ⟨_, rfl⟩
  | gzipOf level sink =>
    refine ⟨?_, fun hb => by cases hb⟩
    simp only [TargetOK] at ht
    simp only [runTarget]
    exact endsP_bind_pure (writableBin_ends env P he so (shape_bin hsh (Or.inl ht.1))) _
  | buffer =>
    simp only [TargetOK] at ht
    simp only [runTarget]
    refine ⟨endsP_bind_pure (writableBin_ends env P he so (shape_bin hsh ht)) _, fun _ x hx => ?_⟩
    cases hw : writableBin env so with
    | error e => rw [hw] at hx; cases hx
    | ok b => rw [hw] at hx; simp only [bind, Except.bind, pure, Except.pure, Except.ok.injEq] at hx; exact ⟨b, hx.symm⟩
  | stdout =>
    refine ⟨?_, fun hb => by cases hb⟩
    simp only [TargetOK] at ht
    obtain ⟨s, rfl⟩ := hsh.2.2 ht
    exact Or.inl ⟨_, rfl⟩

theorem openTarget_cases (env : Env) (P : PyErr → Prop) (he : EnvP env P) (p : Plan) (ht : TargetOK p) :
    openTarget env p.target = .ok () ∨ openTarget env p.target = .error .valueError := by
  obtain ⟨key, kw, target, post⟩ := p
  cases target with
  | gzipOf l s =>
    simp only [TargetOK] at ht
    have hs : (s == Sink.txt) = false := by
      cases s
      · rfl
      · rfl
      · exact absurd rfl ht.2
    simp only [openTarget, bind, Except.bind, hs]
    rcases he.gzip l with hg | hg
    · rw [hg]; left; rfl
    · rw [hg]; right; rfl
  | out s => left; rfl
  | buffer => left; rfl
  | stdout => left; rfl

/-- **executing a plan in any environment**: the serialiser call ends in a document of the right shape or in ValueError, the
    target suits the serialiser, the post-processing has what it needs -/
theorem execute_ends_env (env : Env) (P : PyErr → Prop) (he : EnvP env P) (p : Plan)
    (hser : (∃ so, env.ser p.key p.kw = .ok so) ∨ env.ser p.key p.kw = .error .valueError)
    (hshape : ∀ so, env.ser p.key p.kw = .ok so → ShapeOK p.key so) (ht : TargetOK p) (hp : PostOK p) :
    EndsP P (execute env p) := by
  unfold execute
  rcases openTarget_cases env P he p ht with ho | ho
  · rw [ho]
    simp only [bind, Except.bind]
    rcases hser with ⟨so, hso⟩ | hve
    · obtain ⟨hr, hbuf⟩ := runTarget_ends env P he p ht so (hshape so hso)
      rw [hso]
      simp only
      cases hw : runTarget env p.target so with
      | error x =>
        rw [hw] at hr
        rcases hr with ⟨y, hy⟩ | hv | ⟨y, hy, hP⟩
        · cases hy
        · cases hv; exact Or.inr (Or.inl rfl)
        · cases hy; exact Or.inr (Or.inr ⟨_, rfl, hP⟩)
      | ok wr =>
        simp only
        obtain ⟨key, kw, target, post⟩ := p
        cases post with
        | nothing => exact Or.inl ⟨_, rfl⟩
        | decode enc =>
          simp only [PostOK] at hp
          obtain ⟨htb, e, rfl⟩ := hp
          obtain ⟨b, rfl⟩ := hbuf htb wr hw
          simp only
          exact endsP_bind_pure (he.decode e b) _
        | svgUri enc mn noCharset =>
          simp only [PostOK] at hp
          obtain ⟨htb, hcs⟩ := hp
          obtain ⟨b, rfl⟩ := hbuf htb wr hw
          simp only
          rcases hcs with rfl | ⟨e, rfl⟩
          · exact Or.inl ⟨_, rfl⟩
          · cases noCharset <;> exact Or.inl ⟨_, rfl⟩
        | pngUri =>
          simp only [PostOK] at hp
          obtain ⟨b, rfl⟩ := hbuf hp wr hw
          exact Or.inl ⟨_, rfl⟩
    · rw [hve]
      exact Or.inr (Or.inl rfl)
  · rw [ho]
    exact Or.inr (Or.inl rfl)

theorem envP_of_runtimeOK (hrt : RuntimeOK rt) : EnvP (fullEnv svc vs rt M w h rest) (fun x => x = .unicodeError ∨ x = .lookupError) := by
  refine ⟨fun e s => ?_, fun e b => ?_, hrt.gzip⟩
  · rcases hrt.codec e s with hc | hc | hc
    · exact Or.inl hc
    · exact Or.inr (Or.inr ⟨_, hc, Or.inl rfl⟩)
    · exact Or.inr (Or.inr ⟨_, hc, Or.inr rfl⟩)
  · rcases hrt.decode e b with hc | hc | hc
    · exact Or.inl hc
    · exact Or.inr (Or.inr ⟨_, hc, Or.inl rfl⟩)
    · exact Or.inr (Or.inr ⟨_, hc, Or.inr rfl⟩)

theorem envP_of_known (hrt : RuntimeOK rt) (hk : CodecKnows rt) : EnvP (fullEnv svc vs rt M w h rest) (fun x => x = .unicodeError) := by
  refine ⟨fun e s => ?_, fun e b => ?_, hrt.gzip⟩
  · rcases hrt.codec e s with hc | hc | hc
    · exact Or.inl hc
    · exact Or.inr (Or.inr ⟨_, hc, rfl⟩)
    · exact absurd hc (hk.1 e s)
  · rcases hrt.decode e b with hc | hc | hc
    · exact Or.inl hc
    · exact Or.inr (Or.inr ⟨_, hc, rfl⟩)
    · exact absurd hc (hk.2 e b)

/-- executing a plan whose serialiser call is documented, relative to the class `P` of errors the codec of the environment raises -/
theorem execute_ends (P : PyErr → Prop) (hs : SymbolShaped M w h) (hset : SetOrderOK svc.setOrder)
    (he : EnvP (fullEnv svc vs rt M w h rest) P) (p : Plan)
    (hdoc : DocumentedSer p.key p.kw) (hfit : p.key = "png" → PngFits svc M w h p.kw) (ht : TargetOK p) (hp : PostOK p) :
    EndsP P (execute (fullEnv svc vs rt M w h rest) p) :=
  execute_ends_env _ P he p (Props.C14Ser.serializer_no_crash svc vs rt M w h rest hs hset p.key p.kw hdoc hfit)
    (fun so hso => ser_shape svc vs rt M w h rest p.key p.kw hdoc hfit so hso) ht hp

/-- executing a plan whose serialiser call is documented -/
theorem execute_clean (hs : SymbolShaped M w h) (hset : SetOrderOK svc.setOrder) (hrt : RuntimeOK rt) (p : Plan)
    (hdoc : DocumentedSer p.key p.kw) (hfit : p.key = "png" → PngFits svc M w h p.kw) (ht : TargetOK p) (hp : PostOK p) :
    RouteClean (execute (fullEnv svc vs rt M w h rest) p) :=
  (routeClean_iff _).2 (execute_ends svc vs rt M w h rest _ hs hset (envP_of_runtimeOK svc vs rt M w h rest hrt) p hdoc hfit ht hp)

/-- … and a codec that knows its encodings leaves ValueError (with its subclass UnicodeError) as the only exception -/
theorem execute_clean_known (hs : SymbolShaped M w h) (hset : SetOrderOK svc.setOrder) (hrt : RuntimeOK rt) (hk : CodecKnows rt) (p : Plan)
    (hdoc : DocumentedSer p.key p.kw) (hfit : p.key = "png" → PngFits svc M w h p.kw) (ht : TargetOK p) (hp : PostOK p) :
    execute (fullEnv svc vs rt M w h rest) p ≠ .error .lookupError := by
  intro hl
  rcases execute_ends svc vs rt M w h rest _ hs hset (envP_of_known svc vs rt M w h rest hrt hk) p hdoc hfit ht hp with ⟨x, hx⟩ | hv | ⟨x, hx, hu⟩
  · rw [hx] at hl; cases hl
  · rw [hv] at hl; cases hl
  · rw [hx] at hl; cases hl; cases hu

/-- a result of `save` / `terminal` is what was written -/
theorem execute_written (p : Plan) (hp : p.post = .nothing) (r : Result) (env : Env) (h : execute env p = .ok r) : ∃ wr, r = .written wr := by
  obtain ⟨key, kw, target, post⟩ := p
  simp only at hp
  subst hp
  unfold execute at h
  simp only [bind, Except.bind] at h
  cases ho : openTarget env target with
  | error e => rw [ho] at h; cases h
  | ok u =>
    rw [ho] at h
    simp only at h
    cases hs : env.ser key kw with
    | error e => rw [hs] at h; cases h
    | ok so =>
      rw [hs] at h
      simp only at h
      cases hw : runTarget env target so with
      | error e => rw [hw] at h; cases h
      | ok wr =>
        rw [hw] at h
        simp only [pure, Except.pure, Except.ok.injEq] at h
        exact ⟨wr, h.symm⟩

/-- no option of a serialiser is one of the parameter names of `QRCode.save` / `writers.save` -/
theorem documented_free (key : String) (kw : Config) (hdoc : DocumentedSer key kw) : Free saveReserved kw := by
  intro k hk
  cases hc : cget kw k with
  | none => rfl
  | some v =>
    obtain ⟨ty, hm, _⟩ := documented_key hdoc (cget_mem hc)
    exact absurd rfl (reserved_not_options key hdoc.1 k hk _ hm)

/-- why `DocumentedSave` needs its field `free`: `qr.save('a.xyz', out=None)` raises TypeError ("got multiple values for argument
    'out'") in every environment, before the ValueError of the failing dispatch -/
theorem save_reserved_before_dispatch (env : Env) :
    save env (.path "a.xyz".toList) none [("out", .none)] = .error .typeError :=
  save_refused _ _ _ _ (fun hf => by have := hf "out" (by decide); revert this; decide)

/-- `QRCode.save`, the freedom from reserved names spelled out -/
theorem save_clean' (hs : SymbolShaped M w h) (hset : SetOrderOK svc.setOrder) (hrt : RuntimeOK rt) (out : OutArg) (kind : Option Str) (kw : Config)
    (hd : DocumentedSave svc M w h out kind kw) (hfree : Free saveReserved kw) :
    RouteClean (save (fullEnv svc vs rt M w h rest) out kind kw) := by
  unfold save
  rw [savePlan_free _ _ _ hfree]
  cases hdis : dispatchOf out kind with
  | error e =>
    rcases dispatchOf_error out kind e hdis with rfl | ⟨hk, b, ho⟩
    · exact Or.inr (Or.inl rfl)
    · exact absurd ho (hd.named hk b)
  | ok kg =>
    obtain ⟨key, gz⟩ := kg
    obtain ⟨hdoc, hsink, hgz, hfit⟩ := hd.opts key gz hdis
    simp only [Except.map, bind, Except.bind]
    cases gz with
    | false =>
      apply execute_clean svc vs rt M w h rest hs hset hrt
      · exact hdoc
      · exact hfit
      · exact hsink
      · trivial
    | true =>
      have hsvg := dispatchOf_gz out kind key hdis
      apply execute_clean svc vs rt M w h rest hs hset hrt
      · exact hdoc
      · intro hp
        have hp' : key = "png" := hp
        rw [hsvg] at hp'
        exact absurd hp' (by decide)
      · exact ⟨hsvg, (hgz rfl).1⟩
      · trivial

/-- `QRCode.save` on its documented domain -/
theorem save_clean (hs : SymbolShaped M w h) (hset : SetOrderOK svc.setOrder) (hrt : RuntimeOK rt) (out : OutArg) (kind : Option Str) (kw : Config)
    (hd : DocumentedSave svc M w h out kind kw) :
    RouteClean (save (fullEnv svc vs rt M w h rest) out kind kw) :=
  save_clean' svc vs rt M w h rest hs hset hrt out kind kw hd hd.free

/-- `QRCode.svg_inline` -/
theorem svgInline_clean (hs : SymbolShaped M w h) (hset : SetOrderOK svc.setOrder) (hrt : RuntimeOK rt) (kw : Config) (hd : DocumentedInline kw) :
    RouteClean (svgInline (fullEnv svc vs rt M w h rest) kw) := by
  obtain ⟨hdoc, hnf⟩ := hd
  have hfree := documented_free "svg" kw hdoc
  have hcall : callKw inlineForced kw = .ok (inlineForced ++ kw) := by
    unfold callKw
    have : kw.any (fun e => inlineForced.any (·.1 == e.1)) = false := by
      rw [Bool.eq_false_iff]
      intro hany
      obtain ⟨e, he, hx⟩ := List.any_eq_true.1 hany
      apply hnf e he
      obtain ⟨q, hq, hqe⟩ := List.any_eq_true.1 hx
      have hqe' : q.1 = e.1 := by simpa using hqe
      rw [← hqe']
      simp only [inlineForced, List.mem_cons, List.not_mem_nil, or_false] at hq
      rcases hq with rfl | rfl | rfl <;> decide
    simp only [this]
    rfl
  have hdoc' : DocumentedSer "svg" (inlineForced ++ kw) := ⟨by decide, fun e he => by
    rcases List.mem_append.1 he with h1 | h1
    · exact inlineForced_typed e h1
    · exact hdoc.2 e h1⟩
  have hfree' : Free saveReserved (inlineForced ++ kw) := documented_free "svg" _ hdoc'
  have hplan : svgInlinePlan kw
      = .ok { key := "svg", kw := inlineForced ++ kw, target := .buffer, post := .decode ((cget kw "encoding").getD (.str "utf-8")) } := by
    unfold svgInlinePlan
    rw [refuseNames_free _ _ (free_mono hfree (by simp [saveReserved])), hcall]
    simp only [bind, Except.bind]
    rw [savePlan_free _ _ _ hfree', dispatch_svg_kind]
    rfl
  unfold svgInline
  rw [hplan]
  simp only [bind, Except.bind]
  apply execute_clean svc vs rt M w h rest hs hset hrt
  · exact hdoc'
  · intro hp; exact absurd (show "svg" = "png" from hp) (by decide)
  · exact Or.inl rfl
  · exact ⟨rfl, encoding_str kw hdoc⟩

/-- `QRCode.svg_data_uri` -/
theorem svgDataUri_clean (hs : SymbolShaped M w h) (hset : SetOrderOK svc.setOrder) (hrt : RuntimeOK rt) (kw : Config) (hd : DocumentedSvgUri kw) :
    RouteClean (svgDataUri (fullEnv svc vs rt M w h rest) kw) := by
  have hdoc : DocumentedSer "svg" (dropKeys ["encode_minimal", "omit_charset"] kw) := hd
  have hfree0 := documented_free "svg" _ hdoc
  have hfree : Free saveReserved kw := by
    intro k hk
    have h0 := hfree0 k hk
    rw [cget_dropKeys] at h0
    have hc : ["encode_minimal", "omit_charset"].contains k = false := by
      simp only [saveReserved, List.mem_cons, List.not_mem_nil, or_false] at hk
      rcases hk with rfl | rfl | rfl | rfl | rfl <;> decide
    simpa only [hc, Bool.false_eq_true, if_false] using h0
  have hdoc' : DocumentedSer "svg" (uriSaveKw kw) := ⟨by decide, fun e he => by
    unfold uriSaveKw withDefaults at he
    rcases List.mem_append.1 he with h1 | h1
    · exact uriDefaults_typed e (List.mem_filter.1 h1).1
    · exact hdoc.2 e h1⟩
  have henc : (cget kw "encoding").getD (.str "utf-8") = (cget (dropKeys ["encode_minimal", "omit_charset"] kw) "encoding").getD (.str "utf-8") := by
    rw [cget_dropKeys]
    rfl
  rw [Props.C12Routes.svg_data_uri_eq_save _ kw hfree, save_bind_svgUri _ _ (free_uriSaveKw kw hfree)]
  apply execute_clean svc vs rt M w h rest hs hset hrt
  · exact hdoc'
  · intro hp; exact absurd (show "svg" = "png" from hp) (by decide)
  · exact Or.inl rfl
  · refine ⟨rfl, Or.inr ?_⟩
    rw [henc]
    exact encoding_str _ hdoc

/-- the keyword map `as_png_data_uri` hands to `write_png` reads like the caller's -/
theorem pngUri_val (kw kwPng : Config) (hd : DocumentedSer "png" kw) (hp : pngDataUriPlan kw = .ok { key := "png", kw := kwPng, target := .buffer, post := .pngUri }) :
    DocumentedSer "png" kwPng ∧ ∀ k, val "png" kwPng k = val "png" kw k := by
  unfold pngDataUriPlan at hp
  cases hr : refuseNames ["self"] kw with
  | error e => rw [hr] at hp; cases hp
  | ok u =>
    rw [hr] at hp
    simp only [bind, Except.bind] at hp
    cases ht : through asPngDataUriSig ["scale", "border", "compresslevel"] kw with
    | error e => rw [ht] at hp; cases hp
    | ok bi =>
      obtain ⟨b, inner⟩ := bi
      rw [ht] at hp
      simp only [pure, Except.pure, Except.ok.injEq, Plan.mk.injEq, true_and, and_true] at hp
      subst hp
      have hsub : ∀ k ∈ pngPasses, hasKey asPngDataUriSig.params k = true := by decide +kernel
      have ht' : through asPngDataUriSig pngPasses kw = .ok (b, inner) := ht
      obtain ⟨hc, hb, _⟩ := through_cget asPngDataUriSig pngPasses kw b inner ht' hsub
      have hin := through_inner asPngDataUriSig pngPasses kw b inner ht'
      -- the three named parameters receive the caller's value or the common default
      have hpass : ∀ k ∈ pngPasses, arg b k = val "png" kw k := by
        intro k hk
        rw [hb k (hsub k hk), png_pass_defaults k hk]
        rfl
      have hother : ∀ k, pngPasses.contains k = false → hasKey asPngDataUriSig.params k = false := by
        intro k hk
        simp only [pngPasses, List.contains_cons, List.contains_nil, Bool.or_false, Bool.or_eq_false_iff, beq_eq_false_iff_ne, ne_eq] at hk
        obtain ⟨h1, h2, h3⟩ := hk
        simp only [hasKey, asPngDataUriSig, List.any_cons, List.any_nil, Bool.or_false, Bool.or_eq_false_iff, beq_eq_false_iff_ne, ne_eq]
        exact ⟨fun e => h1 e.symm, fun e => h2 e.symm, fun e => h3 e.symm⟩
      refine ⟨⟨by decide, fun e he => ?_⟩, fun k => ?_⟩
      · rw [hin] at he
        rcases List.mem_append.1 he with h1 | h1
        · obtain ⟨k, hk, rfl⟩ := List.mem_map.1 h1
          obtain ⟨ty, hty⟩ := png_pass_types k hk
          have := val_typed "png" kw hd k ty hty
          rw [← hpass k hk] at this
          exact any_of_mem hty this
        · exact hd.2 e (List.mem_filter.1 h1).1
      · unfold val
        rw [hc k]
        cases hk : pngPasses.contains k with
        | true =>
          have hmem : k ∈ pngPasses := by simpa using hk
          simp only [if_true, Option.getD_some]
          rw [png_pass_defaults k hmem]
        | false =>
          simp only [hother k hk, Bool.false_eq_true, if_false]

/-- `QRCode.png_data_uri` -/
theorem pngDataUri_clean (hs : SymbolShaped M w h) (hset : SetOrderOK svc.setOrder) (hrt : RuntimeOK rt) (kw : Config)
    (hd : DocumentedSer "png" kw) (hfit : PngFits svc M w h kw) :
    RouteClean (pngDataUri (fullEnv svc vs rt M w h rest) kw) := by
  have hfree := documented_free "png" kw hd
  rw [Props.C12Routes.png_data_uri_eq_save _ kw hfree, save_bind_pngUri _ _ hfree]
  apply execute_clean svc vs rt M w h rest hs hset hrt
  · exact hd
  · intro _; exact hfit
  · exact Or.inr (show "png" ∈ binaryKinds by decide)
  · exact rfl

/-- `QRCode.terminal` -/
theorem terminal_clean (hs : SymbolShaped M w h) (hset : SetOrderOK svc.setOrder) (hrt : RuntimeOK rt) (out : Option OutArg) (border compact : PyV)
    (hd : DocumentedTerminal out border) :
    RouteClean (terminal (fullEnv svc vs rt M w h rest) out border compact) := by
  obtain ⟨hb, hout⟩ := hd
  have hkey : (terminalPlan out border compact).key = "ans" ∨ (terminalPlan out border compact).key = "compact" := by
    unfold terminalPlan
    cases truthy compact
    · exact Or.inl rfl
    · exact Or.inr rfl
  have htext : (terminalPlan out border compact).key ∈ textKinds := by
    rcases hkey with hk | hk <;> rw [hk] <;> decide
  unfold terminal
  apply execute_clean svc vs rt M w h rest hs hset hrt
  · exact terminal_doc _ hkey border hb
  · intro hp
    rcases hkey with hk | hk <;> rw [hk] at hp <;> exact absurd hp (by decide)
  · show match (terminalPlan out border compact).target with
      | .out sink => SinkOK (terminalPlan out border compact).key sink = true
      | .gzipOf _ sink => (terminalPlan out border compact).key = "svg" ∧ sink ≠ .txt
      | .buffer => (terminalPlan out border compact).key = "svg" ∨ (terminalPlan out border compact).key ∈ binaryKinds
      | .stdout => (terminalPlan out border compact).key ∈ textKinds
    cases out with
    | none => exact htext
    | some o =>
      cases o with
      | path n =>
        cases n with
        | nil => exact htext
        | cons c cs => rfl
      | stream b nm =>
        cases b with
        | true => exact absurd rfl (hout nm)
        | false =>
          show textKinds.contains (terminalPlan (some (.stream false nm)) border compact).key = true
          simpa using htext
  · trivial

end

/-- `QRCodeSequence.save`: every symbol of the sequence is saved by `QRCode.save` to the n-th name; the first failure ends the loop -/
theorem seqSave_clean (envs : List Env) (out : OutArg) (kind : Option Str) (kw : Config)
    (hall : ∀ env ∈ envs, ∀ n, RouteClean (save env (seqOut out envs.length n) kind kw)) :
    RouteClean (seqSave envs out kind kw) :=
  seqSaveGo_clean envs.length out kind kw envs 1 hall

/-! ### the TypeErrors of Python's keyword binding -/

/-- a keyword the serialiser does not know: "got an unexpected keyword argument" -/
theorem ser_unknown_keyword (env : Env) (key : String) (kw : Config) (hk : key ∈ kinds)
    (hu : ∃ e ∈ kw, ∀ p ∈ optTypes key, p.1 ≠ e.1) : env.ser key kw = .error .typeError := by
  unfold Env.ser
  rw [(completeKw_typeError_iff_aux key kw hk).2 hu]
  rfl

/-- exactly: the keyword binding of a serialiser call fails iff a keyword is not an option of the serialiser -/
theorem completeKw_typeError_iff (key : String) (kw : Config) (hk : key ∈ kinds) :
    completeKw key kw = .error .typeError ↔ ∃ e ∈ kw, ∀ p ∈ optTypes key, p.1 ≠ e.1 :=
  completeKw_typeError_iff_aux key kw hk

end Proofs.C14Route
