/-
  Proofs.RasterDocsText — the text writers: the line structure of `write_txt`, and the list-level readers of the
  ANSI terminal and compact terminal pictures (Spec/RasterL.lean) applied to the whole texts the model writes
  (Model/RasterDocs.lean).  Mathlib-free.
-/
import Proofs.RasterDocsNetpbm

namespace Proofs.RasterDocs

open Model Model.RasterDocs Spec Spec.L Proofs.Raster

/-! ### lines -/

theorem flatMap_comp {α β γ : Type} (F : α → β) (G : β → List γ) (l : List α) : l.flatMap (G ∘ F) = (l.map F).flatMap G := by
  induction l with
  | nil => rfl
  | cons a l ih => simp [ih]

theorem flatMap_congr' {α β : Type} (f g : α → List β) (l : List α) (h : ∀ x ∈ l, f x = g x) : l.flatMap f = l.flatMap g := by
  induction l with
  | nil => rfl
  | cons a l ih => simp [h a (by simp), ih (fun x hx => h x (by simp [hx]))]

theorem linesT_line (l : List Char) (hl : ∀ c ∈ l, c ≠ '\n') (rest : List Char) :
    ∀ cur, linesT (l ++ '\n' :: rest) cur = (linesT rest []).map (fun ls => (cur.reverse ++ l) :: ls) := by
  induction l with
  | nil => intro cur; simp only [List.nil_append, linesT, beq_self_eq_true, if_true, List.append_nil]; cases linesT rest [] <;> rfl
  | cons c l ih =>
    intro cur
    have hc : (c == '\n') = false := by simp [hl c (by simp)]
    simp only [List.cons_append, linesT, hc, Bool.false_eq_true, if_false]
    rw [ih (fun x hx => hl x (by simp [hx]))]
    simp

/-- a text made of lines (none of which contains a line feed), each terminated by a line feed -/
theorem linesT_flatMap (lines : List (List Char)) (h : ∀ l ∈ lines, ∀ c ∈ l, c ≠ '\n') :
    linesT (lines.flatMap (fun l => l ++ ['\n'])) [] = some lines := by
  induction lines with
  | nil => rfl
  | cons l rest ih =>
    simp only [List.flatMap_cons, List.append_assoc, List.singleton_append]
    rw [linesT_line l (h l (by simp)) _ [], ih (fun x hx => h x (by simp [hx]))]
    simp

theorem no_gt_one (g : List (List Nat)) (hg : ∀ r ∈ g, ∀ v ∈ r, v ≤ 1) : (g.any (fun row => row.any (· > 1))) = false := by
  rw [List.any_eq_false]
  intro r hr
  rw [Bool.not_eq_true, List.any_eq_false]
  intro v hv
  have := hg r hr v hv
  simp; omega

/-! ### `write_txt` -/

/-- TXT: the text consists of one line per grid row, each the concatenation of the strings configured for dark
    and light modules (what the judge compares) -/
theorem txt_doc {w h : Nat} {border : Option Num} {b : Nat} (a : Admitted w h (.int 1) border b)
    (M : List (List Nat)) (hM : WellFormed M w h) (hbits : Bits M) (dark light : List Char)
    (hd : ∀ c ∈ dark, c ≠ '\n') (hl : ∀ c ∈ light, c ≠ '\n') :
    ∃ doc, txtDoc M w h border dark light = .ok doc
      ∧ linesT doc [] = some ((grid M w h 1 b).map (fun row => row.flatMap (fun v => if v ≠ 0 then dark else light))) := by
  have hg := grid_bits M w h 1 b hbits
  have hdoc : txtDoc M w h border dark light
      = .ok ((grid M w h 1 b).flatMap (fun row => row.flatMap (fun v => if v == 0 then light else dark) ++ ['\n'])) := by
    simp only [txtDoc, matrixIter_one a M hM, no_gt_one _ hg, bind, Except.bind, pure, Except.pure, Bool.false_eq_true, if_false]
  refine ⟨_, hdoc, ?_⟩
  have hf : (fun row : List Nat => row.flatMap (fun v => if v == 0 then light else dark) ++ ['\n'])
      = (fun l => l ++ ['\n']) ∘ (fun row : List Nat => row.flatMap (fun v => if v ≠ 0 then dark else light)) := by
    funext row
    simp only [Function.comp]
    congr 1
    apply flatMap_congr'
    intro v _
    by_cases hv : v = 0 <;> simp [hv]
  rw [hf, flatMap_comp]
  apply linesT_flatMap
  intro l hl'
  simp only [List.mem_map] at hl'
  obtain ⟨row, _, rfl⟩ := hl'
  intro c hc
  simp only [List.mem_flatMap] at hc
  obtain ⟨v, _, hc⟩ := hc
  split at hc
  · exact hd c hc
  · exact hl c hc

/-! ### `write_terminal` -/

/-- run-length decoding -/
def unruns (rs : List (Nat × Nat)) : List Nat := rs.flatMap (fun e => List.replicate e.2 e.1)

theorem unruns_runs (row : List Nat) : unruns (runs row) = row := by
  induction row with
  | nil => rfl
  | cons x rest ih =>
    unfold runs
    cases hr : runs rest with
    | nil =>
      rw [hr] at ih
      simp only [unruns, List.flatMap_nil] at ih
      simp [unruns, ← ih]
    | cons e more =>
      obtain ⟨y, n⟩ := e
      rw [hr] at ih
      simp only
      by_cases hxy : (x == y) = true
      · have : x = y := by simpa using hxy
        subst this
        simp only [hxy, if_true]
        simp only [unruns, List.flatMap_cons] at ih ⊢
        rw [← ih]
        simp [List.replicate_succ]
      · simp only [hxy, Bool.false_eq_true, if_false]
        simp only [unruns, List.flatMap_cons] at ih ⊢
        rw [← ih]
        simp

theorem runs_mem (row : List Nat) : ∀ e ∈ runs row, e.1 ∈ row := by
  induction row with
  | nil => intro e he; simp [runs] at he
  | cons x rest ih =>
    intro e he
    unfold runs at he
    cases hr : runs rest with
    | nil =>
      rw [hr] at he
      simp only [List.mem_singleton] at he
      subst he; simp
    | cons e' more =>
      obtain ⟨y, n⟩ := e'
      rw [hr] at he ih
      simp only at he
      by_cases hxy : (x == y) = true
      · simp only [hxy, if_true, List.mem_cons] at he
        rcases he with rfl | he
        · have : x = y := by simpa using hxy
          simp [this]
        · exact List.mem_cons_of_mem _ (ih e (by simp [he]))
      · simp only [hxy, Bool.false_eq_true, if_false, List.mem_cons] at he
        rcases he with rfl | rfl | he
        · simp
        · exact List.mem_cons_of_mem _ (ih _ (by simp))
        · exact List.mem_cons_of_mem _ (ih e (by simp [he]))

/-- pairs of spaces in text mode: every pair is one cell -/
theorem ansiRow_spaces (rev : Bool) (rest : List Char) (l : List Nat) :
    ∀ (n run : Nat), run % 2 = 0 → (∀ run', run' % 2 = 0 → ansiRow rest .text rev run' = .ok l) →
      ansiRow ((List.replicate n [' ', ' ']).flatten ++ rest) .text rev run = .ok (List.replicate n (if rev then 0 else 1) ++ l) := by
  intro n
  induction n with
  | zero => intro run hrun hrest; simpa using hrest run hrun
  | succ n ih =>
    intro run hrun hrest
    have h1 : ((run + 1) % 2 == 0) = false := by simp; omega
    have h2 : ((run + 1 + 1) % 2 == 0) = true := by simp; omega
    have hne : (' ' == '\x1b') = false := by decide
    simp only [List.replicate_succ, List.flatten_cons, List.cons_append, List.nil_append, ansiRow, hne, beq_self_eq_true,
      Bool.false_eq_true, if_false, if_true, h1, h2]
    rw [ih (run + 1 + 1) (by omega) hrest]

theorem ansiRow_esc_even (r : List Char) (rev : Bool) (run : Nat) (h : run % 2 = 0) :
    ansiRow ('\x1b' :: r) .text rev run = ansiRow r .esc rev 0 := by
  have : (run % 2 != 0) = false := by simp [h]
  simp [ansiRow, this]

/-- one run of `write_terminal` read back: `n` cells of value `v` -/
theorem ansiRow_run (v n : Nat) (hv : v ≤ 1) (rest : List Char) (l : List Nat)
    (hrest : ∀ run', run' % 2 = 0 → ansiRow rest .text false run' = .ok l) :
    ∀ run, run % 2 = 0 → ansiRow (ansiRun v n ++ rest) .text false run = .ok (List.replicate n v ++ l) := by
  intro run hrun
  have hreset : ∀ run', run' % 2 = 0 → ∀ rev, ansiRow ("\x1b[0m".toList ++ rest) .text rev run' = .ok l := by
    intro run' hr rev
    have e : "\x1b[0m".toList ++ rest = '\x1b' :: '[' :: '0' :: 'm' :: rest := rfl
    rw [e, ansiRow_esc_even _ _ _ hr]
    have h0 : ('['  == '[') = true := rfl
    simp only [ansiRow, h0, if_true]
    have hd : ('0' : Char).isDigit = true := by decide
    have hm : ('m' : Char).isDigit = false := by decide
    simp only [hd, hm, if_true, Bool.false_eq_true, if_false, beq_self_eq_true]
    have : (0 * 10 + (('0' : Char).toNat - 48)) = 0 := by decide
    simp only [this]
    have h7 : ((0 : Nat) == 7) = false := by decide
    simp only [h7, Bool.false_eq_true, if_false, beq_self_eq_true, Bool.true_or, if_true]
    exact hrest 0 (by decide)
  have hv' : v = 0 ∨ v = 1 := by omega
  rcases hv' with rfl | rfl
  · -- light: ESC [ 7 m
    have e : ansiRun 0 n ++ rest = '\x1b' :: '[' :: '7' :: 'm' :: ((List.replicate n [' ', ' ']).flatten ++ ("\x1b[0m".toList ++ rest)) := by
      simp [ansiRun]
    rw [e, ansiRow_esc_even _ _ _ hrun]
    have h0 : ('['  == '[') = true := rfl
    have hd : ('7' : Char).isDigit = true := by decide
    have hm : ('m' : Char).isDigit = false := by decide
    simp only [ansiRow, h0, if_true, hd, hm, Bool.false_eq_true, if_false, beq_self_eq_true]
    have : (0 * 10 + (('7' : Char).toNat - 48)) = 7 := by decide
    simp only [this, beq_self_eq_true, if_true]
    have := ansiRow_spaces true ("\x1b[0m".toList ++ rest) l n 0 (by decide) (fun r hr => hreset r hr true)
    simpa using this
  · -- dark: ESC [ 4 9 m
    have e : ansiRun 1 n ++ rest = '\x1b' :: '[' :: '4' :: '9' :: 'm' :: ((List.replicate n [' ', ' ']).flatten ++ ("\x1b[0m".toList ++ rest)) := by
      simp [ansiRun]
    rw [e, ansiRow_esc_even _ _ _ hrun]
    have h0 : ('['  == '[') = true := rfl
    have hd4 : ('4' : Char).isDigit = true := by decide
    have hd9 : ('9' : Char).isDigit = true := by decide
    have hm : ('m' : Char).isDigit = false := by decide
    simp only [ansiRow, h0, if_true, hd4, hd9, hm, Bool.false_eq_true, if_false, beq_self_eq_true]
    have : ((0 * 10 + (('4' : Char).toNat - 48)) * 10 + (('9' : Char).toNat - 48)) = 49 := by decide
    simp only [this]
    have h7 : ((49 : Nat) == 7) = false := by decide
    have h00 : ((49 : Nat) == 0 || (49 : Nat) == 27) = false := by decide
    simp only [h7, h00, Bool.false_eq_true, if_false, beq_self_eq_true, if_true]
    have := ansiRow_spaces false ("\x1b[0m".toList ++ rest) l n 0 (by decide) (fun r hr => hreset r hr false)
    simpa using this

theorem ansiRow_runs (rs : List (Nat × Nat)) (hrs : ∀ e ∈ rs, e.1 ≤ 1) :
    ∀ run, run % 2 = 0 → ansiRow (rs.flatMap (fun e => ansiRun e.1 e.2)) .text false run = .ok (unruns rs) := by
  induction rs with
  | nil =>
    intro run hrun
    have : (run % 2 != 0) = false := by simp [hrun]
    simp [ansiRow, unruns, this]
  | cons e rest ih =>
    intro run hrun
    simp only [List.flatMap_cons, unruns]
    exact ansiRow_run e.1 e.2 (hrs e (by simp)) _ _ (ih (fun x hx => hrs x (by simp [hx]))) run hrun

/-- the text of one row without its line feed -/
def ansiBody (row : List Nat) : List Char := (runs row).flatMap (fun e => ansiRun e.1 e.2)

theorem ansiBody_read (row : List Nat) (hrow : ∀ v ∈ row, v ≤ 1) : ansiRow (ansiBody row) .text false 0 = .ok row := by
  have := ansiRow_runs (runs row) (fun e he => hrow _ (runs_mem row e he)) 0 (by decide)
  rw [unruns_runs] at this
  exact this

theorem ansiRun_no_lf (v n : Nat) : ∀ c ∈ ansiRun v n, c ≠ '\n' := by
  intro c hc
  unfold ansiRun at hc
  simp only [List.mem_append, List.mem_flatten, List.mem_replicate] at hc
  rcases hc with (hc | ⟨l, ⟨_, rfl⟩, hc⟩) | hc
  · split at hc <;> (revert c; decide)
  · revert c; decide
  · revert c; decide

theorem mapExcept_ok {α β : Type} (f : α → Except String β) (g : α → β) (l : List α) (h : ∀ x ∈ l, f x = .ok (g x)) :
    mapExcept f l = .ok (l.map g) := by
  induction l with
  | nil => rfl
  | cons x rest ih =>
    simp only [mapExcept, h x (by simp), ih (fun y hy => h y (by simp [hy])), List.map_cons]

theorem picOfRows_grid (what : String) (g : List (List Nat)) (W : Nat) (hne : g ≠ []) (hlen : ∀ r ∈ g, r.length = W) :
    picOfRows what g = .ok { w := W, h := g.length, px := g.map (fun r => r.map bw) } := by
  unfold picOfRows
  obtain ⟨r0, rest, rfl⟩ : ∃ r0 rest, g = r0 :: rest := by
    cases g with
    | nil => exact absurd rfl hne
    | cons a l => exact ⟨a, l, rfl⟩
  have h0 : r0.length = W := hlen r0 (by simp)
  have hany : ((r0 :: rest).any (fun r => r.length != W)) = false := by
    rw [List.any_eq_false]
    intro r hr
    simp only [hlen r hr, bne_self_eq_false, Bool.false_eq_true, not_false_eq_true]
  simp only [List.headD_cons, h0, hany, Bool.false_eq_true, if_false]

theorem ansi_rows_read (g : List (List Nat)) (hg : ∀ r ∈ g, ∀ v ∈ r, v ≤ 1) :
    mapExcept (fun l => ansiRow l .text false 0) (g.map ansiBody) = .ok g := by
  induction g with
  | nil => rfl
  | cons r rest ih =>
    simp only [List.map_cons, mapExcept, ansiBody_read r (hg r (by simp)), ih (fun x hx => hg x (by simp [hx]))]

/-- ANSI terminal: the reader returns the `Spec.grid` picture (scale 1) in black and white -/
theorem ansi_doc {w h : Nat} {border : Option Num} {b : Nat} (a : Admitted w h (.int 1) border b)
    (M : List (List Nat)) (hM : WellFormed M w h) (hbits : Bits M) (hh : 0 < h) :
    ∃ doc, ansiDoc M w h border = .ok doc
      ∧ L.readAnsi doc = .ok { w := (w + 2 * b) * 1, h := (h + 2 * b) * 1, px := bwPicture (grid M w h 1 b) } := by
  have hg := grid_bits M w h 1 b hbits
  have hdoc : ansiDoc M w h border = .ok ((grid M w h 1 b).flatMap ansiLine) := by
    simp only [ansiDoc, matrixIter_one a M hM, no_gt_one _ hg, bind, Except.bind, pure, Except.pure, Bool.false_eq_true, if_false]
  refine ⟨_, hdoc, ?_⟩
  have hf : ansiLine = (fun l => l ++ ['\n']) ∘ ansiBody := by funext row; rfl
  have hlines : linesT ((grid M w h 1 b).flatMap ansiLine) [] = some ((grid M w h 1 b).map ansiBody) := by
    rw [hf, flatMap_comp]
    apply linesT_flatMap
    intro l hl
    simp only [List.mem_map] at hl
    obtain ⟨row, _, rfl⟩ := hl
    intro c hc
    simp only [ansiBody, List.mem_flatMap] at hc
    obtain ⟨e, _, hc⟩ := hc
    exact ansiRun_no_lf _ _ c hc
  have hrows := ansi_rows_read (grid M w h 1 b) hg
  have hne : grid M w h 1 b ≠ [] := by
    intro h0
    have := grid_length M w h 1 b
    rw [h0] at this
    simp at this
    omega
  unfold L.readAnsi
  simp only [hlines, hrows, picOfRows_grid "ansi" _ ((w + 2 * b) * 1) hne (grid_row_length M w h 1 b), grid_length]
  congr 2
  exact map_bw_bits _ hg

/-! ### `write_terminal_compact` -/

theorem compactCell_block (t b : Nat) (ht : t ≤ 1) (hb : b ≤ 1) : compactCell (block t b) = .ok (t, b) := by
  have h1 : t = 0 ∨ t = 1 := by omega
  have h2 : b = 0 ∨ b = 1 := by omega
  rcases h1 with rfl | rfl <;> rcases h2 with rfl | rfl <;> rfl

/-- the text of a pair of rows without its line feed -/
def pairBody (top bottom : List Nat) : List Char := (top.zip bottom).map (fun p => block p.1 p.2)

theorem pairBody_read (top bottom : List Nat) (ht : ∀ v ∈ top, v ≤ 1) (hb : ∀ v ∈ bottom, v ≤ 1) :
    mapExcept compactCell (pairBody top bottom) = .ok (top.zip bottom) := by
  unfold pairBody
  induction top generalizing bottom with
  | nil => rfl
  | cons t top ih =>
    cases bottom with
    | nil => rfl
    | cons b bottom =>
      simp only [List.zip_cons_cons, List.map_cons, mapExcept, compactCell_block t b (ht t (by simp)) (hb b (by simp))]
      rw [ih bottom (fun v hv => ht v (by simp [hv])) (fun v hv => hb v (by simp [hv]))]

theorem zip_fst {α β : Type} (l₁ : List α) (l₂ : List β) (h : l₁.length = l₂.length) : (l₁.zip l₂).map (·.1) = l₁ := by
  induction l₁ generalizing l₂ with
  | nil => rfl
  | cons a l ih =>
    cases l₂ with
    | nil => simp at h
    | cons b l₂ => simp [ih l₂ (by simpa using h)]

theorem zip_snd {α β : Type} (l₁ : List α) (l₂ : List β) (h : l₁.length = l₂.length) : (l₁.zip l₂).map (·.2) = l₂ := by
  induction l₁ generalizing l₂ with
  | nil => cases l₂ with
    | nil => rfl
    | cons b l₂ => simp at h
  | cons a l ih =>
    cases l₂ with
    | nil => simp at h
    | cons b l₂ => simp [ih l₂ (by simpa using h)]

theorem block_no_lf (t b : Nat) : block t b ≠ '\n' := by
  unfold block
  split
  · decide
  · split
    · decide
    · split <;> decide

/-- the rows a compact picture holds: the grid, and a row of dark cells below it if the number of rows is odd -/
def padOdd (W : Nat) (g : List (List Nat)) : List (List Nat) := if g.length % 2 = 1 then g ++ [List.replicate W 1] else g

/-- the bodies of the text lines -/
def compactBodies : List (List Nat) → List (List Char)
  | [] => []
  | [top] => [pairBody top (List.replicate top.length 1)]
  | top :: bottom :: rest => pairBody top bottom :: compactBodies rest

theorem compactLinesL_eq : ∀ rows : List (List Nat), (compactLinesL rows).flatten = (compactBodies rows).flatMap (fun l => l ++ ['\n'])
  | [] => rfl
  | [_] => by simp [compactLinesL, compactBodies, pairBody]
  | top :: bottom :: rest => by
    have := compactLinesL_eq rest
    simp only [compactLinesL, compactBodies, List.flatten_cons, List.flatMap_cons, this, pairBody]

theorem compactRows_bodies (W : Nat) : ∀ rows : List (List Nat), (∀ r ∈ rows, r.length = W ∧ ∀ v ∈ r, v ≤ 1) →
    compactRows (compactBodies rows) = .ok (padOdd W rows)
  | [], _ => rfl
  | [top], h => by
    obtain ⟨hlen, htb⟩ := h top (by simp)
    subst hlen
    have h1 : ∀ v ∈ List.replicate top.length 1, v ≤ 1 := by intro v hv; simp only [List.mem_replicate] at hv; omega
    simp only [compactBodies, compactRows, pairBody_read top _ htb h1, zip_fst top (List.replicate top.length 1) (by simp),
      zip_snd top (List.replicate top.length 1) (by simp)]
    simp [padOdd]
  | top :: bottom :: rest, h => by
    have ht := h top (by simp)
    have hb := h bottom (by simp)
    have ih := compactRows_bodies W rest (fun r hr => h r (by simp [hr]))
    simp only [compactBodies, compactRows, pairBody_read top bottom ht.2 hb.2, ih, zip_fst top bottom (by rw [ht.1, hb.1]),
      zip_snd top bottom (by rw [ht.1, hb.1])]
    unfold padOdd
    have e : (rest.length + 1 + 1) % 2 = rest.length % 2 := by omega
    by_cases hodd : rest.length % 2 = 1
    · simp [List.length_cons, e, hodd]
    · simp [List.length_cons, e, hodd]

theorem compactBodies_no_lf : ∀ rows : List (List Nat), ∀ l ∈ compactBodies rows, ∀ c ∈ l, c ≠ '\n'
  | [], l, hl => by simp [compactBodies] at hl
  | [top], l, hl => by
    simp only [compactBodies, List.mem_singleton] at hl
    subst hl
    intro c hc
    simp only [pairBody, List.mem_map] at hc
    obtain ⟨p, _, rfl⟩ := hc
    exact block_no_lf _ _
  | top :: bottom :: rest, l, hl => by
    simp only [compactBodies, List.mem_cons] at hl
    rcases hl with rfl | hl
    · intro c hc
      simp only [pairBody, List.mem_map] at hc
      obtain ⟨p, _, rfl⟩ := hc
      exact block_no_lf _ _
    · exact compactBodies_no_lf rest l hl

/-- compact terminal: the reader returns the `Spec.grid` picture (scale 1) in black and white; below an odd
    number of rows lies one more row of dark cells (the lower half of the last text line) -/
theorem compact_doc {w h : Nat} {border : Option Num} {b : Nat} (a : Admitted w h (.int 1) border b)
    (M : List (List Nat)) (hM : WellFormed M w h) (hbits : Bits M) (hh : 0 < h) :
    ∃ doc, compactDoc M w h border = .ok doc
      ∧ L.readCompact doc = .ok { w := (w + 2 * b) * 1, h := List.length (padOdd ((w + 2 * b) * 1) (grid M w h 1 b)),
                                      px := bwPicture (padOdd ((w + 2 * b) * 1) (grid M w h 1 b)) } := by
  have hg := grid_bits M w h 1 b hbits
  have hdoc : compactDoc M w h border = .ok (compactLinesL (grid M w h 1 b)).flatten := by
    simp only [compactDoc, matrixIter_one a M hM, no_gt_one _ hg, bind, Except.bind, pure, Except.pure, Bool.false_eq_true, if_false]
  refine ⟨_, hdoc, ?_⟩
  rw [compactLinesL_eq]
  have hlines := linesT_flatMap (compactBodies (grid M w h 1 b)) (compactBodies_no_lf _)
  have hrows := compactRows_bodies ((w + 2 * b) * 1) (grid M w h 1 b) (fun r hr => ⟨grid_row_length M w h 1 b r hr, hg r hr⟩)
  have hne : grid M w h 1 b ≠ [] := by
    intro h0
    have := grid_length M w h 1 b
    rw [h0] at this
    simp at this
    omega
  have hpad_ne : padOdd ((w + 2 * b) * 1) (grid M w h 1 b) ≠ [] := by
    unfold padOdd; split <;> simp [hne]
  have hpad_len : ∀ r ∈ padOdd ((w + 2 * b) * 1) (grid M w h 1 b), r.length = (w + 2 * b) * 1 := by
    intro r hr
    unfold padOdd at hr
    split at hr
    · rcases List.mem_append.1 hr with hr | hr
      · exact grid_row_length M w h 1 b r hr
      · simp only [List.mem_singleton] at hr; subst hr; simp
    · exact grid_row_length M w h 1 b r hr
  have hpad_bits : ∀ r ∈ padOdd ((w + 2 * b) * 1) (grid M w h 1 b), ∀ v ∈ r, v ≤ 1 := by
    intro r hr
    unfold padOdd at hr
    split at hr
    · rcases List.mem_append.1 hr with hr | hr
      · exact hg r hr
      · simp only [List.mem_singleton] at hr; subst hr
        intro v hv; simp only [List.mem_replicate] at hv; omega
    · exact hg r hr
  unfold L.readCompact
  simp only [hlines, hrows, picOfRows_grid "compact" _ ((w + 2 * b) * 1) hpad_ne hpad_len]
  congr 2
  exact map_bw_bits _ hpad_bits

end Proofs.RasterDocs
