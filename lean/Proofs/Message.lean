/-
  Proofs.Message — helper lemmas for C03 (part 3): the final message built by
  `Model.makeFinalMessage` (block split, RS blocks, interleaving, M1/M3 half codeword, remainder
  bits) is read back by the reference reader `Spec.splitBlocks`.
  Generic lemmas about arbitrary lists of blocks / shapes come first, the facts about Table 9
  (obtained by `decide +kernel`) are kept in their own section.
-/
import Spec.Decode
import Model.Encoder
import Props.C03Tables
import Proofs.RSField
import Proofs.Roundtrip
import Proofs.Stream

namespace Proofs.Message
open Model

/-! ### generic list facts -/

theorem le_foldl_max (l : List Nat) : ∀ (init x : Nat), (x ∈ l ∨ x ≤ init) → x ≤ l.foldl max init := by
  induction l with
  | nil => intro init x h; simpa using h
  | cons a t ih =>
    intro init x h
    rw [List.foldl_cons]
    apply ih
    rcases h with h | h
    · rcases List.mem_cons.1 h with h | h
      · right; subst h; exact Nat.le_max_right _ _
      · left; exact h
    · right; exact Nat.le_trans h (Nat.le_max_left _ _)

theorem flatten_getElem?_toList {α : Type} (l : List α) : ∀ n, l.length ≤ n →
    ((List.range n).map (fun r => l[r]?.toList)).flatten = l := by
  induction l with
  | nil => intro n _; simp
  | cons a t ih =>
    intro n hn
    obtain ⟨m, rfl⟩ : ∃ m, n = m + 1 := ⟨n - 1, by simp at hn; omega⟩
    rw [List.range_succ_eq_map, List.map_cons, List.map_map, List.flatten_cons]
    have : ((fun r => (a :: t)[r]?.toList) ∘ Nat.succ) = fun r => t[r]?.toList := by
      funext r; simp
    rw [this, ih m (by simp at hn; omega)]
    simp

/-! ### interleaving -/

/-- row `r` of the interleaved stream, every codeword tagged with the index of its block -/
def trow (blocks : List (List Nat)) (k r : Nat) : List (Nat × Nat) :=
  (blocks.zipIdx k).filterMap (fun p => p.1[r]?.map (fun x => (p.2, x)))

theorem trow_cons (a : List Nat) (t : List (List Nat)) (k r : Nat) :
    trow (a :: t) k r = (a[r]?.map (fun x => (k, x))).toList ++ trow t (k + 1) r := by
  unfold trow
  rw [List.zipIdx_cons, List.filterMap_cons]
  cases a[r]? <;> simp

theorem trow_fst (blocks : List (List Nat)) (r : Nat) : ∀ k,
    (trow blocks k r).map Prod.fst =
      (((blocks.map List.length).zipIdx k).filter (fun (l, _) => r < l)).map (fun (_, b) => b) := by
  induction blocks with
  | nil => intro k; simp [trow]
  | cons a t ih =>
    intro k
    rw [trow_cons, List.map_append, ih, List.map_cons, List.zipIdx_cons, List.filter_cons]
    by_cases h : r < a.length
    · simp [h]
    · simp [h]

theorem trow_snd (blocks : List (List Nat)) (r : Nat) : ∀ k,
    (trow blocks k r).map Prod.snd = blocks.filterMap (fun b => b[r]?) := by
  induction blocks with
  | nil => intro k; simp [trow]
  | cons a t ih =>
    intro k
    rw [trow_cons, List.map_append, ih, List.filterMap_cons]
    cases a[r]? <;> simp

theorem trow_filter_lt (blocks : List (List Nat)) (r : Nat) : ∀ k j, j < k →
    (trow blocks k r).filter (fun p => p.1 == j) = [] := by
  induction blocks with
  | nil => intro k j _; simp [trow]
  | cons a t ih =>
    intro k j hj
    rw [trow_cons, List.filter_append, ih (k + 1) j (by omega)]
    cases a[r]? with
    | none => simp
    | some x =>
      have : k ≠ j := by omega
      simp [this]

theorem trow_filter_eq (blocks : List (List Nat)) (r : Nat) : ∀ k i,
    ((trow blocks k r).filter (fun p => p.1 == k + i)).map Prod.snd
      = ((blocks[i]?).bind (fun b => b[r]?)).toList := by
  induction blocks with
  | nil => intro k i; simp [trow]
  | cons a t ih =>
    intro k i
    rw [trow_cons, List.filter_append, List.map_append]
    cases i with
    | zero =>
      rw [Nat.add_zero, trow_filter_lt t r (k + 1) k (by omega), List.getElem?_cons_zero, Option.bind_some]
      cases a[r]? <;> simp
    | succ i =>
      have e : k + (i + 1) = k + 1 + i := by omega
      rw [e, ih (k + 1) i]
      have : k ≠ k + 1 + i := by omega
      cases a[r]? <;> simp [this]

theorem interleave_eq (blocks : List (List Nat)) :
    interleave blocks =
      (((List.range ((blocks.map List.length).foldl max 0)).map (trow blocks 0)).flatten).map Prod.snd := by
  unfold interleave
  simp only []
  rw [List.map_flatten, List.map_map]
  congr 1
  apply List.map_congr_left
  intro r _
  exact (trow_snd blocks r 0).symm

theorem order_eq (blocks : List (List Nat)) (n : Nat) :
    ((List.range n).map (fun r =>
      (((blocks.map List.length).zipIdx).filter (fun (l, _) => r < l)).map (fun (_, b) => b))).flatten
    = (((List.range n).map (trow blocks 0)).flatten).map Prod.fst := by
  rw [List.map_flatten, List.map_map]
  congr 1
  apply List.map_congr_left
  intro r _
  exact (trow_fst blocks r 0).symm

theorem zip_fst_snd {α β : Type} (l : List (α × β)) : (l.map Prod.fst).zip (l.map Prod.snd) = l := by
  induction l with
  | nil => rfl
  | cons a t ih => simp [ih]

theorem deinterleave_interleave (blocks : List (List Nat)) :
    Spec.deinterleave (blocks.map List.length) (interleave blocks) = blocks := by
  unfold Spec.deinterleave
  simp only []
  rw [order_eq, interleave_eq, zip_fst_snd]
  apply List.ext_getElem
  · simp
  · intro b h1 h2
    rw [List.getElem_map, List.getElem_range]
    rw [List.filter_flatten, List.map_flatten, List.map_map, List.map_map]
    have hb : b < blocks.length := h2
    have key : ∀ (f : Nat → List Nat), (∀ r, f r = (blocks[b])[r]?.toList) →
        ((List.range ((blocks.map List.length).foldl max 0)).map f).flatten = blocks[b] := by
      intro f hf
      rw [List.map_congr_left (fun r _ => hf r)]
      apply flatten_getElem?_toList
      apply le_foldl_max
      left
      exact List.mem_map.2 ⟨blocks[b], List.getElem_mem _, rfl⟩
    apply key
    intro r
    have := trow_filter_eq blocks r 0 b
    rw [Nat.zero_add, List.getElem?_eq_getElem hb, Option.bind_some] at this
    simp only [Function.comp]
    exact this

theorem interleave_singleton (l : List Nat) : interleave [l] = l := by
  unfold interleave
  simp only [List.map_cons, List.map_nil, List.foldl_cons, List.foldl_nil]
  have : (fun r : Nat => List.filterMap (fun b : List Nat => b[r]?) [l]) = fun r => l[r]?.toList := by
    funext r
    cases h : l[r]? <;> simp [h]
  rw [this]
  exact flatten_getElem?_toList l _ (by simp)

theorem mem_interleave (blocks : List (List Nat)) (x : Nat) (h : x ∈ interleave blocks) :
    ∃ b ∈ blocks, x ∈ b := by
  unfold interleave at h
  simp only [List.mem_flatten, List.mem_map, List.mem_range] at h
  obtain ⟨l, ⟨r, _, rfl⟩, hx⟩ := h
  obtain ⟨b, hb, hbx⟩ := List.mem_filterMap.1 hx
  exact ⟨b, hb, List.mem_of_getElem? hbx⟩

theorem sum_map_add {α : Type} (l : List α) (f g : α → Nat) :
    (l.map (fun r => f r + g r)).sum = (l.map f).sum + (l.map g).sum := by
  induction l with
  | nil => rfl
  | cons a t ih => simp only [List.map_cons, List.sum_cons, ih]; omega

theorem sum_ite_range (n : Nat) : ∀ M, ((List.range M).map (fun r => if r < n then 1 else 0)).sum = min n M := by
  intro M
  induction M with
  | zero => simp
  | succ M ih =>
    rw [List.range_succ, List.map_append, List.sum_append, ih]
    simp only [List.map_cons, List.map_nil, List.sum_cons, List.sum_nil]
    split <;> omega

theorem interleave_row_length (a : List Nat) (t : List (List Nat)) (r : Nat) :
    ((a :: t).filterMap (fun b => b[r]?)).length
      = (if r < a.length then 1 else 0) + (t.filterMap (fun b => b[r]?)).length := by
  rw [List.filterMap_cons]
  by_cases h : r < a.length
  · rw [List.getElem?_eq_getElem h, if_pos h]; simp; omega
  · have : a[r]? = none := by simp; omega
    rw [this, if_neg h]; simp

theorem interleave_rows_sum (blocks : List (List Nat)) : ∀ M, (∀ b ∈ blocks, b.length ≤ M) →
    ((List.range M).map (fun r => (blocks.filterMap (fun b => b[r]?)).length)).sum
      = (blocks.map List.length).sum := by
  induction blocks with
  | nil => intro M _; simp
  | cons a t ih =>
    intro M hM
    have : (fun r => ((a :: t).filterMap (fun b => b[r]?)).length)
        = fun r => (if r < a.length then 1 else 0) + (t.filterMap (fun b => b[r]?)).length := by
      funext r; exact interleave_row_length a t r
    rw [this, sum_map_add, sum_ite_range, ih M (fun b hb => hM b (List.mem_cons_of_mem _ hb))]
    have := hM a List.mem_cons_self
    simp only [List.map_cons, List.sum_cons]
    omega

theorem interleave_length (blocks : List (List Nat)) :
    (interleave blocks).length = (blocks.map List.length).sum := by
  unfold interleave
  simp only []
  rw [List.length_flatten, List.map_map]
  apply interleave_rows_sum
  intro b hb
  apply le_foldl_max
  left
  exact List.mem_map.2 ⟨b, hb, rfl⟩

/-! ### codewords and bits -/

/-- the bits of a list of 8-bit codewords, most significant bit first -/
def bitsOf (l : List Nat) : List Nat := (l.map (fun x => appendBits x 8)).flatten

theorem bitsOf_nil : bitsOf [] = [] := rfl
theorem bitsOf_cons (a : Nat) (t : List Nat) : bitsOf (a :: t) = appendBits a 8 ++ bitsOf t := by
  simp [bitsOf]
theorem bitsOf_append (a b : List Nat) : bitsOf (a ++ b) = bitsOf a ++ bitsOf b := by
  simp [bitsOf]
theorem bitsOf_length (l : List Nat) : (bitsOf l).length = 8 * l.length := by
  induction l with
  | nil => rfl
  | cons a t ih => rw [bitsOf_cons, List.length_append, Proofs.Roundtrip.appendBits_length, ih, List.length_cons]; omega

theorem bitsToNat_eq : Model.bitsToNat = Spec.bitsToNat := rfl

theorem chunk8_succ (f : Nat) (bs : List Nat) (h : bs ≠ []) :
    Spec.chunk8 (f + 1) bs = Spec.bitsToNat (bs.take 8) :: Spec.chunk8 f (bs.drop 8) := by
  cases bs with
  | nil => exact absurd rfl h
  | cons x xs => rfl

theorem chunk8_bitsOf (cws : List Nat) (h : ∀ c ∈ cws, c < 256) :
    Spec.chunk8 cws.length (bitsOf cws) = cws := by
  induction cws with
  | nil => rfl
  | cons c t ih =>
    have hl := Proofs.Roundtrip.appendBits_length c 8
    have hne : bitsOf (c :: t) ≠ [] := by
      intro h0
      have := congrArg List.length h0
      rw [bitsOf_length] at this
      simp at this
    rw [List.length_cons, chunk8_succ _ _ hne, bitsOf_cons, List.take_left' hl, List.drop_left' hl,
      ih (fun c hc => h c (List.mem_cons_of_mem _ hc)),
      Proofs.Roundtrip.bits_roundtrip 8 c (h c List.mem_cons_self)]

theorem bitsToNat_append_one (l : List Nat) (b : Nat) : Model.bitsToNat (l ++ [b]) = Model.bitsToNat l * 2 + b := by
  simp [Model.bitsToNat, List.foldl_append]

theorem appendBits_bitsToNat (g : List Nat) (hg : ∀ b ∈ g, b ≤ 1) :
    appendBits (Model.bitsToNat g) g.length = g := by
  induction g using List.reverseRecOn with
  | nil => rfl
  | append_singleton l b ih =>
    have hb : b ≤ 1 := hg b (by simp)
    rw [bitsToNat_append_one, List.length_append, List.length_singleton, Proofs.Roundtrip.appendBits_succ]
    have e1 : (Model.bitsToNat l * 2 + b) / 2 = Model.bitsToNat l := by omega
    have e2 : (Model.bitsToNat l * 2 + b) % 2 = b := by omega
    rw [e1, e2, ih (fun x hx => hg x (by simp [hx]))]

theorem bitsToNat_lt (g : List Nat) (hg : ∀ b ∈ g, b ≤ 1) : Model.bitsToNat g < 2 ^ g.length := by
  induction g using List.reverseRecOn with
  | nil => simp [Model.bitsToNat]
  | append_singleton l b ih =>
    have hb : b ≤ 1 := hg b (by simp)
    have := ih (fun x hx => hg x (by simp [hx]))
    rw [bitsToNat_append_one, List.length_append, List.length_singleton, Nat.pow_succ]
    omega

/-! ### `toInts` -/

theorem toInts_succ (f : Nat) (bs : List Nat) (h : bs ≠ []) :
    toInts (f + 1) bs
      = Model.bitsToNat (bs.take 8 ++ List.replicate (8 - (bs.take 8).length) 0) :: toInts f (bs.drop 8) := by
  cases bs with
  | nil => exact absurd rfl h
  | cons x xs => rfl

theorem toInts_nil (f : Nat) : toInts f [] = [] := by
  cases f <;> rfl

theorem toInts_succ8 (f : Nat) (bs : List Nat) (h : 8 ≤ bs.length) :
    toInts (f + 1) bs = Model.bitsToNat (bs.take 8) :: toInts f (bs.drop 8) := by
  have hne : bs ≠ [] := by intro h0; subst h0; simp at h
  rw [toInts_succ f bs hne]
  have : (bs.take 8).length = 8 := by rw [List.length_take]; omega
  rw [this]; simp

theorem toInts_fuel : ∀ (f g : Nat) (bs : List Nat), bs.length < f → bs.length < g → toInts f bs = toInts g bs := by
  intro f
  induction f with
  | zero => intro g bs h; omega
  | succ f ih =>
    intro g bs hf hg
    obtain ⟨g, rfl⟩ : ∃ g', g = g' + 1 := ⟨g - 1, by omega⟩
    by_cases hne : bs = []
    · subst hne; rfl
    · rw [toInts_succ f bs hne, toInts_succ g bs hne]
      have : 0 < bs.length := List.length_pos_iff.2 hne
      rw [ih g (bs.drop 8) (by rw [List.length_drop]; omega) (by rw [List.length_drop]; omega)]

theorem toInts_append : ∀ (n : Nat) (a b : List Nat) (f : Nat), a.length = 8 * n → a.length + b.length < f →
    toInts f (a ++ b) = toInts (a.length + 1) a ++ toInts (b.length + 1) b := by
  intro n
  induction n with
  | zero =>
    intro a b f ha hf
    have : a = [] := List.length_eq_zero_iff.1 (by omega)
    subst this
    rw [List.nil_append, toInts_nil, List.nil_append]
    exact toInts_fuel _ _ _ (by simpa using hf) (by omega)
  | succ n ih =>
    intro a b f ha hf
    obtain ⟨f, rfl⟩ : ∃ f', f = f' + 1 := ⟨f - 1, by omega⟩
    have h8 : 8 ≤ a.length := by omega
    rw [toInts_succ8 f (a ++ b) (by rw [List.length_append]; omega), toInts_succ8 a.length a h8,
      List.take_append_of_le_length h8, List.drop_append_of_le_length h8, List.cons_append]
    congr 1
    rw [ih (a.drop 8) b f (by rw [List.length_drop]; omega) (by rw [List.length_drop]; omega)]
    congr 1
    exact toInts_fuel _ _ _ (by rw [List.length_drop]; omega) (by rw [List.length_drop]; omega)

theorem toInts_length : ∀ (f : Nat) (bs : List Nat), bs.length < f → (toInts f bs).length = (bs.length + 7) / 8 := by
  intro f
  induction f with
  | zero => intro bs h; omega
  | succ f ih =>
    intro bs hf
    by_cases hne : bs = []
    · subst hne; rfl
    · have : 0 < bs.length := List.length_pos_iff.2 hne
      rw [toInts_succ f bs hne, List.length_cons, ih (bs.drop 8) (by rw [List.length_drop]; omega),
        List.length_drop]
      omega

theorem toInts_lt (bs : List Nat) (hb : ∀ b ∈ bs, b ≤ 1) : ∀ (f : Nat), ∀ c ∈ toInts f bs, c < 256 := by
  intro f
  induction f generalizing bs with
  | zero => intro c hc; simp [toInts] at hc
  | succ f ih =>
    intro c hc
    by_cases hne : bs = []
    · subst hne; simp [toInts] at hc
    · rw [toInts_succ f bs hne] at hc
      rcases List.mem_cons.1 hc with rfl | hc
      · have hl : (bs.take 8 ++ List.replicate (8 - (bs.take 8).length) 0).length = 8 := by
          rw [List.length_append, List.length_replicate, List.length_take]; omega
        have := bitsToNat_lt (bs.take 8 ++ List.replicate (8 - (bs.take 8).length) 0) (by
          intro b hb'
          rcases List.mem_append.1 hb' with h | h
          · exact hb b (List.mem_of_mem_take h)
          · rw [List.eq_of_mem_replicate h]; omega)
        rw [hl] at this
        exact this
      · exact ih (bs.drop 8) (fun b hb' => hb b (List.mem_of_mem_drop hb')) c hc

theorem toInts_bits' : ∀ (n : Nat) (bits : List Nat) (f : Nat), bits.length = 8 * n → (∀ b ∈ bits, b ≤ 1) →
    bits.length < f → bitsOf (toInts f bits) = bits := by
  intro n
  induction n with
  | zero =>
    intro bits f hl _ _
    have : bits = [] := List.length_eq_zero_iff.1 (by omega)
    subst this
    rw [toInts_nil]; rfl
  | succ n ih =>
    intro bits f hl hb hf
    obtain ⟨f, rfl⟩ : ∃ f', f = f' + 1 := ⟨f - 1, by omega⟩
    rw [toInts_succ8 f bits (by omega), bitsOf_cons,
      ih (bits.drop 8) f (by rw [List.length_drop]; omega) (fun b hb' => hb b (List.mem_of_mem_drop hb'))
        (by rw [List.length_drop]; omega)]
    have hl8 : (bits.take 8).length = 8 := by rw [List.length_take]; omega
    have := appendBits_bitsToNat (bits.take 8) (fun b hb' => hb b (List.mem_of_mem_take hb'))
    rw [hl8] at this
    rw [this, List.take_append_drop]

theorem toInts_bits (bits : List Nat) (hb : ∀ b ∈ bits, b ≤ 1) (h8 : bits.length % 8 = 0) :
    bitsOf (toInts (bits.length + 1) bits) = bits :=
  toInts_bits' (bits.length / 8) bits _ (by omega) hb (by omega)

/-! ### sums -/

theorem foldl_add_eq_sum (l : List Nat) : l.foldl (· + ·) 0 = l.sum := by
  have : ∀ (l : List Nat) (a : Nat), l.foldl (· + ·) a = a + l.sum := by
    intro l
    induction l with
    | nil => intro a; simp
    | cons x t ih => intro a; rw [List.foldl_cons, ih, List.sum_cons]; omega
  rw [this]; omega

theorem blockShapes_cons (b : Nat × Nat × Nat) (t : List (Nat × Nat × Nat)) :
    Spec.blockShapes (b :: t) = List.replicate b.1 (b.2.2, b.2.1 - b.2.2) ++ Spec.blockShapes t := by
  simp [Spec.blockShapes]

theorem sum_replicate (n a : Nat) : (List.replicate n a).sum = n * a := by
  induction n with
  | zero => simp
  | succ n ih => rw [List.replicate_succ, List.sum_cons, ih, Nat.succ_mul]; omega

theorem shapes_sum_fst (ecc : List (Nat × Nat × Nat)) :
    ((Spec.blockShapes ecc).map (·.1)).sum = (ecc.map (fun b => b.1 * b.2.2)).sum := by
  induction ecc with
  | nil => rfl
  | cons b t ih =>
    rw [blockShapes_cons, List.map_append, List.sum_append, ih, List.map_replicate, sum_replicate]
    simp

theorem shapes_sum_snd (ecc : List (Nat × Nat × Nat)) :
    ((Spec.blockShapes ecc).map (·.2)).sum = (ecc.map (fun b => b.1 * (b.2.1 - b.2.2))).sum := by
  induction ecc with
  | nil => rfl
  | cons b t ih =>
    rw [blockShapes_cons, List.map_append, List.sum_append, ih, List.map_replicate, sum_replicate]
    simp

theorem total_sum (ecc : List (Nat × Nat × Nat)) (h : ∀ b ∈ ecc, b.2.2 ≤ b.2.1) :
    (ecc.map (fun b => b.1 * b.2.1)).sum
      = (ecc.map (fun b => b.1 * b.2.2)).sum + (ecc.map (fun b => b.1 * (b.2.1 - b.2.2))).sum := by
  induction ecc with
  | nil => rfl
  | cons b t ih =>
    simp only [List.map_cons, List.sum_cons]
    rw [ih (fun x hx => h x (List.mem_cons_of_mem _ hx))]
    have hb := h b List.mem_cons_self
    have : b.1 * b.2.1 = b.1 * b.2.2 + b.1 * (b.2.1 - b.2.2) := by
      rw [← Nat.mul_add]; congr 1; omega
    omega

theorem mem_blockShapes (ecc : List (Nat × Nat × Nat)) (s : Nat × Nat) (h : s ∈ Spec.blockShapes ecc) :
    ∃ b ∈ ecc, s = (b.2.2, b.2.1 - b.2.2) := by
  unfold Spec.blockShapes at h
  simp only [List.mem_flatten, List.mem_map] at h
  obtain ⟨l, ⟨b, hb, rfl⟩, hs⟩ := h
  exact ⟨b, hb, List.eq_of_mem_replicate hs⟩

/-! ### `make_blocks` on an arbitrary list of block shapes -/

/-- the data blocks: consecutive slices of the codeword sequence -/
def slices : List (Nat × Nat) → List Nat → List (List Nat)
  | [], _ => []
  | (nd, _) :: rest, cws => cws.take nd :: slices rest (cws.drop nd)

/-- EC codewords of one block, generator polynomial looked up by its degree -/
def ecOf (blk : List Nat) (ne : Nat) : List Nat :=
  match assoc Gen.GEN_POLY ne with
  | some gen => rsRemainder gen blk ne
  | none => []

def ecs : List (Nat × Nat) → List Nat → List (List Nat)
  | [], _ => []
  | (nd, ne) :: rest, cws => ecOf (cws.take nd) ne :: ecs rest (cws.drop nd)

theorem go_eq (shapes : List (Nat × Nat)) : ∀ (cws : List Nat),
    (∀ s ∈ shapes, (assoc Gen.GEN_POLY s.2).isSome = true) →
    makeBlocks.go cws shapes = .ok (slices shapes cws, ecs shapes cws) := by
  induction shapes with
  | nil => intro cws _; rfl
  | cons s rest ih =>
    intro cws hs
    obtain ⟨nd, ne⟩ := s
    have h1 := hs (nd, ne) List.mem_cons_self
    obtain ⟨gen, hgen⟩ := Option.isSome_iff_exists.1 h1
    have hgen' : assoc Gen.GEN_POLY ne = some gen := hgen
    rw [makeBlocks.go]
    simp only [hgen', ih (cws.drop nd) (fun s hs' => hs s (List.mem_cons_of_mem _ hs')),
      bind, Except.bind, pure, Except.pure, slices, ecs, ecOf]

theorem makeBlocks_eq (ecc : List (Nat × Nat × Nat)) (cws : List Nat) :
    makeBlocks ecc cws = makeBlocks.go cws (Spec.blockShapes ecc) := rfl

theorem assoc_mem {β : Type} (t : List (Nat × β)) (k : Nat) (x : β) (h : assoc t k = some x) : (k, x) ∈ t := by
  unfold assoc at h
  rw [Option.map_eq_some_iff] at h
  obtain ⟨p, hp, rfl⟩ := h
  have hm := List.mem_of_find?_eq_some hp
  have hk := List.find?_some hp
  have : p.1 = k := by simpa using hk
  subst this
  exact hm

theorem slices_map_length (shapes : List (Nat × Nat)) : ∀ (cws : List Nat),
    (shapes.map (·.1)).sum ≤ cws.length → (slices shapes cws).map List.length = shapes.map (·.1) := by
  induction shapes with
  | nil => intro cws _; rfl
  | cons s rest ih =>
    intro cws h
    obtain ⟨nd, ne⟩ := s
    simp only [List.map_cons, List.sum_cons] at h
    simp only [slices, List.map_cons, List.length_take]
    rw [ih (cws.drop nd) (by rw [List.length_drop]; omega)]
    congr 1
    omega

theorem slices_flatten (shapes : List (Nat × Nat)) : ∀ (cws : List Nat),
    (slices shapes cws).flatten = cws.take (shapes.map (·.1)).sum := by
  induction shapes with
  | nil => intro cws; simp [slices]
  | cons s rest ih =>
    intro cws
    obtain ⟨nd, ne⟩ := s
    simp only [slices, List.flatten_cons, List.map_cons, List.sum_cons]
    rw [ih, List.take_add]

theorem slices_mem (shapes : List (Nat × Nat)) : ∀ (cws : List Nat), ∀ b ∈ slices shapes cws, ∀ x ∈ b, x ∈ cws := by
  induction shapes with
  | nil => intro cws b hb; simp [slices] at hb
  | cons s rest ih =>
    intro cws b hb x hx
    obtain ⟨nd, ne⟩ := s
    simp only [slices, List.mem_cons] at hb
    rcases hb with rfl | hb
    · exact List.mem_of_mem_take hx
    · exact List.mem_of_mem_drop (ih _ b hb x hx)

theorem ecOf_length (blk : List Nat) (ne : Nat) (h : (assoc Gen.GEN_POLY ne).isSome = true) :
    (ecOf blk ne).length = ne := by
  obtain ⟨gen, hgen⟩ := Option.isSome_iff_exists.1 h
  have hgen' : assoc Gen.GEN_POLY ne = some gen := hgen
  simp only [ecOf, hgen']
  exact Proofs.RSField.rsRemainder_length gen blk ne

theorem ecOf_bytes (blk : List Nat) (ne : Nat) (hd : ∀ d ∈ blk, d < 256) : ∀ x ∈ ecOf blk ne, x < 256 := by
  unfold ecOf
  split
  · next gen _ => exact Proofs.RSField.rsRemainder_bytes gen blk ne hd
  · intro x hx; simp at hx

theorem ecOf_valid (blk : List Nat) (ne : Nat) (h : (assoc Gen.GEN_POLY ne).isSome = true)
    (hd : ∀ d ∈ blk, d < 256) : Spec.validCodeword (blk ++ ecOf blk ne) (ecOf blk ne).length = true := by
  rw [ecOf_length blk ne h]
  obtain ⟨gen, hgen⟩ := Option.isSome_iff_exists.1 h
  have hgen' : assoc Gen.GEN_POLY ne = some gen := hgen
  simp only [ecOf, hgen']
  exact Proofs.RSField.block_valid_for_reference_reader ne gen (assoc_mem _ _ _ hgen') blk hd

theorem ecs_map_length (shapes : List (Nat × Nat)) : ∀ (cws : List Nat),
    (∀ s ∈ shapes, (assoc Gen.GEN_POLY s.2).isSome = true) →
    (ecs shapes cws).map List.length = shapes.map (·.2) := by
  induction shapes with
  | nil => intro cws _; rfl
  | cons s rest ih =>
    intro cws hs
    obtain ⟨nd, ne⟩ := s
    simp only [ecs, List.map_cons]
    rw [ih _ (fun s hs' => hs s (List.mem_cons_of_mem _ hs')), ecOf_length _ _ (hs (nd, ne) List.mem_cons_self)]

theorem ecs_bytes (shapes : List (Nat × Nat)) : ∀ (cws : List Nat), (∀ c ∈ cws, c < 256) →
    ∀ b ∈ ecs shapes cws, ∀ x ∈ b, x < 256 := by
  induction shapes with
  | nil => intro cws _ b hb; simp [ecs] at hb
  | cons s rest ih =>
    intro cws hc b hb
    obtain ⟨nd, ne⟩ := s
    simp only [ecs, List.mem_cons] at hb
    rcases hb with rfl | hb
    · exact ecOf_bytes _ _ (fun d hd => hc d (List.mem_of_mem_take hd))
    · exact ih _ (fun d hd => hc d (List.mem_of_mem_drop hd)) b hb

theorem blocks_valid (shapes : List (Nat × Nat)) : ∀ (cws : List Nat), (∀ c ∈ cws, c < 256) →
    (∀ s ∈ shapes, (assoc Gen.GEN_POLY s.2).isSome = true) →
    ∀ p ∈ (slices shapes cws).zip (ecs shapes cws), Spec.validCodeword (p.1 ++ p.2) p.2.length = true := by
  induction shapes with
  | nil => intro cws _ _ p hp; simp [slices] at hp
  | cons s rest ih =>
    intro cws hc hs p hp
    obtain ⟨nd, ne⟩ := s
    simp only [slices, ecs, List.zip_cons_cons, List.mem_cons] at hp
    rcases hp with rfl | hp
    · exact ecOf_valid _ _ (hs (nd, ne) List.mem_cons_self) (fun d hd => hc d (List.mem_of_mem_take hd))
    · exact ih _ (fun d hd => hc d (List.mem_of_mem_drop hd)) (fun s hs' => hs s (List.mem_cons_of_mem _ hs')) p hp

/-! ### facts about Table 9 / Table 7 (checked once over the whole table) -/

theorem eccInfo_eq (v : Int) (e : Option Nat) : Model.eccInfo v e = Spec.eccOf v (lvlKey e) := by
  unfold Model.eccInfo Spec.eccOf
  rw [Props.C03.ecc_table_is_iso]
  rfl

theorem capacity_eq (v : Int) (e : Option Nat) : Model.capacity v e = Spec.capacityOf v (lvlKey e) := by
  unfold Model.capacity Spec.capacityOf
  rw [Props.C03.capacity_table_is_iso]
  rfl

theorem lookup2_mem {α : Type} (t : List (Int × Int × α)) (a b : Int) (x : α)
    (h : Spec.lookup2 t a b = some x) : (a, b, x) ∈ t := by
  unfold Spec.lookup2 at h
  rw [Option.map_eq_some_iff] at h
  obtain ⟨p, hp, rfl⟩ := h
  have hm := List.mem_of_find?_eq_some hp
  have hk := List.find?_some hp
  simp only [Bool.and_eq_true, beq_iff_eq] at hk
  obtain ⟨rfl, rfl⟩ := hk
  exact hm

/-- per-row check of Table 9: every block has a generator polynomial in `GEN_POLY`, data ≤ total,
    and the M1/M3 symbols consist of a single block with at least one data codeword -/
def rowOk (e : Int × Int × List (Nat × Nat × Nat)) : Bool :=
  e.2.2.all (fun b => (assoc Gen.GEN_POLY (b.2.1 - b.2.2)).isSome && decide (b.2.2 ≤ b.2.1)) &&
  (!Spec.fourBitFinal e.1 || (e.2.2.length == 1 && e.2.2.all (fun b => b.1 == 1 && decide (1 ≤ b.2.2))))

theorem table_rows_ok : Spec.eccTable.all rowOk = true := by decide +kernel

theorem row_facts (v lvl : Int) (ecc : List (Nat × Nat × Nat)) (h : Spec.eccOf v lvl = some ecc) :
    (∀ s ∈ Spec.blockShapes ecc, (assoc Gen.GEN_POLY s.2).isSome = true) ∧
    (∀ b ∈ ecc, b.2.2 ≤ b.2.1) ∧
    Spec.capacityOf v lvl = some (8 * (ecc.map (fun b => b.1 * b.2.2)).sum - (if Spec.fourBitFinal v then 4 else 0)) ∧
    (Spec.fourBitFinal v = true → ∃ t d, ecc = [(1, t, d)] ∧ 1 ≤ d) := by
  have hm := lookup2_mem _ _ _ _ h
  have hok := List.all_eq_true.1 table_rows_ok _ hm
  have hcap := List.all_eq_true.1 Props.C03.capacity_is_8_times_data.1 _ hm
  simp only [rowOk, Bool.and_eq_true, Bool.or_eq_true, Bool.not_eq_true', List.all_eq_true,
    decide_eq_true_eq, beq_iff_eq] at hok
  obtain ⟨hrows, hfour⟩ := hok
  refine ⟨?_, fun b hb => (hrows b hb).2, ?_, ?_⟩
  · intro s hs
    obtain ⟨b, hb, rfl⟩ := mem_blockShapes ecc s hs
    exact (hrows b hb).1
  · simp only [beq_iff_eq] at hcap
    rw [hcap, foldl_add_eq_sum]
  · intro hf
    rcases hfour with hfour | ⟨hlen, hall⟩
    · rw [hf] at hfour; exact absurd hfour (by decide)
    · obtain ⟨b, rfl⟩ := List.length_eq_one_iff.1 hlen
      obtain ⟨c, t, d⟩ := b
      have := hall (c, t, d) List.mem_cons_self
      simp only at this
      obtain ⟨rfl, hd⟩ := this
      exact ⟨t, d, rfl, hd⟩

/-! ### the reference reader on a message of the expected layout -/

theorem mem_interleave_lt (D : List (List Nat)) (hDb : ∀ b ∈ D, ∀ x ∈ b, x < 256) :
    ∀ c ∈ interleave D, c < 256 := by
  intro c hc
  obtain ⟨b, hb, hx⟩ := mem_interleave D c hc
  exact hDb b hb c hx

theorem splitBlocks_ok (v lvl : Int) (ecc : List (Nat × Nat × Nat)) (D E : List (List Nat)) (dB R : List Nat)
    (hecc : Spec.eccOf v lvl = some ecc)
    (hD : D.map List.length = (Spec.blockShapes ecc).map (·.1))
    (hE : E.map List.length = (Spec.blockShapes ecc).map (·.2))
    (hDb : ∀ b ∈ D, ∀ x ∈ b, x < 256) (hEb : ∀ b ∈ E, ∀ x ∈ b, x < 256)
    (hd : bitsOf (interleave D) = dB ++ (if Spec.fourBitFinal v then [0, 0, 0, 0] else []))
    (hR : R.length = Spec.remainderBits v) :
    Spec.splitBlocks v lvl (dB ++ bitsOf (interleave E) ++ R) = .ok { data := D, ec := E, remainder := R } := by
  unfold Spec.splitBlocks
  rw [hecc]
  simp only []
  have hN : List.foldl (· + ·) 0 ((Spec.blockShapes ecc).map (·.1)) = (interleave D).length := by
    rw [foldl_add_eq_sum, ← hD, interleave_length]
  have hM : List.foldl (· + ·) 0 ((Spec.blockShapes ecc).map (·.2)) = (interleave E).length := by
    rw [foldl_add_eq_sum, ← hE, interleave_length]
  rw [hN, hM, ← hD, ← hE]
  have hlenD : (interleave D).length * 8 - (if Spec.fourBitFinal v = true then 4 else 0) = dB.length := by
    have := congrArg List.length hd
    rw [bitsOf_length, List.length_append] at this
    split at this <;> simp at this <;> simp [*] <;> omega
  have hbE : (bitsOf (interleave E)).length = (interleave E).length * 8 := by rw [bitsOf_length]; omega
  rw [hlenD]
  have e1 : (dB ++ bitsOf (interleave E) ++ R).length = dB.length + (interleave E).length * 8 + R.length := by
    rw [List.length_append, List.length_append, hbE]
  have e2 : List.drop (dB.length + (interleave E).length * 8) (dB ++ bitsOf (interleave E) ++ R) = R :=
    List.drop_left' (by rw [List.length_append, hbE])
  have e3 : List.take dB.length (dB ++ bitsOf (interleave E) ++ R) = dB := by
    rw [List.append_assoc]; exact List.take_left' rfl
  have e4 : List.take ((interleave E).length * 8) (List.drop dB.length (dB ++ bitsOf (interleave E) ++ R))
      = bitsOf (interleave E) := by
    rw [List.append_assoc, List.drop_left' rfl]; exact List.take_left' hbE
  rw [e2, e3, e4, if_neg (by rw [e1]; omega), chunk8_bitsOf _ (mem_interleave_lt E hEb), deinterleave_interleave]
  have e5 : (if Spec.fourBitFinal v = true then Spec.chunk8 (interleave D).length (dB ++ [0, 0, 0, 0])
      else Spec.chunk8 (interleave D).length dB) = interleave D := by
    have h := chunk8_bitsOf _ (mem_interleave_lt D hDb)
    rw [hd] at h
    by_cases hf : Spec.fourBitFinal v = true
    · rw [if_pos hf] at h ⊢; exact h
    · rw [if_neg hf, List.append_nil] at h; rw [if_neg hf]; exact h
  rw [e5, deinterleave_interleave]
  simp [hR, pure, Except.pure]
/-! ### the shape of the message `make_final_message` emits -/

theorem final_struct (v : Int) (e : Option Nat) (stream bits : List Nat) (ecc : List (Nat × Nat × Nat))
    (hecc : Spec.eccOf v (lvlKey e) = some ecc)
    (hgen : ∀ s ∈ Spec.blockShapes ecc, (assoc Gen.GEN_POLY s.2).isSome = true)
    (hfour : Spec.fourBitFinal v = true → ∃ t d, ecc = [(1, t, d)] ∧ 1 ≤ d)
    (hN : ((Spec.blockShapes ecc).map (·.1)).sum ≤ (toInts (stream.length + 1) stream).length)
    (h : makeFinalMessage v e stream = .ok bits) :
    ∃ dB, bits = dB ++ bitsOf (interleave (ecs (Spec.blockShapes ecc) (toInts (stream.length + 1) stream)))
        ++ List.replicate (Gen.remainder_bits v).toNat 0 ∧
      ((Spec.fourBitFinal v = false ∧
          dB = bitsOf (interleave (slices (Spec.blockShapes ecc) (toInts (stream.length + 1) stream)))) ∨
       (Spec.fourBitFinal v = true ∧ ∃ pre lastCw,
          slices (Spec.blockShapes ecc) (toInts (stream.length + 1) stream) = [pre ++ [lastCw]] ∧
          dB = bitsOf pre ++ appendBits (lastCw >>> 4) 4)) := by
  unfold makeFinalMessage at h
  rw [eccInfo_eq, hecc] at h
  simp only [makeBlocks_eq, go_eq _ _ hgen, bind, Except.bind, pure, Except.pure] at h
  rw [Proofs.Stream.isM1M3_eq] at h
  by_cases hf : Spec.fourBitFinal v = true
  · rw [if_pos hf] at h
    obtain ⟨t, d, rfl, hd⟩ := hfour hf
    have hsl : slices (Spec.blockShapes [(1, t, d)]) (toInts (stream.length + 1) stream)
        = [(toInts (stream.length + 1) stream).take d] := by
      simp [Spec.blockShapes, slices]
    have hN' : d ≤ (toInts (stream.length + 1) stream).length := by
      simpa [Spec.blockShapes] using hN
    have hne : (toInts (stream.length + 1) stream).take d ≠ [] := by
      intro h0
      have := congrArg List.length h0
      rw [List.length_take, List.length_nil] at this
      omega
    obtain ⟨pre, lastCw, hblk⟩ : ∃ pre lastCw, (toInts (stream.length + 1) stream).take d = pre ++ [lastCw] :=
      ⟨_, _, (List.dropLast_concat_getLast hne).symm⟩
    rw [hsl, hblk] at h
    simp only [List.getLast?_concat, List.dropLast_concat, interleave_singleton] at h
    refine ⟨_, (Except.ok.inj h).symm, Or.inr ⟨hf, pre, lastCw, ?_, rfl⟩⟩
    rw [hsl, hblk]
  · rw [if_neg hf, List.append_nil] at h
    exact ⟨_, (Except.ok.inj h).symm, Or.inl ⟨by simpa using hf, rfl⟩⟩
/-! ### the first codewords carry the first `cap` bits of the stream -/

theorem prefix_bits_qr (stream : List Nat) (N : Nat) (hb : ∀ b ∈ stream, b ≤ 1) (hlen : 8 * N ≤ stream.length) :
    bitsOf ((toInts (stream.length + 1) stream).take N) = stream.take (8 * N) := by
  have hla : (stream.take (8 * N)).length = 8 * N := by rw [List.length_take]; omega
  have hsplit : toInts (stream.length + 1) stream
      = toInts ((stream.take (8 * N)).length + 1) (stream.take (8 * N))
        ++ toInts ((stream.drop (8 * N)).length + 1) (stream.drop (8 * N)) := by
    have := toInts_append N (stream.take (8 * N)) (stream.drop (8 * N)) (stream.length + 1) hla
      (by rw [hla, List.length_drop]; omega)
    rwa [List.take_append_drop] at this
  rw [hsplit, List.take_left' (by rw [toInts_length _ _ (by omega), hla]; omega)]
  exact toInts_bits' N _ _ hla (fun b hb' => hb b (List.mem_of_mem_take hb')) (by omega)

theorem pad_last (rest : List Nat) (h4 : 4 ≤ rest.length) (hz : ∀ b ∈ (rest.drop 4).take 4, b = 0) :
    rest.take 8 ++ List.replicate (8 - (rest.take 8).length) 0 = rest.take 4 ++ [0, 0, 0, 0] := by
  have e : rest.take 8 = rest.take 4 ++ (rest.drop 4).take 4 := List.take_add (i := 4) (j := 4)
  have hZ : (rest.drop 4).take 4 = List.replicate ((rest.drop 4).take 4).length 0 :=
    List.eq_replicate_iff.2 ⟨rfl, hz⟩
  have hl : (rest.take 8).length = 4 + ((rest.drop 4).take 4).length := by
    rw [e, List.length_append, List.length_take]; omega
  have hk : ((rest.drop 4).take 4).length ≤ 4 := by rw [List.length_take]; omega
  rw [hl, e, hZ, List.length_replicate, List.append_assoc, List.replicate_append_replicate]
  have : ((rest.drop 4).take 4).length + (8 - (4 + ((rest.drop 4).take 4).length)) = 4 := by omega
  rw [this]
  rfl

theorem prefix_bits_four (stream : List Nat) (N : Nat) (hb : ∀ b ∈ stream, b ≤ 1) (hN : 1 ≤ N)
    (hlen : 8 * N - 4 ≤ stream.length) (hz : ∀ b ∈ (stream.drop (8 * N - 4)).take 4, b = 0) :
    bitsOf ((toInts (stream.length + 1) stream).take N) = stream.take (8 * N - 4) ++ [0, 0, 0, 0] := by
  obtain ⟨n, rfl⟩ : ∃ n, N = n + 1 := ⟨N - 1, by omega⟩
  have hla : (stream.take (8 * n)).length = 8 * n := by rw [List.length_take]; omega
  have hlr : 4 ≤ (stream.drop (8 * n)).length := by rw [List.length_drop]; omega
  have hsplit : toInts (stream.length + 1) stream
      = toInts ((stream.take (8 * n)).length + 1) (stream.take (8 * n))
        ++ toInts ((stream.drop (8 * n)).length + 1) (stream.drop (8 * n)) := by
    have := toInts_append n (stream.take (8 * n)) (stream.drop (8 * n)) (stream.length + 1) hla
      (by rw [hla, List.length_drop]; omega)
    rwa [List.take_append_drop] at this
  have hne : stream.drop (8 * n) ≠ [] := by
    intro h0; rw [h0] at hlr; simp at hlr
  have hlA : (toInts ((stream.take (8 * n)).length + 1) (stream.take (8 * n))).length = n := by
    rw [toInts_length _ _ (by omega), hla]; omega
  have hz' : ∀ b ∈ ((stream.drop (8 * n)).drop 4).take 4, b = 0 := by
    rw [List.drop_drop]
    have : 8 * n + 4 = 8 * (n + 1) - 4 := by omega
    rw [this]; exact hz
  rw [hsplit, toInts_succ _ _ hne, pad_last _ hlr hz', List.take_append, hlA,
    List.take_of_length_le (by rw [hlA]; omega)]
  have : n + 1 - n = 1 := by omega
  rw [this, List.take_succ_cons, List.take_zero, bitsOf_append,
    toInts_bits' n _ _ hla (fun b hb' => hb b (List.mem_of_mem_take hb')) (by omega),
    bitsOf_cons, bitsOf_nil, List.append_nil]
  have hP : ((stream.drop (8 * n)).take 4 ++ [0, 0, 0, 0]).length = 8 := by
    rw [List.length_append, List.length_take]; simp; omega
  have hPb : ∀ b ∈ (stream.drop (8 * n)).take 4 ++ [0, 0, 0, 0], b ≤ 1 := by
    intro b hb'
    rcases List.mem_append.1 hb' with h | h
    · exact hb b (List.mem_of_mem_drop (List.mem_of_mem_take h))
    · simp at h; omega
  have := appendBits_bitsToNat _ hPb
  rw [hP] at this
  rw [this, ← List.append_assoc]
  congr 1
  have : 8 * (n + 1) - 4 = 8 * n + 4 := by omega
  rw [this, List.take_add]

/-! ### the two final theorems -/

theorem appendBits_add (m : Nat) : ∀ (n x : Nat), appendBits x (m + n) = appendBits (x >>> n) m ++ appendBits x n := by
  intro n
  induction n with
  | zero => intro x; simp [appendBits]
  | succ n ih =>
    intro x
    rw [← Nat.add_assoc, Proofs.Roundtrip.appendBits_succ, ih, Proofs.Roundtrip.appendBits_succ x n,
      Nat.shiftRight_succ_inside, List.append_assoc]

theorem natToBits_eq : Spec.natToBits 8 = fun x => appendBits x 8 := rfl


theorem ecc_of_ok (v : Int) (e : Option Nat) (stream bits : List Nat)
    (h : makeFinalMessage v e stream = .ok bits) : ∃ ecc, Spec.eccOf v (lvlKey e) = some ecc := by
  rw [← eccInfo_eq]
  cases hE : eccInfo v e with
  | some x => exact ⟨x, rfl⟩
  | none =>
    unfold makeFinalMessage at h
    rw [hE] at h
    cases h

/-- everything the two final theorems need, in one place -/
theorem setup (v : Int) (e : Option Nat) (cap : Nat) (stream : List Nat) (ecc : List (Nat × Nat × Nat))
    (hcap : Model.capacity v e = some cap) (hlen : cap ≤ stream.length)
    (hecc : Spec.eccOf v (lvlKey e) = some ecc) :
    cap = 8 * ((Spec.blockShapes ecc).map (·.1)).sum - (if Spec.fourBitFinal v then 4 else 0) ∧
    ((Spec.blockShapes ecc).map (·.1)).sum ≤ (toInts (stream.length + 1) stream).length ∧
    (Spec.fourBitFinal v = true → 1 ≤ ((Spec.blockShapes ecc).map (·.1)).sum) := by
  obtain ⟨-, -, hcapT, hfour⟩ := row_facts v _ ecc hecc
  rw [← capacity_eq, hcap, ← shapes_sum_fst] at hcapT
  have hc := Option.some.inj hcapT
  have hcf := Proofs.Stream.cap_facts e hcap
  refine ⟨hc, ?_, ?_⟩
  · rw [toInts_length _ _ (by omega)]
    split at hc <;> omega
  · intro hf
    have := (hcf.2.2.1 hf).2
    rw [if_pos hf] at hc
    omega


theorem final_blocks_valid (v : Int) (e : Option Nat) (cap : Nat) (stream bits : List Nat)
    (h1 : -3 ≤ v) (h2 : v ≤ 40) (hcap : Model.capacity v e = some cap) (hlen : cap ≤ stream.length)
    (hb : ∀ b ∈ stream, b ≤ 1)
    (hz : Spec.fourBitFinal v = true → ∀ b ∈ (stream.drop cap).take 4, b = 0)
    (h : Model.makeFinalMessage v e stream = .ok bits) :
    ∃ b, Spec.splitBlocks v (Model.lvlKey e) bits = .ok b ∧ Spec.badBlocks b = 0
      ∧ Spec.allZero b.remainder = true ∧ Spec.dataStream v b = stream.take cap := by
  obtain ⟨ecc, hecc⟩ := ecc_of_ok v e stream bits h
  obtain ⟨hgen, -, -, hfour⟩ := row_facts v _ ecc hecc
  obtain ⟨hc, hN, hS1⟩ := setup v e cap stream ecc hcap hlen hecc
  obtain ⟨dB, hbits, hcase⟩ := final_struct v e stream bits ecc hecc hgen hfour hN h
  have hcw : ∀ c ∈ toInts (stream.length + 1) stream, c < 256 := toInts_lt stream hb _
  have hD := slices_map_length (Spec.blockShapes ecc) _ hN
  have hE := ecs_map_length (Spec.blockShapes ecc) (toInts (stream.length + 1) stream) hgen
  have hDb : ∀ b ∈ slices (Spec.blockShapes ecc) (toInts (stream.length + 1) stream), ∀ x ∈ b, x < 256 :=
    fun b hb' x hx => hcw x (slices_mem _ _ b hb' x hx)
  have hEb := ecs_bytes (Spec.blockShapes ecc) _ hcw
  have hfl := slices_flatten (Spec.blockShapes ecc) (toInts (stream.length + 1) stream)
  -- the bits of the first codewords
  have hS : bitsOf ((toInts (stream.length + 1) stream).take ((Spec.blockShapes ecc).map (·.1)).sum)
      = stream.take cap ++ (if Spec.fourBitFinal v then [0, 0, 0, 0] else []) := by
    by_cases hf : Spec.fourBitFinal v = true
    · rw [if_pos hf] at hc ⊢
      rw [hc]
      exact prefix_bits_four stream _ hb (hS1 hf) (by omega) (by rw [← hc]; exact hz hf)
    · rw [if_neg hf] at hc ⊢
      rw [hc, List.append_nil]
      exact prefix_bits_qr stream _ hb (by omega)
  have hd : bitsOf (interleave (slices (Spec.blockShapes ecc) (toInts (stream.length + 1) stream)))
      = dB ++ (if Spec.fourBitFinal v then [0, 0, 0, 0] else []) := by
    rcases hcase with ⟨hf, rfl⟩ | ⟨hf, pre, lastCw, hsl, rfl⟩
    · rw [hf]; simp
    · rw [hsl] at hfl
      simp only [List.flatten_cons, List.flatten_nil, List.append_nil] at hfl
      rw [← hfl, if_pos hf, bitsOf_append, bitsOf_cons, bitsOf_nil, List.append_nil,
        appendBits_add 4 4 lastCw, ← List.append_assoc] at hS
      have := List.append_inj_right' hS (by rw [Proofs.Roundtrip.appendBits_length]; rfl)
      rw [hsl, interleave_singleton, if_pos hf, bitsOf_append, bitsOf_cons, bitsOf_nil, List.append_nil,
        appendBits_add 4 4 lastCw, this, List.append_assoc]
  have hR : (List.replicate (Gen.remainder_bits v).toNat 0).length = Spec.remainderBits v := by
    rw [List.length_replicate, Proofs.Stream.remainder_bits v h1 h2]; simp
  have hsplit := splitBlocks_ok v (lvlKey e) ecc _ _ dB _ hecc hD hE hDb hEb hd hR
  rw [← hbits] at hsplit
  refine ⟨_, hsplit, ?_, ?_, ?_⟩
  · unfold Spec.badBlocks
    simp only []
    rw [List.length_eq_zero_iff, List.filter_eq_nil_iff]
    intro p hp
    have := blocks_valid (Spec.blockShapes ecc) _ hcw hgen p hp
    simp [this]
  · simp [Spec.allZero]
  · unfold Spec.dataStream
    simp only []
    rw [hfl, natToBits_eq]
    have hS' : ((toInts (stream.length + 1) stream).take ((Spec.blockShapes ecc).map (·.1)).sum
        |>.map (fun x => appendBits x 8)).flatten
          = stream.take cap ++ (if Spec.fourBitFinal v then [0, 0, 0, 0] else []) := hS
    rw [hS']
    by_cases hf : Spec.fourBitFinal v = true
    · rw [if_pos hf, if_pos hf, List.length_append]
      simp
    · rw [if_neg hf, if_neg hf, List.append_nil]


theorem final_length (v : Int) (e : Option Nat) (cap : Nat) (stream bits : List Nat)
    (h1 : -3 ≤ v) (h2 : v ≤ 40) (hcap : Model.capacity v e = some cap) (hlen : cap ≤ stream.length)
    (h : Model.makeFinalMessage v e stream = .ok bits) (ecc : List (Nat × Nat × Nat))
    (hecc : Spec.eccOf v (Model.lvlKey e) = some ecc) :
    bits.length + (if Spec.fourBitFinal v then 4 else 0)
      = 8 * (ecc.map (fun b => b.1 * b.2.1)).foldl (· + ·) 0 + Spec.remainderBits v := by
  obtain ⟨hgen, hle, -, hfour⟩ := row_facts v _ ecc hecc
  obtain ⟨-, hN, -⟩ := setup v e cap stream ecc hcap hlen hecc
  obtain ⟨dB, hbits, hcase⟩ := final_struct v e stream bits ecc hecc hgen hfour hN h
  have hD := congrArg List.sum (slices_map_length (Spec.blockShapes ecc) _ hN)
  have hE := congrArg List.sum (ecs_map_length (Spec.blockShapes ecc) (toInts (stream.length + 1) stream) hgen)
  rw [shapes_sum_fst] at hD
  rw [shapes_sum_snd] at hE
  have hR : (Gen.remainder_bits v).toNat = Spec.remainderBits v := by
    rw [Proofs.Stream.remainder_bits v h1 h2]; simp
  rw [foldl_add_eq_sum, total_sum ecc hle, hbits, List.length_append, List.length_append, List.length_replicate,
    bitsOf_length, interleave_length, hE, hR]
  rcases hcase with ⟨hf, rfl⟩ | ⟨hf, pre, lastCw, hsl, rfl⟩
  · rw [bitsOf_length, interleave_length, hD, hf]
    simp only [Bool.false_eq_true, if_false]
    omega
  · rw [hsl] at hD
    simp only [List.map_cons, List.map_nil, List.sum_cons, List.sum_nil, List.length_append,
      List.length_singleton] at hD
    rw [List.length_append, bitsOf_length, Proofs.Roundtrip.appendBits_length, if_pos hf]
    omega

end Proofs.Message
