/-
  Proofs.TieABits — bit-length arithmetic: the nested look-up `consts.CHAR_COUNT_INDICATOR_LENGTH[mode][ver_range]`
  of the translated code against `Model.cciLen`, and `calc_qrcode_bit_length` (inner function of `encode_sequence`).
-/
import Proofs.TieA

set_option linter.unusedSimpArgs false
set_option linter.unusedTactic false

namespace Proofs.TieA
open Gen.Py Model Model.Args

/-- the nested look-up `CHAR_COUNT_INDICATOR_LENGTH[mode][ver_range]` against `cciLen` -/
theorem cci_lookup (mode : Nat) (vr : Int) :
    Gen.Py.bind (lookup Gen.Funcs.T_consts_CHAR_COUNT_INDICATOR_LENGTH (mode : Int)) (fun t => lookup t vr)
      = ofOption .keyError ((Model.cciLen mode vr).map Int.ofNat) := by
  by_cases hm : mode = 1 ∨ mode = 2 ∨ mode = 4 ∨ mode = 8 ∨ mode = 13
  · by_cases hv : vr = -3 ∨ vr = -2 ∨ vr = -1 ∨ vr = 0 ∨ vr = 1 ∨ vr = 2 ∨ vr = 3
    · rcases hm with h | h | h | h | h <;> subst h <;> rcases hv with h | h | h | h | h | h | h <;> subst h <;> decide
    · have k : ∀ c : Int, c = -3 ∨ c = -2 ∨ c = -1 ∨ c = 0 ∨ c = 1 ∨ c = 2 ∨ c = 3 → (c == vr) = false := by
        intro c hc; simp; omega
      rcases hm with h | h | h | h | h <;> subst h <;>
        simp [lookup, Gen.Funcs.T_consts_CHAR_COUNT_INDICATOR_LENGTH, List.find?, Model.cciLen, Gen.CHAR_COUNT_INDICATOR_LENGTH,
          k (-3) (by omega), k (-2) (by omega), k (-1) (by omega), k 0 (by omega), k 1 (by omega), k 2 (by omega), k 3 (by omega)]
  · have a1 : ((1 : Int) == (mode : Int)) = false := by simp; omega
    have a2 : ((2 : Int) == (mode : Int)) = false := by simp; omega
    have a4 : ((4 : Int) == (mode : Int)) = false := by simp; omega
    have a8 : ((8 : Int) == (mode : Int)) = false := by simp; omega
    have a13 : ((13 : Int) == (mode : Int)) = false := by simp; omega
    have b1 : ((1 : Nat) == mode) = false := by simp; omega
    have b2 : ((2 : Nat) == mode) = false := by simp; omega
    have b4 : ((4 : Nat) == mode) = false := by simp; omega
    have b8 : ((8 : Nat) == mode) = false := by simp; omega
    have b13 : ((13 : Nat) == mode) = false := by simp; omega
    simp [lookup, Gen.Funcs.T_consts_CHAR_COUNT_INDICATOR_LENGTH, List.find?, Model.cciLen, Gen.CHAR_COUNT_INDICATOR_LENGTH,
      a1, a2, a4, a8, a13, b1, b2, b4, b8, b13]

theorem cqbl (cc : Nat) (vr : Int) (mode : Nat) (enc : String) (eci sa : Bool) :
    toR (Gen.Funcs.calc_qrcode_bit_length cc vr mode enc eci sa)
      = toR (ofOption .keyError ((Model.calcQrcodeBitLength cc vr mode enc eci sa).map Int.ofNat)) := by
  unfold Gen.Funcs.calc_qrcode_bit_length Model.calcQrcodeBitLength
  rw [← Gen.Py.bind_assoc, cci_lookup]
  cases hc : Model.cciLen mode vr with
  | none => rfl
  | some cl =>
    simp only [Option.map_some, ofOption_some, Gen.Py.bind_ok]
    have hb : (enc != Gen.DEFAULT_BYTE_ENCODING) = (!enc == "iso-8859-1") := rfl
    simp only [Model.estPayloadBits, Gen.MODE_BYTE, Gen.MODE_NUMERIC, Gen.MODE_ALPHANUMERIC, Gen.MODE_KANJI, Gen.MODE_HANZI, hb,
      Option.bind_eq_bind, Option.bind_some, Option.pure_def, Option.map_some, ofOption_some, toR_ok]
    by_cases hk : mode = 1 ∨ mode = 2 ∨ mode = 4 ∨ mode = 8 ∨ mode = 13
    · rcases hk with h | h | h | h | h <;> subst h <;> cases hE : (!enc == "iso-8859-1") <;> cases eci <;> cases sa <;>
        simp <;> (try split_ifs) <;> (try simp_all) <;> omega
    · have h1 : ¬ mode = 1 := by omega
      have h2 : ¬ mode = 2 := by omega
      have h4 : ¬ mode = 4 := by omega
      have h8 : ¬ mode = 8 := by omega
      have h13 : ¬ mode = 13 := by omega
      have i1 : ¬ (mode : Int) = 1 := by omega
      have i2 : ¬ (mode : Int) = 2 := by omega
      have i4 : ¬ (mode : Int) = 4 := by omega
      have i8 : ¬ (mode : Int) = 8 := by omega
      have i13 : ¬ (mode : Int) = 13 := by omega
      cases eci <;> cases sa <;> simp [h1, h2, h4, h8, h13, i1, i2, i4, i8, i13] <;> (try omega)

end Proofs.TieA
