/-
  Proofs.Distance — the Reed-Solomon code of the encoder (roots ρ⁰ … ρ^(n-1), length ≤ 255) is
  linear and has minimum distance > n; unique decoding within radius ⌊n/2⌋.

  Route: no determinant.  A "generalised Vandermonde" elimination over a commutative ring: if
  Σ_p c_p β_p^i = 0 for i < m, the β_p have pairwise unit differences and there are at most m points,
  then all c_p = 0.  In K the differences ρ^a − ρ^b (b < a < 255) are units (kernel check on the
  antilog table: exp[k] ≠ 1 for 0 < k < 255).  K is not assumed to be a field.
-/
import Mathlib.Algebra.BigOperators.Group.List.Basic
import Mathlib.Algebra.Group.Units.Basic
import Proofs.RSField

namespace Proofs.Distance

open Proofs.RSGeneric Proofs.RSField

/-! ### generic elimination lemma -/

section Generic

variable {R : Type} [CommRing R]

/-- the i-th power sum Σ c·β^i of a list of (coefficient, point) pairs -/
def psum (ps : List (R × R)) (i : Nat) : R := (ps.map (fun t => t.1 * t.2 ^ i)).sum

theorem psum_nil (i : Nat) : psum ([] : List (R × R)) i = 0 := rfl

theorem psum_cons (t : R × R) (ps : List (R × R)) (i : Nat) :
    psum (t :: ps) i = t.1 * t.2 ^ i + psum ps i := by
  simp [psum]

/-- eliminate the point β: β·S_i − S_(i+1) kills the term of β and scales the others by (β − β') -/
theorem psum_elim (β : R) (ps : List (R × R)) (i : Nat) :
    psum (ps.map (fun t => (t.1 * (β - t.2), t.2))) i = β * psum ps i - psum ps (i + 1) := by
  induction ps with
  | nil => simp [psum]
  | cons t ps ih =>
    simp only [List.map_cons, psum_cons, ih]
    ring

theorem vandermonde_elim : ∀ (m : Nat) (ps : List (R × R)),
    ps.Pairwise (fun s t => IsUnit (s.2 - t.2)) → ps.length ≤ m →
    (∀ i, i < m → psum ps i = 0) → ∀ t ∈ ps, t.1 = 0 := by
  intro m
  induction m with
  | zero =>
    intro ps _ hlen _ t ht
    have : ps = [] := List.eq_nil_of_length_eq_zero (by omega)
    subst this; simp at ht
  | succ m' ih =>
    intro ps hp hlen hs
    cases ps with
    | nil => intro t ht; simp at ht
    | cons s ps =>
    obtain ⟨hs1, hs2⟩ := List.pairwise_cons.mp hp
    have hlen' : ps.length ≤ m' := by simp at hlen; omega
    -- the reduced system
    have hred : ∀ t ∈ ps.map (fun t => (t.1 * (s.2 - t.2), t.2)), t.1 = 0 := by
      apply ih
      · rw [List.pairwise_map]
        exact hs2
      · simpa using hlen'
      · intro i hi
        rw [psum_elim]
        have h1 := hs i (by omega)
        have h2 := hs (i + 1) (by omega)
        rw [psum_cons] at h1 h2
        have e1 : psum ps i = -(s.1 * s.2 ^ i) := eq_neg_of_add_eq_zero_right h1
        have e2 : psum ps (i + 1) = -(s.1 * s.2 ^ (i + 1)) := eq_neg_of_add_eq_zero_right h2
        rw [e1, e2]; ring
    have hrest : ∀ t ∈ ps, t.1 = 0 := by
      intro t ht
      have h := hred (t.1 * (s.2 - t.2), t.2) (List.mem_map.mpr ⟨t, ht, rfl⟩)
      simp only at h
      exact (IsUnit.mul_left_eq_zero (hs1 t ht)).mp h
    have hz : psum ps 0 = 0 := by
      unfold psum
      apply List.sum_eq_zero
      intro x hx
      obtain ⟨t, ht, rfl⟩ := List.mem_map.mp hx
      rw [hrest t ht]; ring
    intro t ht
    rcases List.mem_cons.mp ht with rfl | ht
    · have h0 := hs 0 (by omega)
      rw [psum_cons, hz] at h0
      simpa using h0
    · exact hrest t ht

end Generic

/-! ### unit differences in K -/

theorem isUnit_rho : IsUnit ρ := by
  apply IsUnit.of_mul_eq_one (ρ ^ 254)
  rw [← pow_succ', rho_pow_255]

theorem isUnit_φ_byte (a : Nat) (h0 : a ≠ 0) (ha : a < 256) : IsUnit (φ a) := by
  rw [φ_byte a h0 ha]; exact isUnit_rho.pow _

theorem exp_ne_one_check :
    (List.range 254).all (fun k => Gen.GALIOS_EXP.getD (k + 1) 0 != 1) = true := by decide +kernel

theorem exp_ne_one (k : Nat) (h0 : 0 < k) (hk : k < 255) : Gen.GALIOS_EXP.getD k 0 ≠ 1 := by
  have h := List.all_eq_true.mp exp_ne_one_check (k - 1) (List.mem_range.mpr (by omega))
  have e : k - 1 + 1 = k := by omega
  rw [e] at h
  simpa using h

theorem isUnit_pow_add_one (k : Nat) (h0 : 0 < k) (hk : k < 255) : IsUnit (ρ ^ k + 1) := by
  rw [← φ_exp k (by omega), ← φ_one, ← φ_xor]
  apply isUnit_φ_byte
  · intro h
    exact exp_ne_one k h0 hk (Nat.eq_of_xor_eq_zero h)
  · exact Nat.xor_lt_two_pow (n := 8) (exp_lt k) (by omega)

/-- ρ^a − ρ^b is a unit for b < a < 255 -/
theorem isUnit_pow_sub_pow (a b : Nat) (hab : b < a) (ha : a < 255) : IsUnit (ρ ^ a - ρ ^ b) := by
  have e : ρ ^ a - ρ ^ b = ρ ^ b * (ρ ^ (a - b) + 1) := by
    rw [sub_eq, mul_add, ← pow_add, mul_one]
    congr 2; omega
  rw [e]
  exact (isUnit_rho.pow _).mul (isUnit_pow_add_one _ (by omega) (by omega))

/-! ### a word as a list of (coefficient, exponent) terms -/

/-- the word c₀ c₁ … (highest coefficient first) as terms (c, exponent of x) -/
def terms : List Nat → List (Nat × Nat)
  | [] => []
  | c :: l => (c, l.length) :: terms l

theorem terms_exp_lt : ∀ (w : List Nat), ∀ t ∈ terms w, t.2 < w.length := by
  intro w
  induction w with
  | nil => intro t ht; simp [terms] at ht
  | cons c l ih =>
    intro t ht
    simp only [terms, List.mem_cons] at ht
    rcases ht with rfl | ht
    · simp
    · have := ih t ht; simp; omega

theorem terms_pairwise : ∀ (w : List Nat), (terms w).Pairwise (fun s t => t.2 < s.2) := by
  intro w
  induction w with
  | nil => simp [terms]
  | cons c l ih =>
    simp only [terms, List.pairwise_cons]
    exact ⟨fun t ht => terms_exp_lt l t ht, ih⟩

theorem terms_mem : ∀ (w : List Nat), ∀ x ∈ w, ∃ t ∈ terms w, t.1 = x := by
  intro w
  induction w with
  | nil => intro x hx; simp at hx
  | cons c l ih =>
    intro x hx
    rcases List.mem_cons.mp hx with rfl | hx
    · exact ⟨(x, l.length), by simp [terms], rfl⟩
    · obtain ⟨t, ht, e⟩ := ih x hx
      exact ⟨t, by simp [terms, ht], e⟩

theorem terms_fst_mem : ∀ (w : List Nat), ∀ t ∈ terms w, t.1 ∈ w := by
  intro w
  induction w with
  | nil => intro t ht; simp [terms] at ht
  | cons c l ih =>
    intro t ht
    simp only [terms, List.mem_cons] at ht
    rcases ht with rfl | ht
    · simp
    · exact List.mem_cons_of_mem _ (ih t ht)

theorem terms_filter_length : ∀ (w : List Nat),
    ((terms w).filter (fun t => t.1 != 0)).length = (w.filter (· != 0)).length := by
  intro w
  induction w with
  | nil => rfl
  | cons c l ih =>
    simp only [terms, List.filter_cons]
    by_cases h : c = 0
    · simp [h, ih]
    · simp [h, ih]

/-- terms as pairs of ring elements -/
noncomputable def toK (t : Nat × Nat) : K × K := (φ t.1, ρ ^ t.2)

theorem evalP_terms (i : Nat) : ∀ (w : List Nat),
    evalP (ρ ^ i) (w.map φ) = psum ((terms w).map toK) i := by
  intro w
  induction w with
  | nil => simp [terms, psum, evalP, evalAux]
  | cons c l ih =>
    simp only [List.map_cons, evalP_cons, terms, psum_cons, ih, toK, List.length_map]
    rw [← pow_mul, ← pow_mul, Nat.mul_comm]

theorem psum_filter (i : Nat) : ∀ (ts : List (Nat × Nat)),
    psum ((ts.filter (fun t => t.1 != 0)).map toK) i = psum (ts.map toK) i := by
  intro ts
  induction ts with
  | nil => rfl
  | cons t ts ih =>
    simp only [List.filter_cons]
    by_cases h : t.1 = 0
    · simp [h, psum_cons, ih, toK, φ_zero]
    · simp [h, psum_cons, ih]

/-! ### minimum distance -/

/-- all n syndromes vanish -/
def IsCodeword (n : Nat) (w : List Nat) : Prop :=
  ∀ i, i < n → tevalPoly w (Gen.GALIOS_EXP.getD i 0) = 0

theorem min_distance (n : Nat) (w : List Nat) (hlen : w.length ≤ 255) (hb : ∀ x ∈ w, x < 256)
    (hc : IsCodeword n w) (hw : (w.filter (· != 0)).length ≤ n) : ∀ x ∈ w, x = 0 := by
  let ts := (terms w).filter (fun t => t.1 != 0)
  have hts : ∀ t ∈ ts, t ∈ terms w ∧ t.1 ≠ 0 := by
    intro t ht
    have := List.mem_filter.mp ht
    exact ⟨this.1, by simpa using this.2⟩
  have hlen_ts : ts.length = (w.filter (· != 0)).length := terms_filter_length w
  have hwl : (w.filter (· != 0)).length ≤ w.length := List.length_filter_le _ _
  have hall : ∀ t ∈ ts.map toK, t.1 = 0 := by
    apply vandermonde_elim ts.length
    · rw [List.pairwise_map]
      have hp : ts.Pairwise (fun s t => t.2 < s.2) := (terms_pairwise w).filter _
      refine hp.imp_of_mem ?_
      intro s t hs _ hst
      have := terms_exp_lt w s (hts s hs).1
      exact isUnit_pow_sub_pow s.2 t.2 hst (by omega)
    · simp
    · intro i hi
      have hin : i < n := by omega
      have h := hc i hin
      have h1 := φ_tevalPoly w _ hb (exp_lt i)
      rw [h, φ_zero, φ_exp i (by omega), evalP_terms] at h1
      show psum (((terms w).filter (fun t => t.1 != 0)).map toK) i = 0
      rw [psum_filter]; exact h1.symm
  intro x hx
  by_contra hx0
  obtain ⟨t, ht, rfl⟩ := terms_mem w x hx
  have hmem : t ∈ ts := List.mem_filter.mpr ⟨ht, by simpa using hx0⟩
  have h := hall (toK t) (List.mem_map.mpr ⟨t, hmem, rfl⟩)
  exact hx0 (φ_eq_zero _ (hb _ hx) h)

/-! ### linearity -/

theorem evalP_zipWith_add {R : Type} [CommRing R] (x : R) : ∀ (a b : List R), a.length = b.length →
    evalP x (List.zipWith (· + ·) a b) = evalP x a + evalP x b := by
  intro a
  induction a with
  | nil =>
    intro b hl
    have : b = [] := List.eq_nil_of_length_eq_zero hl.symm
    subst this; simp [evalP, evalAux]
  | cons c a ih =>
    intro b hl
    cases b with
    | nil => simp at hl
    | cons d b =>
      have hl' : a.length = b.length := by simpa using hl
      simp only [List.zipWith_cons_cons, evalP_cons, ih b hl', List.length_zipWith, hl', Nat.min_self]
      ring

theorem map_φ_zipWith_xor : ∀ (a b : List Nat),
    (List.zipWith (· ^^^ ·) a b).map φ = List.zipWith (· + ·) (a.map φ) (b.map φ) := by
  intro a
  induction a with
  | nil => intro b; simp
  | cons c a ih =>
    intro b
    cases b with
    | nil => simp
    | cons d b => simp [ih b, φ_xor]

theorem bytes_zipWith_xor : ∀ (a b : List Nat), Bytes a → Bytes b →
    Bytes (List.zipWith (· ^^^ ·) a b) := by
  intro a
  induction a with
  | nil => intro b _ _; simpa using bytes_nil
  | cons c a ih =>
    intro b ha hb
    cases b with
    | nil => simpa using bytes_nil
    | cons d b =>
      obtain ⟨hc, ha'⟩ := bytes_cons.mp ha
      obtain ⟨hd, hb'⟩ := bytes_cons.mp hb
      simp only [List.zipWith_cons_cons]
      exact bytes_cons.mpr ⟨Nat.xor_lt_two_pow (n := 8) hc hd, ih b ha' hb'⟩

theorem codeword_xor (n : Nat) (a b : List Nat) (hl : a.length = b.length)
    (ha : ∀ x ∈ a, x < 256) (hb : ∀ x ∈ b, x < 256) (h1 : IsCodeword n a) (h2 : IsCodeword n b) :
    IsCodeword n (List.zipWith (· ^^^ ·) a b) := by
  intro i hi
  have hz := bytes_zipWith_xor a b ha hb
  apply φ_eq_zero _ (tevalPoly_lt _ _ hz (exp_lt i))
  rw [φ_tevalPoly _ _ hz (exp_lt i), map_φ_zipWith_xor, evalP_zipWith_add _ _ _ (by simpa using hl),
    ← φ_tevalPoly _ _ ha (exp_lt i), ← φ_tevalPoly _ _ hb (exp_lt i), h1 i hi, h2 i hi, φ_zero, add_zero]

/-! ### Hamming distance, unique decoding -/

def hammingDist (a b : List Nat) : Nat := ((a.zip b).filter (fun p => p.1 != p.2)).length

theorem hammingDist_cons (x y : Nat) (a b : List Nat) :
    hammingDist (x :: a) (y :: b) = (if x = y then 0 else 1) + hammingDist a b := by
  unfold hammingDist
  simp only [List.zip_cons_cons, List.filter_cons]
  by_cases h : x = y
  · simp [h]
  · simp [h]; omega

theorem hammingDist_triangle : ∀ (r a b : List Nat), a.length = r.length → b.length = r.length →
    hammingDist a b ≤ hammingDist r a + hammingDist r b := by
  intro r
  induction r with
  | nil =>
    intro a b ha hb
    have : a = [] := List.eq_nil_of_length_eq_zero ha
    subst this
    simp [hammingDist]
  | cons z r ih =>
    intro a b ha hb
    cases a with
    | nil => simp at ha
    | cons x a =>
      cases b with
      | nil => simp at hb
      | cons y b =>
        have := ih a b (by simpa using ha) (by simpa using hb)
        simp only [hammingDist_cons]
        split <;> split <;> split <;> omega

theorem weight_xor : ∀ (a b : List Nat),
    ((List.zipWith (· ^^^ ·) a b).filter (· != 0)).length = hammingDist a b := by
  intro a
  induction a with
  | nil => intro b; simp [hammingDist]
  | cons x a ih =>
    intro b
    cases b with
    | nil => simp [hammingDist]
    | cons y b =>
      rw [hammingDist_cons, ← ih b]
      simp only [List.zipWith_cons_cons, List.filter_cons]
      by_cases h : x = y
      · simp [h]
      · have : x ^^^ y ≠ 0 := fun e => h (Nat.eq_of_xor_eq_zero e)
        simp [h, this]; omega

theorem eq_of_xor_all_zero : ∀ (a b : List Nat), a.length = b.length →
    (∀ x ∈ List.zipWith (· ^^^ ·) a b, x = 0) → a = b := by
  intro a
  induction a with
  | nil => intro b hl _; exact (List.eq_nil_of_length_eq_zero hl.symm).symm
  | cons x a ih =>
    intro b hl h
    cases b with
    | nil => simp at hl
    | cons y b =>
      simp only [List.zipWith_cons_cons, List.mem_cons, forall_eq_or_imp] at h
      rw [Nat.eq_of_xor_eq_zero h.1, ih b (by simpa using hl) h.2]

theorem unique_decoding (n : Nat) (r a b : List Nat) (hlen : r.length ≤ 255)
    (hla : a.length = r.length) (hlb : b.length = r.length)
    (ha : ∀ x ∈ a, x < 256) (hb : ∀ x ∈ b, x < 256)
    (hca : IsCodeword n a) (hcb : IsCodeword n b)
    (hda : hammingDist r a ≤ n / 2) (hdb : hammingDist r b ≤ n / 2) : a = b := by
  have hl : a.length = b.length := by omega
  apply eq_of_xor_all_zero a b hl
  apply min_distance n
  · simp only [List.length_zipWith]; omega
  · exact bytes_zipWith_xor a b ha hb
  · exact codeword_xor n a b hl ha hb hca hcb
  · rw [weight_xor]
    have := hammingDist_triangle r a b hla hlb
    omega

theorem table9_blocks_at_most_255 :
    Spec.eccTable.all (fun e => e.2.2.all (fun b => b.2.1 ≤ 255)) = true := by decide +kernel

end Proofs.Distance
