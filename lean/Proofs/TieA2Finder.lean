/-
  Proofs.TieA2Finder — `add_finder_patterns` (translated, Gen/Funcs2.lean) against `Model.addFinderPatterns`:
  the slice assignments `matrix[i + r][j:j + 8] = _FINDER_PATTERN[offset + r][sepoffset:sepoffset + 8]` of the source
  are the 64 cell writes (`Model.set2`) per corner of the model.  General part: cells of a matrix after `set2`
  (`cell_set2`, `cell_rowWrite`), a matrix is determined by its cells (`eq_mI_of_cells`), a slice assignment inside a
  row is a run of cell writes (`setSlice2_row`), loops with an invariant (`foldlM_map_inv`).
-/
import Proofs.TieA2Matrix

namespace Proofs.TieA2
open Gen.Py Proofs.TieA Model

/-- the cells after one cell write inside an n × n matrix -/
theorem cell_set2 {m : Matrix} {n : Nat} (hs : Sq m n) (i j v a b : Nat) (hi : i < n) (hj : j < n) :
    get2 (set2 m i j v) a b = if a = i ∧ b = j then v else get2 m a b := by
  have hsz := hs.size
  unfold get2 set2
  simp only [Array.getD_eq_getD_getElem?, Array.getElem?_modify]
  by_cases hai : i = a
  · subst hai
    have ha : i < m.size := by omega
    have hr := hs.rows i ha
    simp only [if_true, true_and, Array.getElem?_eq_getElem ha, Option.map_some, Option.getD_some,
      Array.getElem?_setIfInBounds]
    by_cases hbj : j = b
    · subst hbj
      simp [hr, hj]
    · have : ¬ b = j := fun h => hbj h.symm
      simp [hbj, this]
  · have : ¬ a = i := fun h => hai h.symm
    simp [hai, this]

/-- `w` cell writes into row `i`, columns `j … j + w - 1` -/
def rowWrite (m : Matrix) (i j w : Nat) (f : Nat → Nat) : Matrix :=
  (List.range w).foldl (fun m c => set2 m i (j + c) (f c)) m

theorem sq_rowWrite {m : Matrix} {n : Nat} (hs : Sq m n) (i j w : Nat) (f : Nat → Nat) : Sq (rowWrite m i j w f) n := by
  unfold rowWrite
  induction w with
  | zero => simpa using hs
  | succ w ih => rw [List.range_succ, List.foldl_append]; exact sq_set2 ih _ _ _

/-- the cells after `rowWrite` inside an n × n matrix -/
theorem cell_rowWrite {m : Matrix} {n : Nat} (hs : Sq m n) (i j w : Nat) (f : Nat → Nat) (hi : i < n) (hj : j + w ≤ n)
    (a b : Nat) :
    get2 (rowWrite m i j w f) a b = if a = i ∧ j ≤ b ∧ b < j + w then f (b - j) else get2 m a b := by
  induction w with
  | zero =>
    have : ¬ (a = i ∧ j ≤ b ∧ b < j + 0) := by omega
    rw [if_neg this]; rfl
  | succ w ih =>
    have ih := ih (by omega)
    have hsq := sq_rowWrite hs i j w f
    unfold rowWrite at ih hsq ⊢
    rw [List.range_succ, List.foldl_append, List.foldl_cons, List.foldl_nil,
      cell_set2 hsq _ _ _ _ _ hi (by omega), ih]
    by_cases h1 : a = i ∧ b = j + w
    · obtain ⟨h1, h2⟩ := h1
      subst h1 h2
      have : (j + w - j) = w := by omega
      simp [this]
    · rw [if_neg h1]
      by_cases h2 : a = i ∧ j ≤ b ∧ b < j + w
      · rw [if_pos h2, if_pos (by omega)]
      · rw [if_neg h2, if_neg (by omega)]

/-- a list of rows with the cells of an n × n matrix is that matrix -/
theorem eq_mI_of_cells (L : List (List Int)) (M : Matrix) (n : Nat) (hs : Sq M n) (hl : L.length = n)
    (hc : ∀ a, a < n → ∀ r, L[a]? = some r → r.length = n ∧ ∀ b, b < n → r[b]? = some (get2 M a b : Int)) : L = mI M := by
  apply List.ext_getElem?
  intro a
  by_cases ha : a < n
  · have hm : a < M.size := by rw [hs.size]; exact ha
    rw [mI_getElem? M a hm]
    have hL : a < L.length := by omega
    rw [List.getElem?_eq_getElem hL]
    congr 1
    obtain ⟨h1, h2⟩ := hc a ha L[a] (List.getElem?_eq_getElem hL)
    have hr := hs.rows a hm
    apply List.ext_getElem?
    intro b
    by_cases hb : b < n
    · rw [h2 b hb]
      unfold get2
      rw [getD_row M a hm]
      simp [toI, Array.getD, hr, hb]
    · rw [List.getElem?_eq_none (by omega), List.getElem?_eq_none (by simp [hr]; omega)]
  · rw [List.getElem?_eq_none (by omega), List.getElem?_eq_none (by rw [mI_length, hs.size]; omega)]

/-- the rows of `mI m` -/
theorem mI_row_cells {m : Matrix} {n : Nat} (hs : Sq m n) (a : Nat) (ha : a < n) (r : List Int)
    (h : (mI m)[a]? = some r) : r.length = n ∧ ∀ b, b < n → r[b]? = some (get2 m a b : Int) := by
  have hm : a < m.size := by rw [hs.size]; exact ha
  have hr := hs.rows a hm
  rw [mI_getElem? m a hm] at h
  simp only [Option.some.injEq] at h
  subst h
  refine ⟨by simp [hr], ?_⟩
  intro b hb
  unfold get2
  rw [getD_row m a hm]
  simp [toI, Array.getD, hr, hb]

theorem clip_nat (n k : Nat) (h : k ≤ n) : clip n (k : Int) = k := by
  unfold clip
  rw [if_neg (by omega)]
  simp; omega

/-- `matrix[ii][lo:hi] = ys` with `w = hi - lo` values inside the row is `w` cell writes of the model -/
theorem setSlice2_row {m : Matrix} {n : Nat} (hs : Sq m n) (ii lo hi : Int) (i j w : Nat) (f : Nat → Nat)
    (hi' : normIndex n ii = some i) (hlo : lo = (j : Int)) (hhi : hi = ((j + w : Nat) : Int)) (hjw : j + w ≤ n) :
    setSlice2 (mI m) ii (some lo) (some hi) (toI ((List.range w).map f)) = .ok (mI (rowWrite m i j w f)) := by
  have hin : i < n := normIndex_lt hi'
  have hlt : i < m.size := by rw [hs.size]; exact hin
  have hrow : m[i].size = n := hs.rows i hlt
  subst hlo hhi
  unfold setSlice2
  rw [index_row hs ii i hi', bind_ok, getD_row m i hlt]
  rw [setItem_eq_of_norm _ ii i _ (by rw [mI_length, hs.size]; exact hi')]
  congr 1
  have hlen : (toI m[i].toList).length = n := by simp [hrow]
  have hcells := (mI_row_cells hs i hin _ (mI_getElem? m i hlt)).2
  generalize toI m[i].toList = row at hlen hcells
  apply eq_mI_of_cells _ _ n (sq_rowWrite hs i j w f) (by rw [List.length_set, mI_length, hs.size])
  intro a ha r hr
  rw [List.getElem?_set] at hr
  by_cases hia : i = a
  · subst hia
    rw [if_pos rfl, if_pos (by rw [mI_length]; exact hlt)] at hr
    simp only [Option.some.injEq] at hr
    subst hr
    unfold setSlice sliceLo sliceHi
    simp only [hlen, clip_nat n j (by omega), clip_nat n (j + w) hjw, Nat.le_add_right, Nat.max_eq_right]
    constructor
    · simp [hlen]; omega
    · intro b hb
      rw [cell_rowWrite hs i j w f hin hjw]
      simp only [true_and]
      rw [List.append_assoc, List.getElem?_append]
      simp only [List.length_take, hlen, Nat.min_eq_left (show j ≤ n by omega)]
      by_cases h1 : b < j
      · rw [if_pos h1, if_neg (by omega), List.getElem?_take, if_pos h1, hcells b hb]
      · rw [if_neg h1, List.getElem?_append]
        simp only [toI_length, List.length_map, List.length_range]
        by_cases h2 : b - j < w
        · rw [if_pos h2, if_pos (by omega)]
          simp [toI, h2]
        · rw [if_neg h2, if_neg (by omega), List.getElem?_drop]
          have : j + w + (b - j - w) = b := by omega
          rw [this, hcells b hb]
  · rw [if_neg hia] at hr
    obtain ⟨h1, h2⟩ := mI_row_cells hs a ha r hr
    refine ⟨h1, ?_⟩
    intro b hb
    rw [cell_rowWrite hs i j w f hin hjw, if_neg (by omega), h2 b hb]

/-! ### loops over a matrix -/

/-- a loop of translated code over the image of a list the model folds over, with an invariant of the model's state -/
theorem foldlM_map_inv {α β σ τ : Type} (P : τ → Prop) (g : τ → σ) (φ : β → α) (ys : List β) (body : σ → α → M σ)
    (f : τ → β → τ) (h : ∀ t, P t → ∀ y ∈ ys, body (g t) (φ y) = .ok (g (f t y)) ∧ P (f t y)) (t : τ) (ht : P t) :
    foldlM (ys.map φ) (g t) body = .ok (g (ys.foldl f t)) ∧ P (ys.foldl f t) := by
  induction ys generalizing t with
  | nil => exact ⟨rfl, ht⟩
  | cons y ys ih =>
    obtain ⟨h1, h2⟩ := h t ht y (by simp)
    rw [List.map_cons, foldlM_cons, h1]
    exact ih (fun t' ht' y' hy' => h t' ht' y' (by simp [hy'])) _ h2

/-! ### `add_finder_patterns` -/

/-- the body of the inner loop `for r in finder_range` -/
def finderRowBody (p : Int × Int) (offset sepoffset : Int) (acc : List (List Int)) (r : Int) : M (List (List Int)) :=
  Gen.Py.bind (index Gen.Funcs2.T_FINDER_PATTERN (offset + r)) (fun t =>
    setSlice2 acc (p.1 + r) (some p.2) (some (p.2 + 8)) (slice t (some sepoffset) (some (sepoffset + 8))))

/-- the body of the outer loop `for i, j in corners` -/
def finderBody (acc : List (List Int)) (p : Int × Int) : M (List (List Int)) :=
  Gen.Py.bind (foldlM (range 0 8) acc
    (finderRowBody p (if p.1 == 0 then 1 else 0) (if !(p.2 == 0) then 0 else 1))) (fun st => .ok st)

theorem add_finder_patterns_unfold (matrix : List (List Int)) (w h : Int) :
    Gen.Funcs2.add_finder_patterns matrix w h =
      Gen.Py.bind (foldlM (if (w == h && decide (w < 21)) then [((0 : Int), (0 : Int))]
        else [(0, 0), (0, Int.ofNat matrix.length - 8), (-8, 0)]) matrix finderBody) (fun st => .ok st) := rfl

/-- one corner of the model -/
def finderCorner (m : Matrix) (q : Nat × Nat × Nat × Nat) : Matrix :=
  (List.range 8).foldl (fun m r =>
    (List.range 8).foldl (fun m c =>
      set2 m (q.1 + r) (q.2.1 + c) ((Gen.FINDER_PATTERN.getD (q.2.2.1 + r) []).getD (q.2.2.2 + c) 0)) m) m

theorem addFinderPatterns_unfold (m : Matrix) (n : Nat) :
    addFinderPatterns m n =
      (if n < 21 then [(0, 0, 1, 1)] else [(0, 0, 1, 1), (0, n - 8, 1, 0), (n - 8, 0, 0, 1)]).foldl finderCorner m := rfl

theorem finder_index : ∀ off : Fin 2, ∀ r : Fin 8,
    index Gen.Funcs2.T_FINDER_PATTERN (((off.val : Nat) : Int) + ((r.val : Nat) : Int)) =
      .ok (toI (Gen.FINDER_PATTERN.getD (off.val + r.val) [])) := by decide

theorem finder_slice : ∀ off : Fin 2, ∀ sep : Fin 2, ∀ r : Fin 8,
    slice (toI (Gen.FINDER_PATTERN.getD (off.val + r.val) [])) (some ((sep.val : Nat) : Int)) (some (((sep.val : Nat) : Int) + 8)) =
      toI ((List.range 8).map (fun c => (Gen.FINDER_PATTERN.getD (off.val + r.val) []).getD (sep.val + c) 0)) := by decide

theorem finderBody_eq {m : Matrix} {n : Nat} (hs : Sq m n) (p : Int × Int) (i j off sep : Nat)
    (hoff : (if p.1 == 0 then (1 : Int) else 0) = (off : Int)) (hsep : (if !(p.2 == 0) then (0 : Int) else 1) = (sep : Int))
    (ho : off < 2) (hse : sep < 2) (hrow : ∀ r : Nat, r < 8 → normIndex n (p.1 + (r : Int)) = some (i + r))
    (hj : p.2 = (j : Int)) (hjn : j + 8 ≤ n) :
    finderBody (mI m) p = .ok (mI (finderCorner m (i, j, off, sep))) ∧ Sq (finderCorner m (i, j, off, sep)) n := by
  unfold finderBody finderCorner
  have e8 : range 0 8 = (List.range 8).map Int.ofNat := range_zero_nat 8
  rw [hoff, hsep, e8]
  have key := foldlM_map_inv (fun t => Sq t n) mI Int.ofNat (List.range 8) (finderRowBody p (off : Int) (sep : Int))
    (fun m r => rowWrite m (i + r) j 8 (fun c => (Gen.FINDER_PATTERN.getD (off + r) []).getD (sep + c) 0))
    (by
      intro t ht r hr
      have hr8 : r < 8 := List.mem_range.mp hr
      refine ⟨?_, sq_rowWrite ht _ _ _ _⟩
      unfold finderRowBody
      have e1 := finder_index ⟨off, ho⟩ ⟨r, hr8⟩
      have e2 := finder_slice ⟨off, ho⟩ ⟨sep, hse⟩ ⟨r, hr8⟩
      simp only at e1 e2
      rw [show Int.ofNat r = (r : Int) from rfl, e1, bind_ok, e2]
      exact setSlice2_row ht _ _ _ (i + r) j 8 _ (hrow r hr8) hj (by rw [hj]; push_cast; rfl) hjn)
    m hs
  exact ⟨by rw [key.1]; rfl, key.2⟩

/-- `add_finder_patterns(matrix, n, n)` on an n × n matrix with n ≥ 8: the slice assignments `matrix[i + r][j:j + 8] = …`
    of the source are the 64 cell writes per corner of the model -/
theorem add_finder_patterns_eq (m : Matrix) (n : Nat) (hs : Sq m n) (hn : 8 ≤ n) :
    Gen.Funcs2.add_finder_patterns (mI m) n n = .ok (mI (Model.addFinderPatterns m n)) := by
  rw [add_finder_patterns_unfold, addFinderPatterns_unfold, mI_length, hs.size]
  have c1 : ∀ {t : Matrix}, Sq t n → finderBody (mI t) (0, 0) = .ok (mI (finderCorner t (0, 0, 1, 1))) ∧
      Sq (finderCorner t (0, 0, 1, 1)) n := fun ht =>
    finderBody_eq ht (0, 0) 0 0 1 1 rfl rfl (by omega) (by omega)
      (fun r hr => by simp only [Int.zero_add, Nat.zero_add]; exact normIndex_nat n r (by omega)) rfl (by omega)
  by_cases h21 : n < 21
  · have hc : ((n : Int) == (n : Int) && decide ((n : Int) < 21)) = true := by simp; omega
    rw [if_pos hc, if_pos h21, foldlM_cons, (c1 hs).1]
    simp only [foldlM_nil, bind_ok, List.foldl_cons, List.foldl_nil]
  · have hc : ¬ ((n : Int) == (n : Int) && decide ((n : Int) < 21)) = true := by simp; omega
    rw [if_neg hc, if_neg h21]
    have c2 : ∀ {t : Matrix}, Sq t n → finderBody (mI t) (0, Int.ofNat n - 8) = .ok (mI (finderCorner t (0, n - 8, 1, 0))) ∧
        Sq (finderCorner t (0, n - 8, 1, 0)) n := fun ht =>
      finderBody_eq ht (0, Int.ofNat n - 8) 0 (n - 8) 1 0 rfl
        (by
          have : ((Int.ofNat n - 8 : Int) == 0) = false := by
            rw [beq_eq_false_iff_ne]; simp only [Int.ofNat_eq_natCast]; omega
          simp only [this]; rfl)
        (by omega) (by omega)
        (fun r hr => by simp only [Int.zero_add, Nat.zero_add]; exact normIndex_nat n r (by omega))
        (by simp only [Int.ofNat_eq_natCast]; omega) (by omega)
    have c3 : ∀ {t : Matrix}, Sq t n → finderBody (mI t) (-8, 0) = .ok (mI (finderCorner t (n - 8, 0, 0, 1))) ∧
        Sq (finderCorner t (n - 8, 0, 0, 1)) n := fun ht =>
      finderBody_eq ht (-8, 0) (n - 8) 0 0 1 rfl rfl (by omega) (by omega)
        (fun r hr => by
          have e : (-8 : Int) + (r : Int) = -((8 - r : Nat) : Int) := by omega
          simp only []
          rw [e, normIndex_neg n (8 - r) (by omega) (by omega)]
          congr 1; omega) rfl (by omega)
    have s1 := c1 hs
    have s2 := c2 s1.2
    have s3 := c3 s2.2
    rw [foldlM_cons, s1.1]
    simp only []
    rw [foldlM_cons, s2.1]
    simp only []
    rw [foldlM_cons, s3.1]
    simp only [foldlM_nil, bind_ok, List.foldl_cons, List.foldl_nil]
end Proofs.TieA2
