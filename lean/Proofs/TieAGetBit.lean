/-
  Proofs.TieAGetBit — `get_bit` (inner function of `utils.matrix_iter_verbose`): the translated decision chain against
  `Model.getBitInside` (= `Model.getBitBranch` + `Model.branchCode`), by case analysis on the flags and the two matrix
  values and linear arithmetic on the coordinates.
-/
import Proofs.TieA
import Proofs.TieAGetBitQr
import Proofs.TieAGetBitMicro

set_option linter.unusedSimpArgs false
set_option linter.unusedTactic false

namespace Proofs.TieA
open Gen.Py Model

/-- inside the symbol: the translated `get_bit` returns the module type the model computes -/
theorem get_bit_inside (w h i j : Int) (sq mi : Bool) (a val : Nat) (hi : 0 ≤ i ∧ i < h) (hj : 0 ≤ j ∧ j < w)
    (ha : a = 0 ∨ a = 1 ∨ a = 2) (hval : val = 0 ∨ val = 1) :
    Gen.Funcs.get_bit w h sq mi i j val a = .ok (Int.ofNat (Model.getBitInside w h sq mi a val i j)) := by
  cases mi
  · exact get_bit_inside_qr w h i j sq a val hi hj ha hval
  · exact get_bit_inside_micro w h i j sq a val hi hj ha hval

/-- outside the symbol: the quiet zone type, whatever the other arguments are -/
theorem get_bit_outside (w h i j : Int) (sq mi : Bool) (a val : Int) (hout : ¬ ((0 ≤ i ∧ i < h) ∧ (0 ≤ j ∧ j < w))) :
    Gen.Funcs.get_bit w h sq mi i j val a = .ok (Int.ofNat Gen.TYPE_QUIET_ZONE) := by
  have hin : ¬ (((decide ((0 : Int) ≤ i)) && (decide (i < h))) && ((decide ((0 : Int) ≤ j)) && (decide (j < w)))) = true := by
    simpa using hout
  unfold Gen.Funcs.get_bit
  rw [if_neg hin]
  rfl

end Proofs.TieA
