/-
  Proofs.Roundtrip — helper lemmas for C01: bit fields read back, and the reference reader
  `Spec.parseChars` inverts the per-mode bit packing of `Model.makeSegment`.
-/
import Proofs.Modes

namespace Proofs.Roundtrip
open Model Proofs.Modes

/-! ### bit fields -/

theorem appendBits_length (v w : Nat) : (appendBits v w).length = w := by
  simp [appendBits]

theorem appendBits_succ (v w : Nat) : appendBits v (w + 1) = appendBits (v / 2) w ++ [v % 2] := by
  unfold appendBits
  rw [List.range_succ, List.map_append]
  congr 1
  · apply List.map_congr_left
    intro k hk
    have hk' : k < w := List.mem_range.1 hk
    have e : w + 1 - 1 - k = 1 + (w - 1 - k) := by omega
    rw [e, Nat.shiftRight_add]; simp [Nat.shiftRight_eq_div_pow]
  · simp

theorem bitsToNat_append_one (l : List Nat) (b : Nat) : Spec.bitsToNat (l ++ [b]) = Spec.bitsToNat l * 2 + b := by
  simp [Spec.bitsToNat, List.foldl_append]

theorem bits_roundtrip : ∀ (w v : Nat), v < 2 ^ w → Spec.bitsToNat (appendBits v w) = v
  | 0, v, h => by
    have : v = 0 := by simpa using h
    subst this; rfl
  | w + 1, v, h => by
    have h2 : v / 2 < 2 ^ w := by rw [Nat.pow_succ] at h; omega
    rw [appendBits_succ, bitsToNat_append_one, bits_roundtrip w (v / 2) h2]
    omega

theorem takeBits_appendBits (pre post : List Nat) (v w : Nat) (h : v < 2 ^ w) :
    Spec.takeBits (pre ++ appendBits v w ++ post) pre.length w = some (v, pre.length + w) := by
  unfold Spec.takeBits
  have hl : pre.length + w ≤ (pre ++ appendBits v w ++ post).length := by
    simp [appendBits_length]
  rw [if_pos hl, List.append_assoc, List.drop_left]
  have : List.take w (appendBits v w ++ post) = appendBits v w := by
    have := List.take_left (l₁ := appendBits v w) (l₂ := post)
    rwa [appendBits_length] at this
  rw [this, bits_roundtrip w v h]

/-- the form used below: the stream is given up to equality, the position by its value -/
theorem takeBits_at (st pre post : List Nat) (v w pos : Nat) (hst : st = pre ++ appendBits v w ++ post)
    (hpos : pos = pre.length) (h : v < 2 ^ w) : Spec.takeBits st pos w = some (v, pos + w) := by
  subst hst; subst hpos; exact takeBits_appendBits pre post v w h

theorem payloadBits_mono (m a b : Nat) (h : a ≤ b) : Spec.payloadBits m a ≤ Spec.payloadBits m b := by
  unfold Spec.payloadBits
  split
  · simp only [beq_iff_eq]
    split <;> split <;> (try split) <;> (try split) <;> omega
  · omega
  · omega
  · omega

/-! ### byte mode -/

theorem byteBits_cons (b : Nat) (rest : List Nat) : byteBits (b :: rest) = appendBits b 8 ++ byteBits rest := by
  simp [byteBits]

theorem parse_byte (st post : List Nat) : ∀ (data pre acc : List Nat) (pos : Nat),
    st = pre ++ byteBits data ++ post → pos = pre.length → (∀ b ∈ data, b < 256) →
    Spec.parseChars st 4 data.length pos acc = .ok (acc ++ data, pos + (byteBits data).length)
  | [], pre, acc, pos, _, _, _ => by
    rw [List.length_nil, Spec.parseChars]; simp [byteBits]
  | b :: rest, pre, acc, pos, hst, hpos, hd => by
    have hb : b < 2 ^ 8 := hd b (List.mem_cons_self ..)
    have ht := takeBits_at st pre (byteBits rest ++ post) b 8 pos
      (by rw [hst, byteBits_cons]; simp only [List.append_assoc]) hpos hb
    rw [List.length_cons, Spec.parseChars, ht]
    show Spec.parseChars st 4 rest.length (pos + 8) (acc ++ [b]) = _
    rw [parse_byte st post rest (pre ++ appendBits b 8) (acc ++ [b]) (pos + 8)
      (by rw [hst, byteBits_cons]; simp only [List.append_assoc])
      (by rw [List.length_append, appendBits_length, hpos])
      (fun x hx => hd x (List.mem_cons_of_mem _ hx))]
    rw [byteBits_cons, List.length_append, appendBits_length]
    simp only [List.append_assoc, List.singleton_append, Nat.add_assoc]

/-! ### kanji / hanzi arithmetic -/

theorem shr8 (d : Nat) : d >>> 8 = d / 256 := by rw [Nat.shiftRight_eq_div_pow]
theorem and255 (d : Nat) : d &&& 255 = d % 256 := Nat.and_two_pow_sub_one_eq_mod d 8

theorem kanji_arith (hi lo : Nat) (h : Spec.isKanjiPair hi lo = true) :
    kanjiVal hi lo < 2 ^ 13 ∧
    (if kanjiVal hi lo / 192 * 256 + kanjiVal hi lo % 192 + 33088 ≤ 40956
      then kanjiVal hi lo / 192 * 256 + kanjiVal hi lo % 192 + 33088
      else kanjiVal hi lo / 192 * 256 + kanjiVal hi lo % 192 + 49472) = hi * 256 + lo := by
  simp only [Spec.isKanjiPair, Bool.and_eq_true, Bool.or_eq_true, decide_eq_true_eq, bne_iff_ne, ne_eq] at h
  unfold kanjiVal
  simp only [shr8, and255]
  split <;> split <;> omega

theorem hanzi_arith (hi lo : Nat) (h : Spec.isHanziPair hi lo = true) :
    hanziVal hi lo < 2 ^ 13 ∧
    (if hanziVal hi lo / 96 * 256 + hanziVal hi lo % 96 + 41377 ≤ 43774
      then hanziVal hi lo / 96 * 256 + hanziVal hi lo % 96 + 41377
      else hanziVal hi lo / 96 * 256 + hanziVal hi lo % 96 + 42657) = hi * 256 + lo := by
  simp only [Spec.isHanziPair, Bool.and_eq_true, Bool.or_eq_true, decide_eq_true_eq] at h
  unfold hanziVal
  simp only [shr8, and255]
  split <;> split <;> omega

/-! ### kanji mode -/

theorem kanji_lo (hi lo : Nat) (h : Spec.isKanjiPair hi lo = true) : lo < 256 := by
  simp only [Spec.isKanjiPair, Bool.and_eq_true, decide_eq_true_eq] at h
  omega

theorem kanjiBits_cons (a b : Nat) (rest : List Nat) :
    kanjiBits (a :: b :: rest) = appendBits (kanjiVal a b) 13 ++ kanjiBits rest := by
  simp [kanjiBits, pairs]

theorem parse_kanji (st post : List Nat) : ∀ (data pre acc : List Nat) (pos : Nat),
    st = pre ++ kanjiBits data ++ post → pos = pre.length → Spec.allPairs Spec.isKanjiPair data = true →
    Spec.parseChars st 8 (data.length / 2) pos acc = .ok (acc ++ data, pos + (kanjiBits data).length)
  | [], pre, acc, pos, _, _, _ => by
    rw [List.length_nil, Spec.parseChars]; simp [kanjiBits, pairs]
  | [_], _, _, _, _, _, h => by simp [Spec.allPairs] at h
  | a :: b :: rest, pre, acc, pos, hst, hpos, hd => by
    rw [Spec.allPairs, Bool.and_eq_true] at hd
    obtain ⟨hv, hc⟩ := kanji_arith a b hd.1
    have hlo := kanji_lo a b hd.1
    have ht := takeBits_at st pre (kanjiBits rest ++ post) (kanjiVal a b) 13 pos
      (by rw [hst, kanjiBits_cons]; simp only [List.append_assoc]) hpos hv
    have hlen : (a :: b :: rest).length / 2 = rest.length / 2 + 1 := by
      simp only [List.length_cons]; omega
    rw [hlen, Spec.parseChars, ht]
    dsimp only
    rw [hc, show (a * 256 + b) / 256 = a by omega, show (a * 256 + b) % 256 = b by omega]
    rw [parse_kanji st post rest (pre ++ appendBits (kanjiVal a b) 13) (acc ++ [a, b]) (pos + 13)
      (by rw [hst, kanjiBits_cons]; simp only [List.append_assoc])
      (by rw [List.length_append, appendBits_length, hpos]) hd.2]
    rw [kanjiBits_cons, List.length_append, appendBits_length]
    simp only [List.append_assoc, List.cons_append, List.nil_append, Nat.add_assoc]
/-! ### hanzi mode -/

theorem hanzi_lo (hi lo : Nat) (h : Spec.isHanziPair hi lo = true) : lo < 256 := by
  simp only [Spec.isHanziPair, Bool.and_eq_true, decide_eq_true_eq] at h
  omega

theorem hanziBits_cons (a b : Nat) (rest : List Nat) :
    hanziBits (a :: b :: rest) = appendBits (hanziVal a b) 13 ++ hanziBits rest := by
  simp [hanziBits, pairs]

theorem parse_hanzi (st post : List Nat) : ∀ (data pre acc : List Nat) (pos : Nat),
    st = pre ++ hanziBits data ++ post → pos = pre.length → Spec.allPairs Spec.isHanziPair data = true →
    Spec.parseChars st 13 (data.length / 2) pos acc = .ok (acc ++ data, pos + (hanziBits data).length)
  | [], pre, acc, pos, _, _, _ => by
    rw [List.length_nil, Spec.parseChars]; simp [hanziBits, pairs]
  | [_], _, _, _, _, _, h => by simp [Spec.allPairs] at h
  | a :: b :: rest, pre, acc, pos, hst, hpos, hd => by
    rw [Spec.allPairs, Bool.and_eq_true] at hd
    obtain ⟨hv, hc⟩ := hanzi_arith a b hd.1
    have hlo := hanzi_lo a b hd.1
    have ht := takeBits_at st pre (hanziBits rest ++ post) (hanziVal a b) 13 pos
      (by rw [hst, hanziBits_cons]; simp only [List.append_assoc]) hpos hv
    have hlen : (a :: b :: rest).length / 2 = rest.length / 2 + 1 := by
      simp only [List.length_cons]; omega
    rw [hlen, Spec.parseChars, ht]
    dsimp only
    rw [hc, show (a * 256 + b) / 256 = a by omega, show (a * 256 + b) % 256 = b by omega]
    rw [parse_hanzi st post rest (pre ++ appendBits (hanziVal a b) 13) (acc ++ [a, b]) (pos + 13)
      (by rw [hst, hanziBits_cons]; simp only [List.append_assoc])
      (by rw [List.length_append, appendBits_length, hpos]) hd.2]
    rw [hanziBits_cons, List.length_append, appendBits_length]
    simp only [List.append_assoc, List.cons_append, List.nil_append, Nat.add_assoc]
/-! ### numeric mode -/

theorem chunks_fuel (k : Nat) (hk : 0 < k) : ∀ (f1 f2 : Nat) (l : List Nat), l.length ≤ f1 → l.length ≤ f2 →
    chunks k f1 l = chunks k f2 l
  | 0, f2, l, h1, _ => by
    have : l = [] := List.eq_nil_of_length_eq_zero (by omega)
    subst this
    cases f2 <;> rfl
  | f1 + 1, 0, l, _, h2 => by
    have : l = [] := List.eq_nil_of_length_eq_zero (by omega)
    subst this; rfl
  | f1 + 1, f2 + 1, [], _, _ => rfl
  | f1 + 1, f2 + 1, x :: xs, h1, h2 => by
    simp only [chunks]
    congr 1
    apply chunks_fuel k hk
    · simp only [List.length_drop, List.length_cons] at h1 ⊢; omega
    · simp only [List.length_drop, List.length_cons] at h2 ⊢; omega

theorem isDigit_range (b : Nat) (h : Spec.isDigit b = true) : 48 ≤ b ∧ b ≤ 57 := by
  simpa [Spec.isDigit] using h

theorem digits3 (a b c : Nat) (ha : 48 ≤ a ∧ a ≤ 57) (hb : 48 ≤ b ∧ b ≤ 57) (hc : 48 ≤ c ∧ c ≤ 57) :
    digitsVal [a, b, c] < 1000 ∧ Spec.digits 3 (digitsVal [a, b, c]) = [a, b, c] := by
  simp [digitsVal, Spec.digits, List.range, List.range.loop]
  omega

theorem digits2 (a b : Nat) (ha : 48 ≤ a ∧ a ≤ 57) (hb : 48 ≤ b ∧ b ≤ 57) :
    digitsVal [a, b] < 100 ∧ Spec.digits 2 (digitsVal [a, b]) = [a, b] := by
  simp [digitsVal, Spec.digits, List.range, List.range.loop]
  omega

theorem digits1 (a : Nat) (ha : 48 ≤ a ∧ a ≤ 57) :
    digitsVal [a] < 10 ∧ Spec.digits 1 (digitsVal [a]) = [a] := by
  simp [digitsVal, Spec.digits, List.range, List.range.loop]
  omega

theorem numBits_nil : numBits [] = [] := rfl
theorem numBits_one (a : Nat) : numBits [a] = appendBits (digitsVal [a]) 4 := by
  simp [numBits, chunks]
theorem numBits_two (a b : Nat) : numBits [a, b] = appendBits (digitsVal [a, b]) 7 := by
  simp [numBits, chunks]
theorem numBits_cons3 (a b c : Nat) (rest : List Nat) :
    numBits (a :: b :: c :: rest) = appendBits (digitsVal [a, b, c]) 10 ++ numBits rest := by
  unfold numBits
  have : chunks 3 (rest.length + 2) rest = chunks 3 rest.length rest :=
    chunks_fuel 3 (by decide) _ _ rest (by omega) (by omega)
  simp [chunks, this]


theorem parse_num (st post : List Nat) : ∀ (data pre acc : List Nat) (pos : Nat),
    st = pre ++ numBits data ++ post → pos = pre.length → (∀ b ∈ data, Spec.isDigit b = true) →
    Spec.parseChars st 1 data.length pos acc = .ok (acc ++ data, pos + (numBits data).length)
  | [], pre, acc, pos, _, _, _ => by
    rw [List.length_nil, Spec.parseChars]; simp [numBits_nil]
  | [a], pre, acc, pos, hst, hpos, hd => by
    obtain ⟨hv, hdg⟩ := digits1 a (isDigit_range a (hd a (by simp)))
    have ht := takeBits_at st pre post (digitsVal [a]) 4 pos (by rw [hst, numBits_one]) hpos (by omega)
    rw [show [a].length = 0 + 1 from rfl, Spec.parseChars, if_neg (by omega), if_neg (by decide), ht]
    dsimp only
    rw [if_pos hv, hdg, numBits_one, appendBits_length]
  | [a, b], pre, acc, pos, hst, hpos, hd => by
    obtain ⟨hv, hdg⟩ := digits2 a b (isDigit_range a (hd a (by simp))) (isDigit_range b (hd b (by simp)))
    have ht := takeBits_at st pre post (digitsVal [a, b]) 7 pos (by rw [hst, numBits_two]) hpos (by omega)
    rw [show [a, b].length = 1 + 1 from rfl, Spec.parseChars, if_neg (by omega), if_pos (by decide), ht]
    dsimp only
    rw [if_pos hv, hdg, numBits_two, appendBits_length]
  | a :: b :: c :: rest, pre, acc, pos, hst, hpos, hd => by
    obtain ⟨hv, hdg⟩ := digits3 a b c (isDigit_range a (hd a (by simp))) (isDigit_range b (hd b (by simp)))
      (isDigit_range c (hd c (by simp)))
    have ht := takeBits_at st pre (numBits rest ++ post) (digitsVal [a, b, c]) 10 pos
      (by rw [hst, numBits_cons3]; simp only [List.append_assoc]) hpos (by omega)
    rw [show (a :: b :: c :: rest).length = (rest.length + 2) + 1 from rfl, Spec.parseChars,
      if_pos (by omega), ht]
    dsimp only
    rw [if_pos hv, hdg]
    rw [parse_num st post rest (pre ++ appendBits (digitsVal [a, b, c]) 10) (acc ++ [a, b, c]) (pos + 10)
      (by rw [hst, numBits_cons3]; simp only [List.append_assoc])
      (by rw [List.length_append, appendBits_length, hpos])
      (fun x hx => hd x (by simp [hx]))]
    rw [numBits_cons3, List.length_append, appendBits_length]
    simp only [List.append_assoc, List.cons_append, List.nil_append, Nat.add_assoc]

/-! ### alphanumeric mode -/

theorem alnum_table_check : Gen.ALPHANUMERIC_CHARS.all (fun a =>
    decide (alnumIndex a < 45) && (Spec.alnumChars.getD (alnumIndex a) ' ').toNat == a) = true := by
  decide +kernel

theorem alnum_index (a : Nat) (h : Spec.isAlnum a = true) :
    alnumIndex a < 45 ∧ (Spec.alnumChars.getD (alnumIndex a) ' ').toNat = a := by
  rw [← isAlnumByte_eq] at h
  have hm : a ∈ Gen.ALPHANUMERIC_CHARS := by simpa [isAlnumByte] using h
  have := List.all_eq_true.1 alnum_table_check a hm
  simpa using this

theorem alnumBits_nil : alnumBits [] = [] := rfl
theorem alnumBits_one (a : Nat) : alnumBits [a] = appendBits (alnumIndex a) 6 := by
  simp [alnumBits, chunks]
theorem alnumBits_cons2 (a b : Nat) (rest : List Nat) :
    alnumBits (a :: b :: rest) = appendBits (alnumIndex a * 45 + alnumIndex b) 11 ++ alnumBits rest := by
  unfold alnumBits
  have : chunks 2 (rest.length + 1) rest = chunks 2 rest.length rest :=
    chunks_fuel 2 (by decide) _ _ rest (by omega) (by omega)
  simp [chunks, this]

theorem parse_alnum (st post : List Nat) : ∀ (data pre acc : List Nat) (pos : Nat),
    st = pre ++ alnumBits data ++ post → pos = pre.length → (∀ b ∈ data, Spec.isAlnum b = true) →
    Spec.parseChars st 2 data.length pos acc = .ok (acc ++ data, pos + (alnumBits data).length)
  | [], pre, acc, pos, _, _, _ => by
    rw [List.length_nil, Spec.parseChars]; simp [alnumBits_nil]
  | [a], pre, acc, pos, hst, hpos, hd => by
    obtain ⟨hv, hc⟩ := alnum_index a (hd a (by simp))
    have ht := takeBits_at st pre post (alnumIndex a) 6 pos (by rw [hst, alnumBits_one]) hpos (by omega)
    rw [show [a].length = 0 + 1 from rfl, Spec.parseChars, if_neg (by omega), ht]
    dsimp only
    rw [if_pos hv, hc, alnumBits_one, appendBits_length]
  | a :: b :: rest, pre, acc, pos, hst, hpos, hd => by
    obtain ⟨hva, hca⟩ := alnum_index a (hd a (by simp))
    obtain ⟨hvb, hcb⟩ := alnum_index b (hd b (by simp))
    have ht := takeBits_at st pre (alnumBits rest ++ post) (alnumIndex a * 45 + alnumIndex b) 11 pos
      (by rw [hst, alnumBits_cons2]; simp only [List.append_assoc]) hpos (by omega)
    rw [show (a :: b :: rest).length = (rest.length + 1) + 1 from rfl, Spec.parseChars,
      if_pos (by omega), ht]
    dsimp only
    rw [if_pos (by omega), show (alnumIndex a * 45 + alnumIndex b) / 45 = alnumIndex a by omega,
      show (alnumIndex a * 45 + alnumIndex b) % 45 = alnumIndex b by omega, hca, hcb]
    rw [parse_alnum st post rest (pre ++ appendBits (alnumIndex a * 45 + alnumIndex b) 11) (acc ++ [a, b]) (pos + 11)
      (by rw [hst, alnumBits_cons2]; simp only [List.append_assoc])
      (by rw [List.length_append, appendBits_length, hpos])
      (fun x hx => hd x (by simp [hx]))]
    rw [alnumBits_cons2, List.length_append, appendBits_length]
    simp only [List.append_assoc, List.cons_append, List.nil_append, Nat.add_assoc]


/-! ### all modes -/

theorem segment_roundtrip (data : List Nat) (mode : Option Nat) (enc : String) (s : Segment)
    (pre post : List Nat) (hd : ∀ b ∈ data, b < 256)
    (hm : mode ∈ [none, some 1, some 2, some 4, some 8, some 13])
    (h : makeSegment data mode enc = .ok s) :
    Spec.parseChars (pre ++ s.bits ++ post) s.mode s.charCount pre.length []
      = .ok (data, pre.length + s.bits.length) := by
  rcases makeSegment_ok_cases data mode enc s hm h with
    ⟨h1, h2, h3, h4⟩ | ⟨h1, h2, h3, h4⟩ | ⟨h1, h2, h3⟩ | ⟨h1, h2, h3, h4⟩ | ⟨h1, h2, h3, h4⟩ <;> rw [h1, h2, h3]
  · simpa using parse_num _ post data pre [] pre.length rfl rfl (List.all_eq_true.1 h4)
  · simpa using parse_alnum _ post data pre [] pre.length rfl rfl (List.all_eq_true.1 h4)
  · simpa using parse_byte _ post data pre [] pre.length rfl rfl hd
  · simpa using parse_kanji _ post data pre [] pre.length rfl rfl h4
  · simpa using parse_hanzi _ post data pre [] pre.length rfl rfl h4

end Proofs.Roundtrip
