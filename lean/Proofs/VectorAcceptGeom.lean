/-
  Proofs.VectorAcceptGeom — C10, geometry: a run stroked with width 1 under `scale(s)` is the rectangle
  [s·x1, s·x2] × [s·(y−½), s·(y+½)], and the judge's `snap` puts its corners back on the module grid
  (exact `Rat` arithmetic, s > 0).  Mathlib-free.
-/
import Proofs.VectorAcceptPath

namespace Proofs.VectorAccept
open Spec.Vector Model.Lines

/-! ### monadic list helpers -/

theorem mapM_ok {ε α β} (f : α → Except ε β) (g : α → β) (l : List α) (h : ∀ a ∈ l, f a = .ok (g a)) :
    l.mapM f = .ok (l.map g) := by
  induction l with
  | nil => rfl
  | cons a l ih =>
    rw [List.mapM_cons, h a (by simp), ih (fun a ha => h a (by simp [ha]))]
    rfl

theorem mapM_map_ok {ε α β γ} (f : β → Except ε γ) (r : α → β) (g : α → γ) (l : List α)
    (h : ∀ a ∈ l, f (r a) = .ok (g a)) : (l.map r).mapM f = .ok (l.map g) := by
  induction l with
  | nil => rfl
  | cons a l ih =>
    rw [List.map_cons, List.mapM_cons, h a (by simp), ih (fun a ha => h a (by simp [ha]))]
    rfl

theorem filterMapM_map_ok {ε α β γ} (f : β → Except ε (Option γ)) (r : α → β) (g : α → Option γ) (l : List α)
    (h : ∀ a ∈ l, f (r a) = .ok (g a)) : (l.map r).filterMapM f = .ok (l.filterMap g) := by
  induction l with
  | nil => rfl
  | cons a l ih =>
    rw [List.map_cons, List.filterMapM_cons, h a (by simp), ih (fun a ha => h a (by simp [ha]))]
    cases hg : g a <;> simp [hg] <;> rfl

/-! ### rational arithmetic -/

theorem minQ_of_le {a b : Rat} (h : a ≤ b) : minQ a b = a := by
  unfold minQ; split
  · rename_i h'; exact absurd h (Rat.not_le.mpr h')
  · rfl

theorem maxQ_of_le {a b : Rat} (h : a ≤ b) : maxQ a b = b := by
  unfold maxQ; split
  · rfl
  · rename_i h'; exact Rat.le_antisymm h (Rat.not_lt.mp h')

theorem roundQ_int (k : Int) : roundQ (k : Rat) = k := by
  unfold roundQ
  rw [Rat.add_comm, Rat.floor_add_intCast]
  have : (mkRat 1 2).floor = 0 := by decide +kernel
  omega

/-- `snap` of an integer (any tolerance ≥ 0, here 0) -/
theorem snap_int (k : Int) : snap 0 (k : Rat) = some k := by
  unfold snap
  simp only [roundQ_int, Rat.sub_self]
  have : absQ 0 ≤ 0 := by decide +kernel
  simp [this]

/-- `snap 0 ((s·k) / s) = k` for the rational grid, `s ≠ 0` -/
theorem snap_scaled (s : Rat) (hs : s ≠ 0) (k : Int) : snap 0 ((s * (k : Rat)) / s) = some k := by
  have : (s * (k : Rat)) / s = (k : Rat) := by grind
  rw [this, snap_int]

/-! ### stroking -/

/-- the device rectangle of the run `(x1, 2·y, x2)` stroked with half width `s/2` under `scale(s)` -/
def rectOf (s : Rat) (t : Int × Int × Int) : Rect :=
  mkRect (s * (t.1 : Rat) + 0) (s * (t.2.2 : Rat) + 0) (s * half t.2.1 + 0 - s / 2) (s * half t.2.1 + 0 + s / 2)

theorem strokeRects_subsOf (s : Rat) (lines : List (Int × Int × Int)) :
    strokeRects (s / 2) (subsOf { sx := s, sy := s } lines) = .ok (lines.map (rectOf s)) := by
  unfold strokeRects subsOf
  apply mapM_map_ok
  intro t _
  simp [rectOf, Xf.app]

/-! ### back to the module grid -/

/-- the grid segment (row, first column, end column) of a run; empty runs paint nothing -/
def lineSeg (t : Int × Int × Int) : Option (Nat × Nat × Nat) :=
  if t.1 = t.2.2 then none else some (((t.2.1 - 1) / 2).toNat, t.1.toNat, t.2.2.toNat)

theorem rectOf_norm (s : Rat) (hs : 0 < s) (x1 x2 i : Nat) (h : x1 ≤ x2) :
    rectOf s ((x1 : Int), 2 * (i : Int) + 1, (x2 : Int))
      = { x0 := s * ((x1 : Int) : Rat) + 0, x1 := s * ((x2 : Int) : Rat) + 0,
          y0 := s * half (2 * (i : Int) + 1) + 0 - s / 2, y1 := s * half (2 * (i : Int) + 1) + 0 + s / 2 } := by
  unfold rectOf mkRect
  have hx : s * ((x1 : Int) : Rat) + 0 ≤ s * ((x2 : Int) : Rat) + 0 := by
    have h1 : ((x1 : Int) : Rat) ≤ ((x2 : Int) : Rat) := Rat.intCast_le_intCast.mpr (by omega)
    have := Rat.mul_le_mul_of_nonneg_left h1 (Rat.le_of_lt hs)
    simpa [Rat.add_zero] using this
  have hy : s * half (2 * (i : Int) + 1) + 0 - s / 2 ≤ s * half (2 * (i : Int) + 1) + 0 + s / 2 := by
    generalize s * half (2 * (i : Int) + 1) + 0 = c
    grind
  simp only [minQ_of_le hx, maxQ_of_le hx, minQ_of_le hy, maxQ_of_le hy]

/-- a run of the model seen as an `Int` triple: naturals, row `i` of the page grid, inside the page -/
def goodLine (n : Nat) (t : Int × Int × Int) : Prop :=
  ∃ x1 x2 i : Nat, t = ((x1 : Int), 2 * (i : Int) + 1, (x2 : Int)) ∧ x1 ≤ x2 ∧ x2 ≤ n ∧ i < n

/-- geometry: the judge's `gridSegs` (y down, top 0, tolerance 0) on the stroked rectangles of good runs -/
theorem gridSegs_lines (s : Rat) (hs : 0 < s) (n : Nat) (lines : List (Int × Int × Int)) (hg : ∀ t ∈ lines, goodLine n t) :
    gridSegs s 0 n false 0 (lines.map (rectOf s)) = .ok (lines.filterMap lineSeg) := by
  unfold gridSegs
  apply filterMapM_map_ok
  intro t ht
  obtain ⟨x1, x2, i, rfl, h, hn, hi⟩ := hg t ht
  have hs0 : s ≠ 0 := by grind
  rw [rectOf_norm s hs x1 x2 i h]
  have e1 : (s * half (2 * (i : Int) + 1) + 0 - s / 2 - 0) / s = ((i : Int) : Rat) := by
    unfold half; simp only [Rat.intCast_add, Rat.intCast_mul]; grind
  have e2 : (s * half (2 * (i : Int) + 1) + 0 + s / 2 - 0) / s = (((i : Int) + 1 : Int) : Rat) := by
    unfold half; simp only [Rat.intCast_add, Rat.intCast_mul]; grind
  have e3 : (s * ((x1 : Int) : Rat) + 0) / s = ((x1 : Int) : Rat) := by grind
  have e4 : (s * ((x2 : Int) : Rat) + 0) / s = ((x2 : Int) : Rat) := by grind
  simp only [Bool.false_eq_true, if_false, e1, e2, e3, e4, snap_int]
  have c1 : (decide ((i : Int) < 0) || decide ((i : Int) ≥ (n : Int)) || decide ((x1 : Int) < 0) || decide ((x2 : Int) > (n : Int))) = false := by
    simp only [Bool.or_eq_false_iff, decide_eq_false_iff_not]; omega
  simp only [bne_self_eq_false, Bool.false_eq_true, if_false, c1]
  unfold lineSeg
  by_cases hx : x1 = x2
  · subst hx; simp
  · have : ((x1 : Int) == (x2 : Int)) = false := by simp; omega
    have h2 : ¬ ((x1 : Int) = (x2 : Int)) := by omega
    simp only [this, Bool.false_eq_true, if_false, h2]
    simp

end Proofs.VectorAccept
