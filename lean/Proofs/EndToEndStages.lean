/-
  Proofs.EndToEndStages — helper lemmas for Props/EndToEnd.lean, part 2: `encode` / `_encode`
  taken apart into their stages.
-/
import Spec.Decode
import Spec.Sizing
import Model.Encoder
import Proofs.Sizing
import Proofs.Stream
import Proofs.EndToEndSeg

namespace Proofs.EndToEnd
open Model
set_option linter.unusedVariables false
set_option linter.unusedSimpArgs false

/-- all intermediate results of a successful `_encode` (without Structured Append) -/
structure Stages (segs : List Segment) (v : Int) (mask : Option Nat) (eci : Bool)
    (f : String → Option Nat) (c : Code) where
  segBits : List (List Nat)
  cap : Nat
  stream : List Nat
  final : List Nat
  m0 : Matrix
  m1 : Matrix
  m2 : Matrix
  m3 : Matrix
  hw : segs.mapM (fun s => writeSegment s v eci f) = .ok segBits
  hcap : capacity v c.error = some cap
  hstream : finishStream segBits.flatten v cap = .ok stream
  hfinal : makeFinalMessage v c.error stream = .ok final
  hm0 : addAlignmentPatterns (addFinderPatterns (makeMatrix (Gen.calc_matrix_size v).toNat) (Gen.calc_matrix_size v).toNat)
          (Gen.calc_matrix_size v).toNat = .ok m0
  hm1 : addCodewords m0 final v = .ok m1
  hm2 : findAndApplyBestMask m1 mask = .ok (c.mask, m2)
  hm3 : addFormatInfo m2 v c.error c.mask = .ok m3
  hm4 : addVersionInfo m3 v = .ok c.matrix
  hver : c.version = v
  hsegs : c.segments = segs

theorem encodeTail_stages (segs : List Segment) (v : Int) (mask : Option Nat) (eci : Bool)
    (f : String → Option Nat) (error' : Option Nat) (c : Code)
    (h : Proofs.Sizing.encodeTail segs v mask eci f none error' = .ok c) :
    c.error = error' ∧ Nonempty (Stages segs v mask eci f c) := by
  unfold Proofs.Sizing.encodeTail at h
  simp only [bind, Except.bind, List.nil_append] at h
  cases hw : segs.mapM (fun s => writeSegment s v eci f) with
  | error e => rw [hw] at h; cases h
  | ok segBits =>
    rw [hw] at h
    dsimp only at h
    cases hcap : capacity v error' with
    | none => rw [hcap] at h; cases h
    | some cap =>
      rw [hcap] at h
      dsimp only at h
      cases hstream : finishStream segBits.flatten v cap with
      | error e => rw [hstream] at h; cases h
      | ok stream =>
        rw [hstream] at h
        dsimp only at h
        cases hfinal : makeFinalMessage v error' stream with
        | error e => rw [hfinal] at h; cases h
        | ok final =>
          rw [hfinal] at h
          dsimp only at h
          cases hm0 : addAlignmentPatterns (addFinderPatterns (makeMatrix (Gen.calc_matrix_size v).toNat) (Gen.calc_matrix_size v).toNat)
              (Gen.calc_matrix_size v).toNat with
          | error e => rw [hm0] at h; cases h
          | ok m0 =>
            rw [hm0] at h
            dsimp only at h
            cases hm1 : addCodewords m0 final v with
            | error e => rw [hm1] at h; cases h
            | ok m1 =>
              rw [hm1] at h
              dsimp only at h
              cases hm2 : findAndApplyBestMask m1 mask with
              | error e => rw [hm2] at h; cases h
              | ok r =>
                obtain ⟨mk, m2⟩ := r
                rw [hm2] at h
                dsimp only at h
                cases hm3 : addFormatInfo m2 v error' mk with
                | error e => rw [hm3] at h; cases h
                | ok m3 =>
                  rw [hm3] at h
                  dsimp only at h
                  cases hm4 : addVersionInfo m3 v with
                  | error e => rw [hm4] at h; cases h
                  | ok m4 =>
                    rw [hm4] at h
                    simp only [pure, Except.pure, Except.ok.injEq] at h
                    subst h
                    exact ⟨rfl, ⟨⟨segBits, cap, stream, final, m0, m1, m2, m3, hw, hcap, hstream, hfinal, hm0, hm1, hm2, hm3, hm4, rfl, rfl⟩⟩⟩

theorem encodeCore_stages (segs : List Segment) (error : Option Nat) (v : Int) (mask : Option Nat) (eci boost : Bool)
    (f : String → Option Nat) (c : Code)
    (h : encodeCore segs error v mask eci boost f none = .ok c) :
    Nonempty (Stages segs v mask eci f c) := by
  rw [Proofs.Sizing.encodeCore_eq] at h
  cases hE : (if boost then boostErrorLevel v error segs eci (none : Option (Nat × Nat × Nat)).isSome else pure error) with
  | error x => rw [hE] at h; cases h
  | ok error' =>
    rw [hE] at h
    exact (encodeTail_stages segs v mask eci f error' c h).2

/-! ### `encode` -/

set_option hygiene false in
macro "eci_tac" : tactic => `(tactic| (
  simp only [encode, bind, Except.bind, throw, throwThe, MonadExceptOf.throw, pure, Except.pure] at h
  split at h
  · cases h
  split at h
  · cases h
  split at h
  · cases h
  split at h
  · cases h
  rename_i h1 h2 h3 h4
  simpa using h4))

/-- the statement proved per shape of (version, mode) below -/
def EciCheck (version : Option Int) (eci : Bool) (micro : Option Bool) : Prop :=
  eci = true → micro ≠ some true ∧ ∀ v0, version = some v0 → Gen.MICRO_VERSIONS.contains v0 = false

set_option maxHeartbeats 400000 in
theorem encode_eci_nn (parts : List Part) (error : Option Nat) (mask : Option Nat) (eci : Bool) (micro : Option Bool)
    (boost : Bool) (f : String → Option Nat) (c : Code)
    (h : encode parts error (none : Option Int) none mask eci micro boost f = .ok c) : EciCheck none eci micro := by
  unfold EciCheck
  eci_tac

set_option maxHeartbeats 400000 in
theorem encode_eci_ns (parts : List Part) (error : Option Nat) (md : Nat) (mask : Option Nat) (eci : Bool)
    (micro : Option Bool) (boost : Bool) (f : String → Option Nat) (c : Code)
    (h : encode parts error (none : Option Int) (some md) mask eci micro boost f = .ok c) : EciCheck none eci micro := by
  unfold EciCheck
  eci_tac

set_option maxHeartbeats 400000 in
theorem encode_eci_sn (parts : List Part) (error : Option Nat) (v0 : Int) (mask : Option Nat) (eci : Bool)
    (micro : Option Bool) (boost : Bool) (f : String → Option Nat) (c : Code)
    (h : encode parts error (some v0) none mask eci micro boost f = .ok c) : EciCheck (some v0) eci micro := by
  unfold EciCheck
  eci_tac

set_option maxHeartbeats 400000 in
theorem encode_eci_ss (parts : List Part) (error : Option Nat) (v0 : Int) (md : Nat) (mask : Option Nat) (eci : Bool)
    (micro : Option Bool) (boost : Bool) (f : String → Option Nat) (c : Code)
    (h : encode parts error (some v0) (some md) mask eci micro boost f = .ok c) : EciCheck (some v0) eci micro := by
  unfold EciCheck
  simp only [encode, bind, Except.bind, throw, throwThe, MonadExceptOf.throw, pure, Except.pure] at h
  split at h
  · cases h
  split at h
  · cases h
  split at h
  · cases h
  · cases h
  split at h
  · cases h
  split at h
  · cases h
  rename_i h1 h2 _ _ h3 h4
  simpa using h4

theorem encode_eci_check (parts : List Part) (error : Option Nat) (version : Option Int) (mode : Option Nat)
    (mask : Option Nat) (eci : Bool) (micro : Option Bool) (boost : Bool)
    (f : String → Option Nat) (c : Code)
    (h : encode parts error version mode mask eci micro boost f = .ok c) :
    eci = true → micro ≠ some true ∧ ∀ v0, version = some v0 → Gen.MICRO_VERSIONS.contains v0 = false := by
  cases version with
  | none =>
    cases mode with
    | none => exact encode_eci_nn parts error mask eci micro boost f c h
    | some md => exact encode_eci_ns parts error md mask eci micro boost f c h
  | some v0 =>
    cases mode with
    | none => exact encode_eci_sn parts error v0 mask eci micro boost f c h
    | some md => exact encode_eci_ss parts error v0 md mask eci micro boost f c h

theorem mem_intRange_lo (lo hi x : Int) (h : x ∈ intRange lo hi) : lo ≤ x := by
  unfold intRange at h
  simp only [List.mem_map, List.mem_range] at h
  obtain ⟨k, _, rfl⟩ := h
  simp only [Int.ofNat_eq_natCast]; omega

theorem findVersion_nomicro (segs : List Segment) (error : Option Nat) (eci sa : Bool) (g : Int)
    (h : findVersion segs error eci (some false) sa = .ok g) : 1 ≤ g := by
  unfold findVersion at h
  simp only [bind, Except.bind, pure, Except.pure, throw, throwThe, MonadExceptOf.throw] at h
  repeat' split at h
  all_goals first | (cases h; done) | skip
  all_goals
    rename_i hv
    simp only [Except.ok.injEq] at h
    subst h
    have hlo := mem_intRange_lo _ _ _ (List.mem_of_find?_eq_some hv)
    clear hv
    simp [Gen.VERSION_M1] at *
    try omega


/-- everything `encode` established before and while running `_encode` -/
theorem encode_stages (parts : List Part) (error : Option Nat) (version : Option Int) (mode : Option Nat)
    (mask : Option Nat) (eci : Bool) (micro : Option Bool) (boost : Bool)
    (f : String → Option Nat) (c : Code)
    (h : encode parts error version mode mask eci micro boost f = .ok c) :
    ∃ segs, prepareData parts = .ok segs ∧ Nonempty (Stages segs c.version mask eci f c)
      ∧ (eci = true → 1 ≤ c.version) ∧ -3 ≤ c.version ∧ c.version ≤ 40
      ∧ ∃ need cap, bitLengthWithOverhead segs c.version eci false = some need
          ∧ capacity c.version c.error = some cap ∧ need ≤ cap := by
  obtain ⟨segs, g, v, hprep, hfind, hv, -, hcore⟩ := Proofs.Sizing.encode_inv _ _ _ _ _ _ _ _ _ _ h
  obtain ⟨st⟩ := encodeCore_stages _ _ _ _ _ _ _ _ hcore
  have hver := st.hver
  have hsegs := st.hsegs
  obtain ⟨need, cap, hneed, hcap, hle⟩ := Proofs.Sizing.encode_never_truncates _ _ _ _ _ _ _ _ _ _ h
  rw [hsegs] at hneed
  obtain ⟨r1, r2, -, -⟩ := Proofs.Stream.cap_facts _ hcap
  refine ⟨segs, hprep, ⟨hver ▸ st⟩, ?_, r1, r2, need, cap, hneed, hcap, hle⟩
  intro he
  obtain ⟨hmic, hmv⟩ := encode_eci_check _ _ _ _ _ _ _ _ _ _ h he
  have hmicro' : (if (eci && micro.isNone) = true then some false else micro) = some false := by
    subst he
    cases micro with
    | none => rfl
    | some b => cases b with
      | false => rfl
      | true => exact absurd rfl hmic
  rw [hmicro'] at hfind
  have hg := findVersion_nomicro _ _ _ _ _ hfind
  rw [hver]
  rcases hv with ⟨-, rfl⟩ | ⟨-, hle'⟩ <;> omega

end Proofs.EndToEnd
