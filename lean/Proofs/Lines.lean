/-
  Proofs.Lines — lemmas about the model of `matrix_to_lines` (Model/Lines.lean) for C10.
-/
import Model.Lines
import Spec.Vector

namespace Proofs.Lines
open Model.Lines Spec.Vector

/-- 1 for a dark module, 0 for a light one -/
def dark01 (b : Nat) : Nat := if b = 0 then 0 else 1

/-- indicator of `j ∈ [a, b)` -/
def ind (a b j : Nat) : Nat := if a ≤ j ∧ j < b then 1 else 0

theorem coverAt_nil (j : Nat) : coverAt [] j = 0 := rfl

theorem coverAt_cons (s : Nat × Nat) (l : List (Nat × Nat)) (j : Nat) :
    coverAt (s :: l) j = ind s.1 s.2 j + coverAt l j := by
  unfold coverAt ind
  by_cases h : s.1 ≤ j ∧ j < s.2
  · have : (decide (s.1 ≤ j) && decide (j < s.2)) = true := by simp [h.1, h.2]
    simp [List.filter_cons, this, h]; omega
  · have : (decide (s.1 ≤ j) && decide (j < s.2)) = false := by
      by_cases h1 : s.1 ≤ j <;> by_cases h2 : j < s.2 <;> simp_all
    simp [List.filter_cons, this, h]

theorem coverAt_append (a b : List (Nat × Nat)) (j : Nat) : coverAt (a ++ b) j = coverAt a j + coverAt b j := by
  unfold coverAt; simp [List.filter_append]

/-- the dark cells of `bits` laid out from column `x` on: 1 iff `j` is the column of a dark bit -/
def darkAt : Nat → List Nat → Nat → Nat
  | _, [], _ => 0
  | x, b :: rest, j => (if j = x ∧ b ≠ 0 then 1 else 0) + darkAt (x + 1) rest j

theorem darkAt_lt (bits : List Nat) : ∀ x j, j < x → darkAt x bits j = 0 := by
  induction bits with
  | nil => intros; rfl
  | cons b rest ih =>
    intro x j h
    have h1 : ¬ (j = x ∧ b ≠ 0) := by omega
    simp [darkAt, h1, ih (x + 1) j (by omega)]

theorem darkAt_ge (bits : List Nat) : ∀ x j, x + bits.length ≤ j → darkAt x bits j = 0 := by
  induction bits with
  | nil => intros; rfl
  | cons b rest ih =>
    intro x j h
    simp only [List.length_cons] at h
    have h1 : ¬ (j = x ∧ b ≠ 0) := by omega
    simp [darkAt, h1, ih (x + 1) j (by omega)]

/-- the loop invariant of `matrix_to_lines`: `[x1, x2)` is the pending (not yet yielded) run, empty whenever the
    last module was light.  Yielded runs + pending run cover the old pending run + the dark bits read. -/
theorem rowGo_cover (bits : List Nat) : ∀ (x1 x2 lb : Nat), x1 ≤ x2 → (lb = 0 → x1 = x2) → ∀ j,
    coverAt (rowGo x1 x2 lb bits).1 j + ind (rowGo x1 x2 lb bits).2.1 (rowGo x1 x2 lb bits).2.2.1 j
        = ind x1 x2 j + darkAt x2 bits j
      ∧ (rowGo x1 x2 lb bits).2.1 ≤ (rowGo x1 x2 lb bits).2.2.1
      ∧ ((rowGo x1 x2 lb bits).2.2.2 = 0 → (rowGo x1 x2 lb bits).2.1 = (rowGo x1 x2 lb bits).2.2.1) := by
  induction bits with
  | nil =>
    intro x1 x2 lb h1 h2 j
    simp [rowGo, darkAt, coverAt_nil, h1]
    exact h2
  | cons b rest ih =>
    intro x1 x2 lb h1 h2 j
    by_cases hb : b = 0
    · subst hb
      by_cases hl : lb = 0
      · -- light after light: nothing yielded, pending run stays empty
        subst hl
        have hx : x1 = x2 := h2 rfl
        subst hx
        have := ih (x1 + 1) (x1 + 1) 0 (Nat.le_refl _) (fun _ => rfl) j
        simp [rowGo, darkAt] at this ⊢
        obtain ⟨e, r⟩ := this
        refine ⟨?_, r⟩
        rw [e]; unfold ind; repeat' (first | omega | split)
      · -- light after dark: the pending run is yielded
        have := ih (x2 + 1) (x2 + 1) 0 (Nat.le_refl _) (fun _ => rfl) j
        simp [rowGo, darkAt, hl, coverAt_cons] at this ⊢
        obtain ⟨e, r⟩ := this
        refine ⟨?_, r⟩
        have e2 : ind (x2 + 1) (x2 + 1) j = 0 := by unfold ind; split <;> omega
        rw [e2] at e; omega
    · -- dark module: the pending run grows
      have := ih x1 (x2 + 1) b (by omega) (fun h => absurd h hb) j
      simp [rowGo, darkAt, hb] at this ⊢
      obtain ⟨e, r⟩ := this
      refine ⟨?_, r⟩
      rw [e]; unfold ind
      repeat' (first | omega | split)

/-- per row: the runs cover exactly the dark modules, each once — whatever `last_bit` was carried in -/
theorem rowRuns_cover (x lb : Nat) (row : List Nat) (j : Nat) : coverAt (rowRuns x lb row).1 j = darkAt x row j := by
  have h := rowGo_cover row x x lb (Nat.le_refl _) (fun _ => rfl) j
  obtain ⟨e, _, z⟩ := h
  have i0 : ind x x j = 0 := by unfold ind; split <;> omega
  unfold rowRuns
  by_cases hz : (rowGo x x lb row).2.2.2 = 0
  · have := z hz
    simp [hz]
    rw [this] at e
    have i1 : ind (rowGo x x lb row).2.2.1 (rowGo x x lb row).2.2.1 j = 0 := by unfold ind; split <;> omega
    omega
  · simp [hz, coverAt_append, coverAt_cons, coverAt_nil]
    omega

theorem rowRuns_lb (x lb : Nat) (row : List Nat) : (rowRuns x lb row).2 = 0 := by
  unfold rowRuns
  by_cases hz : (rowGo x x lb row).2.2.2 = 0 <;> simp [hz]

/-- expansion of the dark cells back to the row -/
theorem darkAt_expand (row : List Nat) : ∀ x, (List.range row.length).map (fun k => darkAt x row (x + k)) = row.map dark01 := by
  induction row with
  | nil => intro x; rfl
  | cons b rest ih =>
    intro x
    rw [List.length_cons, List.range_succ_eq_map, List.map_cons, List.map_map, List.map_cons]
    congr 1
    · have := darkAt_lt rest (x + 1) x (by omega)
      simp [darkAt, this, dark01]
    · rw [← ih (x + 1)]
      apply List.map_congr_left
      intro k _
      have h1 : ¬ (x + (k + 1) = x ∧ b ≠ 0) := by omega
      simp [darkAt, h1]
      congr 1; omega

/-! ### maximality: consecutive runs of a row are separated by at least one light module -/

/-- every run starts at or after `lo`, is well-formed, and the next one starts after a gap -/
def sep : Nat → List (Nat × Nat) → Prop
  | _, [] => True
  | lo, r :: rest => lo ≤ r.1 ∧ r.1 ≤ r.2 ∧ sep (r.2 + 1) rest

theorem sep_mono (l : List (Nat × Nat)) : ∀ lo lo', lo' ≤ lo → sep lo l → sep lo' l := by
  cases l with
  | nil => intros; trivial
  | cons r rest => intro lo lo' h hs; exact ⟨by have := hs.1; omega, hs.2.1, hs.2.2⟩

theorem sep_prefix (a b : List (Nat × Nat)) : ∀ lo, sep lo (a ++ b) → sep lo a := by
  induction a with
  | nil => intros; trivial
  | cons r rest ih => intro lo h; exact ⟨h.1, h.2.1, ih _ h.2.2⟩

theorem rowGo_sep (bits : List Nat) : ∀ (x1 x2 lb : Nat), x1 ≤ x2 → (lb = 0 → x1 = x2) →
    sep x1 ((rowGo x1 x2 lb bits).1 ++ [((rowGo x1 x2 lb bits).2.1, (rowGo x1 x2 lb bits).2.2.1)]) := by
  induction bits with
  | nil => intro x1 x2 lb h1 _; simp [rowGo, sep, h1]
  | cons b rest ih =>
    intro x1 x2 lb h1 h2
    by_cases hb : b = 0
    · subst hb
      by_cases hl : lb = 0
      · subst hl
        have hx : x1 = x2 := h2 rfl
        subst hx
        have := ih (x1 + 1) (x1 + 1) 0 (Nat.le_refl _) (fun _ => rfl)
        simp [rowGo] at this ⊢
        exact sep_mono _ _ _ (by omega) this
      · have := ih (x2 + 1) (x2 + 1) 0 (Nat.le_refl _) (fun _ => rfl)
        simp [rowGo, hl] at this ⊢
        exact ⟨Nat.le_refl _, h1, this⟩
    · have := ih x1 (x2 + 1) b (by omega) (fun h => absurd h hb)
      simp [rowGo, hb] at this ⊢
      exact this

theorem rowRuns_sep (x lb : Nat) (row : List Nat) : sep x (rowRuns x lb row).1 := by
  have h := rowGo_sep row x x lb (Nat.le_refl _) (fun _ => rfl)
  unfold rowRuns
  by_cases hz : (rowGo x x lb row).2.2.2 = 0
  · simp [hz]; exact sep_prefix _ _ _ h
  · simp [hz]; exact h

/-- no empty run, as soon as the pending run is non-empty whenever the previous module counts as dark -/
theorem rowGo_nonempty (bits : List Nat) : ∀ (x1 x2 lb : Nat), x1 ≤ x2 → (lb = 0 → x1 = x2) → (lb ≠ 0 → x1 < x2) →
    (∀ r ∈ (rowGo x1 x2 lb bits).1, r.1 < r.2)
    ∧ ((rowGo x1 x2 lb bits).2.2.2 ≠ 0 → (rowGo x1 x2 lb bits).2.1 < (rowGo x1 x2 lb bits).2.2.1) := by
  induction bits with
  | nil => intro x1 x2 lb _ _ h3; simp [rowGo]; exact h3
  | cons b rest ih =>
    intro x1 x2 lb h1 h2 h3
    by_cases hb : b = 0
    · subst hb
      by_cases hl : lb = 0
      · subst hl
        have hx : x1 = x2 := h2 rfl
        subst hx
        have := ih (x1 + 1) (x1 + 1) 0 (Nat.le_refl _) (fun _ => rfl) (fun h => absurd rfl h)
        simpa [rowGo] using this
      · have := ih (x2 + 1) (x2 + 1) 0 (Nat.le_refl _) (fun _ => rfl) (fun h => absurd rfl h)
        simp [rowGo, hl] at this ⊢
        exact ⟨⟨h3 hl, this.1⟩, this.2⟩
    · have := ih x1 (x2 + 1) b (by omega) (fun h => absurd h hb) (fun _ => by omega)
      simpa [rowGo, hb] using this

theorem rowRuns_nonempty (x : Nat) (row : List Nat) : ∀ r ∈ (rowRuns x 0 row).1, r.1 < r.2 := by
  have h := rowGo_nonempty row x x 0 (Nat.le_refl _) (fun _ => rfl) (fun h => absurd rfl h)
  unfold rowRuns
  by_cases hz : (rowGo x x 0 row).2.2.2 = 0
  · simp [hz]; exact fun a b hab => h.1 (a, b) hab
  · simp [hz]
    intro a b hab
    rcases hab with hab | ⟨rfl, rfl⟩
    · exact h.1 (a, b) hab
    · exact h.2 hz

/-! ### the judge's raster comparison on one row: `rowCover` of the model's runs = the page row -/

theorem map_range_zero (n : Nat) (f : Nat → Nat) (h : ∀ k, k < n → f k = 0) : (List.range n).map f = List.replicate n 0 := by
  rw [List.eq_replicate_iff]
  refine ⟨by simp, ?_⟩
  intro v hv
  simp only [List.mem_map, List.mem_range] at hv
  obtain ⟨k, hk, rfl⟩ := hv
  exact h k hk

/-- the padded row the judge expects (quiet zone left and right) is what its own `rowCover` computes from the runs -/
theorem rowCover_runs (b lb : Nat) (row : List Nat) :
    rowCover (b + row.length + b) (rowRuns b lb row).1 = List.replicate b 0 ++ row.map dark01 ++ List.replicate b 0 := by
  unfold rowCover
  rw [List.range_add, List.range_add, List.map_append, List.map_append, List.map_map, List.map_map]
  congr 1
  · congr 1
    · apply map_range_zero
      intro k hk
      rw [rowRuns_cover]; exact darkAt_lt _ _ _ hk
    · rw [← darkAt_expand row b]
      apply List.map_congr_left
      intro k _
      simp only [Function.comp]
      exact rowRuns_cover b lb row (b + k)
  · apply map_range_zero
    intro k _
    simp only [Function.comp]
    rw [rowRuns_cover]; exact darkAt_ge _ _ _ (by omega)

theorem dark01_eq (row : List Nat) : row.map dark01 = row.map (fun x => if x == 0 then 0 else 1) := by
  apply List.map_congr_left
  intro x _
  unfold dark01
  by_cases h : x = 0 <;> simp [h]

/-- for a row inside the symbol of a `size × size` matrix the judge's expected page row is the padded row -/
theorem pageRow_inside (m : List (List Nat)) (size b i : Nat) (hi : i < m.length) (hlen : (m[i]).length = size) (his : i < size) :
    pageRow m size b (b + i) = List.replicate b 0 ++ (m[i]).map dark01 ++ List.replicate b 0 := by
  unfold pageRow
  have hc : (decide (b + i < b) || decide (b + i ≥ b + size)) = false := by
    simp only [Bool.or_eq_false_iff, decide_eq_false_iff_not]; omega
  have h2 : b + i - b = i := by omega
  have h3 : m.getD i [] = m[i] := by simp [List.getD, List.getElem?_eq_getElem hi]
  rw [dark01_eq]
  simp only [hc, Bool.false_eq_true, if_false, h2, h3, List.length_map, hlen, Nat.sub_self, List.replicate_zero, List.append_nil]
  rw [List.take_of_length_le (by simp [hlen])]

/-! ### the whole matrix: one group of runs per row, attached to y = y0 + i·incby -/

/-- the runs of every row, with the `last_bit` carry-over exactly as `linesGo` threads it -/
def rowsGo (x : Nat) : Nat → List (List Nat) → List (List (Nat × Nat))
  | _, [] => []
  | lb, row :: rest => (rowRuns x lb row).1 :: rowsGo x (rowRuns x lb row).2 rest

/-- row groups → lines: group i gets y2 + (i+1)·inc2 -/
def attach (inc2 : Int) : Int → List (List (Nat × Nat)) → List (Nat × Int × Nat)
  | _, [] => []
  | y2, rs :: rest => rs.map (fun ab => (ab.1, y2 + inc2, ab.2)) ++ attach inc2 (y2 + inc2) rest

theorem linesGo_rows (x : Nat) (inc2 : Int) (m : List (List Nat)) : ∀ y2 lb,
    linesGo x inc2 y2 lb m = attach inc2 y2 (rowsGo x lb m) := by
  induction m with
  | nil => intros; rfl
  | cons row rest ih => intro y2 lb; simp [linesGo, rowsGo, attach, ih]

theorem rowsGo_length (x : Nat) (m : List (List Nat)) : ∀ lb, (rowsGo x lb m).length = m.length := by
  induction m with
  | nil => intros; rfl
  | cons row rest ih => intro lb; simp [rowsGo, ih]

theorem rowsGo_cover (x : Nat) (m : List (List Nat)) : ∀ lb (i : Nat) (h : i < m.length) (h' : i < (rowsGo x lb m).length) (j : Nat),
    coverAt ((rowsGo x lb m)[i]) j = darkAt x (m[i]) j := by
  induction m with
  | nil => intro lb i h; simp at h
  | cons row rest ih =>
    intro lb i h h' j
    cases i with
    | zero => simp [rowsGo, rowRuns_cover]
    | succ k =>
      simp only [rowsGo, List.getElem_cons_succ]
      exact ih _ k (by simpa using h) (by simpa [rowsGo] using h') j

theorem rowsGo_sep (x : Nat) (m : List (List Nat)) : ∀ lb (i : Nat) (h : i < (rowsGo x lb m).length), sep x ((rowsGo x lb m)[i]) := by
  induction m with
  | nil => intro lb i h; simp [rowsGo] at h
  | cons row rest ih =>
    intro lb i h
    cases i with
    | zero => simp [rowsGo, rowRuns_sep]
    | succ k => simp only [rowsGo, List.getElem_cons_succ]; exact ih _ k (by simpa [rowsGo] using h)

theorem rowsGo_nonempty0 (x : Nat) (m : List (List Nat)) : ∀ (i : Nat) (h : i < (rowsGo x 0 m).length),
    ∀ r ∈ (rowsGo x 0 m)[i], r.1 < r.2 := by
  induction m with
  | nil => intro i h; simp [rowsGo] at h
  | cons row rest ih =>
    intro i h
    cases i with
    | zero => simp only [rowsGo, List.getElem_cons_zero]; exact rowRuns_nonempty x row
    | succ k =>
      have hk : k < (rowsGo x 0 rest).length := by
        have := h; simp only [rowsGo, rowRuns_lb, List.length_cons] at this; omega
      have := ih k hk
      simp only [rowsGo, rowRuns_lb, List.getElem_cons_succ]
      exact this

theorem rowsGo_nonempty (x lb : Nat) (m : List (List Nat)) : ∀ (i : Nat) (h : i + 1 < (rowsGo x lb m).length),
    ∀ r ∈ (rowsGo x lb m)[i + 1], r.1 < r.2 := by
  cases m with
  | nil => intro i h; simp [rowsGo] at h
  | cons row rest =>
    intro i h
    have hk : i < (rowsGo x 0 rest).length := by
      have := h; simp only [rowsGo, rowRuns_lb, List.length_cons] at this; omega
    have := rowsGo_nonempty0 x rest i hk
    simp only [rowsGo, rowRuns_lb, List.getElem_cons_succ]
    exact this

/-- telescoping: absolutising the relative SVG moves gives the lines back -/
theorem svgAbs_svgRel (runs : List (Int × Int × Int)) : ∀ px py, svgAbs px py (svgRel px py runs) = runs := by
  induction runs with
  | nil => intros; rfl
  | cons r rest ih =>
    intro px py
    obtain ⟨x1, y, x2⟩ := r
    simp only [svgRel, svgAbs]
    have e1 : px + (x1 - px) = x1 := by omega
    have e2 : py + (y - py) = y := by omega
    have e3 : px + (x1 - px) + (x2 - x1) = x2 := by omega
    rw [e1, e2, e1] at *
    have e4 : x1 + (x2 - x1) = x2 := by omega
    rw [e4, ih]

/-- the same for EPS, where the vertical move is printed as `int(y1 - y)`: exact when all y have the parity of the pen -/
theorem epsAbs_epsRel (runs : List (Int × Int × Int)) : ∀ px py2, (∀ r ∈ runs, (r.2.1 - py2) % 2 = 0) →
    epsAbs px py2 (epsRel px py2 runs) = runs := by
  induction runs with
  | nil => intros; rfl
  | cons r rest ih =>
    intro px py2 h
    obtain ⟨x1, y, x2⟩ := r
    have hy : (y - py2) % 2 = 0 := h (x1, y, x2) (by simp)
    simp only [epsRel, epsAbs]
    have e1 : px + (x1 - px) = x1 := by omega
    have e2 : py2 + 2 * ((y - py2) / 2) = y := by omega
    have e4 : x1 + (x2 - x1) = x2 := by omega
    rw [e1, e2, e4, ih]
    intro r hr
    have := h r (by simp [hr])
    omega

/-! ### EPS: the first relative move refers to the initial y -/

theorem darkAt_pos (row : List Nat) : ∀ x, (∃ b ∈ row, b ≠ 0) → ∃ j, darkAt x row j ≠ 0 := by
  induction row with
  | nil => intro x h; simp at h
  | cons b rest ih =>
    intro x h
    by_cases hb : b = 0
    · obtain ⟨c, hc, hc0⟩ := h
      have : c ∈ rest := by
        cases hc with
        | head => exact absurd hb hc0
        | tail _ h' => exact h'
      obtain ⟨j, hj⟩ := ih (x + 1) ⟨c, this, hc0⟩
      exact ⟨j, by simp [darkAt]; intro _; exact hj⟩
    · exact ⟨x, by simp [darkAt, hb]⟩

/-- a row with a dark module yields at least one run -/
theorem rowRuns_ne_nil (x lb : Nat) (row : List Nat) (h : ∃ b ∈ row, b ≠ 0) : (rowRuns x lb row).1 ≠ [] := by
  intro he
  obtain ⟨j, hj⟩ := darkAt_pos row x h
  have := rowRuns_cover x lb row j
  rw [he, coverAt_nil] at this
  exact hj this.symm

theorem attach_parity (inc2 : Int) (h2 : inc2 % 2 = 0) (rows : List (List (Nat × Nat))) : ∀ y0, ∀ t ∈ attach inc2 y0 rows,
    (t.2.1 - y0) % 2 = 0 := by
  induction rows with
  | nil => intro y0 t ht; simp [attach] at ht
  | cons rs rest ih =>
    intro y0 t ht
    simp only [attach, List.mem_append, List.mem_map] at ht
    rcases ht with ⟨ab, _, rfl⟩ | ht
    · simp; omega
    · have := ih (y0 + inc2) t ht; omega

/-- prefix sums of the piece lengths are the byte offsets of the pieces in the concatenation -/
theorem drop_prefixSums (pieces : List (List Nat)) : ∀ (pre : List Nat) (i : Nat) (h : i < pieces.length),
    (pre ++ pieces.flatten).drop ((prefixSums pre.length (pieces.map List.length))[i]'(by
        have : ∀ (l : List Nat) a, (prefixSums a l).length = l.length := by
          intro l; induction l with
          | nil => intro a; rfl
          | cons p r ih => intro a; simp [prefixSums, ih]
        rw [this]; simpa using h))
      = (pieces.drop (i + 1)).flatten := by
  induction pieces with
  | nil => intro pre i h; simp at h
  | cons p rest ih =>
    intro pre i h
    cases i with
    | zero =>
      simp [prefixSums]
    | succ k =>
      have hk : k < rest.length := by simpa using h
      have := ih (pre ++ p) k hk
      simp only [List.flatten_cons, List.map_cons, prefixSums, List.getElem_cons_succ, List.drop_succ_cons]
      simp only [List.length_append] at this
      rw [← List.append_assoc]
      exact this

end Proofs.Lines
