/-
  Proofs.VectorAcceptPath — C10, token level: the judge's SVG path interpreter (`Spec.Vector.groupPath`, `svgPath`)
  applied to the tokens the model prints (`Model.Lines.svgTokens`) yields exactly the absolute runs `svgAbs` of
  the relative moves, as horizontal two-point subpaths mapped by the transform.  Mathlib-free.
-/
import Proofs.VectorAcceptNum

namespace Proofs.VectorAccept
open Spec.Vector Model.Lines

/-! ### grouping of the tokens -/

/-- the step function of `groupPath` (verbatim) -/
def gStep (acc : Except String (List (Char × List Rat))) (t : String) : Except String (List (Char × List Rat)) :=
  acc.bind (fun gs =>
    match t.toList with
    | [c] =>
      if c.isAlpha then .ok ((c, []) :: gs)
      else match num? t, gs with
        | some q, (c', as) :: rest => .ok ((c', q :: as) :: rest)
        | _, _ => .error s!"bad-path-token-{t}"
    | _ =>
      match num? t, gs with
      | some q, (c', as) :: rest => .ok ((c', q :: as) :: rest)
      | _, _ => .error s!"bad-path-token-{t}")

theorem groupPath_eq (toks : List String) :
    groupPath toks = (toks.foldl gStep (.ok [])).map (fun gs => (gs.map (fun (c, as) => (c, as.reverse))).reverse) := rfl

theorem gStep_num (t : String) (q : Rat) (c' : Char) (as : List Rat) (rest : List (Char × List Rat))
    (hq : num? t = some q) (ha : ∀ c ∈ t.toList, c.isAlpha = false) :
    gStep (.ok ((c', as) :: rest)) t = .ok ((c', q :: as) :: rest) := by
  unfold gStep
  simp only [Except.bind]
  split
  · rename_i c hc
    have : c.isAlpha = false := ha c (by rw [hc]; simp)
    simp [this, hq]
  · simp [hq]

theorem gStep_cmd (t : String) (c : Char) (gs : List (Char × List Rat)) (ht : t.toList = [c]) (hc : c.isAlpha = true) :
    gStep (.ok gs) t = .ok ((c, []) :: gs) := by
  unfold gStep
  simp [Except.bind, ht, hc]

/-- the groups of the relative triples, reversed and with reversed arguments (the accumulator of `groupPath`) -/
def accOf (mv : Char) : List (Int × Int × Int) → List (Char × List Rat)
  | [] => []
  | (dx, dy2, len) :: rest => accOf 'm' rest ++ [('h', [(len : Rat)]), (mv, [half dy2, (dx : Rat)])]

/-- tokens with an explicit first move command -/
def toksOf (mv : String) : List (Int × Int × Int) → List String
  | [] => []
  | (dx, dy2, len) :: rest => [mv, toString dx, showHalf dy2, "h", toString len] ++ toksOf "m" rest

theorem svgTokens_eq (rel : List (Int × Int × Int)) : svgTokens rel = toksOf "M" rel := by
  unfold svgTokens
  have h : ∀ (l : List (Int × Int × Int)) (k : Nat),
      ((l.zipIdx (k + 1)).map (fun (t, i) => [if i == 0 then "M" else "m", toString t.1, showHalf t.2.1, "h", toString t.2.2])).flatten
        = toksOf "m" l := by
    intro l
    induction l with
    | nil => intro k; rfl
    | cons t l ih =>
      intro k
      obtain ⟨dx, dy2, len⟩ := t
      simp only [List.zipIdx_cons, List.map_cons, List.flatten_cons, toksOf, ih (k + 1)]
      simp
  cases rel with
  | nil => rfl
  | cons t l =>
    obtain ⟨dx, dy2, len⟩ := t
    have := h l 0
    simp only [Nat.zero_add] at this
    simp only [List.zipIdx_cons, List.map_cons, List.flatten_cons, toksOf, this, Nat.zero_add]
    simp

theorem foldl_gStep (rel : List (Int × Int × Int)) : ∀ (mv : String) (mvc : Char) (gs : List (Char × List Rat)),
    mv.toList = [mvc] → mvc.isAlpha = true →
    (toksOf mv rel).foldl gStep (.ok gs) = .ok (accOf mvc rel ++ gs) := by
  induction rel with
  | nil => intros; rfl
  | cons t rest ih =>
    intro mv mvc gs hmv hal
    obtain ⟨dx, dy2, len⟩ := t
    simp only [toksOf, List.cons_append, List.nil_append, List.foldl_cons]
    rw [gStep_cmd mv mvc gs hmv hal,
      gStep_num _ _ _ _ _ (num_int dx) (noAlpha_int dx),
      gStep_num _ _ _ _ _ (num_showHalf dy2) (noAlpha_showHalf dy2),
      gStep_cmd "h" 'h' _ rfl (by decide),
      gStep_num _ _ _ _ _ (num_int len) (noAlpha_int len),
      ih "m" 'm' _ rfl (by decide)]
    simp [accOf]

/-- the groups `groupPath` delivers for the model's tokens -/
def groupsOf (mv : Char) : List (Int × Int × Int) → List (Char × List Rat)
  | [] => []
  | (dx, dy2, len) :: rest => (mv, [(dx : Rat), half dy2]) :: ('h', [(len : Rat)]) :: groupsOf 'm' rest

theorem accOf_groups (rel : List (Int × Int × Int)) : ∀ mv,
    ((accOf mv rel).map (fun (c, as) => (c, as.reverse))).reverse = groupsOf mv rel := by
  induction rel with
  | nil => intro mv; rfl
  | cons t rest ih =>
    intro mv
    obtain ⟨dx, dy2, len⟩ := t
    simp [accOf, groupsOf, ← ih 'm']

/-- token level, part 1: grouping the model's SVG path tokens -/
theorem groupPath_svgTokens (rel : List (Int × Int × Int)) : groupPath (svgTokens rel) = .ok (groupsOf 'M' rel) := by
  rw [groupPath_eq, svgTokens_eq, foldl_gStep rel "M" 'M' [] rfl (by decide)]
  simp only [Except.map, List.append_nil]
  rw [accOf_groups]

/-! ### the interpreter loop -/

/-- the `for` loop of `Spec.Vector.svgPath` (verbatim copy, the start state is a parameter) -/
def svgLoop (xf : Xf) (groups : List (Char × List Rat)) (p0 : PathSt) : Except String PathSt := do
  let mut p : PathSt := p0
  for (c, args) in groups do
    match pathArity c with
    | none => throw s!"unsupported-path-command-{c}"
    | some 0 =>
      if !args.isEmpty then throw "arguments-after-closepath"
      p := p.close
    | some k =>
      if args.isEmpty || args.length % k != 0 then throw s!"wrong-number-of-arguments-for-{c}"
      let rel := c.isLower
      let mut first := true
      for a in chunks k args do
        let (ux, uy) := p.upos
        let u : Rat × Rat :=
          match c.toLower, a with
          | 'h', [x] => (if rel then ux + x else x, uy)
          | 'v', [y] => (ux, if rel then uy + y else y)
          | _, [x, y] => if rel then (ux + x, uy + y) else (x, y)
          | _, _ => (ux, uy)
        if c.toLower == 'm' && first then
          p := p.moveTo u (xf.app u)
        else
          p ← p.lineTo u (xf.app u)
        first := false
  return p

theorem exc_aux {ε α β} (x : Except ε α) (f : α → β) :
    (x >>= fun s => pure (f s)) = Except.map f (x >>= fun s => pure s) := by
  cases x <;> rfl

theorem svgPath_eq (xf : Xf) (toks : List String) :
    Spec.Vector.svgPath xf toks = (groupPath toks).bind (fun g => (svgLoop xf g {}).map PathSt.done) := by
  unfold Spec.Vector.svgPath svgLoop
  cases groupPath toks with
  | error e => rfl
  | ok g => exact exc_aux (forIn g _ _) PathSt.done

theorem loop_nil (xf : Xf) (p : PathSt) : svgLoop xf [] p = .ok p := rfl

theorem loop_M (xf : Xf) (p : PathSt) (x y : Rat) (gs) :
    svgLoop xf (('M', [x, y]) :: gs) p = svgLoop xf gs (p.moveTo (x, y) (xf.app (x, y))) := by
  unfold svgLoop
  simp [List.forIn_cons, pathArity, chunks, chunks.go]

theorem loop_m (xf : Xf) (p : PathSt) (x y : Rat) (gs) :
    svgLoop xf (('m', [x, y]) :: gs) p
      = svgLoop xf gs (p.moveTo (p.upos.1 + x, p.upos.2 + y) (xf.app (p.upos.1 + x, p.upos.2 + y))) := by
  unfold svgLoop
  simp [List.forIn_cons, pathArity, chunks, chunks.go]

theorem loop_h (xf : Xf) (p p' : PathSt) (l : Rat) (gs)
    (h : p.lineTo (p.upos.1 + l, p.upos.2) (xf.app (p.upos.1 + l, p.upos.2)) = .ok p') :
    svgLoop xf (('h', [l]) :: gs) p = svgLoop xf gs p' := by
  unfold svgLoop
  simp [List.forIn_cons, pathArity, chunks, chunks.go, h]
  rfl

/-- the horizontal two-point subpaths of absolute runs `(x1, 2·y, x2)` under the transform `xf` -/
def subsOf (xf : Xf) (lines : List (Int × Int × Int)) : List Sub :=
  lines.map (fun t => { pts := [xf.app ((t.1 : Rat), half t.2.1), xf.app ((t.2.2 : Rat), half t.2.1)], closed := false })

theorem half_add (a b : Int) : half a + half b = half (a + b) := by
  unfold half; rw [Rat.intCast_add]; grind

/-- one run: a move (already executed, leaving `cur = [d]`) followed by `h len` -/
theorem moveTo_lineTo_done (p : PathSt) (u d u' d' : Rat × Rat) :
    ∃ p', (p.moveTo u d).lineTo u' d' = .ok p' ∧ p'.upos = u' ∧ p'.done = p.done ++ [{ pts := [d, d'], closed := false }] := by
  refine ⟨_, rfl, rfl, ?_⟩
  simp [PathSt.moveTo, PathSt.done, PathSt.flush]

theorem loop_runs (xf : Xf) (rel : List (Int × Int × Int)) : ∀ (p : PathSt) (px py2 : Int),
    p.upos = ((px : Rat), half py2) →
    ∃ p', svgLoop xf (groupsOf 'm' rel) p = .ok p' ∧ p'.done = p.done ++ subsOf xf (svgAbs px py2 rel) := by
  induction rel with
  | nil => intro p px py2 _; exact ⟨p, rfl, by simp [subsOf, svgAbs]⟩
  | cons t rest ih =>
    intro p px py2 hu
    obtain ⟨dx, dy2, len⟩ := t
    simp only [groupsOf]
    rw [loop_m]
    obtain ⟨p1, h1, hu1, hd1⟩ := moveTo_lineTo_done p (p.upos.1 + (dx : Rat), p.upos.2 + half dy2)
      (xf.app (p.upos.1 + (dx : Rat), p.upos.2 + half dy2))
      (p.upos.1 + (dx : Rat) + (len : Rat), p.upos.2 + half dy2)
      (xf.app (p.upos.1 + (dx : Rat) + (len : Rat), p.upos.2 + half dy2))
    rw [loop_h xf _ p1 (len : Rat) _ h1]
    have hu1' : p1.upos = (((px + dx + len : Int) : Rat), half (py2 + dy2)) := by
      rw [hu1, hu]; simp [Rat.intCast_add, half_add]
    obtain ⟨p2, h2, hd2⟩ := ih p1 (px + dx + len) (py2 + dy2) hu1'
    refine ⟨p2, h2, ?_⟩
    rw [hd2, hd1, hu]
    simp [subsOf, svgAbs, Rat.intCast_add, half_add]

/-- token level, part 2: the judge's path interpreter on the model's tokens computes `svgAbs` of the relative moves -/
theorem svgPath_svgTokens (xf : Xf) (rel : List (Int × Int × Int)) :
    Spec.Vector.svgPath xf (svgTokens rel) = .ok (subsOf xf (svgAbs 0 0 rel)) := by
  rw [svgPath_eq, groupPath_svgTokens]
  simp only [Except.bind]
  cases rel with
  | nil => rfl
  | cons t rest =>
    obtain ⟨dx, dy2, len⟩ := t
    simp only [groupsOf]
    rw [loop_M]
    obtain ⟨p1, h1, hu1, hd1⟩ := moveTo_lineTo_done {} ((dx : Rat), half dy2) (xf.app ((dx : Rat), half dy2))
      ((dx : Rat) + (len : Rat), half dy2) (xf.app ((dx : Rat) + (len : Rat), half dy2))
    have hl : (({} : PathSt).moveTo ((dx : Rat), half dy2) (xf.app ((dx : Rat), half dy2))).upos = ((dx : Rat), half dy2) := rfl
    rw [loop_h xf _ p1 (len : Rat) _ (by rw [hl]; exact h1)]
    have hu1' : p1.upos = (((0 + dx + len : Int) : Rat), half (0 + dy2)) := by
      rw [hu1]; simp [Rat.intCast_add]
    obtain ⟨p2, h2, hd2⟩ := loop_runs xf rest p1 (0 + dx + len) (0 + dy2) hu1'
    rw [h2]
    simp only [Except.map]
    rw [hd2, hd1]
    simp [subsOf, svgAbs, Rat.intCast_add, PathSt.done, PathSt.flush]

end Proofs.VectorAccept
