/-
  Proofs.Mask — helper lemmas for C06 (data masking: conditions, application, evaluation, selection).
-/
import Spec.Penalty
import Model.Encoder

namespace Proofs.Mask

/-! ### mask conditions -/

theorem maskFn_eq_maskCond (p i j : Nat) (hp : p < 8) : Model.maskFn p i j = Spec.maskCond p i j := by
  have h8 : p = 0 ∨ p = 1 ∨ p = 2 ∨ p = 3 ∨ p = 4 ∨ p = 5 ∨ p = 6 ∨ p = 7 := by omega
  rcases h8 with h | h | h | h | h | h | h | h <;> subst h <;>
    simp [Model.maskFn, Spec.maskCond, Gen.fn0, Gen.fn1, Gen.fn2, Gen.fn3, Gen.fn4, Gen.fn5, Gen.fn6, Gen.fn7,
      Nat.and_one_is_mod]

theorem mask_order : Gen.maskOrderMicro = [1, 4, 6, 7] ∧ Gen.maskOrderQR = [0, 1, 2, 3, 4, 5, 6, 7] := by
  decide

/-! ### applyMask -/

theorem get2_applyMask (m fm : Model.Matrix) (p i j : Nat) :
    Model.get2 (Model.applyMask m fm p) i j =
      if i < m.size ∧ j < (m.getD i #[]).size then
        (if Model.get2 fm i j > 1 then Model.get2 m i j ^^^ (if Model.maskFn p i j then 1 else 0) else Model.get2 m i j)
      else 0 := by
  unfold Model.applyMask
  simp only [Model.get2, Array.getD_eq_getD_getElem?, Array.getElem?_mapIdx]
  by_cases hi : i < m.size
  · simp [hi]
    by_cases hj : j < m[i].size
    · simp [hj]
    · simp [hj]
  · simp [hi]

theorem size_applyMask (m fm : Model.Matrix) (p : Nat) : (Model.applyMask m fm p).size = m.size := by
  simp [Model.applyMask]

theorem rowsize_applyMask (m fm : Model.Matrix) (p i : Nat) :
    ((Model.applyMask m fm p).getD i #[]).size = (m.getD i #[]).size := by
  unfold Model.applyMask
  simp only [Array.getD_eq_getD_getElem?, Array.getElem?_mapIdx]
  by_cases hi : i < m.size <;> simp [hi]

theorem get2_oob (m : Model.Matrix) (i j : Nat) (h : ¬ (i < m.size ∧ j < (m.getD i #[]).size)) :
    Model.get2 m i j = 0 := by
  unfold Model.get2
  by_cases hi : i < m.size
  · have hj : ¬ j < (m.getD i #[]).size := fun hj => h ⟨hi, hj⟩
    simp only [Array.getD_eq_getD_getElem?] at hj ⊢
    simp [hi] at hj ⊢
    simp [hj]
  · simp [Array.getD_eq_getD_getElem?, hi]

/-- masking twice is the identity (for every module value, not only bits) -/
theorem applyMask_involutive (m fm : Model.Matrix) (p i j : Nat) :
    Model.get2 (Model.applyMask (Model.applyMask m fm p) fm p) i j = Model.get2 m i j := by
  rw [get2_applyMask, size_applyMask, rowsize_applyMask, get2_applyMask]
  by_cases h : i < m.size ∧ j < (m.getD i #[]).size
  · simp only [h, and_self, if_true]
    by_cases hf : Model.get2 fm i j > 1
    · simp only [hf, if_true, Nat.xor_assoc, Nat.xor_self, Nat.xor_zero]
    · simp only [hf, if_false]
  · rw [if_neg h, get2_oob m i j h]

theorem applyMask_leaves (m fm : Model.Matrix) (p i j : Nat) (h : Model.get2 fm i j ≤ 1) :
    Model.get2 (Model.applyMask m fm p) i j = Model.get2 m i j := by
  rw [get2_applyMask]
  by_cases h' : i < m.size ∧ j < (m.getD i #[]).size
  · have : ¬ Model.get2 fm i j > 1 := by omega
    simp only [h', and_self, if_true, this, if_false]
  · rw [if_neg h', get2_oob m i j h']

/-! ### the candidate loop: first best wins -/

section Best
variable {α β : Type}

/-- the candidate loop step: replace the best so far only when strictly better -/
def stepBest (better : Nat → Nat → Prop) [DecidableRel better] (sc : α → Nat) (g : α → β)
    (best : Option (Nat × Nat × β)) (x : α × Nat) : Option (Nat × Nat × β) :=
  match best with
  | none => some (sc x.1, x.2, g x.1)
  | some (bs, bk, bm) => if better (sc x.1) bs then some (sc x.1, x.2, g x.1) else some (bs, bk, bm)

theorem idxOf_append_of_mem (l : List Nat) (b s : Nat) (h : b ∈ l) : (l ++ [s]).idxOf b = l.idxOf b := by
  rw [List.idxOf_append, if_pos h]

theorem idxOf_append_of_not_mem (l : List Nat) (s : Nat) (h : s ∉ l) : (l ++ [s]).idxOf s = l.length := by
  rw [List.idxOf_append, if_neg h]; simp

theorem fold_best (better : Nat → Nat → Prop) [DecidableRel better] (sc : α → Nat) (g : α → β)
    (htr : ∀ x b s, ¬ better x b → better s b → ¬ better x s) (hirr : ∀ x, ¬ better x x)
    (suf : List α) : ∀ (pre : List α) (b k : Nat) (bm : β),
    b ∈ pre.map sc → (∀ x ∈ pre.map sc, ¬ better x b) → k = (pre.map sc).idxOf b → (pre.map g)[k]? = some bm →
    ∃ b' k' bm', List.foldl (stepBest better sc g) (some (b, k, bm)) (suf.zipIdx pre.length) = some (b', k', bm')
      ∧ b' ∈ (pre ++ suf).map sc ∧ (∀ x ∈ (pre ++ suf).map sc, ¬ better x b')
      ∧ k' = ((pre ++ suf).map sc).idxOf b' ∧ ((pre ++ suf).map g)[k']? = some bm' := by
  induction suf with
  | nil => intro pre b k bm h1 h2 h3 h4; exact ⟨b, k, bm, by simp, by simpa using h1, by simpa using h2, by simpa using h3, by simpa using h4⟩
  | cons s suf ih =>
    intro pre b k bm h1 h2 h3 h4
    have hlen : pre.length + 1 = (pre ++ [s]).length := by simp
    have happ : pre ++ s :: suf = (pre ++ [s]) ++ suf := by simp
    rw [List.zipIdx_cons, List.foldl_cons, hlen, happ]
    by_cases hb : better (sc s) b
    · have hstep : stepBest better sc g (some (b, k, bm)) (s, pre.length) = some (sc s, pre.length, g s) := by
        simp [stepBest, hb]
      rw [hstep]
      have hnot : sc s ∉ pre.map sc := fun hm => h2 _ hm hb
      apply ih (pre ++ [s]) (sc s) pre.length (g s)
      · simp
      · intro x hx
        simp only [List.map_append, List.map_cons, List.map_nil, List.mem_append, List.mem_singleton] at hx
        rcases hx with hx | hx
        · exact htr x b (sc s) (h2 x hx) hb
        · subst hx; exact hirr _
      · simp only [List.map_append, List.map_cons, List.map_nil]
        rw [idxOf_append_of_not_mem _ _ hnot]; simp
      · simp
    · have hstep : stepBest better sc g (some (b, k, bm)) (s, pre.length) = some (b, k, bm) := by
        simp [stepBest, hb]
      rw [hstep]
      apply ih (pre ++ [s]) b k bm
      · simp only [List.map_append, List.mem_append]; exact Or.inl h1
      · intro x hx
        simp only [List.map_append, List.map_cons, List.map_nil, List.mem_append, List.mem_singleton] at hx
        rcases hx with hx | hx
        · exact h2 x hx
        · subst hx; exact hb
      · simp only [List.map_append, List.map_cons, List.map_nil]
        rw [idxOf_append_of_mem _ _ _ h1]; exact h3
      · have hk : k < (pre.map g).length := by
          rw [h3]; simpa using List.idxOf_lt_length_of_mem h1
        simp only [List.map_append]
        rw [List.getElem?_append_left hk]; exact h4

theorem fold_best_none (better : Nat → Nat → Prop) [DecidableRel better] (sc : α → Nat) (g : α → β)
    (htr : ∀ x b s, ¬ better x b → better s b → ¬ better x s) (hirr : ∀ x, ¬ better x x)
    (l : List α) (hl : l ≠ []) :
    ∃ b' k' bm', List.foldl (stepBest better sc g) none l.zipIdx = some (b', k', bm')
      ∧ b' ∈ l.map sc ∧ (∀ x ∈ l.map sc, ¬ better x b')
      ∧ k' = (l.map sc).idxOf b' ∧ (l.map g)[k']? = some bm' := by
  cases l with
  | nil => exact absurd rfl hl
  | cons a suf =>
    have := fold_best better sc g htr hirr suf [a] (sc a) 0 (g a) (by simp) (by simpa using hirr _) (by simp) (by simp)
    simpa [List.zipIdx_cons, stepBest] using this
end Best


theorem foldl_min_spec (l : List Nat) : ∀ a, (l.foldl min a ≤ a ∧ ∀ x ∈ l, l.foldl min a ≤ x) ∧ (l.foldl min a = a ∨ l.foldl min a ∈ l) := by
  induction l with
  | nil => intro a; simp
  | cons y ys ih =>
    intro a
    obtain ⟨⟨h1, h2⟩, h3⟩ := ih (min a y)
    simp only [List.foldl_cons, List.mem_cons]
    refine ⟨⟨by omega, ?_⟩, ?_⟩
    · intro x hx
      rcases hx with hx | hx
      · subst hx; omega
      · exact h2 x hx
    · rcases h3 with h3 | h3
      · rw [h3]; by_cases h : a ≤ y
        · left; omega
        · right; left; omega
      · right; right; exact h3

theorem foldl_max_spec (l : List Nat) : ∀ a, (a ≤ l.foldl max a ∧ ∀ x ∈ l, x ≤ l.foldl max a) ∧ (l.foldl max a = a ∨ l.foldl max a ∈ l) := by
  induction l with
  | nil => intro a; simp
  | cons y ys ih =>
    intro a
    obtain ⟨⟨h1, h2⟩, h3⟩ := ih (max a y)
    simp only [List.foldl_cons, List.mem_cons]
    refine ⟨⟨by omega, ?_⟩, ?_⟩
    · intro x hx
      rcases hx with hx | hx
      · subst hx; omega
      · exact h2 x hx
    · rcases h3 with h3 | h3
      · rw [h3]; by_cases h : a ≤ y
        · right; left; omega
        · left; omega
      · right; right; exact h3

theorem foldl_min_char (l : List Nat) (b : Nat) (hb : b ∈ l) (hmin : ∀ x ∈ l, ¬ x < b) :
    l.foldl min (l.headD 0) = b := by
  cases l with
  | nil => simp at hb
  | cons a t =>
    obtain ⟨⟨h1, h2⟩, h3⟩ := foldl_min_spec (a :: t) a
    simp only [List.headD_cons]
    have hle : List.foldl min a (a :: t) ≤ b := h2 b hb
    have hmem : List.foldl min a (a :: t) ∈ a :: t := by
      rcases h3 with h3 | h3
      · rw [h3]; simp
      · exact h3
    have := hmin _ hmem
    omega

theorem foldl_max_char (l : List Nat) (b : Nat) (hb : b ∈ l) (hmax : ∀ x ∈ l, ¬ x > b) :
    l.foldl max 0 = b := by
  obtain ⟨⟨h1, h2⟩, h3⟩ := foldl_max_spec l 0
  have hle : b ≤ List.foldl max 0 l := h2 b hb
  rcases h3 with h3 | h3
  · omega
  · have := hmax _ h3; omega

theorem foldl_congr_fun {α β : Type} (f f' : β → α → β) (h : ∀ b x, f b x = f' b x) (a : β) (l : List α) :
    List.foldl f a l = List.foldl f' a l := by
  have : f = f' := funext fun b => funext fun x => h b x
  rw [this]

theorem auto_first_best (m : Model.Matrix) (fm : Model.Matrix) (k : Nat) (bm : Model.Matrix)
    (hfm : Model.functionMatrix m.size = .ok fm)
    (h : Model.findAndApplyBestMask m none = .ok (k, bm)) :
    let isMicro := decide (m.size < 21)
    let cands := (Model.maskPatterns isMicro).map (fun pat => Model.applyMask m fm pat)
    let scores := cands.map (fun c => if isMicro then Model.evaluateMicroMask c else Model.evaluateMask c)
    scores ≠ [] ∧ k = scores.idxOf (if isMicro then scores.foldl max 0 else scores.foldl min (scores.headD 0))
      ∧ cands[k]? = some bm := by
  unfold Model.findAndApplyBestMask at h
  simp only [hfm, bind, Except.bind] at h
  by_cases hμ : m.size < 21
  · simp only [hμ, if_true, decide_true] at h ⊢
    have hne : Model.maskPatterns true ≠ [] := by decide
    obtain ⟨b', k', bm', hf, hmem, hbest, hk, hc⟩ :=
      fold_best_none (fun a b => a > b) (fun pat => Model.evaluateMicroMask (Model.applyMask m fm pat))
        (fun pat => Model.applyMask m fm pat) (by intro x b s; omega) (by intro x; omega) (Model.maskPatterns true) hne
    rw [foldl_congr_fun _ (stepBest (fun a b => a > b) (fun pat => Model.evaluateMicroMask (Model.applyMask m fm pat))
        (fun pat => Model.applyMask m fm pat)) (by intro best x; rcases best with _ | ⟨bs, bk, bm⟩ <;> rfl), hf] at h
    simp only [pure, Except.pure, Except.ok.injEq, Prod.mk.injEq] at h
    obtain ⟨rfl, rfl⟩ := h
    simp only [List.map_map]
    refine ⟨by simpa using hne, ?_, hc⟩
    have : List.foldl max 0 (List.map ((fun c => Model.evaluateMicroMask c) ∘ fun pat => Model.applyMask m fm pat) (Model.maskPatterns true)) = b' :=
      foldl_max_char _ b' hmem hbest
    rw [this]; exact hk
  · simp only [hμ, if_false, decide_false] at h ⊢
    have hne : Model.maskPatterns false ≠ [] := by decide
    obtain ⟨b', k', bm', hf, hmem, hbest, hk, hc⟩ :=
      fold_best_none (fun a b => a < b) (fun pat => Model.evaluateMask (Model.applyMask m fm pat))
        (fun pat => Model.applyMask m fm pat) (by intro x b s; omega) (by intro x; omega) (Model.maskPatterns false) hne
    rw [foldl_congr_fun _ (stepBest (fun a b => a < b) (fun pat => Model.evaluateMask (Model.applyMask m fm pat))
        (fun pat => Model.applyMask m fm pat)) (by intro best x; rcases best with _ | ⟨bs, bk, bm⟩ <;> rfl), hf] at h
    simp only [pure, Except.pure, Except.ok.injEq, Prod.mk.injEq] at h
    obtain ⟨rfl, rfl⟩ := h
    simp only [List.map_map]
    refine ⟨by simpa using hne, ?_, hc⟩
    have := foldl_min_char _ b' hmem hbest
    simp only [Bool.false_eq_true, if_false]
    have this' : List.foldl min ((List.map ((fun c => Model.evaluateMask c) ∘ fun pat => Model.applyMask m fm pat)
        (Model.maskPatterns false)).headD 0)
        (List.map ((fun c => Model.evaluateMask c) ∘ fun pat => Model.applyMask m fm pat) (Model.maskPatterns false)) = b' := this
    rw [this']; exact hk

/-! ### requested mask, Micro QR score -/

theorem micro_score (m : Model.Matrix) : Model.evaluateMicroMask m = Spec.scoreMicro m := rfl

theorem requested (m fm : Model.Matrix) (p : Nat)
    (hfm : Model.functionMatrix m.size = .ok fm) (hp : p < (Model.maskPatterns (decide (m.size < 21))).length) :
    Model.findAndApplyBestMask m (some p)
      = .ok (p, Model.applyMask m fm ((Model.maskPatterns (decide (m.size < 21))).getD p 0)) := by
  unfold Model.findAndApplyBestMask
  simp only [hfm, bind, Except.bind]
  simp [hp, pure, Except.pure]

/-! ### N1 -/

theorem foldl_add_acc (l : List Nat) : ∀ a, l.foldl (· + ·) a = a + l.foldl (· + ·) 0 := by
  induction l with
  | nil => intro a; simp
  | cons x xs ih => intro a; simp only [List.foldl_cons]; rw [ih (a + x), ih (0 + x)]; omega

theorem sumL_cons (x : Nat) (l : List Nat) : Spec.sumL (x :: l) = x + Spec.sumL l := by
  simp only [Spec.sumL, List.foldl_cons]; rw [foldl_add_acc]; omega

theorem sumL_nil : Spec.sumL [] = 0 := rfl

theorem sumNat_eq_sumL (l : List Nat) : Model.sumNat l = Spec.sumL l := rfl

/-- the N1 run scorer of the specification -/
def n1f (r : Nat) : Nat := if r ≥ 5 then 3 + (r - 5) else 0

/-- the loop body of the model's `n1Line` -/
def n1Step (acc : Nat × Nat × Nat) (b : Nat) : Nat × Nat × Nat :=
  if b == acc.2.1 then (acc.1, acc.2.1, acc.2.2 + 1)
  else ((if acc.2.2 ≥ 5 then acc.1 + (acc.2.2 - 2) else acc.1), b, 1)

def n1Fin (acc : Nat × Nat × Nat) : Nat := if acc.2.2 ≥ 5 then acc.1 + (acc.2.2 - 2) else acc.1

theorem model_n1Line_eq (l : List Nat) : Model.n1Line l = n1Fin (l.foldl n1Step (0, 2, 0)) := by
  unfold Model.n1Line
  have : (fun (acc : Nat × Nat × Nat) b =>
    match acc with
    | (score, prev, cnt) => if (b == prev) = true then (score, prev, cnt + 1)
      else ((if cnt ≥ 5 then score + (cnt - 2) else score), b, 1)) = n1Step := by
    funext acc b; rcases acc with ⟨s, p, c⟩; rfl
  rw [this]
  rcases List.foldl n1Step (0, 2, 0) l with ⟨s, p, c⟩
  rfl

theorem n1_go (l : List Nat) : ∀ s prev cnt,
    n1Fin (l.foldl n1Step (s, prev, cnt)) = s + Spec.sumL ((Spec.runLengths.go prev cnt l).map n1f) := by
  induction l with
  | nil =>
    intro s prev cnt
    simp only [List.foldl_nil, Spec.runLengths.go, List.map_cons, List.map_nil, sumL_cons, sumL_nil, n1Fin, n1f]
    by_cases h5 : cnt ≥ 5
    · simp only [h5, if_true]; omega
    · simp only [h5, if_false]; omega
  | cons y ys ih =>
    intro s prev cnt
    simp only [List.foldl_cons, Spec.runLengths.go]
    by_cases h : (y == prev) = true
    · have : n1Step (s, prev, cnt) y = (s, prev, cnt + 1) := by simp [n1Step, h]
      rw [this, ih, if_pos h]
    · have : n1Step (s, prev, cnt) y = ((if cnt ≥ 5 then s + (cnt - 2) else s), y, 1) := by simp [n1Step, h]
      rw [this, ih, if_neg h, List.map_cons, sumL_cons]
      simp only [n1f]
      by_cases h5 : cnt ≥ 5
      · rw [if_pos h5, if_pos h5]; omega
      · rw [if_neg h5, if_neg h5]; omega

theorem n1Line_eq (l : List Nat) : Model.n1Line l = Spec.n1Line l := by
  rw [model_n1Line_eq]
  cases l with
  | nil => rfl
  | cons x xs =>
    have : n1Step (0, 2, 0) x = (0, x, 1) := by
      by_cases h : (x == 2) = true
      · have hx : x = 2 := by simpa using h
        subst hx; rfl
      · simp [n1Step, h]
    rw [List.foldl_cons, this, n1_go]
    simp only [Spec.n1Line, Spec.runLengths, Nat.zero_add]
    rfl

/-! ### rows, columns, N2, N4, assembly -/

theorem array_toList_eq (a : Array Nat) (n : Nat) (h : a.size = n) :
    a.toList = (List.range n).map (fun j => a.getD j 0) := by
  apply List.ext_getElem
  · simp [h]
  · intro i h1 h2
    simp at h1
    simp [Array.getD_eq_getD_getElem?, h1]

theorem rows_eq (m : Model.Matrix) (hs : ∀ i, i < m.size → (m.getD i #[]).size = m.size) :
    (List.range m.size).map (fun i => (m.getD i #[]).toList) = Spec.rowsOf m := by
  unfold Spec.rowsOf
  apply List.map_congr_left
  intro i hi
  rw [List.mem_range] at hi
  rw [array_toList_eq _ _ (hs i hi)]
  rfl

theorem cols_eq (m : Model.Matrix) : (List.range m.size).map (Model.column m) = Spec.colsOf m := rfl

theorem n2_eq (m : Model.Matrix) :
    Model.sumNat ((List.range (m.size - 1)).map (fun i =>
      Model.sumNat ((List.range (m.size - 1)).map (fun j =>
        let a := Model.get2 m i j
        if a == Model.get2 m i (j + 1) && a == Model.get2 m (i + 1) j && a == Model.get2 m (i + 1) (j + 1) then 3 else 0))))
    = Spec.n2 m := by
  unfold Spec.n2
  simp only [sumNat_eq_sumL]
  congr 1
  apply List.map_congr_left
  intro i _
  congr 1
  apply List.map_congr_left
  intro j _
  have hc : ∀ i j, Spec.cell m i j = Model.get2 m i j := fun _ _ => rfl
  simp only [hc]
  simp only [Bool.beq_comm (a := Model.get2 m i j)] 

theorem n4_eq (d T : Nat) :
    10 * ((if 20 * d ≥ 10 * T then 20 * d - 10 * T else 10 * T - 20 * d) / T)
    = 10 * ((if 100 * d ≥ 50 * T then 100 * d - 50 * T else 50 * T - 100 * d) / (5 * T)) := by
  have h : (if 100 * d ≥ 50 * T then 100 * d - 50 * T else 50 * T - 100 * d)
      = 5 * (if 20 * d ≥ 10 * T then 20 * d - 10 * T else 10 * T - 20 * d) := by
    split <;> split <;> omega
  rw [h, Nat.mul_div_mul_left _ _ (by omega : 0 < 5)]

theorem map_n1Line_eq (ls : List (List Nat)) : ls.map Model.n1Line = ls.map Spec.n1Line :=
  List.map_congr_left (fun l _ => n1Line_eq l)

theorem score_eq_of_n3 (m : Model.Matrix) (hs : ∀ i, i < m.size → (m.getD i #[]).size = m.size)
    (n3 : ∀ l, Model.n3Occurrences l = Spec.n3Line l) :
    Model.evaluateMask m = Spec.penaltyQR m := by
  have hn3 : ∀ ls : List (List Nat), ls.map Model.n3Occurrences = ls.map Spec.n3Line :=
    fun ls => List.map_congr_left (fun l _ => n3 l)
  unfold Model.evaluateMask Model.maskScores Spec.penaltyQR
  simp only [rows_eq m hs, cols_eq, map_n1Line_eq, hn3, sumNat_eq_sumL]
  have h2 := n2_eq m
  simp only [sumNat_eq_sumL] at h2
  rw [h2]
  have h4 := n4_eq (Spec.sumL ((Spec.rowsOf m).map Spec.sumL)) (m.size * m.size)
  have hsum : List.map Model.sumNat (Spec.rowsOf m) = List.map Spec.sumL (Spec.rowsOf m) := rfl
  simp only [hsum]
  unfold Spec.n4
  simp only []
  rw [h4]
  omega

/-! ### N3 -/

/-- 1011101 starts at position `s` of the line -/
def Occ (l : List Nat) (s : Nat) : Prop :=
  l[s]? = some 1 ∧ l[s+1]? = some 0 ∧ l[s+2]? = some 1 ∧ l[s+3]? = some 1 ∧ l[s+4]? = some 1 ∧
    l[s+5]? = some 0 ∧ l[s+6]? = some 1

instance (l : List Nat) (s : Nat) : Decidable (Occ l s) := by unfold Occ; infer_instance

theorem Occ.lt {l : List Nat} {s : Nat} (h : Occ l s) : s + 7 ≤ l.length := by
  have := h.2.2.2.2.2.2
  have := (List.getElem?_eq_some_iff.mp this).1
  omega

theorem take7_eq (l : List Nat) :
    (l.take 7 = [1, 0, 1, 1, 1, 0, 1]) ↔ Occ l 0 := by
  unfold Occ
  rcases l with _ | ⟨a0, _ | ⟨a1, _ | ⟨a2, _ | ⟨a3, _ | ⟨a4, _ | ⟨a5, _ | ⟨a6, t⟩⟩⟩⟩⟩⟩⟩ <;> simp

theorem Occ_drop (l : List Nat) (s : Nat) : Occ (l.drop s) 0 ↔ Occ l s := by
  unfold Occ
  simp only [List.getElem?_drop, Nat.zero_add, Nat.add_zero]

/-- the model's test in `findPattern` -/
def occM (l : List Nat) (idx : Nat) : Bool :=
  idx + 7 ≤ l.length && (l.drop idx).take 7 == Model.n3Pattern

theorem occM_iff (l : List Nat) (idx : Nat) : occM l idx = true ↔ Occ l idx := by
  unfold occM Model.n3Pattern
  rw [Bool.and_eq_true, beq_iff_eq, take7_eq, Occ_drop, decide_eq_true_eq]
  exact ⟨fun h => h.2, fun h => ⟨h.lt, h⟩⟩

theorem getD_eq_one (l : List Nat) (k : Nat) : l.getD k 0 = 1 ↔ l[k]? = some 1 := by
  rw [List.getD_eq_getElem?_getD]
  cases l[k]? <;> simp

theorem range7 : List.range 7 = [0, 1, 2, 3, 4, 5, 6] := by decide
theorem range4 : List.range 4 = [0, 1, 2, 3] := by decide

/-- the specification's test in `n3Line` -/
theorem occS_iff (l : List Nat) (s : Nat) :
    (decide (l.length ≥ 7) && (List.range 7).map (fun k => l.getD (s + k) 0) == [1, 0, 1, 1, 1, 0, 1]) = true
      ↔ Occ l s := by
  rw [range7]
  simp only [List.map_cons, List.map_nil, Bool.and_eq_true, decide_eq_true_eq, beq_iff_eq, List.cons.injEq,
    and_true, Nat.add_zero, getD_eq_one]
  constructor
  · rintro ⟨_, h0, h1, h2, h3, h4, h5, h6⟩
    have hlt := (List.getElem?_eq_some_iff.mp h6).1
    refine ⟨h0, ?_, h2, h3, h4, ?_, h6⟩
    · rw [List.getD_eq_getElem?_getD] at h1
      have : s + 1 < l.length := by omega
      rw [List.getElem?_eq_getElem this] at h1 ⊢
      simpa using h1
    · rw [List.getD_eq_getElem?_getD] at h5
      have : s + 5 < l.length := by omega
      rw [List.getElem?_eq_getElem this] at h5 ⊢
      simpa using h5
  · intro h
    have hlt := h.lt
    obtain ⟨h0, h1, h2, h3, h4, h5, h6⟩ := h
    refine ⟨by omega, h0, ?_, h2, h3, h4, ?_, h6⟩
    · rw [List.getD_eq_getElem?_getD, h1]; rfl
    · rw [List.getD_eq_getElem?_getD, h5]; rfl

/-- the pattern does not overlap itself at distance 1, 2 or 3 -/
theorem Occ_no_overlap {l : List Nat} {s : Nat} (h : Occ l s) :
    ¬ Occ l (s + 1) ∧ ¬ Occ l (s + 2) ∧ ¬ Occ l (s + 3) := by
  obtain ⟨h0, h1, h2, h3, h4, h5, h6⟩ := h
  refine ⟨?_, ?_, ?_⟩
  · rintro ⟨g0, _⟩; rw [h1] at g0; cases g0
  · rintro ⟨_, g1, _⟩; rw [show s + 2 + 1 = s + 3 from rfl, h3] at g1; cases g1
  · rintro ⟨_, g1, _⟩; rw [show s + 3 + 1 = s + 4 from rfl, h4] at g1; cases g1

theorem findSome_range (P : Nat → Bool) (start : Nat) (len : Nat) :
    match (List.range len).findSome? (fun k => if P (start + k) then some (start + k) else none) with
    | none => ∀ k, k < len → P (start + k) = false
    | some idx => start ≤ idx ∧ idx < start + len ∧ P idx = true ∧ ∀ s, start ≤ s → s < idx → P s = false := by
  induction len with
  | zero => simp
  | succ n ih =>
    rw [List.range_succ, List.findSome?_append]
    cases hr : (List.range n).findSome? (fun k => if P (start + k) then some (start + k) else none) with
    | none =>
      rw [hr] at ih
      simp only [List.findSome?_cons, List.findSome?_nil, Option.none_or] at ih ⊢
      by_cases hp : P (start + n) = true
      · simp only [hp, if_true]
        refine ⟨by omega, by omega, trivial, ?_⟩
        intro s h1 h2
        have := ih (s - start) (by omega)
        rwa [show start + (s - start) = s by omega] at this
      · simp only [hp]
        intro k hk
        by_cases hkn : k = n
        · subst hkn; simpa using hp
        · exact ih k (by omega)
    | some idx =>
      rw [hr] at ih
      simp only [Option.some_or]
      obtain ⟨h1, h2, h3, h4⟩ := ih
      exact ⟨h1, by omega, h3, h4⟩

theorem findPattern_eq (l : List Nat) (start : Nat) :
    Model.findPattern l start = (List.range (l.length + 1 - start - 7 + 0)).findSome?
      (fun k => if occM l (start + k) then some (start + k) else none) := rfl

theorem findPattern_none {l : List Nat} {start : Nat} (h : Model.findPattern l start = none) :
    ∀ s, start ≤ s → ¬ Occ l s := by
  have := findSome_range (occM l) start (l.length + 1 - start - 7 + 0)
  rw [findPattern_eq] at h
  rw [h] at this
  intro s hs ho
  have hlt := ho.lt
  have := this (s - start) (by omega)
  rw [show start + (s - start) = s by omega] at this
  have h2 := (occM_iff l s).mpr ho
  rw [h2] at this; cases this

theorem findPattern_some {l : List Nat} {start idx : Nat} (h : Model.findPattern l start = some idx) :
    start ≤ idx ∧ Occ l idx ∧ ∀ s, start ≤ s → s < idx → ¬ Occ l s := by
  have := findSome_range (occM l) start (l.length + 1 - start - 7 + 0)
  rw [findPattern_eq] at h
  rw [h] at this
  obtain ⟨h1, _, h3, h4⟩ := this
  refine ⟨h1, (occM_iff l idx).mp h3, ?_⟩
  intro s hs1 hs2 ho
  have h2 := (occM_iff l s).mpr ho
  rw [h4 s hs1 hs2] at h2; cases h2

def BeforeP (l : List Nat) (s : Nat) : Prop := ∀ p, s - 4 ≤ p → p < s → l.getD p 0 = 0
def AfterP (l : List Nat) (s : Nat) : Prop := ∀ p, s + 7 ≤ p → p < s + 11 → l.getD p 0 = 0

theorem anyNonZero_slice (l : List Nat) (a c : Nat) :
    Model.anyNonZero ((l.drop a).take c) = false ↔ ∀ p, a ≤ p → p < a + c → l.getD p 0 = 0 := by
  unfold Model.anyNonZero
  rw [List.any_eq_false]
  constructor
  · intro h p h1 h2
    rw [List.getD_eq_getElem?_getD]
    cases hx : l[p]? with
    | none => rfl
    | some x =>
      have hm : x ∈ (l.drop a).take c := by
        rw [List.mem_iff_getElem?]
        refine ⟨p - a, ?_⟩
        rw [List.getElem?_take, if_pos (by omega), List.getElem?_drop, show a + (p - a) = p by omega, hx]
      have := h x hm
      simpa using this
  · intro h x hm
    rw [List.mem_iff_getElem?] at hm
    obtain ⟨i, hi⟩ := hm
    rw [List.getElem?_take] at hi
    by_cases hic : i < c
    · rw [if_pos hic, List.getElem?_drop] at hi
      have := h (a + i) (by omega) (by omega)
      rw [List.getD_eq_getElem?_getD, hi] at this
      simpa using this
    · rw [if_neg hic] at hi; cases hi

theorem getD_oob (l : List Nat) (p : Nat) (h : l.length ≤ p) : l.getD p 0 = 0 := by
  rw [List.getD_eq_getElem?_getD, List.getElem?_eq_none h]; rfl

theorem modelBefore_iff (l : List Nat) (idx : Nat) (h : idx ≤ l.length) :
    (!Model.anyNonZero ((l.drop (idx - 4)).take (min idx l.length - (idx - 4)))) = true ↔ BeforeP l idx := by
  rw [Bool.not_eq_true', anyNonZero_slice]
  unfold BeforeP
  have : idx - 4 + (min idx l.length - (idx - 4)) = idx := by omega
  rw [this]

theorem modelAfter_iff (l : List Nat) (idx : Nat) (h : idx + 7 ≤ l.length) :
    (!Model.anyNonZero ((l.drop (idx + 7)).take (min (idx + 7 + 4) l.length - (idx + 7)))) = true ↔ AfterP l idx := by
  rw [Bool.not_eq_true', anyNonZero_slice]
  unfold AfterP
  have : idx + 7 + (min (idx + 7 + 4) l.length - (idx + 7)) = min (idx + 11) l.length := by omega
  rw [this]
  constructor
  · intro hh p h1 h2
    by_cases hp : p < l.length
    · exact hh p h1 (by omega)
    · exact getD_oob l p (by omega)
  · intro hh p h1 h2
    exact hh p h1 (by omega)

theorem specBefore_iff (l : List Nat) (s : Nat) :
    (List.range 4).all (fun k => Spec.at0 l ((s : Int) - 1 - k) == 0) = true ↔ BeforeP l s := by
  rw [List.all_eq_true]
  unfold BeforeP
  constructor
  · intro h p h1 h2
    have := h (s - 1 - p) (by rw [List.mem_range]; omega)
    rw [beq_iff_eq] at this
    unfold Spec.at0 at this
    rw [if_neg (by omega)] at this
    rwa [show ((s : Int) - 1 - ((s - 1 - p : Nat) : Int)).toNat = p by omega] at this
  · intro h k hk
    rw [List.mem_range] at hk
    rw [beq_iff_eq]
    unfold Spec.at0
    by_cases hneg : (s : Int) - 1 - k < 0
    · rw [if_pos hneg]
    · rw [if_neg hneg]
      exact h _ (by omega) (by omega)

theorem specAfter_iff (l : List Nat) (s : Nat) :
    (List.range 4).all (fun k => Spec.at0 l ((s : Int) + 7 + k) == 0) = true ↔ AfterP l s := by
  rw [List.all_eq_true]
  unfold AfterP
  constructor
  · intro h p h1 h2
    have := h (p - s - 7) (by rw [List.mem_range]; omega)
    rw [beq_iff_eq] at this
    unfold Spec.at0 at this
    rw [if_neg (by omega)] at this
    rwa [show ((s : Int) + 7 + ((p - s - 7 : Nat) : Int)).toNat = p by omega] at this
  · intro h k hk
    rw [List.mem_range] at hk
    rw [beq_iff_eq]
    unfold Spec.at0
    rw [if_neg (by omega)]
    exact h _ (by omega) (by omega)

/-- the model's hit condition -/
def hitM (l : List Nat) (idx : Nat) : Bool :=
  idx == 0 || idx + 7 == l.length
    || !Model.anyNonZero ((l.drop (idx - 4)).take (min idx l.length - (idx - 4)))
    || !Model.anyNonZero ((l.drop (idx + 7)).take (min (idx + 7 + 4) l.length - (idx + 7)))

theorem hitM_iff (l : List Nat) (idx : Nat) (h : idx + 7 ≤ l.length) :
    hitM l idx = true ↔ BeforeP l idx ∨ AfterP l idx := by
  unfold hitM
  rw [Bool.or_eq_true, Bool.or_eq_true, Bool.or_eq_true, modelBefore_iff l idx (by omega), modelAfter_iff l idx h,
    beq_iff_eq, beq_iff_eq]
  constructor
  · rintro (((h0 | h1) | h2) | h3)
    · left; intro p h1 h2; omega
    · right; intro p hp1 hp2; exact getD_oob l p (by omega)
    · exact Or.inl h2
    · exact Or.inr h3
  · rintro (h2 | h3)
    · exact Or.inl (Or.inr h2)
    · exact Or.inr h3

/-- Σ_{s = start}^{start+len-1} w s -/
def sumFrom (w : Nat → Nat) : Nat → Nat → Nat
  | _, 0 => 0
  | start, len + 1 => w start + sumFrom w (start + 1) len

theorem sumL_map_range' (w : Nat → Nat) (len : Nat) : ∀ a, Spec.sumL ((List.range' a len).map w) = sumFrom w a len := by
  induction len with
  | zero => intro a; rfl
  | succ n ih => intro a; rw [List.range'_succ, List.map_cons, sumL_cons, ih]; rfl

theorem sumL_map_range (w : Nat → Nat) (len : Nat) : Spec.sumL ((List.range len).map w) = sumFrom w 0 len := by
  rw [List.range_eq_range', sumL_map_range']

theorem sumFrom_zero (w : Nat → Nat) (len : Nat) : ∀ start, (∀ s, start ≤ s → s < start + len → w s = 0) →
    sumFrom w start len = 0 := by
  induction len with
  | zero => intro _ _; rfl
  | succ n ih =>
    intro start h
    rw [sumFrom, h start (by omega) (by omega), ih (start + 1) (fun s h1 h2 => h s (by omega) (by omega))]

theorem sumFrom_skip (w : Nat → Nat) (k : Nat) : ∀ start len, k ≤ len → (∀ s, start ≤ s → s < start + k → w s = 0) →
    sumFrom w start len = sumFrom w (start + k) (len - k) := by
  induction k with
  | zero => intro start len _ _; rfl
  | succ k ih =>
    intro start len hk h
    obtain ⟨len', rfl⟩ : ∃ len', len = len' + 1 := ⟨len - 1, by omega⟩
    rw [sumFrom, h start (by omega) (by omega), ih (start + 1) len' (by omega) (fun s h1 h2 => h s (by omega) (by omega))]
    rw [show start + 1 + k = start + (k + 1) by omega, show len' + 1 - (k + 1) = len' - k by omega]
    omega

/-- the summand of the specification's `n3Line` -/
def specW (l : List Nat) (s : Nat) : Nat :=
  let p := (List.range 7).map (fun k => l.getD (s + k) 0)
  if l.length ≥ 7 && p == [1, 0, 1, 1, 1, 0, 1] then
    let before := (List.range 4).all (fun k => Spec.at0 l ((s : Int) - 1 - k) == 0)
    let after := (List.range 4).all (fun k => Spec.at0 l ((s : Int) + 7 + k) == 0)
    if before || after then 40 else 0
  else 0

theorem n3Line_eq_sum (l : List Nat) : Spec.n3Line l = sumFrom (specW l) 0 (l.length - 6) := by
  rw [← sumL_map_range]; rfl

theorem specW_not_occ {l : List Nat} {s : Nat} (h : ¬ Occ l s) : specW l s = 0 := by
  unfold specW
  simp only []
  rw [if_neg]
  rw [occS_iff]; exact h

theorem specW_occ {l : List Nat} {s : Nat} (h : Occ l s) : specW l s = if hitM l s then 40 else 0 := by
  unfold specW
  simp only []
  rw [if_pos ((occS_iff l s).mpr h)]
  have : ((List.range 4).all (fun k => Spec.at0 l ((s : Int) - 1 - k) == 0)
      || (List.range 4).all (fun k => Spec.at0 l ((s : Int) + 7 + k) == 0)) = hitM l s := by
    rw [Bool.eq_iff_iff, Bool.or_eq_true, specBefore_iff, specAfter_iff, hitM_iff l s h.lt]
  rw [this]

theorem go_eq (l : List Nat) : ∀ (f start count : Nat), l.length + 1 ≤ f + start →
    Model.n3Occurrences.go l l.length f (Model.findPattern l start) count
      = count + sumFrom (specW l) start (l.length - 6 - start) := by
  intro f
  induction f with
  | zero =>
    intro start count h
    rw [Model.n3Occurrences.go.eq_1, show l.length - 6 - start = 0 by omega]; rfl
  | succ f ih =>
    intro start count h
    cases hfp : Model.findPattern l start with
    | none =>
      rw [Model.n3Occurrences.go.eq_2 _ _ _ _ (by omega)]
      rw [sumFrom_zero]
      · rfl
      · intro s h1 _; exact specW_not_occ (findPattern_none hfp s h1)
    | some idx =>
      obtain ⟨h1, hocc, hno⟩ := findPattern_some hfp
      have hlt := hocc.lt
      rw [Model.n3Occurrences.go.eq_3]
      have hhit : (idx == 0 || idx + 7 == l.length ||
                !Model.anyNonZero (List.take (min idx l.length - (idx - 4)) (List.drop (idx - 4) l)) ||
              !Model.anyNonZero (List.take (min (idx + 7 + 4) l.length - (idx + 7)) (List.drop (idx + 7) l)))
            = hitM l idx := rfl
      rw [hhit, ih (idx + 4) _ (by omega)]
      -- the specification's sum: nothing before idx, w idx, nothing at idx+1..idx+3
      rw [sumFrom_skip (specW l) (idx - start) start (l.length - 6 - start) (by omega)
        (fun s h1 h2 => specW_not_occ (hno s h1 (by omega)))]
      rw [show start + (idx - start) = idx by omega]
      obtain ⟨len', hlen'⟩ : ∃ len', l.length - 6 - start - (idx - start) = len' + 1 := ⟨l.length - 7 - idx, by omega⟩
      rw [hlen', sumFrom, specW_occ hocc]
      obtain ⟨n1, n2, n3⟩ := Occ_no_overlap hocc
      by_cases h3 : 3 ≤ len'
      · rw [sumFrom_skip (specW l) 3 (idx + 1) len' h3 (fun s h1 h2 => by
          have : s = idx + 1 ∨ s = idx + 2 ∨ s = idx + 3 := by omega
          rcases this with rfl | rfl | rfl
          · exact specW_not_occ n1
          · exact specW_not_occ n2
          · exact specW_not_occ n3)]
        rw [show idx + 1 + 3 = idx + 4 by omega, show l.length - 6 - (idx + 4) = len' - 3 by omega]
        split <;> omega
      · rw [sumFrom_zero (specW l) len' (idx + 1) (fun s h1 h2 => by
          have : s = idx + 1 ∨ s = idx + 2 ∨ s = idx + 3 := by omega
          rcases this with rfl | rfl | rfl
          · exact specW_not_occ n1
          · exact specW_not_occ n2
          · exact specW_not_occ n3)]
        rw [show l.length - 6 - (idx + 4) = 0 by omega]
        simp only [sumFrom]
        split <;> omega

theorem n3_eq (l : List Nat) : Model.n3Occurrences l = Spec.n3Line l := by
  rw [n3Line_eq_sum]
  unfold Model.n3Occurrences
  simp only []
  rw [go_eq l (l.length + 1) 0 0 (by omega)]
  simp

/-- QR: the model's mask score is the ISO 7.8.3.1 penalty (for square matrices; no restriction on module values) -/
theorem score_eq (m : Model.Matrix) (hs : ∀ i, i < m.size → (m.getD i #[]).size = m.size) :
    Model.evaluateMask m = Spec.penaltyQR m :=
  score_eq_of_n3 m hs n3_eq

end Proofs.Mask
