/-
  Proofs.C14SerDefs — the vocabulary of Props/C14Serializers.lean (definitions only, no Mathlib):

    * `SymbolShaped`      : what a matrix handed to a serialiser looks like (a square 0 / 1 matrix of one of the 44 symbol sizes
                            with at least one dark module);
    * `Ty`, `hasType`, `optTypes`, `DocumentedSer` : the DOCUMENTED option domain of every serialiser, keyword by keyword
                            (docstring of `QRCode.save`, segno/__init__.py), over tagged Python values `Gen.PyV`;
    * `val`, `numV`, `colV`, … : the obvious typed reading of a keyword map, `serRead` : the typed document model each
                            serialiser call amounts to (the table that `ser_eq_read` proves);
    * `Malformed`         : the refusals the documentation names, per kind (the table of `serializer_refuses_exactly`);
    * outcome predicates.
-/
import Model.RoutesVec
import Proofs.ColourGrammar
import Spec.Geometry

namespace Proofs.C14Ser
open Gen (PyV)
open Model Model.Cli Model.Routes Model.RoutesDocs Model.RoutesVec Model.RasterDocs

/-! ### the matrix -/

/-- a matrix as `QRCode.matrix` holds it: square, of the size of one of the 44 versions (M1 … M4, 1 … 40), rows of 0 / 1
    values, at least one dark module (every symbol has finder patterns) -/
structure SymbolShaped (M : List (List Nat)) (w h : Nat) : Prop where
  square : h = w
  size : ∃ v : Int, -3 ≤ v ∧ v ≤ 40 ∧ w = Spec.size v
  rows : M.length = h
  cols : ∀ r ∈ M, r.length = w
  bits : ∀ r ∈ M, ∀ x ∈ r, x ≤ 1
  dark : ∃ r ∈ M, ∃ x ∈ r, x ≠ 0

/-! ### documented value types -/

/-- the documented types of serialiser options -/
inductive Ty where
  /-- "Integer or float indicating the size of a single module" -/
  | scale
  /-- "Integer indicating the size of the quiet zone", `None` = default; a float that is negative or has a fractional part
      belongs to the domain as a value that must be REFUSED ("negative or fractional borders"); a float with an integral
      value ≥ 0 (`border=2.0`) does not belong to it (finding: TypeError / struct.error in the raster writers) -/
  | border
  /-- `None`, a string (colour name or hexadecimal notation), a tuple of ints, `(r, g, b, <float alpha>)` -/
  | colour
  /-- a module colour: `False` = undefined (use dark / light), else a colour -/
  | typeColour
  | flag            -- a `bool`
  | text            -- a `str`
  | optText         -- `None` or a `str`
  /-- `compresslevel`: "1 is fastest … 9 is slowest … 0 is no compression" -/
  | level
  /-- `dpi`: `None` or an int -/
  | dpi
  /-- `svgversion`: `None` or a number ("If specified (a float)") -/
  | svgversion
  /-- `dark` / `light` of `write_txt`: a `str` (printed as it is); `None` — what the command line hands over for "transparent" —
      is printed as `str(None)` -/
  | txtText
  deriving DecidableEq, Repr

/-- a colour VALUE of the documented types (well-formed or not) that the keyword universe can express: tuples travel as
    `PyV.other "t:r,g,b[,…]"` (non-negative ints, any length) / `"f:r,g,b,permille"` (float alpha in 1/1000) -/
def isColour : PyV → Bool
  | .none => true
  | .str _ => true
  | .other t => (tupleColor t).isSome
  | _ => false

def hasType : Ty → PyV → Bool
  | .scale, v => isNumber v
  | .border, .none => true
  | .border, .int _ => true
  | .border, v => refusedFloat v
  | .colour, v => isColour v
  | .typeColour, .bool false => true
  | .typeColour, v => isColour v
  | .flag, .bool _ => true
  | .flag, _ => false
  | .text, .str _ => true
  | .text, _ => false
  | .optText, .none => true
  | .optText, .str _ => true
  | .optText, _ => false
  | .level, .int i => decide (0 ≤ i ∧ i ≤ 9)
  | .level, _ => false
  | .dpi, .none => true
  | .dpi, .int _ => true
  | .dpi, _ => false
  | .svgversion, .none => true
  | .svgversion, .int _ => true
  | .svgversion, .float _ d => d != 0
  | .svgversion, _ => false
  | .txtText, .none => true
  | .txtText, .str _ => true
  | .txtText, _ => false

def moduleColours : List String :=
  ["finder_dark", "finder_light", "data_dark", "data_light", "version_dark", "version_light", "format_dark", "format_light",
   "alignment_dark", "alignment_light", "timing_dark", "timing_light", "separator", "dark_module", "quiet_zone"]

def colourOpts : List (String × Ty) := [("dark", .colour), ("light", .colour)] ++ moduleColours.map (fun k => (k, .typeColour))

/-- the serialisers: the twelve keys of `writers._VALID_SERIALIZERS` and `compact` (`write_terminal_compact`) -/
def kinds : List String := ["svg", "png", "eps", "txt", "pdf", "ans", "pbm", "pam", "ppm", "tex", "xbm", "xpm", "compact"]

/-- keyword options of every serialiser with their documented types (docstring of `QRCode.save`) -/
def optTypes (key : String) : List (String × Ty) :=
  if key == "svg" then
    colourOpts ++ [("scale", .scale), ("border", .border), ("xmldecl", .flag), ("svgns", .flag), ("title", .optText), ("desc", .optText),
      ("svgid", .optText), ("svgclass", .optText), ("lineclass", .optText), ("omitsize", .flag), ("unit", .optText), ("encoding", .text),
      ("svgversion", .svgversion), ("nl", .flag), ("draw_transparent", .flag)]
  else if key == "png" then colourOpts ++ [("scale", .scale), ("border", .border), ("compresslevel", .level), ("dpi", .dpi)]
  else if key == "eps" then [("scale", .scale), ("border", .border), ("dark", .colour), ("light", .colour)]
  else if key == "txt" then [("border", .border), ("dark", .txtText), ("light", .txtText)]
  else if key == "pdf" then [("scale", .scale), ("border", .border), ("dark", .colour), ("light", .colour), ("compresslevel", .level)]
  else if key == "ans" then [("border", .border)]
  else if key == "compact" then [("border", .border)]
  else if key == "pbm" then [("scale", .scale), ("border", .border), ("plain", .flag)]
  else if key == "pam" then [("scale", .scale), ("border", .border), ("dark", .colour), ("light", .colour)]
  else if key == "ppm" then colourOpts ++ [("scale", .scale), ("border", .border)]
  else if key == "tex" then [("scale", .scale), ("border", .border), ("dark", .optText), ("unit", .text), ("url", .optText)]
  else if key == "xbm" then [("scale", .scale), ("border", .border), ("name", .text)]
  else if key == "xpm" then [("scale", .scale), ("border", .border), ("dark", .colour), ("light", .colour), ("name", .text)]
  else []

/-- **the documented option domain**: `key` is a serialiser, every keyword of the call is an option of that serialiser and
    its value has the documented type (the value itself may be malformed: scale 0, border -1, colour "#12" …) -/
def DocumentedSer (key : String) (kw : Config) : Prop :=
  key ∈ kinds ∧ ∀ e ∈ kw, (optTypes key).any (fun p => p.1 == e.1 && hasType p.2 e.2) = true

instance (key : String) (kw : Config) : Decidable (DocumentedSer key kw) := by
  unfold DocumentedSer; exact inferInstance

/-! ### the typed reading of a keyword map -/

/-- the value parameter `k` receives: the keyword if given, else the default of the signature (Gen.Sigs) -/
def val (key : String) (kw : Config) (k : String) : PyV :=
  (cget kw k).getD (((serializerDefaults key).getD []).find? (·.1 == k) |>.map (·.2) |>.getD .none)

/-- the keyword map completed with the defaults (what `completeKw` returns) -/
def completed (key : String) (kw : Config) : Config :=
  ((serializerDefaults key).getD []).map (fun d => (d.1, (cget kw d.1).getD d.2))

/-- a number as the raster writers see it (`int(scale)`, `check_valid_border`) -/
def numV : PyV → Num
  | .int i => .int i
  | .float n d => .float (decide (n < 0)) (n.natAbs / d) (decide (n.natAbs % d ≠ 0))
  | _ => .int 1

def optNumV : PyV → Option Num
  | .none => none
  | v => some (numV v)

def colV (v : PyV) : ColorArg := (colorOf v).getD .none

def typeColV : PyV → Option ColorArg
  | .bool false => none
  | v => some (colV v)

def typeOptsV (v : String → PyV) : TypeOpts ColorArg :=
  { finder_dark := typeColV (v "finder_dark"), finder_light := typeColV (v "finder_light"),
    data_dark := typeColV (v "data_dark"), data_light := typeColV (v "data_light"),
    version_dark := typeColV (v "version_dark"), version_light := typeColV (v "version_light"),
    format_dark := typeColV (v "format_dark"), format_light := typeColV (v "format_light"),
    alignment_dark := typeColV (v "alignment_dark"), alignment_light := typeColV (v "alignment_light"),
    timing_dark := typeColV (v "timing_dark"), timing_light := typeColV (v "timing_light"),
    separator := typeColV (v "separator"), dark_module := typeColV (v "dark_module"), quiet_zone := typeColV (v "quiet_zone") }

def flagV : PyV → Bool
  | .bool b => b
  | _ => false

def strV : PyV → String
  | .str s => s
  | _ => ""

/-- `str(x)` of the `dark` / `light` arguments of `write_txt` -/
def txtV (v : PyV) : List Char := (txtStrOf v).getD []

def optStrV : PyV → Option String
  | .str s => some s
  | _ => none

/-- `None` or an `int` border (vector writers) -/
def intBorderV : PyV → Option Int
  | .int i => some i
  | _ => none

def scaleV (svc : Services) (v : PyV) : Svg.Scale := (svgScaleOf svc v).getD (.int 1)

def svgVersionV (svc : Services) (v : PyV) : Option Svg.SvgVersion := (svgVersionOf svc v).getD none

def dpiV (svc : Services) (v : PyV) : Option Dpi := (dpiOf svc v).getD none

def levelV : PyV → Int
  | .int i => i
  | _ => 9

/-- the options of `write_svg` -/
def svgOptsV (svc : Services) (w h : Nat) (v : String → PyV) : Svg.Opts :=
  let t := sizeTexts svc w h (intBorderV (v "border")) (v "scale")
  { scale := scaleV svc (v "scale"), border := intBorderV (v "border"), xmldecl := flagV (v "xmldecl"), svgns := flagV (v "svgns"),
    title := optStrV (v "title"), desc := optStrV (v "desc"), svgid := optStrV (v "svgid"), svgclass := optStrV (v "svgclass"),
    lineclass := optStrV (v "lineclass"), omitsize := flagV (v "omitsize"), unit := optStrV (v "unit"), encoding := optStrV (v "encoding"),
    svgversion := svgVersionV svc (v "svgversion"), nl := flagV (v "nl"), drawTransparent := flagV (v "draw_transparent"),
    widthText := t.1, heightText := t.2 }

def epsOptsV (svc : Services) (vs : VecServices) (w h : Nat) (v : String → PyV) : VectorDocs.EpsOpts :=
  let t := sizeTexts svc w h (intBorderV (v "border")) (v "scale")
  { scale := scaleV svc (v "scale"), border := intBorderV (v "border"), dark := .arg (colV (v "dark")), light := .arg (colV (v "light")),
    date := vs.epsDate, widthText := t.1, heightText := t.2 }

def pdfOptsV (svc : Services) (vs : VecServices) (w h : Nat) (v : String → PyV) : VectorDocs.PdfOpts :=
  let t := sizeTexts svc w h (intBorderV (v "border")) (v "scale")
  { scale := scaleV svc (v "scale"), border := intBorderV (v "border"), dark := .arg (colV (v "dark")), light := .arg (colV (v "light")),
    date := vs.pdfDate, widthText := t.1, heightText := t.2, chan := vs.chan }

def texOptsV (svc : Services) (vs : VecServices) (v : String → PyV) : Tex.Opts :=
  { scale := scaleV svc (v "scale"), border := intBorderV (v "border"), dark := optStrV (v "dark"), unit := strV (v "unit"),
    url := optStrV (v "url"), date := vs.texDate,
    mul := match v "scale" with
      | .float n d => fun k => svc.mulStr k n d
      | _ => fun _ => "" }

/-- the compressed IDAT payload: `zlib.compress(<scanlines>, compresslevel)` (service `deflate`) -/
def pngCompV (svc : Services) (M : List (List Nat)) (w h : Nat) (v : String → PyV) : List Nat :=
  match savePng svc.setOrder M w h (some (colV (v "dark"))) (some (colV (v "light"))) (typeOptsV v) (numV (v "scale")) (optNumV (v "border")) with
  | .ok out => svc.deflate (levelV (v "compresslevel")) out.idat
  | .error _ => []

/-- the whole PNG file of the request (`none` = `struct.error`: a value does not fit a 32-bit field) -/
def pngFileV (svc : Services) (M : List (List Nat)) (w h : Nat) (v : String → PyV) : R (Option (List Nat)) :=
  savePngFile svc.setOrder M w h (some (colV (v "dark"))) (some (colV (v "light"))) (typeOptsV v) (numV (v "scale")) (optNumV (v "border"))
    (dpiV svc (v "dpi")) (pngCompV svc M w h v)

/-- **what a serialiser call amounts to**: the typed whole-document model applied to the values read from the keyword map.
    A refused float border makes the four vector writers raise ValueError in their first statements. -/
def serRead (svc : Services) (vs : VecServices) (M : List (List Nat)) (w h : Nat) (rest : String → Config → R SerOut)
    (key : String) (kw : Config) : R SerOut :=
  let v := val key kw
  if key == "pbm" then bytesOut (pbmDoc M w h (numV (v "scale")) (optNumV (v "border")) (flagV (v "plain")))
  else if key == "ppm" then
    bytesOut (savePpm M w h (some (colV (v "dark"))) (some (colV (v "light"))) (typeOptsV v) (numV (v "scale")) (optNumV (v "border")))
  else if key == "pam" then
    bytesOut (pamDoc M w h (numV (v "scale")) (optNumV (v "border")) (some (colV (v "dark"))) (some (colV (v "light"))))
  else if key == "xbm" then textOut (xbmDoc M w h (numV (v "scale")) (optNumV (v "border")) (strV (v "name")).toList)
  else if key == "xpm" then
    textOut (xpmDoc M w h (numV (v "scale")) (optNumV (v "border")) (some (colV (v "dark"))) (some (colV (v "light"))) (strV (v "name")).toList)
  else if key == "txt" then textOut (txtDoc M w h (optNumV (v "border")) (txtV (v "dark")) (txtV (v "light")))
  else if key == "ans" then textOut (ansiDoc M w h (optNumV (v "border")))
  else if key == "compact" then textOut (compactDoc M w h (optNumV (v "border")))
  else if key == "png" then
    match pngFileV svc M w h v with
    | .error e => .error e
    | .ok (some bs) => .ok (.bytes bs)
    | .ok none => rest "png" (completed "png" kw)
  else if key == "svg" then
    if refusedFloat (v "border") then .error .valueError
    else svgDoc M w h { dark := colV (v "dark"), light := colV (v "light"), to := typeOptsV v, o := svgOptsV svc w h v }
  else if key == "eps" then
    if refusedFloat (v "border") then .error .valueError
    else (VectorDocs.writeEps M w h (epsOptsV svc vs w h v)).map (fun s => .text s.toList none)
  else if key == "pdf" then
    if refusedFloat (v "border") then .error .valueError
    else (VectorDocs.pdfContent M w h (pdfOptsV svc vs w h v)).map (fun p =>
      .bytes (VectorDocs.pdfFile p (svc.deflate (levelV (v "compresslevel")) (VectorDocs.asciiBytes p.content)) vs.pdfDate))
  else if key == "tex" then
    if refusedFloat (v "border") then .error .valueError
    else (Tex.writeTex M w h (texOptsV svc vs v)).map (fun s => .text s.toList none)
  else .error .keyError

/-! ### the refusals the documentation names -/

/-- `int(scale) <= 0`: the raster writers convert the scale to an int first ("note: int(1.6) == 1") -/
def scaleRefusedRaster (v : PyV) : Bool := decide ((numV v).toInt ≤ 0)

/-- `scale <= 0` (writers that accept a float scale) -/
def scaleRefusedVector : PyV → Bool
  | .int i => decide (i ≤ 0)
  | .float n _ => decide (n ≤ 0)
  | _ => false

/-- a negative or fractional border -/
def borderRefused : PyV → Bool
  | .int i => decide (i < 0)
  | v => refusedFloat v

/-- a negative `dpi` -/
def dpiNegative : PyV → Bool
  | .int i => decide (i < 0)
  | _ => false

/-- the colour does not match the documented grammar (`Props.C14.specMeaning`: CSS3 colour name in any letter case, #RGB, #RGBA,
    #RRGGBB, #RRGGBBAA with optional #, 3- or 4-tuple of 8-bit values, float alpha in 0 … 1); `None` is well-formed -/
def malformed (c : ColorArg) : Bool := (Proofs.ColourGrammar.meaning c).isNone

/-- a well-formed colour without transparency, as the writers without alpha channel judge it (`_color_to_rgb`): no alpha value,
    or one that prints as 1.0 with two decimals — the ints 254 and 255, the float 1.0 (quirk: 254 counts as opaqueCol) -/
def opaqueCol (c : ColorArg) : Bool :=
  match Proofs.ColourGrammar.meaning c with
  | some (.exact x) => decide (254 ≤ x.a)
  | some (.approx _ _ _ k) => k == 1000
  | _ => false

/-- the effective border of a request: given, or the default of the symbol size -/
def borderNat (w h : Nat) : PyV → Nat
  | .int i => i.toNat
  | _ => (Gen.get_default_border_size w h).toNat

/-- the colour objects that get a `<path>` in the SVG document (the keys of `coordinates` when the paths are written):
    two colours — the dark colour and, unless it is `None` or equal to the dark colour AS A PYTHON VALUE, the colour of the quiet
    zone; several colours — the first object of every class of equal values among the colours of the modules that occur;
    `None` is removed unless `draw_transparent` -/
def svgPainted (M : List (List Nat)) (w h : Nat) (cm : List (Nat × ColorArg)) (drawTransparent : Bool) (b : Nat) : List ColorArg :=
  let qz := (cmGet cm Gen.TYPE_QUIET_ZONE).getD .none
  let multi := Svg.isMulticolor cm
  let needBg := !multi && qz != .none
  let lines := if multi then (match Svg.colorfulLines M w h b cm with | .ok l => l | .error _ => [])
    else Svg.plainLines M b ((cmGet cm Gen.TYPE_DATA_DARK).getD .none)
  let coords := Svg.accumulate Svg.pyKey lines
  let coords := if needBg then Svg.dictSet Svg.pyKey coords qz [(0, 0, ((w + 2 * b : Nat) : Int))] else coords
  let coords := if !drawTransparent then Svg.dictDel Svg.pyKey coords .none else coords
  coords.map (·.obj)

/-- **the refusal table**: what the documentation says a serialiser refuses, for a request of the documented types -/
def Malformed (M : List (List Nat)) (w h : Nat) (key : String) (kw : Config) : Prop :=
  let v := val key kw
  let dark := colV (v "dark")
  let light := colV (v "light")
  let rasterSB := scaleRefusedRaster (v "scale") = true ∨ borderRefused (v "border") = true
  let vectorSB := scaleRefusedVector (v "scale") = true ∨ borderRefused (v "border") = true
  if key == "pbm" ∨ key == "xbm" then rasterSB
  else if key == "txt" ∨ key == "ans" ∨ key == "compact" then borderRefused (v "border") = true
  else if key == "pam" then rasterSB ∨ dark = .none ∨ malformed dark = true ∨ malformed light = true
  else if key == "xpm" then rasterSB ∨ (dark ≠ .none ∧ opaqueCol dark = false) ∨ (light ≠ .none ∧ opaqueCol light = false)
  else if key == "ppm" then rasterSB ∨ ∃ e ∈ makeColormap w h dark light (typeOptsV v), opaqueCol e.2 = false
  else if key == "png" then
    rasterSB ∨ dpiNegative (v "dpi") = true ∨ ∃ e ∈ makeColormap w h dark light (typeOptsV v), malformed e.2 = true
  else if key == "eps" ∨ key == "pdf" then
    vectorSB ∨ (Svg.isBlack dark = false ∧ opaqueCol dark = false) ∨ (light ≠ .none ∧ opaqueCol light = false)
  else if key == "tex" then vectorSB
  else if key == "svg" then
    vectorSB ∨ (optStrV (v "unit") ≠ none ∧ optStrV (v "unit") ≠ some "" ∧ flagV (v "omitsize") = true)
      ∨ ∃ c ∈ svgPainted M w h (makeColormap w h dark light (typeOptsV v)) (flagV (v "draw_transparent")) (borderNat w h (v "border")),
          c ≠ .none ∧ malformed c = true
  else False

instance (M : List (List Nat)) (w h : Nat) (key : String) (kw : Config) : Decidable (Malformed M w h key kw) := by
  unfold Malformed; dsimp only; exact inferInstance

/-! ### the same conditions on the typed arguments of the document models -/

/-- a border of the documented domain as the raster models see it: absent, an `int`, or a float that is fractional or negative -/
def BorderOK (border : Option Num) : Prop :=
  ∀ x, border = some x → (∃ i, x = .int i) ∨ x.isFractional = true ∨ x.isNegative = true

/-- `scale <= 0` for the writers that accept a float scale -/
def scaleBad : Svg.Scale → Bool
  | .int i => decide (i ≤ 0)
  | .float _ pos _ => !pos

/-- `border < 0` for an `int` border -/
def borderBad : Option Int → Bool
  | some i => decide (i < 0)
  | none => false

/-- a negative `dpi` (`if dpi: … if dpi < 0: raise ValueError`) -/
def dpiBad : Option Dpi → Bool
  | some d => d.truthy && decide (d.int < 0)
  | none => false

/-- the size of a symbol -/
def SymbolSize (w : Nat) : Prop := ∃ v : Int, -3 ≤ v ∧ v ≤ 40 ∧ w = Spec.size v

/-! ### outcomes -/

/-- the value fits the 32-bit fields of the PNG container (`struct.pack('>I', …)`): width, height, pixels per metre, chunk lengths.
    Not a property of the argument types: `dpi=200000000` ends in `struct.error` in the real code as well. -/
def PngFits (svc : Services) (M : List (List Nat)) (w h : Nat) (kw : Config) : Prop :=
  pngFileV svc M w h (val "png" kw) ≠ .ok none

/-- a serialiser call ends in a document or in ValueError -/
def Clean {α : Type} (r : R α) : Prop := (∃ x, r = .ok x) ∨ r = .error .valueError

end Proofs.C14Ser
