/-
  Proofs.Geometry — assembles the kernel-checked per-version facts of Proofs/Geometry{A,B,C,D,S}.lean
  into statements for every version −3 ≤ v ≤ 40.
-/
import Proofs.Placement2
import Proofs.GeometryS
import Proofs.GeometryA
import Proofs.GeometryB
import Proofs.GeometryC
import Proofs.GeometryD

namespace Proofs.Placement2

theorem allVersions_split :
    allVersions = versionsA ++ versionsB ++ versionsC ++ versionsD := by decide

theorem geom_all : allVersions.all geomOK = true := by
  rw [allVersions_split]
  simp only [List.all_append, geomA, geomB, geomC, geomD, Bool.and_self]

theorem geom_ok (v : Int) (h1 : -3 ≤ v) (h2 : v ≤ 40) : geomOK v = true :=
  List.all_eq_true.mp geom_all v (mem_allVersions v h1 h2)

/-- rows of the function matrix = ISO skeleton, every version -/
theorem functionMatrix_rows_all (v : Int) (h1 : -3 ≤ v) (h2 : v ≤ 40) :
    (Model.functionMatrix (Spec.size v)).map toRows = .ok (skelRows 1 v) :=
  functionMatrix_rows v (geom_rows v (geom_ok v h1 h2))

theorem order_all (v : Int) (h1 : -3 ≤ v) (h2 : v ≤ 40) :
    Model.codewordCoords (Spec.size v) v = zz (Spec.stripColumns v) (Spec.size v) :=
  order_of_ok v (strips_ok v h1 h2).1

theorem visits_all (v : Int) (h1 : -3 ≤ v) (h2 : v ≤ 40) :
    (zz (Spec.stripColumns v) (Spec.size v)).Nodup ∧
      ∀ p ∈ zz (Spec.stripColumns v) (Spec.size v), p.1 < Spec.size v ∧ p.2 < Spec.size v :=
  zigzag_nodup_range v (strips_ok v h1 h2).2

theorem count_all (v : Int) (lvl : Int) (ecc : List (Nat × Nat × Nat)) (h1 : -3 ≤ v) (h2 : v ≤ 40)
    (hecc : Spec.eccOf v lvl = some ecc) :
    (Spec.dataCoords v).length + (if Spec.fourBitFinal v then 4 else 0)
      = 8 * (ecc.map (fun b => b.1 * b.2.1)).foldl (· + ·) 0 + Spec.remainderBits v :=
  geom_count v (geom_ok v h1 h2) (strips_ok v h1 h2).2 lvl ecc hecc

theorem roundtrip_all (v : Int) (bits : List Nat) (fm m0 m1 : Model.Matrix) (mk : Nat)
    (h1 : -3 ≤ v) (h2 : v ≤ 40) (hb : ∀ b ∈ bits, b ≤ 1)
    (hlen : bits.length = (Spec.dataCoords v).length)
    (hfm : Model.functionMatrix (Spec.size v) = .ok fm)
    (hm0 : Model.addAlignmentPatterns (Model.addFinderPatterns (Model.makeMatrix (Spec.size v)) (Spec.size v)) (Spec.size v) = .ok m0)
    (hm1 : Model.addCodewords m0 bits v = .ok m1)
    (hmk : mk < (Model.maskPatterns (decide (v < 1))).length) :
    Spec.readDataBits v mk (Model.applyMask m1 fm ((Model.maskPatterns (decide (v < 1))).getD mk 0)) = bits :=
  roundtrip_core v bits fm m0 m1 mk (geom_rows v (geom_ok v h1 h2)) (strips_ok v h1 h2).1 (strips_ok v h1 h2).2
    hb hlen hfm hm0 hm1 hmk

theorem readDataBits_congr (v : Int) (mk : Nat) (a b : Model.Matrix)
    (h : ∀ i j, Spec.kind v i j = .data → Spec.cell a i j = Spec.cell b i j) :
    Spec.readDataBits v mk a = Spec.readDataBits v mk b := by
  unfold Spec.readDataBits
  apply List.map_congr_left
  intro p hp
  rw [dataCoords_eq] at hp
  have := (List.mem_filter.mp hp).2
  unfold Spec.isData at this
  rw [h p.1 p.2 (by simpa using this)]

end Proofs.Placement2
