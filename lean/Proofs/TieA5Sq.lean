/-
  Tie A, round 5 — the matrices along the pipeline of `_encode` stay n × n (`Sq`, the side condition of the ties of rounds 2 – 4):
  after `addCodewords`, `findAndApplyBestMask`, `addFormatInfo`.
-/
import Proofs.TieA3Best
import Proofs.Placement2
import Mathlib.Tactic.SplitIfs

set_option linter.unusedSimpArgs false
set_option linter.unusedVariables false

namespace Proofs.TieA5
open Gen.Py Proofs.TieA Proofs.TieA2 Proofs.TieA3 Model

theorem sq_placeStep {n : Nat} (l : List (Nat × Nat)) :
    ∀ (acc : Matrix × List Nat), Sq acc.1 n → Sq (l.foldl Proofs.Placement2.placeStep acc).1 n := by
  induction l with
  | nil => intro acc h; exact h
  | cons p ps ih =>
    intro acc h
    apply ih
    unfold Proofs.Placement2.placeStep
    split
    · exact h
    · split
      · exact sq_set2 h _ _ _
      · exact h

theorem sq_addCodewords {m m' : Matrix} {n : Nat} (bits : List Nat) (v : Int) (hs : Sq m n)
    (h : Model.addCodewords m bits v = .ok m') : Sq m' n := by
  rw [Proofs.Placement2.addCodewords_eq] at h
  simp only [] at h
  split at h
  · cases h
    exact sq_placeStep _ (m, bits) hs
  · cases h

theorem sq_addFormatInfo {m m' : Matrix} {n : Nat} (v : Int) (e : Option Nat) (mask : Nat) (hs : Sq m n)
    (h : Model.addFormatInfo m v e mask = .ok m') : Sq m' n := by
  unfold Model.addFormatInfo at h
  cases hfi : Model.calcFormatInfo v e mask with
  | error x => simp [hfi, Bind.bind, Except.bind] at h
  | ok fi =>
    simp only [hfi, Bind.bind, Except.bind, Pure.pure, Except.pure, Except.ok.injEq] at h
    rw [← h]
    by_cases hv : v < 1
    · simp only [hv, decide_true, Bool.not_true, Bool.false_eq_true, if_false, Bool.false_and]
      refine sq_foldl_any _ (fun t x ht => ?_) (List.range 8) m hs
      exact sq_set2 (sq_set2 ht _ _ _) _ _ _
    · simp only [hv, decide_false, Bool.not_false, if_true, Bool.true_and]
      apply sq_set2
      refine sq_foldl_any _ (fun t x ht => ?_) (List.range 8) m hs
      exact sq_set2 (sq_set2 (sq_set2 (sq_set2 ht _ _ _) _ _ _) _ _ _) _ _ _

theorem sq_fold_gen {α : Type} {n : Nat} (step : Option (Nat × Nat × Matrix) → α → Option (Nat × Nat × Matrix))
    (hstep : ∀ best a, (∀ x, best = some x → Sq x.2.2 n) → ∀ x, step best a = some x → Sq x.2.2 n) (l : List α) :
    ∀ (best : Option (Nat × Nat × Matrix)), (∀ x, best = some x → Sq x.2.2 n) →
      ∀ x, l.foldl step best = some x → Sq x.2.2 n := by
  induction l with
  | nil => intro best hb x hx; exact hb x hx
  | cons p ps ih => intro best hb; exact ih _ (hstep best p hb)

theorem sq_findAndApplyBestMask {m : Matrix} {n : Nat} (proposed : Option Nat) (r : Nat × Matrix) (hs : Sq m n)
    (h : Model.findAndApplyBestMask m proposed = .ok r) : Sq r.2 n := by
  unfold Model.findAndApplyBestMask at h
  cases hfm : Model.functionMatrix m.size with
  | error x => simp [hfm, Bind.bind, Except.bind] at h
  | ok fm =>
    simp only [hfm, Bind.bind, Except.bind, Pure.pure, Except.pure] at h
    cases proposed with
    | some p =>
      simp only [] at h
      split at h
      · rw [← Except.ok.inj h]; exact sq_applyMask fm _ hs
      · cases h
    | none =>
      simp only [] at h
      split at h
      · rename_i sc k bm hbest
        rw [← Except.ok.inj h]
        refine sq_fold_gen _ ?_ _ none (fun x hx => by cases hx) (sc, k, bm) hbest
        intro best a hb x hx
        cases best with
        | none => simp only [Option.some.injEq] at hx; rw [← hx]; exact sq_applyMask fm _ hs
        | some b =>
          obtain ⟨bs, bk, bm'⟩ := b
          simp only [] at hx
          split_ifs at hx
          all_goals first
            | (simp only [Option.some.injEq] at hx; rw [← hx]; exact sq_applyMask fm _ hs)
            | (simp only [Option.some.injEq] at hx; rw [← hx]; exact hb _ rfl)
      · cases h

end Proofs.TieA5
