/-
  Tie A, round 6 — helpers for `Props.TieA6`: the regenerated `Segments.add_segment` (`Gen/Funcs6.lean`, a function from the
  state triple (segments, bit_length, modes) and a segment to the new triple) against `Model.addSegment`.
-/
import Gen.Funcs6
import Proofs.TieA2Matrix
import Model.Encoder

namespace Proofs.TieA6
open Gen.Py Proofs.TieA2 Model

/-- a segment as the translation sees it: `_Segment(bits, char_count, mode, encoding)` -/
abbrev Seg := List Int × Int × Int × Option String

/-- the state of a `Segments` object as the translation sees it: (`segments`, `bit_length`, `modes`) -/
abbrev State := List Seg × Int × List Int

def segT (s : Segment) : Seg := (toI s.bits, (s.charCount : Int), (s.mode : Int), s.encoding)

/-- Σ |bits| -/
def bitSum (ss : List Seg) : Int := (ss.map (fun s => (s.1.length : Int))).sum

/-- the class invariant of `Segments`: `bit_length` is the sum of the lengths of the bit strings, `modes` lists the modes -/
def StateInv (st : State) : Prop := st.2.1 = bitSum st.1 ∧ st.2.2 = st.1.map (fun s => s.2.2.1)

/-- the state that belongs to a list of segments -/
def stateOf (ss : List Seg) : State := (ss, bitSum ss, ss.map (fun s => s.2.2.1))

theorem stateInv_stateOf (ss : List Seg) : StateInv (stateOf ss) := ⟨rfl, rfl⟩

theorem stateInv_iff (st : State) : StateInv st ↔ st = stateOf st.1 := by
  obtain ⟨a, b, c⟩ := st
  constructor
  · rintro ⟨h1, h2⟩
    simp only at h1 h2
    subst h1 h2
    rfl
  · intro h
    rw [h]
    exact stateInv_stateOf _

theorem bitSum_append (a b : List Seg) : bitSum (a ++ b) = bitSum a + bitSum b := by
  simp [bitSum, List.sum_append]

theorem bitSum_nil : bitSum [] = 0 := rfl

theorem bitSum_cons (s : Seg) (t : List Seg) : bitSum (s :: t) = (s.1.length : Int) + bitSum t := by simp [bitSum]

theorem bitSum_single (s : Seg) : bitSum [s] = (s.1.length : Int) := by simp [bitSum]

theorem index_last {α : Type} (init : List α) (x : α) : Gen.Py.index (init ++ [x]) (-1 : Int) = .ok x := by
  unfold Gen.Py.index
  have hlen : ((init ++ [x]).length : Int) = (init.length : Int) + 1 := by simp
  simp only [hlen]
  rw [if_neg (by omega), if_pos (by omega)]
  have : ((init.length : Int) + 1 + -1).toNat = init.length := by omega
  rw [this]
  simp

theorem popAt_last {α : Type} (init : List α) (x : α) : popAt (init ++ [x]) (-1 : Int) = .ok (x, init) := by
  unfold popAt
  rw [show (-1 : Int) = -((1 : Nat) : Int) from rfl, normIndex_neg _ 1 (by omega) (by simp)]
  have hlen : (init ++ [x]).length - 1 = init.length := by simp
  rw [hlen]
  dsimp only
  rw [List.getElem?_append_right (Nat.le_refl _), List.eraseIdx_append_of_length_le (Nat.le_refl _)]
  simp

/-- `{MODE_NUMERIC: 3, MODE_ALPHANUMERIC: 2}.get(mode, 1)` -/
def groupSize (m : Int) : Int := if m = 1 then 3 else if m = 2 then 2 else 1

theorem getD_group (m : Int) : Gen.Py.getD ([((1 : Int), (3 : Int)), ((2 : Int), (2 : Int))] : List (Int × Int)) m 1 = groupSize m := by
  unfold Gen.Py.getD groupSize
  by_cases h1 : m = 1
  · subst h1
    rfl
  · by_cases h2 : m = 2
    · subst h2
      rfl
    · have e1 : ((1 : Int) == m) = false := by simpa using fun h => h1 h.symm
      have e2 : ((2 : Int) == m) = false := by simpa using fun h => h2 h.symm
      simp [List.find?, e1, e2, h1, h2]

theorem mod_group (a m : Int) : Gen.Py.mod a (groupSize m) = .ok (a % groupSize m) := by
  unfold Gen.Py.mod groupSize
  split_ifs <;> first | omega | (rw [Int.fmod_eq_emod_of_nonneg _ (by omega)])

/-- the merge condition of `add_segment` -/
def mergeCond (prev seg : Seg) : Bool :=
  prev.2.2.1 == seg.2.2.1 && (prev.2.2.2 == seg.2.2.2 && prev.2.1 % groupSize seg.2.2.1 == 0)

/-- `add_segment` on segments alone -/
def addSegT (ss : List Seg) (seg : Seg) : List Seg :=
  match ss.getLast? with
  | none => [seg]
  | some prev =>
    if mergeCond prev seg then ss.dropLast ++ [(prev.1 ++ seg.1, prev.2.1 + seg.2.1, seg.2.2.1, seg.2.2.2)]
    else ss ++ [seg]

/-- the translation, on a state that satisfies the class invariant: it does not raise, and returns the state that belongs to
    the merged / extended list of segments -/
theorem add_segment_stateOf (ss : List Seg) (seg : Seg) :
    Gen.Funcs6.add_segment ss (bitSum ss) (ss.map (fun s => s.2.2.1)) seg = .ok (stateOf (addSegT ss seg)) := by
  rcases List.eq_nil_or_concat ss with h | ⟨init, prev, h⟩
  · subst h
    simp [Gen.Funcs6.add_segment, addSegT, stateOf, bitSum]
  · rw [List.concat_eq_append] at h
    subst h
    have hne : (init ++ [prev]).isEmpty = false := by simp
    unfold Gen.Funcs6.add_segment
    rw [hne]
    simp only [Bool.not_false, if_true, index_last, Gen.Py.bind_ok, getD_group, mod_group, List.map_append, List.map_cons,
      List.map_nil, popAt_last]
    have hlast : (init ++ [prev]).getLast? = some prev := by simp
    unfold addSegT
    rw [hlast]
    dsimp only
    unfold mergeCond
    cases hm : (prev.2.2.1 == seg.2.2.1)
    · simp only [Gen.Py.bind_ok, Bool.false_and, Bool.false_eq_true, if_false]
      simp [stateOf, bitSum_append, bitSum_cons, bitSum_nil] <;> omega
    · cases he : (prev.2.2.2 == seg.2.2.2)
      · simp only [if_true, Gen.Py.bind_ok, Bool.false_and, Bool.and_false, Bool.false_eq_true, if_false]
        simp [stateOf, bitSum_append, bitSum_cons, bitSum_nil] <;> omega
      · cases hg : (prev.2.1 % groupSize seg.2.2.1 == 0)
        · simp only [if_true, Gen.Py.bind_ok, Bool.and_false, Bool.false_eq_true, if_false]
          simp [stateOf, bitSum_append, bitSum_cons, bitSum_nil] <;> omega
        · simp only [if_true, Gen.Py.bind_ok, Bool.and_self, List.dropLast_concat]
          simp only [stateOf, bitSum_append, bitSum_single, List.map_append, List.map_cons, List.map_nil, List.length_append,
            Int.ofNat_eq_natCast]
          congr 3
          push_cast
          omega

/-- … for every state that satisfies the invariant -/
theorem add_segment_inv (st : State) (seg : Seg) (h : StateInv st) :
    Gen.Funcs6.add_segment st.1 st.2.1 st.2.2 seg = .ok (stateOf (addSegT st.1 seg)) := by
  obtain ⟨h1, h2⟩ := h
  rw [h1, h2]
  exact add_segment_stateOf _ _

-- ---- the model
theorem segT_injective_fields (a b : Segment) :
    ((a.mode : Int) == (b.mode : Int)) = (a.mode == b.mode) := by
  by_cases h : a.mode = b.mode
  · rw [h]
    simp
  · have : ¬ ((a.mode : Int) = (b.mode : Int)) := by omega
    rw [beq_eq_false_iff_ne.mpr this, beq_eq_false_iff_ne.mpr h]

theorem groupSize_nat (m : Nat) :
    groupSize (m : Int) = ((if m == Gen.MODE_NUMERIC then 3 else if m == Gen.MODE_ALPHANUMERIC then 2 else 1 : Nat) : Int) := by
  unfold groupSize
  have e1 : Gen.MODE_NUMERIC = 1 := by decide
  have e2 : Gen.MODE_ALPHANUMERIC = 2 := by decide
  rw [e1, e2]
  by_cases h1 : m = 1
  · subst h1
    rfl
  · by_cases h2 : m = 2
    · subst h2
      rfl
    · have : ¬ ((m : Int) = 1) := by omega
      have : ¬ ((m : Int) = 2) := by omega
      simp [*]

theorem mergeCond_model (prev s : Segment) :
    mergeCond (segT prev) (segT s)
      = (prev.mode == s.mode && prev.encoding == s.encoding
          && prev.charCount % (if s.mode == Gen.MODE_NUMERIC then 3 else if s.mode == Gen.MODE_ALPHANUMERIC then 2 else 1) == 0) := by
  unfold mergeCond segT
  dsimp only
  rw [groupSize_nat, segT_injective_fields, Bool.and_assoc]
  congr 2
  generalize (if s.mode == Gen.MODE_NUMERIC then 3 else if s.mode == Gen.MODE_ALPHANUMERIC then 2 else 1 : Nat) = g
  have hc : ((prev.charCount : Int) % (g : Int)) = ((prev.charCount % g : Nat) : Int) := by
    exact Int.ofNat_mod_ofNat _ _
  by_cases h : prev.charCount % g = 0
  · have : (prev.charCount : Int) % (g : Int) = 0 := by
      rw [hc, h]
      rfl
    rw [this, h]
    rfl
  · have : ¬ ((prev.charCount : Int) % (g : Int) = 0) := by
      rw [hc]
      omega
    rw [beq_eq_false_iff_ne.mpr this, beq_eq_false_iff_ne.mpr h]

theorem toI_append' (a b : List Nat) : toI (a ++ b) = toI a ++ toI b := by simp [toI]

/-- `addSegT` on the images of model segments is the image of `Model.addSegment` -/
theorem addSegT_model (segs : List Segment) (s : Segment) :
    addSegT (segs.map segT) (segT s) = (Model.addSegment segs s).map segT := by
  rcases List.eq_nil_or_concat segs with h | ⟨init, prev, h⟩
  · subst h
    rfl
  · rw [List.concat_eq_append] at h
    subst h
    unfold addSegT Model.addSegment
    have h1 : ((init ++ [prev]).map segT).getLast? = some (segT prev) := by simp
    have h2 : (init ++ [prev]).getLast? = some prev := by simp
    rw [h1, h2]
    dsimp only
    rw [mergeCond_model]
    by_cases hc : (prev.mode == s.mode && prev.encoding == s.encoding
        && prev.charCount % (if s.mode == Gen.MODE_NUMERIC then 3 else if s.mode == Gen.MODE_ALPHANUMERIC then 2 else 1) == 0) = true
    · rw [if_pos hc, if_pos hc]
      simp only [List.map_append, List.map_cons, List.map_nil, List.dropLast_concat]
      congr 2
      simp [segT]
    · rw [if_neg hc, if_neg hc]
      simp

end Proofs.TieA6
