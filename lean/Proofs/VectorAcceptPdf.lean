/-
  Proofs.VectorAcceptPdf — C10: the judge's PDF content interpreter (`Spec.Vector.pdfRun`) on the operators the
  model emits (`Model.Lines.pdfOps`, optionally preceded by the scale matrix).  Mathlib-free.
-/
import Proofs.VectorAcceptGrid

namespace Proofs.VectorAccept
open Spec.Vector Model.Lines Proofs.Lines

theorem toList_nat (n : Nat) : (toString n).toList = Nat.toDigits 10 n := by simp

theorem num_nat (n : Nat) : num? (toString n) = some ((n : Int) : Rat) := by
  unfold num? parseDecimal
  rw [toList_nat, parse_digits _ Nat.toDigits_ne_nil (isDigit_toDigits _), digitsVal_toDigits]
  simp [Rat.mkRat_eq_div]
  grind

/-! ### single steps -/

theorem pdfStep_num (m : Machine) (t : String) (q : Rat) (h : num? t = some q) :
    pdfStep m t = .ok { m with stack := q :: m.stack } := by
  unfold pdfStep; simp [h]

theorem num_m : num? "m" = none := by decide +kernel
theorem num_l : num? "l" = none := by decide +kernel
theorem num_cm : num? "cm" = none := by decide +kernel
theorem num_S : num? "S" = none := by decide +kernel

theorem pdfStep_m (m : Machine) (x y : Rat) (st : List Rat) (h : m.stack = y :: x :: st) :
    pdfStep m "m" = .ok { m with stack := st, path := m.path.moveTo (x, y) (m.gs.ctm.app (x, y)) } := by
  unfold pdfStep; simp [num_m, pop2, h]; rfl

theorem pdfStep_l (m : Machine) (x y : Rat) (st : List Rat) (p' : PathSt) (h : m.stack = y :: x :: st)
    (hl : m.path.lineTo (x, y) (m.gs.ctm.app (x, y)) = .ok p') :
    pdfStep m "l" = .ok { m with stack := st, path := p' } := by
  unfold pdfStep; simp [num_l, pop2, h]
  show (_ <$> m.path.lineTo (x, y) (m.gs.ctm.app (x, y))) = _
  rw [hl]; rfl

theorem pdfStep_cm (m : Machine) (a d e f : Rat) (st : List Rat) (h : m.stack = f :: e :: d :: 0 :: 0 :: a :: st) :
    pdfStep m "cm" = .ok { m with stack := st, gs := { m.gs with ctm := m.gs.ctm.comp { sx := a, sy := d, tx := e, ty := f } } } := by
  unfold pdfStep; simp [num_cm, h]

theorem pdfStep_S (m : Machine) (rs : List Rect) (h : strokeRects (m.gs.lw * absQ m.gs.ctm.sy / 2) m.path.done = .ok rs) :
    pdfStep m "S" = .ok { m with paints := Paint.stroke rs m.gs.strokeC :: m.paints, path := {}, clip := false } := by
  unfold pdfStep; simp [num_S, Machine.strokeNow, h]; rfl

/-! ### the run operators -/

def mkM (st : List Rat) (gs : GState) (p : PathSt) : Machine :=
  { stack := st, gs := gs, saved := [], path := p, clip := false, paints := [] }

def pdfLineToks (t : Nat × Int × Nat) : List String :=
  [toString t.1, showHalf t.2.1, "m", toString t.2.2, showHalf t.2.1, "l"]

/-- the subpath of one run under the transform `c` -/
def subC (c : Xf) (t : Nat × Int × Nat) : Sub :=
  { pts := [c.app (((t.1 : Int) : Rat), half t.2.1), c.app (((t.2.2 : Int) : Rat), half t.2.1)], closed := false }

theorem pdf_line (gs : GState) (p : PathSt) (t : Nat × Int × Nat) :
    ∃ p', (pdfLineToks t).foldlM pdfStep (mkM [] gs p) = .ok (mkM [] gs p') ∧ p'.done = p.done ++ [subC gs.ctm t] := by
  obtain ⟨p', h1, _, h3⟩ := moveTo_lineTo_done p (((t.1 : Int) : Rat), half t.2.1) (gs.ctm.app (((t.1 : Int) : Rat), half t.2.1))
    (((t.2.2 : Int) : Rat), half t.2.1) (gs.ctm.app (((t.2.2 : Int) : Rat), half t.2.1))
  refine ⟨p', ?_, h3⟩
  simp only [pdfLineToks, List.foldlM_cons, List.foldlM_nil, mkM]
  rw [pdfStep_num _ _ _ (num_nat t.1)]; simp only [bind, Except.bind]
  rw [pdfStep_num _ _ _ (num_showHalf t.2.1)]; simp only []
  rw [pdfStep_m _ _ _ [] rfl]; simp only []
  rw [pdfStep_num _ _ _ (num_nat t.2.2)]; simp only []
  rw [pdfStep_num _ _ _ (num_showHalf t.2.1)]; simp only []
  rw [pdfStep_l _ _ _ [] p' rfl h1]
  rfl

theorem pdf_lines (gs : GState) (lines : List (Nat × Int × Nat)) : ∀ p : PathSt,
    ∃ p', ((lines.map pdfLineToks).flatten).foldlM pdfStep (mkM [] gs p) = .ok (mkM [] gs p')
      ∧ p'.done = p.done ++ lines.map (subC gs.ctm) := by
  induction lines with
  | nil => intro p; exact ⟨p, rfl, by simp⟩
  | cons t rest ih =>
    intro p
    obtain ⟨p1, h1, d1⟩ := pdf_line gs p t
    obtain ⟨p2, h2, d2⟩ := ih p1
    refine ⟨p2, ?_, by rw [d2, d1]; simp⟩
    rw [List.map_cons, List.flatten_cons, List.foldlM_append, h1]
    exact h2

/-! ### the whole content stream -/

theorem num_one : num? "1" = some (1 : Rat) := by decide +kernel
theorem num_zero : num? "0" = some (0 : Rat) := by decide +kernel

theorem pdfOps_eq (m : List (List Nat)) (b : Nat) :
    pdfOps m b = ["1", "0", "0", "1", toString b, showHalf (2 * ((m.length : Int) + (b : Int)) - 1), "cm"]
      ++ (((matrixToLines m 0 0 (-2)).map pdfLineToks).flatten ++ ["S"]) := by
  unfold pdfOps
  simp only [List.append_assoc]
  rfl

/-- running the model's operators from a machine with transform `c0` -/
theorem pdfOps_run (c0 : Xf) (m : List (List Nat)) (b : Nat) (rs : List Rect)
    (hrs : strokeRects (1 * absQ (c0.comp { sx := 1, sy := 1, tx := ((b : Int) : Rat), ty := half (2 * ((m.length : Int) + (b : Int)) - 1) }).sy / 2)
      ((matrixToLines m 0 0 (-2)).map (subC (c0.comp { sx := 1, sy := 1, tx := ((b : Int) : Rat), ty := half (2 * ((m.length : Int) + (b : Int)) - 1) }))) = .ok rs) :
    (pdfOps m b).foldlM pdfStep (mkM [] { ctm := c0 } {})
      = .ok { mkM [] { ctm := c0.comp { sx := 1, sy := 1, tx := ((b : Int) : Rat), ty := half (2 * ((m.length : Int) + (b : Int)) - 1) } } {}
              with paints := [Paint.stroke rs black] } := by
  rw [pdfOps_eq, List.foldlM_append]
  have h1 : ["1", "0", "0", "1", toString b, showHalf (2 * ((m.length : Int) + (b : Int)) - 1), "cm"].foldlM pdfStep (mkM [] { ctm := c0 } {})
      = .ok (mkM [] { ctm := c0.comp { sx := 1, sy := 1, tx := ((b : Int) : Rat), ty := half (2 * ((m.length : Int) + (b : Int)) - 1) } } {}) := by
    simp only [List.foldlM_cons, List.foldlM_nil, mkM]
    rw [pdfStep_num _ _ _ num_one]; simp only [bind, Except.bind]
    rw [pdfStep_num _ _ _ num_zero]; simp only []
    rw [pdfStep_num _ _ _ num_zero]; simp only []
    rw [pdfStep_num _ _ _ num_one]; simp only []
    rw [pdfStep_num _ _ _ (num_nat b)]; simp only []
    rw [pdfStep_num _ _ _ (num_showHalf _)]; simp only []
    rw [pdfStep_cm _ 1 1 _ _ [] rfl]
    rfl
  rw [h1]
  simp only [bind, Except.bind]
  rw [List.foldlM_append]
  obtain ⟨p', h2, d2⟩ := pdf_lines { ctm := c0.comp { sx := 1, sy := 1, tx := ((b : Int) : Rat), ty := half (2 * ((m.length : Int) + (b : Int)) - 1) } }
    (matrixToLines m 0 0 (-2)) {}
  rw [h2]
  simp only [bind, Except.bind, List.foldlM_cons, List.foldlM_nil]
  have hd : p'.done = (matrixToLines m 0 0 (-2)).map (subC (c0.comp { sx := 1, sy := 1, tx := ((b : Int) : Rat), ty := half (2 * ((m.length : Int) + (b : Int)) - 1) })) := by
    rw [d2]; rfl
  rw [pdfStep_S _ rs (by simp only [mkM]; rw [hd]; exact hrs)]
  rfl

theorem pdfRun_of_fold (toks : List String) (m : Machine) (h : toks.foldlM pdfStep ({} : Machine) = .ok m)
    (hst : m.stack = []) (hp : m.path.done = []) : pdfRun toks = .ok m.paints.reverse := by
  unfold pdfRun
  rw [h]
  simp only [bind, Except.bind]
  simp [hst, hp]
  rfl

/-! ### stroking and geometry -/

def rectC (c : Xf) (hw : Rat) (t : Nat × Int × Nat) : Rect :=
  mkRect (c.sx * ((t.1 : Int) : Rat) + c.tx) (c.sx * ((t.2.2 : Int) : Rat) + c.tx)
    (c.sy * half t.2.1 + c.ty - hw) (c.sy * half t.2.1 + c.ty + hw)

theorem strokeRects_subC (c : Xf) (hw : Rat) (lines : List (Nat × Int × Nat)) :
    strokeRects hw (lines.map (subC c)) = .ok (lines.map (rectC c hw)) := by
  unfold strokeRects
  apply mapM_map_ok
  intro t _
  simp [subC, rectC, Xf.app]

theorem absQ_pos {s : Rat} (hs : 0 < s) : absQ s = s := by
  unfold absQ; split
  · rename_i h; exact absurd (Rat.le_of_lt hs) (Rat.not_le.mpr h)
  · rfl

/-- the model's PDF lines as items -/
theorem pdf_lines_items (m : List (List Nat)) :
    matrixToLines m 0 0 (-2) = (gridItems 0 (rowsGo 0 1 m)).map (fun a => (a.2.1, 2 + ((a.1 : Int) + 1) * (-2), a.2.2)) := by
  have h1 := linesGo_rows 0 (-2) m (0 - (-2)) 1
  have h2 := attach_items (-2) 2 (rowsGo 0 1 m) 0
  unfold matrixToLines
  rw [h1]
  have e : (0 : Int) - (-2) = 2 + ((0 : Nat) : Int) * (-2) := by omega
  rw [e, h2]

/-- PDF, from a machine whose transform is `scale(s)`: the judge accepts the model's operators -/
theorem pdf_accept (m : List (List Nat)) (b : Nat) (s : Rat) (hs : 0 < s) (hsq : ∀ row ∈ m, row.length = m.length) :
    ∃ mf : Machine, (pdfOps m b).foldlM pdfStep (mkM [] { ctm := { sx := s, sy := s, tx := 0, ty := 0 } } {}) = .ok mf
      ∧ mf.stack = [] ∧ mf.path.done = []
      ∧ judgePaints { m := m, size := m.length, b := b, s := s, dark := some black, light := none }
        (some (((m.length + 2 * b : Nat) : Rat) * s, ((m.length + 2 * b : Nat) : Rat) * s)) true (((m.length + 2 * b : Nat) : Rat) * s) 0
        mf.paints.reverse = .ok (segsFrom b (rowsGo b 1 m)) := by
  refine ⟨_, pdfOps_run _ m b _ (strokeRects_subC _ _ _), rfl, rfl, ?_⟩
  rw [pdf_lines_items, List.map_map]
  simp only [List.reverse_cons, List.reverse_nil, List.nil_append]
  apply judgePaints_items m b s hsq
  intro a _ h1 h2 h3
  simp only [if_true, Function.comp, rectC, Xf.comp]
  apply rect_up s hs _ _ _ _ _ (((a.2.1 + b : Nat) : Int)) (((a.2.2 + b : Nat) : Int)) (((a.1 + b : Nat) : Int)) (by omega)
  · simp only [Int.natCast_add, Rat.intCast_add]; grind
  · simp only [Int.natCast_add, Rat.intCast_add]; grind
  · have : s * 1 = s := Rat.mul_one s
    rw [this, absQ_pos hs]; grind
  · unfold half
    simp only [Int.natCast_add, Rat.intCast_add, Rat.intCast_mul, Rat.intCast_sub, Rat.intCast_neg,
      Rat.natCast_add, Rat.natCast_mul, Rat.intCast_natCast]
    grind

theorem comp_id_scale (s : Rat) :
    ({} : Xf).comp { sx := s, sy := s, tx := 0, ty := 0 } = { sx := s, sy := s, tx := 0, ty := 0 } := by
  simp [Xf.comp, Rat.one_mul, Rat.mul_zero, Rat.add_zero]

/-- the scale matrix `s 0 0 s 0 0 cm` written in front of the operators when scale ≠ 1 -/
theorem pdf_scale_prefix (st : String) (s : Rat) (hst : num? st = some s) :
    [st, "0", "0", st, "0", "0", "cm"].foldlM pdfStep ({} : Machine)
      = .ok (mkM [] { ctm := { sx := s, sy := s, tx := 0, ty := 0 } } {}) := by
  simp only [List.foldlM_cons, List.foldlM_nil]
  rw [pdfStep_num _ _ _ hst]; simp only [bind, Except.bind]
  rw [pdfStep_num _ _ _ num_zero]; simp only []
  rw [pdfStep_num _ _ _ num_zero]; simp only []
  rw [pdfStep_num _ _ _ hst]; simp only []
  rw [pdfStep_num _ _ _ num_zero]; simp only []
  rw [pdfStep_num _ _ _ num_zero]; simp only []
  rw [pdfStep_cm _ s s 0 0 [] rfl]
  simp only [comp_id_scale]
  rfl

/-- PDF with the scale matrix -/
theorem pdfRun_model_scaled (m : List (List Nat)) (b : Nat) (s : Rat) (st : String) (hs : 0 < s) (hst : num? st = some s)
    (hsq : ∀ row ∈ m, row.length = m.length) :
    (do
      let paints ← pdfRun ([st, "0", "0", st, "0", "0", "cm"] ++ pdfOps m b)
      judgePaints { m := m, size := m.length, b := b, s := s, dark := some black, light := none }
        (some (((m.length + 2 * b : Nat) : Rat) * s, ((m.length + 2 * b : Nat) : Rat) * s)) true (((m.length + 2 * b : Nat) : Rat) * s) 0
        paints) = .ok (segsFrom b (rowsGo b 1 m)) := by
  obtain ⟨mf, h1, hst', hp, h2⟩ := pdf_accept m b s hs hsq
  have hf : ([st, "0", "0", st, "0", "0", "cm"] ++ pdfOps m b).foldlM pdfStep ({} : Machine) = .ok mf := by
    rw [List.foldlM_append, pdf_scale_prefix st s hst]
    exact h1
  rw [pdfRun_of_fold _ _ hf hst' hp]
  exact h2

/-- PDF at scale 1 (no scale matrix is written) -/
theorem pdfRun_model_unscaled (m : List (List Nat)) (b : Nat) (hsq : ∀ row ∈ m, row.length = m.length) :
    (do
      let paints ← pdfRun (pdfOps m b)
      judgePaints { m := m, size := m.length, b := b, s := 1, dark := some black, light := none }
        (some (((m.length + 2 * b : Nat) : Rat) * 1, ((m.length + 2 * b : Nat) : Rat) * 1)) true (((m.length + 2 * b : Nat) : Rat) * 1) 0
        paints) = .ok (segsFrom b (rowsGo b 1 m)) := by
  obtain ⟨mf, h1, hst', hp, h2⟩ := pdf_accept m b 1 (by decide +kernel) hsq
  rw [pdfRun_of_fold _ _ h1 hst' hp]
  exact h2

end Proofs.VectorAccept
