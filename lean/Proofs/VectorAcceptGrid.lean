/-
  Proofs.VectorAcceptGrid — C10: the generic form of the geometry / coverage layers used for the y-up
  formats (EPS, PDF): runs as items (matrix row, first column, end column) in matrix coordinates, their
  rectangles in device space, and the judge's `gridSegs` on them.  Mathlib-free.
-/
import Proofs.VectorAccept

namespace Proofs.VectorAccept
open Spec.Vector Model.Lines Proofs.Lines

/-! ### shifting the start column of `matrix_to_lines` -/

def shiftRuns (b : Nat) (l : List (Nat × Nat)) : List (Nat × Nat) := l.map (fun ab => (ab.1 + b, ab.2 + b))

theorem rowGo_shift (b : Nat) (bits : List Nat) : ∀ x1 x2 lb,
    rowGo (x1 + b) (x2 + b) lb bits
      = (shiftRuns b (rowGo x1 x2 lb bits).1, (rowGo x1 x2 lb bits).2.1 + b, (rowGo x1 x2 lb bits).2.2.1 + b, (rowGo x1 x2 lb bits).2.2.2) := by
  induction bits with
  | nil => intro x1 x2 lb; simp [rowGo, shiftRuns]
  | cons bit rest ih =>
    intro x1 x2 lb
    have e1 : x1 + b + 1 = (x1 + 1) + b := by omega
    have e2 : x2 + b + 1 = (x2 + 1) + b := by omega
    by_cases hb : bit = 0
    · subst hb
      by_cases hl : lb = 0
      · subst hl
        simp [rowGo, e1, e2, ih (x1 + 1) (x2 + 1) 0]
      · simp [rowGo, hl, e2, ih (x2 + 1) (x2 + 1) 0, shiftRuns]
    · simp [rowGo, hb, e2, ih x1 (x2 + 1) bit]

theorem rowRuns_shift (b lb : Nat) (row : List Nat) :
    rowRuns b lb row = (shiftRuns b (rowRuns 0 lb row).1, (rowRuns 0 lb row).2) := by
  unfold rowRuns
  have := rowGo_shift b row 0 0 lb
  simp only [Nat.zero_add] at this
  rw [this]
  by_cases hz : (rowGo 0 0 lb row).2.2.2 = 0 <;> simp [hz, shiftRuns]

theorem rowsGo_shift (b : Nat) (m : List (List Nat)) : ∀ lb, rowsGo b lb m = (rowsGo 0 lb m).map (shiftRuns b) := by
  induction m with
  | nil => intro lb; rfl
  | cons row rest ih =>
    intro lb
    simp only [rowsGo, List.map_cons]
    rw [rowRuns_shift b lb row]
    simp only [ih]

/-! ### runs as items (matrix row, first column, end column) -/

def gridItems : Nat → List (List (Nat × Nat)) → List (Nat × Nat × Nat)
  | _, [] => []
  | i0, rs :: rest => rs.map (fun ab => (i0, ab.1, ab.2)) ++ gridItems (i0 + 1) rest

theorem attach_items (inc2 y0 : Int) (rows : List (List (Nat × Nat))) : ∀ i0 : Nat,
    attach inc2 (y0 + (i0 : Int) * inc2) rows = (gridItems i0 rows).map (fun a => (a.2.1, y0 + ((a.1 : Int) + 1) * inc2, a.2.2)) := by
  induction rows with
  | nil => intro i0; rfl
  | cons rs rest ih =>
    intro i0
    have e : y0 + (i0 : Int) * inc2 + inc2 = y0 + ((i0 + 1 : Nat) : Int) * inc2 := by
      rw [Int.natCast_add, Int.add_mul]; omega
    simp only [attach, gridItems, List.map_append, List.map_map, e, ih (i0 + 1)]
    congr 1

/-- dropping empty runs and moving to page coordinates (quiet zone `b`) -/
def itemSeg (b : Nat) (a : Nat × Nat × Nat) : Option (Nat × Nat × Nat) :=
  if a.2.1 = a.2.2 then none else some (a.1 + b, a.2.1 + b, a.2.2 + b)

theorem segsFrom_items (b : Nat) (rows : List (List (Nat × Nat))) : ∀ i0 : Nat,
    segsFrom (i0 + b) (rows.map (shiftRuns b)) = (gridItems i0 rows).filterMap (itemSeg b) := by
  induction rows with
  | nil => intro i0; rfl
  | cons rs rest ih =>
    intro i0
    have e : i0 + b + 1 = (i0 + 1) + b := by omega
    simp only [List.map_cons, segsFrom, gridItems, List.filterMap_append, e, ih (i0 + 1)]
    congr 1
    simp only [shiftRuns, List.filterMap_map]
    apply filterMap_congr'
    intro ab _
    simp only [Function.comp, itemSeg]
    by_cases h : ab.1 = ab.2
    · simp [h]
    · have : ¬ (ab.1 + b = ab.2 + b) := by omega
      simp [h]

theorem items_ok (size : Nat) (rows : List (List (Nat × Nat))) (hok : rowsOk 0 size rows) : ∀ i0 : Nat,
    ∀ a ∈ gridItems i0 rows, i0 ≤ a.1 ∧ a.1 < i0 + rows.length ∧ a.2.1 ≤ a.2.2 ∧ a.2.2 ≤ size := by
  induction rows with
  | nil => intro i0 a ha; simp [gridItems] at ha
  | cons rs rest ih =>
    intro i0 a ha
    simp only [gridItems, List.mem_append, List.mem_map] at ha
    rcases ha with ⟨ab, hab, rfl⟩ | ha
    · have := hok rs (by simp) ab hab
      simp; omega
    · have := ih (fun rs hrs => hok rs (by simp [hrs])) (i0 + 1) a ha
      simp; omega

/-- geometry, generic: `gridSegs` on rectangles whose corners, divided by the scale, are the grid lines of the items -/
theorem gridSegs_items (s : Rat) (n b : Nat) (yUp : Bool) (top : Rat) (items : List (Nat × Nat × Nat))
    (rect : Nat × Nat × Nat → Rect)
    (h : ∀ a ∈ items, a.2.1 ≤ a.2.2 ∧ a.2.2 + b ≤ n ∧ a.1 + b < n
      ∧ (if yUp then top - (rect a).y1 else (rect a).y0 - top) / s = (((a.1 + b : Nat) : Int) : Rat)
      ∧ (if yUp then top - (rect a).y0 else (rect a).y1 - top) / s = ((((a.1 + b : Nat) : Int) + 1 : Int) : Rat)
      ∧ (rect a).x0 / s = (((a.2.1 + b : Nat) : Int) : Rat)
      ∧ (rect a).x1 / s = (((a.2.2 + b : Nat) : Int) : Rat)) :
    gridSegs s 0 n yUp top (items.map rect) = .ok (items.filterMap (itemSeg b)) := by
  unfold gridSegs
  apply filterMapM_map_ok
  intro a ha
  obtain ⟨h1, h2, h3, e1, e2, e3, e4⟩ := h a ha
  simp only [e1, e2, e3, e4, snap_int]
  have c1 : (decide ((((a.1 + b : Nat) : Int)) < 0) || decide ((((a.1 + b : Nat) : Int)) ≥ (n : Int))
      || decide ((((a.2.1 + b : Nat) : Int)) < 0) || decide ((((a.2.2 + b : Nat) : Int)) > (n : Int))) = false := by
    simp only [Bool.or_eq_false_iff, decide_eq_false_iff_not]; omega
  simp only [bne_self_eq_false, Bool.false_eq_true, if_false, c1]
  unfold itemSeg
  by_cases hx : a.2.1 = a.2.2
  · simp [hx]
  · have : ((((a.2.1 + b : Nat) : Int)) == (((a.2.2 + b : Nat) : Int))) = false := by simp; omega
    simp only [this, Bool.false_eq_true, if_false, hx]
    simp
    omega

/-- y-up formats: a rectangle around the centre line `yc = top − s·(I + ½)` with half height `s/2`, from `s·J0` to `s·J1` -/
theorem rect_up (s : Rat) (hs : 0 < s) (xa xb yc hw top : Rat) (J0 J1 I : Int) (hJ : J0 ≤ J1)
    (hxa : xa = s * (J0 : Rat)) (hxb : xb = s * (J1 : Rat)) (hhw : hw = s / 2)
    (hyc : yc = top - s * ((I : Rat) + 1 / 2)) :
    (top - (mkRect xa xb (yc - hw) (yc + hw)).y1) / s = (I : Rat)
    ∧ (top - (mkRect xa xb (yc - hw) (yc + hw)).y0) / s = ((I + 1 : Int) : Rat)
    ∧ (mkRect xa xb (yc - hw) (yc + hw)).x0 / s = (J0 : Rat)
    ∧ (mkRect xa xb (yc - hw) (yc + hw)).x1 / s = (J1 : Rat) := by
  have hs0 : s ≠ 0 := by grind
  have hx : xa ≤ xb := by
    rw [hxa, hxb]
    exact Rat.mul_le_mul_of_nonneg_left (Rat.intCast_le_intCast.mpr hJ) (Rat.le_of_lt hs)
  have hy : yc - hw ≤ yc + hw := by rw [hhw]; grind
  unfold mkRect
  simp only [minQ_of_le hx, maxQ_of_le hx, minQ_of_le hy, maxQ_of_le hy]
  subst hxa hxb hhw hyc
  refine ⟨by grind, ?_, by grind, by grind⟩
  rw [Rat.intCast_add]; grind

/-- the common judgement (any orientation) on one stroke paint whose rectangles are indexed by the model's runs -/
theorem judgePaints_items (m : List (List Nat)) (b : Nat) (s : Rat)
    (hsq : ∀ row ∈ m, row.length = m.length) (yUp : Bool) (top : Rat) (rect : Nat × Nat × Nat → Rect)
    (hrect : ∀ a ∈ gridItems 0 (rowsGo 0 1 m), a.1 < m.length → a.2.1 ≤ a.2.2 → a.2.2 ≤ m.length →
      (if yUp then top - (rect a).y1 else (rect a).y0 - top) / s = (((a.1 + b : Nat) : Int) : Rat)
      ∧ (if yUp then top - (rect a).y0 else (rect a).y1 - top) / s = ((((a.1 + b : Nat) : Int) + 1 : Int) : Rat)
      ∧ (rect a).x0 / s = (((a.2.1 + b : Nat) : Int) : Rat)
      ∧ (rect a).x1 / s = (((a.2.2 + b : Nat) : Int) : Rat)) :
    judgePaints { m := m, size := m.length, b := b, s := s, dark := some black, light := none }
        (some (((m.length + 2 * b : Nat) : Rat) * s, ((m.length + 2 * b : Nat) : Rat) * s)) yUp top 0
        [Paint.stroke ((gridItems 0 (rowsGo 0 1 m)).map rect) black]
      = .ok (segsFrom b (rowsGo b 1 m)) := by
  unfold judgePaints
  simp only [closeTo_self, Bool.and_self, Bool.not_true, Bool.false_eq_true, if_false]
  rw [checkPaints_single _ _ _ black black rfl rfl black_same]
  simp only [bind, Except.bind]
  have hok := items_ok m.length (rowsGo 0 1 m) (rowsGo_ok 0 m.length m hsq 1) 0
  rw [gridSegs_items s (m.length + 2 * b) b yUp top _ rect]
  · have e := segsFrom_items b (rowsGo 0 1 m) 0
    rw [Nat.zero_add, ← rowsGo_shift] at e
    rw [← e]
    simp only []
    rw [checkCoverage_ok _ black rfl _ (fun r hr => model_cover m b hsq r hr)]
    rfl
  · intro a ha
    have h := hok a ha
    rw [rowsGo_length] at h
    have h' := hrect a ha (by omega) h.2.2.1 h.2.2.2
    exact ⟨h.2.2.1, by omega, by omega, h'⟩

end Proofs.VectorAccept
