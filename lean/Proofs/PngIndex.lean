/-
  Proofs.PngIndex — facts about the colour indexes of the PNG writer model: parsing of the colour
  map, shape of the palette (`paletteFrom` / `buildPalette`), what a successful `writePng` went
  through, and the colour index of every module for both iterators (`indexRows`).
-/
import Proofs.PngPalette
import Proofs.PngStream

namespace Proofs.Png

open Model Spec Proofs.Raster

/-- a duplicate-free list whose members all lie in `l₂` is at most as long as `l₂` -/
theorem nodup_length_le (l₁ l₂ : List PColor) (hnd : l₁.Nodup) (hsub : ∀ x ∈ l₁, x ∈ l₂) : l₁.length ≤ l₂.length := by
  induction l₁ generalizing l₂ with
  | nil => simp
  | cons a l ih =>
    have ha : a ∈ l₂ := hsub a (by simp)
    rw [List.nodup_cons] at hnd
    have h1 := ih (l₂.erase a) hnd.2
      (fun x hx => (List.mem_erase_of_ne (by intro h; subst h; exact hnd.1 hx)).2 (hsub x (by simp [hx])))
    rw [List.length_erase_of_mem ha] at h1
    have h2 : 0 < l₂.length := List.length_pos_of_mem ha
    simp only [List.length_cons]
    omega

/-- `clr_map = {k: png_color(colormap[k]) for k in colormap}` -/
def parseColormap (colormap : List (Nat × ColorArg)) : R (List (Nat × PColor)) :=
  colormap.mapM (fun e => do let c ← pngColor e.2; pure (e.1, c))

theorem parseColormap_cons_ok (e : Nat × ColorArg) (cm : List (Nat × ColorArg)) (clrMap : List (Nat × PColor))
    (h : parseColormap (e :: cm) = .ok clrMap) :
    ∃ c rest, pngColor e.2 = .ok c ∧ parseColormap cm = .ok rest ∧ clrMap = (e.1, c) :: rest := by
  unfold parseColormap at h ⊢
  rw [List.mapM_cons] at h
  simp only [bind, Except.bind, pure, Except.pure] at h
  cases hc : pngColor e.2 with
  | error err => rw [hc] at h; cases h
  | ok c =>
    rw [hc] at h
    simp only at h
    cases hr : List.mapM (fun e : Nat × ColorArg => do let c ← pngColor e.2; pure (e.1, c)) cm with
    | error err =>
      simp only [bind, Except.bind, pure, Except.pure] at hr
      rw [hr] at h; cases h
    | ok rest =>
      simp only [bind, Except.bind, pure, Except.pure] at hr
      rw [hr] at h
      simp only at h
      cases h
      exact ⟨c, rest, rfl, rfl, rfl⟩

theorem parseColormap_nil_ok (clrMap : List (Nat × PColor)) (h : parseColormap [] = .ok clrMap) : clrMap = [] := by
  unfold parseColormap at h
  rw [List.mapM_nil] at h
  cases h
  rfl

theorem parseColormap_length (cm : List (Nat × ColorArg)) (clrMap : List (Nat × PColor)) (h : parseColormap cm = .ok clrMap) :
    clrMap.length = cm.length := by
  induction cm generalizing clrMap with
  | nil => rw [parseColormap_nil_ok clrMap h]; rfl
  | cons e cm ih =>
    obtain ⟨c, rest, _, hr, rfl⟩ := parseColormap_cons_ok e cm clrMap h
    simp [ih rest hr]

/-- keys are kept, every colour is the parsed argument -/
theorem parseColormap_get (cm : List (Nat × ColorArg)) (clrMap : List (Nat × PColor)) (h : parseColormap cm = .ok clrMap) (t : Nat) :
    (∀ a, cmGet cm t = some a → ∃ c, pngColor a = .ok c ∧ cmGet clrMap t = some c)
    ∧ (cmGet cm t = none → cmGet clrMap t = none) := by
  induction cm generalizing clrMap with
  | nil =>
    rw [parseColormap_nil_ok clrMap h]
    simp [cmGet]
  | cons e cm ih =>
    obtain ⟨c, rest, hc, hr, rfl⟩ := parseColormap_cons_ok e cm clrMap h
    have ih' := ih rest hr
    by_cases ht : (e.1 == t) = true
    · have h1 : cmGet (e :: cm) t = some e.2 := by simp [cmGet, ht]
      have h2 : cmGet ((e.1, c) :: rest) t = some c := by simp [cmGet, ht]
      rw [h1, h2]
      refine ⟨?_, fun h => by cases h⟩
      intro a ha
      cases ha
      exact ⟨c, hc, rfl⟩
    · have h1 : cmGet (e :: cm) t = cmGet cm t := by simp [cmGet, ht]
      have h2 : cmGet ((e.1, c) :: rest) t = cmGet rest t := by simp [cmGet, ht]
      rw [h1, h2]
      exact ih'

/-! ### shape of the palette -/

theorem length_plteOrder (l : List PColor) :
    (l.filter (fun x => x.isRgba) ++ l.filter (fun c => !c.isRgba)).length = l.length := by
  induction l with
  | nil => rfl
  | cons a l ih =>
    simp only [List.filter_cons, List.length_append] at ih ⊢
    cases a.isRgba <;> simp <;> omega

theorem depth_facts (n : Nat) (h16 : n ≤ 16) :
    ((if n > 2 then (if n < 5 then 2 else 4) else 1) = 1 ∨ (if n > 2 then (if n < 5 then 2 else 4) else 1) = 2
      ∨ (if n > 2 then (if n < 5 then 2 else 4) else 1) = 4)
    ∧ n ≤ 2 ^ (if n > 2 then (if n < 5 then 2 else 4) else 1) := by
  by_cases h2 : n > 2
  · by_cases h5 : n < 5
    · simp only [h2, h5, if_true]; refine ⟨by simp, ?_⟩; omega
    · simp only [h2, h5, if_true, if_false]; refine ⟨by simp, ?_⟩; omega
  · simp only [h2, if_false]; refine ⟨by simp, ?_⟩; omega

theorem typeIndex_lt_of_mem (p : PaletteInfo) (t : Nat) (c : PColor) (hc : cmGet p.clrMap t = some c) (hm : c ∈ p.palette) :
    typeIndex p t < p.palette.length := by
  unfold typeIndex
  rw [hc]
  exact List.idxOf_lt_length_iff.2 hm

theorem paletteFrom_facts (P0 : List PColor) (clrMap : List (Nat × PColor)) (p : PaletteInfo)
    (hp : paletteFrom P0 clrMap = .ok p) (hnd : P0.Nodup) (hsorted : P0.Pairwise (fun a b => keyLe a b = true))
    (hhead : PColor.transparent ∈ P0 → ∃ rest, P0 = PColor.transparent :: rest) (hlen16 : P0.length ≤ 16) :
    p.n = P0.length ∧ p.palette.length = P0.length
    ∧ (p.depth = 1 ∨ p.depth = 2 ∨ p.depth = 4) ∧ p.palette.length ≤ 2 ^ p.depth
    ∧ (∀ t, cmGet p.clrMap t = none ↔ cmGet clrMap t = none)
    ∧ (∀ t c, cmGet clrMap t = some c → c ∈ P0 → typeIndex p t < p.palette.length) := by
  unfold paletteFrom at hp
  simp only [bind, Except.bind, pure, Except.pure] at hp
  split at hp
  · -- PLTE
    split at hp
    · rename_i hg htr
      obtain ⟨rest0, rfl⟩ := hhead (by simpa using htr)
      split at hp
      · cases hp
      · rename_i T hT
        cases hp
        obtain ⟨hnot, hP1, hpal, _⟩ := plte_transparent_shape rest0 clrMap
          (PColor.transparent :: rest0).length
          (if (PColor.transparent :: rest0).length > 2 then if (PColor.transparent :: rest0).length < 5 then 2 else 4 else 1) T hT
        have hd := depth_facts (PColor.transparent :: rest0).length hlen16
        have hl : (List.set (List.filter (fun x => x.isRgba) (PColor.transparent :: rest0) ++
            List.filter (fun c => !c.isRgba) (PColor.transparent :: rest0)) 0 T).length = (PColor.transparent :: rest0).length := by
          rw [List.length_set, length_plteOrder]
        refine ⟨rfl, hl, hd.1, ?_, ?_, ?_⟩
        · show (List.set _ 0 T).length ≤ _
          rw [hl]; exact hd.2
        · intro t
          show cmGet (clrMap.map (fun e => if (e.2 == PColor.transparent) = true then (e.1, T) else e)) t = none ↔ _
          rw [cmGet_replace]
          cases cmGet clrMap t <;> simp
        · intro t c hc hmem
          apply typeIndex_lt_of_mem _ t (if c == PColor.transparent then T else c)
          · show cmGet (clrMap.map (fun e => if (e.2 == PColor.transparent) = true then (e.1, T) else e)) t = _
            rw [cmGet_replace, hc]; rfl
          · rw [hpal]
            by_cases hct : c = PColor.transparent
            · subst hct; simp
            · have hbeq : (c == PColor.transparent) = false := by simpa using hct
              simp only [hbeq, Bool.false_eq_true, if_false]
              have : c ∈ (PColor.transparent :: rest0).filter (fun x => x.isRgba) ++ (PColor.transparent :: rest0).filter (fun c => !c.isRgba) :=
                (mem_plteOrder _ c).2 hmem
              rw [hP1] at this
              rcases List.mem_cons.1 this with h | h
              · exact absurd h hct
              · exact List.mem_cons_of_mem _ h
    · cases hp
      have hd := depth_facts P0.length hlen16
      have hl := length_plteOrder P0
      refine ⟨rfl, hl, hd.1, ?_, fun t => Iff.rfl, ?_⟩
      · show (_ ++ _ : List PColor).length ≤ _
        rw [hl]; exact hd.2
      · intro t c hc hmem
        exact typeIndex_lt_of_mem _ t c hc ((mem_plteOrder P0 c).2 hmem)
  · -- greyscale
    rename_i hg
    have hg' : (P0.length == 2 && P0.all (fun c => c == PColor.transparent || c == PColor.black || c == PColor.white)) = true := by
      cases h : (P0.length == 2 && P0.all (fun c => c == PColor.transparent || c == PColor.black || c == PColor.white)) with
      | true => rfl
      | false => rw [h] at hg; exact absurd rfl hg
    rw [Bool.and_eq_true] at hg'
    have hpal := grey_palettes P0 (by simpa using hg'.1) hg'.2 hnd hsorted
    split at hp
    · rename_i htr
      cases hp
      rcases hpal with rfl | rfl | rfl
      · exact absurd htr (by decide)
      · have e1 : (if [PColor.transparent, PColor.black].contains PColor.black = true then [PColor.black, PColor.transparent]
            else [PColor.transparent, PColor.black]).length = 2 := by decide
        refine ⟨rfl, e1, Or.inl rfl, ?_, fun t => Iff.rfl, ?_⟩
        · show (if [PColor.transparent, PColor.black].contains PColor.black = true then [PColor.black, PColor.transparent]
            else [PColor.transparent, PColor.black]).length ≤ 2 ^ 1
          rw [e1]; decide
        intro t c hc hmem
        apply typeIndex_lt_of_mem _ t c hc
        show c ∈ (if [PColor.transparent, PColor.black].contains PColor.black = true then [PColor.black, PColor.transparent]
          else [PColor.transparent, PColor.black])
        simp only [List.mem_cons, List.not_mem_nil, or_false] at hmem
        rcases hmem with rfl | rfl <;> decide
      · have e1 : (if [PColor.transparent, PColor.white].contains PColor.black = true then [PColor.black, PColor.transparent]
            else [PColor.transparent, PColor.white]).length = 2 := by decide
        refine ⟨rfl, e1, Or.inl rfl, ?_, fun t => Iff.rfl, ?_⟩
        · show (if [PColor.transparent, PColor.white].contains PColor.black = true then [PColor.black, PColor.transparent]
            else [PColor.transparent, PColor.white]).length ≤ 2 ^ 1
          rw [e1]; decide
        intro t c hc hmem
        apply typeIndex_lt_of_mem _ t c hc
        show c ∈ (if [PColor.transparent, PColor.white].contains PColor.black = true then [PColor.black, PColor.transparent]
          else [PColor.transparent, PColor.white])
        simp only [List.mem_cons, List.not_mem_nil, or_false] at hmem
        rcases hmem with rfl | rfl <;> decide
    · rename_i htr
      cases hp
      have hl : P0.length = 2 := by simpa using hg'.1
      refine ⟨rfl, rfl, Or.inl rfl, ?_, fun t => Iff.rfl, ?_⟩
      · show P0.length ≤ 2 ^ 1
        omega
      · intro t c hc hmem
        exact typeIndex_lt_of_mem _ t c hc hmem

theorem buildPalette_facts (setOrder : List PColor → List PColor) (hset : SetOrderOK setOrder) (clrMap : List (Nat × PColor))
    (p : PaletteInfo) (hp : buildPalette setOrder clrMap = .ok p) (hlen : clrMap.length ≤ 16) :
    (p.depth = 1 ∨ p.depth = 2 ∨ p.depth = 4)
    ∧ (∀ t, cmGet p.clrMap t = none ↔ cmGet clrMap t = none)
    ∧ (∀ t, (cmGet clrMap t).isSome = true → typeIndex p t < 2 ^ p.depth)
    ∧ p.n = (palette0 setOrder clrMap).length := by
  have hp' : paletteFrom (palette0 setOrder clrMap) clrMap = .ok p := hp
  have hl : (palette0 setOrder clrMap).length ≤ 16 := by
    have := nodup_length_le (palette0 setOrder clrMap) (clrMap.map (·.2)) (nodup_palette0 setOrder hset clrMap)
      (fun x hx => (mem_palette0 setOrder hset clrMap x).1 hx)
    rw [List.length_map] at this
    omega
  obtain ⟨hn, _, hd, hle, hnone, hidx⟩ := paletteFrom_facts (palette0 setOrder clrMap) clrMap p hp'
    (nodup_palette0 setOrder hset clrMap) (sorted_palette0 setOrder clrMap) (head_palette0 setOrder clrMap) hl
  refine ⟨hd, hnone, ?_, hn⟩
  intro t ht
  cases hc : cmGet clrMap t with
  | none => rw [hc] at ht; cases ht
  | some c =>
    have := hidx t c hc ((mem_palette0 setOrder hset clrMap c).2 (cmGet_mem _ _ _ hc))
    omega

/-! ### a successful run -/

theorem checkValidScale_ok (s : Int) (u : Unit) (h : checkValidScale s = .ok u) : 0 < s.toNat := by
  unfold checkValidScale at h
  split at h
  · cases h
  · omega

theorem borderForRange_pos (w h : Nat) (border : Option Num) (b : Nat) (hb : borderForRange w h border = .ok b) (hpos : 0 < b) :
    borderPositive w h border = true := by
  unfold borderForRange at hb
  split at hb
  · cases hb
    simp only [borderPositive, decide_eq_true_eq]
    omega
  · cases hb
    simp only [borderPositive, decide_eq_true_eq]
    omega
  · cases hb

/-- what a successful run of the model went through -/
theorem writePng_ok (setOrder : List PColor → List PColor) (M : List (List Nat)) (w h : Nat) (colormap : List (Nat × ColorArg))
    (scale : Num) (border : Option Num) (out : PngOut) (hw : writePng setOrder M w h colormap scale border = .ok out) :
    ∃ clrMap p b idx,
      parseColormap colormap = .ok clrMap ∧ buildPalette setOrder clrMap = .ok p ∧ borderForRange w h border = .ok b
      ∧ indexRows p M w h = .ok idx ∧ 0 < scale.toInt.toNat
      ∧ (useVerbose p = false → (cmGet p.clrMap Gen.TYPE_QUIET_ZONE).isSome = true ∧ (cmGet p.clrMap Gen.TYPE_FINDER_PATTERN_DARK).isSome = true)
      ∧ (0 < b → (cmGet p.clrMap Gen.TYPE_QUIET_ZONE).isSome = true)
      ∧ out = { width := (w + 2 * b) * scale.toInt.toNat, height := (h + 2 * b) * scale.toInt.toNat, depth := p.depth,
                ctype := if p.isGrey then 0 else 3, plte := plteBytes p, trns := trnsBytes p,
                idat := pngStream idx w p.depth scale.toInt.toNat b (typeIndex p Gen.TYPE_QUIET_ZONE) } := by
  unfold writePng at hw
  change (do
    checkValidScale scale.toInt
    checkValidBorder border
    let clrMap ← parseColormap colormap
    let p ← buildPalette setOrder clrMap
    if (!useVerbose p && ((cmGet p.clrMap Gen.TYPE_QUIET_ZONE).isNone || (cmGet p.clrMap Gen.TYPE_FINDER_PATTERN_DARK).isNone)) = true then
      throw PyErr.keyError
    if (borderPositive w h border && (cmGet p.clrMap Gen.TYPE_QUIET_ZONE).isNone) = true then throw PyErr.keyError
    let b ← borderForRange w h border
    let idx ← indexRows p M w h
    pure ({ width := (w + 2 * b) * scale.toInt.toNat, height := (h + 2 * b) * scale.toInt.toNat, depth := p.depth,
            ctype := if p.isGrey then 0 else 3, plte := plteBytes p, trns := trnsBytes p,
            idat := pngStream idx w p.depth scale.toInt.toNat b (typeIndex p Gen.TYPE_QUIET_ZONE) } : PngOut)) = Except.ok out at hw
  cases h1 : checkValidScale scale.toInt with
  | error e => simp [h1, bind, Except.bind] at hw
  | ok u1 =>
  cases h2 : checkValidBorder border with
  | error e => simp [h1, h2, bind, Except.bind] at hw
  | ok u2 =>
  cases h3 : parseColormap colormap with
  | error e => simp [h1, h2, h3, bind, Except.bind] at hw
  | ok clrMap =>
  cases h4 : buildPalette setOrder clrMap with
  | error e => simp [h1, h2, h3, h4, bind, Except.bind] at hw
  | ok p =>
  simp only [h1, h2, h3, h4, bind, Except.bind] at hw
  by_cases hA : (!useVerbose p && ((cmGet p.clrMap Gen.TYPE_QUIET_ZONE).isNone || (cmGet p.clrMap Gen.TYPE_FINDER_PATTERN_DARK).isNone)) = true
  · simp only [hA, if_true, throw, throwThe, MonadExceptOf.throw] at hw
    cases hw
  · by_cases hB : (borderPositive w h border && (cmGet p.clrMap Gen.TYPE_QUIET_ZONE).isNone) = true
    · simp only [hA, hB, if_true, throw, throwThe, MonadExceptOf.throw] at hw
      cases hw
    · simp only [hA, hB] at hw
      cases h5 : borderForRange w h border with
      | error e => simp [h5] at hw
      | ok b =>
      cases h6 : indexRows p M w h with
      | error e => simp [h5, h6] at hw
      | ok idx =>
      simp only [h5, h6, pure, Except.pure] at hw
      cases hw
      refine ⟨clrMap, p, b, idx, rfl, h4, rfl, h6, checkValidScale_ok _ _ h1, ?_, ?_, rfl⟩
      · intro hv
        rw [hv] at hA
        cases hq : cmGet p.clrMap Gen.TYPE_QUIET_ZONE <;> cases hf : cmGet p.clrMap Gen.TYPE_FINDER_PATTERN_DARK <;>
          simp [hq, hf] at hA ⊢
      · intro hb
        rw [borderForRange_pos w h border b h5 hb] at hB
        cases hq : cmGet p.clrMap Gen.TYPE_QUIET_ZONE <;> simp [hq] at hB ⊢

/-! ### the colour indexes of the modules -/

theorem matrixIterVerbose_unit (M : List (List Nat)) (w h : Nat) (rows : List (List Nat))
    (hr : matrixIterVerbose M w h (.int 1) (some (.int 0)) = .ok rows) :
    ∃ A, alignmentMatrix w = .ok A
      ∧ rows = (List.range h).map (fun y => (List.range w).map (fun x => verboseCell M A w h 0 y x)) := by
  unfold matrixIterVerbose at hr
  have e1 : checkValidBorder (some (Num.int 0)) = .ok () := rfl
  have e2 : checkValidScale (Num.int 1).toInt = .ok () := rfl
  have e3 : borderForRange w h (some (Num.int 0)) = .ok 0 := rfl
  simp only [e1, e2, e3, bind, Except.bind] at hr
  cases hA : alignmentMatrix w with
  | error e => simp [hA] at hr
  | ok A =>
    simp only [hA, pure, Except.pure] at hr
    cases hr
    refine ⟨A, rfl, ?_⟩
    have : (Num.int 1).toInt.toNat = 1 := rfl
    rw [this, iterWith_eq _ _ _ _ _ (by decide)]
    simp only [Nat.mul_zero, Nat.add_zero, Nat.mul_one, Nat.div_one]

theorem getD_getD_map_range (f : Nat → Nat → Nat) (g : Nat → Nat) (h w i j : Nat) (hi : i < h) (hj : j < w) :
    ((((List.range h).map (fun y => (List.range w).map (fun x => f y x))).map (fun row => row.map g)).getD i []).getD j 0
      = g (f i j) := by
  simp [List.getD_eq_getElem?_getD, hi, hj]

/-- the expensive iterator: colour index of every module = index of the type `matrix_iter_verbose` reports -/
theorem indexRows_verbose (p : PaletteInfo) (M : List (List Nat)) (w h : Nat) (idx : List (List Nat))
    (hv : useVerbose p = true) (hi : indexRows p M w h = .ok idx) :
    ∃ A, alignmentMatrix w = .ok A ∧ idx.length = h ∧ (∀ r ∈ idx, r.length = w)
      ∧ ∀ i j, i < h → j < w →
          (cmGet p.clrMap (verboseCell M A w h 0 i j)).isSome = true
          ∧ (idx.getD i []).getD j 0 = typeIndex p (verboseCell M A w h 0 i j) := by
  unfold indexRows at hi
  simp only [hv, if_true, bind, Except.bind] at hi
  cases hr : matrixIterVerbose M w h (.int 1) (some (.int 0)) with
  | error e => simp [hr] at hi
  | ok rows =>
    simp only [hr] at hi
    obtain ⟨A, hA, hrows⟩ := matrixIterVerbose_unit M w h rows hr
    split at hi
    · cases hi
    · rename_i hany
      cases hi
      refine ⟨A, hA, ?_, ?_, ?_⟩
      · rw [hrows]; simp
      · intro r hr'
        rw [hrows] at hr'
        simp only [List.map_map, List.mem_map, List.mem_range] at hr'
        obtain ⟨y, _, rfl⟩ := hr'
        simp
      · intro i j hi' hj'
        constructor
        · cases hs : (cmGet p.clrMap (verboseCell M A w h 0 i j)).isSome with
          | true => rfl
          | false =>
            exfalso
            apply hany
            rw [hrows]
            simp only [List.any_eq_true, List.mem_map, List.mem_range]
            refine ⟨_, ⟨i, hi', rfl⟩, _, List.mem_map.2 ⟨j, List.mem_range.2 hj', rfl⟩, ?_⟩
            cases hc : cmGet p.clrMap (verboseCell M A w h 0 i j) with
            | none => rfl
            | some c => rw [hc] at hs; cases hs
        · rw [hrows]
          exact getD_getD_map_range (verboseCell M A w h 0) (typeIndex p) h w i j hi' hj'

/-- the cheap iterator -/
theorem indexRows_cheap (p : PaletteInfo) (M : List (List Nat)) (w h : Nat) (idx : List (List Nat))
    (hv : useVerbose p = false) (hM : WellFormed M w h) (hi : indexRows p M w h = .ok idx) :
    idx.length = h ∧ (∀ r ∈ idx, r.length = w)
      ∧ ∀ i j, i < h → j < w →
          cellL M i j ≤ 1
          ∧ (idx.getD i []).getD j 0 = typeIndex p (if cellL M i j = 0 then Gen.TYPE_QUIET_ZONE else Gen.TYPE_FINDER_PATTERN_DARK) := by
  obtain ⟨hlen, hrows⟩ := hM
  unfold indexRows at hi
  simp only [hv, Bool.false_eq_true, if_false, bind, Except.bind] at hi
  split at hi
  · cases hi
  · rename_i hany
    simp only [pure, Except.pure] at hi
    cases hi
    refine ⟨by simp [hlen], ?_, ?_⟩
    · intro r hr
      simp only [List.mem_map] at hr
      obtain ⟨r0, hr0, rfl⟩ := hr
      simp [hrows r0 hr0]
    · intro i j hi' hj'
      have hiM : i < M.length := by omega
      have hjr : j < M[i].length := by rw [hrows _ (List.getElem_mem hiM)]; exact hj'
      have hcell : cellL M i j = M[i][j] := by
        simp [cellL, List.getD_eq_getElem?_getD, hiM, hjr]
      constructor
      · rw [hcell]
        apply Nat.le_of_not_lt
        intro hgt
        apply hany
        simp only [List.any_eq_true, decide_eq_true_eq]
        exact ⟨M[i], List.getElem_mem hiM, M[i][j], List.getElem_mem hjr, hgt⟩
      · rw [hcell]
        simp only [List.getD_eq_getElem?_getD, List.getElem?_map, List.getElem?_eq_getElem hiM, Option.map_some,
          Option.getD_some, List.getElem?_eq_getElem hjr]
        by_cases h0 : M[i][j] = 0
        · simp [h0]
        · simp [h0]

end Proofs.Png
