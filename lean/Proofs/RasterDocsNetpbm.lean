/-
  Proofs.RasterDocsNetpbm — the list-level Netpbm readers (Spec/RasterL.lean) applied to the whole files the
  model writes (Model/RasterDocs.lean): PBM P4 and P1, PPM P6.  Mathlib-free.
-/
import Proofs.RasterDocsBase

namespace Proofs.RasterDocs

open Model Model.RasterDocs Spec Proofs.Raster

/-- the picture of a 0 / 1 grid in black (dark) and white (light) -/
def bwPicture (g : List (List Nat)) : List (List (Option RGBA)) :=
  g.map (fun row => row.map (fun v => some (if v ≠ 0 then black else white)))

theorem map_bw_bits (g : List (List Nat)) (hg : ∀ r ∈ g, ∀ v ∈ r, v ≤ 1) : g.map (fun row => row.map L.bw) = bwPicture g := by
  unfold bwPicture
  apply List.map_congr_left
  intro r hr
  apply List.map_congr_left
  intro v hv
  exact bw_bit v (hg r hr v hv)

theorem pbmHeader_eq (t : List Nat) (plain : Bool) (W H : Nat) (raster : List Nat) :
    pbmHeader (35 :: t) plain W H ++ raster =
      80 :: (if plain then 49 else 52) :: 10 :: 35 :: (t ++ 10 :: (decBytes W ++ 32 :: (decBytes H ++ 10 :: raster))) := by
  cases plain <;> simp [pbmHeader, ascii]

/-- the two numbers of a PBM header behind magic number and comment -/
theorem readNum_pbm_header (t : List Nat) (ht : ∀ c ∈ t, c ≠ 10 ∧ c ≠ 13) (W H : Nat) (raster : List Nat) :
    L.readNum (10 :: 35 :: (t ++ 10 :: (decBytes W ++ 32 :: (decBytes H ++ 10 :: raster)))) = some (W, 32 :: (decBytes H ++ 10 :: raster))
    ∧ L.readNum (32 :: (decBytes H ++ 10 :: raster)) = some (H, 10 :: raster) := by
  constructor
  · rw [readNum_ws 10 _ (by decide), readNum_comment t _ ht, readNum_dec W 32 _ (by decide)]
  · rw [readNum_ws 32 _ (by decide), readNum_dec H 10 _ (by decide)]

theorem pbmDoc_eq {w h : Nat} {scale : Num} {border : Option Num} {b : Nat} (a : Admitted w h scale border b)
    (M : List (List Nat)) (hM : WellFormed M w h) (plain : Bool) :
    pbmDoc M w h scale border plain =
      .ok (pbmHeader (35 :: commentTail) plain ((w + 2 * b) * scale.toInt.toNat) ((h + 2 * b) * scale.toInt.toNat)
            ++ (if plain then (grid M w h scale.toInt.toNat b).flatMap plainRow else (grid M w h scale.toInt.toNat b).flatMap (packRow 1))) := by
  simp only [pbmDoc, validSB_ok a, createdBy_eq, matrixIter_ok a M hM, a.okRange, bind, Except.bind, pure, Except.pure]

/-- PBM P4: the reader returns the `Spec.grid` picture in black and white -/
theorem pbm_p4 {w h : Nat} {scale : Num} {border : Option Num} {b : Nat} (a : Admitted w h scale border b)
    (M : List (List Nat)) (hM : WellFormed M w h) (hbits : Bits M) (hw : 0 < w) (hh : 0 < h) :
    ∃ doc, pbmDoc M w h scale border false = .ok doc
      ∧ L.readPbm doc = .ok { w := (w + 2 * b) * scale.toInt.toNat, h := (h + 2 * b) * scale.toInt.toNat,
                              px := bwPicture (grid M w h scale.toInt.toNat b) } := by
  have hs := a.pos
  generalize hsd : scale.toInt.toNat = s at hs
  refine ⟨_, by rw [pbmDoc_eq a M hM, hsd], ?_⟩
  simp only [Bool.false_eq_true, if_false]
  rw [pbmHeader_eq]
  have hW : 0 < (w + 2 * b) * s := Nat.mul_pos (by omega) hs
  have hH : 0 < (h + 2 * b) * s := Nat.mul_pos (by omega) hs
  have hnum := readNum_pbm_header commentTail commentTail_ok ((w + 2 * b) * s) ((h + 2 * b) * s) ((grid M w h s b).flatMap (packRow 1))
  have hrowlen : ∀ r ∈ grid M w h s b, (packRow 1 r).length = ((w + 2 * b) * s + 7) / 8 := by
    intro r hr
    rw [packRow_length, grid_row_length M w h s b r hr]
    omega
  have hlen : ((grid M w h s b).flatMap (packRow 1)).length = ((w + 2 * b) * s + 7) / 8 * ((h + 2 * b) * s) := by
    rw [length_flatMap_const _ _ _ hrowlen, grid_length]
  have hW0 : ((w + 2 * b) * s == 0) = false := by simp; omega
  have hH0 : ((h + 2 * b) * s == 0) = false := by simp; omega
  simp only [L.readPbm, Bool.false_eq_true, if_false, List.headD_cons, hnum.1, hnum.2, hW0, hH0, Bool.or_self, List.drop_succ_cons,
    List.drop_zero, List.isEmpty_cons, Bool.false_or, hlen, bne_self_eq_false]
  have hk : (52 != 52 && 52 != 49) = false := by decide
  have hws : (!isWs 10) = false := by decide
  simp only [hk, hws, Bool.false_eq_true, if_false, beq_self_eq_true, if_true, Bool.false_and]
  congr 1
  congr 1
  have hch := chunks_flatMap (packRow 1) _ (grid M w h s b) hrowlen
  rw [grid_length] at hch
  rw [hch, List.map_map, ← map_bw_bits _ (grid_bits M w h s b hbits)]
  apply List.map_congr_left
  intro r hr
  simp only [Function.comp]
  have := unpack_pack1 r (grid_bits M w h s b hbits r hr)
  rw [grid_row_length M w h s b r hr] at this
  rw [this]

/-! ### plain PBM (P1) -/

theorem decBytes_bit (v : Nat) (hv : v ≤ 1) : decBytes v = [48 + v] := by
  have : v = 0 ∨ v = 1 := by omega
  rcases this with rfl | rfl <;> rfl

theorem plainRow_bits (row : List Nat) (hrow : ∀ v ∈ row, v ≤ 1) : plainRow row = row.map (48 + ·) ++ [10] := by
  unfold plainRow
  congr 1
  induction row with
  | nil => rfl
  | cons v r ih =>
    simp only [List.flatMap_cons, List.map_cons]
    rw [decBytes_bit v (hrow v (by simp)), ih (fun x hx => hrow x (by simp [hx]))]
    rfl

theorem plain_row_facts (r : List Nat) (hr : ∀ v ∈ r, v ≤ 1) :
    ((r.map (48 + ·) ++ [10]).any (fun c => !(c == 48 || c == 49 || isWs c))) = false
    ∧ ((r.map (48 + ·) ++ [10]).filter (fun c => c == 48 || c == 49)).map (· - 48) = r := by
  have hmem : ∀ c ∈ r.map (48 + ·), (c == 48 || c == 49) = true := by
    intro c hc
    simp only [List.mem_map] at hc
    obtain ⟨v, hv, rfl⟩ := hc
    have : v = 0 ∨ v = 1 := by have := hr v hv; omega
    rcases this with rfl | rfl <;> decide
  constructor
  · rw [List.any_eq_false]
    intro x hx
    simp only [List.mem_append, List.mem_singleton] at hx
    rcases hx with hx | rfl
    · have := hmem x hx
      simp only [Bool.or_eq_true, beq_iff_eq] at this
      rcases this with rfl | rfl <;> decide
    · decide
  · rw [List.filter_append, List.filter_eq_self.2 hmem]
    have h10 : List.filter (fun c => c == 48 || c == 49) [10] = [] := by decide
    rw [h10, List.append_nil, List.map_map]
    have : ((fun x => x - 48) ∘ fun x => 48 + x) = (id : Nat → Nat) := by funext x; simp
    rw [this, List.map_id]

theorem plain_raster_ok (rows : List (List Nat)) (hrows : ∀ r ∈ rows, ∀ v ∈ r, v ≤ 1) :
    ((10 :: rows.flatMap plainRow).any (fun c => !(c == 48 || c == 49 || isWs c))) = false
    ∧ ((10 :: rows.flatMap plainRow).filter (fun c => c == 48 || c == 49)).map (· - 48) = rows.flatten := by
  have hbody : ((rows.flatMap plainRow).any (fun c => !(c == 48 || c == 49 || isWs c))) = false
      ∧ ((rows.flatMap plainRow).filter (fun c => c == 48 || c == 49)).map (· - 48) = rows.flatten := by
    induction rows with
    | nil => constructor <;> rfl
    | cons r rest ih =>
      have h1 := plain_row_facts r (hrows r (by simp))
      have h2 := ih (fun x hx => hrows x (by simp [hx]))
      rw [List.flatMap_cons, plainRow_bits r (hrows r (by simp))]
      constructor
      · rw [List.any_append, h1.1, h2.1]; rfl
      · rw [List.filter_append, List.map_append, h1.2, h2.2]; rfl
  constructor
  · rw [List.any_cons, hbody.1]; decide
  · have h10 : (10 == 48 || 10 == 49) = false := by decide
    rw [List.filter_cons]
    simp only [h10, Bool.false_eq_true, if_false]
    exact hbody.2

/-- PBM P1: the reader returns the `Spec.grid` picture in black and white -/
theorem pbm_p1 {w h : Nat} {scale : Num} {border : Option Num} {b : Nat} (a : Admitted w h scale border b)
    (M : List (List Nat)) (hM : WellFormed M w h) (hbits : Bits M) (hw : 0 < w) (hh : 0 < h) :
    ∃ doc, pbmDoc M w h scale border true = .ok doc
      ∧ L.readPbm doc = .ok { w := (w + 2 * b) * scale.toInt.toNat, h := (h + 2 * b) * scale.toInt.toNat,
                              px := bwPicture (grid M w h scale.toInt.toNat b) } := by
  have hs := a.pos
  generalize hsd : scale.toInt.toNat = s at hs
  refine ⟨_, by rw [pbmDoc_eq a M hM, hsd], ?_⟩
  simp only [if_true]
  rw [pbmHeader_eq]
  have hW : 0 < (w + 2 * b) * s := Nat.mul_pos (by omega) hs
  have hH : 0 < (h + 2 * b) * s := Nat.mul_pos (by omega) hs
  have hnum := readNum_pbm_header commentTail commentTail_ok ((w + 2 * b) * s) ((h + 2 * b) * s) ((grid M w h s b).flatMap plainRow)
  have hraster := plain_raster_ok (grid M w h s b) (grid_bits M w h s b hbits)
  have hflat : (grid M w h s b).flatten.length = (w + 2 * b) * s * ((h + 2 * b) * s) := by
    have := length_flatMap_const (fun r : List Nat => r) _ (grid M w h s b) (grid_row_length M w h s b)
    rw [grid_length] at this
    simpa [List.flatMap_id'] using this
  have hW0 : ((w + 2 * b) * s == 0) = false := by simp; omega
  have hH0 : ((h + 2 * b) * s == 0) = false := by simp; omega
  have hk : (49 != 52 && 49 != 49) = false := by decide
  have hk2 : (49 == 52) = false := by decide
  have hws : (!isWs 10) = false := by decide
  simp only [L.readPbm, if_true, List.headD_cons, hnum.1, hnum.2, hW0, hH0, Bool.or_self, hk, hk2, hws, Bool.false_eq_true, if_false,
    hraster.1, hraster.2, hflat, bne_self_eq_false, Bool.and_false]
  congr 1
  congr 1
  have hch := chunks_flatten _ (grid M w h s b) (grid_row_length M w h s b)
  rw [grid_length] at hch
  rw [hch, map_bw_bits _ (grid_bits M w h s b hbits)]

end Proofs.RasterDocs
