/-
  Proofs.RoutesUri — the keyword maps of the data-URI routes: what a pass-through wrapper hands to the
  serialiser, completed with the serialiser's defaults, equals the completed map of a direct call with the
  wrapper's DIFFERING defaults made explicit.
-/
import Proofs.RoutesExec

namespace Proofs.Routes
open Gen (PyV)
open Model Model.Cli Model.Routes Proofs.CliLemmas

theorem cget_dropKeys (names : List String) (kw : Config) (k : String) :
    cget (dropKeys names kw) k = if names.contains k then none else cget kw k := by
  unfold dropKeys
  rw [cget_filter kw (fun x => !names.contains x) k]
  by_cases h : names.contains k = true <;> simp [h]

theorem cget_withDefaults (d kw : Config) (k : String) :
    cget (withDefaults d kw) k = match cget kw k with | some v => some v | none => cget d k := by
  unfold withDefaults
  rw [cget_append, cget_filter d (fun x => !kw.any (·.1 == x)) k]
  cases hk : cget kw k with
  | some v =>
    have : kw.any (·.1 == k) = true := by rw [← isSome_cget_iff, hk]; rfl
    simp [this]
  | none =>
    have : kw.any (·.1 == k) = false := by
      rw [← isSome_cget_iff, hk]; rfl
    simp only [this, Bool.not_false, if_true]
    cases cget d k <;> rfl

/-- the parameters of a wrapper it does not hand on -/
def notPassed (sig : Sig) (passes : List String) : List String :=
  (sig.params.filter (fun p => !passes.contains p.1)).map (·.1)

theorem mem_notPassed (sig : Sig) (passes : List String) (k : String) :
    (notPassed sig passes).contains k = (hasKey sig.params k && !passes.contains k) := by
  unfold notPassed hasKey
  induction sig.params with
  | nil => rfl
  | cons p ps ih =>
    cases hp : passes.contains p.1
    · rw [List.filter_cons_of_pos (by simp only [hp, Bool.not_false]), List.map_cons, List.contains_cons, ih, List.any_cons]
      by_cases hk : p.1 = k
      · subst hk
        simp only [beq_self_eq_true, Bool.true_or, hp, Bool.not_false, Bool.and_self]
      · have h1 : (p.1 == k) = false := by simpa using hk
        have h2 : (k == p.1) = false := by simpa using (Ne.symm hk)
        simp only [h1, h2, Bool.false_or]
    · rw [List.filter_cons_of_neg (by simp only [hp, Bool.not_true, Bool.false_eq_true, not_false_eq_true]), ih, List.any_cons]
      by_cases hk : p.1 = k
      · subst hk
        simp only [hp, Bool.not_true, Bool.and_false]
      · have h1 : (p.1 == k) = false := by simpa using hk
        simp only [h1, Bool.false_or]

/-- **one pass-through wrapper**: the inner call, completed, equals the completed direct call in which the
    wrapper's own parameters that it does not pass are dropped and its differing defaults `D` are explicit -/
theorem through_complete (key : String) (sig : Sig) (passes : List String) (kw b inner defaults D : Config)
    (h : through sig passes kw = .ok (b, inner))
    (hd : serializerDefaults key = some defaults)
    (hsub : ∀ k ∈ passes, hasKey sig.params k = true)
    (F1 : ∀ d ∈ defaults, passes.contains d.1 = true → dflt sig.params d.1 = (cget D d.1).getD d.2)
    (F2 : ∀ k ∈ passes, hasKey defaults k = true)
    (F4 : ∀ k, (cget D k).isSome = true → passes.contains k = true) :
    completeKw key inner = completeKw key (withDefaults D (dropKeys (notPassed sig passes) kw)) := by
  obtain ⟨hc, _, _⟩ := through_cget sig passes kw b inner h hsub
  have hD : ∀ k, passes.contains k = false → cget D k = none := by
    intro k hk
    cases hx : cget D k with
    | none => rfl
    | some v =>
      have := F4 k (by rw [hx]; rfl)
      rw [hk] at this
      exact absurd this (by simp)
  have key_eq : ∀ k, cget (withDefaults D (dropKeys (notPassed sig passes) kw)) k =
      if passes.contains k then (match cget kw k with | some v => some v | none => cget D k)
      else if hasKey sig.params k then none else cget kw k := by
    intro k
    rw [cget_withDefaults, cget_dropKeys, mem_notPassed]
    cases hp : passes.contains k
    · cases hq : hasKey sig.params k
      · simp only [Bool.not_false, Bool.and_true, Bool.false_eq_true, if_false, hD k hp]
        cases cget kw k <;> rfl
      · simp only [Bool.not_false, Bool.and_self, if_true, Bool.false_eq_true, if_false, hD k hp]
    · simp only [Bool.not_true, Bool.and_false, Bool.false_eq_true, if_false, if_true]
  apply completeKw_congr key _ _ defaults hd
  · intro d hdm
    rw [hc d.1, key_eq d.1]
    cases hp : passes.contains d.1
    · simp only [Bool.false_eq_true, if_false]
    · simp only [if_true, Option.getD_some]
      rw [F1 d hdm hp]
      cases cget kw d.1 <;> rfl
  · have hiff : ∀ k, (cget inner k).isSome = (cget (withDefaults D (dropKeys (notPassed sig passes) kw)) k).isSome
        ∨ passes.contains k = true := by
      intro k
      cases hp : passes.contains k
      · left
        rw [hc k, key_eq k]
        simp only [hp, Bool.false_eq_true, if_false]
      · right; rfl
    constructor
    · intro h1 k hk
      rcases hiff k with he | hp
      · exact h1 k (by rw [he]; exact hk)
      · exact F2 k (by simpa using hp)
    · intro h1 k hk
      rcases hiff k with he | hp
      · exact h1 k (by rw [← he]; exact hk)
      · exact F2 k (by simpa using hp)

/-! ### turning kernel-checked table facts into the hypotheses of `through_complete` -/

theorem F1_of_all (defaults params D : Config) (passes : List String)
    (h : defaults.all (fun d => !passes.contains d.1 || (dflt params d.1 == (cget D d.1).getD d.2)) = true) :
    ∀ d ∈ defaults, passes.contains d.1 = true → dflt params d.1 = (cget D d.1).getD d.2 := by
  intro d hd hp
  have := List.all_eq_true.1 h d hd
  simp only [hp, Bool.not_true, Bool.false_or, beq_iff_eq] at this
  exact this

theorem F2_of_all (c : Config) (passes : List String) (h : passes.all (hasKey c) = true) :
    ∀ k ∈ passes, hasKey c k = true := fun k hk => List.all_eq_true.1 h k hk

theorem F4_of_all (D : Config) (passes : List String) (h : D.all (fun e => passes.contains e.1) = true) :
    ∀ k, (cget D k).isSome = true → passes.contains k = true := by
  intro k hk
  rw [isSome_cget_iff] at hk
  obtain ⟨e, he, hek⟩ := List.any_eq_true.1 hk
  have : e.1 = k := by simpa using hek
  rw [← this]
  exact List.all_eq_true.1 h e he

theorem completeKw_of_cget_eq (key : String) (kw1 kw2 : Config) (h : ∀ k, cget kw1 k = cget kw2 k) :
    completeKw key kw1 = completeKw key kw2 := by
  unfold completeKw
  cases hd : serializerDefaults key with
  | none => rfl
  | some defaults =>
    have := completeKw_congr key kw1 kw2 defaults hd (fun d _ => by rw [h d.1])
      (by constructor <;> intro h1 k hk
          · exact h1 k (by rw [h k]; exact hk)
          · exact h1 k (by rw [← h k]; exact hk))
    unfold completeKw at this
    rw [hd] at this
    exact this

theorem dropKeys_nil (kw : Config) : dropKeys [] kw = kw := by
  unfold dropKeys
  simp

theorem withDefaults_nil (kw : Config) : withDefaults [] kw = kw := by
  unfold withDefaults
  simp

end Proofs.Routes
