/-
  Proofs.PngDefs — definitions shared by the PNG theorems of C09 / C11 (Props/C09Png.lean): the model
  stream as a list of scanlines, the reference reconstruction of filtered scanlines (filter types
  0 and 2, `Spec.unfilterUp`), the colour-index picture, and how the reference reader
  (`Spec.Png.img`) interprets a colour code given the chunk contents.
-/
import Spec.Raster
import Model.Png

namespace Proofs.Png

open Model Spec

/-- a scanline: filter type and the filtered bytes -/
abbrev Line := Nat × List Nat

/-- the byte stream of a list of scanlines -/
def flat (lines : List Line) : List Nat := lines.flatMap (fun l => l.1 :: l.2)

/-- a quiet zone row: filter 0 -/
def borderLine (d width qz : Nat) : Line := (0, packRow d (List.replicate width qz))

/-- "same as above": filter 2 ("Up") on a row of zero samples -/
def upLine (d width : Nat) : Line := (2, packRow d (List.replicate width 0))

/-- the colour indexes of one picture row: left quiet zone, every module `s` times, right quiet zone -/
def fullRow (s b qz : Nat) (row : List Nat) : List Nat :=
  List.replicate (b * s) qz ++ scaleRow s row ++ List.replicate (b * s) qz

/-- the `s` scanlines of one module row: one filter-0 scanline, then `s − 1` Up-filtered zero rows -/
def rowLines (d s b qz width : Nat) (row : List Nat) : List Line :=
  (0, packRow d (fullRow s b qz row)) :: List.replicate (s - 1) (upLine d width)

/-- the scanlines of `Model.pngStream idx w d s b qz` -/
def pngLines (idx : List (List Nat)) (w d s b qz : Nat) : List Line :=
  let width := (w + 2 * b) * s
  List.replicate (b * s) (borderLine d width qz) ++ idx.flatMap (rowLines d s b qz width)
    ++ List.replicate (b * s) (borderLine d width qz)

/-- reference reconstruction of filtered scanlines (PNG §9; only the filter types 0 "None" and
    2 "Up" occur): `prev` is the reconstructed scanline above -/
def recon : List Nat → List Line → List (List Nat)
  | _, [] => []
  | prev, (ft, raw) :: rest =>
    let cur := if ft == 2 then unfilterUp raw prev else raw
    cur :: recon cur rest

/-- colour index of the bordered symbol at (ii − b, jj − b): the module's index inside, `qz` outside -/
def idxCell (idx : List (List Nat)) (w b qz : Nat) (ii jj : Nat) : Nat :=
  if b ≤ ii ∧ ii < b + idx.length ∧ b ≤ jj ∧ jj < b + w then (idx.getD (ii - b) []).getD (jj - b) 0 else qz

/-- the colour-index picture: (h+2b)·s rows of (w+2b)·s indexes, pixel (x, y) = `idxCell (y/s) (x/s)` -/
def idxPicture (idx : List (List Nat)) (w s b qz : Nat) : List (List Nat) :=
  iterWith (idxCell idx w b qz) w idx.length s b

/-! ### the reference reader's view of the chunk contents -/

/-- PLTE / tRNS contents → palette entries, as `Spec.readPng` builds them -/
def plteOfBytes (plte trns : List Nat) : List RGBA :=
  ((List.range (plte.length / 3)).map (fun k => (plte.getD (3 * k) 0, plte.getD (3 * k + 1) 0, plte.getD (3 * k + 2) 0))).zipIdx.map
    (fun ((r, g, b), k) => (⟨r, g, b, trns.getD k 255⟩ : RGBA))

/-- the `Spec.Png` the reference reader obtains from IHDR fields, PLTE and tRNS contents (rows left
    empty: the colour of a code does not depend on them) -/
def specPng (depth ctype : Nat) (plte trns : List Nat) : Spec.Png :=
  { hdr := { width := 0, height := 0, depth := depth, ctype := ctype },
    plte := if ctype == 0 then [] else plteOfBytes plte trns,
    greyTrans := if ctype == 0 && trns.length == 2 then some (trns.getD 0 0 * 256 + trns.getD 1 0) else none,
    phys := none, rows := #[] }

/-- the colour the reference reader (`Spec.Png.img`) assigns to colour code `k` -/
def readColour (depth ctype : Nat) (plte trns : List Nat) (k : Nat) : Option RGBA :=
  (specPng depth ctype plte trns).img.colour k

/-- the picture shows colour `c` as `x`: exact RGBA; "transparent" = alpha 0 -/
def Shows (c : PColor) (x : RGBA) : Prop :=
  match c with
  | .transparent => x.a = 0
  | .rgb r g b => x = ⟨r, g, b, 255⟩
  | .rgba r g b a => x = ⟨r, g, b, a⟩

/-- what is assumed of the iteration order of Python's `set`: it yields every distinct value once -/
def SetOrderOK (setOrder : List PColor → List PColor) : Prop :=
  ∀ l, (setOrder l).Nodup ∧ ∀ x, x ∈ setOrder l ↔ x ∈ l

end Proofs.Png
