/-
  Proofs.TieA3Best — `find_and_apply_best_mask` (third round of Tie A): the function matrix (translated `add_finder_patterns`,
  `add_alignment_patterns`, the dark module), the proposed-mask path, and the search loop over `enumerate(mask_patterns)` with
  the state (best_matrix, best_pattern, best_score) against the fold of `Model.findAndApplyBestMask` with its
  `Option (score, index, matrix)`.
-/
import Proofs.TieA3Mask
import Proofs.TieA3Fns
import Proofs.TieA2Finder
import Proofs.TieA2Align
import Proofs.TieA2Scores
import Proofs.TieA2Micro

namespace Proofs.TieA3
open Gen.Py Proofs.TieA Proofs.TieA2 Model

/-! ### the matrices involved are square -/

theorem sq_foldl_any {α : Type} {n : Nat} (f : Matrix → α → Matrix) (hf : ∀ t x, Sq t n → Sq (f t x) n) (l : List α) :
    ∀ t, Sq t n → Sq (l.foldl f t) n := by
  induction l with
  | nil => intro t h; exact h
  | cons x xs ih => intro t h; exact ih _ (hf t x h)

theorem sq_replicate (n v : Nat) : Sq (Array.replicate n (Array.replicate n v)) n := by
  constructor
  · simp
  · intro i hi; simp

theorem sq_makeMatrix (n : Nat) : Sq (Model.makeMatrix n) n := by
  unfold Model.makeMatrix
  simp only []
  apply sq_foldl_any
  · intro t x ht; exact sq_set2 (sq_set2 ht _ _ _) _ _ _
  apply sq_foldl_any
  · intro t x ht
    split
    · exact sq_set2 (sq_set2 (sq_set2 (sq_set2 ht _ _ _) _ _ _) _ _ _) _ _ _
    · exact sq_set2 (sq_set2 ht _ _ _) _ _ _
  split
  · apply sq_foldl_any
    · intro t x ht
      exact sq_set2 (sq_set2 (sq_set2 (sq_set2 (sq_set2 (sq_set2 ht _ _ _) _ _ _) _ _ _) _ _ _) _ _ _) _ _ _
    exact sq_replicate n 2
  · exact sq_replicate n 2

theorem sq_addFinder {m : Matrix} {n : Nat} (k : Nat) (hs : Sq m n) : Sq (Model.addFinderPatterns m k) n := by
  unfold Model.addFinderPatterns
  simp only []
  apply sq_foldl_any _ _ _ _ hs
  intro t x ht
  apply sq_foldl_any _ _ _ _ ht
  intro t r ht
  apply sq_foldl_any _ _ _ _ ht
  intro t c ht
  exact sq_set2 ht _ _ _

theorem sq_addAlignment {m fm : Matrix} {n : Nat} (k : Nat) (hs : Sq m n) (h : Model.addAlignmentPatterns m k = .ok fm) : Sq fm n := by
  unfold Model.addAlignmentPatterns at h
  simp only [] at h
  split at h
  · cases h; exact hs
  · split at h
    · split at h
      · split at h
        · cases h
          apply sq_foldl_any _ _ _ _ hs
          intro t x ht
          split
          · exact ht
          · apply sq_foldl_any _ _ _ _ ht
            intro t r ht
            apply sq_foldl_any _ _ _ _ ht
            intro t c ht
            exact sq_set2 ht _ _ _
        · cases h
      · cases h
    · cases h

/-! ### the search loop -/

/-- one iteration of the model's search: the candidate for pattern `pat` (the k-th of the tuple) against the best one so far -/
def mUpd (isMicro : Bool) (m fm : Matrix) (best : Option (Nat × Nat × Matrix)) (pat k : Nat) : Option (Nat × Nat × Matrix) :=
  match best with
  | none => some ((if isMicro then evaluateMicroMask (applyMask m fm pat) else evaluateMask (applyMask m fm pat)), k, applyMask m fm pat)
  | some (bs, bk, bm) =>
    if (if isMicro then (if isMicro then evaluateMicroMask (applyMask m fm pat) else evaluateMask (applyMask m fm pat)) > bs
        else (if isMicro then evaluateMicroMask (applyMask m fm pat) else evaluateMask (applyMask m fm pat)) < bs)
    then some ((if isMicro then evaluateMicroMask (applyMask m fm pat) else evaluateMask (applyMask m fm pat)), k, applyMask m fm pat)
    else some (bs, bk, bm)

/-- the loop state (best_matrix, best_pattern, best_score) of the translation for a best candidate of the model;
    `none` = nothing assigned yet: `best_matrix = None`, `best_pattern` unbound, `best_score` the initial score -/
def bestSt (init : Int) : Option (Nat × Nat × Matrix) → (Option (List (List Int)) × Option Int × Int)
  | none => (none, none, init)
  | some (s, k, c) => (some (mI c), some (k : Int), (s : Int))

theorem search_loop (mic : Bool) (init : Int) (m fm : Matrix)
    (body : (Option (List (List Int)) × Option Int × Int) → (Int × (Int → Int → Bool)) → M (Option (List (List Int)) × Option Int × Int))
    (hbody : ∀ best (f : Int → Int → Bool) (pat k : Nat), IsMask f pat →
      body (bestSt init best) ((k : Int), f) = .ok (bestSt init (mUpd mic m fm best pat k))) :
    ∀ (fs : List (Int → Int → Bool)) (pats : List Nat), Rel2 IsMask fs pats → ∀ (k0 : Nat) best,
      foldlM ((fs.zipIdx k0).map (fun p => (Int.ofNat p.2, p.1))) (bestSt init best) body
        = .ok (bestSt init ((pats.zipIdx k0).foldl (fun b x => mUpd mic m fm b x.1 x.2) best)) := by
  intro fs pats h
  induction h with
  | nil => intro k0 best; rfl
  | cons hab _ ih =>
    intro k0 best
    rw [List.zipIdx_cons, List.zipIdx_cons, List.map_cons, foldlM_cons, List.foldl_cons]
    have := hbody best _ _ k0 hab
    simp only [Int.ofNat_eq_natCast] at this ⊢
    rw [this]
    exact ih (k0 + 1) _

/-- `Model.findAndApplyBestMask`, spelled out -/
theorem model_best (m : Matrix) (proposed : Option Nat) :
    Model.findAndApplyBestMask m proposed =
      match Model.addAlignmentPatterns (addFinderPatterns (makeMatrix m.size) m.size) m.size with
      | .error e => .error e
      | .ok F2 =>
        match proposed with
        | some p =>
          match (maskPatterns (decide (m.size < 21)))[p]? with
          | none => .error .indexError
          | some pat => .ok (p, applyMask m (if m.size < 21 then F2 else set2 F2 (m.size - 8) 8 1) pat)
        | none =>
          match ((maskPatterns (decide (m.size < 21))).zipIdx).foldl
              (fun b x => mUpd (decide (m.size < 21)) m (if m.size < 21 then F2 else set2 F2 (m.size - 8) 8 1) b x.1 x.2) none with
          | some (_, k, bm) => .ok (k, bm)
          | none => .error .typeError := by
  unfold Model.findAndApplyBestMask Model.functionMatrix
  simp only []
  cases h : Model.addAlignmentPatterns (addFinderPatterns (makeMatrix m.size) m.size) m.size with
  | error e => rfl
  | ok F2 =>
    simp only [Bind.bind, Except.bind, Pure.pure, Except.pure]
    cases proposed with
    | some p =>
      simp only []
      cases hp : (maskPatterns (decide (m.size < 21)))[p]? <;> rfl
    | none =>
      simp only []
      have e : ∀ (F G : Option (Nat × Nat × Matrix) → Nat × Nat → Option (Nat × Nat × Matrix)) (L : List (Nat × Nat)), F = G →
          (match List.foldl F none L with
            | some (_, k, bm) => (Except.ok (k, bm) : R (Nat × Matrix))
            | none => throw PyErr.typeError) =
          (match List.foldl G none L with
            | some (_, k, bm) => (Except.ok (k, bm) : R (Nat × Matrix))
            | none => Except.error PyErr.typeError) := by
        intro F G L hFG; subst hFG; rfl
      apply e
      funext best x
      rcases best with _ | ⟨bs, bk, bm⟩ <;> simp [mUpd]

/-! ### the translation -/

theorem toR_ok_inv {α : Type} {x : M α} {a : α} (h : toR x = .ok a) : x = .ok a := by
  cases x with
  | error e => cases h
  | ok b => simp only [toR_ok, Except.ok.injEq] at h; rw [h]

theorem toR_err_inv {α : Type} {x : M α} {e' : PyErr} (h : toR x = .error e') : ∃ e, x = .error e ∧ exc e = e' := by
  cases x with
  | error e => exact ⟨e, rfl, by simpa using h⟩
  | ok b => cases h

theorem rel2_length {α β : Type} {R : α → β → Prop} {l1 : List α} {l2 : List β} (h : Rel2 R l1 l2) : l1.length = l2.length := by
  induction h with
  | nil => rfl
  | cons _ _ ih => simp [ih]

theorem rel2_get {α β : Type} {R : α → β → Prop} {l1 : List α} {l2 : List β} (h : Rel2 R l1 l2) :
    ∀ (p : Nat) (h1 : p < l1.length) (h2 : p < l2.length), R l1[p] l2[p] := by
  induction h with
  | nil => intro p h1; simp at h1
  | cons hab _ ih =>
    intro p h1 h2
    cases p with
    | zero => exact hab
    | succ p => exact ih p (by simpa using h1) (by simpa using h2)

theorem index_nat {α : Type} (xs : List α) (p : Nat) :
    index xs (p : Int) = match xs[p]? with | some v => .ok v | none => .error .indexError := by
  unfold index
  by_cases h : p < xs.length
  · rw [if_pos ⟨by omega, by omega⟩]
    simp [h]
  · rw [if_neg (by omega), if_neg (by omega)]
    simp [h]

/-- the tuple of mask functions, subscripted with the proposed mask -/
theorem index_patterns (mic : Bool) (p : Nat) :
    match (maskPatterns mic)[p]? with
    | none => index (Gen.Funcs3.get_data_mask_functions mic) (p : Int) = .error .indexError
    | some pat => ∃ f, index (Gen.Funcs3.get_data_mask_functions mic) (p : Int) = .ok f ∧ IsMask f pat := by
  have hr := mask_functions mic
  have hl := rel2_length hr
  rw [index_nat]
  by_cases h : p < (maskPatterns mic).length
  · have h' : p < (Gen.Funcs3.get_data_mask_functions mic).length := by omega
    simp only [List.getElem?_eq_getElem h, List.getElem?_eq_getElem h']
    exact ⟨_, rfl, rel2_get hr p h' h⟩
  · have h' : ¬ p < (Gen.Funcs3.get_data_mask_functions mic).length := by omega
    simp [h, h']

theorem search_then {β : Type} (mic : Bool) (init : Int) (m fm : Matrix)
    (body : (Option (List (List Int)) × Option Int × Int) → (Int × (Int → Int → Bool)) → M (Option (List (List Int)) × Option Int × Int))
    (hbody : ∀ best (f : Int → Int → Bool) (pat k : Nat), IsMask f pat →
      body (bestSt init best) ((k : Int), f) = .ok (bestSt init (mUpd mic m fm best pat k)))
    (fs : List (Int → Int → Bool)) (pats : List Nat) (hr : Rel2 IsMask fs pats)
    (K : (Option (List (List Int)) × Option Int × Int) → M β) :
    Gen.Py.bind (foldlM (enumerate fs) (none, none, init) body) K
      = K (bestSt init ((pats.zipIdx).foldl (fun b x => mUpd mic m fm b x.1 x.2) none)) := by
  have := search_loop mic init m fm body hbody fs pats hr 0 none
  unfold enumerate
  rw [show ((none, none, init) : Option (List (List Int)) × Option Int × Int) = bestSt init none from rfl, this, bind_ok]

theorem ite_bind_same {α β : Type} (c : Bool) (X : M α) (y z : α) (K : α → M β) (h1 : c = true → X = .ok z) (h2 : c = false → y = z) :
    (if c then Gen.Py.bind X K else K y) = K z := by
  cases c
  · simp [h2 rfl]
  · simp [h1 rfl]

/-- what the translation computes, in terms of the model's function matrix F2 (before the dark module) -/
def bestPy (m F2 : Matrix) (n : Nat) (proposed : Option Nat) : M (List (List Int) × Int × Option (List (List Int))) :=
  match proposed with
  | some p =>
    match (maskPatterns (decide (n < 21)))[p]? with
    | none => .error .indexError
    | some pat => .ok (mI (applyMask m (if n < 21 then F2 else set2 F2 (n - 8) 8 1) pat), ((p : Int),
        some (mI (applyMask m (if n < 21 then F2 else set2 F2 (n - 8) 8 1) pat))))
  | none =>
    match ((maskPatterns (decide (n < 21))).zipIdx).foldl
        (fun b x => mUpd (decide (n < 21)) m (if n < 21 then F2 else set2 F2 (n - 8) 8 1) b x.1 x.2) none with
    | some (_, k, bm) => .ok (mI m, ((k : Int), some (mI bm)))
    | none => .error .unboundLocalError

theorem best_py (m : Matrix) (n : Nat) (hs : Sq m n) (hn : 9 ≤ n)
    (hbits : ∀ i j, get2 m i j ≤ 1) (hmax : ¬ n < 21 → ∀ fm p, (evaluateMask (applyMask m fm p) : Int) < 9223372036854775807)
    (proposed : Option Nat) (F2 : Matrix) (hF2 : Sq F2 n)
    (hX : Gen.Funcs2.add_alignment_patterns (mI (addFinderPatterns (makeMatrix n) n)) n n = .ok (mI F2)) :
    Gen.Funcs3.find_and_apply_best_mask (mI m) n n (proposed.map Int.ofNat) (mI (Model.makeMatrix n)) = bestPy m F2 n proposed := by
  unfold Gen.Funcs3.find_and_apply_best_mask
  simp only []
  rw [add_finder_patterns_eq _ n (sq_makeMatrix n) (by omega), bind_ok, hX, bind_ok]
  have hmic : decide ((n : Int) < 21) = decide (n < 21) := by
    rw [Bool.eq_iff_iff]; simp
  simp only [beq_self_eq_true, Bool.true_and, Bool.and_true, hmic]
  generalize hFM : (if n < 21 then F2 else set2 F2 (n - 8) 8 1) = FM
  have hsFM : Sq FM n := by
    rw [← hFM]; split
    · exact hF2
    · exact sq_set2 hF2 _ _ _
  rw [ite_bind_same (!decide (n < 21)) _ _ (mI FM) _ ?h1 ?h2]
  case h1 =>
    intro hc
    have h21 : ¬ n < 21 := by simpa using hc
    rw [← hFM, if_neg h21]
    exact setItem2_cell hF2 (-8) 8 (n - 8) 8 1 (normIndex_neg n 8 (by omega) (by omega)) (normIndex_nat n 8 (by omega))
  case h2 =>
    intro hc
    have h21 : n < 21 := by simpa using hc
    rw [← hFM, if_pos h21]
  unfold bestPy
  rw [hFM]
  cases proposed with
  | some p =>
    simp only [Option.map_some]
    have hi := index_patterns (decide (n < 21)) p
    cases hp : (maskPatterns (decide (n < 21)))[p]? with
    | none =>
      rw [hp] at hi
      simp only [Int.ofNat_eq_natCast]
      rw [hi]; rfl
    | some pat =>
      rw [hp] at hi
      obtain ⟨f, hf1, hf2⟩ := hi
      simp only [Int.ofNat_eq_natCast]
      rw [hf1, bind_ok, apply_mask_fn m FM n pat hs hsFM f hf2, bind_ok]
  | none =>
    simp only [Option.map_none]
    by_cases h21 : n < 21
    · simp only [h21, decide_true, ↓reduceIte]
      rw [search_then true (-1) m FM _ ?hbody _ _ (mask_functions true)]
      case hbody =>
        intro best f pat k hf
        have e1 : List.map (fun ba => slice ba none none) (mI m) = mI m := by simp
        have hc := sq_applyMask FM pat hs
        simp only []
        rw [e1, apply_mask_fn m FM n pat hs hsFM f hf, bind_ok, evaluate_micro_mask_eq _ n hc (by omega), bind_ok]
        rcases best with _ | ⟨bs, bk, bm⟩
        · simp [bestSt, mUpd]
          omega
        · by_cases hgt : evaluateMicroMask (applyMask m FM pat) > bs
          · have hgt' : (Int.ofNat (evaluateMicroMask (applyMask m FM pat))) > (bs : Int) := by
              simp only [Int.ofNat_eq_natCast]; omega
            simp [bestSt, mUpd, hgt, hgt']
          · have hgt' : ¬ (Int.ofNat (evaluateMicroMask (applyMask m FM pat))) > (bs : Int) := by
              simp only [Int.ofNat_eq_natCast]; omega
            simp [bestSt, mUpd, hgt, hgt']
      generalize List.foldl (fun b x => mUpd true m FM b x.1 x.2) none (maskPatterns true).zipIdx = R
      rcases R with _ | ⟨s, k, bm⟩ <;> rfl
    · simp only [h21, decide_false, ↓reduceIte, Bool.false_eq_true]
      rw [search_then false 9223372036854775807 m FM _ ?hbody _ _ (mask_functions false)]
      case hbody =>
        intro best f pat k hf
        have e1 : List.map (fun ba => slice ba none none) (mI m) = mI m := by simp
        have hc := sq_applyMask FM pat hs
        simp only []
        rw [e1, apply_mask_fn m FM n pat hs hsFM f hf, bind_ok,
          evaluate_mask_eq _ n hc (by omega) (applyMask_bits m FM pat hbits), bind_ok]
        rcases best with _ | ⟨bs, bk, bm⟩
        · have hpos := hmax h21 FM pat
          simp [bestSt, mUpd]
          omega
        · by_cases hgt : evaluateMask (applyMask m FM pat) < bs
          · have hgt' : (Int.ofNat (evaluateMask (applyMask m FM pat))) < (bs : Int) := by
              simp only [Int.ofNat_eq_natCast]; omega
            simp [bestSt, mUpd, hgt, hgt']
          · have hgt' : ¬ (Int.ofNat (evaluateMask (applyMask m FM pat))) < (bs : Int) := by
              simp only [Int.ofNat_eq_natCast]; omega
            simp [bestSt, mUpd, hgt, hgt']
      generalize List.foldl (fun b x => mUpd false m FM b x.1 x.2) none (maskPatterns false).zipIdx = R
      rcases R with _ | ⟨s, k, bm⟩ <;> rfl

/-- `find_and_apply_best_mask(matrix, n, n, proposed_mask)` against `Model.findAndApplyBestMask` -/
theorem best_mask_eq (m : Matrix) (n : Nat) (hs : Sq m n) (hn : 9 ≤ n) (hal : n < 25 ∨ (n % 4 = 1 ∧ n ≤ 177))
    (hbits : ∀ i j, get2 m i j ≤ 1) (hmax : ¬ n < 21 → ∀ fm p, (evaluateMask (applyMask m fm p) : Int) < 9223372036854775807)
    (proposed : Option Nat) :
    toR (Gen.Funcs3.find_and_apply_best_mask (mI m) n n (proposed.map Int.ofNat) (mI (Model.makeMatrix n)))
      = (Model.findAndApplyBestMask m proposed).map
          (fun r => (if proposed.isSome then mI r.2 else mI m, ((r.1 : Int), some (mI r.2)))) := by
  rw [model_best, hs.size]
  have hF1 := sq_addFinder n (sq_makeMatrix n)
  have hal2 := add_alignment_patterns_eq _ n hF1 hal
  cases hA : Model.addAlignmentPatterns (addFinderPatterns (makeMatrix n) n) n with
  | error e' =>
    rw [hA] at hal2
    obtain ⟨e, he, hee⟩ := toR_err_inv hal2
    unfold Gen.Funcs3.find_and_apply_best_mask
    simp only []
    rw [add_finder_patterns_eq _ n (sq_makeMatrix n) (by omega), bind_ok, he, bind_error]
    simp only [toR_error, hee]
    rfl
  | ok F2 =>
    rw [hA] at hal2
    have hX := toR_ok_inv hal2
    rw [best_py m n hs hn hbits hmax proposed F2 (sq_addAlignment n hF1 hA) hX]
    unfold bestPy
    cases proposed with
    | some p =>
      simp only []
      cases (maskPatterns (decide (n < 21)))[p]? <;> rfl
    | none =>
      simp only []
      generalize List.foldl (fun b x => mUpd (decide (n < 21)) m (if n < 21 then F2 else set2 F2 (n - 8) 8 1) b x.1 x.2) none
        (maskPatterns (decide (n < 21))).zipIdx = R
      rcases R with _ | ⟨s, k, bm⟩ <;> rfl

/-- Micro QR Codes: no hypothesis on the scores (they are compared with −1) -/
theorem best_mask_micro (m : Matrix) (n : Nat) (hs : Sq m n) (hn : 9 ≤ n) (h21 : n < 21)
    (hbits : ∀ i j, get2 m i j ≤ 1) (proposed : Option Nat) :
    toR (Gen.Funcs3.find_and_apply_best_mask (mI m) n n (proposed.map Int.ofNat) (mI (Model.makeMatrix n)))
      = (Model.findAndApplyBestMask m proposed).map
          (fun r => (if proposed.isSome then mI r.2 else mI m, ((r.1 : Int), some (mI r.2)))) :=
  best_mask_eq m n hs hn (Or.inl (by omega)) hbits (fun h => absurd h21 h) proposed

end Proofs.TieA3
