/-
  Proofs.RSGeneric — over an arbitrary commutative ring: the remainder of the synthetic division by
  a monic polynomial g, appended (negated) to the data, gives a polynomial that vanishes at every
  root of g.  This is the algebraic core of C03 (`block_is_codeword`).
-/
import Mathlib.Tactic.Ring
import Mathlib.Algebra.Ring.Defs
import Mathlib.Algebra.Group.Basic

namespace Proofs.RSGeneric

variable {R : Type} [CommRing R]

def evalAux (x : R) : R → List R → R
  | acc, [] => acc
  | acc, a :: l => evalAux x (acc * x + a) l

/-- Horner evaluation, highest coefficient first -/
def evalP (x : R) (l : List R) : R := evalAux x 0 l

theorem evalAux_eq (x : R) (acc : R) (l : List R) :
    evalAux x acc l = acc * x ^ l.length + evalP x l := by
  induction l generalizing acc with
  | nil => simp [evalAux, evalP]
  | cons a l ih =>
    simp only [evalAux, evalP, List.length_cons]
    rw [ih (acc * x + a), ih (0 * x + a)]
    ring

theorem evalP_cons (x c : R) (l : List R) : evalP x (c :: l) = c * x ^ l.length + evalP x l := by
  show evalAux x (0 * x + c) l = _
  rw [evalAux_eq]; ring

theorem evalP_append (x : R) (l m : List R) : evalP x (l ++ m) = evalP x l * x ^ m.length + evalP x m := by
  induction l with
  | nil => simp [evalP, evalAux]
  | cons a l ih =>
    simp only [List.cons_append, evalP_cons, List.length_append, ih]
    ring

/-- subtract c·g from the first |g| cells of `rest` -/
def subScaled (c : R) : List R → List R → List R
  | g :: gs, r :: rs => (r - c * g) :: subScaled c gs rs
  | [], rs => rs
  | _ :: _, [] => []

theorem subScaled_length (c : R) (g rest : List R) (h : g.length ≤ rest.length) :
    (subScaled c g rest).length = rest.length := by
  induction g generalizing rest with
  | nil => simp [subScaled]
  | cons a g ih =>
    cases rest with
    | nil => simp at h
    | cons r rs => simp [subScaled, ih rs (by simpa using h)]

theorem evalP_subScaled (x c : R) (g rest : List R) (h : g.length ≤ rest.length) :
    evalP x (subScaled c g rest) = evalP x rest - c * evalP x g * x ^ (rest.length - g.length) := by
  induction g generalizing rest with
  | nil => simp [subScaled, evalP, evalAux]
  | cons a g ih =>
    cases rest with
    | nil => simp at h
    | cons r rs =>
      have h' : g.length ≤ rs.length := by simpa using h
      simp only [subScaled, evalP_cons, List.length_cons, Nat.add_sub_add_right]
      rw [ih rs h', subScaled_length c g rs h']
      have : rs.length = g.length + (rs.length - g.length) := by omega
      conv_lhs => rw [this]
      conv_rhs => rw [this]
      simp only [Nat.add_sub_cancel_left]
      ring

/-- k steps of synthetic division by the monic polynomial 1 :: g -/
def divLoop (g : List R) : Nat → List R → List R
  | 0, l => l
  | _ + 1, [] => []
  | k + 1, c :: rest => divLoop g k (subScaled c g rest)

theorem step_eval (x c : R) (g rest : List R) (h : g.length ≤ rest.length)
    (root : evalP x (1 :: g) = 0) :
    evalP x (subScaled c g rest) = evalP x (c :: rest) := by
  rw [evalP_subScaled x c g rest h, evalP_cons]
  rw [evalP_cons] at root
  have hg : evalP x g = - x ^ g.length := by
    have := root; simp only [one_mul] at this
    exact eq_neg_of_add_eq_zero_right this
  have hl : rest.length = g.length + (rest.length - g.length) := by omega
  rw [hg]; conv_rhs => rw [hl]
  rw [pow_add]; ring

theorem divLoop_eval (x : R) (g : List R) (root : evalP x (1 :: g) = 0) :
    ∀ (k : Nat) (l : List R), k + g.length ≤ l.length → evalP x (divLoop g k l) = evalP x l := by
  intro k
  induction k with
  | zero => intro l _; rfl
  | succ k ih =>
    intro l hl
    cases l with
    | nil => simp at hl
    | cons c rest =>
      have h1 : g.length ≤ rest.length := by simp at hl; omega
      simp only [divLoop]
      rw [ih _ (by rw [subScaled_length c g rest h1]; simp at hl; omega)]
      exact step_eval x c g rest h1 root

theorem divLoop_length (g : List R) :
    ∀ (k : Nat) (l : List R), k + g.length ≤ l.length → (divLoop g k l).length = l.length - k := by
  intro k; induction k with
  | zero => intro l _; rfl
  | succ k ih =>
    intro l hl
    cases l with
    | nil => simp at hl
    | cons c rest =>
      have h1 : g.length ≤ rest.length := by simp at hl; omega
      simp only [divLoop]
      rw [ih _ (by rw [subScaled_length c g rest h1]; simp at hl; omega), subScaled_length c g rest h1]
      simp

/-- systematic codeword: data followed by the negated remainder vanishes at every root of 1 :: g -/
theorem codeword_root (x : R) (g d : List R) (root : evalP x (1 :: g) = 0) :
    evalP x (d ++ (divLoop g d.length (d ++ List.replicate g.length 0)).map (fun r => -r)) = 0 := by
  have hz : ∀ n : Nat, evalP x (List.replicate n (0:R)) = 0 := by
    intro n; induction n with
    | zero => rfl
    | succ n ih => rw [List.replicate_succ, evalP_cons, ih]; ring
  have hneg : ∀ l : List R, evalP x (l.map (fun r => -r)) = - evalP x l := by
    intro l; induction l with
    | nil => simp [evalP, evalAux]
    | cons a l ih => simp only [List.map_cons, evalP_cons, List.length_map, ih]; ring
  have hk : d.length + g.length ≤ (d ++ List.replicate g.length (0:R)).length := by simp
  rw [evalP_append, hneg, List.length_map, divLoop_length g _ _ hk, divLoop_eval x g root _ _ hk, evalP_append, hz]
  simp

end Proofs.RSGeneric
